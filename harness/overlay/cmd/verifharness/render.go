//go:build verif

package main

import (
	"bytes"
	"fmt"
	"math/rand"
	"servitor/ansi"
	"servitor/gemtext"
	"servitor/hypertext"
	"servitor/markdown"
	"servitor/object"
	"servitor/plaintext"
	"strings"

	"github.com/yuin/goldmark"
	"github.com/yuin/goldmark/extension"
	"golang.org/x/net/html"
	"golang.org/x/net/html/atom"
)

func dumpNode(n *html.Node) any {
	switch n.Type {
	case html.TextNode:
		return map[string]any{"t": n.Data}
	case html.ElementNode:
		attrs := []any{}
		for _, a := range n.Attr {
			attrs = append(attrs, []any{a.Key, a.Val})
		}
		kids := []any{}
		for c := n.FirstChild; c != nil; c = c.NextSibling {
			kids = append(kids, dumpNode(c))
		}
		return map[string]any{"e": n.Data, "a": attrs, "c": kids}
	}
	return map[string]any{"x": int(n.Type)}
}

func parseForest(src string) ([]any, error) {
	nodes, err := html.ParseFragment(strings.NewReader(src), &html.Node{Type: html.ElementNode, Data: "body", DataAtom: atom.Body})
	if err != nil {
		return nil, err
	}
	out := []any{}
	for _, n := range nodes {
		out = append(out, dumpNode(n))
	}
	return out, nil
}

var mdRenderer = goldmark.New(goldmark.WithExtensions(extension.GFM))

func init() {
	/* op "render": NewMarkup on the source (after the Scrub GetString applies), then Render at
	   each width in order on the same Markup value */
	execs["render"] = func(op Op) any {
		src := ansi.Scrub(S(op, "src"))
		op["scrubbed"] = src
		op["colors"] = processColors()
		var m object.Markup
		var links []string
		var err error
		switch S(op, "media") {
		case "html":
			forest, e := parseForest(src)
			if e != nil {
				return map[string]any{"parseerror": true}
			}
			if !B(op, "nomodel") {
				/* predicate-only ops (very deep or very large documents) travel without the tree */
				op["forest"] = forest
			}
			m, links, err = hypertext.NewMarkup(src)
		case "markdown":
			var buf bytes.Buffer
			if e := mdRenderer.Convert([]byte(src), &buf); e != nil {
				return map[string]any{"parseerror": true}
			}
			forest, e := parseForest(buf.String())
			if e != nil {
				return map[string]any{"parseerror": true}
			}
			if !B(op, "nomodel") {
				op["forest"] = forest
			}
			m, links, err = markdown.NewMarkup(src)
		case "gemini":
			m, links, err = gemtext.NewMarkup(src)
		case "plain":
			m, links, err = plaintext.NewMarkup(src)
		}
		if err != nil {
			return map[string]any{"parseerror": true}
		}
		outs := []any{}
		for _, w := range L(op, "widths") {
			outs = append(outs, m.Render(I(Op{"v": w}, "v")))
		}
		/* the same widths, each on a markup value that has never been rendered before: what the
		   text at a width is when nothing happened earlier (skipped for the very deep documents) */
		if !B(op, "nomodel") {
			fresh := []any{}
			for _, w := range L(op, "widths") {
				var fm interface{ Render(int) string }
				switch S(op, "media") {
				case "html":
					fm, _, _ = hypertext.NewMarkup(src)
				case "markdown":
					fm, _, _ = markdown.NewMarkup(src)
				case "gemini":
					fm, _, _ = gemtext.NewMarkup(src)
				default:
					fm, _, _ = plaintext.NewMarkup(src)
				}
				fresh = append(fresh, fm.Render(I(Op{"v": w}, "v")))
			}
			op["fresh"] = fresh
		}
		return map[string]any{"links": toAnyList(links), "out": outs}
	}
	/* op "renderpair": several Markup values alive at once, rendered alternately at a sequence of
	   (document, width) steps; what one of them was last asked may not show in another */
	execs["renderpair"] = func(op Op) any {
		op["colors"] = processColors()
		type renderer interface{ Render(int) string }
		build := func(media, src string) (renderer, []string, error) {
			switch media {
			case "html":
				return hypertext.NewMarkup(src)
			case "markdown":
				return markdown.NewMarkup(src)
			case "gemini":
				return gemtext.NewMarkup(src)
			}
			return plaintext.NewMarkup(src)
		}
		docs := L(op, "docs")
		ms := make([]renderer, len(docs))
		medias := make([]string, len(docs))
		srcs := make([]string, len(docs))
		forests := make([]any, len(docs))
		scrubbed := make([]any, len(docs))
		links := make([]any, len(docs))
		for i, d := range docs {
			dm, _ := d.(map[string]any)
			medias[i] = S(dm, "media")
			srcs[i] = ansi.Scrub(S(dm, "src"))
			scrubbed[i] = srcs[i]
			forests[i] = []any{}
			htmlSrc := srcs[i]
			if medias[i] == "markdown" {
				var buf bytes.Buffer
				if e := mdRenderer.Convert([]byte(srcs[i]), &buf); e != nil {
					return map[string]any{"parseerror": true}
				}
				htmlSrc = buf.String()
			}
			if medias[i] == "html" || medias[i] == "markdown" {
				f, e := parseForest(htmlSrc)
				if e != nil {
					return map[string]any{"parseerror": true}
				}
				forests[i] = f
			}
			m, l, err := build(medias[i], srcs[i])
			if err != nil {
				return map[string]any{"parseerror": true}
			}
			ms[i] = m
			links[i] = toAnyList(l)
		}
		op["forests"] = forests
		op["scrubbed"] = scrubbed
		outs := []any{}
		fresh := []any{}
		for _, st := range L(op, "seq") {
			p, _ := st.([]any)
			if len(p) != 2 {
				continue
			}
			k, w := I(Op{"v": p[0]}, "v"), I(Op{"v": p[1]}, "v")
			if k < 0 || k >= len(ms) {
				continue
			}
			outs = append(outs, ms[k].Render(w))
			/* the same document at the same width on a value nothing else has touched */
			fm, _, _ := build(medias[k], srcs[k])
			fresh = append(fresh, fm.Render(w))
		}
		op["fresh"] = fresh
		return map[string]any{"links": links, "out": outs}
	}
	groups["render"] = group{gen: genRender}
	groups["renderdeep"] = group{gen: genRenderDeep}
}

/* ---------- document generators ---------- */

type docGen struct {
	r      *rand.Rand
	nlabel int
	labels []any // [label, target]
	clean  bool  // no construct that prints two numbers adjacently
}

var injections = []string{"&#27;[2J", "&#x1b;]0;pwn&#7;", "&#155;31m", "&#x9b;", "&#0;", "&#127;", "&NewLine;", "&Tab;", "\x1b[31m", "\u009b", "\x07", "&#8;", "&#13;", "&#x85;", "&amp;#27;"}

func (g *docGen) word() string {
	r := g.r
	switch weighted(r, 30, 3, 2, 2) {
	case 0:
		l := 1 + r.Intn(9)
		b := make([]rune, l)
		for i := range b {
			b[i] = pick(r, []rune("abcdefghijklmnopqrstuvwxyzABC0123.,!?-éλ漢😀"))
		}
		return string(b)
	case 1:
		return pick(r, injections)
	case 2:
		return strings.Repeat(pick(r, []string{"x", "wide", "漢"}), 10+r.Intn(40))
	}
	return pick(r, []string{"&lt;b&gt;", "&amp;", "&quot;", "a&nbsp;b", "<!-- c -->", "m[0;1m"})
}

func (g *docGen) text(n int) string {
	parts := []string{}
	for i := 0; i < 1+g.r.Intn(n); i++ {
		parts = append(parts, g.word())
	}
	sep := " "
	if g.r.Intn(6) == 0 {
		sep = pick(g.r, []string{"  ", "\n", " \t ", "\r\n"})
	}
	return strings.Join(parts, sep)
}

func (g *docGen) label() (string, string) {
	g.nlabel++
	l := fmt.Sprintf("L%dq", g.nlabel)
	t := fmt.Sprintf("https://t.example/%d", g.nlabel)
	g.labels = append(g.labels, []any{l, t})
	return l, t
}

func (g *docGen) inline(depth int) string {
	r := g.r
	switch weighted(r, 10, 4, 4, 1, 1) {
	case 0:
		return g.text(6)
	case 1:
		tag := pick(r, []string{"b", "strong", "i", "em", "u", "ins", "s", "del", "code", "mark", "span"})
		if depth > 3 {
			return g.text(3)
		}
		return "<" + tag + ">" + g.inline(depth+1) + "</" + tag + ">"
	case 2:
		l, t := g.label()
		inner := l
		if r.Intn(4) == 0 && depth < 3 {
			inner = l + " " + g.inline(depth+1)
		}
		return "<a href=\"" + t + "\">" + inner + "</a>"
	case 3:
		return "<br>"
	}
	tag := pick(r, []string{"blink", "font", "x-y", "table"})
	return "<" + tag + ">" + g.text(3) + "</" + tag + ">"
}

func (g *docGen) inlines(depth int) string {
	parts := []string{}
	for i := 0; i < 1+g.r.Intn(4); i++ {
		parts = append(parts, g.inline(depth))
	}
	return strings.Join(parts, pick(g.r, []string{" ", " ", "", "\n"}))
}

func (g *docGen) media() string {
	r := g.r
	l, t := g.label()
	tag := pick(r, []string{"img", "img", "video", "audio", "iframe"})
	altk := "alt"
	if tag == "iframe" {
		altk = "title"
	}
	switch weighted(r, 6, 1, 1) {
	case 1:
		/* no alt: the link itself is shown */
		g.labels = g.labels[:len(g.labels)-1]
		if r.Intn(3) == 0 {
			/* … and the link carries character references to control characters */
			return "<" + tag + " src=\"" + t + "?" + pick(r, injections) + "x" + pick(r, injections) + "\">"
		}
		return "<" + tag + " src=\"" + t + "\">"
	case 2:
		/* no src: not a link at all */
		g.labels = g.labels[:len(g.labels)-1]
		return "<" + tag + " " + altk + "=\"" + l + "\">"
	}
	return "<" + tag + " src=\"" + t + "\" " + altk + "=\"" + l + " " + g.word() + "\">"
}

func (g *docGen) block(depth int) string {
	r := g.r
	if depth > 4 {
		return "<p>" + g.inlines(depth) + "</p>"
	}
	switch weighted(r, 8, 3, 3, 3, 2, 1, 2, 2) {
	case 0:
		return "<" + pick(r, []string{"p", "div"}) + ">" + g.inlines(depth) + "</p>"
	case 1:
		return "<blockquote>" + g.blocks(depth+1, 2) + "</blockquote>"
	case 2:
		items := []string{}
		for i := 0; i < 1+r.Intn(3); i++ {
			inner := g.inlines(depth)
			if r.Intn(4) == 0 {
				inner += g.block(depth + 1)
			}
			items = append(items, "<li>"+inner+"</li>")
		}
		if r.Intn(8) == 0 {
			items = append(items, "<p>stray</p>")
		}
		return "<ul>" + strings.Join(items, "") + "</ul>"
	case 3:
		h := pick(r, []string{"h1", "h2", "h3", "h4", "h5", "h6"})
		return "<" + h + ">" + g.inlines(depth) + "</" + h + ">"
	case 4:
		return "<pre>" + g.text(8) + "\n  " + g.text(4) + "</pre>"
	case 5:
		return "<hr>"
	case 6:
		return g.media()
	case 7:
		/* a linked image / nested link containers */
		_, t := g.label()
		g.labels = g.labels[:len(g.labels)-1] // the anchor has no text of its own
		return "<a href=\"" + t + "\">" + g.media() + "</a>"
	}
	return ""
}

func (g *docGen) blocks(depth int, max int) string {
	parts := []string{}
	for i := 0; i < 1+g.r.Intn(max); i++ {
		if g.r.Intn(3) == 0 {
			parts = append(parts, g.inlines(depth))
		} else {
			parts = append(parts, g.block(depth))
		}
	}
	return strings.Join(parts, pick(g.r, []string{"", "\n", " "}))
}

func (g *docGen) markdownDoc() string {
	r := g.r
	parts := []string{}
	for i := 0; i < 1+r.Intn(5); i++ {
		switch weighted(r, 6, 2, 2, 2, 2, 1, 2) {
		case 0:
			parts = append(parts, g.text(10))
		case 1:
			parts = append(parts, strings.Repeat("#", 1+r.Intn(6))+" "+g.text(4))
		case 2:
			parts = append(parts, "* "+g.text(4)+"\n* "+g.text(4)+"\n    * "+g.text(3))
		case 3:
			parts = append(parts, "> "+g.text(6)+"\n> > "+g.text(3))
		case 4:
			l, t := g.label()
			parts = append(parts, g.text(2)+" ["+l+"]("+t+") "+g.text(2))
		case 5:
			parts = append(parts, "```\n"+g.text(5)+"\n```")
		case 6:
			l, t := g.label()
			parts = append(parts, "!["+l+"]("+t+") **"+g.text(2)+"** ~~"+g.text(2)+"~~ `"+g.text(2)+"` ---")
		}
	}
	return strings.Join(parts, "\n\n")
}

func (g *docGen) gemtextDoc() string {
	r := g.r
	lines := []string{}
	for i := 0; i < 1+r.Intn(8); i++ {
		switch weighted(r, 6, 3, 2, 2, 2, 2, 1) {
		case 0:
			lines = append(lines, g.text(10))
		case 1:
			l, t := g.label()
			sep := pick(r, []string{" ", "  ", "\t"})
			if r.Intn(4) == 0 {
				g.labels = g.labels[:len(g.labels)-1]
				lines = append(lines, "=>"+pick(r, []string{"", " "})+t)
			} else {
				lines = append(lines, "=>"+pick(r, []string{"", " ", "\t "})+t+sep+l+" "+g.word())
			}
		case 2:
			lines = append(lines, strings.Repeat("#", 1+r.Intn(4))+pick(r, []string{" ", "  ", "\t", ""})+g.text(5))
		case 3:
			lines = append(lines, "* "+g.text(6))
		case 4:
			lines = append(lines, ">"+pick(r, []string{" ", "", "  "})+g.text(6))
		case 5:
			lines = append(lines, "```"+pick(r, []string{"", "go"}), g.text(6), "  "+g.text(12), "```")
		case 6:
			lines = append(lines, pick(r, []string{"", "=>", "#", "*", ">", "```"}))
		}
	}
	return strings.Join(lines, "\n")
}

func (g *docGen) plainDoc() string {
	r := g.r
	parts := []string{}
	for i := 0; i < 1+r.Intn(8); i++ {
		switch weighted(r, 6, 3, 1, 1) {
		case 0:
			parts = append(parts, g.text(6))
		case 1:
			g.nlabel++
			t := fmt.Sprintf("https://t.example/%d", g.nlabel)
			g.labels = append(g.labels, []any{t, t})
			parts = append(parts, t)
		case 2:
			parts = append(parts, pick(r, []string{"x://", "://y", "a+b.c-d://h[1]:2/p?q=1#f", "http://", "1http://x", "mailto:a@b", "ftp://ftp.example/;type=a"}))
		case 3:
			parts = append(parts, "\n")
		}
	}
	return strings.Join(parts, pick(r, []string{" ", " ", "\n", ", "}))
}

func genWidthSeq(r *rand.Rand) []any {
	n := 1 + r.Intn(4)
	if r.Intn(8) == 0 {
		n = 5 + r.Intn(10)
	}
	ws := []any{}
	for i := 0; i < n; i++ {
		w := genWidth(r)
		if r.Intn(25) == 0 {
			w = pick(r, []int{251, 300, 500, 1000}) // wider than any ordinary terminal
		}
		if r.Intn(3) == 0 {
			w = pick(r, []int{80, 80, 76, 72, 1, 2})
		}
		if i > 0 && r.Intn(4) == 0 {
			w = I(Op{"v": ws[r.Intn(len(ws))]}, "v") // return to an earlier width
		}
		ws = append(ws, w)
	}
	return ws
}

func genDoc(r *rand.Rand, g *docGen) (string, string) {
	switch weighted(r, 5, 2, 2, 2) {
	case 0:
		return "html", g.blocks(0, 4)
	case 1:
		return "markdown", g.markdownDoc()
	case 2:
		return "gemini", g.gemtextDoc()
	}
	return "plain", g.plainDoc()
}

/*
a long history of terminal sizes: up from 1 and back down, a slow drag, jumps between a few

	sizes, a random walk
*/
func genWidthHistory(r *rand.Rand) []any {
	ws := []any{}
	top := 20 + r.Intn(200)
	switch r.Intn(5) {
	case 0:
		step := 1 + r.Intn(4)
		for w := 1; w <= top; w += step {
			ws = append(ws, w)
		}
		for w := top; w >= 1; w -= step {
			ws = append(ws, w)
		}
	case 1:
		/* a drag: every width between two sizes, there and back, twice */
		lo := 1 + r.Intn(top)
		hi := lo + 5 + r.Intn(40)
		for k := 0; k < 2; k++ {
			for w := lo; w <= hi; w++ {
				ws = append(ws, w)
			}
			for w := hi; w >= lo; w-- {
				ws = append(ws, w)
			}
		}
	case 2:
		sizes := []int{80, 80, 1 + r.Intn(top), 1 + r.Intn(top), 1 + r.Intn(10), 0, -1, 79, 81}
		for k := 10 + r.Intn(60); k > 0; k-- {
			ws = append(ws, pick(r, sizes))
		}
	case 3:
		w := 1 + r.Intn(top)
		for k := 20 + r.Intn(100); k > 0; k-- {
			w += r.Intn(7) - 3
			ws = append(ws, w)
		}
	case 4:
		/* back to 80 (the width NewMarkup itself renders at) after every other size */
		for k := 8 + r.Intn(30); k > 0; k-- {
			ws = append(ws, 1+r.Intn(top), 80)
		}
	}
	return ws
}

func genRender(r *rand.Rand, n int, emit func(Op)) {
	for i := 0; i < n; i++ {
		switch weighted(r, 40, 2, 3) {
		case 1:
			/* one document, a long history of widths */
			g := &docGen{r: r, clean: true}
			media, src := genDoc(r, g)
			emit(Op{"op": "render", "media": media, "src": src, "widths": genWidthHistory(r), "labels": g.labels, "checknumbers": true})
			continue
		case 2:
			/* two or three documents alive at once, rendered alternately */
			k := 2 + r.Intn(2)
			docs := []any{}
			for d := 0; d < k; d++ {
				g := &docGen{r: r, clean: true}
				media, src := genDoc(r, g)
				if d > 0 && r.Intn(4) == 0 {
					/* the same text again, under the same or another media type */
					prev := docs[d-1].(map[string]any)
					src = prev["src"].(string)
					if r.Intn(2) == 0 {
						media = prev["media"].(string)
					}
				}
				docs = append(docs, map[string]any{"media": media, "src": src})
			}
			if r.Intn(4) == 0 {
				/* what one document defines must not reach another: a Markdown document that
				   uses link labels it does not define, created before and after one that defines
				   them (and footnote-like, heading and emphasis state likewise) */
				labels := []string{"alpha", "1", "changelog", "Home Page", "x"}
				uses := ""
				defs := ""
				for _, l := range labels {
					if r.Intn(3) != 0 {
						uses += pick(r, []string{"see [" + l + "] ", "see [" + l + "][] ", "see [text][" + l + "] ", "![pic][" + l + "] ", "[" + strings.ToUpper(l) + "] "})
						defs += "[" + l + "]: https://t.example/" + strings.ReplaceAll(l, " ", "-") + pick(r, []string{"", " \"title\"", "\n"}) + "\n"
					}
				}
				user := map[string]any{"media": "markdown", "src": "intro " + uses + "end\n\nsecond paragraph [unrelated]\n"}
				definer := map[string]any{"media": "markdown", "src": "a document of its own [alpha]\n\n" + defs}
				docs = []any{user, definer, map[string]any{"media": "markdown", "src": user["src"]}}
				if r.Intn(2) == 0 {
					docs = append(docs, map[string]any{"media": pick(r, []string{"html", "markdown"}), "src": user["src"]})
				}
				k = len(docs)
			}
			seq := []any{}
			ws := genWidthSeq(r)
			for s := 4 + r.Intn(20); s > 0; s-- {
				w := I(Op{"v": pick(r, ws)}, "v")
				if r.Intn(4) == 0 {
					w = genWidth(r)
				}
				seq = append(seq, []any{r.Intn(k), w})
				if r.Intn(3) == 0 {
					/* every document at this very width */
					for d := 0; d < k; d++ {
						seq = append(seq, []any{d, w})
					}
				}
			}
			emit(Op{"op": "renderpair", "docs": docs, "seq": seq})
			continue
		}
		g := &docGen{r: r, clean: true}
		var media, src string
		switch weighted(r, 5, 2, 2, 2) {
		case 0:
			media, src = "html", g.blocks(0, 4)
		case 1:
			media, src = "markdown", g.markdownDoc()
		case 2:
			media, src = "gemini", g.gemtextDoc()
		case 3:
			media, src = "plain", g.plainDoc()
		}
		widths := genWidthSeq(r)
		if r.Intn(6) == 0 {
			/* widths around the length of the source and of its longest line, then wider and
			   narrower again: what a cache keyed on "it fitted last time" gets wrong */
			L := len([]rune(src))
			longest := 0
			for _, l := range strings.Split(src, "\n") {
				if n := len([]rune(l)); n > longest {
					longest = n
				}
			}
			base := pick(r, []int{L, L, longest, longest + 1, L - 1})
			if base < 1 {
				base = 1
			}
			if base > 240 {
				base = 240
			}
			widths = []any{base, base + 1 + r.Intn(30), base - r.Intn(3), base + 40}
			if r.Intn(2) == 0 {
				widths = append([]any{80}, widths...)
			}
		}
		emit(Op{"op": "render", "media": media, "src": src, "widths": widths, "labels": g.labels, "checknumbers": true})
	}
}

/*
widths beyond what the other generators use: wide terminals, the largest size a terminal can

	report (TIOCGWINSZ holds an unsigned short), and the edges of the integer types
*/
var extremeWidths = []int{300, 500, 1000, 4096, 65535, 65531, 1<<31 - 1, 1 << 31, 1<<32 + 7, 1 << 62, 1<<63 - 1, -80, -65535, -(1 << 31), -1<<63 + 70000}

var inlineTags = []string{"b", "i", "u", "s", "code", "mark", "em", "strong", "del", "ins", "span"}

func repeatJoin(n int, f func(i int) string) string {
	var b strings.Builder
	for i := 0; i < n; i++ {
		b.WriteString(f(i))
	}
	return b.String()
}

/*
Wide rather than deep: single lines of 10^4..10^5 characters, thousands of siblings, long
attribute values, widths far beyond 300, and inline nesting of several hundred levels.

All of it predicate-only (no crash, no hang, safe, neutral, within the width).  The sizes stay
inside what the real code handles in about a second: ansi.Apply is quadratic in the number of
styled cells and every enclosing element re-scans them (the recorded C06 finding), so styled
stretches are kept below ~15 000 cells, padded <pre> blocks below ~8 000 cells, and
cells x depth^2 of nested inline styling below ~2 000 000.  Beyond these bounds the real code takes
tens of seconds; see genReportedDefects.
*/
func genRenderWide(r *rand.Rand, emit func(Op)) {
	w := pick(r, []int{80, 80, 40, 120, 200, 1, 2, 0})
	if r.Intn(2) == 0 {
		w = pick(r, extremeWidths)
	}
	media, src := "html", ""
	filler := func(n int) string {
		/* n characters: one word, ordinary words, or wide characters */
		switch r.Intn(4) {
		case 0:
			return strings.Repeat("x", n)
		case 1:
			return strings.Repeat("漢", n)
		case 2:
			return strings.Repeat("word ", n/5)
		}
		return repeatJoin(n/8, func(i int) string {
			return pick(r, []string{"lorem ", "ipsum ", "a ", "consectetur ", "é😀 ", "&amp; ", "x-y/z "})
		})
	}
	switch weighted(r, 4, 5, 3, 3, 3, 2, 4) {
	case 6:
		/* every construct of a markup in one small document, at an extreme width (the constructs
		   whose output is as wide as the width itself, <pre> and <hr>, at widths they can fill) */
		w = pick(r, extremeWidths)
		switch r.Intn(4) {
		case 0:
			media, src = "gemini", "text line\n=> https://t.example/1 label one\n=>https://t.example/2\n# h1\n## h2\n### h3\n* bullet\n> quote\n```alt\npre  formatted\n  block\n```\n=> \n>\n```\nunclosed"
		case 1:
			media, src = "plain", "see https://t.example/1 and https://t.example/2, also x://y\n\nsecond paragraph "+strings.Repeat("word ", 30)
		case 2:
			media, src = "markdown", "# h\n\ntext *em* **strong** ~~del~~ `code` [l](https://t.example/1) ![i](https://t.example/2)\n\n* a\n* b\n    * c\n\n> q\n> > qq\n\n1. one\n2. two\n\n| a | b |\n|---|---|\n| c | d |\n"
			if r.Intn(3) == 0 {
				w = pick(r, []int{300, 1000, 2000})
				src += "\n```\ncode\n```\n\n---\n"
			}
		case 3:
			src = "<p>text <b>b</b> <i>i</i> <u>u</u> <s>s</s> <code>c  c</code> <mark>m</mark> <span>sp</span> <a href=\"https://t.example/1\">l</a><br>next</p>" +
				"<blockquote>q <blockquote>qq</blockquote></blockquote><ul><li>one</li><li>two<ul><li>deep</li></ul></li><p>stray</p></ul>" +
				"<h1>1</h1><h2>2</h2><h3>3</h3><h4>4</h4><h5>5</h5><h6>6</h6><img src=\"https://t.example/i\" alt=\"a\"><video src=\"https://t.example/v\"></video>" +
				"<iframe src=\"https://t.example/f\" title=\"t\"></iframe><audio alt=\"no src\"></audio><blink>unknown</blink><div>d</div>"
			if r.Intn(3) == 0 {
				w = pick(r, []int{300, 1000, 2000})
				src += "<pre>pre  formatted\n  block</pre><hr><blockquote><hr></blockquote>"
			}
		}
	case 0:
		/* one very long line */
		n := pick(r, []int{10000, 20000, 50000, 100000})
		switch r.Intn(6) {
		case 0:
			media, src = "plain", filler(n)
		case 1:
			media, src = "gemini", pick(r, []string{"", "* ", "> ", "# ", "=> https://t.example/x "})+filler(n/4)
			if strings.HasPrefix(src, "=>") || strings.HasPrefix(src, "#") || strings.HasPrefix(src, ">") {
				src = src[:len(src)/4] // styled line: fewer cells
				src = strings.ToValidUTF8(src, "")
			}
		case 2:
			media, src = "markdown", filler(n)
		case 3:
			src = "<p>" + filler(n) + "</p>"
		case 4:
			/* styled: bounded */
			t := pick(r, inlineTags)
			src = "<" + t + ">" + filler(2000+r.Intn(12000)) + "</" + t + ">"
		case 5:
			/* many URLs on one line of plain text: every one becomes a numbered link */
			k := 100 + r.Intn(400)
			media, src = "plain", repeatJoin(k, func(i int) string { return fmt.Sprintf("https://t.example/%d ", i) })
		}
	case 1:
		/* thousands of siblings */
		n := 500 + r.Intn(2500)
		switch r.Intn(12) {
		case 0:
			src = repeatJoin(n, func(i int) string { return "<p>x</p>" })
		case 1:
			src = "a" + strings.Repeat("<br>", n) + "b"
		case 2:
			src = "<ul>" + repeatJoin(n, func(i int) string { return "<li>x</li>" }) + "</ul>"
		case 3:
			src = repeatJoin(n/2, func(i int) string { return "<b>x</b> " })
		case 4:
			src = repeatJoin(n/8, func(i int) string { return fmt.Sprintf("<a href=\"https://t.example/%d\">l</a> ", i) })
		case 5:
			src = repeatJoin(n/10, func(i int) string { return fmt.Sprintf("<img src=\"https://t.example/%d\" alt=\"p\">", i) })
		case 6:
			if w > 100 || w < -100 {
				w = 40
			}
			src = strings.Repeat("<hr>", n/10)
		case 7:
			media, src = "gemini", repeatJoin(n/3, func(i int) string {
				return pick(r, []string{"=> https://t.example/x l", "# h", "* b", "> q", "t", "", "=>"}) + "\n"
			})
		case 8:
			media, src = "plain", strings.Repeat("a\n", n)+strings.Repeat("\n", n)
		case 9:
			media, src = "markdown", repeatJoin(n/4, func(i int) string { return "* item\n" })
		case 10:
			src = "<table>" + repeatJoin(n/20, func(i int) string { return "<tr><td>c</td></tr>" }) + "</table>"
		case 11:
			src = repeatJoin(n/4, func(i int) string { return "<h" + fmt.Sprint(1+i%6) + ">t</h" + fmt.Sprint(1+i%6) + ">" })
		}
	case 2:
		/* long attribute values */
		long := "https://t.example/" + strings.Repeat(pick(r, []string{"a", "%41", "é", "/p"}), 5000+r.Intn(45000))
		switch r.Intn(5) {
		case 0:
			src = "<a href=\"" + long + "\">l</a>"
		case 1:
			/* shown, hence styled: bounded */
			cut := 3000 + r.Intn(3000)
			if cut > len(long) {
				cut = len(long)
			}
			src = "<img src=\"" + long[:cut] + "\">"
			src = strings.ToValidUTF8(src, "")
		case 2:
			src = "<img src=\"https://t.example/i\" alt=\"" + strings.Repeat("alt ", 500+r.Intn(900)) + "\">"
		case 3:
			src = "<iframe title=\"" + strings.Repeat("t", 2000+r.Intn(3000)) + "\" src=\"" + long + "\"></iframe>"
		case 4:
			src = "<p class=\"" + long + "\" " + repeatJoin(300, func(i int) string { return fmt.Sprintf("a%d=\"v\" ", i) }) + ">x</p><span style=\"" + long + "\">y</span>"
		}
	case 3:
		/* an ordinary document at an extreme width; <pre> and <hr> produce text as wide as the
		   width itself, so documents containing them get widths they can fill in time */
		g := &docGen{r: r}
		media, src = genDoc(r, g)
		w = pick(r, extremeWidths)
		asHTML := src
		if media == "markdown" {
			var buf bytes.Buffer
			mdRenderer.Convert([]byte(src), &buf)
			asHTML = buf.String()
		}
		if (media == "html" || media == "markdown") && (strings.Contains(asHTML, "<pre") || strings.Contains(asHTML, "<hr")) {
			w = pick(r, []int{300, 500, 1000, 2000})
		}
		emit(Op{"op": "render", "media": media, "src": src, "widths": []any{w, pick(r, extremeWidths[:3]), 80, w}, "labels": []any{}, "nomodel": true})
		return
	case 4:
		/* inline nesting, hundreds of levels, around a few characters */
		d := pick(r, []int{50, 100, 200, 300, 500})
		cells := 2000000 / (d * d)
		if cells > 300 {
			cells = 300
		}
		if cells < 1 {
			cells = 1
		}
		text := strings.Repeat("word ", cells/5) + "x"
		mixed := r.Intn(2) == 0
		tag := pick(r, append([]string{"a href=\"https://t.example/x\"", "font", "small", "sup"}, inlineTags...))
		var open, close strings.Builder
		closes := []string{}
		for i := 0; i < d; i++ {
			t := tag
			if mixed {
				t = inlineTags[r.Intn(len(inlineTags))]
			}
			if (t == "font" || t == "small" || t == "sup") && i >= 30 {
				/* unknown tags print their own names at every level: that grows the text */
				t = "span"
			}
			open.WriteString("<" + t + ">")
			closes = append(closes, "</"+strings.Fields(t)[0]+">")
		}
		for i := len(closes) - 1; i >= 0; i-- {
			close.WriteString(closes[i])
		}
		src = open.String() + text + close.String()
	case 5:
		/* a <pre> block of many short lines (every line is padded to the width and styled):
		   lines x width bounded */
		lines := 10 + r.Intn(90)
		w = pick(r, []int{1, 20, 80, 8000 / lines, 8000/lines + 1})
		src = "<pre>" + repeatJoin(lines, func(i int) string { return pick(r, []string{"x", "", "  indented", "a b"}) + "\n" }) + "</pre>"
		if r.Intn(3) == 0 {
			media, src = "markdown", "```\n"+repeatJoin(lines, func(i int) string { return "x\n" })+"```"
		}
	}
	emit(Op{"op": "render", "media": media, "src": src, "widths": []any{w}, "labels": []any{}, "nomodel": true})
}

/*
Documents of a few kilobytes on which the real code took tens of seconds (C06 as stated asks for
seconds) until results were no longer built by repeated concatenation (repaired in the code); they
are generated so that the quadratic behaviour is reported if it ever returns.  The last one stays
below the width at which a single <pre> is slow for another reason (width 65535: the padding
cells of one line are styled one by one; part of the recorded finding).
*/
func genRenderSlow(r *rand.Rand, emit func(Op)) {
	one := func(media, src string, w int) {
		emit(Op{"op": "render", "media": media, "src": src, "widths": []any{w}, "labels": []any{}, "nomodel": true})
	}
	switch r.Intn(4) {
	case 0:
		one("html", "<pre>"+strings.Repeat("x\n", 1000)+"</pre>", 80)
	case 1:
		one("markdown", "```\n"+strings.Repeat("x\n", 1000)+"```", 80)
	case 2:
		one("html", repeatJoin(100, func(i int) string { return "<" + inlineTags[i%len(inlineTags)] + ">" })+strings.Repeat("word ", 400)+repeatJoin(100, func(i int) string { return "</" + inlineTags[(99-i)%len(inlineTags)] + ">" }), 80)
	case 3:
		one("html", "<pre>x</pre>", 16000)
	}
}

/* deep nesting: panics, hangs and blow-up live here */
func genRenderDeep(r *rand.Rand, n int, emit func(Op)) {
	for i := 0; i < n; i++ {
		if r.Intn(20) == 0 {
			genRenderSlow(r, emit)
			continue
		}
		if r.Intn(3) == 0 {
			genRenderWide(r, emit)
			continue
		}
		if r.Intn(8) == 0 {
			/* one preformatted ancestor around many width-consuming levels (lists, headings):
			   every level past the available width must stay cheap */
			k := 12 + r.Intn(36)
			outer := pick(r, []string{"pre", "code", "pre><code"})
			lvl := pick(r, []string{"ul><li", "ol><li", "ul><li"})
			open := "<" + outer + ">" + strings.Repeat("<"+lvl+">", k)
			closeL := "</li></ul>"
			if strings.HasPrefix(lvl, "ol") {
				closeL = "</li></ol>"
			}
			close := strings.Repeat(closeL, k) + "</code></pre>"
			emit(Op{"op": "render", "media": "html", "src": open + pick(r, []string{"two words", "x", "a b c d e f g h"}) + close, "widths": []any{pick(r, []int{80, 80, 10, 40})}, "labels": []any{}, "nomodel": true})
			continue
		}
		depth := 3 + r.Intn(28)
		if r.Intn(3) == 0 {
			depth = 3 + r.Intn(8)
		}
		tags := []string{"blockquote", "ul><li", "div", "b", "h3", "code", "pre", "a href=\"https://t.example/x\"", "blink"}
		open, close := "", ""
		mix := r.Intn(3) == 0
		tag := pick(r, tags)
		pres := 0
		for d := 0; d < depth; d++ {
			if mix {
				tag = pick(r, tags)
				/* nested <pre> is the recorded slow case: keep mixed nests below it */
				for tag == "pre" && pres >= 4 {
					tag = pick(r, tags)
				}
				if tag == "pre" {
					pres++
				}
			}
			open += "<" + tag + ">"
			name := strings.Fields(strings.ReplaceAll(tag, ">", " "))
			for k := len(name) - 1; k >= 0; k-- {
				nm := strings.TrimPrefix(name[k], "<")
				if strings.Contains(nm, "=") {
					continue
				}
				close = "</" + nm + ">" + close
			}
		}
		if !mix && tag == "pre" && depth > 20 {
			/* deeply nested <pre> is the recorded slow case (KNOWN_FINDINGS: render time grows
			   with the nesting depth); the corpus holds one instance, the generator stays below it */
			depth = 3 + r.Intn(18)
			open, close = strings.Repeat("<pre>", depth), strings.Repeat("</pre>", depth)
		}
		inner := pick(r, []string{"hello world", "<hr>", "x", "<img src=\"https://t.example/i\" alt=\"pic\">", "a b c d e f g"})
		w := pick(r, []int{-1, 0, 1, 2, 5, 20, 80})
		emit(Op{"op": "render", "media": "html", "src": open + inner + close, "widths": []any{w}, "labels": []any{}, "nomodel": depth > 10 || (depth > 5 && tag == "pre")})
	}
}
