//go:build verif

package main

import (
	"bytes"
	"fmt"
	"math/rand"
	"servitor/ansi"
	"servitor/gemtext"
	"servitor/hypertext"
	"servitor/markdown"
	"servitor/object"
	"servitor/plaintext"
	"strings"

	"github.com/yuin/goldmark"
	"github.com/yuin/goldmark/extension"
	"golang.org/x/net/html"
	"golang.org/x/net/html/atom"
)

func dumpNode(n *html.Node) any {
	switch n.Type {
	case html.TextNode:
		return map[string]any{"t": n.Data}
	case html.ElementNode:
		attrs := []any{}
		for _, a := range n.Attr {
			attrs = append(attrs, []any{a.Key, a.Val})
		}
		kids := []any{}
		for c := n.FirstChild; c != nil; c = c.NextSibling {
			kids = append(kids, dumpNode(c))
		}
		return map[string]any{"e": n.Data, "a": attrs, "c": kids}
	}
	return map[string]any{"x": int(n.Type)}
}

func parseForest(src string) ([]any, error) {
	nodes, err := html.ParseFragment(strings.NewReader(src), &html.Node{Type: html.ElementNode, Data: "body", DataAtom: atom.Body})
	if err != nil {
		return nil, err
	}
	out := []any{}
	for _, n := range nodes {
		out = append(out, dumpNode(n))
	}
	return out, nil
}

var mdRenderer = goldmark.New(goldmark.WithExtensions(extension.GFM))

func init() {
	/* op "render": NewMarkup on the source (after the Scrub GetString applies), then Render at
	   each width in order on the same Markup value */
	execs["render"] = func(op Op) any {
		src := ansi.Scrub(S(op, "src"))
		op["scrubbed"] = src
		var m object.Markup
		var links []string
		var err error
		switch S(op, "media") {
		case "html":
			forest, e := parseForest(src)
			if e != nil {
				return map[string]any{"parseerror": true}
			}
			op["forest"] = forest
			m, links, err = hypertext.NewMarkup(src)
		case "markdown":
			var buf bytes.Buffer
			if e := mdRenderer.Convert([]byte(src), &buf); e != nil {
				return map[string]any{"parseerror": true}
			}
			forest, e := parseForest(buf.String())
			if e != nil {
				return map[string]any{"parseerror": true}
			}
			op["forest"] = forest
			m, links, err = markdown.NewMarkup(src)
		case "gemini":
			m, links, err = gemtext.NewMarkup(src)
		case "plain":
			m, links, err = plaintext.NewMarkup(src)
		}
		if err != nil {
			return map[string]any{"parseerror": true}
		}
		outs := []any{}
		for _, w := range L(op, "widths") {
			outs = append(outs, m.Render(I(Op{"v": w}, "v")))
		}
		/* the same widths, each on a markup value that has never been rendered before: what the
		   text at a width is when nothing happened earlier (skipped for the very deep documents) */
		if !B(op, "nomodel") {
			fresh := []any{}
			for _, w := range L(op, "widths") {
				var fm interface{ Render(int) string }
				switch S(op, "media") {
				case "html":
					fm, _, _ = hypertext.NewMarkup(src)
				case "markdown":
					fm, _, _ = markdown.NewMarkup(src)
				case "gemini":
					fm, _, _ = gemtext.NewMarkup(src)
				default:
					fm, _, _ = plaintext.NewMarkup(src)
				}
				fresh = append(fresh, fm.Render(I(Op{"v": w}, "v")))
			}
			op["fresh"] = fresh
		}
		return map[string]any{"links": toAnyList(links), "out": outs}
	}
	groups["render"] = group{gen: genRender}
	groups["renderdeep"] = group{gen: genRenderDeep}
}

/* ---------- document generators ---------- */

type docGen struct {
	r      *rand.Rand
	nlabel int
	labels []any // [label, target]
	clean  bool  // no construct that prints two numbers adjacently
}

var injections = []string{"&#27;[2J", "&#x1b;]0;pwn&#7;", "&#155;31m", "&#x9b;", "&#0;", "&#127;", "&NewLine;", "&Tab;", "\x1b[31m", "\u009b", "\x07", "&#8;", "&#13;", "&#x85;", "&amp;#27;"}

func (g *docGen) word() string {
	r := g.r
	switch weighted(r, 30, 3, 2, 2) {
	case 0:
		l := 1 + r.Intn(9)
		b := make([]rune, l)
		for i := range b {
			b[i] = pick(r, []rune("abcdefghijklmnopqrstuvwxyzABC0123.,!?-éλ漢😀"))
		}
		return string(b)
	case 1:
		return pick(r, injections)
	case 2:
		return strings.Repeat(pick(r, []string{"x", "wide", "漢"}), 10+r.Intn(40))
	}
	return pick(r, []string{"&lt;b&gt;", "&amp;", "&quot;", "a&nbsp;b", "<!-- c -->", "m[0;1m"})
}

func (g *docGen) text(n int) string {
	parts := []string{}
	for i := 0; i < 1+g.r.Intn(n); i++ {
		parts = append(parts, g.word())
	}
	sep := " "
	if g.r.Intn(6) == 0 {
		sep = pick(g.r, []string{"  ", "\n", " \t ", "\r\n"})
	}
	return strings.Join(parts, sep)
}

func (g *docGen) label() (string, string) {
	g.nlabel++
	l := fmt.Sprintf("L%dq", g.nlabel)
	t := fmt.Sprintf("https://t.example/%d", g.nlabel)
	g.labels = append(g.labels, []any{l, t})
	return l, t
}

func (g *docGen) inline(depth int) string {
	r := g.r
	switch weighted(r, 10, 4, 4, 1, 1) {
	case 0:
		return g.text(6)
	case 1:
		tag := pick(r, []string{"b", "strong", "i", "em", "u", "ins", "s", "del", "code", "mark", "span"})
		if depth > 3 {
			return g.text(3)
		}
		return "<" + tag + ">" + g.inline(depth+1) + "</" + tag + ">"
	case 2:
		l, t := g.label()
		inner := l
		if r.Intn(4) == 0 && depth < 3 {
			inner = l + " " + g.inline(depth+1)
		}
		return "<a href=\"" + t + "\">" + inner + "</a>"
	case 3:
		return "<br>"
	}
	tag := pick(r, []string{"blink", "font", "x-y", "table"})
	return "<" + tag + ">" + g.text(3) + "</" + tag + ">"
}

func (g *docGen) inlines(depth int) string {
	parts := []string{}
	for i := 0; i < 1+g.r.Intn(4); i++ {
		parts = append(parts, g.inline(depth))
	}
	return strings.Join(parts, pick(g.r, []string{" ", " ", "", "\n"}))
}

func (g *docGen) media() string {
	r := g.r
	l, t := g.label()
	tag := pick(r, []string{"img", "img", "video", "audio", "iframe"})
	altk := "alt"
	if tag == "iframe" {
		altk = "title"
	}
	switch weighted(r, 6, 1, 1) {
	case 1:
		/* no alt: the link itself is shown */
		g.labels = g.labels[:len(g.labels)-1]
		if r.Intn(3) == 0 {
			/* … and the link carries character references to control characters */
			return "<" + tag + " src=\"" + t + "?" + pick(r, injections) + "x" + pick(r, injections) + "\">"
		}
		return "<" + tag + " src=\"" + t + "\">"
	case 2:
		/* no src: not a link at all */
		g.labels = g.labels[:len(g.labels)-1]
		return "<" + tag + " " + altk + "=\"" + l + "\">"
	}
	return "<" + tag + " src=\"" + t + "\" " + altk + "=\"" + l + " " + g.word() + "\">"
}

func (g *docGen) block(depth int) string {
	r := g.r
	if depth > 4 {
		return "<p>" + g.inlines(depth) + "</p>"
	}
	switch weighted(r, 8, 3, 3, 3, 2, 1, 2, 2) {
	case 0:
		return "<" + pick(r, []string{"p", "div"}) + ">" + g.inlines(depth) + "</p>"
	case 1:
		return "<blockquote>" + g.blocks(depth+1, 2) + "</blockquote>"
	case 2:
		items := []string{}
		for i := 0; i < 1+r.Intn(3); i++ {
			inner := g.inlines(depth)
			if r.Intn(4) == 0 {
				inner += g.block(depth + 1)
			}
			items = append(items, "<li>"+inner+"</li>")
		}
		if r.Intn(8) == 0 {
			items = append(items, "<p>stray</p>")
		}
		return "<ul>" + strings.Join(items, "") + "</ul>"
	case 3:
		h := pick(r, []string{"h1", "h2", "h3", "h4", "h5", "h6"})
		return "<" + h + ">" + g.inlines(depth) + "</" + h + ">"
	case 4:
		return "<pre>" + g.text(8) + "\n  " + g.text(4) + "</pre>"
	case 5:
		return "<hr>"
	case 6:
		return g.media()
	case 7:
		/* a linked image / nested link containers */
		_, t := g.label()
		g.labels = g.labels[:len(g.labels)-1] // the anchor has no text of its own
		return "<a href=\"" + t + "\">" + g.media() + "</a>"
	}
	return ""
}

func (g *docGen) blocks(depth int, max int) string {
	parts := []string{}
	for i := 0; i < 1+g.r.Intn(max); i++ {
		if g.r.Intn(3) == 0 {
			parts = append(parts, g.inlines(depth))
		} else {
			parts = append(parts, g.block(depth))
		}
	}
	return strings.Join(parts, pick(g.r, []string{"", "\n", " "}))
}

func (g *docGen) markdownDoc() string {
	r := g.r
	parts := []string{}
	for i := 0; i < 1+r.Intn(5); i++ {
		switch weighted(r, 6, 2, 2, 2, 2, 1, 2) {
		case 0:
			parts = append(parts, g.text(10))
		case 1:
			parts = append(parts, strings.Repeat("#", 1+r.Intn(6))+" "+g.text(4))
		case 2:
			parts = append(parts, "* "+g.text(4)+"\n* "+g.text(4)+"\n    * "+g.text(3))
		case 3:
			parts = append(parts, "> "+g.text(6)+"\n> > "+g.text(3))
		case 4:
			l, t := g.label()
			parts = append(parts, g.text(2)+" ["+l+"]("+t+") "+g.text(2))
		case 5:
			parts = append(parts, "```\n"+g.text(5)+"\n```")
		case 6:
			l, t := g.label()
			parts = append(parts, "!["+l+"]("+t+") **"+g.text(2)+"** ~~"+g.text(2)+"~~ `"+g.text(2)+"` ---")
		}
	}
	return strings.Join(parts, "\n\n")
}

func (g *docGen) gemtextDoc() string {
	r := g.r
	lines := []string{}
	for i := 0; i < 1+r.Intn(8); i++ {
		switch weighted(r, 6, 3, 2, 2, 2, 2, 1) {
		case 0:
			lines = append(lines, g.text(10))
		case 1:
			l, t := g.label()
			sep := pick(r, []string{" ", "  ", "\t"})
			if r.Intn(4) == 0 {
				g.labels = g.labels[:len(g.labels)-1]
				lines = append(lines, "=>"+pick(r, []string{"", " "})+t)
			} else {
				lines = append(lines, "=>"+pick(r, []string{"", " ", "\t "})+t+sep+l+" "+g.word())
			}
		case 2:
			lines = append(lines, strings.Repeat("#", 1+r.Intn(4))+pick(r, []string{" ", "  ", "\t", ""})+g.text(5))
		case 3:
			lines = append(lines, "* "+g.text(6))
		case 4:
			lines = append(lines, ">"+pick(r, []string{" ", "", "  "})+g.text(6))
		case 5:
			lines = append(lines, "```"+pick(r, []string{"", "go"}), g.text(6), "  "+g.text(12), "```")
		case 6:
			lines = append(lines, pick(r, []string{"", "=>", "#", "*", ">", "```"}))
		}
	}
	return strings.Join(lines, "\n")
}

func (g *docGen) plainDoc() string {
	r := g.r
	parts := []string{}
	for i := 0; i < 1+r.Intn(8); i++ {
		switch weighted(r, 6, 3, 1, 1) {
		case 0:
			parts = append(parts, g.text(6))
		case 1:
			g.nlabel++
			t := fmt.Sprintf("https://t.example/%d", g.nlabel)
			g.labels = append(g.labels, []any{t, t})
			parts = append(parts, t)
		case 2:
			parts = append(parts, pick(r, []string{"x://", "://y", "a+b.c-d://h[1]:2/p?q=1#f", "http://", "1http://x", "mailto:a@b", "ftp://ftp.example/;type=a"}))
		case 3:
			parts = append(parts, "\n")
		}
	}
	return strings.Join(parts, pick(r, []string{" ", " ", "\n", ", "}))
}

func genWidthSeq(r *rand.Rand) []any {
	n := 1 + r.Intn(4)
	ws := []any{}
	for i := 0; i < n; i++ {
		w := genWidth(r)
		if r.Intn(3) == 0 {
			w = pick(r, []int{80, 80, 76, 72, 1, 2})
		}
		if i > 0 && r.Intn(4) == 0 {
			w = I(Op{"v": ws[r.Intn(len(ws))]}, "v") // return to an earlier width
		}
		ws = append(ws, w)
	}
	return ws
}

func genRender(r *rand.Rand, n int, emit func(Op)) {
	for i := 0; i < n; i++ {
		g := &docGen{r: r, clean: true}
		var media, src string
		switch weighted(r, 5, 2, 2, 2) {
		case 0:
			media, src = "html", g.blocks(0, 4)
		case 1:
			media, src = "markdown", g.markdownDoc()
		case 2:
			media, src = "gemini", g.gemtextDoc()
		case 3:
			media, src = "plain", g.plainDoc()
		}
		widths := genWidthSeq(r)
		if r.Intn(6) == 0 {
			/* widths around the length of the source and of its longest line, then wider and
			   narrower again: what a cache keyed on "it fitted last time" gets wrong */
			L := len([]rune(src))
			longest := 0
			for _, l := range strings.Split(src, "\n") {
				if n := len([]rune(l)); n > longest {
					longest = n
				}
			}
			base := pick(r, []int{L, L, longest, longest + 1, L - 1})
			if base < 1 {
				base = 1
			}
			if base > 240 {
				base = 240
			}
			widths = []any{base, base + 1 + r.Intn(30), base - r.Intn(3), base + 40}
			if r.Intn(2) == 0 {
				widths = append([]any{80}, widths...)
			}
		}
		emit(Op{"op": "render", "media": media, "src": src, "widths": widths, "labels": g.labels, "checknumbers": true})
	}
}

/* deep nesting: panics, hangs and blow-up live here */
func genRenderDeep(r *rand.Rand, n int, emit func(Op)) {
	for i := 0; i < n; i++ {
		if r.Intn(8) == 0 {
			/* one preformatted ancestor around many width-consuming levels (lists, headings):
			   every level past the available width must stay cheap */
			k := 12 + r.Intn(36)
			outer := pick(r, []string{"pre", "code", "pre><code"})
			lvl := pick(r, []string{"ul><li", "ol><li", "ul><li"})
			open := "<" + outer + ">" + strings.Repeat("<"+lvl+">", k)
			closeL := "</li></ul>"
			if strings.HasPrefix(lvl, "ol") {
				closeL = "</li></ol>"
			}
			close := strings.Repeat(closeL, k) + "</code></pre>"
			emit(Op{"op": "render", "media": "html", "src": open + pick(r, []string{"two words", "x", "a b c d e f g h"}) + close, "widths": []any{pick(r, []int{80, 80, 10, 40})}, "labels": []any{}, "nomodel": true})
			continue
		}
		depth := 3 + r.Intn(28)
		if r.Intn(3) == 0 {
			depth = 3 + r.Intn(8)
		}
		tags := []string{"blockquote", "ul><li", "div", "b", "h3", "code", "pre", "a href=\"https://t.example/x\"", "blink"}
		open, close := "", ""
		mix := r.Intn(3) == 0
		tag := pick(r, tags)
		pres := 0
		for d := 0; d < depth; d++ {
			if mix {
				tag = pick(r, tags)
				/* nested <pre> is the recorded slow case: keep mixed nests below it */
				for tag == "pre" && pres >= 4 {
					tag = pick(r, tags)
				}
				if tag == "pre" {
					pres++
				}
			}
			open += "<" + tag + ">"
			name := strings.Fields(strings.ReplaceAll(tag, ">", " "))
			for k := len(name) - 1; k >= 0; k-- {
				nm := strings.TrimPrefix(name[k], "<")
				if strings.Contains(nm, "=") {
					continue
				}
				close = "</" + nm + ">" + close
			}
		}
		if !mix && tag == "pre" && depth > 9 {
			/* nested <pre> is the recorded slow case (KNOWN_FINDINGS: cubic render time); the
			   corpus holds one instance, the generator stays below it */
			depth = 3 + r.Intn(7)
			open, close = strings.Repeat("<pre>", depth), strings.Repeat("</pre>", depth)
		}
		inner := pick(r, []string{"hello world", "<hr>", "x", "<img src=\"https://t.example/i\" alt=\"pic\">", "a b c d e f g"})
		w := pick(r, []int{-1, 0, 1, 2, 5, 20, 80})
		emit(Op{"op": "render", "media": "html", "src": open + inner + close, "widths": []any{w}, "labels": []any{}, "nomodel": depth > 10 || (depth > 5 && tag == "pre")})
	}
}
