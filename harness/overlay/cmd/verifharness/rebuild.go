//go:build verif

package main

import (
	"encoding/json"
	"math/rand"
	"net/url"
	"reflect"
	"servitor/object"
	"servitor/pub"
	"strings"
)

/*
op "rebuild": an item is built from a decoded JSON document, shown, and built again from the SAME
decoded document (what happens when a cached document is reached a second time: a cache hit, a
thread walked twice, a page of the history revisited).  Observed: the decoded document is, value
for value, what it was before anything was built from it; the second item shows what the first
showed.  Documents carry, in front of every list they have, what a constructor might want to
drop: null, the public pseudo-collection, an empty object, a number.
*/
func deepCopyJSON(v any) any {
	switch x := v.(type) {
	case map[string]any:
		m := make(map[string]any, len(x))
		for k, e := range x {
			m[k] = deepCopyJSON(e)
		}
		return m
	case []any:
		l := make([]any, len(x))
		for i, e := range x {
			l[i] = deepCopyJSON(e)
		}
		return l
	}
	return v
}

func buildAs(as string, o object.Object, id *url.URL) pub.Tangible {
	switch as {
	case "post":
		if p, err := pub.NewPostFromObject(o, id); err != nil {
			return pub.NewFailure(err)
		} else {
			return p
		}
	case "actor":
		if a, err := pub.NewActorFromObject(o, id); err != nil {
			return pub.NewFailure(err)
		} else {
			return a
		}
	case "activity":
		if a, err := pub.NewActivityFromObject(o, id); err != nil {
			return pub.NewFailure(err)
		} else {
			return a
		}
	}
	return pub.NewTangible(map[string]any(o), id)
}

/* in front of (sometimes behind, sometimes between) the entries of every list of the document */
func saltLists(r *rand.Rand, v any, depth int) any {
	salts := []any{nil, "https://www.w3.org/ns/activitystreams#Public", "as:Public", "Public", map[string]any{}, 0.0, "", false}
	switch x := v.(type) {
	case map[string]any:
		for k, e := range x {
			x[k] = saltLists(r, e, depth+1)
			/* a single value where a list may stand becomes a list of it, now and then */
			if _, isList := x[k].([]any); !isList && depth == 0 && r.Intn(6) == 0 && k != "type" && k != "id" {
				x[k] = []any{pick(r, salts), x[k], deepCopyJSON(x[k])}
			}
		}
		return x
	case []any:
		out := []any{}
		for i, e := range x {
			if i == 0 || r.Intn(3) == 0 {
				out = append(out, pick(r, salts))
			}
			out = append(out, saltLists(r, e, depth+1))
		}
		if len(x) == 0 && r.Intn(2) == 0 {
			out = append(out, pick(r, salts))
		}
		return out
	}
	return v
}

/* error texts of the resolver and the dialer name ephemeral ports: ASCII digits are left out of the
   comparison of the two showings (superscript link numbers are not ASCII digits) */
func withoutDigits(v any) any {
	switch x := v.(type) {
	case string:
		return strings.Map(func(c rune) rune {
			if c >= '0' && c <= '9' {
				return -1
			}
			return c
		}, x)
	case []any:
		out := make([]any, len(x))
		for i, e := range x {
			out[i] = withoutDigits(e)
		}
		return out
	}
	return v
}

func init() {
	execs["rebuild"] = func(op Op) any {
		var doc map[string]any
		if err := json.Unmarshal([]byte(S(op, "doc")), &doc); err != nil {
			return map[string]any{"baddoc": true}
		}
		before := deepCopyJSON(doc)
		o := object.Object(doc)
		var id *url.URL
		if B(op, "withid") {
			if u, err := o.GetURL("id"); err == nil {
				id = u
			}
		}
		show := func(t pub.Tangible) []any {
			out := []any{t.Name()}
			for _, w := range L(op, "widths") {
				wi := I(Op{"v": w}, "v")
				out = append(out, t.String(wi), t.Preview(wi))
			}
			for k := 0; k <= 4; k++ {
				link, mt, ok := t.SelectLink(k)
				essence := ""
				if mt != nil {
					essence = mt.Essence
				}
				out = append(out, []any{link, essence, ok})
			}
			return out
		}
		first := show(buildAs(S(op, "as"), o, id))
		unchangedAfterFirst := reflect.DeepEqual(before, map[string]any(doc))
		second := show(buildAs(S(op, "as"), o, id))
		unchanged := reflect.DeepEqual(before, map[string]any(doc))
		return map[string]any{"unchanged": unchanged && unchangedAfterFirst, "same": reflect.DeepEqual(withoutDigits(first), withoutDigits(second)), "first": first, "second": second}
	}
	groups["rebuild"] = group{gen: func(r *rand.Rand, n int, emit func(Op)) {
		fuzzLarge = false
		defer func() { fuzzLarge = true }()
		genPubFuzz(r, n, func(op Op) {
			if op["op"] != "pubfuzz" {
				return
			}
			var doc map[string]any
			if json.Unmarshal([]byte(S(op, "doc")), &doc) != nil {
				return
			}
			if r.Intn(4) != 0 {
				doc = saltLists(r, doc, 0).(map[string]any)
			}
			b, _ := json.Marshal(doc)
			emit(Op{"op": "rebuild", "doc": string(b), "as": op["as"], "withid": op["withid"], "widths": []any{genWidth(r), pick(r, []int{1, 20, 80, 84})}})
		})
	}}
}
