//go:build verif

package main

import (
	"errors"
	"fmt"
	"math/rand"
	"servitor/ansi"
	"servitor/config"
	"servitor/style"
	"strings"
	"unicode"
)

/* style expressions: ["t", text] | ["cat", a, b] | [fn, a] */
func evalSE(e []any) string {
	switch e[0].(string) {
	case "t":
		return e[1].(string)
	case "cat":
		return evalSE(e[1].([]any)) + evalSE(e[2].([]any))
	case "bold":
		return style.Bold(evalSE(e[1].([]any)))
	case "italic":
		return style.Italic(evalSE(e[1].([]any)))
	case "underline":
		return style.Underline(evalSE(e[1].([]any)))
	case "strike":
		return style.Strikethrough(evalSE(e[1].([]any)))
	case "color":
		return style.Color(evalSE(e[1].([]any)))
	case "red":
		return style.Red(evalSE(e[1].([]any)))
	case "code":
		return style.Code(evalSE(e[1].([]any)))
	case "highlight":
		return style.Highlight(evalSE(e[1].([]any)))
	}
	panic("bad style expression")
}

/* the colours the process runs with, as the style layer reads them (default or configured) */
func processColors() []any {
	c := config.Parsed.Style.Colors
	return []any{c.Primary, c.Error, c.Highlight, c.Code}
}

var indentPrefixes = []string{"  ", "", " ", "▌", "→ ", "        ", "\x1b[1m▌\x1b[0m"}

func applyLayout(s string, steps []any) string {
	for _, raw := range steps {
		st := raw.([]any)
		w := I(Op{"v": st[1]}, "v")
		a := 0
		if len(st) > 2 {
			a = I(Op{"v": st[2]}, "v")
		}
		switch st[0].(string) {
		/* the same steps with their second argument chosen by the generator */
		case "snipn":
			s = ansi.Snip(s, w, a, style.Color("…"))
		case "headern":
			s = style.Header(s, uint(a))
		case "indentp":
			s = ansi.Indent(s, indentPrefixes[a%len(indentPrefixes)], w%2 == 0)
		case "codeblock":
			s = style.CodeBlock(s)
		case "style":
			s = evalSE([]any{styleFns[a%len(styleFns)], []any{"t", s}})
		case "wrap":
			s = ansi.Wrap(s, w)
		case "dumbwrap":
			s = ansi.DumbWrap(s, w)
		case "pad":
			s = ansi.Pad(s, w)
		case "indent":
			s = ansi.Indent(s, "  ", true)
		case "snip":
			s = ansi.Snip(s, w, 4, style.Color("…"))
		case "quote":
			s = style.QuoteBlock(s)
		case "header":
			s = style.Header(s, 2)
		case "bullet":
			s = style.Bullet(s)
		case "link":
			s = style.Link(s, w)
		case "linkblock":
			s = style.LinkBlock(s, w)
		}
	}
	return s
}

func init() {
	execs["styleexpr"] = func(op Op) any {
		op["colors"] = processColors()
		return applyLayout(evalSE(L(op, "e")), L(op, "layout"))
	}
	execs["problem"] = func(op Op) any {
		return style.Problem(errors.New(S(op, "s")))
	}
	groups["C14"] = group{gen: genC14}
	groups["C01misc"] = group{gen: genC01misc}
}

var styleFns = []string{"bold", "italic", "underline", "strike", "color", "red", "code", "highlight"}

/*
texts for the leaves: sentences long enough for the layout steps to act on, line breaks at

	the start, at the end and doubled, blanks of every kind around them
*/
func genSELeaf(r *rand.Rand) string {
	/* the style layer only ever sees text that went through Scrub: no control characters */
	return strings.Map(func(c rune) rune {
		if c != '\n' && unicode.IsControl(c) {
			return ' '
		}
		return c
	}, genSELeafRaw(r))
}

func genSELeafRaw(r *rand.Rand) string {
	switch weighted(r, 4, 2, 2, 1) {
	case 0:
		n := 2 + r.Intn(12)
		ws := []string{}
		for i := 0; i < n; i++ {
			ws = append(ws, pick(r, []string{"the", "quick", "brown", "fox", "jumps", "over", "a", "lazy", "dog", "漢字", "https://example.org/a/long/path/that/does/not/fit", "x", "é😀", "—"}))
		}
		return strings.Join(ws, pick(r, []string{" ", " ", " ", "  ", "\n", " \n", "\t", "\u3000"}))
	case 1:
		return pick(r, []string{"\nstarts with a break", "ends with a break\n", "\n\n", "a\n\nb", "\n \n", " \n ", "a \nb", "one\ntwo\nthree\nfour\nfive\nsix", "   ", "\u200b", "a\u200bb", "\u00a0"})
	case 2:
		return string(pick(r, visiblePool)) + string(pick(r, spacePool)) + string(pick(r, nonSpacePool)) + string(pick(r, widePool))
	}
	return genRawSafe(r, 1+r.Intn(30))
}

/* random ESC-free text (what remains after Scrub): printable characters, blanks, newlines */
func genRawSafe(r *rand.Rand, n int) string {
	out := make([]rune, n)
	for i := range out {
		switch weighted(r, 8, 2, 1) {
		case 0:
			out[i] = pick(r, visiblePool)
		case 1:
			out[i] = ' '
		case 2:
			out[i] = '\n'
		}
	}
	return string(out)
}

/* styling around text that is already styled, across line breaks, at least `min` levels deep */
func genSEDeep(r *rand.Rand, min int) []any {
	var e []any
	switch r.Intn(3) {
	case 0:
		e = []any{"t", genSELeaf(r)}
	case 1:
		e = []any{"cat", []any{pick(r, styleFns), []any{"t", genSELeaf(r)}}, []any{"t", genSELeaf(r)}}
	case 2:
		e = []any{"cat", []any{"t", genSELeaf(r)}, []any{"cat", []any{pick(r, styleFns), []any{"t", "mid\ndle"}}, []any{"t", genSELeaf(r)}}}
	}
	depth := min + r.Intn(4)
	for d := 0; d < depth; d++ {
		e = []any{pick(r, styleFns), e}
		if r.Intn(3) == 0 {
			/* a sibling on either side: concatenation inside the next level */
			if r.Intn(2) == 0 {
				e = []any{"cat", e, genSE(r, 3)}
			} else {
				e = []any{"cat", genSE(r, 3), e}
			}
		}
	}
	return e
}

func genSE(r *rand.Rand, depth int) []any {
	if depth > 4 || r.Intn(3) == 0 {
		words := []string{"a", "hello world", "x\ny", " ", "", "two  spaces", "é漢😀", "m[0;1", "\n", "tab    here", "line one\nline two\n", "a\n\u0301b", "e\u0301\n\u0308", "\u0301"}
		if r.Intn(4) == 0 {
			return []any{"t", genSELeaf(r)}
		}
		return []any{"t", pick(r, words)}
	}
	if r.Intn(3) == 0 {
		return []any{"cat", genSE(r, depth+1), genSE(r, depth+1)}
	}
	return []any{pick(r, []string{"bold", "italic", "underline", "strike", "color", "red", "code", "highlight"}), genSE(r, depth+1)}
}

func genLayoutStep(r *rand.Rand) []any {
	w := 1 + r.Intn(24)
	switch r.Intn(8) {
	case 0:
		w = pick(r, []int{0, 1, 2, 40, 76, 80, 120, 250})
	}
	switch weighted(r, 11, 2, 2, 2, 1, 2) {
	case 1:
		return []any{"snipn", w, pick(r, []int{0, 1, 2, 3, 4, 10})}
	case 2:
		return []any{"headern", w, r.Intn(8)}
	case 3:
		return []any{"indentp", w, r.Intn(len(indentPrefixes))}
	case 4:
		return []any{"codeblock", w}
	case 5:
		/* a style function applied after the layout: around padding, prefixes, the ellipsis */
		return []any{"style", w, r.Intn(len(styleFns))}
	}
	name := pick(r, []string{"wrap", "wrap", "dumbwrap", "pad", "indent", "snip", "quote", "header", "bullet", "link", "linkblock"})
	if (name == "link" || name == "linkblock") && r.Intn(4) == 0 {
		w = pick(r, []int{0, 9, 10, 99, 100, 1234567890})
	}
	return []any{name, w}
}

func genC14(r *rand.Rand, n int, emit func(Op)) {
	for i := 0; i < n; i++ {
		layout := []any{}
		steps := r.Intn(4)
		if r.Intn(10) == 0 {
			steps = 4 + r.Intn(4)
		}
		for k := steps; k > 0; k-- {
			layout = append(layout, genLayoutStep(r))
		}
		var e []any
		switch weighted(r, 3, 2) {
		case 0:
			e = genSE(r, 0)
		case 1:
			e = genSEDeep(r, 3)
		}
		emit(Op{"op": "styleexpr", "e": e, "layout": layout})
	}
}

func genC01misc(r *rand.Rand, n int, emit func(Op)) {
	hostile := []string{"received invalid status line: HTTP/1.0 \x1b[2J 200\r\n", "\x1b]0;title\x07", "\u009b31mred", "\"\x00\x01\" is not a valid media type", "plain message", "tab\tand\nnewline", "\x7f\x7f", "é漢😀", "\x1b[0m\x1b[1m", "a\u0085b​c"}
	/* the error texts that quote what a server sent: %s = the quoted bytes */
	quoting := []string{"received invalid status line: %s", "received invalid status %s", "received %s after redirecting too many times", "response is of invalid type %s", "failed to parse HTTP status line: %s",
		"failed to parse JSON: invalid character '%s' looking for beginning of value", "%s is not supported in requests, only https", "failed to parse mime type \"mediaType\": \"%s\" is not a valid media type", "Failed to open link: %s", "%s"}
	for i := 0; i < n; i++ {
		if i%2 == 1 {
			/* every control character in turn, raw, alone and as the introducer of a sequence, at the
			   start, in the middle, at the end, and exactly where the text is cut */
			c := string(controlPoint(i / 2))
			seq := c
			if r.Intn(3) == 0 {
				seq = sequenceAround(r, c)
			}
			w := pick(r, []int{1, 2, 3, 5, 10, 20, 80})
			var text string
			switch r.Intn(5) {
			case 0:
				text = seq + "tail"
			case 1:
				text = "head" + seq
			case 2:
				text = "head " + seq + " tail " + seq
			case 3:
				/* the character sits right at, before or after the cut */
				k := w + pick(r, []int{-2, -1, 0, 1})
				if k < 0 {
					k = 0
				}
				text = strings.Repeat("a", k) + seq + "zz"
			default:
				text = seq
			}
			switch r.Intn(3) {
			case 0:
				emit(Op{"op": "problem", "s": fmt.Sprintf(pick(r, quoting), text)})
			case 1:
				emit(Op{"op": "scrub", "s": text})
			default:
				emit(Op{"op": "setlength", "s": text, "w": w, "ellipsis": "…"})
			}
			continue
		}
		switch weighted(r, 3, 2, 2) {
		case 0:
			s := pick(r, hostile)
			if r.Intn(2) == 0 {
				s = genRawText(r, 40)
			}
			emit(Op{"op": "problem", "s": s})
		case 1:
			emit(Op{"op": "scrub", "s": genRawText(r, 60)})
		case 2:
			emit(Op{"op": "setlength", "s": genRawText(r, 60), "w": pick(r, []int{0, 1, 2, 5, 10, 20, 80}), "ellipsis": "…"})
		}
	}
}
