//go:build verif

package main

import (
	"errors"
	"fmt"
	"math/rand"
	"servitor/ansi"
	"servitor/style"
	"strings"
)

/* style expressions: ["t", text] | ["cat", a, b] | [fn, a] */
func evalSE(e []any) string {
	switch e[0].(string) {
	case "t":
		return e[1].(string)
	case "cat":
		return evalSE(e[1].([]any)) + evalSE(e[2].([]any))
	case "bold":
		return style.Bold(evalSE(e[1].([]any)))
	case "italic":
		return style.Italic(evalSE(e[1].([]any)))
	case "underline":
		return style.Underline(evalSE(e[1].([]any)))
	case "strike":
		return style.Strikethrough(evalSE(e[1].([]any)))
	case "color":
		return style.Color(evalSE(e[1].([]any)))
	case "red":
		return style.Red(evalSE(e[1].([]any)))
	case "code":
		return style.Code(evalSE(e[1].([]any)))
	case "highlight":
		return style.Highlight(evalSE(e[1].([]any)))
	}
	panic("bad style expression")
}

func applyLayout(s string, steps []any) string {
	for _, raw := range steps {
		st := raw.([]any)
		w := I(Op{"v": st[1]}, "v")
		switch st[0].(string) {
		case "wrap":
			s = ansi.Wrap(s, w)
		case "dumbwrap":
			s = ansi.DumbWrap(s, w)
		case "pad":
			s = ansi.Pad(s, w)
		case "indent":
			s = ansi.Indent(s, "  ", true)
		case "snip":
			s = ansi.Snip(s, w, 4, style.Color("…"))
		case "quote":
			s = style.QuoteBlock(s)
		case "header":
			s = style.Header(s, 2)
		case "bullet":
			s = style.Bullet(s)
		case "link":
			s = style.Link(s, w)
		case "linkblock":
			s = style.LinkBlock(s, w)
		}
	}
	return s
}

func init() {
	execs["styleexpr"] = func(op Op) any {
		return applyLayout(evalSE(L(op, "e")), L(op, "layout"))
	}
	execs["problem"] = func(op Op) any {
		return style.Problem(errors.New(S(op, "s")))
	}
	groups["C14"] = group{gen: genC14}
	groups["C01misc"] = group{gen: genC01misc}
}

func genSE(r *rand.Rand, depth int) []any {
	if depth > 4 || r.Intn(3) == 0 {
		words := []string{"a", "hello world", "x\ny", " ", "", "two  spaces", "é漢😀", "m[0;1", "\n", "tab    here", "line one\nline two\n", "a\n\u0301b", "e\u0301\n\u0308", "\u0301"}
		return []any{"t", pick(r, words)}
	}
	if r.Intn(3) == 0 {
		return []any{"cat", genSE(r, depth+1), genSE(r, depth+1)}
	}
	return []any{pick(r, []string{"bold", "italic", "underline", "strike", "color", "red", "code", "highlight"}), genSE(r, depth+1)}
}

func genC14(r *rand.Rand, n int, emit func(Op)) {
	for i := 0; i < n; i++ {
		layout := []any{}
		for k := r.Intn(4); k > 0; k-- {
			layout = append(layout, []any{pick(r, []string{"wrap", "wrap", "dumbwrap", "pad", "indent", "snip", "quote", "header", "bullet", "link", "linkblock"}), 1 + r.Intn(24)})
		}
		emit(Op{"op": "styleexpr", "e": genSE(r, 0), "layout": layout})
	}
}

func genC01misc(r *rand.Rand, n int, emit func(Op)) {
	hostile := []string{"received invalid status line: HTTP/1.0 \x1b[2J 200\r\n", "\x1b]0;title\x07", "\u009b31mred", "\"\x00\x01\" is not a valid media type", "plain message", "tab\tand\nnewline", "\x7f\x7f", "é漢😀", "\x1b[0m\x1b[1m", "a\u0085b​c"}
	/* the error texts that quote what a server sent: %s = the quoted bytes */
	quoting := []string{"received invalid status line: %s", "received invalid status %s", "received %s after redirecting too many times", "response is of invalid type %s", "failed to parse HTTP status line: %s",
		"failed to parse JSON: invalid character '%s' looking for beginning of value", "%s is not supported in requests, only https", "failed to parse mime type \"mediaType\": \"%s\" is not a valid media type", "Failed to open link: %s", "%s"}
	for i := 0; i < n; i++ {
		if i%2 == 1 {
			/* every control character in turn, raw, alone and as the introducer of a sequence, at the
			   start, in the middle, at the end, and exactly where the text is cut */
			c := string(controlPoint(i / 2))
			seq := c
			if r.Intn(3) == 0 {
				seq = sequenceAround(r, c)
			}
			w := pick(r, []int{1, 2, 3, 5, 10, 20, 80})
			var text string
			switch r.Intn(5) {
			case 0:
				text = seq + "tail"
			case 1:
				text = "head" + seq
			case 2:
				text = "head " + seq + " tail " + seq
			case 3:
				/* the character sits right at, before or after the cut */
				k := w + pick(r, []int{-2, -1, 0, 1})
				if k < 0 {
					k = 0
				}
				text = strings.Repeat("a", k) + seq + "zz"
			default:
				text = seq
			}
			switch r.Intn(3) {
			case 0:
				emit(Op{"op": "problem", "s": fmt.Sprintf(pick(r, quoting), text)})
			case 1:
				emit(Op{"op": "scrub", "s": text})
			default:
				emit(Op{"op": "setlength", "s": text, "w": w, "ellipsis": "…"})
			}
			continue
		}
		switch weighted(r, 3, 2, 2) {
		case 0:
			s := pick(r, hostile)
			if r.Intn(2) == 0 {
				s = genRawText(r, 40)
			}
			emit(Op{"op": "problem", "s": s})
		case 1:
			emit(Op{"op": "scrub", "s": genRawText(r, 60)})
		case 2:
			emit(Op{"op": "setlength", "s": genRawText(r, 60), "w": pick(r, []int{0, 1, 2, 5, 10, 20, 80}), "ellipsis": "…"})
		}
	}
}
