//go:build verif

package main

import (
	"encoding/hex"
	"fmt"
	"math/rand"
	"net/url"
	"os"
	"path/filepath"
	"regexp"
	"runtime"
	"servitor/ansi"
	"servitor/config"
	"servitor/jtp"
	"servitor/object"
	"servitor/ui"
	"sort"
	"strings"
	"sync"
	"sync/atomic"
	"time"
)

/* oracle: the link list GetMarkup reports for every object with a content / summary */
func linkTable(v any, out *[]any) {
	switch x := v.(type) {
	case []any:
		for _, e := range x {
			linkTable(e, out)
		}
	case map[string]any:
		o := object.Object(x)
		for _, key := range []string{"content", "summary"} {
			if raw, ok := x[key].(string); ok {
				_, links, err := o.GetMarkup(key, "mediaType")
				mt, _ := x["mediaType"].(string)
				if err == nil {
					*out = append(*out, []any{ansi.Scrub(raw), mt, toAnyList(links)})
				}
			}
		}
		for _, e := range x {
			linkTable(e, out)
		}
	}
}

var hookSeq = 0

var sgrPattern = regexp.MustCompile("\x1b\\[[0-9;]*m")

func waitSettled(s *ui.State) bool { return waitSettledWith(s, s.VerifSettled) }

/* with a harness-held hook, `opening` is a resting state */
func waitSettledHeld(s *ui.State) bool { return waitSettledWith(s, s.VerifSettledHookHeld) }

/*
The loading flags and the mode are set under the mutex before the call that starts a load

	returns, so one look under the mutex is exact; a second look after yielding the processor
	guards the bookkeeping of the frame callback.
*/
func waitSettledWith(s *ui.State, settled func() bool) bool {
	deadline := time.Now().Add(8 * time.Second)
	for i := 0; time.Now().Before(deadline); i++ {
		if settled() {
			runtime.Gosched()
			if settled() {
				return true
			}
		}
		if i < 20 {
			time.Sleep(200 * time.Microsecond)
		} else {
			time.Sleep(2 * time.Millisecond)
		}
	}
	return false
}

/* BYTES <hex>: a key token of raw bytes (JSON strings cannot carry bytes that are not UTF-8) */
func keyBytes(k string) []byte {
	if strings.HasPrefix(k, "BYTES ") {
		b, _ := hex.DecodeString(k[6:])
		return b
	}
	return []byte(k)
}

/*
the simulator holds every request: wait until the interface is settled, or a request is

	being held and nothing has moved for a while (a load is in flight and stays in flight).
	Never waits for the interface's mutex: a loader that harvests a collection keeps it while it
	waits for the network.  inflight = the interface is in loading mode with the mutex free, so
	keys can be delivered while the load is in flight.
*/
func waitHeldOrSettled(s *ui.State) (ok bool, inflight bool) {
	deadline := time.Now().Add(8 * time.Second)
	quiet := 0
	for time.Now().Before(deadline) {
		if settled, _, _ := s.VerifTrySettledHookHeld(); settled {
			runtime.Gosched()
			if settled, _, locked := s.VerifTrySettledHookHeld(); settled && locked {
				return true, false
			}
		}
		if atomic.LoadInt32(&simHeldNow) > 0 {
			quiet++
			if quiet >= 4 {
				_, loadingMode, locked := s.VerifTrySettledHookHeld()
				return true, locked && loadingMode
			}
		} else {
			quiet = 0
		}
		time.Sleep(time.Millisecond)
	}
	return false, false
}

func init() {
	execs["ui"] = func(op Op) any {
		sm := startSimulator()
		_, opid := installWorld(op)
		annotateDocs(op)
		jtp.VerifCachePurge()
		/* link oracle over all documents of the world */
		lt := []any{}
		for _, d := range op["decode"].([]any) {
			pair := d.([]any)
			if m, ok := pair[1].(map[string]any); ok && m["tree"] != nil {
				var doc map[string]any
				/* re-decode the body to walk it */
				if err := jsonUnmarshalString(pair[0].(string), &doc); err == nil {
					linkTable(doc, &lt)
				}
			}
		}
		op["linktable"] = lt
		start := substitute(S(op, "start"), sm.hosts, opid)
		op["start_sub"] = start
		if u, err := url.Parse(start); err == nil {
			op["urltable"].(map[string]any)[start] = urlRecord(u)
			op["urltable"].(map[string]any)[u.String()] = urlRecord(u)
		}
		/* the hook: the dump program (succeeds immediately) */
		saved := config.Parsed.Media.Hook
		config.Parsed.Media.Hook = []string{"verifdump", "%url"}
		defer func() { config.Parsed.Media.Hook = saved }()
		op["context"] = config.Parsed.Network.Context
		/* feeds of this op (the configured map is replaced for the duration of the op) */
		savedFeeds := config.Parsed.Feeds
		feeds := map[string][]string{}
		feedsOut := []any{}
		if fm, ok := op["feeds"].(map[string]any); ok {
			for name, raw := range fm {
				inputs := []string{}
				for _, u := range raw.([]any) {
					inputs = append(inputs, substitute(u.(string), sm.hosts, opid))
				}
				feeds[name] = inputs
				feedsOut = append(feedsOut, []any{name, toAnyList(inputs)})
				for _, u := range inputs {
					if pu, err := url.Parse(u); err == nil {
						op["urltable"].(map[string]any)[u] = urlRecord(pu)
						op["urltable"].(map[string]any)[pu.String()] = urlRecord(pu)
					}
				}
			}
		}
		config.Parsed.Feeds = feeds
		defer func() { config.Parsed.Feeds = savedFeeds }()
		/* the media hook is a program the harness holds until a HOOKDONE token releases it */
		hookSeq++
		gate := filepath.Join(os.Getenv("VERIF_SCRATCH"), fmt.Sprintf("gate-%d-%d", os.Getpid(), hookSeq))
		hookLog := gate + ".log"
		os.Remove(gate)
		os.Remove(hookLog)
		os.Setenv("VERIF_HOOK_GATE", gate)
		os.Setenv("VERIF_HOOK_LOG", hookLog)
		savedHook := config.Parsed.Media.Hook
		config.Parsed.Media.Hook = []string{"verifwait", "%url"}
		if B(op, "hookfails") {
			config.Parsed.Media.Hook = []string{"verifwait", "%url", "fail"}
		}
		/* what the hook writes and how it ends: fail (two lines on stderr), failquiet (no output),
		   failbig (much output on both streams), failbin (control bytes, escape sequences, bytes
		   that are not UTF-8), okbig (much output, success) */
		if m := S(op, "hookmode"); m != "" {
			config.Parsed.Media.Hook = []string{"verifwait", "%url", m}
		}
		/* a hook that is told the media type as well (the last argument still says how it ends) */
		if B(op, "hooktypes") {
			h := []string{"verifwait", "%url", "%mimetype", "%subtype", "%supertype"}
			config.Parsed.Media.Hook = append(h, config.Parsed.Media.Hook[2:]...)
		}
		var hookState *ui.State
		releaseHooks := func() {
			os.WriteFile(gate, []byte("go"), 0o644)
			/* the gate stays open until the hook that put the interface into `opening` has been
			   seen to exit (a hook started a moment ago may not have looked at the gate yet) */
			if hookState != nil {
				for waited := 0; waited < 5000; waited++ {
					opening := false
					if _, _, free := hookState.VerifTrySettledHookHeld(); free {
						hookState.VerifLocked(func() { opening = hookState.VerifMode() == 4 })
						if !opening {
							break
						}
					}
					time.Sleep(time.Millisecond)
				}
			}
			time.Sleep(40 * time.Millisecond)
			os.Remove(gate)
		}
		defer func() {
			releaseHooks()
			config.Parsed.Media.Hook = savedHook
			os.Remove(hookLog)
		}()
		op["feeds_sub"] = feedsOut
		width, height := I(op, "width"), I(op, "height")
		var fm sync.Mutex
		frames := []string{}
		expected := []int{} // the terminal height in force when each frame was drawn
		curHeight := height
		/* while a SetWidthHeight call is in flight a frame drawn by a loader may still have the
		   height in force before the call: both heights are right until the call has returned */
		prevHeight := -1
		s := ui.NewState(width, height, func(frame string) {
			fm.Lock()
			frames = append(frames, frame)
			lines := strings.Count(frame, "\n") + 1
			if prevHeight >= 0 && lines == prevHeight {
				expected = append(expected, prevHeight)
			} else {
				expected = append(expected, curHeight)
			}
			fm.Unlock()
		})
		resize := func(w, h int) {
			fm.Lock()
			prevHeight, curHeight = curHeight, h
			fm.Unlock()
			s.SetWidthHeight(w, h)
			fm.Lock()
			prevHeight = -1
			fm.Unlock()
		}
		hookState = s
		snaps := []any{}
		op["keys_sub"] = []any{}
		/* the address typed after :open goes through url.Parse like every other: its record goes
		   into the table when Enter is about to be pressed on such a command line */
		send := func(b byte) {
			if b == '\r' {
				s.VerifLocked(func() {
					if buf := s.VerifBuffer(); s.VerifMode() == 2 && strings.HasPrefix(buf, "open ") {
						arg := buf[5:]
						if pu, err := url.Parse(arg); err == nil {
							op["urltable"].(map[string]any)[arg] = urlRecord(pu)
							op["urltable"].(map[string]any)[pu.String()] = urlRecord(pu)
						}
					}
				})
			}
			s.Update(b)
		}
		/* how main starts the interface: `servitor open <x>` or `servitor feed <name>` */
		startcmd := S(op, "startcmd")
		if startcmd == "" {
			startcmd = "open"
		}
		if err := s.Subcommand(startcmd, start); err != nil {
			return map[string]any{"subcommanderr": true}
		}
		if !waitSettledHeld(s) {
			return map[string]any{"wedged": "start"}
		}
		snaps = append(snaps, s.VerifSnapshot())
		keys := []any{}
		heldFlags := []any{}
		defer func() { op["held"] = heldFlags }()
		for _, raw := range L(op, "keys") {
			k := substitute(raw.(string), sm.hosts, opid)
			keys = append(keys, k)
			if strings.HasPrefix(k, "RESIZE ") {
				/* a terminal resize between keys (the interface is settled here) */
				var w, h int
				fmt.Sscanf(k, "RESIZE %d %d", &w, &h)
				resize(w, h)
				if !waitSettledHeld(s) {
					return map[string]any{"wedged": "after resize", "snaps": snaps}
				}
				snaps = append(snaps, s.VerifSnapshot())
				continue
			}
			if strings.HasPrefix(k, "LOADRESIZE ") {
				/* a key token that starts a load, and a terminal resize while the page is still
				   loading (the simulator answers slowly for this one step) */
				var w, h int
				fmt.Sscanf(k, "LOADRESIZE %d %d ", &w, &h)
				rest := strings.SplitN(k, " ", 4)[3]
				atomic.StoreInt64(&simLatencyMicros, 60000)
				for _, b := range []byte(rest) {
					send(b)
				}
				resize(w, h)
				atomic.StoreInt64(&simLatencyMicros, 0)
				if !waitSettledHeld(s) {
					return map[string]any{"wedged": "after a resize while loading", "snaps": snaps}
				}
				snaps = append(snaps, s.VerifSnapshot())
				continue
			}
			if strings.HasPrefix(k, "HELDS\x1f") {
				/* HELDS <starter> <during>...: the starter (j, k, space, c, r, a) leaves the loads of
				   the surroundings in flight, held by the simulator; the remaining tokens - none of
				   which looks at the surroundings or starts a page load - arrive while they are, and
				   only then the simulator answers.  The settled state is the one of the same tokens
				   typed one by one. */
				parts := strings.Split(k, "\x1f")[1:]
				atomic.StoreInt32(&simHold, 1)
				jtp.VerifCachePurge()
				for _, b := range keyBytes(parts[0]) {
					send(b)
				}
				ok, inflight := waitHeldOrSettled(s)
				if !ok {
					atomic.StoreInt32(&simHold, 0)
					return map[string]any{"wedged": "while the simulator held the requests", "snaps": snaps}
				}
				_, _, free := s.VerifTrySettledHookHeld()
				if !free {
					/* a loader keeps the mutex while it waits: nothing can be delivered before it is answered */
					atomic.StoreInt32(&simHold, 0)
					if !waitSettledHeld(s) {
						return map[string]any{"wedged": "after a held load", "snaps": snaps}
					}
				}
				if !inflight {
					for _, d := range parts[1:] {
						if strings.HasPrefix(d, "RESIZE ") {
							var w, h int
							fmt.Sscanf(d, "RESIZE %d %d", &w, &h)
							resize(w, h)
							continue
						}
						if d == "HOOKDONE" {
							releaseHooks()
							continue
						}
						for _, b := range keyBytes(d) {
							send(b)
						}
					}
				}
				atomic.StoreInt32(&simHold, 0)
				if !waitSettledHeld(s) {
					return map[string]any{"wedged": "after keys typed while the surroundings were loading", "snaps": snaps}
				}
				heldFlags = append(heldFlags, inflight)
				snaps = append(snaps, s.VerifSnapshot())
				continue
			}
			if strings.HasPrefix(k, "HELD\x1f") {
				/* HELD <starter> <during>...: the simulator holds every request, the starter token is
				   typed, and if that leaves a page load in flight (loading mode, a request held) the
				   remaining tokens arrive while it is; then the simulator answers.  When the starter
				   needed nothing from the network the remaining tokens are typed one by one as usual.
				   Which of the two happened is reported to the model (op field "held"). */
				parts := strings.Split(k, "\x1f")[1:]
				atomic.StoreInt32(&simHold, 1)
				/* nothing is answered from the cache: the starter needs the network */
				jtp.VerifCachePurge()
				for _, b := range keyBytes(parts[0]) {
					send(b)
				}
				ok, inflight := waitHeldOrSettled(s)
				if !ok {
					atomic.StoreInt32(&simHold, 0)
					return map[string]any{"wedged": "while the simulator held the requests", "snaps": snaps}
				}
				if inflight {
					for _, d := range parts[1:] {
						if strings.HasPrefix(d, "RESIZE ") {
							var w, h int
							fmt.Sscanf(d, "RESIZE %d %d", &w, &h)
							resize(w, h)
							continue
						}
						for _, b := range keyBytes(d) {
							send(b)
						}
					}
				}
				atomic.StoreInt32(&simHold, 0)
				if !waitSettledHeld(s) {
					return map[string]any{"wedged": "after a held load", "snaps": snaps}
				}
				if !inflight {
					for _, d := range parts[1:] {
						if strings.HasPrefix(d, "RESIZE ") {
							var w, h int
							fmt.Sscanf(d, "RESIZE %d %d", &w, &h)
							resize(w, h)
							if !waitSettledHeld(s) {
								return map[string]any{"wedged": "after resize", "snaps": snaps}
							}
							continue
						}
						for _, b := range keyBytes(d) {
							send(b)
							if !waitSettledHeld(s) {
								return map[string]any{"wedged": fmt.Sprintf("after key %q", b), "snaps": snaps}
							}
						}
					}
				}
				heldFlags = append(heldFlags, inflight)
				snaps = append(snaps, s.VerifSnapshot())
				continue
			}
			if k == "HOOKDONE" {
				/* every hook started so far exits now */
				releaseHooks()
				if !waitSettledHeld(s) {
					return map[string]any{"wedged": "after the hook exited", "snaps": snaps}
				}
				snaps = append(snaps, s.VerifSnapshot())
				continue
			}
			for _, b := range keyBytes(k) {
				send(b)
				if !waitSettledHeld(s) {
					return map[string]any{"wedged": fmt.Sprintf("after key %q", b), "snaps": snaps}
				}
			}
			snaps = append(snaps, s.VerifSnapshot())
		}
		op["keys_sub"] = keys
		/* what the hook was started with, in order */
		opened := []any{}
		/* a hook started by the last keys may not have written its line yet: wait until the log
		   has been quiet for a while */
		lastLen, quiet := -1, 0
		for waited := 0; waited < 1500 && quiet < 6; waited += 20 {
			n := 0
			if st, err := os.Stat(hookLog); err == nil {
				n = int(st.Size())
			}
			if n == lastLen {
				quiet++
			} else {
				quiet, lastLen = 0, n
			}
			time.Sleep(20 * time.Millisecond)
		}
		if raw, err := os.ReadFile(hookLog); err == nil {
			lines := strings.Split(strings.TrimSuffix(string(raw), "\n"), "\n")
			/* each hook process writes its own line: two started within microseconds of each other
			   may write in either order, so the record is a multiset (listed sorted) */
			sort.Strings(lines)
			for _, l := range lines {
				opened = append(opened, l)
			}
		}
		fm.Lock()
		hs := []any{}
		bad := []any{}
		for i, f := range frames {
			hs = append(hs, []any{strings.Count(f, "\n") + 1, expected[i]})
		}
		all := append([]string{}, frames...)
		fm.Unlock()
		op["frameheights"] = hs
		/* the last frames, and the frames that report a failure (hook output, unknown commands) */
		sample := lastN(all, 3)
		failures := 0
		for _, f := range all {
			/* (every character of a frame carries its own style sequence) */
			if failures < 4 && strings.Contains(sgrPattern.ReplaceAllString(f, ""), "Failed to") {
				sample = append(sample, f)
				failures++
			}
		}
		op["frames_sample"] = toAnyList(sample)
		_ = bad
		sm.takeLog()
		return map[string]any{"snaps": snaps, "opened": opened}
	}
	groups["C07"] = group{gen: genUI}
}

func lastN(xs []string, n int) []string {
	if len(xs) <= n {
		return xs
	}
	return xs[len(xs)-n:]
}

func genUI(r *rand.Rand, n int, emit func(Op)) {
	for i := 0; i < n; i++ {
		g := &worldGen{r: r}
		home := r.Intn(simHosts)
		other := (home + 1 + r.Intn(simHosts-1)) % simHosts
		aliceURL, alice := g.actor(home, "alice", home)
		bobURL, bob := g.actor(other, "bob", other)
		/* strings the accessors have to sanitise (tabs, CR LF, other controls) on objects that
		   many posts share as their author */
		if r.Intn(2) == 0 {
			alice["icon"] = map[string]any{"type": "Image", "url": "https://m.example/alice.png", "mediaType": "image/png"}
			bob["image"] = []any{map[string]any{"type": "Image", "url": "https://m.example/bob-banner.jpg"}, map[string]any{"type": "Image", "url": "https://m.example/bob-banner-big.jpg", "mediaType": "image/jpeg"}}
		}
		if r.Intn(2) == 0 {
			alice["summary"] = "first line\r\nsecond\tline \x07"
			alice["mediaType"] = "text/plain"
			bob["summary"] = "bio with\ttab"
			bob["mediaType"] = "text/plain"
		}
		notes := []string{}
		noteFields := []map[string]any{}
		tallWorld := r.Intn(8) == 0
		mkNote := func(h int, name string, author any, extra map[string]any) string {
			fields := map[string]any{"type": "Note", "id": g.url(h, name), "mediaType": "text/plain"}
			/* media: what the o key opens (typed, untyped, several candidates, none) */
			switch weighted(r, 5, 2, 1, 1, 1) {
			case 1:
				/* typed; now and then with something that is no media type */
				fields["url"] = []any{map[string]any{"type": "Link", "href": "https://m.example/" + name + ".mp4", "mediaType": pick(r, []any{"video/mp4", "video/mp4", "video/mp4", "mp4", 5, "a/b/c; =", "", "video/"})}}
			case 2:
				fields["type"] = "Video"
				fields["url"] = []any{
					map[string]any{"type": "Link", "href": "https://m.example/" + name + ".html", "mediaType": "text/html"},
					map[string]any{"type": "Link", "href": "https://m.example/" + name + "-small.mp4", "mediaType": "video/mp4", "height": 240, "width": 320},
					map[string]any{"type": "Link", "href": "https://m.example/" + name + "-big.mp4", "mediaType": "video/mp4", "height": 1080, "width": 1920}}
			case 3:
				fields["url"] = map[string]any{"type": "Link", "href": "https://m.example/" + name + ".bin"}
			case 4:
				fields["url"] = pick(r, []any{[]any{}, "https://m.example/shorthand", 5, []any{map[string]any{"type": "Link"}}})
			}
			switch weighted(r, 6, 1, 1) {
			case 0:
				fields["published"] = time.Date(2024, 1, 1+r.Intn(20), r.Intn(24), 0, 0, 0, time.UTC).Format(time.RFC3339)
			case 1:
				fields["published"] = "not a time"
			}
			fields["content"] = "plain words " + name
			if tallWorld && r.Intn(3) == 0 {
				/* an item much taller than any terminal (hundreds of lines) */
				fields["content"] = strings.Repeat("a line of "+name+"\n", 120+r.Intn(300)) + "last line"
			}
			if len(notes) > 0 && r.Intn(2) == 0 {
				/* links to other objects of the world, selectable by number */
				fields["content"] = "see " + pick(r, notes) + " and " + pick(r, []string{aliceURL, bobURL, pick(r, notes)}) + " end"
			}
			if len(notes) > 0 && r.Intn(9) == 0 {
				/* more links than one digit can name: 10, 11, 12 are links, 010 is not the eighth */
				words := []string{"many:"}
				for k := 0; k < 9+r.Intn(5); k++ {
					words = append(words, pick(r, []string{aliceURL, bobURL, pick(r, notes), pick(r, notes)}))
				}
				fields["content"] = strings.Join(words, " ")
			}
			if author != nil {
				fields["attributedTo"] = author
			}
			for k, v := range extra {
				fields[k] = v
			}
			u := g.serve(h, name, fields)
			notes = append(notes, u)
			noteFields = append(noteFields, fields)
			return u
		}
		/* a thread with ancestors */
		depth := 1 + r.Intn(8)
		prev := ""
		for d := 0; d < depth; d++ {
			extra := map[string]any{}
			if prev != "" {
				extra["inReplyTo"] = prev
			}
			var author any = aliceURL
			h := home
			if r.Intn(3) == 0 {
				author, h = bobURL, other
			}
			if r.Intn(6) == 0 {
				author = []any{aliceURL, bobURL} // multi-author: foreign-host creator makes it an error item
			}
			prev = mkNote(h, fmt.Sprintf("t%d", d), author, extra)
		}
		leaf := prev
		/* replies to the leaf: a paged collection */
		replies := []any{}
		for c := 0; c < r.Intn(12); c++ {
			h := pick(r, []int{home, other})
			author := aliceURL
			if h == other {
				author = bobURL
			}
			target := leaf
			if r.Intn(6) == 0 && len(notes) > 1 {
				target = notes[0]
			}
			replies = append(replies, mkNote(h, fmt.Sprintf("c%d", c), author, map[string]any{"inReplyTo": target}))
		}
		half := len(replies) / 2
		page2 := map[string]any{"type": "CollectionPage", "items": replies[half:]}
		page1 := map[string]any{"type": "CollectionPage", "items": replies[:half], "next": page2}
		if r.Intn(4) == 0 {
			page1 = map[string]any{"type": "CollectionPage", "items": []any{}, "next": map[string]any{"type": "CollectionPage", "items": replies}}
		}
		leafIdx := len(noteFields) - 1 - len(replies)
		lf := noteFields[leafIdx]
		lf["replies"] = map[string]any{"type": "Collection", "totalItems": len(replies), "first": page1}
		if r.Intn(8) == 0 {
			lf["replies"] = "https://{H0}/{OP}/missing-collection"
		}
		for k, rt := range g.routes {
			if rt.(map[string]any)["path"] == "/{OP}/"+fmt.Sprintf("t%d", depth-1) {
				g.routes[k] = map[string]any{"h": rt.(map[string]any)["h"], "path": rt.(map[string]any)["path"], "resp": "HTTP/1.0 200 OK\r\nContent-Type: application/activity+json\r\n\r\n" + jsonDoc(lf), "fault": ""}
			}
		}
		/* alice's outbox */
		acts := []any{}
		for a := 0; a < r.Intn(14); a++ {
			k := r.Intn(len(notes))
			fields := map[string]any{"type": pick(r, []string{"Create", "Announce", "Like"}), "id": g.url(home, fmt.Sprintf("act%d", a)), "actor": aliceURL, "object": notes[k]}
			if r.Intn(2) == 0 {
				fields["published"] = time.Date(2024, 2, 1+r.Intn(20), r.Intn(24), r.Intn(60), 0, 0, time.UTC).Format(time.RFC3339)
			}
			if r.Intn(7) == 0 {
				fields["actor"] = bobURL
			}
			acts = append(acts, g.serve(home, fmt.Sprintf("act%d", a), fields))
			if r.Intn(6) == 0 {
				/* entries that are no activities: nothing at all, a number, a list, a bare note */
				acts = append(acts, pick(r, []any{nil, nil, 7, []any{}, notes[k], map[string]any{"type": "Note", "content": "bare"}}))
			}
		}
		third := len(acts) / 3
		p3 := map[string]any{"type": "OrderedCollectionPage", "orderedItems": acts[2*third:]}
		p2 := map[string]any{"type": "OrderedCollectionPage", "orderedItems": acts[third : 2*third], "next": p3}
		p1 := map[string]any{"type": "OrderedCollectionPage", "orderedItems": acts[:third], "next": p2}
		outboxURL := g.serve(home, "outbox", map[string]any{"type": "OrderedCollection", "id": g.url(home, "outbox"), "totalItems": len(acts), "first": p1})
		emptyURL := g.serve(home, "empty", map[string]any{"type": "Collection", "id": g.url(home, "empty"), "items": []any{}})
		alice["outbox"] = outboxURL
		alice["name"] = fmt.Sprintf("alice@H%d", home)
		for k, rt := range g.routes {
			if rt.(map[string]any)["path"] == "/{OP}/alice" {
				g.routes[k] = map[string]any{"h": home, "path": "/{OP}/alice", "resp": "HTTP/1.0 200 OK\r\nContent-Type: application/activity+json\r\n\r\n" + jsonDoc(alice), "fault": ""}
			}
		}
		_ = bob
		starts := []string{leaf, leaf, notes[0], aliceURL, outboxURL, emptyURL, bobURL, "https://{H0}/{OP}/nothing-here"}
		if len(acts) > 0 {
			starts = append(starts, acts[0].(string))
		}
		/* key tokens */
		keys := []any{}
		nk := 3 + r.Intn(25)
		long := r.Intn(14) == 0
		if long {
			/* a long session: hundreds of tokens, a deep history */
			nk = 100 + r.Intn(120)
		}
		feedNames := []string{"home", "mixed", "one", "none", "unknown", "", " home", "home ", "Home", "home\x00", "ho me"}
		rawBytes := func(n int) string {
			b := make([]byte, n)
			for i := range b {
				b[i] = byte(r.Intn(256))
				if b[i] == 0x1f {
					b[i] = 0x80
				}
			}
			return "BYTES " + hex.EncodeToString(b)
		}
		for k := 0; k < nk; k++ {
			weights := []int{30, 6, 3, 3, 2, 2, 5, 4, 4, 2, 2}
			if long {
				weights = []int{60, 6, 3, 2, 1, 1, 4, 3, 2, 2, 1}
			}
			switch weighted(r, weights...) {
			case 0:
				keys = append(keys, pick(r, []string{"j", "j", "j", "k", "k", "g", "h", "l", " ", " ", "c", "r", "a", "o", "p", "b"}))
			case 1:
				num := pick(r, []string{"1", "2", "3", "0", "12", "99999999999999999999", "7"})
				keys = append(keys, num+pick(r, []string{".", ".", "\r", "\x1b", "\x7f", "j", ":"}))
			case 2:
				keys = append(keys, ":open "+pick(r, starts)+"\r")
			case 3:
				keys = append(keys, pick(r, []string{":feed home\r", ":bogus x\r", ":open\r", ":\r", ": \r", ":open  \r", ":open ./file\r", ":x\x7f\x7f\x7f", "\x1b", "\x7f",
					/* multi-byte input and backspace: the buffer is edited by runes */
					":a\nb", ":x\ny z\r", ":\n\r", "1\n", ":é\x7f", ":é\x7f\x7f", ":é\x7f\x7fj", ":aé漢\x7f\x7f\x7f\x7fk", ":😀\x7f\x7f\x7f\x7f\x7f", ":é\x7f\x7f\x7f\x7f\x7f "}))
			case 4:
				keys = append(keys, string([]byte{byte(r.Intn(128))}))
			case 5:
				keys = append(keys, pick(r, []string{"\x00", "\t", "\n", "Z", "~", "é", rawBytes(1), rawBytes(1), rawBytes(2)}))
			case 6:
				/* numbers: leading zeros, more digits than there are links, the edges of the integer
				   types, followed by every kind of key */
				num := pick(r, []string{"01", "02", "007", "00", "000", "10", "11", "100", "010", "08", "09", "012", "0x1", "1_0", "4", "5", "6", "8", "9", "21", "0000000000000000000001", "00000000000000000000000000000002",
					"9223372036854775807", "9223372036854775808", "18446744073709551615", "18446744073709551617", "4294967297", "2147483648"})
				keys = append(keys, num+pick(r, []string{".", ".", "\r", "\r", "\x1b", "\x7f", "\x7f.", "\x7f\r", "\x7f\x7f.", "\x7f\x7f\x7f", "j", "k", " ", "g", "h", ":", "o", "\n", ".."}))
			case 7:
				/* Escape or Backspace at a point of a partially typed command or number, the rest
				   of it typed all the same */
				base := pick(r, []string{":open " + pick(r, starts), ":open " + pick(r, starts), ":feed " + pick(r, []string{"home", "mixed", "one"}), "12", "123", "21", ":bogus arg"})
				at := r.Intn(len(base) + 1)
				edit := pick(r, []string{"\x7f", "\x7f", "\x7f\x7f", "\x1b", "\x1b", "\x7fx", "\x7f\x7f\x7f\x7f\x7f\x7f\x7f\x7f"})
				if r.Intn(3) == 0 && at > 0 {
					/* erase and retype the same characters */
					n := 1 + r.Intn(at)
					if n > 6 {
						n = 6
					}
					edit = strings.Repeat("\x7f", n) + base[at-n:at]
				}
				keys = append(keys, base[:at]+edit+base[at:]+pick(r, []string{"\r", "\r", ".", "", "\x1b"}))
			case 8:
				/* the documented subcommands with odd arguments */
				st := pick(r, starts)
				keys = append(keys, pick(r, []string{
					":open \r", ":open   \r", ":open " + st + " \r", ":open  " + st + "\r", ":open " + st + "#frag\r", ":open " + st + "?x=1\r",
					":open " + strings.Replace(st, "https://", "HTTPS://", 1) + "\r", ":open " + strings.Replace(st, "https://", "http://", 1) + "\r",
					":open " + strings.TrimPrefix(st, "https://") + "\r", ":open " + st + "/\r", ":open " + st + "%\r", ":open " + st + "%20\r",
					":open https://\r", ":open https://{H0}\r", ":open ://\r", ":open @\r", ":open @nobody\r", ":open !\r", ":open /\r", ":open ../x\r", ":open ./\r",
					":open " + strings.Repeat("x", 150+r.Intn(400)) + "\r", ":open https://{H0}/{OP}/" + strings.Repeat("y", 400) + "\r",
					":open é漢😀\r", ":open \x00\r", ":open a b c\r", ":open " + st + "\n\r",
					":feed " + pick(r, feedNames) + "\r", ":feed " + pick(r, feedNames) + "\r", ":feed  home\r", ":feed home mixed\r", ":feed " + strings.Repeat("f", 300) + "\r",
					":FEED home\r", ":Open " + st + "\r", ":feed\r", ":open\x7f\x7f\x7f\x7ffeed home\r", ": open " + st + "\r", ":  \r", ":open" + st + "\r",
					":feed home\r:feed one\r", ":open " + st + "\r" + pick(r, []string{"j", "h", "1."}),
				}))
			case 9:
				/* a command line of arbitrary bytes */
				keys = append(keys, ":", rawBytes(1+r.Intn(12)), pick(r, []string{"\r", "\r", "\x1b", " x\r", "\x7f\x7f\r"}))
			case 10:
				/* a command line that begins like a subcommand and goes on in arbitrary bytes */
				keys = append(keys, pick(r, []string{":open ", ":feed ", ":open https://{H0}/{OP}/"}), rawBytes(1+r.Intn(6)), "\r")
			}
		}
		if long {
			/* a deep history: many pages opened one from the other, all the way back, all the way
			   forward, a new page from the middle */
			deep := []any{}
			d := 8 + r.Intn(30)
			for k := 0; k < d; k++ {
				deep = append(deep, pick(r, []string{"j", "k", "j", "", ""}), pick(r, []string{" ", " ", " ", "c", "a", "1.", ":open " + pick(r, starts) + "\r"}))
			}
			for k := 0; k < d+2; k++ {
				deep = append(deep, "h")
			}
			for k := 0; k < d/2; k++ {
				deep = append(deep, "l")
			}
			deep = append(deep, " ", "l", "l", "h", "h")
			for k := 0; k < d+2; k++ {
				deep = append(deep, "l")
			}
			at := r.Intn(len(keys) + 1)
			keys = append(keys[:at:at], append(deep, keys[at:]...)...)
		}
		/* keys that arrive while a page load is in flight: every kind of key token */
		if r.Intn(3) == 0 {
			for n := 1 + r.Intn(2); n > 0; n-- {
				starter := pick(r, []string{":open " + pick(r, starts) + "\r", ":open " + pick(r, starts) + "\r", ":feed " + pick(r, []string{"home", "mixed", "one", "none"}) + "\r", "1.", "2.", "1."})
				tok := "HELD\x1f" + starter
				for k := 1 + r.Intn(5); k > 0; k-- {
					tok += "\x1f" + pick(r, []string{"j", "k", "g", "h", "h", "l", " ", "c", "r", "a", "o", "p", "b", "\x1b", "\x1b", "\x7f", ":", "1", "1.", "2\r", "12", ":open " + pick(r, starts) + "\r",
						":feed one\r", ":bogus x\r", "\r", ".", "\x00", "é", rawBytes(1), fmt.Sprintf("RESIZE %d %d", 1+r.Intn(120), 1+r.Intn(60)), fmt.Sprintf("RESIZE %d %d", 1+r.Intn(8), 2+r.Intn(3))})
				}
				ins := []any{tok}
				if r.Intn(2) == 0 {
					/* look at the page the keys would have acted on */
					ins = append(ins, "h")
				}
				at := r.Intn(len(keys) + 1)
				keys = append(keys[:at:at], append(ins, keys[at:]...)...)
			}
		}
		/* a resize that arrives while a page is loading */
		if r.Intn(3) == 0 {
			for n := 1 + r.Intn(2); n > 0; n-- {
				tok := fmt.Sprintf("LOADRESIZE %d %d %s", 1+r.Intn(120), 2+r.Intn(58), pick(r, []string{":open " + pick(r, starts) + "\r", " ", "1.", ":feed home\r", "c", "a"}))
				at := r.Intn(len(keys) + 1)
				keys = append(keys[:at:at], append([]any{tok}, keys[at:]...)...)
			}
		}
		/* media: open something externally, type while the hook is still running, let it exit */
		if r.Intn(2) == 0 {
			for n := 1 + r.Intn(3); n > 0; n-- {
				burst := []any{pick(r, []string{"o", "o", "p", "b", "1\r", "2\r", "a"})}
				for k := r.Intn(4); k > 0; k-- {
					burst = append(burst, pick(r, []string{"1", "2", "j", "k", "\x1b", ":", "\x7f", "o", "1.", "2\r", " ", "h"}))
				}
				if r.Intn(3) == 0 {
					/* the hook ends (well or badly, see the hook mode) in the middle of the next
					   number or command: what was typed so far must stand */
					burst = append(burst[:1:1], pick(r, []string{"1", "2", "1", ":", ":op", "0", "12"}), "HOOKDONE", pick(r, []string{"2\r", "1\r", "2.", "0\r", "\r", "en https://nowhere.example/x\r", "\x7f1\r"}))
				}
				burst = append(burst, "HOOKDONE")
				if r.Intn(3) == 0 {
					burst = append(burst, pick(r, []string{"j", "\x1b", "1"}), "HOOKDONE")
				}
				at := r.Intn(len(keys) + 1)
				keys = append(keys[:at:at], append(burst, keys[at:]...)...)
			}
		}
		/* history walks: several pages opened, some steps back, a new page opened from there,
		   then forward (which must do nothing) and back again */
		if r.Intn(3) == 0 {
			walk := []any{}
			opens := 2 + r.Intn(3)
			for k := 0; k < opens; k++ {
				walk = append(walk, pick(r, []string{"j", "k", "j"}), pick(r, []string{" ", " ", "c", "a", ":open " + pick(r, starts) + "\r", "1."}))
			}
			for k := 1 + r.Intn(opens); k > 0; k-- {
				walk = append(walk, "h")
			}
			walk = append(walk, pick(r, []string{"j", "k", ""}), pick(r, []string{" ", " ", "c", ":open " + pick(r, starts) + "\r"}))
			for k := 1 + r.Intn(3); k > 0; k-- {
				walk = append(walk, pick(r, []string{"l", "l", "h"}))
			}
			at := r.Intn(len(keys) + 1)
			keys = append(keys[:at:at], append(walk, keys[at:]...)...)
		}
		/* terminal resizes between keys, also in the middle of typing a command or a number;
		   often only one of the two dimensions changes */
		uiW, uiH := 20+r.Intn(100), 2+r.Intn(50)
		/* the smallest terminals: widths 1..8 (no room for an item), heights 1, 2, 3 */
		if r.Intn(6) == 0 {
			uiW = 1 + r.Intn(8)
		}
		if r.Intn(6) == 0 {
			uiH = 1 + r.Intn(3)
		}
		if r.Intn(2) == 0 {
			w, h := uiW, uiH
			for k := 0; k < 1+r.Intn(3); k++ {
				switch r.Intn(5) {
				case 0:
					h = 1 + r.Intn(60)
				case 1:
					w = 1 + r.Intn(120)
				case 2:
					h = pick(r, []int{1, 2, 2, 3, 3, 4})
				case 3:
					w = 1 + r.Intn(8)
				default:
					w, h = 1+r.Intn(120), 1+r.Intn(60)
				}
				resize := fmt.Sprintf("RESIZE %d %d", w, h)
				at := r.Intn(len(keys) + 1)
				if r.Intn(2) == 0 {
					/* while a command or a number is being typed */
					typing := pick(r, []string{":", ":op", "1", "12", ":feed ho", ":open " + strings.Repeat("long ", 40), "123456789012345678901234567890"})
					rest := pick(r, []string{"\x1b", "\r", ".", "\x7f", "j"})
					keys = append(keys[:at:at], append([]any{typing, resize, rest}, keys[at:]...)...)
				} else {
					keys = append(keys[:at:at], append([]any{resize}, keys[at:]...)...)
				}
			}
		}
		/* keys that arrive while the surroundings of a page are still loading (the page itself
		   is there): everything but j and k, which look at what has been loaded so far */
		if r.Intn(3) == 0 {
			for n := 1 + r.Intn(2); n > 0; n-- {
				/* the starter begins in normal mode and is a single key (a second j would look at what
				   the first one is still loading); every token in between leaves no command line or
				   number open (an open command line would turn later keys into an :open), only the
				   last one may */
				tok := "HELDS\x1f\x1b" + pick(r, []string{" ", " ", "j", "k", "c", "a", "r", "j", "k"})
				for k := 1 + r.Intn(6); k > 0; k-- {
					tok += "\x1f" + pick(r, []string{"g", "h", "h", "l", " ", " ", "c", "r", "a", "o", "p", "b", "\x1b", "\x7f", ":x\x1b", ":open x\x1b", "1\x1b", "12\x7f\x7f", "0.", "99.", ":\r", ":bogus x\r", ":feed unknown\r",
						"\x00", "é", "Z", fmt.Sprintf("RESIZE %d %d", 1+r.Intn(120), 2+r.Intn(58)), fmt.Sprintf("RESIZE %d %d", 1+r.Intn(8), 2+r.Intn(3))})
				}
				if r.Intn(3) == 0 {
					tok += "\x1f" + pick(r, []string{"1", "12\x7f", ":open x\x7f", ":x", ":", "o"})
				}
				ins := []any{tok}
				if r.Intn(2) == 0 {
					ins = append(ins, pick(r, []string{"h", "l", "j", "k"}))
				}
				at := r.Intn(len(keys) + 1)
				keys = append(keys[:at:at], append(ins, keys[at:]...)...)
			}
		}
		/* every kind of status line and the loading frame on the smallest terminals: two or three
		   rows, or a handful of columns */
		if r.Intn(4) == 0 {
			tw, th := uiW, pick(r, []int{2, 2, 3, 3, 4})
			if r.Intn(3) == 0 {
				tw, th = 1+r.Intn(8), pick(r, []int{2, 3, 5, 24})
			}
			block := []any{fmt.Sprintf("RESIZE %d %d", tw, th)}
			for k := 2 + r.Intn(5); k > 0; k-- {
				block = append(block, pick(r, []string{":bogus x\r", ":feed unknown\r", "1", "12\x1b", ":", ":op", "\x1b", "o", "p", "1\r", "HOOKDONE", "j", "k", " ", ":open " + pick(r, starts) + "\r", ":feed mixed\r", "g", "h"}))
			}
			block = append(block, "HOOKDONE")
			if r.Intn(2) == 0 {
				block = append(block, fmt.Sprintf("RESIZE %d %d", 20+r.Intn(100), 2+r.Intn(50)))
			}
			at := r.Intn(len(keys) + 1)
			keys = append(keys[:at:at], append(block, keys[at:]...)...)
		}
		/* a second outbox (bob's) and feeds merging outboxes, threads and collections */
		bacts := []any{}
		for a := 0; a < r.Intn(6); a++ {
			k := r.Intn(len(notes))
			f := map[string]any{"type": "Create", "id": g.url(other, fmt.Sprintf("bact%d", a)), "actor": bobURL, "object": notes[k],
				"published": time.Date(2024, 2, 1+r.Intn(20), r.Intn(24), r.Intn(60), 0, 0, time.UTC).Format(time.RFC3339)}
			bacts = append(bacts, g.serve(other, fmt.Sprintf("bact%d", a), f))
		}
		boutbox := g.serve(other, "boutbox", map[string]any{"type": "OrderedCollection", "id": g.url(other, "boutbox"), "orderedItems": bacts})
		bob["outbox"] = boutbox
		bob["name"] = fmt.Sprintf("bob@H%d", other)
		for k, rt := range g.routes {
			if rt.(map[string]any)["path"] == "/{OP}/bob" {
				g.routes[k] = map[string]any{"h": other, "path": "/{OP}/bob", "resp": "HTTP/1.0 200 OK\r\nContent-Type: application/activity+json\r\n\r\n" + jsonDoc(bob), "fault": ""}
			}
		}
		feeds := map[string]any{
			"home":  []any{aliceURL, bobURL},
			"mixed": []any{aliceURL, leaf, outboxURL, "https://{H0}/{OP}/nothing-here", emptyURL},
			"one":   []any{bobURL},
			"none":  []any{},
		}
		if r.Intn(3) == 0 {
			keys = append([]any{":feed " + pick(r, []string{"home", "mixed", "one", "none", "unknown"}) + "\r"}, keys...)
		}
		for k := range keys {
			if r.Intn(25) == 0 {
				keys[k] = ":feed " + pick(r, []string{"home", "mixed", "one", "none", "unknown"}) + "\r"
			}
		}
		op := Op{"op": "ui", "routes": g.routes, "start": pick(r, starts), "keys": keys, "feeds": feeds, "width": uiW, "height": uiH,
			"hookmode": pick(r, []string{"", "", "", "fail", "fail", "failquiet", "failbig", "failbin", "okbig"}), "hooktypes": r.Intn(3) == 0}
		/* started the other documented way: `servitor feed <name>` (an unknown name or command ends
		   the program before any page exists) */
		switch r.Intn(12) {
		case 0:
			op["startcmd"], op["start"] = "feed", pick(r, []string{"home", "mixed", "one", "none", "home", "mixed", "unknown", ""})
		case 1:
			if r.Intn(4) == 0 {
				op["startcmd"] = pick(r, []string{"bogus", "Open", "feed ", "open "})
			}
		}
		emit(op)
	}
}
