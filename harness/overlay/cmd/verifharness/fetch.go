//go:build verif

package main

import (
	"encoding/json"
	"fmt"
	"math/rand"
	"net/url"
	"os"
	"servitor/client"
	"servitor/config"
	"servitor/jtp"
	"strings"
	"sync"
	"sync/atomic"
	"time"
)

var opCounter = 0

func init() {
	/* the unit of the simulator's slow faults: the configured timeout in whole seconds */
	simTimeoutSeconds = func() int {
		t := config.Parsed.Network.Timeout / time.Second
		if t < 1 {
			return 1
		}
		if t > 10 {
			return 10
		}
		return int(t)
	}
}

func substitute(s string, hosts []string, opid string) string {
	for i, h := range hosts {
		s = strings.ReplaceAll(s, fmt.Sprintf("{H%d}", i), h)
		/* the address of host i without its port: authorities that differ from it by port only */
		if strings.Contains(s, "{I") {
			if c := strings.LastIndexByte(h, ':'); c >= 0 {
				s = strings.ReplaceAll(s, fmt.Sprintf("{I%d}", i), h[:c])
			}
		}
	}
	s = strings.ReplaceAll(s, "{OP}", opid)
	if sim != nil {
		s = strings.ReplaceAll(s, "{CANARY}", sim.canary)
	}
	/* {P5}: the port of host 5 alone, for authorities written another way (LOCALHOST:{P5}) */
	for i, h := range hosts {
		if k := strings.LastIndex(h, ":"); k >= 0 && !strings.HasSuffix(h, "]") {
			s = strings.ReplaceAll(s, fmt.Sprintf("{P%d}", i), h[k+1:])
		}
	}
	return s
}

/*
the text the model works on: a padding marker stands for three of its characters (the

	recognisers treat a run of one non-newline character alike whatever its length)
*/
func compressPads(resp string) string {
	for {
		i := strings.Index(resp, "{PAD:")
		if i < 0 {
			return resp
		}
		e := strings.Index(resp[i:], "}")
		if e < 0 {
			return resp
		}
		c := ""
		if parts := strings.SplitN(resp[i+5:i+e], ":", 2); len(parts) == 2 {
			c = parts[1]
		}
		resp = resp[:i] + strings.Repeat(c, 3) + resp[i+e+1:]
	}
}

func urlRecord(u *url.URL) any {
	rec := map[string]any{"str": u.String(), "scheme": u.Scheme, "host": u.Host, "uri": u.RequestURI(), "hostname": u.Hostname(), "port": u.Port()}
	if sim != nil {
		/* which listener a connection to this URL's host and port arrives at ("" = none of ours) */
		rec["reach"] = sim.reach(u.Hostname(), u.Port())
	}
	return rec
}

/* decode oracle: every suffix of the response that starts after a '\n' */
func decodeTable(resp string) []any {
	out := []any{}
	for i := 0; i < len(resp); i++ {
		if resp[i] == '\n' {
			rest := resp[i+1:]
			key := rest
			if strings.Contains(rest, "{PAD:") {
				/* decoded at full size, reported under the text the model sees */
				key, rest = compressPads(rest), expandPads(rest)
			}
			var m map[string]any
			err := json.NewDecoder(strings.NewReader(rest)).Decode(&m)
			if err != nil {
				out = append(out, []any{key, nil})
			} else if m == nil {
				out = append(out, []any{key, map[string]any{"null": true}})
			} else {
				out = append(out, []any{key, map[string]any{"stamp": fmt.Sprint(m["stamp"])}})
			}
		}
	}
	return out
}

func toStrings(xs []any) []string {
	out := []string{}
	for _, x := range xs {
		out = append(out, x.(string))
	}
	return out
}

/*
installs the op's routes; returns the substituted world for the model:
routes [{url, resp, fault}], url table, resolve table, decode table; "world_healed" is the same
world with every fault taken away (what the servers answer after a "@heal" step)
*/
func installWorld(op Op) (map[string]route, string) {
	s := startSimulator()
	opCounter++
	opid := fmt.Sprintf("op%d-%d", os.Getpid(), opCounter)
	routes := map[string]route{}
	worldTexts = map[string][]string{}
	world := []any{}
	healed := []any{}
	resolve := []any{}
	decode := []any{}
	urls := map[string]any{}
	noteURL := func(raw string) {
		if u, err := url.Parse(raw); err == nil {
			urls[raw] = urlRecord(u)
		} else {
			urls[raw] = nil
		}
	}
	for _, r := range L(op, "routes") {
		rm := r.(map[string]any)
		h := I(Op(rm), "h")
		path := substitute(S(Op(rm), "path"), s.hosts, opid)
		resp := substitute(S(Op(rm), "resp"), s.hosts, opid)
		fault := S(Op(rm), "fault")
		if strings.HasPrefix(fault, "cutloc:") {
			/* a cut placed relative to the end of the Location value of the response as served */
			var delta int
			parts := strings.Split(fault, ":")
			fmt.Sscanf(parts[1], "%d", &delta)
			fault = ""
			if loc := strings.Index(resp, "Location: "); loc >= 0 {
				if e := strings.Index(resp[loc:], "\r\n"); e >= 0 {
					fault = fmt.Sprintf("cut:%d:%s", loc+e+delta, parts[2])
				}
			}
		}
		authority := s.hosts[h]
		routes[authority+" "+path] = route{resp: resp, fault: fault}
		full := "https://" + authority + strings.TrimSuffix(path, "?*")
		noteURL(full)
		/* what the client can receive at most under the fault */
		whole := compressPads(resp)
		effective, mfault := whole, fault
		cut := false
		if strings.HasPrefix(fault, "cut:") {
			var k int
			fmt.Sscanf(strings.Split(fault, ":")[1], "%d", &k)
			if k < 0 {
				/* counted from the end */
				if k += len(whole); k < 0 {
					k = 0
				}
			}
			if k < len(whole) {
				effective = whole[:k]
				cut = true
			}
			mfault = ""
		} else if fault == "stall" || strings.HasPrefix(fault, "trickle:") || strings.HasPrefix(fault, "slowtail:") || strings.HasPrefix(fault, "flood:") {
			/* nothing complete arrives before the deadline */
			effective, mfault = "", ""
			cut = true
		} else if strings.HasPrefix(fault, "slowok:") {
			/* slow, but all of it well before the deadline */
			mfault = ""
		}
		world = append(world, map[string]any{"url": full, "key": authority + " " + path, "resp": effective, "fault": mfault, "lossy": strings.HasSuffix(fault, ":reset")})
		healed = append(healed, map[string]any{"url": full, "key": authority + " " + path, "resp": whole, "fault": ""})
		base, _ := url.Parse(full)
		texts := []string{whole}
		if cut {
			texts = append(texts, effective)
		}
		for _, text := range texts {
			for _, line := range strings.SplitAfter(text, "\n") {
				if v, ok := jtp.VerifLocationValue(line); ok {
					ref, err := url.Parse(v)
					if err != nil {
						resolve = append(resolve, []any{full, v, nil})
					} else {
						t := base.ResolveReference(ref)
						resolve = append(resolve, []any{full, v, t.String()})
						urls[t.String()] = urlRecord(t)
					}
				}
			}
		}
		worldTexts[authority+" "+path] = texts
		/* bodies are decoded at their real size */
		decode = append(decode, decodeTable(resp)...)
		if cut {
			decode = append(decode, decodeTable(effective)...)
		}
	}
	for _, hf := range L(op, "hostfaults") {
		hm := hf.(map[string]any)
		routes["@"+s.hosts[I(Op(hm), "h")]] = route{fault: S(Op(hm), "fault")}
	}
	s.setRoutes(routes)
	op["world"] = world
	op["world_healed"] = healed
	op["resolve"] = resolve
	op["decode"] = decode
	op["urltable"] = urls
	op["hosts"] = toAnyList(s.hosts)
	return routes, opid
}

/* the texts (whole, and as cut by its fault) a route of the installed world can send */
var worldTexts = map[string][]string{}

/*
The resolve table so far names every route by its plain URL as base.  A fetch can arrive at a
route under another spelling (a fragment, a query the route ignores, another letter case of the
host), and ResolveReference depends on the base: close the table over every URL the url table
knows, following the Locations of the routes they reach.
*/
func completeResolve(op Op) {
	tbl, _ := op["urltable"].(map[string]any)
	resolve, _ := op["resolve"].([]any)
	seen := map[string]bool{}
	for _, e := range resolve {
		p := e.([]any)
		seen[p[0].(string)+"\x00"+p[1].(string)] = true
	}
	work := []string{}
	for k, rec := range tbl {
		if rec != nil {
			work = append(work, k)
		}
	}
	for steps := 0; len(work) > 0 && steps < 4000; steps++ {
		raw := work[0]
		work = work[1:]
		u, err := url.Parse(raw)
		if err != nil {
			continue
		}
		at := sim.reach(u.Hostname(), u.Port())
		if at == "" {
			continue
		}
		uri := u.RequestURI()
		texts, ok := worldTexts[at+" "+uri]
		if !ok {
			if q := strings.IndexByte(uri, '?'); q >= 0 {
				texts, ok = worldTexts[at+" "+uri[:q]+"?*"]
			}
		}
		if !ok {
			continue
		}
		base := u.String()
		for _, text := range texts {
			for _, line := range strings.SplitAfter(text, "\n") {
				v, isLoc := jtp.VerifLocationValue(line)
				if !isLoc || seen[base+"\x00"+v] {
					continue
				}
				seen[base+"\x00"+v] = true
				ref, err := url.Parse(v)
				if err != nil {
					resolve = append(resolve, []any{base, v, nil})
					continue
				}
				t := u.ResolveReference(ref)
				resolve = append(resolve, []any{base, v, t.String()})
				if _, known := tbl[t.String()]; !known {
					tbl[t.String()] = urlRecord(t)
					work = append(work, t.String())
				}
			}
		}
	}
	op["resolve"] = resolve
}

/* every fault of the installed world taken away (the request log is kept) */
func healWorld(routes map[string]route) {
	s := startSimulator()
	clean := map[string]route{}
	for k, rt := range routes {
		if strings.HasPrefix(k, "@") {
			continue
		}
		clean[k] = route{resp: rt.resp}
	}
	s.mu.Lock()
	s.routes = clean
	s.mu.Unlock()
}

func logSummary(log []simRequest) []any {
	out := []any{}
	for _, rq := range log {
		out = append(out, []any{rq.Host, rq.Raw})
	}
	return out
}

func init() {
	execs["statusline"] = func(op Op) any {
		s, ok := jtp.VerifParseStatusLine(S(op, "s"))
		if !ok {
			return nil
		}
		return s
	}
	execs["ctline"] = func(op Op) any {
		e, is, ok := jtp.VerifParseContentType(S(op, "s"))
		return []any{is, ok, e}
	}
	execs["locline"] = func(op Op) any {
		v, ok := jtp.VerifLocationValue(S(op, "s"))
		if !ok {
			return nil
		}
		return v
	}
	execs["headers"] = func(op Op) any {
		ok, _ := jtp.VerifValidateHeaders(S(op, "s"), toStrings(L(op, "tolerated")))
		return ok
	}
	/* op "fetchsame": several goroutines ask client.FetchURL for the same URL at the same moment,
	   as the items of a page ask for their common author.  One slow or silent server must cost
	   each of them one fetch's worth of time, not the sum. */
	execs["fetchsame"] = func(op Op) any {
		s := startSimulator()
		_, opid := installWorld(op)
		jtp.VerifCachePurge()
		op["timeout_s"] = simTimeoutSeconds()
		target := substitute(S(op, "u"), s.hosts, opid)
		u, err := url.Parse(target)
		if err != nil {
			return map[string]any{"badurl": true}
		}
		k := I(op, "askers")
		results := make([]any, k)
		ms := make([]any, k)
		handle := substitute(S(op, "handle"), s.hosts, opid)
		if parts := strings.SplitN(handle, "@", 2); handle != "" && len(parts) == 2 {
			/* the URL a lookup of this handle requests */
			u = &url.URL{Scheme: "https", Host: parts[1], Path: "/.well-known/webfinger", RawQuery: (url.Values{"resource": []string{"acct:" + parts[0] + "@" + parts[1]}}).Encode()}
			if e, ok := op["expect"].(map[string]any); ok {
				op["expect_lookup"] = substitute(fmt.Sprint(e["lookup"]), s.hosts, opid)
			}
		}
		var wg sync.WaitGroup
		for i := 0; i < k; i++ {
			wg.Add(1)
			go func(i int) {
				defer wg.Done()
				start := time.Now()
				if handle != "" && i%2 == 1 {
					/* every other asker is a webfinger lookup that requests the same URL (it
					   tolerates other media types than a document fetch does) */
					link, werr := client.ResolveWebfinger(handle)
					ms[i] = time.Since(start).Milliseconds()
					if werr != nil {
						results[i] = map[string]any{"kind": "lookup", "err": true}
					} else {
						results[i] = map[string]any{"kind": "lookup", "ok": link}
					}
					return
				}
				doc, src, gerr := client.FetchURL(u)
				ms[i] = time.Since(start).Milliseconds()
				if gerr != nil {
					results[i] = map[string]any{"kind": "fetch", "err": true}
					return
				}
				results[i] = map[string]any{"kind": "fetch", "ok": map[string]any{"src": src.String(), "stamp": fmt.Sprint(doc["stamp"])}}
			}(i)
		}
		wg.Wait()
		s.takeLog()
		return map[string]any{"results": results, "ms": ms}
	}
	/* a sequence of fetches against one world.  Steps: a URL; "@heal" (from here on the servers
	   answer without faults); an object {"u": url, "tolerated": [...]} (a fetch with its own
	   tolerated types).  With "parallel" all fetches run at once (their chains are disjoint:
	   the requests of fetch i are those whose path contains "/c<i>/"). */
	execs["fetchseq"] = func(op Op) any {
		s := startSimulator()
		atomic.StoreInt32(&simReadOn, 1)
		defer atomic.StoreInt32(&simReadOn, 0)
		routes, opid := installWorld(op)
		jtp.VerifCachePurge()
		if _, timed := op["timeout_s"]; timed {
			/* the bound is stated in the configured timeout of this process */
			op["timeout_s"] = simTimeoutSeconds()
		}
		type fetched struct {
			doc     map[string]any
			src     *url.URL
			err     error
			elapsed time.Duration
		}
		render := func(f fetched) map[string]any {
			if f.err != nil {
				return map[string]any{"err": true}
			}
			stamp := "<nullmap>"
			if f.doc != nil {
				stamp = fmt.Sprint(f.doc["stamp"])
			}
			return map[string]any{"ok": map[string]any{"src": f.src.String(), "stamp": stamp}}
		}
		get := func(u *url.URL, tolerated []string) fetched {
			start := time.Now()
			doc, src, gerr := jtp.Get(u, S(op, "accept"), tolerated, uint(I(op, "budget")))
			return fetched{doc, src, gerr, time.Since(start)}
		}
		results := []any{}
		seq := []any{}
		timings := []any{}
		perTolerated := []any{}
		tbl, _ := op["urltable"].(map[string]any)
		parse := func(target string) *url.URL {
			u, err := url.Parse(target)
			if err != nil {
				tbl[target] = nil
				return nil
			}
			tbl[target] = urlRecord(u)
			tbl[u.String()] = urlRecord(u)
			return u
		}
		if B(op, "parallel") {
			targets := []string{}
			for _, raw := range L(op, "seq") {
				targets = append(targets, substitute(raw.(string), s.hosts, opid))
			}
			out := make([]fetched, len(targets))
			var wg sync.WaitGroup
			for i, target := range targets {
				seq = append(seq, target)
				perTolerated = append(perTolerated, nil)
				u := parse(target)
				if u == nil {
					out[i] = fetched{err: fmt.Errorf("bad url")}
					continue
				}
				wg.Add(1)
				go func(i int, u *url.URL) {
					defer wg.Done()
					out[i] = get(u, toStrings(L(op, "tolerated")))
				}(i, u)
			}
			wg.Wait()
			log := s.takeLog()
			for i := range targets {
				res := render(out[i])
				mine := []simRequest{}
				for _, rq := range log {
					if strings.Contains(rq.Raw, fmt.Sprintf("/%s/c%d/", opid, i)) {
						mine = append(mine, rq)
					}
				}
				res["requests"] = logSummary(mine)
				results = append(results, res)
				timings = append(timings, out[i].elapsed.Milliseconds())
			}
		} else {
			for _, raw := range L(op, "seq") {
				tolerated := toStrings(L(op, "tolerated"))
				var own any
				if step, ok := raw.(map[string]any); ok {
					raw = step["u"]
					own = step["tolerated"]
					tolerated = toStrings(L(Op(step), "tolerated"))
				}
				perTolerated = append(perTolerated, own)
				if raw.(string) == "@heal" {
					healWorld(routes)
					seq = append(seq, "@heal")
					results = append(results, map[string]any{"healed": true})
					timings = append(timings, 0)
					continue
				}
				target := substitute(raw.(string), s.hosts, opid)
				seq = append(seq, target)
				u := parse(target)
				if u == nil {
					results = append(results, map[string]any{"badurl": true})
					timings = append(timings, 0)
					continue
				}
				f := get(u, tolerated)
				res := render(f)
				res["requests"] = logSummary(s.takeLog())
				timings = append(timings, f.elapsed.Milliseconds())
				results = append(results, res)
			}
		}
		completeResolve(op)
		op["targets"] = seq
		op["tolerated_per"] = perTolerated
		op["ms"] = timings
		op["canaryhits"] = s.canaryHits()
		op["resumed"] = s.resumedSessions()
		op["cachesize"] = config.Parsed.Network.CacheSize
		return results
	}
	groups["C03"] = group{gen: genC03}
	groups["C04"] = group{gen: genC04}
	groups["C05"] = group{gen: genC05}
	groups["C05p"] = group{gen: genC05Pub}
	execs["webfinger"] = func(op Op) any {
		s := startSimulator()
		atomic.StoreInt32(&simReadOn, 1)
		defer atomic.StoreInt32(&simReadOn, 0)
		_, opid := installWorld(op)
		jtp.VerifCachePurge()
		handle := substitute(S(op, "handle"), s.hosts, opid)
		op["handle_sub"] = handle
		/* oracle: the query encoding of the real url.Values */
		if parts := strings.SplitN(handle, "@", 2); len(parts) == 2 {
			op["query"] = (url.Values{"resource": []string{"acct:" + parts[0] + "@" + parts[1]}}).Encode()
			op["domain"] = parts[1]
		}
		/* the JRD document of the (single) route, decoded, for the model */
		for _, rt := range op["world"].([]any) {
			resp := rt.(map[string]any)["resp"].(string)
			if i := strings.Index(resp, "\r\n\r\n"); i >= 0 && strings.HasPrefix(resp, "HTTP/1.0 200") {
				var doc map[string]any
				if jsonUnmarshalString(resp[i+4:], &doc) == nil && doc != nil {
					op["jrd"] = tree(doc)
				}
			}
		}
		link, err := client.ResolveWebfinger(handle)
		log := s.takeLog()
		op["canaryhits"] = s.canaryHits()
		res := map[string]any{"requests": logSummary(log)}
		if err != nil {
			res["err"] = true
		} else {
			res["ok"] = link
		}
		return res
	}
}

var statusLines = []string{"HTTP/1.0 200 OK", "HTTP/1.1 200 OK", "HTTP/1.0 201 Created", "HTTP/1.0 202 Accepted", "HTTP/1.0 203 Non-Authoritative",
	"HTTP/1.0 204 No Content", "HTTP/1.0 206 Partial", "HTTP/1.0 404 Not Found", "HTTP/1.0 500 Oops", "HTTP/1.0 200", "HTTP/1.0 2000 OK", "HTTP/2.0 200 OK",
	"HTTP/1.0  200 OK", "http/1.0 200 OK", "HTTP/1.5 203 x\x1b[31m", "HTTP/1.0 20 OK", " HTTP/1.0 200 OK", "HTTP/1.0 299 Odd", "ICY 200 OK", "",
	/* codes next to the accepted range and next to the redirect range; 3xx on a response that is no redirect */
	"HTTP/1.0 199 x", "HTTP/1.0 100 Continue", "HTTP/1.0 204 No Content", "HTTP/1.0 205 Reset", "HTTP/1.0 300 Multiple Choices", "HTTP/1.0 304 Not Modified",
	"HTTP/1.0 399 x", "HTTP/1.0 400 Bad", "HTTP/1.0 401 Unauthorized", "HTTP/1.0 200OK", "HTTP/1.0 200\tOK", "HTTP/1.0 002 x", "HTTP/1.0 3000 x", "HTTP/1.0 -200 x", "HTTP/1.9 201 x"}

/* the statuses of redirecting responses: every code the code treats as one, the edges included */
var redirectStatuses = []string{"HTTP/1.0 301 Moved", "HTTP/1.0 302 Found", "HTTP/1.1 307 Temporary", "HTTP/1.0 300 Multiple", "HTTP/1.0 399 x",
	"HTTP/1.0 303 See Other", "HTTP/1.0 304 Not Modified", "HTTP/1.0 305 Use Proxy", "HTTP/1.0 306 x", "HTTP/1.1 308 Permanent", "HTTP/1.0 309 x", "HTTP/1.0 310 x", "HTTP/1.0 3000 x", "HTTP/1.0 302"}

var contentTypes = []string{"application/activity+json", "application/ld+json; profile=\"https://www.w3.org/ns/activitystreams\"", "application/json", "application/json; charset=utf-8",
	"text/html", "application/jrd+json", "APPLICATION/JSON", "application/activity+json ", "\tapplication/json\t", "application/", "", "application/json/x", "*/*"}

func genHeaderName(r *rand.Rand, name string) string {
	switch r.Intn(6) {
	case 0:
		return strings.ToUpper(name)
	case 1:
		return strings.ToLower(name)
	case 2:
		return name + " "
	case 3:
		return " " + name
	}
	return name
}

func genDocBody(r *rand.Rand, stamp string) string {
	switch weighted(r, 12, 1, 1, 1, 1, 1, 1, 1, 1) {
	case 8:
		/* well-formed JSON the decoder still refuses, but only once it has read all of it: a
		   number no float64 holds (the rest of the object is decoded meanwhile) */
		return pick(r, []string{"{\"stamp\":\"" + stamp + "\",\"n\":1e400}", "{\"n\":-1e999,\"stamp\":\"" + stamp + "\",\"type\":\"Note\"}",
			"{\"stamp\":\"" + stamp + "\",\"m\":[1,{\"k\":123456789e999}]}", "{\"stamp\":\"" + stamp + "\",\"totalItems\":1e309,\"type\":\"Collection\"}"})
	case 1:
		return "[1,2]"
	case 2:
		return "null"
	case 3:
		return "{\"stamp\":\"" + stamp + "\""
	case 4:
		return "\"str\""
	case 5:
		return ""
	case 6:
		return "{\"stamp\":\"" + stamp + "\"} trailing garbage"
	case 7:
		/* nesting beyond what the decoder accepts; a second complete value; a key given twice */
		return pick(r, []string{"{\"stamp\":\"" + stamp + "\",\"deep\":" + strings.Repeat("[", 10050) + strings.Repeat("]", 10050) + "}",
			"{\"stamp\":\"" + stamp + "\"}{\"stamp\":\"second\"}", "{\"stamp\":\"first\",\"stamp\":\"" + stamp + "\"}", " \r\n\t{\"stamp\":\"" + stamp + "\"}", "\ufeff{\"stamp\":\"" + stamp + "\"}", "{}"})
	}
	return "{\"stamp\":\"" + stamp + "\",\"type\":\"Note\"}"
}

func genResponse(r *rand.Rand, stamp string, status string, location string) string {
	eol := "\r\n"
	if r.Intn(6) == 0 {
		eol = "\n"
	}
	var b strings.Builder
	b.WriteString(status + eol)
	nh := r.Intn(4)
	wroteCT := false
	for i := 0; i < nh; i++ {
		switch weighted(r, 3, 2, 1) {
		case 0:
			b.WriteString("Server: sim" + eol)
		case 1:
			b.WriteString("X-Content-Type: text/html" + eol)
		case 2:
			b.WriteString("Date: today" + eol)
		}
	}
	/* a very long header line whose value reads like another header at the offsets where a
	   reader with a fixed buffer would split it (a header line is one line, however long) */
	longLine := false
	if r.Intn(12) == 0 {
		longLine = true
		inner := pick(r, []string{"Content-Type: application/activity+json", "content-type:application/json", "Location: https://{H1}/{OP}/d0", "Location: /{OP}/d0", ""})
		at := pick(r, []int{4096, 4096, 8192, 1024, 2048, 4095, 4097, 16384, 65536, 100 + r.Intn(9000)})
		name := "X-Long: "
		line := name + strings.Repeat("p", at-len(name)) + inner
		if r.Intn(3) == 0 {
			line += strings.Repeat("q", r.Intn(5000))
		}
		b.WriteString(line + eol)
	}
	decoys := []string{"https://{H1}/{OP}/d0", "/{OP}/d0", "https://{H2}/{OP}/missing", "http://{CANARY}/{OP}/leak", "d1", ""}
	if location != "" && !(longLine && r.Intn(2) == 0) {
		if r.Intn(10) == 0 {
			/* two Location lines: the first one counts */
			b.WriteString("Location: " + pick(r, decoys) + eol)
		}
		b.WriteString(genHeaderName(r, "Location") + ":" + pick(r, []string{" ", "", "\t", "  "}) + location + pick(r, []string{"", " ", "\t"}) + eol)
		if r.Intn(6) == 0 {
			b.WriteString(genHeaderName(r, "Location") + ": " + pick(r, decoys) + eol)
		}
	} else if location == "" && r.Intn(8) == 0 {
		/* a Location on a response that is no redirect means nothing (and everything on a 3xx one) */
		b.WriteString(genHeaderName(r, "Location") + ": " + pick(r, decoys) + eol)
	}
	if r.Intn(8) != 0 && !(longLine && r.Intn(2) == 0) {
		ct := "application/activity+json"
		if r.Intn(3) == 0 {
			ct = pick(r, contentTypes)
		}
		b.WriteString(genHeaderName(r, "Content-Type") + ":" + pick(r, []string{" ", "", "  "}) + ct + eol)
		wroteCT = true
		if r.Intn(12) == 0 {
			b.WriteString("Content-Type: " + pick(r, contentTypes) + eol)
		}
	}
	_ = wroteCT
	if r.Intn(15) != 0 {
		b.WriteString(eol)
	}
	b.WriteString(genDocBody(r, stamp))
	return b.String()
}

/*
Was disabled while the defect stood (repaired in the code since: the cache key carries the tolerated types): the cache of
jtp.Get is keyed by the URL alone, so a document fetched by a request that tolerates its media
type is handed from the cache to a later request that does not (webfinger tolerates
application/jrd+json, FetchURL does not, and the other way round for application/activity+json;
both go through the same cache).  With the switch on, some steps of a C03 sequence carry their
own tolerated list and same_result_as_cold_cache fails on the unchanged tree.
*/
const genToleratedPerFetch = true

func genC03(r *rand.Rand, n int, emit func(Op)) {
	accept := "application/activity+json,application/ld+json; profile=\"https://www.w3.org/ns/activitystreams\""
	tolerated := []any{"application/activity+json", "application/ld+json", "application/json"}
	for i := 0; i < n; i++ {
		switch weighted(r, 2, 2, 1, 1, 8) {
		case 0:
			emit(Op{"op": "statusline", "s": pick(r, statusLines) + pick(r, []string{"\n", "\r\n", "", "\n\n", " \n"})})
			continue
		case 1:
			emit(Op{"op": "ctline", "s": genHeaderName(r, pick(r, []string{"Content-Type", "content-type", "Content-Typ", "X-Content-Type", "Content-Type2"})) + pick(r, []string{":", ": ", " :", ":\t \r"}) + pick(r, contentTypes) + pick(r, []string{"\n", "\r\n", " \r\n", ""})})
			continue
		case 2:
			emit(Op{"op": "locline", "s": genHeaderName(r, pick(r, []string{"Location", "location", "Locations", "Content-Location"})) + pick(r, []string{":", ": ", ":\t"}) + pick(r, []string{"/x", "https://a/b ", "", " ", "a b", "\x7f"}) + pick(r, []string{"\n", "\r\n", ""})})
			continue
		case 3:
			emit(Op{"op": "headers", "s": strings.SplitN(genResponse(r, "s", "HTTP/1.0 200 OK", ""), "\n", 2)[1], "tolerated": tolerated})
			continue
		}
		/* a world: documents and redirect structures over several hosts */
		routes := []any{}
		nd := 1 + r.Intn(4)
		docs := []string{}
		/* the redirect budget: the client's 20, and small ones whose edges short chains reach */
		budget := 20
		if r.Intn(3) == 0 {
			budget = pick(r, []int{0, 1, 1, 2, 2, 3, 5})
		}
		for d := 0; d < nd; d++ {
			h := r.Intn(simHosts)
			if r.Intn(12) == 0 {
				/* a host reached by name, by IPv6 literal, on the default port */
				h = pick(r, []int{hostLocalhost, hostIPv6, hostDefault})
			}
			path := fmt.Sprintf("/{OP}/d%d", d)
			status := "HTTP/1.0 200 OK"
			if r.Intn(4) == 0 {
				status = pick(r, statusLines)
			}
			routes = append(routes, map[string]any{"h": h, "path": path, "resp": genResponse(r, fmt.Sprintf("d%d@H%d", d, h), status, ""), "fault": ""})
			docs = append(docs, fmt.Sprintf("https://{H%d}%s", h, path))
		}
		if r.Intn(3) == 0 {
			/* a second document whose URL differs from the first one's in letter case only */
			h0 := I(Op(routes[0].(map[string]any)), "h")
			routes = append(routes, map[string]any{"h": h0, "path": "/{OP}/D0", "resp": genResponse(r, fmt.Sprintf("D0@H%d", h0), "HTTP/1.0 200 OK", ""), "fault": ""})
			docs = append(docs, fmt.Sprintf("https://{H%d}/{OP}/D0", h0), fmt.Sprintf("https://{H%d}/{OP}/d0", h0))
		}
		if r.Intn(3) == 0 {
			/* a document that gives another document's URL (same host, another host, a redirect,
			   a missing one) as its own "id": what is remembered about a URL comes from that
			   URL's own response and from nothing else */
			k := r.Intn(len(docs))
			h0 := I(Op(routes[0].(map[string]any)), "h")
			named := pick(r, []string{docs[k], docs[0], fmt.Sprintf("https://{H%d}/{OP}/nothing-here", h0), fmt.Sprintf("https://{H%d}/{OP}/d0#me", h0)})
			routes = append(routes, map[string]any{"h": h0, "path": "/{OP}/alias", "resp": "HTTP/1.0 200 OK\r\nContent-Type: application/activity+json\r\n\r\n{\"stamp\":\"alias@H" + fmt.Sprint(h0) + "\",\"id\":\"" + named + "\",\"url\":\"" + docs[0] + "\"}", "fault": ""})
			docs = append(docs, fmt.Sprintf("https://{H%d}/{OP}/alias", h0), named, fmt.Sprintf("https://{H%d}/{OP}/alias", h0))
		}
		targets := append([]string{}, docs...)
		/* redirect chains / cycles */
		nr := r.Intn(5)
		edge := r.Intn(5) == 0
		if edge {
			/* around the budget: one short of it, exactly it, one and two beyond */
			if r.Intn(2) == 0 {
				budget = pick(r, []int{1, 2, 3, 4, 20})
			}
			nr = budget + pick(r, []int{-1, 0, 0, 1, 1, 2})
			if nr < 0 {
				nr = 0
			}
		}
		prev := pick(r, docs)
		chainHost := r.Intn(simHosts)
		directed := edge && nr >= 1 && r.Intn(3) != 0
		if directed {
			/* a clean chain ending in a good document */
			routes[0] = map[string]any{"h": 0, "path": "/{OP}/d0", "resp": "HTTP/1.0 200 OK\r\nContent-Type: application/activity+json\r\n\r\n{\"stamp\":\"d0@H0\"}", "fault": ""}
			prev = "https://{H0}/{OP}/d0"
		}
		for k := 0; k < nr; k++ {
			h := chainHost
			if r.Intn(3) == 0 {
				h = r.Intn(simHosts)
			}
			path := fmt.Sprintf("/{OP}/r%d", k)
			loc := prev
			/* relative and odd Locations */
			if strings.HasPrefix(prev, fmt.Sprintf("https://{H%d}", h)) && r.Intn(2) == 0 {
				loc = strings.TrimPrefix(prev, fmt.Sprintf("https://{H%d}", h))
				switch r.Intn(6) {
				case 0, 1:
					loc = strings.TrimPrefix(loc, "/{OP}/") // relative to the directory
				case 2:
					loc = "./" + strings.TrimPrefix(loc, "/{OP}/")
				case 3:
					loc = "../{OP}/" + strings.TrimPrefix(loc, "/{OP}/")
				}
			} else if r.Intn(8) == 0 {
				loc = strings.TrimPrefix(prev, "https:") // scheme-relative
			} else if r.Intn(12) == 0 {
				loc += "#frag" // a fragment is part of the key, not of the request
			}
			corrupt := weighted(r, 20, 1, 1, 1, 1)
			if directed {
				corrupt = 0
			}
			switch corrupt {
			case 1:
				loc = strings.Replace(loc, "https://", "http://", 1)
			case 2:
				loc = ""
			case 3:
				loc = fmt.Sprintf("https://{H%d}/{OP}/r%d", h, k) // self loop
			case 4:
				loc = "https://{H0}/{OP}/%zz"
			}
			status := pick(r, redirectStatuses)
			resp := genResponse(r, "redirect", status, loc)
			if directed {
				resp = status + "\r\nLocation: " + loc + "\r\n\r\n"
			}
			routes = append(routes, map[string]any{"h": h, "path": path, "resp": resp, "fault": ""})
			prev = fmt.Sprintf("https://{H%d}%s", h, path)
			targets = append(targets, prev)
		}
		if !directed && r.Intn(5) == 0 && nr >= 2 {
			/* close a cycle: first redirect points to the last */
			first := len(routes) - nr
			routes[first] = map[string]any{"h": routes[first].(map[string]any)["h"], "path": routes[first].(map[string]any)["path"],
				"resp": genResponse(r, "redirect", "HTTP/1.0 302 Found", prev), "fault": ""}
		}
		targets = append(targets, "http://{H0}/{OP}/d0", "https://{H1}/{OP}/missing", "ftp://{H0}/x",
			/* the same document under other spellings of its URL: each spelling is a cache key of its own */
			docs[0]+"#top", strings.Replace(docs[0], "https://", "HTTPS://", 1), pick(r, targets)+"#x")
		seq := []any{}
		steps := 1 + r.Intn(8)
		if r.Intn(3) == 0 {
			/* long enough to evict from a small cache and come back */
			steps = 8 + r.Intn(10)
		}
		for k := 0; k < steps; k++ {
			seq = append(seq, pick(r, targets))
		}
		if directed {
			/* directed: around the redirect budget; chain link k is k+1 redirects away from the document */
			at := func(k int) string {
				if k < 0 {
					return "https://{H0}/{OP}/d0"
				}
				m := routes[len(routes)-nr+k].(map[string]any)
				return fmt.Sprintf("https://{H%d}%s", I(Op(m), "h"), S(Op(m), "path"))
			}
			head := at(nr - 1)
			switch r.Intn(7) {
			case 0:
				seq = []any{head, at(nr - 2), head}
			case 1:
				seq = []any{at(nr / 2), head, at(nr / 2), at(nr - 2)}
			case 2:
				/* the document at the end already in the cache */
				seq = []any{at(-1), head, at(nr - 2)}
			case 3:
				/* the last redirect of the chain already in the cache */
				seq = []any{at(0), head, at(nr - 2), head}
			case 4:
				/* every link warmed up from the far end: no request is left, the budget still counts */
				seq = []any{}
				for k := -1; k < nr; k++ {
					seq = append(seq, at(k))
				}
				seq = append(seq, at(nr-2), head)
			case 5:
				seq = []any{head, head, at(-1), at(0)}
			case 6:
				seq = []any{at(nr - 2), head, at(0), at(nr - 2)}
			}
		}
		if genToleratedPerFetch && r.Intn(4) == 0 {
			for k := range seq {
				if r.Intn(2) == 0 {
					seq[k] = map[string]any{"u": seq[k], "tolerated": pick(r, [][]any{{"application/jrd+json", "application/json"}, {"application/activity+json"}, {"text/html"}, {}})}
				}
			}
		}
		emit(Op{"op": "fetchseq", "routes": routes, "seq": seq, "accept": accept, "tolerated": tolerated, "budget": budget})
	}
}

func genC04(r *rand.Rand, n int, emit func(Op)) {
	accept := "application/activity+json,application/ld+json; profile=\"https://www.w3.org/ns/activitystreams\""
	tolerated := []any{"application/activity+json", "application/ld+json", "application/json"}
	good := "HTTP/1.0 200 OK\r\nContent-Type: application/activity+json\r\n\r\n{\"stamp\":\"x\"}"
	hostile := []string{"", "?a b", "?a=b&c=d", "%0d%0aX-Evil:%201", "%0D%0A%0D%0AGET%20/evil%20HTTP/1.0", "?q=%0d%0aHost:%20evil", "/../../etc", "#frag", "?x=\u00e9", "%00", ";p=1", "?a=1#f\r\nX: y", " HTTP/1.0", "?\tx", "%20HTTP/1.1",
		/* escapes of the delimiters themselves, of the escape character, other letter case, broken escapes */
		"%2F..%2F", "%3Fq=1", "%23frag", "%25", "%250d%250a", "%0A", "%0a%0aGET%20/second%20HTTP/1.0%0a%0a", "?q=%0D%0A%0D%0AGET%20/second%20HTTP/1.0%0D%0A%0D%0A", "%", "%z", "?%", "?a=%zz", "+", "?+a+b",
		"/./x/../y", "//double", "?", "??", "?#", "#", "?a=1&a=2#f?g", "/\u00e9\u4e16", "/\x7f", "/a\\b", "/*", "?*", "/<script>", "/\"q\"", "/{x}", "/[x]", "?q=[x]&r={y}|z^`"}
	/* other spellings of authorities that reach a listener (and some that reach nothing): name
	   in other letter case, trailing dot, IPv6 literals, the default port written or not,
	   an empty port, userinfo in front of each */
	authorities := []string{"{H0}", "{H5}", "LOCALHOST:{P5}", "LocalHost.:{P5}", "localhost.:{P5}", "{H6}", "[0:0:0:0:0:0:0:1]:{P6}", "[::1%25lo]:{P6}", "[::ffff:127.0.0.2]:{P0}",
		"{H7}", "{H7}:443", "{H7}:", "{H7}:0443", "{H7}:80", "localhost", "\u00e9.invalid", "xn--9ca.invalid", "%C3%A9.invalid", "b\u00fccher.invalid:{P0}", "127.0.0.2.:{P0}", "127.1:{P0}", "0x7f.0.0.2:{P0}"}
	userinfos := []string{"", "", "", "user:secret@", "token@", ":@", "@", "user:p%40ss@", "a%0d%0aX-Evil:%201:b@", "Authorization%3A%20Basic:x@", "user:secret:more@"}
	for i := 0; i < n; i++ {
		if r.Intn(5) == 0 {
			jrd := "HTTP/1.0 200 OK\r\nContent-Type: application/jrd+json\r\n\r\n{\"links\":[{\"rel\":\"self\",\"type\":\"application/activity+json\",\"href\":\"https://{H1}/{OP}/actor\"}]}"
			if r.Intn(4) == 0 {
				jrd = pick(r, []string{"HTTP/1.0 200 OK\r\nContent-Type: application/json\r\n\r\n{\"links\":[{\"rel\":\"other\"},5]}", "HTTP/1.0 404 x\r\n\r\n", "HTTP/1.0 200 OK\r\nContent-Type: application/jrd+json\r\n\r\n{\"links\":{\"rel\":\"self\",\"type\":\"application/ld+json\",\"href\":\"h\"}}"})
			}
			handle := pick(r, []string{"alice", "a b", "a%40b", "a\r\nX: 1", "", "a&resource=evil", "a#x", "\u00e9", "a+b", "a%0d%0ab", "a=b;c", strings.Repeat("long", 1200), "acct:alice", "a\x00b", "a\tb"}) + "@" +
				pick(r, []string{"{H0}", "{H0}", "{H0}", "{H0}\r\nX-Evil: 1", "{H0}/path", "{H0}#f", "{H0}?x=1", "{CANARY}", "evil.invalid", "{H0} ", "user:pw@{H0}", "",
					/* bracketed hosts: url.URL.Hostname strips brackets and a numeric port, nothing else */
					"[{H0}]", "[{H0}]\r\nX-Injected: 1", "[{H0}]\r\nX-Injected:1", "[{H0}\r\nX-Injected]", "[::1]\r\nX-Injected",
					/* a name, an IPv6 literal, the default port */
					"{H5}", "LOCALHOST:{P5}", "localhost.:{P5}", "{H6}", "{H7}", "{H7}:443", "{H5}\nX-Injected: 1", "{H6}\rX-Injected: 1", "{H5}%0d%0aX-Injected:%201", "{H7}\t",
					/* an IPv6 literal with a zone: the dialer takes an unknown zone name for zone 0 */
					"[::1%x]:{P6}", "[::1%x\r\nX-Evil: 1]:{P6}", "[::1%25x\r\nX-Evil: 1]:{P6}", "[::1%lo\r\nGET /second HTTP/1.0\r\n\r\n]:{P6}"})
			if r.Intn(10) == 0 {
				handle = pick(r, []string{"nodomain", "@", "a@b@{H0}"})
			}
			wf := []any{}
			for _, h := range []int{0, hostLocalhost, hostIPv6, hostDefault} {
				wf = append(wf, map[string]any{"h": h, "path": "/.well-known/webfinger?*", "resp": jrd, "fault": ""})
			}
			emit(Op{"op": "webfinger", "routes": wf, "handle": handle, "accept": "application/jrd+json"})
			continue
		}
		routes := []any{map[string]any{"h": 0, "path": "/{OP}/d0", "resp": good, "fault": ""}}
		for _, h := range []int{hostLocalhost, hostIPv6, hostDefault} {
			routes = append(routes, map[string]any{"h": h, "path": "/{OP}/d0", "resp": good, "fault": ""})
		}
		seq := []any{}
		for k := 0; k < 1+r.Intn(4); k++ {
			var u string
			switch weighted(r, 8, 2, 2, 1, 1, 1, 1, 4, 2) {
			case 0:
				sfx := pick(r, hostile)
				routes = append(routes, map[string]any{"h": 0, "path": "/{OP}/h" + fmt.Sprint(k) + "?*", "resp": good, "fault": ""})
				u = "https://{H0}/{OP}/h" + fmt.Sprint(k) + sfx
			case 1:
				u = pick(r, []string{"https://user:secret@{H0}/{OP}/d0", "https://token@{H0}/{OP}/d0", "HTTPS://{H0}/{OP}/d0"})
			case 2:
				u = pick(r, []string{"http://{CANARY}/{OP}/plain", "http://{H0}/{OP}/d0", "ftp://{H0}/x", "//{H0}/{OP}/d0", "{H0}/{OP}/d0", "gopher://{CANARY}/",
					"httpss://{H0}/{OP}/d0", "https+http://{CANARY}/{OP}/d0", "ws://{CANARY}/", "http://{CANARY}:443/", "https:{CANARY}", "https:/{OP}/d0", "https:///{OP}/d0", " https://{H0}/{OP}/d0", "hTTp://{CANARY}/{OP}/d0"})
			case 3:
				u = "https://{CANARY}/{OP}/tls-to-plaintext-port"
			case 4:
				u = "https://{H0}\r\nX: y/{OP}/d0"
			case 5:
				/* redirect to plaintext: must not be followed */
				routes = append(routes, map[string]any{"h": 1, "path": "/{OP}/toplain" + fmt.Sprint(k), "resp": "HTTP/1.0 302 Found\r\nLocation: " + pick(r, []string{"http://{CANARY}/{OP}/leak", "//{CANARY}/{OP}/leak", "HTTP://{CANARY}/", "http:/{OP}/d0", "ftp://{CANARY}/"}) + "\r\n\r\n", "fault": ""})
				u = "https://{H1}/{OP}/toplain" + fmt.Sprint(k)
			case 6:
				routes = append(routes, map[string]any{"h": 1, "path": "/{OP}/inj" + fmt.Sprint(k), "resp": "HTTP/1.0 302 Found\r\nLocation: " + pick(r, []string{"https://{H0}/{OP}/d0%0d%0aX-Evil: 1", "https://user:pw@{H0}/{OP}/d0", "https://{H5}/{OP}/d0?a=%0d%0a", "//evil%0d%0a@{H0}/{OP}/d0", "https://{H0}/{OP}/d0\tX"}) + "\r\n\r\n", "fault": ""})
				u = "https://{H1}/{OP}/inj" + fmt.Sprint(k)
			case 7:
				/* the authority spelled another way, with or without userinfo, and a hostile tail */
				u = "https://" + pick(r, userinfos) + pick(r, authorities) + "/{OP}/d0"
				if r.Intn(3) == 0 {
					u += pick(r, hostile)
				}
			case 8:
				/* very long request targets: path, query, both */
				long := strings.Repeat(pick(r, []string{"a", "%41", "ab/", "\u00e9"}), pick(r, []int{1500, 4096, 9000, 70000}))
				routes = append(routes, map[string]any{"h": 0, "path": fmt.Sprintf("/{OP}/L%d?*", k), "resp": good, "fault": ""})
				u = pick(r, []string{"https://{H0}/{OP}/L" + fmt.Sprint(k) + long, "https://{H0}/{OP}/L" + fmt.Sprint(k) + "?q=" + long, "https://{H5}/{OP}/L" + long + "?" + long + "#" + long})
			}
			seq = append(seq, u)
		}
		emit(Op{"op": "fetchseq", "routes": routes, "seq": seq, "accept": accept, "tolerated": tolerated, "budget": 20})
	}
}

func genC05(r *rand.Rand, n int, emit func(Op)) {
	accept := "application/activity+json"
	tolerated := []any{"application/activity+json", "application/ld+json", "application/json"}
	decoy := "HTTP/1.0 200 OK\r\nContent-Type: application/activity+json\r\n\r\n{\"stamp\":\"decoy\"}"
	hostFaults := []string{"nohandshake", "nohandshake", "halfhandshake", "tlsgarbage", "closeaccept", "resetaccept"}
	for i := 0; i < n; i++ {
		switch weighted(r, 12, 3, 2, 1) {
		case 3:
			/* several askers of one URL at once (the items of a page asking for their common
			   author): behind 0..2 redirects, the slow or silent server at any hop */
			hops := r.Intn(3)
			at := r.Intn(hops + 1)
			doc := "HTTP/1.0 200 OK\r\nContent-Type: application/activity+json\r\n\r\n{\"stamp\":\"shared\",\"type\":\"Person\"}"
			routes := []any{}
			target := "https://{H1}/{OP}/same/d0"
			fault := func(k int, text string) string {
				if k != at {
					return ""
				}
				return pick(r, []string{"stall", "stall", fmt.Sprintf("cut:%d:stall", r.Intn(len(text))), "slowtail:10:250", "", "cut:5:eof"})
			}
			routes = append(routes, map[string]any{"h": 1, "path": "/{OP}/same/d0", "resp": doc, "fault": fault(0, doc)})
			for k := 1; k <= hops; k++ {
				rr := "HTTP/1.0 302 Found\r\nLocation: " + target + "\r\n\r\n"
				routes = append(routes, map[string]any{"h": k % simHosts, "path": fmt.Sprintf("/{OP}/same/r%d", k), "resp": rr, "fault": fault(k, rr)})
				target = fmt.Sprintf("https://{H%d}/{OP}/same/r%d", k%simHosts, k)
			}
			emit(Op{"op": "fetchsame", "routes": routes, "u": target, "askers": 4 + r.Intn(6), "hops": hops, "timeout_s": 1})
			if r.Intn(2) == 0 {
				/* document fetches and webfinger lookups of one URL at once: a lookup's answer
				   (a JRD, which a document fetch does not tolerate) is the lookup's alone */
				jrd := "HTTP/1.0 200 OK\r\nContent-Type: application/jrd+json\r\n\r\n{\"stamp\":\"jrd\",\"links\":[{\"rel\":\"self\",\"type\":\"application/activity+json\",\"href\":\"https://{H1}/{OP}/actor\"}]}"
				wf := []any{map[string]any{"h": 0, "path": "/.well-known/webfinger?*", "resp": jrd, "fault": pick(r, []string{"slowok:40:20", "slowok:10:30", ""})}}
				emit(Op{"op": "fetchsame", "routes": wf, "u": "https://{H0}/.well-known/webfinger", "handle": "alice@{H0}", "askers": 4 + r.Intn(6), "hops": 0, "timeout_s": 1,
					"expect": map[string]any{"fetch": "err", "lookup": "https://{H1}/{OP}/actor"}})
			}
			continue
		case 1:
			genC05Parallel(r, emit)
			continue
		case 2:
			genC05Huge(r, emit)
			continue
		}
		body := "{\"stamp\":\"doc\",\"type\":\"Note\",\"content\":\"" + strings.Repeat("x", r.Intn(40)) + "\",\"n\":[1,{\"a\":\"}\\\"\"}]}"
		if r.Intn(6) == 0 {
			body += pick(r, []string{"\n", " ", "trailing"})
		}
		resp := pick(r, []string{"HTTP/1.0 200 OK", "HTTP/1.0 200 OK", "HTTP/1.0 201 Created", "HTTP/1.0 202 Accepted", "HTTP/1.1 203 Non-Authoritative"}) + "\r\n" + pick(r, []string{"", "Server: s\r\n", "Content-Length: 67\r\n"}) + "Content-Type: application/activity+json\r\n\r\n" + body
		hops := r.Intn(4)
		faultAt := r.Intn(hops + 1) // which hop carries the fault (0 = the document)
		routes := []any{}
		mkFault := func(text string) string {
			switch weighted(r, 10, 2, 1, 3, 1, 2) {
			case 0:
				k := r.Intn(len(text) + 1)
				if r.Intn(3) == 0 {
					/* structural boundaries */
					k = pick(r, []int{0, 1, len("HTTP/1.0 200 OK\r"), len("HTTP/1.0 200 OK\r\n"), strings.Index(text, "\r\n\r\n") + 2, strings.Index(text, "\r\n\r\n") + 3, strings.Index(text, "\r\n\r\n") + 4, len(text) - 1, len(text)})
					if k < 0 {
						k = 0
					}
				}
				if loc := strings.Index(text, "Location: "); loc >= 0 && r.Intn(3) == 0 {
					/* inside the Location line, relative to the end of the URL as served: one
					   character short of it (a decoy document lives there), exactly at its
					   end, after the CR */
					return fmt.Sprintf("cutloc:%d:%s", pick(r, []int{-1, -1, 0, 1, -3}), pick(r, []string{"eof", "eof", "stall"}))
				}
				return fmt.Sprintf("cut:%d:%s", k, pick(r, []string{"eof", "eof", "reset", "stall"}))
			case 1:
				return "stall"
			case 2:
				return "trickle:100"
			case 3:
				/* headers (and some of the body) arrive at once, the rest drips in with gaps
				   well below the timeout; what is missing takes at least three timeouts */
				end := strings.Index(text, "\r\n\r\n") + 4
				/* a redirect is followed as soon as its Location line is complete */
				limit := strings.Index(text, "Location: ") + len("Location: ") + 3
				if strings.HasPrefix(text, "HTTP/1.0 20") || strings.HasPrefix(text, "HTTP/1.1 20") {
					limit = end + (len(text)-end)/3
				}
				k := limit
				if r.Intn(3) == 0 {
					k = r.Intn(limit + 1)
				}
				if len(text)-k < 14 {
					return "stall"
				}
				return fmt.Sprintf("slowtail:%d:250", k)
			case 5:
				/* slow but complete well inside the timeout: this one is a document */
				return fmt.Sprintf("slowok:%d:%d", r.Intn(len(text)), 35+r.Intn(10))
			}
			return ""
		}
		fault := ""
		if faultAt == 0 {
			fault = mkFault(resp)
			if r.Intn(8) == 0 {
				/* the document cut exactly where its header block ends, closed cleanly: a body of
				   zero bytes is not a document, whatever the status said */
				fault = fmt.Sprintf("cut:%d:eof", strings.Index(resp, "\r\n\r\n")+4)
			}
			if r.Intn(10) == 0 {
				/* all of it but the closing brace (and what followed it) */
				fault = fmt.Sprintf("cut:%d:%s", strings.LastIndex(resp, "}"), pick(r, []string{"eof", "stall"}))
			}
		}
		routes = append(routes, map[string]any{"h": 0, "path": "/{OP}/d0", "resp": resp, "fault": fault})
		faults := fault
		prev := "https://{H0}/{OP}/d0"
		if r.Intn(20) == 0 {
			/* the chain ends at a port nobody listens on */
			prev = pick(r, []string{"https://127.0.0.1:1/{OP}/refused", "https://[::1]:1/{OP}/refused", "https://{H0}0/{OP}/d0"})
		}
		links := []any{prev}
		for k := 1; k <= hops; k++ {
			rr := "HTTP/1.0 302 Found\r\nLocation: " + prev + "\r\nX-Pad: " + strings.Repeat("p", 120) + "\r\n\r\n"
			f := ""
			if faultAt == k {
				f = mkFault(rr)
				faults += f
			}
			h := r.Intn(simHosts)
			routes = append(routes, map[string]any{"h": h, "path": fmt.Sprintf("/{OP}/r%d", k), "resp": rr, "fault": f})
			prev = fmt.Sprintf("https://{H%d}/{OP}/r%d", h, k)
			links = append(links, prev)
		}
		/* decoys: good documents at the URLs that a Location cut one character short names */
		for h := 0; h < simHosts; h++ {
			routes = append(routes, map[string]any{"h": h, "path": "/{OP}/d", "resp": decoy, "fault": ""}, map[string]any{"h": h, "path": "/{OP}/r", "resp": decoy, "fault": ""})
		}
		seq := []any{prev}
		if !strings.Contains(faults, "reset") {
			/* the same fetch again (a failure leaves nothing behind), and again once the servers
			   have recovered; links further down the chain in between */
			switch weighted(r, 6, 2, 2, 1, 1) {
			case 1:
				seq = []any{prev, prev}
			case 2:
				seq = []any{prev, "@heal", prev}
			case 3:
				seq = []any{prev, pick(r, links), "@heal", prev, pick(r, links)}
			case 4:
				seq = []any{pick(r, links), prev, "@heal", pick(r, links), prev}
			}
		}
		op := Op{"op": "fetchseq", "routes": routes, "seq": seq, "accept": accept, "tolerated": tolerated, "budget": 20, "timeout_s": 1}
		if r.Intn(8) == 0 {
			op["hostfaults"] = []any{map[string]any{"h": pick(r, []int{0, 0, 1, 2}), "fault": pick(r, hostFaults)}}
		}
		emit(op)
	}
}

/* several fetches at once, most of them against a faulty server: each ends on its own terms */
func genC05Parallel(r *rand.Rand, emit func(Op)) {
	routes := []any{}
	seq := []any{}
	m := 3 + r.Intn(7)
	/* every server silent, and many of them: fetches that wait for one another would add up */
	allSilent := r.Intn(3) == 0
	if allSilent {
		m = 7 + r.Intn(3)
	}
	for c := 0; c < m; c++ {
		h := r.Intn(simHosts)
		resp := fmt.Sprintf("HTTP/1.0 200 OK\r\nContent-Type: application/activity+json\r\n\r\n{\"stamp\":\"c%d\",\"pad\":\"%s\"}", c, strings.Repeat("y", r.Intn(60)))
		fault := ""
		switch weighted(r, 3, 6, 3, 2, 1) {
		case 1:
			fault = "stall"
		case 2:
			fault = fmt.Sprintf("cut:%d:%s", r.Intn(len(resp)), pick(r, []string{"eof", "stall"}))
		case 3:
			fault = fmt.Sprintf("slowok:%d:%d", r.Intn(len(resp)), 30+r.Intn(10))
		case 4:
			fault = fmt.Sprintf("slowtail:%d:250", r.Intn(40))
		}
		if allSilent {
			fault = pick(r, []string{"stall", "stall", "cut:20:stall"})
		}
		head := fmt.Sprintf("https://{H%d}/{OP}/c%d/d0", h, c)
		docFault, hopFault := fault, ""
		if r.Intn(3) == 0 {
			if r.Intn(2) == 0 && !strings.HasPrefix(fault, "slowtail") {
				docFault, hopFault = "", fault
			}
			h2 := r.Intn(simHosts)
			rr := "HTTP/1.0 302 Found\r\nLocation: " + head + "\r\nX-Pad: " + strings.Repeat("p", 60) + "\r\n\r\n"
			if strings.HasPrefix(hopFault, "cut:") || strings.HasPrefix(hopFault, "slowok:") {
				hopFault = strings.Replace(hopFault, ":", ":0", 1) // any offset of the shorter text
			}
			routes = append(routes, map[string]any{"h": h2, "path": fmt.Sprintf("/{OP}/c%d/r1", c), "resp": rr, "fault": hopFault})
			head = fmt.Sprintf("https://{H%d}/{OP}/c%d/r1", h2, c)
		}
		routes = append(routes, map[string]any{"h": h, "path": fmt.Sprintf("/{OP}/c%d/d0", c), "resp": resp, "fault": docFault})
		seq = append(seq, head)
	}
	emit(Op{"op": "fetchseq", "parallel": true, "routes": routes, "seq": seq, "accept": "application/activity+json",
		"tolerated": []any{"application/activity+json", "application/ld+json", "application/json"}, "budget": 20, "timeout_s": 1})
}

/*
very large responses (a body, one header line, the reason phrase, blanks around the document

	of megabytes) and a server that floods one endless line
*/
func genC05Huge(r *rand.Rand, emit func(Op)) {
	size := pick(r, []int{70000, 1 << 20, 3 << 20, 8 << 20})
	pad := func(c string) string { return fmt.Sprintf("{PAD:%d:%s}", size, c) }
	head := "HTTP/1.0 200 OK\r\nContent-Type: application/activity+json\r\n"
	var resp string
	switch r.Intn(7) {
	case 0:
		resp = head + "\r\n{\"stamp\":\"big\",\"pad\":\"" + pad("x") + "\"}"
	case 1:
		resp = "HTTP/1.0 200 OK\r\nX-Big: " + pad("h") + "\r\nContent-Type: application/activity+json\r\n\r\n{\"stamp\":\"big\"}"
	case 2:
		resp = "HTTP/1.0 200 " + pad("s") + "\r\nContent-Type: application/activity+json\r\n\r\n{\"stamp\":\"big\"}"
	case 3:
		resp = head + "\r\n{\"stamp\":\"big\"}" + pad(" ")
	case 4:
		resp = head + "\r\n" + pad(" ") + "{\"stamp\":\"big\"}"
	case 5:
		resp = "HTTP/1.0 302 Found\r\nX-Big: " + pad("h") + "\r\nLocation: https://{H0}/{OP}/d0\r\n\r\n" + pad("b")
	case 6:
		resp = head + "Content-Type: application/" + pad("t") + "\r\n\r\n{\"stamp\":\"big\"}"
	}
	fault := pick(r, []string{"", "", "", "cut:-1:eof", "cut:-2:stall", "cut:12:eof", "cut:-3:reset"})
	if r.Intn(6) == 0 {
		fault = fmt.Sprintf("flood:%d", pick(r, []int{1, 8, 24}))
	}
	routes := []any{map[string]any{"h": 0, "path": "/{OP}/d0", "resp": "HTTP/1.0 200 OK\r\nContent-Type: application/activity+json\r\n\r\n{\"stamp\":\"d0\"}", "fault": ""}}
	target := "https://{H1}/{OP}/big"
	routes = append(routes, map[string]any{"h": 1, "path": "/{OP}/big", "resp": resp, "fault": fault})
	seq := []any{target}
	if !strings.Contains(fault, "reset") && r.Intn(2) == 0 {
		seq = []any{target, target}
	}
	emit(Op{"op": "fetchseq", "routes": routes, "seq": seq, "accept": "application/activity+json",
		"tolerated": []any{"application/activity+json", "application/ld+json", "application/json"}, "budget": 20, "timeout_s": 1})
}

/*
C05p: the multi-host worlds of the pub layer with faults on routes the top-level fetch does not

	name (authors, parents, collection pages): a truncated or silent secondary fetch is an error
	item in the tree, never a crash, a hang or a half-read object
*/
func genC05Pub(r *rand.Rand, n int, emit func(Op)) {
	groups["C02"].gen(r, n, func(op Op) {
		routes := L(op, "routes")
		for k := 0; k < 1+r.Intn(3) && len(routes) > 0; k++ {
			rm := routes[r.Intn(len(routes))].(map[string]any)
			resp := S(Op(rm), "resp")
			switch weighted(r, 4, 3, 2, 1) {
			case 0:
				rm["fault"] = fmt.Sprintf("cut:%d:eof", r.Intn(len(resp)+1))
			case 1:
				/* everything but the last byte(s): the closing brace of the object */
				rm["fault"] = fmt.Sprintf("cut:-%d:eof", 1+r.Intn(2))
			case 2:
				rm["fault"] = fmt.Sprintf("cut:%d:eof", strings.Index(resp, "\r\n\r\n")+pick(r, []int{0, 2, 3, 4, 5}))
			case 3:
				if k == 0 {
					rm["fault"] = pick(r, []string{"stall", "cut:-1:stall", "slowtail:30:250"})
				}
			}
		}
		emit(op)
	})
}
