//go:build verif

package main

import (
	"encoding/json"
	"fmt"
	"math/rand"
	"net/url"
	"os"
	"servitor/client"
	"servitor/config"
	"servitor/jtp"
	"strings"
	"time"
)

var opCounter = 0

func substitute(s string, hosts []string, opid string) string {
	for i, h := range hosts {
		s = strings.ReplaceAll(s, fmt.Sprintf("{H%d}", i), h)
		/* the address of host i without its port: authorities that differ from it by port only */
		if strings.Contains(s, "{I") {
			if c := strings.LastIndexByte(h, ':'); c >= 0 {
				s = strings.ReplaceAll(s, fmt.Sprintf("{I%d}", i), h[:c])
			}
		}
	}
	s = strings.ReplaceAll(s, "{OP}", opid)
	if sim != nil {
		s = strings.ReplaceAll(s, "{CANARY}", sim.canary)
	}
	return s
}

func urlRecord(u *url.URL) any {
	return map[string]any{"str": u.String(), "scheme": u.Scheme, "host": u.Host, "uri": u.RequestURI(), "hostname": u.Hostname(), "port": u.Port()}
}

/* decode oracle: every suffix of the response that starts after a '\n' */
func decodeTable(resp string) []any {
	out := []any{}
	for i := 0; i < len(resp); i++ {
		if resp[i] == '\n' {
			rest := resp[i+1:]
			var m map[string]any
			err := json.NewDecoder(strings.NewReader(rest)).Decode(&m)
			if err != nil {
				out = append(out, []any{rest, nil})
			} else if m == nil {
				out = append(out, []any{rest, map[string]any{"null": true}})
			} else {
				out = append(out, []any{rest, map[string]any{"stamp": fmt.Sprint(m["stamp"])}})
			}
		}
	}
	return out
}

func toStrings(xs []any) []string {
	out := []string{}
	for _, x := range xs {
		out = append(out, x.(string))
	}
	return out
}

/*
installs the op's routes; returns the substituted world for the model:
routes [{url, resp, fault}], url table, resolve table, decode table
*/
func installWorld(op Op) (map[string]route, string) {
	s := startSimulator()
	opCounter++
	opid := fmt.Sprintf("op%d-%d", os.Getpid(), opCounter)
	routes := map[string]route{}
	world := []any{}
	resolve := []any{}
	decode := []any{}
	urls := map[string]any{}
	noteURL := func(raw string) {
		if u, err := url.Parse(raw); err == nil {
			urls[raw] = urlRecord(u)
		} else {
			urls[raw] = nil
		}
	}
	for _, r := range L(op, "routes") {
		rm := r.(map[string]any)
		h := I(Op(rm), "h")
		path := substitute(S(Op(rm), "path"), s.hosts, opid)
		resp := substitute(S(Op(rm), "resp"), s.hosts, opid)
		fault := S(Op(rm), "fault")
		if strings.HasPrefix(fault, "cutloc:") {
			/* a cut placed relative to the end of the Location value of the response as served */
			var delta int
			parts := strings.Split(fault, ":")
			fmt.Sscanf(parts[1], "%d", &delta)
			fault = ""
			if loc := strings.Index(resp, "Location: "); loc >= 0 {
				if e := strings.Index(resp[loc:], "\r\n"); e >= 0 {
					fault = fmt.Sprintf("cut:%d:%s", loc+e+delta, parts[2])
				}
			}
		}
		authority := s.hosts[h]
		routes[authority+" "+path] = route{resp: resp, fault: fault}
		full := "https://" + authority + strings.TrimSuffix(path, "?*")
		noteURL(full)
		/* what the client can receive at most under the fault */
		effective, mfault := resp, fault
		if strings.HasPrefix(fault, "cut:") {
			var k int
			fmt.Sscanf(strings.Split(fault, ":")[1], "%d", &k)
			if k < len(resp) {
				effective = resp[:k]
			}
			mfault = ""
		} else if fault == "stall" || strings.HasPrefix(fault, "trickle:") || strings.HasPrefix(fault, "slowtail:") {
			/* nothing complete arrives before the deadline */
			effective, mfault = "", ""
		}
		resp = effective
		world = append(world, map[string]any{"url": full, "key": authority + " " + path, "resp": effective, "fault": mfault, "lossy": strings.HasSuffix(fault, ":reset")})
		base, _ := url.Parse(full)
		for _, line := range strings.SplitAfter(resp, "\n") {
			if v, ok := jtp.VerifLocationValue(line); ok {
				ref, err := url.Parse(v)
				if err != nil {
					resolve = append(resolve, []any{full, v, nil})
				} else {
					t := base.ResolveReference(ref)
					resolve = append(resolve, []any{full, v, t.String()})
					urls[t.String()] = urlRecord(t)
				}
			}
		}
		decode = append(decode, decodeTable(resp)...)
	}
	for _, hf := range L(op, "hostfaults") {
		hm := hf.(map[string]any)
		routes["@"+s.hosts[I(Op(hm), "h")]] = route{fault: S(Op(hm), "fault")}
	}
	s.setRoutes(routes)
	op["world"] = world
	op["resolve"] = resolve
	op["decode"] = decode
	op["urltable"] = urls
	op["hosts"] = toAnyList(s.hosts)
	return routes, opid
}

func logSummary(log []simRequest) []any {
	out := []any{}
	for _, rq := range log {
		out = append(out, []any{rq.Host, rq.Raw})
	}
	return out
}

func init() {
	execs["statusline"] = func(op Op) any {
		s, ok := jtp.VerifParseStatusLine(S(op, "s"))
		if !ok {
			return nil
		}
		return s
	}
	execs["ctline"] = func(op Op) any {
		e, is, ok := jtp.VerifParseContentType(S(op, "s"))
		return []any{is, ok, e}
	}
	execs["locline"] = func(op Op) any {
		v, ok := jtp.VerifLocationValue(S(op, "s"))
		if !ok {
			return nil
		}
		return v
	}
	execs["headers"] = func(op Op) any {
		ok, _ := jtp.VerifValidateHeaders(S(op, "s"), toStrings(L(op, "tolerated")))
		return ok
	}
	/* a sequence of fetches against one world */
	execs["fetchseq"] = func(op Op) any {
		s := startSimulator()
		_, opid := installWorld(op)
		jtp.VerifCachePurge()
		results := []any{}
		seq := []any{}
		timings := []any{}
		for _, raw := range L(op, "seq") {
			target := substitute(raw.(string), s.hosts, opid)
			seq = append(seq, target)
			u, err := url.Parse(target)
			if err != nil {
				results = append(results, map[string]any{"badurl": true})
				if tbl, ok := op["urltable"].(map[string]any); ok {
					tbl[target] = nil
				}
				timings = append(timings, 0)
				continue
			}
			if tbl, ok := op["urltable"].(map[string]any); ok {
				tbl[target] = urlRecord(u)
				tbl[u.String()] = urlRecord(u)
			}
			start := time.Now()
			doc, src, gerr := jtp.Get(u, S(op, "accept"), toStrings(L(op, "tolerated")), uint(I(op, "budget")))
			elapsed := time.Since(start)
			log := s.takeLog()
			var res map[string]any
			if gerr != nil {
				res = map[string]any{"err": true}
			} else {
				stamp := "<nil>"
				if doc != nil {
					stamp = fmt.Sprint(doc["stamp"])
				} else {
					stamp = "<nullmap>"
				}
				res = map[string]any{"ok": map[string]any{"src": src.String(), "stamp": stamp}}
			}
			res["requests"] = logSummary(log)
			timings = append(timings, elapsed.Milliseconds())
			results = append(results, res)
		}
		op["targets"] = seq
		op["ms"] = timings
		op["canaryhits"] = s.canaryHits()
		op["resumed"] = s.resumedSessions()
		op["cachesize"] = config.Parsed.Network.CacheSize
		return results
	}
	groups["C03"] = group{gen: genC03}
	groups["C04"] = group{gen: genC04}
	groups["C05"] = group{gen: genC05}
	execs["webfinger"] = func(op Op) any {
		s := startSimulator()
		_, opid := installWorld(op)
		jtp.VerifCachePurge()
		handle := substitute(S(op, "handle"), s.hosts, opid)
		op["handle_sub"] = handle
		/* oracle: the query encoding of the real url.Values */
		if parts := strings.SplitN(handle, "@", 2); len(parts) == 2 {
			op["query"] = (url.Values{"resource": []string{"acct:" + parts[0] + "@" + parts[1]}}).Encode()
			op["domain"] = parts[1]
		}
		/* the JRD document of the (single) route, decoded, for the model */
		for _, rt := range op["world"].([]any) {
			resp := rt.(map[string]any)["resp"].(string)
			if i := strings.Index(resp, "\r\n\r\n"); i >= 0 && strings.HasPrefix(resp, "HTTP/1.0 200") {
				var doc map[string]any
				if jsonUnmarshalString(resp[i+4:], &doc) == nil && doc != nil {
					op["jrd"] = tree(doc)
				}
			}
		}
		link, err := client.ResolveWebfinger(handle)
		log := s.takeLog()
		op["canaryhits"] = s.canaryHits()
		res := map[string]any{"requests": logSummary(log)}
		if err != nil {
			res["err"] = true
		} else {
			res["ok"] = link
		}
		return res
	}
}

var statusLines = []string{"HTTP/1.0 200 OK", "HTTP/1.1 200 OK", "HTTP/1.0 201 Created", "HTTP/1.0 202 Accepted", "HTTP/1.0 203 Non-Authoritative",
	"HTTP/1.0 204 No Content", "HTTP/1.0 206 Partial", "HTTP/1.0 404 Not Found", "HTTP/1.0 500 Oops", "HTTP/1.0 200", "HTTP/1.0 2000 OK", "HTTP/2.0 200 OK",
	"HTTP/1.0  200 OK", "http/1.0 200 OK", "HTTP/1.5 203 x\x1b[31m", "HTTP/1.0 20 OK", " HTTP/1.0 200 OK", "HTTP/1.0 299 Odd", "ICY 200 OK", ""}

var contentTypes = []string{"application/activity+json", "application/ld+json; profile=\"https://www.w3.org/ns/activitystreams\"", "application/json", "application/json; charset=utf-8",
	"text/html", "application/jrd+json", "APPLICATION/JSON", "application/activity+json ", "\tapplication/json\t", "application/", "", "application/json/x", "*/*"}

func genHeaderName(r *rand.Rand, name string) string {
	switch r.Intn(6) {
	case 0:
		return strings.ToUpper(name)
	case 1:
		return strings.ToLower(name)
	case 2:
		return name + " "
	case 3:
		return " " + name
	}
	return name
}

func genDocBody(r *rand.Rand, stamp string) string {
	switch weighted(r, 12, 1, 1, 1, 1, 1, 1) {
	case 1:
		return "[1,2]"
	case 2:
		return "null"
	case 3:
		return "{\"stamp\":\"" + stamp + "\""
	case 4:
		return "\"str\""
	case 5:
		return ""
	case 6:
		return "{\"stamp\":\"" + stamp + "\"} trailing garbage"
	}
	return "{\"stamp\":\"" + stamp + "\",\"type\":\"Note\"}"
}

func genResponse(r *rand.Rand, stamp string, status string, location string) string {
	eol := "\r\n"
	if r.Intn(6) == 0 {
		eol = "\n"
	}
	var b strings.Builder
	b.WriteString(status + eol)
	nh := r.Intn(4)
	wroteCT := false
	for i := 0; i < nh; i++ {
		switch weighted(r, 3, 2, 1) {
		case 0:
			b.WriteString("Server: sim" + eol)
		case 1:
			b.WriteString("X-Content-Type: text/html" + eol)
		case 2:
			b.WriteString("Date: today" + eol)
		}
	}
	/* a very long header line whose value reads like another header at the offsets where a
	   reader with a fixed buffer would split it (a header line is one line, however long) */
	longLine := false
	if r.Intn(12) == 0 {
		longLine = true
		inner := pick(r, []string{"Content-Type: application/activity+json", "content-type:application/json", "Location: https://{H1}/{OP}/d0", "Location: /{OP}/d0", ""})
		at := pick(r, []int{4096, 4096, 8192, 1024, 2048, 4095, 4097, 16384, 65536, 100 + r.Intn(9000)})
		name := "X-Long: "
		line := name + strings.Repeat("p", at-len(name)) + inner
		if r.Intn(3) == 0 {
			line += strings.Repeat("q", r.Intn(5000))
		}
		b.WriteString(line + eol)
	}
	if location != "" && !(longLine && r.Intn(2) == 0) {
		b.WriteString(genHeaderName(r, "Location") + ":" + pick(r, []string{" ", "", "\t", "  "}) + location + pick(r, []string{"", " ", "\t"}) + eol)
	}
	if r.Intn(8) != 0 && !(longLine && r.Intn(2) == 0) {
		ct := "application/activity+json"
		if r.Intn(3) == 0 {
			ct = pick(r, contentTypes)
		}
		b.WriteString(genHeaderName(r, "Content-Type") + ":" + pick(r, []string{" ", "", "  "}) + ct + eol)
		wroteCT = true
		if r.Intn(12) == 0 {
			b.WriteString("Content-Type: " + pick(r, contentTypes) + eol)
		}
	}
	_ = wroteCT
	if r.Intn(15) != 0 {
		b.WriteString(eol)
	}
	b.WriteString(genDocBody(r, stamp))
	return b.String()
}

func genC03(r *rand.Rand, n int, emit func(Op)) {
	accept := "application/activity+json,application/ld+json; profile=\"https://www.w3.org/ns/activitystreams\""
	tolerated := []any{"application/activity+json", "application/ld+json", "application/json"}
	for i := 0; i < n; i++ {
		switch weighted(r, 2, 2, 1, 1, 8) {
		case 0:
			emit(Op{"op": "statusline", "s": pick(r, statusLines) + pick(r, []string{"\n", "\r\n", "", "\n\n", " \n"})})
			continue
		case 1:
			emit(Op{"op": "ctline", "s": genHeaderName(r, pick(r, []string{"Content-Type", "content-type", "Content-Typ", "X-Content-Type", "Content-Type2"})) + pick(r, []string{":", ": ", " :", ":\t \r"}) + pick(r, contentTypes) + pick(r, []string{"\n", "\r\n", " \r\n", ""})})
			continue
		case 2:
			emit(Op{"op": "locline", "s": genHeaderName(r, pick(r, []string{"Location", "location", "Locations", "Content-Location"})) + pick(r, []string{":", ": ", ":\t"}) + pick(r, []string{"/x", "https://a/b ", "", " ", "a b", "\x7f"}) + pick(r, []string{"\n", "\r\n", ""})})
			continue
		case 3:
			emit(Op{"op": "headers", "s": strings.SplitN(genResponse(r, "s", "HTTP/1.0 200 OK", ""), "\n", 2)[1], "tolerated": tolerated})
			continue
		}
		/* a world: documents and redirect structures over several hosts */
		routes := []any{}
		nd := 1 + r.Intn(4)
		docs := []string{}
		for d := 0; d < nd; d++ {
			h := r.Intn(simHosts)
			path := fmt.Sprintf("/{OP}/d%d", d)
			status := "HTTP/1.0 200 OK"
			if r.Intn(4) == 0 {
				status = pick(r, statusLines)
			}
			routes = append(routes, map[string]any{"h": h, "path": path, "resp": genResponse(r, fmt.Sprintf("d%d@H%d", d, h), status, ""), "fault": ""})
			docs = append(docs, fmt.Sprintf("https://{H%d}%s", h, path))
		}
		if r.Intn(3) == 0 {
			/* a second document whose URL differs from the first one's in letter case only */
			h0 := I(Op(routes[0].(map[string]any)), "h")
			routes = append(routes, map[string]any{"h": h0, "path": "/{OP}/D0", "resp": genResponse(r, fmt.Sprintf("D0@H%d", h0), "HTTP/1.0 200 OK", ""), "fault": ""})
			docs = append(docs, fmt.Sprintf("https://{H%d}/{OP}/D0", h0), fmt.Sprintf("https://{H%d}/{OP}/d0", h0))
		}
		targets := append([]string{}, docs...)
		/* redirect chains / cycles */
		nr := r.Intn(5)
		if r.Intn(6) == 0 {
			nr = 18 + r.Intn(8) // around the budget of 20
		}
		prev := pick(r, docs)
		chainHost := r.Intn(simHosts)
		directed := nr >= 18 && r.Intn(2) == 0
		if directed {
			/* a clean chain ending in a good document */
			routes[0] = map[string]any{"h": 0, "path": "/{OP}/d0", "resp": "HTTP/1.0 200 OK\r\nContent-Type: application/activity+json\r\n\r\n{\"stamp\":\"d0@H0\"}", "fault": ""}
			prev = "https://{H0}/{OP}/d0"
		}
		for k := 0; k < nr; k++ {
			h := chainHost
			if r.Intn(3) == 0 {
				h = r.Intn(simHosts)
			}
			path := fmt.Sprintf("/{OP}/r%d", k)
			loc := prev
			/* relative and odd Locations */
			if strings.HasPrefix(prev, fmt.Sprintf("https://{H%d}", h)) && r.Intn(2) == 0 {
				loc = strings.TrimPrefix(prev, fmt.Sprintf("https://{H%d}", h))
				if r.Intn(3) == 0 {
					loc = strings.TrimPrefix(loc, "/{OP}/") // relative to the directory
				}
			}
			corrupt := weighted(r, 20, 1, 1, 1, 1)
			if directed {
				corrupt = 0
			}
			switch corrupt {
			case 1:
				loc = strings.Replace(loc, "https://", "http://", 1)
			case 2:
				loc = ""
			case 3:
				loc = fmt.Sprintf("https://{H%d}/{OP}/r%d", h, k) // self loop
			case 4:
				loc = "https://{H0}/{OP}/%zz"
			}
			status := pick(r, []string{"HTTP/1.0 301 Moved", "HTTP/1.0 302 Found", "HTTP/1.1 307 Temporary", "HTTP/1.0 300 Multiple", "HTTP/1.0 399 x"})
			resp := genResponse(r, "redirect", status, loc)
			if directed {
				resp = status + "\r\nLocation: " + loc + "\r\n\r\n"
			}
			routes = append(routes, map[string]any{"h": h, "path": path, "resp": resp, "fault": ""})
			prev = fmt.Sprintf("https://{H%d}%s", h, path)
			targets = append(targets, prev)
		}
		if !directed && r.Intn(5) == 0 && nr >= 2 {
			/* close a cycle: first redirect points to the last */
			routes[nd] = map[string]any{"h": routes[nd].(map[string]any)["h"], "path": routes[nd].(map[string]any)["path"],
				"resp": genResponse(r, "redirect", "HTTP/1.0 302 Found", prev), "fault": ""}
		}
		targets = append(targets, "http://{H0}/{OP}/d0", "https://{H1}/{OP}/missing", "ftp://{H0}/x")
		seq := []any{}
		for k := 0; k < 1+r.Intn(8); k++ {
			seq = append(seq, pick(r, targets))
		}
		if directed {
			/* directed: around the redirect budget, fetch the head, then inner links, then the head again */
			at := func(k int) string {
				m := routes[nd+k].(map[string]any)
				return fmt.Sprintf("https://{H%d}%s", I(Op(m), "h"), S(Op(m), "path"))
			}
			seq = []any{at(nr - 1), at(nr - 2), at(nr - 1)}
			if r.Intn(2) == 0 {
				seq = []any{at(nr / 2), at(nr - 1), at(nr / 2), at(nr - 2)}
			}
		}
		emit(Op{"op": "fetchseq", "routes": routes, "seq": seq, "accept": accept, "tolerated": tolerated, "budget": 20})
	}
}

func genC04(r *rand.Rand, n int, emit func(Op)) {
	accept := "application/activity+json,application/ld+json; profile=\"https://www.w3.org/ns/activitystreams\""
	tolerated := []any{"application/activity+json", "application/ld+json", "application/json"}
	good := "HTTP/1.0 200 OK\r\nContent-Type: application/activity+json\r\n\r\n{\"stamp\":\"x\"}"
	hostile := []string{"", "?a b", "?a=b&c=d", "%0d%0aX-Evil:%201", "%0D%0A%0D%0AGET%20/evil%20HTTP/1.0", "?q=%0d%0aHost:%20evil", "/../../etc", "#frag", "?x=\u00e9", "%00", ";p=1", "?a=1#f\r\nX: y", " HTTP/1.0", "?\tx", "%20HTTP/1.1"}
	for i := 0; i < n; i++ {
		if r.Intn(5) == 0 {
			jrd := "HTTP/1.0 200 OK\r\nContent-Type: application/jrd+json\r\n\r\n{\"links\":[{\"rel\":\"self\",\"type\":\"application/activity+json\",\"href\":\"https://{H1}/{OP}/actor\"}]}"
			if r.Intn(4) == 0 {
				jrd = pick(r, []string{"HTTP/1.0 200 OK\r\nContent-Type: application/json\r\n\r\n{\"links\":[{\"rel\":\"other\"},5]}", "HTTP/1.0 404 x\r\n\r\n", "HTTP/1.0 200 OK\r\nContent-Type: application/jrd+json\r\n\r\n{\"links\":{\"rel\":\"self\",\"type\":\"application/ld+json\",\"href\":\"h\"}}"})
			}
			handle := pick(r, []string{"alice", "a b", "a%40b", "a\r\nX: 1", "", "a&resource=evil", "a#x", "é"}) + "@" +
				pick(r, []string{"{H0}", "{H0}", "{H0}", "{H0}\r\nX-Evil: 1", "{H0}/path", "{H0}#f", "{H0}?x=1", "{CANARY}", "evil.invalid", "{H0} ", "user:pw@{H0}", "",
					/* bracketed hosts: url.URL.Hostname strips brackets and a numeric port, nothing else */
					"[{H0}]", "[{H0}]\r\nX-Injected: 1", "[{H0}]\r\nX-Injected:1", "[{H0}\r\nX-Injected]", "[::1]\r\nX-Injected"})
			if r.Intn(10) == 0 {
				handle = pick(r, []string{"nodomain", "@", "a@b@{H0}"})
			}
			emit(Op{"op": "webfinger", "routes": []any{map[string]any{"h": 0, "path": "/.well-known/webfinger?*", "resp": jrd, "fault": ""}}, "handle": handle, "accept": "application/jrd+json"})
			continue
		}
		routes := []any{map[string]any{"h": 0, "path": "/{OP}/d0", "resp": good, "fault": ""}}
		seq := []any{}
		for k := 0; k < 1+r.Intn(4); k++ {
			var u string
			switch weighted(r, 8, 2, 2, 1, 1, 1, 1) {
			case 0:
				sfx := pick(r, hostile)
				routes = append(routes, map[string]any{"h": 0, "path": "/{OP}/h" + fmt.Sprint(k) + "?*", "resp": good, "fault": ""})
				u = "https://{H0}/{OP}/h" + fmt.Sprint(k) + sfx
			case 1:
				u = pick(r, []string{"https://user:secret@{H0}/{OP}/d0", "https://token@{H0}/{OP}/d0", "HTTPS://{H0}/{OP}/d0"})
			case 2:
				u = pick(r, []string{"http://{CANARY}/{OP}/plain", "http://{H0}/{OP}/d0", "ftp://{H0}/x", "//{H0}/{OP}/d0", "{H0}/{OP}/d0", "gopher://{CANARY}/"})
			case 3:
				u = "https://{CANARY}/{OP}/tls-to-plaintext-port"
			case 4:
				u = "https://{H0}\r\nX: y/{OP}/d0"
			case 5:
				/* redirect to plaintext: must not be followed */
				routes = append(routes, map[string]any{"h": 1, "path": "/{OP}/toplain", "resp": "HTTP/1.0 302 Found\r\nLocation: http://{CANARY}/{OP}/leak\r\n\r\n", "fault": ""})
				u = "https://{H1}/{OP}/toplain"
			case 6:
				routes = append(routes, map[string]any{"h": 1, "path": "/{OP}/inj", "resp": "HTTP/1.0 302 Found\r\nLocation: https://{H0}/{OP}/d0%0d%0aX-Evil: 1\r\n\r\n", "fault": ""})
				u = "https://{H1}/{OP}/inj"
			}
			seq = append(seq, u)
		}
		emit(Op{"op": "fetchseq", "routes": routes, "seq": seq, "accept": accept, "tolerated": tolerated, "budget": 20})
	}
}

func genC05(r *rand.Rand, n int, emit func(Op)) {
	accept := "application/activity+json"
	tolerated := []any{"application/activity+json", "application/ld+json", "application/json"}
	for i := 0; i < n; i++ {
		body := "{\"stamp\":\"doc\",\"type\":\"Note\",\"content\":\"" + strings.Repeat("x", r.Intn(40)) + "\",\"n\":[1,{\"a\":\"}\\\"\"}]}"
		if r.Intn(6) == 0 {
			body += pick(r, []string{"\n", " ", "trailing"})
		}
		resp := pick(r, []string{"HTTP/1.0 200 OK", "HTTP/1.0 200 OK", "HTTP/1.0 201 Created", "HTTP/1.0 202 Accepted", "HTTP/1.1 203 Non-Authoritative"}) + "\r\n" + pick(r, []string{"", "Server: s\r\n", "Content-Length: 67\r\n"}) + "Content-Type: application/activity+json\r\n\r\n" + body
		hops := r.Intn(3)
		faultAt := r.Intn(hops + 1) // which hop carries the fault (0 = the document)
		routes := []any{}
		mkFault := func(text string) string {
			switch weighted(r, 10, 2, 1, 3, 1) {
			case 0:
				k := r.Intn(len(text) + 1)
				if r.Intn(3) == 0 {
					/* structural boundaries */
					k = pick(r, []int{0, 1, len("HTTP/1.0 200 OK\r"), len("HTTP/1.0 200 OK\r\n"), strings.Index(text, "\r\n\r\n") + 2, strings.Index(text, "\r\n\r\n") + 3, strings.Index(text, "\r\n\r\n") + 4, len(text) - 1, len(text)})
					if k < 0 {
						k = 0
					}
				}
				if loc := strings.Index(text, "Location: "); loc >= 0 && r.Intn(3) == 0 {
					/* inside the Location line, relative to the end of the URL as served: one
					   character short of it (a decoy document lives there), exactly at its
					   end, after the CR */
					return fmt.Sprintf("cutloc:%d:%s", pick(r, []int{-1, -1, 0, 1, -3}), pick(r, []string{"eof", "eof", "stall"}))
				}
				return fmt.Sprintf("cut:%d:%s", k, pick(r, []string{"eof", "eof", "reset", "stall"}))
			case 1:
				return "stall"
			case 2:
				return "trickle:100"
			case 3:
				/* headers (and some of the body) arrive at once, the rest drips in with gaps
				   well below the timeout; what is missing takes at least three timeouts */
				end := strings.Index(text, "\r\n\r\n") + 4
				/* a redirect is followed as soon as its Location line is complete */
				limit := strings.Index(text, "Location: ") + len("Location: ") + 3
				if strings.HasPrefix(text, "HTTP/1.0 20") || strings.HasPrefix(text, "HTTP/1.1 20") {
					limit = end + (len(text)-end)/3
				}
				k := limit
				if r.Intn(3) == 0 {
					k = r.Intn(limit + 1)
				}
				if len(text)-k < 14 {
					return "stall"
				}
				return fmt.Sprintf("slowtail:%d:250", k)
			}
			return ""
		}
		fault := ""
		if faultAt == 0 {
			fault = mkFault(resp)
			if r.Intn(8) == 0 {
				/* the document cut exactly where its header block ends, closed cleanly: a body of
				   zero bytes is not a document, whatever the status said */
				fault = fmt.Sprintf("cut:%d:eof", strings.Index(resp, "\r\n\r\n")+4)
			}
		}
		routes = append(routes, map[string]any{"h": 0, "path": "/{OP}/d0", "resp": resp, "fault": fault})
		prev := "https://{H0}/{OP}/d0"
		for k := 1; k <= hops; k++ {
			rr := "HTTP/1.0 302 Found\r\nLocation: " + prev + "\r\nX-Pad: " + strings.Repeat("p", 120) + "\r\n\r\n"
			f := ""
			if faultAt == k {
				f = mkFault(rr)
			}
			h := r.Intn(simHosts)
			routes = append(routes, map[string]any{"h": h, "path": fmt.Sprintf("/{OP}/r%d", k), "resp": rr, "fault": f})
			prev = fmt.Sprintf("https://{H%d}/{OP}/r%d", h, k)
		}
		/* decoys: good documents at the URLs that a Location cut one character short names */
		decoy := "HTTP/1.0 200 OK\r\nContent-Type: application/activity+json\r\n\r\n{\"stamp\":\"decoy\"}"
		for h := 0; h < simHosts; h++ {
			routes = append(routes, map[string]any{"h": h, "path": "/{OP}/d", "resp": decoy, "fault": ""}, map[string]any{"h": h, "path": "/{OP}/r", "resp": decoy, "fault": ""})
		}
		op := Op{"op": "fetchseq", "routes": routes, "seq": []any{prev}, "accept": accept, "tolerated": tolerated, "budget": 20, "timeout_s": 1}
		if r.Intn(12) == 0 {
			op["hostfaults"] = []any{map[string]any{"h": 0, "fault": "nohandshake"}}
		}
		emit(op)
	}
}
