//go:build verif

package main

import (
	"fmt"
	"math/rand"
	"servitor/ansi"
	"strings"
)

func init() {
	execs["expand"] = func(op Op) any {
		m := ansi.VerifExpand(S(op, "s"))
		out := make([]any, len(m))
		for i, x := range m {
			out[i] = []any{x[1], x[2], x[0]}
		}
		return out
	}
	execs["apply"] = func(op Op) any { return ansi.Apply(S(op, "s"), S(op, "style")) }
	execs["indent"] = func(op Op) any { return ansi.Indent(S(op, "s"), S(op, "prefix"), B(op, "first")) }
	execs["pad"] = func(op Op) any { return ansi.Pad(S(op, "s"), I(op, "w")) }
	execs["wrap"] = func(op Op) any { return ansi.Wrap(S(op, "s"), I(op, "w")) }
	execs["dumbwrap"] = func(op Op) any { return ansi.DumbWrap(S(op, "s"), I(op, "w")) }
	execs["snip"] = func(op Op) any { return ansi.Snip(S(op, "s"), I(op, "w"), I(op, "h"), S(op, "ellipsis")) }
	execs["center"] = func(op Op) any {
		return ansi.CenterVertically(S(op, "prefix"), S(op, "centered"), S(op, "suffix"), uint(I(op, "h")))
	}
	execs["replacelast"] = func(op Op) any { return ansi.ReplaceLastLine(S(op, "s"), S(op, "r")) }
	execs["setlength"] = func(op Op) any { return ansi.SetLength(S(op, "s"), I(op, "w"), S(op, "ellipsis")) }
	execs["scrub"] = func(op Op) any { return ansi.Scrub(S(op, "s")) }
	execs["squash"] = func(op Op) any { return ansi.Squash(S(op, "s")) }
	execs["height"] = func(op Op) any { return int(ansi.Height(S(op, "s"))) }

	groups["C13"] = group{gen: genC13}
	groups["C16"] = group{gen: genC16}
}

const ellipsisStyled = "\x1b[38;2;164;245;155m…\x1b[0m"

func genC13(r *rand.Rand, n int, emit func(Op)) {
	for i := 0; i < n; i++ {
		s, canon := genText(r, 3+r.Intn(40))
		w := genWidth(r)
		if r.Intn(25) == 0 {
			/* the same layout function twice in one process with arguments that run into each
			   other when written side by side (12,"3 x") / (1,"23 x"): results may not be
			   remembered under a key that confuses them */
			d := 1 + r.Intn(9)
			x := r.Intn(10)
			plain := pick(r, []string{" replies so far and more words to wrap", " boosts", "abc def ghi jkl mno", " "})
			op := pick(r, []string{"wrap", "dumbwrap", "pad"})
			emit(Op{"op": op, "s": plain, "w": d*10 + x, "canon": true})
			emit(Op{"op": op, "s": fmt.Sprint(x) + plain, "w": d, "canon": true})
			continue
		}
		if r.Intn(6) == 0 {
			genC13Edges(r, emit)
			continue
		}
		switch weighted(r, 2, 8, 3, 3, 2, 4, 2, 1) {
		case 0:
			emit(Op{"op": "expand", "s": s})
		case 1:
			emit(Op{"op": "wrap", "s": s, "w": w, "canon": canon})
		case 2:
			emit(Op{"op": "dumbwrap", "s": s, "w": w, "canon": canon})
		case 3:
			emit(Op{"op": "pad", "s": s, "w": w, "canon": canon})
		case 4:
			emit(Op{"op": "indent", "s": s, "prefix": pick(r, []string{"  ", "▌", "", "┃ ", "    "}), "first": r.Intn(2) == 0})
		case 5:
			/* mostly the pipeline shape: snip of something already wrapped */
			if canon && r.Intn(4) != 0 && w >= 1 {
				s = ansi.Wrap(s, w)
			}
			emit(Op{"op": "snip", "s": s, "w": w, "h": pick(r, []int{0, 1, 2, 3, 4, 4, 4, 7, 12}), "ellipsis": pick(r, []string{ellipsisStyled, "…", ""}), "canon": canon})
		case 6:
			raw := genRawText(r, 30)
			emit(Op{"op": "setlength", "s": raw, "w": pick(r, []int{0, 1, 2, 5, 10, 20, 80}), "ellipsis": "…"})
		case 7:
			emit(Op{"op": "apply", "s": s, "style": pick(r, sgrPool)})
		}
	}
}

/* a styled ellipsis whose colour is not the default one, an ellipsis of two cells, none */
var ellipsisPool = []string{ellipsisStyled, "…", "", "...", "\x1b[38;2;1;2;3m…\x1b[0m"}

/*
The input classes the random text above hardly ever reaches:
the same text at a whole range of widths, paragraphs at the widths terminals have, the
interesting character exactly at the margin, and the size arguments at their edges
(0, 1, negative, the exact length, one off, far larger than the text).
*/
func genC13Edges(r *rand.Rand, emit func(Op)) {
	switch weighted(r, 3, 3, 3, 3, 2, 2, 2, 1) {
	case 0:
		/* one text, many widths: every width from 1 past its longest line (short texts), or the
		   widths around its line and word lengths */
		s := genCanon(r, 3+r.Intn(25))
		ls := lineLengths(s)
		longest := 0
		for _, n := range ls {
			if n > longest {
				longest = n
			}
		}
		widths := []int{}
		if longest <= 24 {
			for w := 0; w <= longest+2; w++ {
				widths = append(widths, w)
			}
		} else {
			for _, n := range ls {
				widths = append(widths, n-1, n, n+1)
			}
			widths = append(widths, 1, 2, longest/2, longest/2+1, longest/3, 80, 120, 200)
			if len(widths) > 24 {
				r.Shuffle(len(widths), func(i, j int) { widths[i], widths[j] = widths[j], widths[i] })
				widths = widths[:24]
			}
		}
		ops := []string{"wrap"}
		if r.Intn(3) == 0 {
			ops = append(ops, pick(r, []string{"dumbwrap", "pad"}))
		}
		for _, w := range widths {
			for _, op := range ops {
				emit(Op{"op": op, "s": s, "w": w, "canon": true})
			}
		}
	case 1:
		/* paragraphs at the widths terminals have */
		s := genParagraph(r, 20+r.Intn(180))
		for k := 1 + r.Intn(3); k > 0; k-- {
			w := pick(r, []int{40, 60, 72, 76, 78, 79, 80, 81, 100, 120, 132, 200, 200, 250, 500})
			emit(Op{"op": pick(r, []string{"wrap", "wrap", "wrap", "dumbwrap", "pad"}), "s": s, "w": w, "canon": true})
		}
		if r.Intn(3) == 0 {
			/* the preview pipeline on it: wrapped, then cut to a few lines */
			w := pick(r, []int{40, 76, 80, 120})
			emit(Op{"op": "snip", "s": ansi.Wrap(s, w), "w": w, "h": pick(r, []int{1, 2, 4, 4, 10}), "ellipsis": ellipsisStyled, "canon": true})
		}
	case 2:
		/* wide, combining, invisible and blank-looking characters exactly at the margin */
		w := 1 + r.Intn(30)
		s := genAtBreak(r, w)
		emit(Op{"op": "wrap", "s": s, "w": w, "canon": true})
		if r.Intn(2) == 0 {
			emit(Op{"op": pick(r, []string{"dumbwrap", "pad", "wrap"}), "s": s, "w": w + r.Intn(3) - 1, "canon": true})
		}
		if r.Intn(3) == 0 {
			emit(Op{"op": "snip", "s": ansi.Wrap(s, w), "w": w, "h": 1 + r.Intn(3), "ellipsis": pick(r, ellipsisPool), "canon": true})
		}
	case 3:
		/* snip: heights and widths relative to the text, blank lines at the end and everywhere */
		n := 1 + r.Intn(7)
		lines := []string{}
		for i := 0; i < n; i++ {
			switch weighted(r, 5, 2, 1) {
			case 0:
				lines = append(lines, genCanonLine(r))
			case 1:
				lines = append(lines, "")
			case 2:
				lines = append(lines, pick(r, []string{" ", "   ", "\t", "\u3000 ", "\x1b[1m \x1b[0m", "\u200b"}))
			}
		}
		if r.Intn(3) == 0 {
			/* trailing blank lines: they are dropped and an ellipsis takes their place */
			for k := 1 + r.Intn(3); k > 0; k-- {
				lines = append(lines, pick(r, []string{"", " ", "\x1b[4m \x1b[0m\x1b[4m \x1b[0m"}))
			}
		}
		s := strings.Join(lines, "\n")
		ls := lineLengths(s)
		h := pick(r, []int{len(lines) - 1, len(lines), len(lines) + 1, len(lines) - 2, 0, 1, 2, 1000, 65536, -1})
		/* the width equal to the length of a line is what makes room for the ellipsis */
		w := pick(r, []int{pick(r, ls), pick(r, ls), pick(r, ls) + 1, pick(r, ls) - 1, 0, 1, -1, 80, 65535, 1 << 31})
		emit(Op{"op": "snip", "s": s, "w": w, "h": h, "ellipsis": pick(r, ellipsisPool), "canon": true})
	case 4:
		/* pad: the exact line lengths, one off, nothing, negative, far wider than the text */
		s := pick(r, []string{"", "\n", "\n\n", "a", "a\n", "\na", genCanon(r, 12), genCanon(r, 12), genLines(r, 5)})
		ls := lineLengths(s)
		w := pick(r, []int{pick(r, ls), pick(r, ls) + 1, pick(r, ls) - 1, 0, 1, -1, -1 << 31, -1<<63 + 4096, 300, 1000, 2000})
		if genReportedDefects && r.Intn(4) == 0 {
			/* length - lineLength wraps around for lengths within a line's length of the smallest
			   int: Pad then asks strings.Repeat for about 2^63 blanks and panics (reported, not
			   repaired; no terminal produces such a width) */
			w = -1 << 63
		}
		emit(Op{"op": "pad", "s": s, "w": w, "canon": true})
	case 5:
		/* indent: empty and newline-only texts, texts that end in a newline, prefixes that are
		   styled, long, blank, or contain the characters the scanner looks for */
		s := pick(r, []string{"", "\n", "\n\n\n", "a", "a\n", "\na", "a\n\nb", genCanon(r, 14), genCanon(r, 14), genLines(r, 6)})
		prefix := pick(r, []string{"", " ", "  ", "▌", "\x1b[38;2;164;245;155m▌\x1b[0m", "        ", "‣ ", "m", "[", "\u3000", "→ ", "> > > "})
		emit(Op{"op": "indent", "s": s, "prefix": prefix, "first": r.Intn(2) == 0})
	case 6:
		/* setlength: the exact length, one off, nothing, negative, a whole wide status line */
		raw := genRawText(r, 40)
		n := len([]rune(ansi.Squash(ansi.Scrub(raw))))
		w := pick(r, []int{n, n, n - 1, n + 1, n + 2, 0, 1, -1, 200, 1000, 65535})
		emit(Op{"op": "setlength", "s": raw, "w": w, "ellipsis": pick(r, []string{"…", "…", "", "...", ellipsisStyled})})
	case 7:
		/* apply: odd style strings, and text that is already styled many levels deep */
		cells := genCells(r, 10)
		for i := range cells {
			if cells[i].ch != '\n' {
				for k := r.Intn(6); k > 0; k-- {
					cells[i].attrs = append(append([]string{}, cells[i].attrs...), pick(r, sgrPool))
				}
			}
		}
		emit(Op{"op": "apply", "s": renderCells(cells), "style": pick(r, []string{"", "0", "1;4", "38;5;196", "7", "22", "38;2;0;0;0"})})
	}
}

/* raw (unstyled) text with control characters, as it arrives in JSON or from a hook */
func genRawText(r *rand.Rand, maxLen int) string {
	pool := []rune("abc xyz\n\t\r\x1b\x00\x07\x7f\u0085\u009b é漢😀[m0;")
	n := r.Intn(maxLen + 1)
	out := make([]rune, n)
	for i := range out {
		out[i] = pick(r, pool)
	}
	return string(out)
}

func genLines(r *rand.Rand, maxLines int) string {
	n := r.Intn(maxLines + 1)
	s := ""
	for i := 0; i < n; i++ {
		if i > 0 {
			s += "\n"
		}
		if r.Intn(3) != 0 {
			s += genCanonLine(r)
		}
	}
	return s
}

func genCanonLine(r *rand.Rand) string {
	cells := genCells(r, 4)
	out := cells[:0]
	for _, c := range cells {
		if c.ch != '\n' {
			out = append(out, c)
		}
	}
	return renderCells(out)
}

func genC16(r *rand.Rand, n int, emit func(Op)) {
	for i := 0; i < n; i++ {
		switch weighted(r, 8, 2, 1, 3) {
		case 3:
			/* the status line: SetLength on raw text (hook output, typed bytes), often exactly as
			   long as the width */
			raw := genRawText(r, 24)
			w := pick(r, []int{0, 1, 2, 5, 10, 20, 80})
			if r.Intn(2) == 0 {
				w = len([]rune(raw))
			}
			emit(Op{"op": "setlength", "s": raw, "w": w, "ellipsis": "…"})
		case 0:
			if r.Intn(4) == 0 {
				/* parts much taller than the terminal (hundreds of lines) above, at and below the
				   cursor, parts of nothing at all, the smallest terminals and very tall ones; heights
				   placed around the sizes of the parts, where the layout changes its case */
				part := func() string {
					switch r.Intn(5) {
					case 0:
						return ""
					case 1:
						return genLines(r, 3)
					case 2:
						return genLines(r, 8) + strings.Repeat("\nrow", 100+r.Intn(400))
					case 3:
						return strings.Repeat("\n", r.Intn(300))
					default:
						return genLines(r, 40)
					}
				}
				p, c, sfx := part(), part(), part()
				hp, hc, hs := strings.Count(p, "\n")+1, strings.Count(c, "\n")+1, strings.Count(sfx, "\n")+1
				h := pick(r, []int{1, 2, 3, 4, hc - 1, hc, hc + 1, hc + 2, hc + 3, hc + 2*hp - 1, hc + 2*hp, hc + 2*hp + 1, hc + 2*hs - 1, hc + 2*hs, hc + 2*hs + 1,
					hc + hp + hs, hc + hp + hs + 1, 2 + r.Intn(60), 100 + r.Intn(900)})
				if h < 1 {
					h = 1
				}
				emit(Op{"op": "center", "prefix": p, "centered": c, "suffix": sfx, "h": h})
				continue
			}
			emit(Op{"op": "center", "prefix": genLines(r, 8), "centered": genLines(r, 8), "suffix": genLines(r, 8), "h": 1 + r.Intn(16)})
		case 1:
			if r.Intn(4) == 0 {
				/* a frame of one line, of empty lines only, of hundreds of lines; an empty status line */
				emit(Op{"op": "replacelast", "s": pick(r, []string{"", "x", "\n", "\n\n", "a\n", strings.Repeat("row\n", 300) + "end", strings.Repeat("\n", 500)}), "r": pick(r, []string{"", genCanonLine(r)})})
				continue
			}
			emit(Op{"op": "replacelast", "s": genLines(r, 6), "r": genCanonLine(r)})
		case 2:
			emit(Op{"op": "height", "s": genLines(r, 6)})
		}
	}
}
