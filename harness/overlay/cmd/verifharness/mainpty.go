//go:build verif

package main

import (
	"fmt"
	"math/rand"
	"os"
	"os/exec"
	"path/filepath"
	"strings"
	"sync"
	"syscall"
	"time"
	"unsafe"
)

/*
op "mainpty": the program itself (main.go, built without the verif tag) on a pseudo terminal whose
size the op changes; keys are typed on the terminal.  Observed after every step, once the screen
has come to rest: the size the terminal has and the number of lines of the frame on it.  This is
the only op that runs main(): the poller of the terminal size, printRaw, the key loop.
*/
const (
	tiocgptn   = 0x80045430
	tiocsptlck = 0x40045431
	tiocswinsz = 0x5414
)

type winsize struct{ Row, Col, X, Y uint16 }

func ptyIoctl(fd uintptr, request uintptr, argument unsafe.Pointer) error {
	if _, _, errno := syscall.Syscall(syscall.SYS_IOCTL, fd, request, uintptr(argument)); errno != 0 {
		return errno
	}
	return nil
}

func openPty() (*os.File, *os.File, error) {
	master, err := os.OpenFile("/dev/ptmx", os.O_RDWR|syscall.O_NOCTTY, 0)
	if err != nil {
		return nil, nil, err
	}
	var unlock int32
	if err := ptyIoctl(master.Fd(), tiocsptlck, unsafe.Pointer(&unlock)); err != nil {
		master.Close()
		return nil, nil, err
	}
	var number uint32
	if err := ptyIoctl(master.Fd(), tiocgptn, unsafe.Pointer(&number)); err != nil {
		master.Close()
		return nil, nil, err
	}
	slave, err := os.OpenFile(fmt.Sprintf("/dev/pts/%d", number), os.O_RDWR|syscall.O_NOCTTY, 0)
	if err != nil {
		master.Close()
		return nil, nil, err
	}
	return master, slave, nil
}

const frameStart = "\x1b[0;0H\x1b[2J"

type ptyScreen struct {
	m      sync.Mutex
	data   []byte
	lastAt time.Time
}

func (s *ptyScreen) snapshot() (frames int, lastLines int, quietFor time.Duration) {
	s.m.Lock()
	defer s.m.Unlock()
	parts := strings.Split(string(s.data), frameStart)
	if len(parts) < 2 {
		return 0, 0, time.Since(s.lastAt)
	}
	return len(parts) - 1, strings.Count(parts[len(parts)-1], "\r\n") + 1, time.Since(s.lastAt)
}

/* waits until nothing has been written for `quiet` (at most `limit`) */
func (s *ptyScreen) rest(quiet, limit time.Duration) {
	deadline := time.Now().Add(limit)
	for time.Now().Before(deadline) {
		if _, _, q := s.snapshot(); q >= quiet {
			return
		}
		time.Sleep(10 * time.Millisecond)
	}
}

func init() {
	execs["mainpty"] = func(op Op) any {
		bin := filepath.Join(os.Getenv("VERIF_SCRATCH"), "bin", "servitor")
		if _, err := os.Stat(bin); err != nil {
			return map[string]any{"noprogram": true}
		}
		master, slave, err := openPty()
		if err != nil {
			return map[string]any{"nopty": err.Error()}
		}
		defer master.Close()
		dir, _ := os.MkdirTemp("", "verifpty")
		defer os.RemoveAll(dir)
		note := filepath.Join(dir, "note.json")
		os.WriteFile(note, []byte(S(op, "doc")), 0o600)
		setSize := func(w, h int) {
			size := winsize{Row: uint16(h), Col: uint16(w)}
			ptyIoctl(master.Fd(), tiocswinsz, unsafe.Pointer(&size))
		}
		w, h := I(op, "width"), I(op, "height")
		setSize(w, h)
		screen := &ptyScreen{lastAt: time.Now()}
		go func() {
			buffer := make([]byte, 1<<16)
			for {
				n, err := master.Read(buffer)
				if n > 0 {
					screen.m.Lock()
					screen.data = append(screen.data, buffer[:n]...)
					if len(screen.data) > 1<<22 {
						/* keep the tail: only the newest frames are looked at */
						screen.data = append([]byte{}, screen.data[len(screen.data)-(1<<21):]...)
					}
					screen.lastAt = time.Now()
					screen.m.Unlock()
				}
				if err != nil {
					return
				}
			}
		}()
		cmd := exec.Command(bin, "open", note)
		cmd.Stdin, cmd.Stdout, cmd.Stderr = slave, slave, slave
		cmd.Env = append(os.Environ(), "TERM=xterm")
		if err := cmd.Start(); err != nil {
			slave.Close()
			return map[string]any{"nostart": err.Error()}
		}
		slave.Close()
		exited := make(chan struct{})
		go func() { cmd.Wait(); close(exited) }()
		defer func() {
			master.Write([]byte{3})
			select {
			case <-exited:
			case <-time.After(2 * time.Second):
				cmd.Process.Kill()
				<-exited
			}
		}()
		/* the first page */
		deadline := time.Now().Add(10 * time.Second)
		for time.Now().Before(deadline) {
			if n, _, q := screen.snapshot(); n > 0 && q > 150*time.Millisecond {
				break
			}
			time.Sleep(10 * time.Millisecond)
		}
		observed := []any{}
		observe := func(step any) {
			n, lines, _ := screen.snapshot()
			observed = append(observed, []any{step, w, h, n > 0, lines})
		}
		observe("start")
		for _, raw := range L(op, "steps") {
			step := raw.([]any)
			switch step[0].(string) {
			case "size":
				w, h = I(Op{"v": step[1]}, "v"), I(Op{"v": step[2]}, "v")
				setSize(w, h)
				/* a dozen polls of the size (one every 25 ms); on a busy machine the poller may be
				   late: wait for a frame of the new height (at most 10 s), then rest */
				time.Sleep(300 * time.Millisecond)
				limit := time.Now().Add(10 * time.Second)
				for h >= 2 && time.Now().Before(limit) {
					if _, lines, _ := screen.snapshot(); lines == h {
						break
					}
					time.Sleep(20 * time.Millisecond)
				}
				screen.rest(150*time.Millisecond, 5*time.Second)
			case "key":
				before, _, _ := screen.snapshot()
				master.Write([]byte(step[1].(string)))
				limit := time.Now().Add(5 * time.Second)
				for time.Now().Before(limit) {
					if n, _, _ := screen.snapshot(); n > before {
						break
					}
					time.Sleep(10 * time.Millisecond)
				}
				screen.rest(150*time.Millisecond, 5*time.Second)
			}
			select {
			case <-exited:
				observed = append(observed, []any{"exited", w, h, false, 0})
				return map[string]any{"observed": observed, "exited": true}
			default:
			}
			observe(step[0])
		}
		return map[string]any{"observed": observed, "exited": false}
	}
	groups["mainpty"] = group{gen: func(r *rand.Rand, n int, emit func(Op)) {
		docs := []string{
			`{"type":"Note","content":"hello there","mediaType":"text/plain","published":"2020-01-01T00:00:00Z"}`,
			`{"type":"Note","content":"` + strings.Repeat("line\\n", 90) + `end","mediaType":"text/plain"}`,
			`{"type":"Person","name":"someone","summary":"<p>bio</p>"}`,
			`not json at all`,
		}
		heights := []int{2, 3, 5, 10, 24, 24, 31, 50, 70, 120}
		widths := []int{1, 2, 10, 40, 80, 80, 100, 200}
		keys := []string{"g", "j", "k", "h", "l", " ", "1", "\x1b", ":", "\x7f"}
		for i := 0; i < n; i++ {
			w0, h0 := pick(r, widths), pick(r, heights)
			steps := []any{}
			for k := 0; k < 2+r.Intn(5); k++ {
				switch weighted(r, 4, 2, 3) {
				case 0:
					steps = append(steps, []any{"size", pick(r, widths), pick(r, heights)})
				case 1:
					/* back to the size the program started with */
					steps = append(steps, []any{"size", w0, h0})
				case 2:
					steps = append(steps, []any{"key", pick(r, keys)})
				}
			}
			/* every script ends with a key after the last size: a frame drawn by a key press */
			steps = append(steps, []any{"key", "g"})
			emit(Op{"op": "mainpty", "doc": pick(r, docs), "width": w0, "height": h0, "steps": steps})
		}
	}}
}
