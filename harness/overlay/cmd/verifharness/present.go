//go:build verif

package main

import (
	"encoding/json"
	"fmt"
	"math/rand"
	"net/url"
	"servitor/gemtext"
	"servitor/hypertext"
	"servitor/object"
	"servitor/plaintext"
	"servitor/pub"
	"strings"
)

func dumpBody(m any) any {
	switch x := m.(type) {
	case *hypertext.Markup:
		forest := []any{}
		for _, n := range x.VerifTree() {
			forest = append(forest, dumpNode(n))
		}
		return map[string]any{"html": forest}
	case *gemtext.Markup:
		return map[string]any{"gem": toAnyList(x.VerifLines())}
	case *plaintext.Markup:
		return map[string]any{"plain": x.VerifText()}
	}
	return nil
}

/* describes a Tangible for the presentation model */
func describe(t pub.Tangible) any {
	switch x := t.(type) {
	case *pub.Failure:
		return map[string]any{"k": "failure", "msg": pub.VerifFailureMessage(x)}
	case *pub.Post:
		f, body := pub.VerifPostFields(x)
		f["k"] = "post"
		f["body"] = dumpBody(body)
		return f
	case *pub.Actor:
		f, body := pub.VerifActorFields(x)
		f["k"] = "actor"
		f["body"] = dumpBody(body)
		return f
	case *pub.Activity:
		kind, name, target := pub.VerifActivityParts(x)
		return map[string]any{"k": "activity", "kind": kind, "actorName": name, "target": describe(target)}
	}
	return map[string]any{"k": "?"}
}

func init() {
	/* op "present": build an item from JSON (as pubfuzz does) and compare String / Preview / Name
	   at several widths with the presentation model run on the item's extracted fields */
	execs["present"] = func(op Op) any {
		var doc map[string]any
		if err := json.Unmarshal([]byte(S(op, "doc")), &doc); err != nil {
			return map[string]any{"baddoc": true}
		}
		o := object.Object(doc)
		var id *url.URL
		if B(op, "withid") {
			/* the identifier as the program obtains it (client.FetchUnknown): through the accessor,
			   which sanitises the string before parsing it */
			if u, err := o.GetURL("id"); err == nil {
				id = u
			}
		}
		var t pub.Tangible
		switch S(op, "as") {
		case "post":
			if p, err := pub.NewPostFromObject(o, id); err != nil {
				t = pub.NewFailure(err)
			} else {
				t = p
			}
		case "actor":
			if a, err := pub.NewActorFromObject(o, id); err != nil {
				t = pub.NewFailure(err)
			} else {
				t = a
			}
		case "activity":
			if a, err := pub.NewActivityFromObject(o, id); err != nil {
				t = pub.NewFailure(err)
			} else {
				t = a
			}
		default:
			t = pub.NewTangible(doc, id)
		}
		op["item"] = describe(t)
		outs := []any{}
		for _, w := range L(op, "widths") {
			wi := I(Op{"v": w}, "v")
			outs = append(outs, []any{t.String(wi), t.Preview(wi)})
		}
		return map[string]any{"name": t.Name(), "out": outs}
	}
	/* the same ops, but only the property predicates are evaluated on the implementation's output
	   (used by properties whose statement does not depend on the exact text) */
	groups["presentP"] = group{gen: func(r *rand.Rand, n int, emit func(Op)) {
		groups["present"].gen(r, n, func(op Op) {
			op["predicate_only"] = true
			emit(op)
		})
	}}
	groups["present"] = group{gen: func(r *rand.Rand, n int, emit func(Op)) {
		count := 0
		/* each worker starts its walk through the control characters somewhere else (a worker of a
		   quick run sees a dozen of them: from 0 they would all be C0 characters) */
		ctlBase := r.Intn(78 * 6)
		fuzzLarge = false // the model recomputes these items: no kilobyte names, no lists of hundreds
		defer func() { fuzzLarge = true }()
		genPubFuzz(r, n, func(op Op) {
			if op["op"] != "pubfuzz" {
				return
			}
			count++
			widths := []any{genWidth(r), pick(r, []int{-5, 0, 1, 2, 4, 5, 8, 20, 80, 84, 120})}
			doc := op["doc"]
			if count%3 == 0 {
				/* one control character (all of them in turn), in one of its spellings, put into
				   every string the item shows -- also exactly where a line of these widths ends */
				doc = injectControls(r, doc.(string), ctlBase+count/3, widths)
			}
			/* a fresh item per width sequence: String/Preview share the Markup cache */
			emit(Op{"op": "present", "doc": doc, "as": op["as"], "withid": op["withid"], "widths": widths})
			if count%5 == 0 {
				/* and, one code point after the other, a plain note / profile that carries the
				   character in all its spellings in every place a body has */
				emit(controlDoc(r, ctlBase+count/5))
			}
		})
	}}
}

/* ---------- control characters, every one, in every spelling ---------- */

/*
C0, DEL, C1; then characters that are not controls for unicode.IsControl but steer a terminal

	or the reader all the same (they are printable for the model as they are for the code)
*/
func controlPoint(i int) rune {
	others := []rune{0x200b, 0x200e, 0x202e, 0x2028, 0x2029, 0x2066, 0x2069, 0xfeff, 0x061c, 0xfff9, 0xe0001, 0xad, 0x180e}
	i %= 65 + len(others)
	switch {
	case i < 32:
		return rune(i)
	case i == 32:
		return 0x7f
	case i < 65:
		return rune(0x80 + i - 33)
	}
	return others[i-65]
}

/* the ways a character can be written in fetched content */
func spellings(c rune) []string {
	out := []string{string(c), string(c),
		fmt.Sprintf("&#%d;", c), fmt.Sprintf("&#x%x;", c), fmt.Sprintf("&#X%X;", c), fmt.Sprintf("&#%d", c), fmt.Sprintf("&#x%x", c),
		fmt.Sprintf("&#%07d;", c), fmt.Sprintf("&#x%06x;", c), fmt.Sprintf("&amp;#%d;", c), fmt.Sprintf("%%%02X", c)}
	if c < 0x80 {
		out = append(out, fmt.Sprintf("%%%02x", c))
	} else {
		enc := ""
		for _, b := range []byte(string(c)) {
			enc += fmt.Sprintf("%%%02X", b)
		}
		out = append(out, enc)
	}
	return out
}

/* sequences a terminal acts on, spelled with the given introducer */
func sequenceAround(r *rand.Rand, intro string) string {
	return intro + pick(r, []string{"", "[2J", "]0;pwned", "31m", "P1$r", "_x", "^x", "Xx", "[?1049h", "c", "]52;c;cHduZWQ="}) + pick(r, []string{"", "", "\x07", "\x1b\\", "\u009c"})
}

var beyondUnicode = []string{"&#1114112;", "&#x110000;", "&#xD800;", "&#55296;", "&#xDFFF;", "&#4294967323;", "&#x10000001B;", "&#99999999999999999999;", "&#xFFFFFFFFFFFFFFFF1B;", "&#-27;", "&#x;", "&#;", "&#x1b", "&#0027;", "&#x0000001b;", "&#27;&#91;2J", "&#x9b;&#x9B;", "&#128;&#129;&#141;&#143;&#144;&#157;&#159;"}

func injectControls(r *rand.Rand, docText string, i int, widths []any) string {
	var doc map[string]any
	if json.Unmarshal([]byte(docText), &doc) != nil {
		return docText
	}
	c := controlPoint(i)
	forms := spellings(c)
	inj := func() string {
		switch weighted(r, 8, 3, 1) {
		case 0:
			return pick(r, forms)
		case 1:
			return sequenceAround(r, pick(r, forms))
		}
		return pick(r, beyondUnicode)
	}
	/* exactly where a line of one of the widths ends (the header is wrapped at the width, the
	   body four columns earlier, a preview's child eight) */
	atEdge := func(s string) string {
		w := I(Op{"v": pick(r, widths)}, "v") - pick(r, []int{0, 0, 4, 4, 8, 2, 6})
		if w < 1 || w > 200 {
			return s + inj()
		}
		k := w + pick(r, []int{-1, -1, 0, 0, 1, -2})
		if k < 0 {
			k = 0
		}
		return strings.Repeat("x", k) + inj() + "yz " + s
	}
	shown := map[string]bool{"name": true, "summary": true, "content": true, "preferredUsername": true, "type": false, "mediaType": false, "published": true, "href": true, "url": true, "id": false}
	var walk func(v any, key string, depth int) any
	walk = func(v any, key string, depth int) any {
		switch x := v.(type) {
		case string:
			if want, known := shown[key]; known && !want && r.Intn(6) != 0 {
				return x
			}
			switch weighted(r, 3, 3, 2, 2) {
			case 0:
				return x
			case 1:
				rs := []rune(x)
				p := r.Intn(len(rs) + 1)
				return string(rs[:p]) + inj() + string(rs[p:])
			case 2:
				return atEdge(x)
			}
			return inj() + x + inj()
		case []any:
			for k, e := range x {
				x[k] = walk(e, key, depth+1)
			}
			return x
		case map[string]any:
			for k, e := range x {
				x[k] = walk(e, k, depth+1)
			}
			return x
		}
		return v
	}
	walk(doc, "", 0)
	b, _ := json.Marshal(doc)
	return string(b)
}

/*
a small post or profile with one control character (the k-th) written in every way, in text,

	preformatted text, inline code, attributes that are shown, attachment names and links
*/
func controlDoc(r *rand.Rand, k int) Op {
	c := controlPoint(k)
	forms := spellings(c)
	all := strings.Join(forms, " ")
	pickf := func() string { return pick(r, forms) }
	cycle := k / 78
	var content, mt string
	switch cycle % 3 {
	case 0, 2:
		mt = pick(r, []string{"text/html", "", "text/html; charset=utf-8"})
		content = "<p>a " + all + " b</p><pre>" + all + "</pre><code>" + pickf() + "</code> <b>" + pickf() + "</b>" +
			"<img src=\"https://t.example/i" + pickf() + "\" alt=\"pic " + all + "\"><img src=\"https://t.example/j?" + pickf() + "\">" +
			"<iframe title=\"" + all + "\" src=\"https://t.example/f\"></iframe><a href=\"https://t.example/l" + pickf() + "\">link " + pickf() + "</a>" +
			"<x" + pickf() + ">y</x>" + "<blockquote>" + sequenceAround(r, pickf()) + "</blockquote><ul><li>" + pickf() + "</li></ul><h1>" + pickf() + "</h1>"
	case 1:
		mt = "text/markdown"
		content = "a " + all + " b\n\n    " + all + "\n\n`" + pickf() + "` **" + pickf() + "** [link " + pickf() + "](https://t.example/l" + pickf() + " \"" + pickf() + "\") ![pic " + all + "](https://t.example/i)\n\n> " + sequenceAround(r, pickf()) + "\n\n* " + pickf() + "\n\n# " + pickf()
	}
	if cycle%6 == 5 {
		mt = pick(r, []string{"text/gemini", "text/plain"})
		content = "=> https://t.example/g" + pickf() + " label " + all + "\n# " + pickf() + "\n```\n" + all + "\n```\nhttps://t.example/p" + pickf() + " " + all
	}
	doc := map[string]any{"content": content}
	if mt != "" {
		doc["mediaType"] = mt
	}
	as := "post"
	if k%4 == 3 {
		as = "actor"
		doc["type"], doc["summary"], doc["name"], doc["preferredUsername"] = pick(r, []string{"Person", "Service"}), content, "N "+all, "u"+pickf()
		doc["id"] = "https://h.example/u"
		delete(doc, "content")
	} else {
		doc["type"], doc["name"] = pick(r, []string{"Note", "Article", "Video"}), "T "+all
		doc["attachment"] = []any{
			map[string]any{"type": "Link", "href": "https://t.example/a" + pickf(), "name": "att " + all},
			map[string]any{"type": "Image", "url": "https://t.example/b" + pickf() + "?" + pickf() + "#" + pickf()},
			map[string]any{"type": "Document", "url": pickf() + "://" + pickf(), "mediaType": "x/" + pickf()},
		}
		doc["published"] = pickf()
		doc["attributedTo"] = map[string]any{"type": "Person", "name": "A " + all, "preferredUsername": pickf()}
	}
	/* the same strings in the other shapes JSON-LD allows or a sloppy server sends: a value as a
	   one-element list, a link as a bare string instead of an object (the character raw, where a
	   URL keeps it: in the query, in an opaque address), language maps, a single attachment
	   instead of a list */
	rawc := string(c)
	switch r.Intn(5) {
	case 0:
		for _, key := range []string{"name", "content", "summary", "preferredUsername", "mediaType", "published", "type"} {
			if v, ok := doc[key]; ok && r.Intn(3) != 0 {
				doc[key] = []any{v}
			}
		}
		if a, ok := doc["attributedTo"].(map[string]any); ok {
			a["name"], a["preferredUsername"] = []any{a["name"]}, []any{a["preferredUsername"]}
		}
	case 1:
		if as == "post" {
			bare := []any{"https://t.example/q?x=" + rawc + "y", "urn:x" + rawc + "y", "https://t.example/" + pickf() + "?" + rawc + "#" + rawc, "mailto:a" + rawc + "@t.example", "https://t.example/p" + rawc}
			switch r.Intn(3) {
			case 0:
				doc["attachment"] = bare
			case 1:
				doc["attachment"] = append([]any{doc["attachment"].([]any)[0]}, bare...)
			case 2:
				doc["attachment"] = pick(r, bare)
			}
			doc["url"] = pick(r, []any{pick(r, bare), bare, []any{map[string]any{"type": "Link", "href": pick(r, bare), "mediaType": "video/mp4"}, pick(r, bare)}})
		} else {
			doc["icon"], doc["image"] = "https://t.example/i?"+rawc, []any{"urn:y" + rawc}
			doc["url"] = "https://t.example/u?" + rawc
		}
	case 2:
		doc["nameMap"], doc["contentMap"], doc["summaryMap"] = map[string]any{"en": "M " + all}, map[string]any{"en": content, "und": all}, map[string]any{"de": all}
		if r.Intn(2) == 0 {
			delete(doc, "name")
		}
	}
	b, _ := json.Marshal(doc)
	return Op{"op": "present", "doc": string(b), "as": as, "withid": as == "actor", "widths": []any{pick(r, []int{80, 40, 120}), pick(r, []int{3, 7, 12, 20})}}
}
