//go:build verif

package main

import (
	"encoding/json"
	"math/rand"
	"net/url"
	"servitor/gemtext"
	"servitor/hypertext"
	"servitor/object"
	"servitor/plaintext"
	"servitor/pub"
)

func dumpBody(m any) any {
	switch x := m.(type) {
	case *hypertext.Markup:
		forest := []any{}
		for _, n := range x.VerifTree() {
			forest = append(forest, dumpNode(n))
		}
		return map[string]any{"html": forest}
	case *gemtext.Markup:
		return map[string]any{"gem": toAnyList(x.VerifLines())}
	case *plaintext.Markup:
		return map[string]any{"plain": x.VerifText()}
	}
	return nil
}

/* describes a Tangible for the presentation model */
func describe(t pub.Tangible) any {
	switch x := t.(type) {
	case *pub.Failure:
		return map[string]any{"k": "failure", "msg": pub.VerifFailureMessage(x)}
	case *pub.Post:
		f, body := pub.VerifPostFields(x)
		f["k"] = "post"
		f["body"] = dumpBody(body)
		return f
	case *pub.Actor:
		f, body := pub.VerifActorFields(x)
		f["k"] = "actor"
		f["body"] = dumpBody(body)
		return f
	case *pub.Activity:
		kind, name, target := pub.VerifActivityParts(x)
		return map[string]any{"k": "activity", "kind": kind, "actorName": name, "target": describe(target)}
	}
	return map[string]any{"k": "?"}
}

func init() {
	/* op "present": build an item from JSON (as pubfuzz does) and compare String / Preview / Name
	   at several widths with the presentation model run on the item's extracted fields */
	execs["present"] = func(op Op) any {
		var doc map[string]any
		if err := json.Unmarshal([]byte(S(op, "doc")), &doc); err != nil {
			return map[string]any{"baddoc": true}
		}
		o := object.Object(doc)
		var id *url.URL
		if raw, ok := doc["id"].(string); ok && B(op, "withid") {
			if u, err := url.Parse(raw); err == nil {
				id = u
			}
		}
		var t pub.Tangible
		switch S(op, "as") {
		case "post":
			if p, err := pub.NewPostFromObject(o, id); err != nil {
				t = pub.NewFailure(err)
			} else {
				t = p
			}
		case "actor":
			if a, err := pub.NewActorFromObject(o, id); err != nil {
				t = pub.NewFailure(err)
			} else {
				t = a
			}
		case "activity":
			if a, err := pub.NewActivityFromObject(o, id); err != nil {
				t = pub.NewFailure(err)
			} else {
				t = a
			}
		default:
			t = pub.NewTangible(doc, id)
		}
		op["item"] = describe(t)
		outs := []any{}
		for _, w := range L(op, "widths") {
			wi := I(Op{"v": w}, "v")
			outs = append(outs, []any{t.String(wi), t.Preview(wi)})
		}
		return map[string]any{"name": t.Name(), "out": outs}
	}
	/* the same ops, but only the property predicates are evaluated on the implementation's output
	   (used by properties whose statement does not depend on the exact text) */
	groups["presentP"] = group{gen: func(r *rand.Rand, n int, emit func(Op)) {
		groups["present"].gen(r, n, func(op Op) {
			op["predicate_only"] = true
			emit(op)
		})
	}}
	groups["present"] = group{gen: func(r *rand.Rand, n int, emit func(Op)) {
		genPubFuzz(r, n, func(op Op) {
			if op["op"] != "pubfuzz" {
				return
			}
			/* a fresh item per width sequence: String/Preview share the Markup cache */
			emit(Op{"op": "present", "doc": op["doc"], "as": op["as"], "withid": op["withid"], "widths": []any{genWidth(r), pick(r, []int{-5, 0, 1, 2, 4, 5, 8, 20, 80, 84, 120})}})
		})
	}}
}
