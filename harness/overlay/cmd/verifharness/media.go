//go:build verif

package main

import (
	"encoding/json"
	"fmt"
	"math/rand"
	"os"
	"path/filepath"
	"servitor/config"
	"servitor/mime"
	"servitor/object"
	"servitor/pub"
	"servitor/ui"
	"strings"
)

/*
op "media": a post or an actor is built from a document (no network: it references nothing),
then a sequence of openings is performed the way ui.Update does them — Media(), SelectLink(k),
ProfilePic(), Banner() — and every selection that exists is handed to the real openExternally
with a recording program as the hook. Reported per step: whether something was selected, the
link, the media type, and the argv/stdin the program was started with.
*/

func runHook(hook []string, link string, mt *mime.MediaType) map[string]any {
	dumpSeq++
	file := filepath.Join(os.Getenv("VERIF_SCRATCH"), fmt.Sprintf("dump-%d-%d.json", os.Getpid(), dumpSeq))
	os.Remove(file)
	os.Setenv("VERIF_DUMP_FILE", file)
	saved := config.Parsed.Media.Hook
	config.Parsed.Media.Hook = hook
	defer func() { config.Parsed.Media.Hook = saved }()
	ui.VerifOpenExternally(link, mt, 80, 10)
	raw, err := os.ReadFile(file)
	if err != nil {
		return map[string]any{"notrun": true}
	}
	os.Remove(file)
	var rec map[string]any
	json.Unmarshal(raw, &rec)
	return map[string]any{"argv": rec["argv"], "stdin": rec["stdin"]}
}

func init() {
	execs["media"] = func(op Op) any {
		var doc map[string]any
		if err := json.Unmarshal([]byte(S(op, "doc")), &doc); err != nil {
			return map[string]any{"baddoc": true}
		}
		op["tree"] = tree(doc)
		times, urls := libTables(doc)
		op["times"] = times
		op["urls"] = urls
		hook := []string{}
		for _, a := range L(op, "hook") {
			hook = append(hook, a.(string))
		}
		o := object.Object(doc)
		var post *pub.Post
		var actor *pub.Actor
		var err error
		if S(op, "as") == "actor" {
			actor, err = pub.NewActorFromObject(o, nil)
			if err == nil {
				op["bodylinks"] = toAnyList(pub.VerifBioLinks(actor))
			}
		} else {
			post, err = pub.NewPostFromObject(o, nil)
			if err == nil {
				op["bodylinks"] = toAnyList(pub.VerifBodyLinks(post))
			}
		}
		if err != nil {
			return map[string]any{"noitem": true}
		}
		steps := []any{}
		for _, raw := range L(op, "steps") {
			st := raw.([]any)
			var link string
			var mt *mime.MediaType
			var present bool
			switch st[0].(string) {
			case "media":
				if post != nil {
					link, mt, present = post.Media()
				}
			case "pfp":
				if actor != nil {
					link, mt, present = actor.ProfilePic()
				}
			case "banner":
				if actor != nil {
					link, mt, present = actor.Banner()
				}
			case "select":
				k := I(Op{"v": st[1]}, "v")
				if post != nil {
					link, mt, present = post.SelectLink(k)
				} else {
					link, mt, present = actor.SelectLink(k)
				}
			}
			if !present {
				steps = append(steps, map[string]any{"present": false})
				continue
			}
			if B(op, "links_only") {
				/* C12 is about which target a number opens, not about how it is opened */
				steps = append(steps, map[string]any{"present": true, "link": link})
				continue
			}
			res := map[string]any{"present": true, "link": link, "mt": []any{mt.Essence, mt.Supertype, mt.Subtype}}
			for k, v := range runHook(hook, link, mt) {
				res[k] = v
			}
			steps = append(steps, res)
		}
		return map[string]any{"steps": steps}
	}
	groups["media"] = group{gen: genMedia}
	groups["mediaL"] = group{gen: func(r *rand.Rand, n int, emit func(Op)) {
		genMedia(r, n, func(op Op) {
			op["links_only"] = true
			emit(op)
		})
	}}
}

func genLinkObject(r *rand.Rand, n int) any {
	uris := []string{"https://m.example/a.png", "https://m.example/b.mp4", "https://m.example/c", "https://m.example/d%20e?x=1#f", "not a url at all", "://bad", "https://m.example/%zz", ""}
	l := map[string]any{"type": pick(r, []string{"Link", "Link", "Image", "Image", "Audio", "Video", "Document", "Note", "image"})}
	u := pick(r, uris)
	if r.Intn(8) != 0 {
		u = fmt.Sprintf("https://m.example/file%d", n)
	}
	key := "url"
	if l["type"] == "Link" {
		key = "href"
	}
	if r.Intn(10) == 0 {
		key = pick(r, []string{"url", "href"})
	}
	if r.Intn(12) != 0 {
		l[key] = u
	}
	switch weighted(r, 5, 5, 1, 1, 1) {
	case 1:
		l["mediaType"] = pick(r, []string{"image/png", "image/jpeg", "video/mp4", "audio/ogg", "text/html", "application/pdf", "image/*"})
	case 2:
		l["mediaType"] = pick(r, []any{"nonsense", "", "/", "image/", 5})
	case 3:
		l["mediaType"] = pick(r, []any{"%url/%subtype", "%mimetype/x", "\x1b[2J/\x07"})
	case 4:
		l["mediaType"] = nil
	}
	if r.Intn(3) == 0 {
		l["name"] = pick(r, []any{"a picture", "", 7, "\x1b]0;x\x07"})
	}
	if r.Intn(2) == 0 {
		l["height"] = pick(r, []any{1, 2, 100, 1080, 0, -1, 1.5, "tall", 4294967296.0, 1e19, 18446744073709551615.0})
	}
	if r.Intn(2) == 0 {
		l["width"] = pick(r, []any{1, 3, 100, 1920, 0, 4294967296.0, "wide", nil})
	}
	return l
}

func genLinkList(r *rand.Rand, shorthand bool) any {
	switch weighted(r, 10, 1, 1, 1, 2) {
	case 1:
		return []any{}
	case 2:
		return pick(r, []any{nil, 5, true, map[string]any{}, []any{[]any{}}, []any{5}, []any{nil}})
	case 3:
		if shorthand {
			return "https://m.example/single"
		}
		return genLinkObject(r, 0)
	case 4:
		return genLinkObject(r, 0)
	}
	out := []any{}
	for k := 1 + r.Intn(4); k > 0; k-- {
		if shorthand && r.Intn(3) == 0 {
			out = append(out, pick(r, []string{"https://m.example/short1", "https://m.example/short2", "not a url", "://bad", ""}))
		} else {
			out = append(out, genLinkObject(r, len(out)))
		}
	}
	return out
}

func genMedia(r *rand.Rand, n int, emit func(Op)) {
	args := []string{"%url", "%url", "%mimetype", "%subtype", "%supertype", "--", "x%url", "%mimetype;q"}
	for i := 0; i < n; i++ {
		hook := []any{"verifdump"}
		for k := 1 + r.Intn(4); k > 0; k-- {
			hook = append(hook, pick(r, args))
		}
		doc := map[string]any{}
		steps := []any{}
		as := "post"
		if r.Intn(4) == 0 {
			as = "actor"
			doc["type"] = pick(r, []string{"Person", "Person", "Group", "Service", "Note"})
			if r.Intn(5) != 0 {
				doc["icon"] = genLinkList(r, false)
			}
			if r.Intn(3) != 0 {
				doc["image"] = genLinkList(r, false)
			}
			if r.Intn(2) == 0 {
				doc["summary"] = "see https://b.example/1 and https://b.example/2"
				doc["mediaType"] = "text/plain"
			}
			for k := 2 + r.Intn(6); k > 0; k-- {
				switch r.Intn(3) {
				case 0:
					steps = append(steps, []any{"pfp"})
				case 1:
					steps = append(steps, []any{"banner"})
				default:
					steps = append(steps, []any{"select", r.Intn(5) - 1})
				}
			}
		} else {
			doc["type"] = pick(r, []string{"Note", "Note", "Article", "Page", "Document", "Image", "Audio", "Video", "Video", "Tombstone", "Person"})
			if r.Intn(6) != 0 {
				doc["url"] = genLinkList(r, true)
			}
			if r.Intn(4) != 0 {
				doc["attachment"] = genLinkList(r, false)
			}
			if r.Intn(2) == 0 {
				doc["content"] = "see https://b.example/1 and https://b.example/2 " + strings.Repeat("x", r.Intn(5))
				doc["mediaType"] = "text/plain"
			}
			for k := 2 + r.Intn(6); k > 0; k-- {
				if r.Intn(3) == 0 {
					steps = append(steps, []any{"media"})
				} else {
					steps = append(steps, []any{"select", r.Intn(8) - 1})
				}
			}
		}
		/* the same opening twice in one history: its argv may not depend on what was opened before */
		if len(steps) > 0 {
			steps = append(steps, steps[r.Intn(len(steps))])
		}
		b, _ := json.Marshal(doc)
		emit(Op{"op": "media", "doc": string(b), "as": as, "hook": hook, "steps": steps})
	}
}
