//go:build verif

package main

import (
	"encoding/json"
	"fmt"
	"math/rand"
	"net/url"
	"os"
	"os/exec"
	"path/filepath"
	"servitor/ansi"
	"servitor/config"
	"servitor/mime"
	"servitor/object"
	"servitor/pub"
	"servitor/ui"
	"strconv"
	"strings"
)

/*
op "media": a post or an actor is built from a document (no network: it references nothing),
then a sequence of openings is performed the way ui.Update does them — Media(), SelectLink(k),
ProfilePic(), Banner() — and every selection that exists is handed to the real openExternally
with a recording program as the hook. Reported per step: whether something was selected, the
link, the media type, and the argv/stdin the program was started with.
*/

func runHook(hook []string, link string, mt *mime.MediaType) map[string]any {
	dumpSeq++
	file := filepath.Join(os.Getenv("VERIF_SCRATCH"), fmt.Sprintf("dump-%d-%d.json", os.Getpid(), dumpSeq))
	os.Remove(file)
	os.Setenv("VERIF_DUMP_FILE", file)
	saved := config.Parsed.Media.Hook
	config.Parsed.Media.Hook = hook
	defer func() { config.Parsed.Media.Hook = saved }()
	ui.VerifOpenExternally(link, mt, 80, 10)
	raw, err := os.ReadFile(file)
	if err != nil {
		return map[string]any{"notrun": true}
	}
	os.Remove(file)
	var rec map[string]any
	json.Unmarshal(raw, &rec)
	return map[string]any{"argv": rec["argv"], "stdin": rec["stdin"]}
}

/* what the media keys and the number keys do on an item (ui.Update), without the UI */
type opened struct {
	item  pub.Tangible
	post  *pub.Post
	actor *pub.Actor
	wrap  bool
}

func (o *opened) step(st []any) (string, *mime.MediaType, bool) {
	switch st[0].(string) {
	case "media":
		if o.post != nil {
			return o.post.Media()
		}
	case "pfp":
		/* `p` and `b` look at the highlighted item itself: an activity is not an actor */
		if o.actor != nil && !o.wrap {
			return o.actor.ProfilePic()
		}
	case "banner":
		if o.actor != nil && !o.wrap {
			return o.actor.Banner()
		}
	case "select":
		return o.item.SelectLink(I(Op{"v": st[1]}, "v"))
	case "type":
		/* digits as typed: what strconv.Atoi makes of them */
		if k, err := strconv.Atoi(st[1].(string)); err == nil {
			return o.item.SelectLink(k)
		}
	}
	return "", nil, false
}

func stepKeys(st []any) (string, bool) {
	switch st[0].(string) {
	case "media":
		return "o", true
	case "pfp":
		return "p", true
	case "banner":
		return "b", true
	case "select":
		k := I(Op{"v": st[1]}, "v")
		if k < 0 {
			return "", false
		}
		return strconv.Itoa(k) + "\r", true
	case "type":
		return st[1].(string) + "\r", true
	}
	return "", false
}

/* the dump program under its absolute path (a hook need not be found through PATH) */
func absoluteProgram(name string) string {
	if p, err := exec.LookPath(filepath.Base(name)); err == nil {
		if a, err := filepath.Abs(p); err == nil {
			return a
		}
	}
	return name
}

func init() {
	execs["media"] = func(op Op) any {
		var doc map[string]any
		if err := json.Unmarshal([]byte(S(op, "doc")), &doc); err != nil {
			return map[string]any{"baddoc": true}
		}
		op["tree"] = tree(doc)
		times, urls := libTables(doc)
		op["times"] = times
		op["urls"] = urls
		hook := []string{}
		for _, a := range L(op, "hook") {
			hook = append(hook, a.(string))
		}
		if B(op, "absprog") && len(hook) > 0 {
			hook[0] = absoluteProgram(hook[0])
			op["hook"] = toAnyList(hook)
		}
		o := object.Object(doc)
		it := &opened{}
		var err error
		if wrap := S(op, "wrap"); wrap != "" {
			/* the item is an activity around the document (what an outbox lists) */
			var act *pub.Activity
			act, err = pub.NewActivityFromObject(object.Object{"type": wrap, "object": doc}, nil)
			if err == nil {
				it.item, it.wrap = act, true
				switch t := act.Target().(type) {
				case *pub.Post:
					it.post = t
				case *pub.Actor:
					it.actor = t
				default:
					return map[string]any{"noitem": true}
				}
			}
		} else if S(op, "as") == "actor" {
			it.actor, err = pub.NewActorFromObject(o, nil)
			it.item = it.actor
		} else {
			it.post, err = pub.NewPostFromObject(o, nil)
			it.item = it.post
		}
		if err != nil {
			return map[string]any{"noitem": true}
		}
		var bodylinks []string
		var body any
		if it.actor != nil {
			bodylinks = pub.VerifBioLinks(it.actor)
			_, body = pub.VerifActorFields(it.actor)
		} else {
			bodylinks = pub.VerifBodyLinks(it.post)
			_, body = pub.VerifPostFields(it.post)
		}
		whole := B(op, "whole")
		result := map[string]any{}
		if whole {
			/* the model works the body links out itself, from what the real parser made of the body */
			op["body"] = dumpBody(body)
			result["bodylinks"] = toAnyList(bodylinks)
			texts := []any{}
			for _, w := range L(op, "widths") {
				texts = append(texts, it.item.String(I(Op{"v": w}, "v")))
			}
			op["texts"] = texts
			/* every number from 0 to two past the last one, asked directly */
			na := 0
			switch a := doc["attachment"].(type) {
			case []any:
				na = len(a)
			case nil:
			default:
				na = 1
			}
			sel := []any{}
			for k := 0; k <= len(bodylinks)+na+2; k++ {
				link, _, present := it.item.SelectLink(k)
				sel = append(sel, []any{k, present, link})
			}
			result["sel"] = sel
		} else {
			op["bodylinks"] = toAnyList(bodylinks)
		}
		var st *ui.State
		frames := []any{}
		if S(op, "via") == "ui" {
			/* the keys go through the real ui.Update on a page showing the item */
			w := I(op, "uiw")
			if w == 0 {
				w = 80
			}
			st = ui.VerifStateOnItem(it.item, w, 12, func(f string) { frames = append(frames, f) })
		}
		steps := []any{}
		for _, raw := range L(op, "steps") {
			step := raw.([]any)
			if st != nil {
				keys, ok := stepKeys(step)
				if !ok {
					steps = append(steps, map[string]any{"present": false})
					continue
				}
				dumpSeq++
				file := filepath.Join(os.Getenv("VERIF_SCRATCH"), fmt.Sprintf("dump-%d-%d.json", os.Getpid(), dumpSeq))
				os.Remove(file)
				os.Setenv("VERIF_DUMP_FILE", file)
				saved := config.Parsed.Media.Hook
				config.Parsed.Media.Hook = hook
				st.VerifType(keys)
				config.Parsed.Media.Hook = saved
				rawDump, err := os.ReadFile(file)
				if err != nil {
					steps = append(steps, map[string]any{"present": false})
					continue
				}
				os.Remove(file)
				var rec map[string]any
				json.Unmarshal(rawDump, &rec)
				steps = append(steps, map[string]any{"present": true, "argv": rec["argv"], "stdin": rec["stdin"]})
				continue
			}
			link, mt, present := it.step(step)
			if !present {
				steps = append(steps, map[string]any{"present": false})
				continue
			}
			if B(op, "links_only") {
				/* C12 is about which target a number opens, not about how it is opened */
				steps = append(steps, map[string]any{"present": true, "link": link})
				continue
			}
			res := map[string]any{"present": true, "link": link, "mt": []any{mt.Essence, mt.Supertype, mt.Subtype}}
			for k, v := range runHook(hook, link, mt) {
				res[k] = v
			}
			steps = append(steps, res)
		}
		if st != nil {
			op["frames"] = frames
		}
		result["steps"] = steps
		return result
	}
	groups["media"] = group{gen: func(r *rand.Rand, n int, emit func(Op)) {
		genMedia(r, n-n/2, emit)
		genWhole(r, n/2, false, emit)
	}}
	groups["mediaL"] = group{gen: func(r *rand.Rand, n int, emit func(Op)) {
		genMedia(r, n-(2*n)/3, func(op Op) {
			op["links_only"] = true
			emit(op)
		})
		genWhole(r, (2*n)/3, true, emit)
	}}
}

func genLinkObject(r *rand.Rand, n int) any {
	uris := []string{"https://m.example/a.png", "https://m.example/b.mp4", "https://m.example/c", "https://m.example/d%20e?x=1#f", "not a url at all", "://bad", "https://m.example/%zz", ""}
	l := map[string]any{"type": pick(r, []string{"Link", "Link", "Image", "Image", "Audio", "Video", "Document", "Note", "image"})}
	u := pick(r, uris)
	if r.Intn(8) != 0 {
		u = fmt.Sprintf("https://m.example/file%d", n)
	} else if r.Intn(2) == 0 {
		u = pick(r, hostileLinks)
	}
	key := "url"
	if l["type"] == "Link" {
		key = "href"
	}
	if r.Intn(10) == 0 {
		key = pick(r, []string{"url", "href"})
	}
	if r.Intn(12) != 0 {
		l[key] = u
	}
	switch weighted(r, 5, 5, 1, 1, 1) {
	case 1:
		l["mediaType"] = pick(r, []string{"image/png", "image/jpeg", "video/mp4", "audio/ogg", "text/html", "application/pdf", "image/*"})
	case 2:
		l["mediaType"] = pick(r, []any{"nonsense", "", "/", "image/", 5})
	case 3:
		l["mediaType"] = pick(r, []any{"%url/%subtype", "%mimetype/x", "\x1b[2J/\x07"})
	case 4:
		l["mediaType"] = nil
	}
	if r.Intn(5) == 0 {
		l["mediaType"] = pick(r, mediaTypePool)
	}
	if r.Intn(3) == 0 {
		l["name"] = pick(r, []any{"a picture", "", 7, "\x1b]0;x\x07"})
	}
	if r.Intn(2) == 0 {
		l["height"] = pick(r, []any{1, 2, 100, 1080, 0, -1, 1.5, "tall", 4294967296.0, 1e19, 18446744073709551615.0})
	}
	if r.Intn(2) == 0 {
		l["width"] = pick(r, []any{1, 3, 100, 1920, 0, 4294967296.0, "wide", nil})
	}
	return l
}

func genLinkList(r *rand.Rand, shorthand bool) any {
	switch weighted(r, 10, 1, 1, 1, 2) {
	case 1:
		return []any{}
	case 2:
		return pick(r, []any{nil, 5, true, map[string]any{}, []any{[]any{}}, []any{5}, []any{nil}})
	case 3:
		if shorthand {
			return "https://m.example/single"
		}
		return genLinkObject(r, 0)
	case 4:
		return genLinkObject(r, 0)
	}
	out := []any{}
	for k := 1 + r.Intn(4); k > 0; k-- {
		if shorthand && r.Intn(3) == 0 {
			out = append(out, pick(r, []string{"https://m.example/short1", "https://m.example/short2", "not a url", "://bad", ""}))
		} else {
			out = append(out, genLinkObject(r, len(out)))
		}
	}
	return out
}

func genMedia(r *rand.Rand, n int, emit func(Op)) {
	args := []string{"%url", "%url", "%mimetype", "%subtype", "%supertype", "--", "x%url", "%mimetype;q"}
	for i := 0; i < n; i++ {
		hook := []any{"verifdump"}
		for k := 1 + r.Intn(4); k > 0; k-- {
			hook = append(hook, pick(r, args))
		}
		doc := map[string]any{}
		steps := []any{}
		as := "post"
		if r.Intn(4) == 0 {
			as = "actor"
			doc["type"] = pick(r, []string{"Person", "Person", "Group", "Service", "Note"})
			if r.Intn(5) != 0 {
				doc["icon"] = genLinkList(r, false)
			}
			if r.Intn(3) != 0 {
				doc["image"] = genLinkList(r, false)
			}
			if r.Intn(2) == 0 {
				doc["summary"] = "see https://b.example/1 and https://b.example/2"
				doc["mediaType"] = "text/plain"
			}
			for k := 2 + r.Intn(6); k > 0; k-- {
				switch r.Intn(3) {
				case 0:
					steps = append(steps, []any{"pfp"})
				case 1:
					steps = append(steps, []any{"banner"})
				default:
					steps = append(steps, []any{"select", r.Intn(5) - 1})
				}
			}
		} else {
			doc["type"] = pick(r, []string{"Note", "Note", "Article", "Page", "Document", "Image", "Audio", "Video", "Video", "Tombstone", "Person"})
			if r.Intn(6) != 0 {
				doc["url"] = genLinkList(r, true)
			}
			if r.Intn(4) != 0 {
				doc["attachment"] = genLinkList(r, false)
			}
			if r.Intn(2) == 0 {
				doc["content"] = "see https://b.example/1 and https://b.example/2 " + strings.Repeat("x", r.Intn(5))
				doc["mediaType"] = "text/plain"
			}
			for k := 2 + r.Intn(6); k > 0; k-- {
				if r.Intn(3) == 0 {
					steps = append(steps, []any{"media"})
				} else {
					steps = append(steps, []any{"select", r.Intn(8) - 1})
				}
			}
		}
		/* the same opening twice in one history: its argv may not depend on what was opened before */
		if len(steps) > 0 {
			steps = append(steps, steps[r.Intn(len(steps))])
		}
		b, _ := json.Marshal(doc)
		emit(Op{"op": "media", "doc": string(b), "as": as, "hook": hook, "steps": steps})
	}
}

/* ---------- whole items: header + body + attachments, numbers read off the text ---------- */

/*
links as they can stand in fetched content: nothing here is special to servitor, everything

	is special to a shell, an option parser or the placeholder substitution
*/
var hostileLinks = []string{"-rf", "--help", "--output=/tmp/x", "-", "--", "a b c", "  lead", "trail ", " ", "'; rm -rf ~ #", "\"quoted\"", "it's", "$(touch /tmp/pwn)", "`id`", "$HOME", "${IFS}x", "a;b|c&d", "~", "*", "\\", "line1\nline2", "a\tb",
	"%url", "%mimetype", "%subtype", "%supertype", "%url%url", "%url %url", "x%url", "%URL", "%%url", "https://h/%75rl?x=%url",
	"data:text/html,<script>alert(1)</script>", "data:image/png;base64,AAAA", "file:///etc/passwd", "javascript:alert(1)", "mailto:a@b.example?subject=x y", "relative/path", "../up", "/abs", "?q=1", "#frag", "//h.example/x",
	"https://ex.example/a b", "https://ex.example/é漢", "https://ex.example/%zz", "https://ex.example/x?a=1&b=2", "&amp;", "é漢😀", "https://ex.example/\x1b[2J", "\u009b31m", "://bad", "HTTPS://EX.EXAMPLE/Up"}

func attrEscape(s string) string {
	return strings.ReplaceAll(strings.ReplaceAll(s, "&", "&amp;"), "\"", "&quot;")
}

type wholeGen struct {
	r      *rand.Rand
	n      int
	labels []any
	clean  bool // the numbers in the text can be counted: nothing else prints superscripts, every attachment is numbered
	supers bool // the text carries superscript digits of its own: a number next to one cannot be read off
}

func (g *wholeGen) fresh() (string, string) {
	g.n++
	return fmt.Sprintf("W%dq", g.n), fmt.Sprintf("https://t.example/%d", g.n)
}

func (g *wholeGen) expect(label, target string) { g.labels = append(g.labels, []any{label, target}) }

func (g *wholeGen) filler() string {
	r := g.r
	w := pick(r, []string{"some", "text", "here", "and", "there", "x", "12", "no. 3", "é漢😀", "a-b", "(see)", "&amp;", "&lt;a&gt;"})
	if r.Intn(12) == 0 {
		/* text that reads like a number of its own right before a link */
		g.clean, g.supers = false, true
		w = pick(r, []string{"x²", "¹", "m³", "⁰", "10⁹"})
	}
	return w
}

/* one HTML link-ish piece; returns the markup */
func (g *wholeGen) htmlPiece(depth int) string {
	r := g.r
	switch weighted(r, 8, 3, 3, 2, 2, 2, 3, 4, 2) {
	case 0: // plain anchor
		l, t := g.fresh()
		g.expect(l, t)
		return "<a href=\"" + t + "\">" + l + "</a>"
	case 1: // anchors that are no links: they must not take a number
		l, _ := g.fresh()
		return pick(r, []string{"<a>" + l + "</a>", "<a href=\"\">" + l + "</a>", "<a name=\"n\">" + l + "</a>", "<a href>" + l + "</a>", "<a href=\"&#27;&#7;\">" + l + "</a>", "<a HREF=\"\" title=\"https://t.example/no\">" + l + "</a>", "<a data-href=\"https://t.example/no\">" + l + "</a>"})
	case 2: // an href that is only blank, or differently spelled attributes
		l, t := g.fresh()
		switch r.Intn(5) {
		case 4: // control characters written as character references: gone from the link that is opened
			g.expect(l, t+"[2J")
			return "<a href=\"" + t + pick(r, []string{"&#27;", "&#x1b;", "&#x9d;", "&#129;", "&#07", "&#x90;&#0000027;"}) + "[2J" + pick(r, []string{"", "&#7;", "&#127;", "&#x8d;"}) + "\">" + l + "</a>"
		case 0:
			g.expect(l, " ")
			return "<a href=\" \">" + l + "</a>"
		case 1:
			g.expect(l, t)
			return "<A HREF=\"" + t + "\">" + l + "</A>"
		case 2:
			g.expect(l, t)
			return "<a title=\"x\" href='" + t + "' href=\"https://t.example/second\">" + l + "</a>"
		}
		g.expect(l, t)
		return "<a href=" + t + ">" + l + "</a>"
	case 3: // media elements
		l, t := g.fresh()
		tag := pick(r, []string{"img", "video", "audio", "iframe"})
		altk := "alt"
		if tag == "iframe" {
			altk = "title"
		}
		switch r.Intn(5) {
		case 0: // no alt: the link is its own label
			g.expect(t, t)
			return "<" + tag + " src=\"" + t + "\">"
		case 1: // no src: not a link
			return "<" + tag + " " + altk + "=\"" + l + "\">"
		}
		g.expect(l, t)
		return "<" + tag + " src=\"" + t + "\" " + altk + "=\"" + l + "\">"
	case 4: // a linked image: two numbers, the anchor's first
		l, t := g.fresh()
		_, t2 := g.fresh()
		g.expect(l, t)
		return "<a href=\"" + t2 + "\"><img src=\"" + t + "\" alt=\"" + l + "\"></a>"
	case 5: // links inside inline styles and inside each other
		l, t := g.fresh()
		g.expect(l, t)
		tag := pick(r, []string{"b", "i", "u", "s", "code", "mark", "span", "em", "strong", "blink"})
		if r.Intn(3) == 0 && depth < 2 {
			return "<a href=\"" + t + "\"><" + tag + ">" + l + "</" + tag + "> " + g.htmlPiece(depth+1) + "</a>"
		}
		return "<" + tag + "><a href=\"" + t + "\">" + l + "</a></" + tag + ">"
	case 6: // the same target under another number
		if len(g.labels) > 0 {
			prev := g.labels[r.Intn(len(g.labels))].([]any)
			l, _ := g.fresh()
			g.expect(l, prev[1].(string))
			return "<a href=\"" + attrEscape(prev[1].(string)) + "\">" + l + "</a>"
		}
		fallthrough
	case 7: // a link a shell, an option parser or the hook substitution would trip over
		l, _ := g.fresh()
		h := pick(r, hostileLinks)
		if want := ansi.Scrub(h); want != "" {
			g.expect(l, want)
		}
		return "<a href=\"" + attrEscape(h) + "\">" + l + "</a>"
	}
	/* blocks around links */
	inner := g.htmlPiece(depth + 1)
	if depth > 1 {
		return inner
	}
	return pick(r, []string{"<blockquote>" + inner + "</blockquote>", "<ul><li>" + inner + "</li><li>" + g.filler() + "</li></ul>", "<h2>" + inner + "</h2>", "<p>" + inner + "</p>", "<pre>" + inner + "</pre>", "<div>" + inner + "<hr></div>"})
}

func (g *wholeGen) htmlBody() string {
	r := g.r
	parts := []string{}
	k := r.Intn(6)
	switch r.Intn(10) {
	case 0:
		k = 9 + r.Intn(5) // numbers of two digits
	case 1:
		if r.Intn(3) == 0 {
			k = 98 + r.Intn(6) // ... and of three
		}
	}
	for i := 0; i < k; i++ {
		if r.Intn(3) == 0 {
			parts = append(parts, g.filler())
		}
		parts = append(parts, g.htmlPiece(0))
	}
	if r.Intn(3) != 0 {
		parts = append(parts, g.filler())
	}
	return strings.Join(parts, pick(r, []string{" ", " ", "\n", ", "}))
}

func (g *wholeGen) markdownBody() string {
	r := g.r
	parts := []string{}
	defs := []string{}
	k := r.Intn(6)
	if r.Intn(10) == 0 {
		k = 9 + r.Intn(5)
	}
	for i := 0; i < k; i++ {
		l, t := g.fresh()
		switch weighted(r, 5, 3, 3, 3, 3, 2, 2, 2, 2, 2, 2) {
		case 0: // inline
			g.expect(l, t)
			parts = append(parts, g.filler()+" ["+l+"]("+t+")")
		case 1: // reference, full / collapsed / shortcut
			g.expect(l, t)
			switch r.Intn(3) {
			case 0:
				parts = append(parts, "["+l+"][r"+l+"]")
				defs = append(defs, "[r"+l+"]: "+t)
			case 1:
				parts = append(parts, "["+l+"][]")
				defs = append(defs, "["+l+"]: <"+t+"> \"a title\"")
			default:
				parts = append(parts, "["+l+"]")
				defs = append(defs, "["+strings.ToLower(l)+"]: "+t)
			}
		case 2: // autolink: the link is its own text
			g.expect(t, t)
			parts = append(parts, "<"+t+">")
		case 3: // bare URL (GFM)
			g.expect(t, t)
			parts = append(parts, "see "+t+" .")
		case 4: // image
			g.expect(l, t)
			parts = append(parts, "!["+l+"]("+t+")")
		case 5: // inside emphasis
			g.expect(l, t)
			parts = append(parts, pick(r, []string{"**", "*", "~~", "***"})+"["+l+"]("+t+")"+"**")
		case 6: // inside a code span or a code block: not a link, takes no number
			parts = append(parts, pick(r, []string{"`[" + l + "](" + t + ")`", "\n\n    [" + l + "](" + t + ")\n\n", "\n\n```\n[" + l + "](" + t + ")\n```\n\n", "\\[" + l + "\\](" + t + ")", "[" + l + "] (" + t + "x)"}))
		case 7: // linked image
			_, t2 := g.fresh()
			g.expect(l, t)
			parts = append(parts, "[!["+l+"]("+t+")]("+t2+")")
		case 8: // code inside the link text, a title, angle brackets
			g.expect(l, t)
			parts = append(parts, pick(r, []string{"[`" + l + "`](" + t + ")", "[" + l + "](" + t + " \"title\")", "[" + l + "](<" + t + ">)", "[*" + l + "*](" + t + ")"}))
		case 9: // a link with an empty or missing destination
			parts = append(parts, pick(r, []string{"[" + l + "]()", "[" + l + "](<>)", "[" + l + "][nowhere]", "[" + l + "](#)"}))
		case 10: // destinations a shell or the hook substitution would trip over
			parts = append(parts, "["+l+"]("+pick(r, []string{"-rf", "%url", "<a b>", "javascript:alert(1)", "$(id)", "<%mimetype>", "data:text/html,x", "../up", "mailto:a@b.example", "`id`", "<--help>"})+")")
		}
	}
	sep := pick(r, []string{" ", "\n", "\n\n", "\n* ", "\n> "})
	return strings.Join(parts, sep) + "\n\n" + strings.Join(defs, "\n")
}

func (g *wholeGen) gemtextBody() string {
	r := g.r
	lines := []string{}
	k := r.Intn(6)
	if r.Intn(10) == 0 {
		k = 9 + r.Intn(5)
	}
	for i := 0; i < k; i++ {
		l, t := g.fresh()
		switch weighted(r, 6, 2, 2, 2, 2, 3) {
		case 0:
			g.expect(l, t)
			lines = append(lines, "=>"+pick(r, []string{"", " ", "  "})+t+" "+l)
		case 1: // no label: the link is shown
			g.expect(t, t)
			lines = append(lines, "=> "+t)
		case 2: // an empty link line still takes a number
			lines = append(lines, pick(r, []string{"=>", "=> "}))
		case 3: // not link lines
			lines = append(lines, pick(r, []string{" => " + t + " " + l, "= > " + t, "```", "=> " + t + " " + l, "```", "text => " + t}))
		case 4:
			lines = append(lines, pick(r, []string{"# ", "* ", "> ", ""})+g.filler())
		case 5: // hostile, up to the first blank
			h := pick(r, hostileLinks)
			if !strings.ContainsAny(h, " \t\n") && ansi.Scrub(h) == h && h != "" {
				g.expect(l, h)
			}
			lines = append(lines, "=> "+strings.ReplaceAll(h, "\n", " ")+" "+l)
		}
	}
	return strings.Join(lines, "\n")
}

func (g *wholeGen) plainBody() string {
	r := g.r
	parts := []string{}
	k := r.Intn(6)
	if r.Intn(10) == 0 {
		k = 9 + r.Intn(5)
	}
	for i := 0; i < k; i++ {
		_, t := g.fresh()
		switch weighted(r, 6, 2, 2) {
		case 0:
			g.expect(t, t)
			parts = append(parts, g.filler(), t)
		case 1:
			h := pick(r, []string{"file:///etc/passwd", "x://$(id)", "javascript://%0Aalert(1)", "a+b.c-d://h[1]:2/p?q=1#f", "x://-rf", "x://%url", "ssh://;rm", "HTTP://EX.EXAMPLE/"})
			g.expect(h, h)
			parts = append(parts, h)
		case 2:
			parts = append(parts, pick(r, []string{"mailto:a@b.example", "://none", "http:/one", "1x://digit", "-rf", "%url"}))
		}
	}
	return strings.Join(parts, pick(r, []string{" ", "\n", " , "}))
}

/*
	An attachment whose label cannot be computed (a name of the wrong type, neither a name nor a
	usable link) is shown as an error — with its number, like every other attachment (repaired
	in the code: it used to be shown without one while the next attachment skipped that number).
	Such entries are generated and the count of the numbers is judged on them.
*/

func (g *wholeGen) attachment() any {
	r := g.r
	l, t := g.fresh()
	kind := pick(r, []string{"Link", "Link", "Image", "Audio", "Video", "Document"})
	key := "url"
	if kind == "Link" {
		key = "href"
	}
	a := map[string]any{"type": kind}
	raw := t
	if r.Intn(4) == 0 {
		raw = pick(r, hostileLinks)
	}
	parsed, perr := url.Parse(ansi.Scrub(raw))
	usable := perr == nil && ansi.Scrub(raw) != ""
	switch weighted(r, 10, 1, 1) {
	case 0:
		a[key] = raw
	case 1: // under the other kind's key: no link at all
		usable = false
		a[map[string]string{"url": "href", "href": "url"}[key]] = raw
	case 2:
		usable = false
	}
	switch weighted(r, 8, 3, 1, 1) {
	case 0:
		a["name"] = l
		if usable {
			g.expect(l, parsed.String())
		} else {
			/* numbered, but the number opens nothing */
		}
	case 1: // no name: the link is shown
		if usable {
			g.expect(parsed.String(), parsed.String())
		} else {
			/* neither a name nor a link: an error line, numbered */
		}
		if r.Intn(2) == 0 {
			a["name"] = pick(r, []any{"", nil, "\x1b\x07"})
		}
	case 2:
		a["name"] = pick(r, []any{7, true, []any{"n"}, map[string]any{}})
	case 3:
		a["name"] = l + " " + pick(r, []string{"x²", "\x1b[2J", "\u009b", "a\nb"})
		g.clean, g.supers = false, true
	}
	if r.Intn(2) == 0 {
		a["mediaType"] = pick(r, mediaTypePool)
	}
	return a
}

var mediaTypePool = []any{"image/png", "image/jpeg", "video/mp4", "audio/ogg", "text/html", "application/pdf", "image/*", "*/*",
	/* parameters, letter case, structured suffixes, more than one slash */
	"image/png; q=1", "text/html;charset=utf-8", "IMAGE/PNG", "Image/PNG", "image/PNG", "Video/Mp4", "Audio/OGG; codecs=Opus", "TEXT/html", "Image/*", "image/svg+xml", "application/ld+json; profile=\"https://www.w3.org/ns/activitystreams\"", "image/png/extra", "a/b/c", "x-y.z/v1+w",
	/* no media type at all */
	"nonsense", "", "/", "image/", "/png", " image/png", "image /png", "image/ png", "image/png\n", "\nimage/png", 5, nil, true, []any{"image/png"},
	/* placeholders and control characters inside one */
	"%url/%subtype", "%mimetype/x", "%supertype/%subtype", "\x1b[2J/\x07", "image/p\u009bng", "image/png\x00"}

func genWhole(r *rand.Rand, n int, linksOnly bool, emit func(Op)) {
	args := []string{"%url", "%url", "%mimetype", "%subtype", "%supertype", "--", "x%url", "%mimetype;q", "--title=%subtype", "%supertype/%subtype", "%url%url", "--url=%url", "%url", "%mimetype", "%subtype", "%supertype"}
	for i := 0; i < n; i++ {
		g := &wholeGen{r: r, clean: true}
		doc := map[string]any{}
		as := "post"
		bodyKey := "content"
		if r.Intn(4) == 0 {
			as, bodyKey = "actor", "summary"
			doc["type"] = pick(r, []string{"Person", "Person", "Group", "Service", "Application", "Organization"})
			doc["name"] = "Somebody"
			if r.Intn(2) == 0 {
				doc["icon"] = genLinkList(r, false)
			}
			if r.Intn(2) == 0 {
				doc["image"] = genLinkList(r, false)
			}
		} else {
			doc["type"] = pick(r, []string{"Note", "Note", "Article", "Page", "Document", "Image", "Audio", "Video"})
			if r.Intn(2) == 0 {
				doc["name"] = "A title " + g.filler()
			}
			if r.Intn(3) == 0 {
				doc["url"] = genLinkList(r, true)
			}
			if r.Intn(6) == 0 {
				doc["published"] = pick(r, []string{"2024-01-02T03:04:05Z", "yesterday"})
			}
		}
		switch weighted(r, 5, 3, 2, 2, 1) {
		case 0:
			doc[bodyKey] = g.htmlBody()
			if r.Intn(2) == 0 {
				doc["mediaType"] = pick(r, []string{"text/html", "text/html; charset=utf-8", "text/html;x"})
			}
		case 1:
			doc[bodyKey], doc["mediaType"] = g.markdownBody(), "text/markdown"
		case 2:
			doc[bodyKey], doc["mediaType"] = g.gemtextBody(), "text/gemini"
		case 3:
			doc[bodyKey], doc["mediaType"] = g.plainBody(), "text/plain"
		case 4:
			/* no body, or one that cannot be shown: attachments are numbered from 1 */
			if r.Intn(2) == 0 {
				doc[bodyKey], doc["mediaType"] = g.htmlBody(), pick(r, []string{"application/json", "TEXT/HTML", "nonsense"})
				g.labels = nil
			}
		}
		if as == "post" && r.Intn(3) != 0 {
			atts := []any{}
			for k := 1 + r.Intn(4); k > 0; k-- {
				atts = append(atts, g.attachment())
			}
			switch r.Intn(12) {
			case 0: // one entry that is no link spoils the list: nothing is numbered
				atts = append(atts, pick(r, []any{"https://t.example/bare", 5, map[string]any{"type": "Note"}, nil}))
				g.clean = false
			case 1: // a single object instead of a list
				if len(atts) == 1 {
					doc["attachment"] = atts[0]
					atts = nil
				}
			}
			if atts != nil {
				doc["attachment"] = atts
			}
		}
		op := Op{"op": "media", "whole": true, "as": as}
		if r.Intn(6) == 0 {
			op["wrap"] = pick(r, []string{"Create", "Announce", "Like", "Dislike"})
		}
		/* the numbers: every one from 0 to two past the last, in some order, one of them again */
		total := g.n + 2
		if total > 14 {
			total = 14
		}
		steps := []any{}
		ui := r.Intn(2) == 0
		for k := 0; k <= total; k++ {
			if r.Intn(3) != 0 {
				steps = append(steps, []any{"select", k})
			}
		}
		if g.n > 14 {
			steps = append(steps, []any{"select", g.n}, []any{"select", g.n/2 + 1}, []any{"select", 100}, []any{"select", 99}, []any{"select", 101})
		}
		if !ui {
			steps = append(steps, []any{"select", pick(r, []int{-1, -2, -1 << 31, -1 << 63, 1 << 31, 1<<63 - 1})})
		}
		steps = append(steps, []any{"type", pick(r, []string{"01", "007", "010", "08", "09", "0012", "00", "0000000000000000000001", "99999999999999999999", "9223372036854775807", "9223372036854775808", "18446744073709551617", "2", "10"})})
		steps = append(steps, []any{pick(r, []string{"media", "pfp", "banner"})})
		r.Shuffle(len(steps), func(a, b int) { steps[a], steps[b] = steps[b], steps[a] })
		if len(steps) > 0 {
			steps = append(steps, steps[r.Intn(len(steps))])
		}
		if ui {
			op["via"] = "ui"
			op["uiw"] = pick(r, []int{80, 80, 40, 20, 9, 200})
		}
		hook := []any{"verifdump", "%url"}
		if !linksOnly {
			hook = []any{pick(r, []string{"verifdump", "verifdump", "verifdump", "%url", "%mimetype"})}
			for k := 1 + r.Intn(4); k > 0; k-- {
				hook = append(hook, pick(r, args))
			}
			if r.Intn(4) == 0 {
				op["absprog"] = true
			}
		} else if !ui {
			op["links_only"] = true
		}
		widths := []any{pick(r, []int{80, 84, 120, 200, 40}), pick(r, []int{24, 30, 16, 12, 8, 3, 60})}
		b, _ := json.Marshal(doc)
		/* labels describe this very document: they mean nothing once the text has been cut */
		op["doclen"] = len([]rune(string(b)))
		op["doc"], op["hook"], op["steps"], op["widths"], op["labels"], op["checknumbers"] = string(b), hook, steps, widths, g.labels, g.clean
		if g.supers {
			op["labels"] = []any{}
			op["supers"] = true
		}
		emit(op)
	}
}
