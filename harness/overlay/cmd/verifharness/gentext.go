//go:build verif

package main

import (
	"math/rand"
	"strings"
)

/* Generators of styled text shared by several groups. */

var sgrPool = []string{"1", "3", "4", "9", "38;2;164;245;155", "48;2;75;75;75", "38;2;156;53;53", "48;2;13;125;0"}

var visiblePool = []rune("abcdefghijklmnopqrstuvwxyzABCXYZ0123456789.,;:!?-_/()[]<>&#\"'éßλж漢字😀¹²³⁰▌•‣⯁…m[\u0301\u0308\u20d7\u200d")

var spacePool = []rune{' ', ' ', ' ', ' ', ' ', ' ', ' ', ' ', '\u3000', '\t', '\u0085', '\r', '\v', '\f', '\u00a0', '\u2003'}

type cell struct {
	attrs []string
	ch    rune
}

func renderCells(cells []cell) string {
	var b strings.Builder
	for _, c := range cells {
		if c.ch == '\n' || len(c.attrs) == 0 {
			b.WriteRune(c.ch)
			continue
		}
		for _, a := range c.attrs {
			b.WriteString("\x1b[" + a + "m")
		}
		b.WriteRune(c.ch)
		b.WriteString("\x1b[0m")
	}
	return b.String()
}

/*
genCells: words, runs of spaces and newlines; styling changes at random points
(nested: a stack of attributes that is pushed and popped).
*/
func genCells(r *rand.Rand, maxTokens int) []cell {
	cells := []cell{}
	stack := []string{}
	n := r.Intn(maxTokens + 1)
	plainSpaces := r.Intn(3) != 0
	for i := 0; i < n; i++ {
		switch weighted(r, 2, 2, 6) {
		case 0:
			if len(stack) < 4 {
				stack = append(stack, pick(r, sgrPool))
			}
		case 1:
			if len(stack) > 0 {
				stack = stack[:len(stack)-1]
			}
		}
		attrs := append([]string{}, stack...)
		switch weighted(r, 10, 6, 2, 1) {
		case 0: // word
			l := 1 + r.Intn(8)
			if r.Intn(8) == 0 {
				l = 10 + r.Intn(30)
			}
			for k := 0; k < l; k++ {
				cells = append(cells, cell{attrs, pick(r, visiblePool)})
			}
		case 1: // spaces
			l := 1
			if r.Intn(3) == 0 {
				l = 1 + r.Intn(5)
			}
			for k := 0; k < l; k++ {
				ch := ' '
				if !plainSpaces {
					ch = pick(r, spacePool)
				}
				cells = append(cells, cell{attrs, ch})
			}
		case 2: // newline(s)
			l := 1
			if r.Intn(3) == 0 {
				l = 1 + r.Intn(3)
			}
			for k := 0; k < l; k++ {
				cells = append(cells, cell{nil, '\n'})
			}
		case 3: // a single odd character
			cells = append(cells, cell{attrs, pick(r, []rune{'m', '[', ';', '0', '\u200b', '\u0301', '\u2060'})})
		}
	}
	return cells
}

func genCanon(r *rand.Rand, maxTokens int) string {
	return renderCells(genCells(r, maxTokens))
}

var hostileAlphabet = []string{"\x1b", "[", "m", "0", "1", ";", "a", " ", "\n", "\x1b[0m", "\x1b[1m", "é", "\x1b[", "\x1b[38;2;1;2;3m"}

func genHostile(r *rand.Rand, maxLen int) string {
	var b strings.Builder
	n := r.Intn(maxLen + 1)
	for i := 0; i < n; i++ {
		b.WriteString(pick(r, hostileAlphabet))
	}
	return b.String()
}

/* text: canonical (true) or hostile */
func genText(r *rand.Rand, maxTokens int) (string, bool) {
	if r.Intn(5) == 0 {
		return genHostile(r, maxTokens*2), false
	}
	return genCanon(r, maxTokens), true
}

func genWidth(r *rand.Rand) int {
	switch weighted(r, 1, 8, 3, 1) {
	case 0:
		return -3 + r.Intn(4)
	case 1:
		return 1 + r.Intn(12)
	case 2:
		return 10 + r.Intn(40)
	}
	return 50 + r.Intn(200)
}
