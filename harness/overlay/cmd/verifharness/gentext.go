//go:build verif

package main

import (
	"math/rand"
	"strings"
)

/* Generators of styled text shared by several groups. */

/*
Inputs on which the real code is known to break the property as stated (reported, not repaired)
are kept out of the generated ops; set to true to see them reported.
*/
const genReportedDefects = false

var sgrPool = []string{"1", "3", "4", "9", "38;2;164;245;155", "48;2;75;75;75", "38;2;156;53;53", "48;2;13;125;0"}

var visiblePool = []rune("abcdefghijklmnopqrstuvwxyzABCXYZ0123456789.,;:!?-_/()[]<>&#\"'éßλж漢字😀¹²³⁰▌•‣⯁…m[\u0301\u0308\u20d7\u200d")

var spacePool = []rune{' ', ' ', ' ', ' ', ' ', ' ', ' ', ' ', '\u3000', '\t', '\u0085', '\r', '\v', '\f', '\u00a0', '\u2003',
	/* the rest of unicode.IsSpace */
	'\u1680', '\u2000', '\u2001', '\u2002', '\u2004', '\u2005', '\u2006', '\u2007', '\u2008', '\u2009', '\u200a', '\u2028', '\u2029', '\u202f', '\u205f'}

/*
characters that look like blanks or have no width of their own but are NOT unicode.IsSpace:
they belong to the word they stand in
*/
var nonSpacePool = []rune{'\u200b', '\u200c', '\u200d', '\u2060', '\ufeff', '\u180e', '\u00ad', '\u034f', '\u2800', '\u3164', '\u0301', '\u0308', '\u20d7', '\ufe0f', '\U000e0100'}

/*
wide (East Asian), emoji with modifiers, and other characters a terminal shows in two columns

	or none: one cell each in servitor's arithmetic
*/
var widePool = []rune("漢字かなカナ한글，。（）😀👍🏽🇩🇪ＡＢ１２")

type cell struct {
	attrs []string
	ch    rune
}

func renderCells(cells []cell) string {
	var b strings.Builder
	for _, c := range cells {
		if c.ch == '\n' || len(c.attrs) == 0 {
			b.WriteRune(c.ch)
			continue
		}
		for _, a := range c.attrs {
			b.WriteString("\x1b[" + a + "m")
		}
		b.WriteRune(c.ch)
		b.WriteString("\x1b[0m")
	}
	return b.String()
}

/*
genCells: words, runs of spaces and newlines; styling changes at random points
(nested: a stack of attributes that is pushed and popped).
*/
func genCells(r *rand.Rand, maxTokens int) []cell {
	cells := []cell{}
	stack := []string{}
	n := r.Intn(maxTokens + 1)
	plainSpaces := r.Intn(3) != 0
	for i := 0; i < n; i++ {
		switch weighted(r, 2, 2, 6) {
		case 0:
			if len(stack) < 4 {
				stack = append(stack, pick(r, sgrPool))
			}
		case 1:
			if len(stack) > 0 {
				stack = stack[:len(stack)-1]
			}
		}
		attrs := append([]string{}, stack...)
		switch weighted(r, 10, 6, 2, 1) {
		case 0: // word
			l := 1 + r.Intn(8)
			if r.Intn(8) == 0 {
				l = 10 + r.Intn(30)
			}
			for k := 0; k < l; k++ {
				cells = append(cells, cell{attrs, pick(r, visiblePool)})
			}
		case 1: // spaces
			l := 1
			if r.Intn(3) == 0 {
				l = 1 + r.Intn(5)
			}
			for k := 0; k < l; k++ {
				ch := ' '
				if !plainSpaces {
					ch = pick(r, spacePool)
				}
				cells = append(cells, cell{attrs, ch})
			}
		case 2: // newline(s)
			l := 1
			if r.Intn(3) == 0 {
				l = 1 + r.Intn(3)
			}
			for k := 0; k < l; k++ {
				cells = append(cells, cell{nil, '\n'})
			}
		case 3: // a single odd character
			if r.Intn(3) == 0 {
				cells = append(cells, cell{attrs, pick(r, nonSpacePool)})
			} else {
				cells = append(cells, cell{attrs, pick(r, []rune{'m', '[', ';', '0', '\u200b', '\u0301', '\u2060'})})
			}
		}
	}
	return cells
}

func genCanon(r *rand.Rand, maxTokens int) string {
	return renderCells(genCells(r, maxTokens))
}

var hostileAlphabet = []string{"\x1b", "[", "m", "0", "1", ";", "a", " ", "\n", "\x1b[0m", "\x1b[1m", "é", "\x1b[", "\x1b[38;2;1;2;3m"}

func genHostile(r *rand.Rand, maxLen int) string {
	var b strings.Builder
	n := r.Intn(maxLen + 1)
	for i := 0; i < n; i++ {
		b.WriteString(pick(r, hostileAlphabet))
	}
	return b.String()
}

/* text: canonical (true) or hostile */
func genText(r *rand.Rand, maxTokens int) (string, bool) {
	if r.Intn(5) == 0 {
		return genHostile(r, maxTokens*2), false
	}
	return genCanon(r, maxTokens), true
}

func genWidth(r *rand.Rand) int {
	switch weighted(r, 1, 8, 3, 1) {
	case 0:
		return -3 + r.Intn(4)
	case 1:
		return 1 + r.Intn(12)
	case 2:
		return 10 + r.Intn(40)
	}
	return 50 + r.Intn(200)
}

/*
a paragraph as a post has it: many ordinary words on few long lines (what wrapping at 80, 120,

	200 columns actually works on), styled in stretches
*/
func genParagraph(r *rand.Rand, words int) string {
	cells := []cell{}
	var attrs []string
	for i := 0; i < words; i++ {
		if r.Intn(12) == 0 {
			attrs = nil
			for k := r.Intn(4); k > 0; k-- {
				attrs = append(attrs, pick(r, sgrPool))
			}
		}
		l := 1 + r.Intn(9)
		if r.Intn(40) == 0 {
			l = 60 + r.Intn(200) // a URL, a hash: longer than a line
		}
		for k := 0; k < l; k++ {
			ch := rune('a' + r.Intn(26))
			if r.Intn(30) == 0 {
				ch = pick(r, visiblePool)
			}
			cells = append(cells, cell{attrs, ch})
		}
		switch weighted(r, 30, 2, 1, 1) {
		case 0:
			cells = append(cells, cell{attrs, ' '})
		case 1:
			cells = append(cells, cell{attrs, ' '}, cell{attrs, ' '})
		case 2:
			cells = append(cells, cell{nil, '\n'})
		case 3:
			cells = append(cells, cell{attrs, pick(r, spacePool)})
		}
	}
	return renderCells(cells)
}

/*
a line whose interesting character sits right where a line of width w ends: position w-1, w

	or w+1 (0-based), surrounded by ordinary words
*/
func genAtBreak(r *rand.Rand, w int) string {
	special := pick(r, [][]rune{widePool, nonSpacePool, spacePool, []rune("\n"), []rune("-/.,")})
	pos := w + r.Intn(3) - 1
	if pos < 0 {
		pos = 0
	}
	cells := []cell{}
	var attrs []string
	if r.Intn(3) == 0 {
		attrs = []string{pick(r, sgrPool)}
	}
	total := pos + 1 + r.Intn(2*w+3)
	spaceEvery := 2 + r.Intn(9)
	for i := 0; i < total; i++ {
		ch := rune('a' + i%26)
		if i%spaceEvery == spaceEvery-1 && r.Intn(4) != 0 {
			ch = ' '
		}
		if i == pos || (i > pos && i-pos <= 2 && r.Intn(3) == 0) {
			ch = pick(r, special)
		}
		a := attrs
		if ch == '\n' {
			a = nil
		}
		cells = append(cells, cell{a, ch})
	}
	return renderCells(cells)
}

/* visible length of every line of canonical text (cells per line) */
func lineLengths(s string) []int {
	out := []int{}
	for _, l := range strings.Split(s, "\n") {
		n := 0
		inEsc := false
		for _, c := range l {
			if inEsc {
				if c == 'm' {
					inEsc = false
				}
				continue
			}
			if c == '\x1b' {
				inEsc = true
				continue
			}
			n++
		}
		out = append(out, n)
	}
	return out
}
