//go:build verif

package main

import (
	"encoding/json"
	"fmt"
	"math/rand"
	"net/url"
	"regexp"
	"servitor/jtp"
	"servitor/object"
	"servitor/pub"
	"servitor/splicer"
	"strings"
	"sync"
	"time"
)

var sgrRe = regexp.MustCompile("\x1b\\[[0-9;]*m")

func stripSGR(s string) string { return sgrRe.ReplaceAllString(s, "") }

/* item constructor that only tags: string elements keep their text */
func tagging(input any, source *url.URL) pub.Tangible {
	if s, ok := input.(string); ok {
		return &fakeItem{label: s}
	}
	return &fakeItem{label: "<other>"}
}

func tagOf(t pub.Tangible) any {
	if f, ok := t.(*fakeItem); ok {
		return f.label
	}
	if p, ok := t.(*pub.Post); ok {
		/* a served note carries its label as its name */
		return stripSGR(p.Name())
	}
	if _, ok := t.(*pub.Failure); ok {
		if strings.Contains(stripSGR(t.Name()), "refusing to read") {
			return map[string]any{"fail": "refuse"}
		}
		return map[string]any{"fail": "error"}
	}
	return map[string]any{"fail": "?"}
}

/* the sources of a splice op as OrderedCollections of inline notes on the simulator's hosts */
func splicerOverNetwork(op Op) pub.Container {
	sm := startSimulator()
	routes := []any{}
	inputs := []string{}
	for k, src := range L(op, "sources") {
		notes := []any{}
		for _, it := range src.([]any) {
			p := it.([]any)
			note := map[string]any{"type": "Note", "name": p[0].(string), "content": "x", "mediaType": "text/plain"}
			if p[1] != nil {
				nsec := 0
				if len(p) > 2 {
					nsec = I(Op{"v": p[2]}, "v")
				}
				ts := time.Unix(spliceBase+int64(I(Op{"v": p[1]}, "v")), int64(nsec)).UTC()
				if len(p) > 3 {
					ts = ts.In(time.FixedZone("z", 60*I(Op{"v": p[3]}, "v")))
				}
				note["published"] = ts.Format(time.RFC3339Nano)
			}
			notes = append(notes, note)
		}
		h := k % simHosts
		doc, _ := json.Marshal(map[string]any{"type": "OrderedCollection", "id": fmt.Sprintf("https://{H%d}/{OP}/src%d", h, k), "orderedItems": notes})
		routes = append(routes, map[string]any{"h": h, "path": fmt.Sprintf("/{OP}/src%d", k), "resp": "HTTP/1.0 200 OK\r\nContent-Type: application/activity+json\r\n\r\n" + string(doc), "fault": ""})
		inputs = append(inputs, fmt.Sprintf("https://{H%d}/{OP}/src%d", h, k))
	}
	op["routes"] = routes
	_, opid := installWorld(op)
	jtp.VerifCachePurge()
	for k := range inputs {
		inputs[k] = substitute(inputs[k], sm.hosts, opid)
	}
	sp := splicer.NewSplicer(inputs)
	sm.takeLog()
	delete(op, "routes")
	return sp
}

/* a synthetic pub.Container over a fixed item list, delivering exactly what is asked */
type fakeContainer struct {
	items []pub.Tangible
	delay time.Duration // a source that takes a moment, so that concurrent askers overlap
}

func (c *fakeContainer) Harvest(quantity uint, startingAt uint) ([]pub.Tangible, pub.Container, uint) {
	if c.delay > 0 {
		time.Sleep(c.delay)
	}
	n := uint(len(c.items))
	if startingAt >= n {
		return []pub.Tangible{}, nil, 0
	}
	end := startingAt + quantity
	if end >= n {
		return c.items[startingAt:], nil, 0
	}
	return c.items[startingAt:end], c, end
}

/* 2020-01-01T00:00:00Z: the instant the splice ops count seconds from */
const spliceBase = int64(1577836800)

/*
a synthetic source that is itself paged, the way a pub.Collection is: every page is a container of
its own, a request that runs past a page continues on the next one at offset 0, and the
continuation names the page the delivery stopped in.  Exact delivery, like every real container.
*/
type pagedContainer struct {
	items []pub.Tangible
	next  *pagedContainer
	delay time.Duration
}

func newPagedContainer(items []pub.Tangible, pageSize int, delay time.Duration) *pagedContainer {
	head := &pagedContainer{delay: delay}
	cur := head
	for len(items) > pageSize {
		cur.items = items[:pageSize]
		cur.next = &pagedContainer{delay: delay}
		cur = cur.next
		items = items[pageSize:]
		if pageSize > 1 {
			pageSize--
		} else {
			pageSize = 3
		}
	}
	cur.items = items
	return head
}

func (c *pagedContainer) Harvest(quantity uint, startingAt uint) ([]pub.Tangible, pub.Container, uint) {
	if c.delay > 0 {
		time.Sleep(c.delay)
	}
	out := []pub.Tangible{}
	for c != nil {
		n := uint(len(c.items))
		if startingAt < n {
			end := startingAt + quantity
			if end < n {
				return append(out, c.items[startingAt:end]...), c, end
			}
			out = append(out, c.items[startingAt:]...)
			quantity -= n - startingAt
		}
		startingAt = 0
		c = c.next
	}
	return out, nil, 0
}

func init() {
	execs["paging"] = func(op Op) any {
		var doc map[string]any
		if err := json.Unmarshal([]byte(S(op, "root")), &doc); err != nil {
			return map[string]any{"baddoc": err.Error()}
		}
		op["tree"] = tree(doc)
		var c *pub.Collection
		var err error
		if via := S(op, "via"); via != "" {
			/* reached the way the program reaches it: as the value of a key of its owner (an actor's
			   outbox, a post's replies), inline */
			c, err = pub.VerifGetCollection(object.Object{"type": "Person", "id": "https://owner.example/u", via: doc}, via, nil, tagging)
		} else {
			c, err = pub.NewCollectionFromObject(object.Object(doc), nil, tagging)
		}
		if err != nil {
			return map[string]any{"notcollection": true}
		}
		/* a script of steps [kind, amount, k?]: "h" asks the latest continuation and advances,
		   "again" asks it without advancing, "old" asks the k-th continuation handed out so far
		   (0 = the collection at the start offset) after newer ones exist.  A plain list of
		   amounts ("requests") is a script of "h" steps. */
		script := L(op, "script")
		if script == nil {
			for _, q := range L(op, "requests") {
				script = append(script, []any{"h", q})
			}
		}
		type position struct {
			c   pub.Container
			off uint
		}
		conts := []position{{c, uint(I(op, "start"))}}
		out := []any{}
		for _, raw := range script {
			step := raw.([]any)
			from := conts[len(conts)-1]
			if step[0].(string) == "old" {
				from = conts[I(Op{"v": step[2]}, "v")%len(conts)]
			}
			items, next, nextOff := from.c.Harvest(uint(I(Op{"v": step[1]}, "v")), from.off)
			tags := make([]any, len(items))
			for i, it := range items {
				tags[i] = tagOf(it)
			}
			out = append(out, []any{tags, next == nil, int(nextOff)})
			if step[0].(string) == "h" {
				if next == nil {
					break
				}
				conts = append(conts, position{next, nextOff})
			}
		}
		return out
	}
	execs["splice"] = func(op Op) any {
		/* an item is [label, seconds, nanoseconds?, zone minutes?] relative to 2020-01-01T00:00:00Z,
		   or [label, null] for the zero time; the same label twice is the same item (one
		   pointer) present in two places */
		shared := map[string]*fakeItem{}
		pages := []pub.Container{}
		paged := I(op, "paged") == 1
		for _, src := range L(op, "sources") {
			items := []pub.Tangible{}
			for _, it := range src.([]any) {
				p := it.([]any)
				lbl := p[0].(string)
				if strings.HasPrefix(lbl, "dup") {
					if f, ok := shared[lbl]; ok {
						items = append(items, f)
						continue
					}
				}
				ts := time.Time{}
				if p[1] != nil {
					nsec := 0
					if len(p) > 2 {
						nsec = I(Op{"v": p[2]}, "v")
					}
					ts = time.Unix(spliceBase+int64(I(Op{"v": p[1]}, "v")), int64(nsec)).UTC()
					if len(p) > 3 {
						ts = ts.In(time.FixedZone("z", 60*I(Op{"v": p[3]}, "v")))
					}
				}
				f := &fakeItem{label: lbl, ts: ts}
				shared[lbl] = f
				items = append(items, f)
			}
			delay := time.Duration(I(op, "delay_us")) * time.Microsecond
			if len(items) == 0 && I(op, "nilempty") == 1 {
				pages = append(pages, nil)
			} else if paged {
				pages = append(pages, newPagedContainer(items, 1+len(pages)%3, delay))
			} else {
				pages = append(pages, &fakeContainer{items: items, delay: delay})
			}
		}
		s := splicer.VerifNew(pages)
		var cont pub.Container = s
		if I(op, "net") == 1 {
			/* the same sources as collections served over the simulator, the feed built by the
			   program's own constructor (NewSplicer: one fetch per configured source) */
			cont = splicerOverNetwork(op)
		}
		/* every continuation the feed has handed out so far (0 = the feed as built): an "old"
		   step asks one of them again after newer ones exist */
		conts := []pub.Container{cont}
		out := []any{}
		for _, raw := range L(op, "script") {
			step := raw.([]any)
			q := uint(I(Op{"v": step[1]}, "v"))
			st := uint(I(Op{"v": step[2]}, "v"))
			from := cont
			if step[0].(string) == "old" {
				from = conts[I(Op{"v": step[3]}, "v")%len(conts)]
			}
			var items []pub.Tangible
			var next pub.Container
			var tags []any
			if step[0].(string) != "par" {
				items, next, _ = from.Harvest(q, st)
				tags = make([]any, len(items))
				for i, it := range items {
					tags[i] = tagOf(it)
				}
			} else {
				/* the same position asked by four callers at the same time, nobody having asked
				   before: a container is a value, every asker gets the answer a lone asker gets */
				var wg sync.WaitGroup
				results := make([]string, 4)
				var first sync.Once
				for g := 0; g < 4; g++ {
					g := g
					wg.Add(1)
					go func() {
						defer wg.Done()
						its, nx, _ := cont.Harvest(q, st)
						ts := make([]any, len(its))
						for i, it := range its {
							ts[i] = tagOf(it)
						}
						b, _ := json.Marshal([]any{ts, nx == nil})
						results[g] = string(b)
						if g == 0 {
							first.Do(func() { items, next, tags = its, nx, ts })
						}
					}()
				}
				wg.Wait()
				for _, r := range results[1:] {
					if r != results[0] {
						tags = []any{"DIVERGED", results[0], r}
					}
				}
			}
			out = append(out, []any{tags, next == nil})
			if step[0].(string) == "h" {
				if next == nil {
					break
				}
				cont = next
				conts = append(conts, cont)
			}
		}
		return out
	}
	groups["C10"] = group{gen: genC10}
	groups["C11"] = group{gen: genC11}
}

/*
a page chain as nested embedded objects; returns JSON text and the number of items on the keys
that count.  `layout`, when given, fixes the number of items of the root (first entry) and of every
page: layouts with runs of empty pages of an exact length.
*/
func genChain(r *rand.Rand, tag *int, layout []int) (string, int) {
	ordered := r.Intn(2) == 0
	kindRoot, kindPage, itemsKey, otherKey := "Collection", "CollectionPage", "items", "orderedItems"
	if ordered {
		kindRoot, kindPage, itemsKey, otherKey = "OrderedCollection", "OrderedCollectionPage", "orderedItems", "items"
	}
	npages := r.Intn(9)
	if r.Intn(6) == 0 {
		npages = 8 + r.Intn(10)
	}
	if layout != nil {
		npages = len(layout) - 1
	}
	emptyBias := r.Intn(4)
	count := 0
	genItems := func(fixed int) string {
		n := 0
		if r.Intn(4) >= emptyBias || r.Intn(3) == 0 {
			n = r.Intn(5)
		}
		if r.Intn(emptyBias+2) > 1 {
			n = 0
		}
		if fixed >= 0 {
			n = fixed
		}
		parts := []string{}
		for i := 0; i < n; i++ {
			*tag++
			if r.Intn(25) == 0 {
				parts = append(parts, pick(r, []string{"5", "null", "{}", "[\"x\"]"}))
			} else {
				parts = append(parts, fmt.Sprintf("\"t%d\"", *tag))
			}
		}
		count += n
		/* the key of the other flavour, which this kind of collection does not read */
		decoy := ""
		if r.Intn(6) == 0 {
			*tag++
			decoy = fmt.Sprintf(",%q:%s", otherKey, pick(r, []string{fmt.Sprintf("[\"x%d\",\"y%d\"]", *tag, *tag), "[]", fmt.Sprintf("\"x%d\"", *tag), "{\"a\":1}"}))
		}
		switch weighted(r, 12, 2, 1, 1) {
		case 1:
			if n == 0 {
				return strings.TrimPrefix(decoy, ",") // key absent
			}
		case 2:
			if n == 1 {
				return fmt.Sprintf("%q:%s", itemsKey, parts[0]) + decoy // single value promoted to a list
			}
		case 3:
			if fixed < 0 {
				count -= n
				return fmt.Sprintf("%q:null", itemsKey) + decoy
			}
		}
		return fmt.Sprintf("%q:[%s]", itemsKey, strings.Join(parts, ",")) + decoy
	}
	fixedAt := func(i int) int {
		if layout == nil {
			return -1
		}
		return layout[i]
	}
	/* build from the last page backwards */
	next := ""
	switch weighted(r, 10, 1, 1, 1, 1) {
	case 1:
		next = "\"http://plaintext.example/page\"" // not https: fails without touching the network
	case 2:
		next = "5"
	case 3:
		next = "{\"type\":\"Note\"}"
	case 4:
		next = "{\"type\":\"CollectionPage\",\"id\":7}"
	}
	for i := npages - 1; i >= 0; i-- {
		fields := []string{fmt.Sprintf("\"type\":%q", kindPage)}
		if it := genItems(fixedAt(i + 1)); it != "" {
			fields = append(fields, it)
		}
		if next != "" {
			fields = append(fields, "\"next\":"+next)
		}
		if r.Intn(6) == 0 {
			/* a page may say where its collection starts (a CollectionPage is a Collection);
			   that is not where the page continues. Also a root may carry a stray `next`. */
			*tag++
			fields = append(fields, fmt.Sprintf("\"first\":{\"type\":%q,%q:[\"f%d\"]}", kindPage, itemsKey, *tag))
			if r.Intn(3) == 0 {
				fields = append(fields, "\"partOf\":\"https://plaintext.example/root\"", "\"prev\":{\"type\":\"CollectionPage\"}")
			}
		}
		if r.Intn(8) == 0 {
			/* what a page says about the size of the collection is not what it holds */
			fields = append(fields, "\"totalItems\":"+pick(r, []string{"0", "1", "1000000", "-1", "\"7\"", "1.5", "null"}))
		}
		if r.Intn(30) == 0 && layout == nil {
			fields[0] = fmt.Sprintf("\"type\":%q", pick(r, []string{"Collection", "OrderedCollection", "OrderedCollectionPage", "CollectionPage"}))
		}
		next = "{" + strings.Join(fields, ",") + "}"
	}
	fields := []string{fmt.Sprintf("\"type\":%q", kindRoot)}
	/* a root says how many items it has, or does not (the bare {type, items, first} and
	   {type, first} shapes included) */
	if r.Intn(3) != 0 {
		fields = append(fields, "\"totalItems\":"+pick(r, []string{"3", "3", "0", "1", "1000000", "-1", "\"7\"", "1.5", "null", "18446744073709551616"}))
	}
	if r.Intn(3) == 0 || layout != nil {
		if it := genItems(fixedAt(0)); it != "" {
			fields = append(fields, it)
		}
	}
	if next != "" {
		fields = append(fields, "\"first\":"+next)
	}
	if r.Intn(8) == 0 {
		*tag++
		fields = append(fields, fmt.Sprintf("\"next\":{\"type\":%q,%q:[\"n%d\"]}", kindPage, itemsKey, *tag))
	}
	return "{" + strings.Join(fields, ",") + "}", count
}

/* page sizes with runs of exactly two, three or four empty pages between full ones, the root counting */
func genEmptyRunLayout(r *rand.Rand) []int {
	layout := []int{pick(r, []int{0, 0, 2})}
	for len(layout) < 4+r.Intn(12) {
		run := pick(r, []int{2, 3, 3, 4, 3, 1})
		if len(layout) == 1 && layout[0] == 0 {
			run-- // the root is the first empty page of the run
		}
		for k := 0; k < run; k++ {
			layout = append(layout, 0)
		}
		layout = append(layout, 1+r.Intn(3))
	}
	return layout
}

/* the paging scripts judged by their predicates alone (properties about returning normally) */
func init() {
	groups["C10P"] = group{gen: func(r *rand.Rand, n int, emit func(Op)) {
		genC10(r, n, func(op Op) {
			op["predicate_only"] = true
			emit(op)
		})
	}}
}

func genC10(r *rand.Rand, n int, emit func(Op)) {
	for i := 0; i < n; i++ {
		tag := 0
		var layout []int
		if r.Intn(6) == 0 {
			layout = genEmptyRunLayout(r)
		}
		root, total := genChain(r, &tag, layout)
		reqs := []any{}
		switch weighted(r, 3, 3, 2, 2) {
		case 0:
			reqs = append(reqs, 1+r.Intn(40))
		case 1:
			k := 1 + r.Intn(3)
			for j := 0; j < 30; j++ {
				reqs = append(reqs, k)
			}
		case 2:
			for j := 0; j < 12; j++ {
				reqs = append(reqs, r.Intn(7))
			}
		case 3:
			/* amounts around the size of the whole chain, and the smallest ones */
			for j := 0; j < 1+r.Intn(4); j++ {
				reqs = append(reqs, pick(r, []int{0, 1, total, total + 1, total - 1, total / 2, total - total/2, 2 * total}))
			}
		}
		start := 0
		if r.Intn(5) == 0 {
			start = r.Intn(6)
		}
		op := Op{"op": "paging", "root": root, "start": start}
		if r.Intn(3) == 0 {
			op["via"] = pick(r, []string{"outbox", "replies", "comments"})
		}
		if r.Intn(3) == 0 {
			/* the same continuation asked again, and older continuations asked after newer ones */
			script := []any{}
			hs := 0
			for _, q := range reqs {
				if v, ok := q.(int); ok && v < 0 {
					q = 0
				}
				switch weighted(r, 6, 2, 2) {
				case 1:
					script = append(script, []any{"again", q})
				case 2:
					script = append(script, []any{"old", pick(r, []any{q, 1, 2, 5}), r.Intn(hs + 1)})
				}
				script = append(script, []any{"h", q})
				hs++
			}
			op["script"] = script
		} else {
			for k, q := range reqs {
				if v, ok := q.(int); ok && v < 0 {
					reqs[k] = 0
				}
			}
			op["requests"] = reqs
		}
		emit(op)
	}
}

/* seconds of the zero time.Time (year 1) relative to spliceBase */
const spliceZero = -62135596800 - 1577836800

/*
C11net: feeds built by NewSplicer over served collections where one source is busy (35..70 items,
all newer than the others') and listed before, between or after quiet ones (0..8 items): paged the
way the interface does (6, then 5 at a time), in one request past the busy source, and again
*/
func init() {
	groups["C11net"] = group{gen: func(r *rand.Rand, n int, emit func(Op)) {
		for i := 0; i < n; i++ {
			ns := 2 + r.Intn(3)
			busy := r.Intn(ns)
			sources := []any{}
			total := 0
			for s := 0; s < ns; s++ {
				k := r.Intn(9)
				base := 100
				if s == busy {
					k = 35 + r.Intn(36)
					base = 100000
				}
				items := []any{}
				t := base + r.Intn(50)
				for j := 0; j < k; j++ {
					t -= r.Intn(4)
					items = append(items, []any{fmt.Sprintf("s%d-%d", s, j), t})
				}
				total += k
				sources = append(sources, items)
			}
			script := []any{}
			switch r.Intn(3) {
			case 0:
				script = append(script, []any{"h", 6, 0})
				for j := 0; j < total/5+2; j++ {
					script = append(script, []any{"h", 5, 0})
				}
			case 1:
				script = append(script, []any{"h", 33 + r.Intn(40), 0}, []any{"h", total, 0})
			default:
				script = append(script, []any{"h", 10 + r.Intn(30), r.Intn(5)}, []any{"again", 40, 0}, []any{"h", 7, 0}, []any{"old", 50, 0, 0}, []any{"h", total, 0})
			}
			emit(Op{"op": "splice", "sources": sources, "script": script, "nilempty": 0, "paged": 0, "delay_us": 0, "net": 1})
		}
	}}
}

func genC11(r *rand.Rand, n int, emit func(Op)) {
	for i := 0; i < n; i++ {
		ns := r.Intn(5)
		sources := []any{}
		label := 0
		total := 0
		/* which timestamps this feed draws from */
		class := weighted(r, 6, 2, 2, 2, 1)
		long := -1
		if ns > 0 && r.Intn(8) == 0 {
			long = r.Intn(ns) // one source much longer than the others
		}
		dups := []any{}
		for s := 0; s < ns; s++ {
			k := r.Intn(8)
			if r.Intn(4) == 0 {
				k = 0
			}
			if s == long {
				k = 15 + r.Intn(30)
			}
			items := []any{}
			t := 100 + r.Intn(50)
			sorted := r.Intn(4) != 0
			for j := 0; j < k; j++ {
				label++
				if sorted {
					t -= r.Intn(6) // newest first, with ties
				} else {
					t = r.Intn(150)
				}
				var item []any
				switch class {
				case 0:
					item = []any{fmt.Sprintf("s%d-%d", s, label), t}
				case 1:
					/* differences below one second, and equal instants */
					item = []any{fmt.Sprintf("s%d-%d", s, label), 100 + t/50, pick(r, []int{0, 1, 999999999, 500000000, 1000, 999999000}) * (t % 2)}
				case 2:
					/* the same instants written in different zones (equal instants are ties, whatever
					   the wall clock says) */
					item = []any{fmt.Sprintf("s%d-%d", s, label), 3600 * (t / 10), 0, pick(r, []int{0, 60, -60, 330, -720, 840, 1})}
				case 3:
					/* far past and far future, around and before the zero time */
					item = []any{fmt.Sprintf("s%d-%d", s, label), pick(r, []int{spliceZero, spliceZero - 1, spliceZero + 1, spliceZero - 86400*400, -1577836800, -1577836801, 0, 253402300799 - 1577836800, 4102444800, t}), pick(r, []int{0, 0, 1})}
				default:
					/* every source carries the same few instants */
					item = []any{fmt.Sprintf("s%d-%d", s, label), 100 - j/2}
				}
				if r.Intn(10) == 0 {
					item = []any{item[0], nil} // missing timestamp (zero time)
				}
				if len(dups) > 0 && r.Intn(8) == 0 {
					item = pick(r, dups).([]any) // an item another source lists too
				} else if r.Intn(10) == 0 {
					item[0] = fmt.Sprintf("dup%d", label)
					dups = append(dups, item)
				}
				items = append(items, item)
			}
			total += len(items)
			sources = append(sources, items)
		}
		script := []any{}
		steps := 1 + r.Intn(6)
		hs := 0
		for j := 0; j < steps; j++ {
			kind := "h"
			if r.Intn(4) == 0 {
				kind = "again"
			}
			if r.Intn(6) == 0 {
				kind = "par"
			}
			st := 0
			if r.Intn(5) == 0 {
				st = r.Intn(4)
			}
			q := r.Intn(7)
			switch r.Intn(12) {
			case 0:
				q = total
			case 1:
				q = total + 1
			case 2:
				if total > 0 {
					q = total - 1
				}
			case 3:
				q = r.Intn(total + 2)
			case 4:
				q = 1
			}
			if hs > 0 && r.Intn(6) == 0 {
				/* an older continuation asked again after newer ones exist */
				script = append(script, []any{"old", q, st, r.Intn(hs + 1)})
				continue
			}
			if kind == "h" {
				hs++
			}
			script = append(script, []any{kind, q, st})
		}
		emit(Op{"op": "splice", "sources": sources, "script": script, "nilempty": r.Intn(2), "paged": r.Intn(2), "delay_us": pick(r, []int{0, 0, 300, 1000})})
		if class != 3 && len(dups) == 0 && ns > 0 && r.Intn(4) == 0 {
			/* the same feed once more, its sources served as collections and the feed built by
			   NewSplicer (timestamps a document can carry: not the far past and future class) */
			emit(Op{"op": "splice", "sources": sources, "script": script, "nilempty": 0, "paged": 0, "delay_us": 0, "net": 1})
		}
	}
}
