//go:build verif

package main

import (
	"encoding/json"
	"fmt"
	"math/rand"
	"net/url"
	"regexp"
	"servitor/object"
	"servitor/pub"
	"servitor/splicer"
	"strings"
	"sync"
	"time"
)

var sgrRe = regexp.MustCompile("\x1b\\[[0-9;]*m")

func stripSGR(s string) string { return sgrRe.ReplaceAllString(s, "") }

/* item constructor that only tags: string elements keep their text */
func tagging(input any, source *url.URL) pub.Tangible {
	if s, ok := input.(string); ok {
		return &fakeItem{label: s}
	}
	return &fakeItem{label: "<other>"}
}

func tagOf(t pub.Tangible) any {
	if f, ok := t.(*fakeItem); ok {
		return f.label
	}
	if _, ok := t.(*pub.Failure); ok {
		if strings.Contains(stripSGR(t.Name()), "refusing to read") {
			return map[string]any{"fail": "refuse"}
		}
		return map[string]any{"fail": "error"}
	}
	return map[string]any{"fail": "?"}
}

/* a synthetic pub.Container over a fixed item list, delivering exactly what is asked */
type fakeContainer struct {
	items []pub.Tangible
	delay time.Duration // a source that takes a moment, so that concurrent askers overlap
}

func (c *fakeContainer) Harvest(quantity uint, startingAt uint) ([]pub.Tangible, pub.Container, uint) {
	if c.delay > 0 {
		time.Sleep(c.delay)
	}
	n := uint(len(c.items))
	if startingAt >= n {
		return []pub.Tangible{}, nil, 0
	}
	end := startingAt + quantity
	if end >= n {
		return c.items[startingAt:], nil, 0
	}
	return c.items[startingAt:end], c, end
}

func init() {
	execs["paging"] = func(op Op) any {
		var doc map[string]any
		if err := json.Unmarshal([]byte(S(op, "root")), &doc); err != nil {
			return map[string]any{"baddoc": err.Error()}
		}
		op["tree"] = tree(doc)
		c, err := pub.NewCollectionFromObject(object.Object(doc), nil, tagging)
		if err != nil {
			return map[string]any{"notcollection": true}
		}
		var cont pub.Container = c
		off := uint(I(op, "start"))
		out := []any{}
		for _, q := range L(op, "requests") {
			items, next, nextOff := cont.Harvest(uint(I(Op{"v": q}, "v")), off)
			tags := make([]any, len(items))
			for i, it := range items {
				tags[i] = tagOf(it)
			}
			out = append(out, []any{tags, next == nil, int(nextOff)})
			if next == nil {
				break
			}
			cont, off = next, nextOff
		}
		return out
	}
	execs["splice"] = func(op Op) any {
		base := time.Date(2020, 1, 1, 0, 0, 0, 0, time.UTC)
		pages := []pub.Container{}
		for _, src := range L(op, "sources") {
			items := []pub.Tangible{}
			for _, it := range src.([]any) {
				p := it.([]any)
				ts := time.Time{}
				if p[1] != nil {
					ts = base.Add(time.Duration(I(Op{"v": p[1]}, "v")) * time.Second)
				}
				items = append(items, &fakeItem{label: p[0].(string), ts: ts})
			}
			if len(items) == 0 && I(op, "nilempty") == 1 {
				pages = append(pages, nil)
			} else {
				pages = append(pages, &fakeContainer{items: items, delay: time.Duration(I(op, "delay_us")) * time.Microsecond})
			}
		}
		s := splicer.VerifNew(pages)
		var cont pub.Container = s
		out := []any{}
		for _, raw := range L(op, "script") {
			step := raw.([]any)
			q := uint(I(Op{"v": step[1]}, "v"))
			st := uint(I(Op{"v": step[2]}, "v"))
			var items []pub.Tangible
			var next pub.Container
			var tags []any
			if step[0].(string) != "par" {
				items, next, _ = cont.Harvest(q, st)
				tags = make([]any, len(items))
				for i, it := range items {
					tags[i] = tagOf(it)
				}
			} else {
				/* the same position asked by four callers at the same time, nobody having asked
				   before: a container is a value, every asker gets the answer a lone asker gets */
				var wg sync.WaitGroup
				results := make([]string, 4)
				var first sync.Once
				for g := 0; g < 4; g++ {
					g := g
					wg.Add(1)
					go func() {
						defer wg.Done()
						its, nx, _ := cont.Harvest(q, st)
						ts := make([]any, len(its))
						for i, it := range its {
							ts[i] = tagOf(it)
						}
						b, _ := json.Marshal([]any{ts, nx == nil})
						results[g] = string(b)
						if g == 0 {
							first.Do(func() { items, next, tags = its, nx, ts })
						}
					}()
				}
				wg.Wait()
				for _, r := range results[1:] {
					if r != results[0] {
						tags = []any{"DIVERGED", results[0], r}
					}
				}
			}
			out = append(out, []any{tags, next == nil})
			if step[0].(string) == "h" {
				if next == nil {
					break
				}
				cont = next
			}
		}
		return out
	}
	groups["C10"] = group{gen: genC10}
	groups["C11"] = group{gen: genC11}
}

/* a page chain as nested embedded objects; returns JSON text */
func genChain(r *rand.Rand, tag *int) string {
	ordered := r.Intn(2) == 0
	kindRoot, kindPage, itemsKey := "Collection", "CollectionPage", "items"
	if ordered {
		kindRoot, kindPage, itemsKey = "OrderedCollection", "OrderedCollectionPage", "orderedItems"
	}
	npages := r.Intn(9)
	if r.Intn(6) == 0 {
		npages = 8 + r.Intn(10)
	}
	emptyBias := r.Intn(4)
	genItems := func() string {
		n := 0
		if r.Intn(4) >= emptyBias || r.Intn(3) == 0 {
			n = r.Intn(5)
		}
		if r.Intn(emptyBias+2) > 1 {
			n = 0
		}
		parts := []string{}
		for i := 0; i < n; i++ {
			*tag++
			if r.Intn(25) == 0 {
				parts = append(parts, pick(r, []string{"5", "null", "{}", "[\"x\"]"}))
			} else {
				parts = append(parts, fmt.Sprintf("\"t%d\"", *tag))
			}
		}
		switch weighted(r, 12, 2, 1, 1) {
		case 1:
			if n == 0 {
				return "" // key absent
			}
		case 2:
			if n == 1 {
				return fmt.Sprintf("%q:%s", itemsKey, parts[0]) // single value promoted to a list
			}
		case 3:
			return fmt.Sprintf("%q:null", itemsKey)
		}
		return fmt.Sprintf("%q:[%s]", itemsKey, strings.Join(parts, ","))
	}
	/* build from the last page backwards */
	next := ""
	switch weighted(r, 10, 1, 1, 1, 1) {
	case 1:
		next = "\"http://plaintext.example/page\"" // not https: fails without touching the network
	case 2:
		next = "5"
	case 3:
		next = "{\"type\":\"Note\"}"
	case 4:
		next = "{\"type\":\"CollectionPage\",\"id\":7}"
	}
	for i := npages - 1; i >= 0; i-- {
		fields := []string{fmt.Sprintf("\"type\":%q", kindPage)}
		if it := genItems(); it != "" {
			fields = append(fields, it)
		}
		if next != "" {
			fields = append(fields, "\"next\":"+next)
		}
		if r.Intn(6) == 0 {
			/* a page may say where its collection starts (a CollectionPage is a Collection);
			   that is not where the page continues. Also a root may carry a stray `next`. */
			*tag++
			fields = append(fields, fmt.Sprintf("\"first\":{\"type\":%q,%q:[\"f%d\"]}", kindPage, itemsKey, *tag))
			if r.Intn(3) == 0 {
				fields = append(fields, "\"partOf\":\"https://plaintext.example/root\"", "\"prev\":{\"type\":\"CollectionPage\"}")
			}
		}
		if r.Intn(30) == 0 {
			fields[0] = fmt.Sprintf("\"type\":%q", pick(r, []string{"Collection", "OrderedCollection", "OrderedCollectionPage", "CollectionPage"}))
		}
		next = "{" + strings.Join(fields, ",") + "}"
	}
	fields := []string{fmt.Sprintf("\"type\":%q", kindRoot), "\"totalItems\":3"}
	if r.Intn(3) == 0 {
		if it := genItems(); it != "" {
			fields = append(fields, it)
		}
	}
	if next != "" {
		fields = append(fields, "\"first\":"+next)
	}
	if r.Intn(8) == 0 {
		*tag++
		fields = append(fields, fmt.Sprintf("\"next\":{\"type\":%q,%q:[\"n%d\"]}", kindPage, itemsKey, *tag))
	}
	return "{" + strings.Join(fields, ",") + "}"
}

func genC10(r *rand.Rand, n int, emit func(Op)) {
	for i := 0; i < n; i++ {
		tag := 0
		root := genChain(r, &tag)
		reqs := []any{}
		switch weighted(r, 3, 3, 2) {
		case 0:
			reqs = append(reqs, 1+r.Intn(40))
		case 1:
			k := 1 + r.Intn(3)
			for j := 0; j < 30; j++ {
				reqs = append(reqs, k)
			}
		case 2:
			for j := 0; j < 12; j++ {
				reqs = append(reqs, r.Intn(7))
			}
		}
		start := 0
		if r.Intn(5) == 0 {
			start = r.Intn(6)
		}
		emit(Op{"op": "paging", "root": root, "requests": reqs, "start": start})
	}
}

func genC11(r *rand.Rand, n int, emit func(Op)) {
	for i := 0; i < n; i++ {
		ns := r.Intn(5)
		sources := []any{}
		label := 0
		for s := 0; s < ns; s++ {
			k := r.Intn(8)
			if r.Intn(4) == 0 {
				k = 0
			}
			items := []any{}
			t := 100 + r.Intn(50)
			sorted := r.Intn(4) != 0
			for j := 0; j < k; j++ {
				label++
				var ts any
				if sorted {
					t -= r.Intn(6) // newest first, with ties
					ts = t
				} else {
					ts = r.Intn(150)
				}
				if r.Intn(10) == 0 {
					ts = nil // missing timestamp (zero time)
				}
				items = append(items, []any{fmt.Sprintf("s%d-%d", s, label), ts})
			}
			sources = append(sources, items)
		}
		script := []any{}
		steps := 1 + r.Intn(6)
		for j := 0; j < steps; j++ {
			kind := "h"
			if r.Intn(4) == 0 {
				kind = "again"
			}
			if r.Intn(6) == 0 {
				kind = "par"
			}
			st := 0
			if r.Intn(5) == 0 {
				st = r.Intn(4)
			}
			script = append(script, []any{kind, r.Intn(7), st})
		}
		emit(Op{"op": "splice", "sources": sources, "script": script, "nilempty": r.Intn(2), "delay_us": pick(r, []int{0, 0, 300, 1000})})
	}
}
