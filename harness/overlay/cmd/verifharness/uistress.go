//go:build verif

package main

import (
	"math/rand"
	"servitor/config"
	"servitor/jtp"
	"servitor/ui"
	"strings"
	"sync"
	"sync/atomic"
	"time"
)

/*
op "uistress": the concurrency stress behind C08.  Keys are delivered the way main.go does it
(one goroutine per byte), a poller keeps resizing, the simulator answers with random latency.
Observed: overlapping frame emissions, frames whose height is not the height the state had when
the frame was drawn, key handlers that never return (watchdog).  Built with -race in the C08
check, so the race detector watches the whole run.
*/
func r0(op Op) *rand.Rand { return rand.New(rand.NewSource(int64(I(op, "seed")) + 7)) }

func init() {
	execs["uistress"] = func(op Op) any {
		sm := startSimulator()
		_, opid := installWorld(op)
		jtp.VerifCachePurge()
		atomic.StoreInt64(&simLatencyMicros, int64(I(op, "latency")))
		defer atomic.StoreInt64(&simLatencyMicros, 0)
		saved := config.Parsed.Media.Hook
		/* a hook that is still running when the next keys arrive */
		config.Parsed.Media.Hook = []string{"sleep", pick(r0(op), []string{"0.002", "0.005", "0.02"})}
		defer func() { config.Parsed.Media.Hook = saved }()
		r := rand.New(rand.NewSource(int64(I(op, "seed"))))
		var inCallback int32
		var overlaps, frames, badHeights int64
		var s *ui.State
		s = ui.NewState(80, 24, func(frame string) {
			if atomic.AddInt32(&inCallback, 1) != 1 {
				atomic.AddInt64(&overlaps, 1)
			}
			if strings.Count(frame, "\n")+1 != s.VerifHeightLocked() {
				atomic.AddInt64(&badHeights, 1)
			}
			atomic.AddInt64(&frames, 1)
			time.Sleep(time.Duration(50+len(frame)%200) * time.Microsecond)
			atomic.AddInt32(&inCallback, -1)
		})
		start := substitute(S(op, "start"), sm.hosts, opid)
		stop := make(chan struct{})
		var pollers sync.WaitGroup
		pollers.Add(1)
		go func() {
			defer pollers.Done()
			sizes := [][2]int{{80, 24}, {100, 40}, {20, 5}, {80, 24}, {120, 2}, {10, 10}}
			i := 0
			for {
				select {
				case <-stop:
					return
				case <-time.After(300 * time.Microsecond):
				}
				i++
				s.SetWidthHeight(sizes[i%len(sizes)][0], sizes[i%len(sizes)][1])
			}
		}()
		go s.Subcommand("open", start)
		time.Sleep(2 * time.Millisecond)
		var wg sync.WaitGroup
		for _, raw := range L(op, "keys") {
			k := substitute(raw.(string), sm.hosts, opid)
			for _, b := range []byte(k) {
				b := b
				wg.Add(1)
				go func() {
					defer wg.Done()
					s.Update(b)
				}()
				if r.Intn(3) == 0 {
					time.Sleep(time.Duration(r.Intn(1500)) * time.Microsecond)
				}
			}
		}
		done := make(chan struct{})
		go func() { wg.Wait(); close(done) }()
		stuck := false
		select {
		case <-done:
		case <-time.After(20 * time.Second):
			stuck = true
		}
		if !stuck {
			waitSettled(s)
		}
		close(stop)
		pollers.Wait()
		sm.takeLog()
		return map[string]any{"overlaps": atomic.LoadInt64(&overlaps), "stuck": stuck, "badheights": atomic.LoadInt64(&badHeights), "frames_emitted": atomic.LoadInt64(&frames) > 0}
	}
	groups["C08"] = group{gen: func(r *rand.Rand, n int, emit func(Op)) {
		/* reuse the UI worlds; the key scripts are denser */
		genUI(r, n, func(op Op) {
			keys := []any{}
			for k := 0; k < 30+r.Intn(60); k++ {
				switch weighted(r, 30, 5, 3, 2) {
				case 3:
					keys = append(keys, ":feed home\r")
				case 0:
					keys = append(keys, pick(r, []string{"j", "j", "k", "k", "g", "h", "l", " ", " ", "c", "r", "a", "o", "p", "b"}))
				case 1:
					keys = append(keys, pick(r, []string{"1.", "2\r", "0\r", "1\x1b", "3\x7f"}))
				case 2:
					keys = append(keys, ":open "+S(op, "start")+"\r")
				}
			}
			emit(Op{"op": "uistress", "routes": op["routes"], "start": op["start"], "keys": keys, "latency": pick(r, []int{0, 200, 2000, 8000}), "seed": r.Intn(1 << 30)})
		})
	}}
}
