//go:build verif

package main

import (
	"fmt"
	"math/rand"
	"runtime"
	"servitor/config"
	"servitor/jtp"
	"servitor/ui"
	"strings"
	"sync"
	"sync/atomic"
	"time"
)

/*
op "uistress": the concurrency stress behind C08.  Keys are delivered the way main.go does it
(one goroutine per byte), a poller keeps resizing, the simulator answers with random latency.
Observed: overlapping frame emissions, frames whose height is not the height the state had when
the frame was drawn, key handlers that never return (watchdog).  Built with -race in the C08
check, so the race detector watches the whole run.
*/
func r0(op Op) *rand.Rand { return rand.New(rand.NewSource(int64(I(op, "seed")) + 7)) }

func init() {
	execs["uistress"] = func(op Op) any {
		sm := startSimulator()
		_, opid := installWorld(op)
		jtp.VerifCachePurge()
		atomic.StoreInt64(&simLatencyMicros, int64(I(op, "latency")))
		defer atomic.StoreInt64(&simLatencyMicros, 0)
		saved := config.Parsed.Media.Hook
		/* a hook that is still running when the next keys arrive */
		config.Parsed.Media.Hook = []string{"sleep", pick(r0(op), []string{"0.002", "0.005", "0.02"})}
		defer func() { config.Parsed.Media.Hook = saved }()
		/* ... or one the op names: exits at once, fails at once, fails with much output, cannot
		   be started at all */
		if hook := L(op, "hook"); len(hook) > 0 {
			config.Parsed.Media.Hook = toStrings(hook)
		}
		/* feeds of this op (when it names any; otherwise the ones the process was configured with):
		   live outboxes and threads, dead addresses, a mixture */
		if fm, ok := op["feeds"].(map[string]any); ok {
			savedFeeds := config.Parsed.Feeds
			feeds := map[string][]string{}
			for name, raw := range fm {
				inputs := []string{}
				for _, u := range raw.([]any) {
					inputs = append(inputs, substitute(u.(string), sm.hosts, opid))
				}
				feeds[name] = inputs
			}
			config.Parsed.Feeds = feeds
			defer func() { config.Parsed.Feeds = savedFeeds }()
		}
		/* latency drawn anew every few hundred microseconds, not once per op */
		flipStop := make(chan struct{})
		flipDone := make(chan struct{})
		if !B(op, "flip") {
			close(flipDone)
		} else {
			fr := rand.New(rand.NewSource(int64(I(op, "seed")) + 11))
			go func() {
				defer close(flipDone)
				for {
					select {
					case <-flipStop:
						return
					case <-time.After(time.Duration(100+fr.Intn(900)) * time.Microsecond):
					}
					atomic.StoreInt64(&simLatencyMicros, int64(pick(fr, []int{0, 0, 100, 500, 3000, 12000, 30000})))
				}
			}()
		}
		defer func() { close(flipStop); <-flipDone }()
		r := rand.New(rand.NewSource(int64(I(op, "seed"))))
		var inCallback int32
		var overlaps, frames, badHeights int64
		var s *ui.State
		s = ui.NewState(80, 24, func(frame string) {
			if atomic.AddInt32(&inCallback, 1) != 1 {
				atomic.AddInt64(&overlaps, 1)
			}
			if strings.Count(frame, "\n")+1 != s.VerifHeightLocked() {
				atomic.AddInt64(&badHeights, 1)
			}
			atomic.AddInt64(&frames, 1)
			time.Sleep(time.Duration(50+len(frame)%200) * time.Microsecond)
			atomic.AddInt32(&inCallback, -1)
		})
		start := substitute(S(op, "start"), sm.hosts, opid)
		stop := make(chan struct{})
		var pollers sync.WaitGroup
		npollers := I(op, "pollers")
		if npollers < 1 {
			npollers = 1
		}
		for p := 0; p < npollers; p++ {
			p := p
			pollers.Add(1)
			go func() {
				defer pollers.Done()
				sizes := [][2]int{{80, 24}, {100, 40}, {20, 5}, {80, 24}, {120, 2}, {10, 10}}
				if npollers > 1 || B(op, "tiny") {
					/* the smallest and a very large terminal too; several pollers disagree about the size */
					sizes = append(sizes, [2]int{5, 3}, [2]int{1, 2}, [2]int{200, 70}, [2]int{3, 2})
				}
				i := p * 3
				for {
					select {
					case <-stop:
						return
					case <-time.After(time.Duration(300+130*p) * time.Microsecond):
					}
					i++
					s.SetWidthHeight(sizes[i%len(sizes)][0], sizes[i%len(sizes)][1])
				}
			}()
		}
		t0 := time.Now()
		startcmd := S(op, "startcmd")
		if startcmd != "feed" {
			startcmd = "open"
		}
		go s.Subcommand(startcmd, start)
		time.Sleep(2 * time.Millisecond)
		var wg sync.WaitGroup
		var handled int64
		for _, raw := range L(op, "keys") {
			k := substitute(raw.(string), sm.hosts, opid)
			for _, b := range []byte(k) {
				b := b
				wg.Add(1)
				go func() {
					defer wg.Done()
					s.Update(b)
					atomic.AddInt64(&handled, 1)
				}()
				switch S(op, "gaps") {
				case "none":
					/* a burst: every key at once */
				case "rare":
					if r.Intn(40) == 0 {
						time.Sleep(time.Duration(r.Intn(20000)) * time.Microsecond)
					}
				default:
					if r.Intn(3) == 0 {
						time.Sleep(time.Duration(r.Intn(1500)) * time.Microsecond)
					}
				}
			}
		}
		done := make(chan struct{})
		go func() { wg.Wait(); close(done) }()
		stuck := false
		/* stuck = no key handler has returned for 20 s (a slow run on a busy machine still makes
		   progress; a deadlock makes none) */
		last, lastAt := int64(-1), time.Now()
	waiting:
		for {
			select {
			case <-done:
				break waiting
			case <-time.After(250 * time.Millisecond):
			}
			if n := atomic.LoadInt64(&handled); n != last {
				last, lastAt = n, time.Now()
			} else if time.Since(lastAt) > 20*time.Second {
				stuck = true
				break waiting
			}
		}
		tKeys := time.Since(t0)
		stacks := ""
		if stuck {
			buf := make([]byte, 1<<20)
			buf = buf[:runtime.Stack(buf, true)]
			if len(buf) > 40000 {
				buf = buf[:40000]
			}
			stacks = string(buf)
		}
		/* the pollers stop first: three of them calling SetWidthHeight every few hundred
		   microseconds keep the mutex handed from one to the next, and a TryLock between them
		   never wins (the program's own poller runs every 25 ms) */
		close(stop)
		if !stuck {
			/* behind a mutex that is never released the pollers wait for ever too */
			pollersDone := make(chan struct{})
			go func() { pollers.Wait(); close(pollersDone) }()
			select {
			case <-pollersDone:
			case <-time.After(75 * time.Second):
				stuck = true
			}
		}
		if !stuck {
			/* never waits for the mutex itself: a goroutine that went away with it must show as
			   a stuck interface, not hang the harness.  A loader may keep the mutex while a slow
			   server answers: that ends with the timeout */
			deadline := time.Now().Add(75 * time.Second)
			for {
				if settled, _, free := s.VerifTrySettledHookHeld(); free && settled {
					break
				}
				if time.Now().After(deadline) {
					if _, _, free := s.VerifTrySettledHookHeld(); !free {
						stuck = true
					}
					break
				}
				time.Sleep(2 * time.Millisecond)
			}
		}
		tSettle := time.Since(t0)
		sm.takeLog()
		if stuck && stacks == "" {
			buf := make([]byte, 1<<20)
			buf = buf[:runtime.Stack(buf, true)]
			if len(buf) > 40000 {
				buf = buf[:40000]
			}
			stacks = string(buf)
		}
		op["phases_ms"] = []any{tKeys.Milliseconds(), tSettle.Milliseconds(), time.Since(t0).Milliseconds()}
		out := map[string]any{"overlaps": atomic.LoadInt64(&overlaps), "stuck": stuck, "badheights": atomic.LoadInt64(&badHeights), "frames_emitted": atomic.LoadInt64(&frames) > 0}
		if stacks != "" {
			/* where everything was when nothing moved any more */
			out["stacks"] = stacks
		}
		return out
	}
	groups["C08"] = group{gen: func(r *rand.Rand, n int, emit func(Op)) {
		/* reuse the UI worlds; the key scripts are denser */
		genUI(r, n, func(op Op) {
			feeds, _ := op["feeds"].(map[string]any)
			if feeds == nil {
				feeds = map[string]any{}
			}
			/* feeds that point at dead addresses (refused at once), alone and next to live ones */
			feeds["dead"] = []any{"https://127.0.0.1:1/a", "https://127.0.0.1:1/b"}
			feeds["halfdead"] = append([]any{"https://127.0.0.1:1/a"}, L(Op(feeds), "home")...)
			feedNames := []string{"home", "home", "mixed", "one", "none", "dead", "halfdead", "unknown"}
			start := S(op, "start")
			startcmd := S(op, "startcmd")
			if startcmd != "feed" {
				startcmd = ""
			} else if _, known := feeds[start]; !known {
				/* an unknown feed ends the program (the mutex stays locked on purpose) */
				start = "home"
			}
			openArg := start
			if startcmd == "feed" {
				openArg = "https://{H0}/{OP}/t0"
			}
			keys := []any{}
			for k := 0; k < 30+r.Intn(60); k++ {
				switch weighted(r, 30, 5, 3, 3, 1) {
				case 3:
					keys = append(keys, ":feed "+pick(r, feedNames)+"\r")
				case 0:
					keys = append(keys, pick(r, []string{"j", "j", "k", "k", "g", "h", "l", " ", " ", "c", "r", "a", "o", "p", "b"}))
				case 1:
					keys = append(keys, pick(r, []string{"1.", "2\r", "0\r", "1\x1b", "3\x7f", "1\r", "10.", "o\x1b", "o1"}))
				case 2:
					keys = append(keys, ":open "+openArg+"\r")
				case 4:
					keys = append(keys, pick(r, []string{":bogus x\r", ":open https://127.0.0.1:1/dead\r", ":\x7f", "\x1b", ":open https://{H1}/{OP}/nothing-here\r"}))
				}
			}
			/* some answers are cut short, reset or dribble in (never silent for long: the stress
			   has its own clock) */
			routes := []any{}
			for _, rt := range L(op, "routes") {
				m := rt.(map[string]any)
				if S(Op(m), "fault") == "" && r.Intn(12) == 0 {
					resp := S(Op(m), "resp")
					c := map[string]any{}
					for k, v := range m {
						c[k] = v
					}
					c["fault"] = pick(r, []string{fmt.Sprintf("cut:%d:eof", r.Intn(len(resp)+1)), fmt.Sprintf("cut:%d:reset", r.Intn(len(resp)+1)), "cut:0:reset", "drip:1000"})
					if c["fault"] == "drip:1000" && len(resp) > 700 {
						c["fault"] = "cut:40:eof"
					}
					routes = append(routes, c)
					continue
				}
				routes = append(routes, rt)
			}
			out := Op{"op": "uistress", "routes": routes, "start": start, "keys": keys, "latency": pick(r, []int{0, 200, 2000, 8000}), "seed": r.Intn(1 << 30),
				"feeds": feeds, "pollers": pick(r, []int{1, 1, 2, 3}), "gaps": pick(r, []string{"third", "third", "none", "rare"}), "flip": r.Intn(3) == 0, "tiny": r.Intn(3) == 0,
				"hook": pick(r, [][]any{{"sleep", "0.002"}, {"sleep", "0.005"}, {"sleep", "0.02"}, {"true"}, {"false"}, {"sh", "-c", "echo boom >&2; exit 1"},
					{"sh", "-c", "head -c 200000 /dev/zero | tr '\\0' 'x'; echo; exit 1"}, {"/nonexistent/viewer", "%url"}, {"sh", "-c", "cat >/dev/null; exit 0"}})}
			if startcmd != "" {
				out["startcmd"] = startcmd
			}
			emit(out)
		})
	}}
}
