//go:build verif

package main

import (
	"encoding/json"
	"fmt"
	"math/rand"
	"net/url"
	"servitor/object"
	"servitor/pub"
	"strings"
)

/* op "pubfuzz": build an item from arbitrary JSON (no network: references point at a closed
   port) and call every method at several widths.  The observations are the strings produced;
   a panic or timeout is caught by the op runner. */

func callAll(t pub.Tangible, widths []int, numbers []int, out map[string]any) {
	strs := []any{}
	heights := []any{}
	for _, w := range widths {
		s := t.String(w)
		p := t.Preview(w)
		strs = append(strs, s, p)
		heights = append(heights, []any{w, strings.Count(p, "\n") + 1})
	}
	strs = append(strs, t.Name())
	_ = t.Timestamp()
	ps, _ := t.Parents(3)
	for _, p := range ps {
		strs = append(strs, p.Name())
	}
	if c := t.Children(); c != nil {
		items, _, _ := c.Harvest(3, 0)
		for _, it := range items {
			strs = append(strs, it.Preview(40))
		}
	}
	selects := []any{}
	for _, k := range numbers {
		link, mt, present := t.SelectLink(k)
		selects = append(selects, []any{k, present, link, mt == nil})
	}
	switch x := t.(type) {
	case *pub.Post:
		link, mt, present := x.Media()
		selects = append(selects, []any{"media", present, link, mt == nil})
		_ = x.Creators()
		_ = x.Recipients()
	case *pub.Actor:
		link, mt, present := x.ProfilePic()
		selects = append(selects, []any{"pfp", present, link, mt == nil})
		link, mt, present = x.Banner()
		selects = append(selects, []any{"banner", present, link, mt == nil})
	case *pub.Activity:
		_ = x.Actor()
		_ = x.Target()
	}
	out["strings"] = strs
	out["selects"] = selects
	out["previewheights"] = heights
}

func init() {
	execs["pubfuzz"] = func(op Op) any {
		var doc map[string]any
		if err := json.Unmarshal([]byte(S(op, "doc")), &doc); err != nil {
			return map[string]any{"baddoc": true}
		}
		widths := []int{}
		for _, w := range L(op, "widths") {
			widths = append(widths, I(Op{"v": w}, "v"))
		}
		numbers := []int{}
		for _, k := range L(op, "numbers") {
			numbers = append(numbers, I(Op{"v": k}, "v"))
		}
		o := object.Object(doc)
		out := map[string]any{}
		/* the id the object was fetched under (what FetchUnknown would hand on), when it has one */
		var id *url.URL
		if raw, ok := doc["id"].(string); ok && B(op, "withid") {
			if u, err := url.Parse(raw); err == nil {
				id = u
			}
		}
		var t pub.Tangible
		switch S(op, "as") {
		case "post":
			p, err := pub.NewPostFromObject(o, id)
			if err != nil {
				t = pub.NewFailure(err)
			} else {
				t = p
			}
		case "actor":
			a, err := pub.NewActorFromObject(o, id)
			if err != nil {
				t = pub.NewFailure(err)
			} else {
				t = a
			}
		case "activity":
			a, err := pub.NewActivityFromObject(o, id)
			if err != nil {
				t = pub.NewFailure(err)
			} else {
				t = a
			}
		default:
			t = pub.NewTangible(doc, nil)
		}
		out["kind"] = fmt.Sprintf("%T", t)
		callAll(t, widths, numbers, out)
		return out
	}
	groups["C06"] = group{gen: genPubFuzz}
}

const deadRef = "https://127.0.0.1:1/closed"

/*
values of kilobytes and lists of hundreds: for the predicate-only ops; the groups whose ops the
list-based Lean model recomputes (present) switch them off while they generate
*/
var fuzzLarge = true

func fuzzValue(r *rand.Rand, g *docGen, key string, depth int) any {
	/* mostly the right shape for the key, sometimes anything */
	if r.Intn(6) == 0 || depth > 3 {
		var v any
		json.Unmarshal([]byte(genJSONValue(r, 1)), &v)
		return v
	}
	link := func() any {
		m := map[string]any{"type": pick(r, []string{"Link", "Image", "Video", "Audio", "Document", "Note"}), "mediaType": pick(r, []string{"image/png", "video/mp4", "text/html", "bogus", ""})}
		if r.Intn(5) != 0 {
			m[pick(r, []string{"href", "url"})] = pick(r, []string{"https://m.example/a.png", "://bad", "", "relative/x", "https://m.example/\x7f", "https://m.example/%1B%5B2J%07.png", "https://m.example/dir/a%C2%9B31mb", "https://m.example/%00%0A%0D?q=%1B", "https://m%C2%9B.example/x"})
		}
		if r.Intn(2) == 0 {
			m["name"] = g.text(3)
		}
		if r.Intn(3) == 0 {
			m["height"] = pick(r, []any{100, -5, 1e300, "tall", 1.5})
			m["width"] = pick(r, []any{100, 0, 18446744073709551615.0, nil})
		}
		return m
	}
	switch key {
	case "type":
		return pick(r, []string{"Note", "Article", "Page", "Video", "Image", "Audio", "Document", "Person", "Group", "Service", "Create", "Announce", "Like", "Dislike", "Tombstone", "Collection", "OrderedCollection", "Link", "Bogus", "",
			/* the rest of the ActivityStreams vocabulary: none of it may reach a code path that only knows four activities */
			"Update", "Delete", "Follow", "Accept", "Reject", "Add", "Remove", "Undo", "Block", "Flag", "Move", "Question", "Event", "Place", "Application", "Organization", "CollectionPage", "OrderedCollectionPage"})
	case "content", "summary":
		switch weighted(r, 4, 2, 2, 2, 1) {
		case 0:
			return g.blocks(0, 3)
		case 1:
			return g.markdownDoc()
		case 2:
			return g.gemtextDoc()
		case 3:
			return g.plainDoc()
		}
		if r.Intn(2) == 0 {
			/* raw control characters where only the parser looks: in tag names and attribute names */
			c := pick(r, []string{"\x1b]0;pwned\x07", "\x0e", "\u009b2J", "\x7f", "\x1b[7m"})
			return "<p>a</p><x" + c + ">inside</x" + c + "> <b" + c + ">bold</b> <div" + c + ">d</div> <a hr" + c + "ef=\"https://t.example/1\">l</a>"
		}
		d := 8 + r.Intn(14)
		return strings.Repeat("<blockquote>", d) + "deep <hr> text" + strings.Repeat("</blockquote>", d)
	case "mediaType":
		return pick(r, []string{"text/html", "text/markdown", "text/gemini", "text/plain", "text/html; charset=utf-8", "application/json", "bogus", ""})
	case "name", "preferredUsername":
		if fuzzLarge && r.Intn(25) == 0 {
			/* a name of kilobytes: one word, or many */
			return strings.Repeat(pick(r, []string{"x", "漢", "name ", "a.b "}), 500+r.Intn(2500))
		}
		return g.text(4)
	case "published", "updated":
		return pick(r, []string{"2024-01-02T03:04:05Z", "2020-05-06T07:08:09+02:00", "yesterday", "", "2999-01-01T00:00:00Z", "0001-01-01T00:00:00Z"})
	case "id":
		return pick(r, []any{nil, "https://h.example/x", "https://h.example/x", "https://127.0.0.1:1/self", "://", 5})
	case "attributedTo", "audience", "actor":
		actor := map[string]any{"type": "Person", "name": g.text(2), "preferredUsername": "u"}
		if fuzzLarge && r.Intn(30) == 0 {
			many := []any{}
			for i := 20 + r.Intn(100); i > 0; i-- {
				many = append(many, actor)
			}
			return many
		}
		return pick(r, []any{actor, []any{actor, deadRef, 7}, deadRef, []any{}})
	case "attachment":
		n := r.Intn(4)
		if fuzzLarge && r.Intn(25) == 0 {
			n = 50 + r.Intn(250) // hundreds of attachments: numbers of three digits
		}
		l := []any{}
		for i := 0; i < n; i++ {
			l = append(l, link())
		}
		if r.Intn(5) == 0 {
			return link()
		}
		return l
	case "url", "icon", "image":
		return pick(r, []any{link(), []any{link(), link()}, "https://m.example/direct", []any{"https://a.example/1", link()}, []any{}})
	case "inReplyTo":
		parent := map[string]any{"type": "Note", "content": "parent " + g.text(3)}
		if depth < 3 && r.Intn(2) == 0 {
			parent["inReplyTo"] = fuzzValue(r, g, "inReplyTo", depth+1)
		}
		return pick(r, []any{parent, deadRef, 5})
	case "replies", "comments", "outbox":
		items := []any{}
		for i := 0; i < r.Intn(4); i++ {
			items = append(items, map[string]any{"type": pick(r, []string{"Note", "Create", "Bogus"}), "content": g.text(3), "actor": deadRef, "object": map[string]any{"type": "Note", "content": "x"}})
		}
		return map[string]any{"type": pick(r, []string{"Collection", "OrderedCollection", "Note"}), "totalItems": pick(r, []any{len(items), -1, 1.5, "many", 1e30}), "items": items, "orderedItems": items}
	case "object":
		return map[string]any{"type": pick(r, []string{"Note", "Person", "Create", "Bogus"}), "content": g.text(4), "object": map[string]any{"type": "Note", "content": "inner"}}
	case "totalItems":
		return pick(r, []any{3, -1, 1e30, "x"})
	}
	return g.text(2)
}

func genPubFuzz(r *rand.Rand, n int, emit func(Op)) {
	keys := []string{"type", "content", "summary", "mediaType", "name", "preferredUsername", "published", "updated", "id", "attributedTo", "audience", "actor", "attachment", "url", "icon", "image", "inReplyTo", "replies", "comments", "outbox", "object"}
	for i := 0; i < n; i++ {
		if r.Intn(8) == 0 {
			emit(Op{"op": "render", "media": "html", "src": func() string {
				g := &docGen{r: r}
				return g.blocks(0, 3)
			}(), "widths": []any{pick(r, []int{-50, -1, 0, 1, 2, 3}), 300}, "labels": []any{}})
			continue
		}
		g := &docGen{r: r}
		doc := map[string]any{}
		for _, k := range keys {
			if r.Intn(3) != 0 {
				doc[k] = fuzzValue(r, g, k, 0)
			}
		}
		as := pick(r, []string{"post", "post", "actor", "activity", "any"})
		switch as {
		case "post":
			if r.Intn(4) != 0 {
				doc["type"] = pick(r, []string{"Note", "Article", "Video", "Image"})
			}
		case "actor":
			if r.Intn(4) != 0 {
				doc["type"] = pick(r, []string{"Person", "Group"})
			}
		case "activity":
			if r.Intn(4) != 0 {
				doc["type"] = pick(r, []string{"Create", "Announce", "Like", "Dislike", "Update", "Delete", "Follow", "Undo"})
			}
		}
		b, _ := json.Marshal(doc)
		if _, ok := doc["content"].(string); ok && r.Intn(6) == 0 {
			/* the same text under every media type, one after the other in one process: what a
			   body is may not be remembered across documents by its text alone */
			for _, mt := range []string{"text/html", "text/plain", "text/gemini", "text/markdown", "text/html"} {
				doc["mediaType"] = mt
				doc["type"] = "Note"
				bb, _ := json.Marshal(doc)
				emit(Op{"op": "pubfuzz", "doc": string(bb), "as": "post", "widths": []any{80, 40}, "numbers": []any{0, 1, 2, 3}, "withid": false})
			}
		}
		second := pick(r, []int{-50, -5, -1, 0, 1, 2, 3, 4, 5, 8, 80, 300, 500, 1000, 2000, -65535, -(1 << 31)})
		deepQuotes := false
		for _, k := range []string{"content", "summary"} {
			if t, ok := doc[k].(string); ok && strings.Contains(t, "<blockquote><blockquote><blockquote>") {
				deepQuotes = true
			}
		}
		if second > 300 && deepQuotes {
			/* a rule inside deeply nested quotes is as wide as the terminal and re-styled at every
			   level: the recorded finding (render time under deep block nesting) */
			second = 300
		}
		widths := []any{genWidth(r), second}
		numbers := []any{0, 1, 2, 3, -1, pick(r, []int{5, 10, 1 << 31, -(1 << 40), 9223372036854775807, -9223372036854775808})}
		emit(Op{"op": "pubfuzz", "doc": string(b), "as": as, "widths": widths, "numbers": numbers, "withid": r.Intn(2) == 0})
	}
}
