//go:build verif

package gemtext

func (m *Markup) VerifLines() []string { return m.tree }
