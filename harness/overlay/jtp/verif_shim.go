//go:build verif

package jtp

import (
	"bufio"
	"net/url"
	"strings"
)

/* Verification shim (scratch copy only): exposes the unexported response recognisers. */

func VerifParseStatusLine(text string) (string, bool) {
	s, err := parseStatusLine(text)
	return s, err == nil
}

/* returns (essence, isContentTypeLine, ok) */
func VerifParseContentType(text string) (string, bool, bool) {
	m, is, err := parseContentType(text)
	if err != nil || m == nil {
		return "", is, err == nil
	}
	return m.Essence, is, true
}

/* the raw value of a Location line, as the regexp extracts it */
func VerifLocationValue(text string) (string, bool) {
	m := locationRegexp.FindStringSubmatch(text)
	if len(m) != 2 {
		return "", false
	}
	return m[1], true
}

func VerifValidateHeaders(text string, tolerated []string) (bool, int) {
	rd := bufio.NewReader(strings.NewReader(text))
	err := validateHeaders(rd, tolerated)
	return err == nil, rd.Buffered()
}

func VerifFindLocation(text string, base *url.URL) (string, bool) {
	rd := bufio.NewReader(strings.NewReader(text))
	u, err := findLocation(rd, base)
	if err != nil {
		return "", false
	}
	return u.String(), true
}

func VerifCachePurge() { cache.Purge() }
func VerifCacheLen() int { return cache.Len() }
