//go:build verif

package pub

/* Verification shim (scratch copy only): dumps the provenance-relevant fields of items. */

func verifStr(s string, err error) any {
	if err != nil {
		return nil
	}
	return s
}

func verifID(a interface{ String() string }, isNil bool) any {
	if isNil {
		return nil
	}
	return a.String()
}

func VerifDump(item any) any {
	switch x := item.(type) {
	case *Failure:
		return map[string]any{"k": "failure"}
	case *Actor:
		var id any
		if x.id != nil {
			id = x.id.String()
		}
		return map[string]any{"k": "actor", "id": id, "name": verifStr(x.name, x.nameErr)}
	case *Post:
		var id, parent any
		if x.id != nil {
			id = x.id.String()
		}
		if pid := x.ParentIdentifier(); pid != nil {
			parent = pid.String()
		}
		creators := []any{}
		for _, c := range x.creators {
			creators = append(creators, VerifDump(c))
		}
		recipients := []any{}
		for _, c := range x.recipients {
			recipients = append(recipients, VerifDump(c))
		}
		return map[string]any{"k": "post", "id": id, "name": verifStr(x.title, x.titleErr), "parent": parent,
			"creators": creators, "recipients": recipients}
	case *Activity:
		var id any
		if x.id != nil {
			id = x.id.String()
		}
		var actor any = map[string]any{"k": "failure"}
		if x.actorErr == nil {
			actor = VerifDump(x.actor)
		}
		return map[string]any{"k": "activity", "id": id, "kind": x.kind, "actor": actor, "target": VerifDump(x.target)}
	case *Collection:
		var id any
		if x.id != nil {
			id = x.id.String()
		}
		return map[string]any{"k": "collection", "id": id}
	case nil:
		return nil
	}
	return map[string]any{"k": "?"}
}
