//go:build verif

package pub

import (
	"net/url"
	"servitor/object"
)

/* Verification shim (scratch copy only): dumps the provenance-relevant fields of items. */

func verifStr(s string, err error) any {
	if err != nil {
		return nil
	}
	return s
}

func verifID(a interface{ String() string }, isNil bool) any {
	if isNil {
		return nil
	}
	return a.String()
}

func VerifDump(item any) any {
	switch x := item.(type) {
	case *Failure:
		return map[string]any{"k": "failure"}
	case *Actor:
		var id any
		if x.id != nil {
			id = x.id.String()
		}
		return map[string]any{"k": "actor", "id": id, "name": verifStr(x.name, x.nameErr)}
	case *Post:
		var id, parent any
		if x.id != nil {
			id = x.id.String()
		}
		if pid := x.ParentIdentifier(); pid != nil {
			parent = pid.String()
		}
		creators := []any{}
		for _, c := range x.creators {
			creators = append(creators, VerifDump(c))
		}
		recipients := []any{}
		for _, c := range x.recipients {
			recipients = append(recipients, VerifDump(c))
		}
		return map[string]any{"k": "post", "id": id, "name": verifStr(x.title, x.titleErr), "parent": parent,
			"creators": creators, "recipients": recipients}
	case *Activity:
		var id any
		if x.id != nil {
			id = x.id.String()
		}
		var actor any = map[string]any{"k": "failure"}
		if x.actorErr == nil {
			actor = VerifDump(x.actor)
		}
		return map[string]any{"k": "activity", "id": id, "kind": x.kind, "actor": actor, "target": VerifDump(x.target)}
	case *Collection:
		var id any
		if x.id != nil {
			id = x.id.String()
		}
		return map[string]any{"k": "collection", "id": id}
	case nil:
		return nil
	}
	return map[string]any{"k": "?"}
}

/* ---------- fields for the presentation model ---------- */

func verifFld(v any, err error) any {
	if err == nil {
		return map[string]any{"ok": v}
	}
	if errorsIs(err, objectErrKeyNotPresent()) {
		return map[string]any{"absent": err.Error()}
	}
	return map[string]any{"err": err.Error()}
}

func verifLink(l *Link) any {
	var uri any
	if l.uriErr == nil {
		uri = verifFld(l.uri.String(), nil)
	} else {
		uri = verifFld(nil, l.uriErr)
	}
	return map[string]any{"alt": verifFld(l.alt, l.altErr), "uri": uri}
}

/* returns the fields and the Markup values (the caller dumps their trees) */
func VerifPostFields(p *Post) (map[string]any, any) {
	names := func(ts []Tangible) []any {
		out := []any{}
		for _, t := range ts {
			out = append(out, t.Name())
		}
		return out
	}
	var atts any
	if p.attachmentsErr == nil {
		l := []any{}
		for _, a := range p.attachments {
			l = append(l, verifLink(a))
		}
		atts = map[string]any{"ok": l}
	} else {
		atts = verifFld(nil, p.attachmentsErr)
	}
	var comments any
	if errorsIs(p.commentsErr, objectErrKeyNotPresent()) {
		comments = "disabled"
	} else if p.commentsErr != nil {
		comments = "enablederr"
	} else {
		n, err := p.comments.Size()
		comments = map[string]any{"size": verifFld(verifItoa(n), err)}
	}
	var created any
	if p.createdErr == nil {
		created = verifFld(ago(p.created), nil)
	} else {
		created = verifFld(nil, p.createdErr)
	}
	fields := map[string]any{
		"kind": p.kind, "title": verifFld(p.title, p.titleErr), "bodyLinks": verifStrs(p.bodyLinks),
		"isReply":  !errorsIs(p.parentErr, objectErrKeyNotPresent()),
		"creators": names(p.creators), "recipients": names(p.recipients),
		"created": created, "agoZero": ago(p.created), "attachments": atts, "comments": comments,
		"bodyErr": verifFld(nil, p.bodyErr),
	}
	if p.bodyErr == nil {
		return fields, p.body
	}
	return fields, nil
}

func VerifActorFields(a *Actor) (map[string]any, any) {
	var host any
	if a.id != nil {
		host = a.id.Host
	}
	var joined any
	if a.joinedErr == nil {
		joined = verifFld(a.joined.Format("2 Jan 2006"), nil)
	} else {
		joined = verifFld(nil, a.joinedErr)
	}
	var posts any
	if a.postsErr != nil {
		posts = verifFld(nil, a.postsErr)
	} else {
		n, err := a.posts.Size()
		posts = map[string]any{"ok": verifFld(verifItoa(n), err)}
	}
	fields := map[string]any{
		"kind": a.kind, "name": verifFld(a.name, a.nameErr), "handle": verifFld(a.handle, a.handleErr), "host": host,
		"joined": joined, "posts": posts, "bodyErr": verifFld(nil, a.bioErr),
	}
	if a.bioErr == nil {
		return fields, a.bio
	}
	return fields, nil
}

/* kind, actor name as the header shows it, target */
func VerifActivityParts(a *Activity) (string, string, Tangible) {
	name := ""
	if a.actorErr != nil {
		name = styleProblem(a.actorErr)
	} else {
		name = a.actor.Name()
	}
	return a.kind, name, a.target
}

/* the text of the failure, whatever type the field has */
func VerifFailureMessage(f *Failure) string {
	var m any = f.message
	if e, ok := m.(error); ok {
		return e.Error()
	}
	if t, ok := m.(string); ok {
		return t
	}
	return ""
}

/* the collection an owner names under `key`, through the constructor path the owners use */
func VerifGetCollection(o object.Object, key string, source *url.URL, construct func(any, *url.URL) Tangible) (*Collection, error) {
	return getCollection(o, key, source, construct)
}
