//go:build verif

package pub

import (
	"errors"
	"servitor/object"
	"servitor/style"
	"strconv"
)

func errorsIs(err, target error) bool { return errors.Is(err, target) }
func objectErrKeyNotPresent() error  { return object.ErrKeyNotPresent }
func verifItoa(n uint64) string      { return strconv.FormatUint(n, 10) }
func styleProblem(err error) string  { return style.Problem(err) }
func verifStrs(xs []string) []any {
	out := []any{}
	for _, x := range xs {
		out = append(out, x)
	}
	return out
}

func VerifBodyLinks(p *Post) []string { return p.bodyLinks }
func VerifBioLinks(a *Actor) []string { return a.bioLinks }
