package main

/*
go2lean, twenty-first front end: what an item shows — `String`, `Preview`, `Name` (and
`Timestamp`) of Post, Actor, Activity, Failure in pub/post.go, pub/actor.go, pub/activity.go,
pub/failure.go, with the unexported methods they call (`header`, `center`, `supplement`, `footer`),
`Collection.Size` of pub/collection.go, `style.Problem` of style/style.go and `ansi.Scrub` of
ansi/ansi.go — translated to Lean `do` blocks in `Except Panic` (namespace `GenPresent`).  The
semantics it targets is `lean/Model/GoItem.lean` (read its header first) on top of
`Model/GoSem.lean`, `Model/GoSlices.lean`.

  functions    every translated function has the same leading parameters: `c : Colors` (the
               configured colours style.go reads), `expand : Str → List Go.Match` (the regular
               expression of ansi.go, as in the eighth front end), `T : Go.TimeLib Time` (package
               time and the clock), `E : Obj.Err → Str` (the text of an error that comes out of
               the translated pub/link.go, which keeps error classes only).  It returns
               `Except Panic R`: R is the result type, the product of the result types, or Unit.
               The functions to translate are the ones asked for plus, transitively, every
               function of these packages they call that no earlier front end translated; they are
               emitted callees first, a cycle (through the `Tangible` interface) as one `mutual`
               block.
  structs      a receiver type becomes a structure with exactly the fields the translated methods
               read, in declaration order, with the declared names: `x T` and `xErr error` are two
               fields.  `string` -> Str, `bool` -> Bool, `int` -> Int, `uint64` -> Nat, `error` ->
               Go.ErrorV, `time.Time` -> Time (a type parameter of the struct if it needs one),
               `object.Markup` -> Option Go.Markup, `*url.URL` -> Option Go.URL, `*S` for a struct
               S of the package -> Option S, `[]string` -> List Str, `[]*Link` -> List GenLink.Link
               (the struct of the fifth front end; the elements of such a slice are taken to be
               non-nil, as in the eleventh front end), an interface I of the package -> the sum of
               the structs that have every method of I (`Tangible.post`, …), `[]I` -> List I.
               A struct with a field that mentions such an interface is declared with the
               interface in one `mutual` block as `inductive S | mk (fields)`, and its methods
               bind the fields by pattern (`| a@(.mk a_kind … a_target), width => do`), so that
               `a.target.M(x)` is a structural recursion.
  statements   `var x T` (string, int, bool), `x := e`, `x = e`, `x += e`, `a, b := f(…)`,
               `if [init;] c {…} [else if … | else {…}]`, `switch x { case "lit": … default: … }`
               on a string (an if-chain), `for i, e := range s`, `for _, e := range s`, `return …`,
               `continue`, `break`, `panic(text)`.  Locals are `let mut`; a parameter that is
               assigned is copied to a local first.  A variable declared by the init statement of
               an `if` must not have the name of a variable of an enclosing scope.
  expressions  literals, `+` (Int or `++`), `-`, comparisons (`decide`), `!`, `&&`, `||` (no
               operand that can panic on the right), `x == nil` / `x != nil` for errors and
               pointers (`Option.isNone` / `isSome`), `errors.Is(e, object.ErrKeyNotPresent)`
               (`Go.isAbsent`), `len`, `strings.ToLower`, `strings.ReplaceAll` of a one-character
               literal, `strings.Map` of a function literal of the form `if c { return -1 } return
               x`, `unicode.IsControl`, `fmt.Sprintf` with one `%d` of a `uint64`, `fmt.Errorf`
               with one `%w`, `e.Error()`, `m.Render(w)` on an `object.Markup`, `p.f` through a
               pointer (`(← Go.deref p).f`), `time.Time{}` (`T.zero`), `t.Format("layout")`
               (`T.format t layout`; the layout strings are also listed as the fact `layouts`),
               `ago(t)` (`T.ago t`: it reads the clock), calls of translated functions: methods of
               the receiver, methods through a pointer field (`(← Go.deref p.f)` first: the callee
               must read a field of its receiver before anything else, which is checked), methods
               through an interface value (the dispatch function), `style.X` / `ansi.X` (the
               translations of the second and eighth front ends, `GenStyle.X c …` /
               `GenAnsiH.X expand …`, with the parameter types read from the source of the
               packages), `l.Alt()` on a `*Link` (`GenLink.Alt`, the pair given by `Go.ofR`; it is
               checked on the source that every error return of `Alt` carries "").

Everything else makes the translator emit `sorry_untranslatable`, an unknown identifier that also
contains a forbidden word: the generated file no longer builds.
*/

import (
	"fmt"
	"go/ast"
	"go/token"
	"path/filepath"
	"sort"
	"strconv"
	"strings"
)

type pzField struct{ name, goType string }

type pzStruct struct {
	name      string
	fields    []pzField
	fieldIx   map[string]int
	read      map[string]bool
	inductive bool
	needsTime bool
	methods   map[string]*ast.FuncDecl
}

type pzScope struct {
	types  map[string]string
	depth  map[string]int
	lean   map[string]string // the Lean name of a Go variable (a `let mut` cannot be shadowed: a second declaration of a name gets a suffix)
	level  int
	inLoop bool
}

func (s *pzScope) clone() *pzScope {
	c := &pzScope{types: map[string]string{}, depth: map[string]int{}, lean: map[string]string{}, level: s.level, inLoop: s.inLoop}
	for k, v := range s.types {
		c.types[k] = v
	}
	for k, v := range s.lean {
		c.lean[k] = v
	}
	for k, v := range s.depth {
		c.depth[k] = v
	}
	return c
}

func (s *pzScope) inner() *pzScope {
	c := s.clone()
	c.level++
	return c
}

func (s *pzScope) declare(n, t string) { s.types[n] = t; s.depth[n] = s.level; s.lean[n] = pzIdent(n) }

/* declare a local: its Lean name is new in the function */
func (g *pz) declareFresh(s *pzScope, n, t string) string {
	s.types[n] = t
	s.depth[n] = s.level
	l := pzIdent(n)
	if k := g.used[n]; k > 0 {
		l = fmt.Sprintf("%s_%d", pzIdent(n), k)
	}
	g.used[n]++
	s.lean[n] = l
	return l
}

func (s *pzScope) name(n string) string {
	if l, ok := s.lean[n]; ok {
		return l
	}
	return pzIdent(n)
}

type pz struct {
	b        *strings.Builder
	errs     []string
	root     string
	structs  map[string]*pzStruct
	ifaces   map[string][]string
	impls    map[string][]string
	pkgFuncs map[string]*ast.FuncDecl
	extFuncs map[string]map[string]*ast.FuncDecl // "style" / "ansi" -> name -> decl
	done     map[string]map[string]bool          // functions of style / ansi translated by earlier front ends
	linkDecl map[string]*ast.FuncDecl
	want     []string
	cur      string
	curRecv  string // name of the receiver variable
	curSt    *pzStruct
	fresh    int
	used     map[string]int
	layouts  []string
}

var pzKeywords = map[string]bool{"at": true, "from": true, "end": true, "open": true, "then": true, "with": true, "fun": true,
	"match": true, "matches": true, "do": true, "have": true, "show": true, "in": true, "by": true, "local": true, "instance": true,
	"section": true, "prefix": true, "infix": true, "postfix": true, "notation": true, "where": true, "let": true, "if": true,
	"else": true, "for": true, "return": true, "mut": true, "type": true, "c": true, "expand": true, "T": true, "E": true}

/* a Go identifier as a Lean one: keywords and the names of the leading parameters are set apart */
func pzIdent(n string) string {
	if pzKeywords[n] {
		return n + "_"
	}
	return n
}

func (g *pz) fail(format string, a ...any) string {
	msg := fmt.Sprintf(format, a...)
	g.errs = append(g.errs, g.cur+": "+msg)
	return "(sorry_untranslatable /- " + strings.ReplaceAll(msg, "-/", "- /") + " -/)"
}

func (g *pz) line(ind int, s string) { g.b.WriteString(strings.Repeat("  ", ind) + s + "\n") }

const pzParams = "(c : Colors) (expand : Str → List Go.Match) (T : Go.TimeLib Time) (E : Obj.Err → Str)"
const pzArgs = "c expand T E"

/* ---------- types ---------- */

func (g *pz) structRef(name string) string {
	if st := g.structs[name]; st != nil && st.needsTime {
		return name + " Time"
	}
	return name
}

func (g *pz) leanType(t string) string {
	switch t {
	case "string":
		return "Str"
	case "bool":
		return "Bool"
	case "int":
		return "Int"
	case "uint64":
		return "Nat"
	case "rune":
		return "Char"
	case "error":
		return "Go.ErrorV"
	case "time.Time":
		return "Time"
	case "object.Markup":
		return "Option Go.Markup"
	case "*url.URL":
		return "Option Go.URL"
	case "*Link":
		return "GenLink.Link"
	}
	if strings.HasPrefix(t, "recv:") {
		return g.structRef(t[5:])
	}
	if strings.HasPrefix(t, "*") {
		if _, ok := g.structs[t[1:]]; ok {
			return "Option " + parenT(g.structRef(t[1:]))
		}
	}
	if _, ok := g.ifaces[t]; ok {
		return t + " Time"
	}
	if strings.HasPrefix(t, "[]") {
		return "List " + parenT(g.leanType(t[2:]))
	}
	return g.fail("type %s", t)
}

func (g *pz) zeroOf(t string) (string, bool) {
	switch t {
	case "string":
		return "(Go.str \"\")", true
	case "int", "uint64":
		return "0", true
	case "bool":
		return "false", true
	case "error":
		return "none", true
	}
	return "", false
}

/* the result types of a declaration and the Lean type of its result */
func (g *pz) results(fd *ast.FuncDecl) ([]string, string) {
	ts := []string{}
	if fd.Type.Results != nil {
		for _, r := range fd.Type.Results.List {
			n := len(r.Names)
			if n == 0 {
				n = 1
			}
			for i := 0; i < n; i++ {
				ts = append(ts, typeString(r.Type))
			}
		}
	}
	switch len(ts) {
	case 0:
		return ts, "Unit"
	case 1:
		return ts, g.leanType(ts[0])
	}
	ls := []string{}
	for _, t := range ts {
		ls = append(ls, g.leanType(t))
	}
	return ts, strings.Join(ls, " × ")
}

func pzParamTypes(fd *ast.FuncDecl) []string {
	out := []string{}
	for _, p := range fd.Type.Params.List {
		n := len(p.Names)
		if n == 0 {
			n = 1
		}
		for i := 0; i < n; i++ {
			out = append(out, typeString(p.Type))
		}
	}
	return out
}

/* ---------- the functions of a key ---------- */

/* keys: "Post.header" (a method), "Tangible.Name" (dispatch through an interface), "style.Problem", "ansi.Scrub" */
func (g *pz) declOf(key string) *ast.FuncDecl {
	parts := strings.SplitN(key, ".", 2)
	if st, ok := g.structs[parts[0]]; ok {
		return st.methods[parts[1]]
	}
	if fs, ok := g.extFuncs[parts[0]]; ok {
		return fs[parts[1]]
	}
	if ims, ok := g.impls[parts[0]]; ok && len(ims) > 0 {
		return g.structs[ims[0]].methods[parts[1]]
	}
	return nil
}

func (g *pz) leanName(key string) string {
	parts := strings.SplitN(key, ".", 2)
	if _, ok := g.extFuncs[parts[0]]; ok {
		return parts[1]
	}
	return key
}

func pzHas(xs []string, x string) bool {
	for _, y := range xs {
		if y == x {
			return true
		}
	}
	return false
}

/* the static type of the receiver expression of a method call, without translating it */
func (g *pz) staticType(st *pzStruct, rv string, locals map[string]string, e ast.Expr) string {
	switch x := e.(type) {
	case *ast.Ident:
		if x.Name == rv && st != nil {
			return "recv:" + st.name
		}
		return locals[x.Name]
	case *ast.SelectorExpr:
		if id, ok := x.X.(*ast.Ident); ok && id.Name == rv && st != nil {
			if ix, ok := st.fieldIx[x.Sel.Name]; ok {
				return st.fields[ix].goType
			}
		}
	}
	return ""
}

/* the keys a declaration calls */
func (g *pz) callees(key string) []string {
	fd := g.declOf(key)
	parts := strings.SplitN(key, ".", 2)
	if _, isIface := g.ifaces[parts[0]]; isIface {
		out := []string{}
		for _, impl := range g.impls[parts[0]] {
			out = append(out, impl+"."+parts[1])
		}
		return out
	}
	if fd == nil || fd.Body == nil {
		return nil
	}
	st := g.structs[parts[0]]
	rv := ""
	if fd.Recv != nil && len(fd.Recv.List[0].Names) == 1 {
		rv = fd.Recv.List[0].Names[0].Name
	}
	pkg := ""
	if st == nil {
		pkg = parts[0]
	}
	/* local variables whose type is the element type of a ranged-over field */
	locals := map[string]string{}
	ast.Inspect(fd.Body, func(n ast.Node) bool {
		if rs, ok := n.(*ast.RangeStmt); ok && rs.Value != nil {
			if t := g.staticType(st, rv, locals, rs.X); strings.HasPrefix(t, "[]") {
				locals[exprString(rs.Value)] = t[2:]
			}
		}
		return true
	})
	out := []string{}
	add := func(k string) {
		if !pzHas(out, k) {
			out = append(out, k)
		}
	}
	ast.Inspect(fd.Body, func(n ast.Node) bool {
		ce, ok := n.(*ast.CallExpr)
		if !ok {
			return true
		}
		switch f := ce.Fun.(type) {
		case *ast.Ident:
			if pkg != "" && g.extFuncs[pkg][f.Name] != nil && !g.done[pkg][f.Name] {
				add(pkg + "." + f.Name)
			}
		case *ast.SelectorExpr:
			if id, ok := f.X.(*ast.Ident); ok {
				if fs, isPkg := g.extFuncs[id.Name]; isPkg && id.Name != rv && locals[id.Name] == "" {
					if fs[f.Sel.Name] != nil && !g.done[id.Name][f.Sel.Name] {
						add(id.Name + "." + f.Sel.Name)
					}
					return true
				}
			}
			t := g.staticType(st, rv, locals, f.X)
			switch {
			case strings.HasPrefix(t, "recv:"):
				if g.structs[t[5:]].methods[f.Sel.Name] != nil {
					add(t[5:] + "." + f.Sel.Name)
				}
			case strings.HasPrefix(t, "*") && g.structs[t[1:]] != nil:
				if g.structs[t[1:]].methods[f.Sel.Name] != nil {
					add(t[1:] + "." + f.Sel.Name)
				}
			case g.ifaces[t] != nil:
				add(t + "." + f.Sel.Name)
			}
		}
		return true
	})
	return out
}

/* ---------- expressions ---------- */

func (g *pz) fieldTerm(st *pzStruct, v, f string) string {
	if st.inductive {
		return pzIdent(v) + "_" + f
	}
	return pzIdent(v) + "." + f
}

func (g *pz) expr(sc *pzScope, e ast.Expr) (string, string) {
	switch x := e.(type) {
	case *ast.ParenExpr:
		return g.expr(sc, x.X)
	case *ast.Ident:
		switch x.Name {
		case "true", "false":
			return x.Name, "bool"
		case "nil":
			return g.fail("nil as a value"), "?"
		}
		if t, ok := sc.types[x.Name]; ok {
			return sc.name(x.Name), t
		}
		return g.fail("identifier %s", x.Name), "?"
	case *ast.BasicLit:
		switch x.Kind {
		case token.STRING:
			s, err := strconv.Unquote(x.Value)
			if err != nil {
				return g.fail("string literal %s", x.Value), "?"
			}
			return "(Go.str " + leanStr(s) + ")", "string"
		case token.INT:
			if _, err := strconv.ParseUint(x.Value, 10, 62); err == nil {
				return x.Value, "int-literal"
			}
		case token.CHAR:
			s, err := strconv.Unquote(x.Value)
			if err == nil && len([]rune(s)) == 1 {
				return fmt.Sprintf("(Char.ofNat %d)", []rune(s)[0]), "rune"
			}
		}
		return g.fail("literal %s", x.Value), "?"
	case *ast.UnaryExpr:
		s, t := g.expr(sc, x.X)
		if x.Op == token.NOT && t == "bool" {
			return "(!" + s + ")", "bool"
		}
		if x.Op == token.SUB && (t == "int" || t == "int-literal") {
			return "(-" + s + ")", "int"
		}
		return g.fail("expression %s", exprFull(e)), "?"
	case *ast.BinaryExpr:
		return g.binary(sc, x)
	case *ast.SelectorExpr:
		return g.selector(sc, x)
	case *ast.CallExpr:
		return g.call(sc, x)
	case *ast.CompositeLit:
		if x.Type != nil && typeString(x.Type) == "time.Time" && len(x.Elts) == 0 {
			return "T.zero", "time.Time"
		}
	}
	return g.fail("expression %s", exprFull(e)), "?"
}

func pzNumeric(a, b string) (string, bool) {
	num := func(t string) bool { return t == "int" || t == "uint64" || t == "int-literal" }
	if !num(a) || !num(b) {
		return "", false
	}
	if a == "int-literal" {
		return b, true
	}
	if b == "int-literal" || a == b {
		return a, true
	}
	return "", false
}

func (g *pz) binary(sc *pzScope, x *ast.BinaryExpr) (string, string) {
	if (x.Op == token.EQL || x.Op == token.NEQ) && isNilIdent(x.Y) {
		s, t := g.expr(sc, x.X)
		if t == "error" || strings.HasPrefix(t, "*") || t == "object.Markup" {
			if x.Op == token.EQL {
				return "(Option.isNone " + s + ")", "bool"
			}
			return "(Option.isSome " + s + ")", "bool"
		}
		return g.fail("comparison with nil: %s (%s)", exprFull(x), t), "?"
	}
	l, lt := g.expr(sc, x.X)
	r, rt := g.expr(sc, x.Y)
	switch x.Op {
	case token.LOR, token.LAND:
		if strings.Contains(r, "←") {
			return g.fail("%s: the right operand can panic (short-circuit evaluation is not understood there)", exprFull(x)), "?"
		}
		if lt == "bool" && rt == "bool" {
			op := map[token.Token]string{token.LOR: "||", token.LAND: "&&"}[x.Op]
			return "(" + l + " " + op + " " + r + ")", "bool"
		}
	case token.EQL, token.NEQ:
		op := map[token.Token]string{token.EQL: "=", token.NEQ: "≠"}[x.Op]
		if _, ok := pzNumeric(lt, rt); ok || (lt == rt && (lt == "string" || lt == "bool" || lt == "rune")) {
			return "decide (" + l + " " + op + " " + r + ")", "bool"
		}
	case token.LSS, token.GTR, token.LEQ, token.GEQ:
		op := map[token.Token]string{token.LSS: "<", token.GTR: ">", token.LEQ: "≤", token.GEQ: "≥"}[x.Op]
		if _, ok := pzNumeric(lt, rt); ok {
			return "decide (" + l + " " + op + " " + r + ")", "bool"
		}
	case token.ADD:
		if t, ok := pzNumeric(lt, rt); ok && t != "uint64" {
			return "(" + l + " + " + r + ")", "int"
		}
		if lt == "string" && rt == "string" {
			return "(" + l + " ++ " + r + ")", "string"
		}
	case token.SUB:
		if t, ok := pzNumeric(lt, rt); ok && t != "uint64" {
			return "(" + l + " - " + r + ")", "int"
		}
	}
	return g.fail("expression %s (%s, %s)", exprFull(x), lt, rt), "?"
}

func (g *pz) selector(sc *pzScope, x *ast.SelectorExpr) (string, string) {
	s, t := g.expr(sc, x.X)
	switch {
	case strings.HasPrefix(t, "recv:"):
		st := g.structs[t[5:]]
		id, isId := x.X.(*ast.Ident)
		if ix, ok := st.fieldIx[x.Sel.Name]; ok && isId {
			return g.fieldTerm(st, id.Name, x.Sel.Name), st.fields[ix].goType
		}
	case t == "*url.URL" && x.Sel.Name == "Host":
		return "(← Go.deref " + s + ").Host", "string"
	}
	return g.fail("selector %s (on %s)", exprFull(x), t), "?"
}

/* the arguments of a call against the parameter types of the declaration */
func (g *pz) args(sc *pzScope, what string, params []string, args []ast.Expr) string {
	if len(params) != len(args) {
		return g.fail("arity of the call of %s", what)
	}
	out := []string{}
	for i, a := range args {
		s, t := g.expr(sc, a)
		if t == "int-literal" && (params[i] == "int" || params[i] == "uint64") {
			t = params[i]
		}
		if t != params[i] {
			s = g.fail("argument %d of %s: %s for %s", i+1, what, t, params[i])
		}
		out = append(out, s)
	}
	return strings.Join(out, " ")
}

/* the type of the single result, or "(a,b)" for several */
func pzResultType(ts []string) string {
	switch len(ts) {
	case 0:
		return "()"
	case 1:
		return ts[0]
	}
	return "(" + strings.Join(ts, ",") + ")"
}

func (g *pz) translatedCall(sc *pzScope, key, recv string, args []ast.Expr) (string, string) {
	fd := g.declOf(key)
	if fd == nil || !pzHas(g.want, key) {
		return g.fail("call of %s, which is not translated", key), "?"
	}
	ts, _ := g.results(fd)
	a := g.args(sc, key, pzParamTypes(fd), args)
	parts := []string{g.leanName(key), pzArgs}
	if recv != "" {
		parts = append(parts, recv)
	}
	if a != "" {
		parts = append(parts, a)
	}
	return "(← " + strings.Join(parts, " ") + ")", pzResultType(ts)
}

/*
the callee reads a field of its receiver before it does anything else: calling it through a nil

	pointer panics, as `Go.deref` at the call site does
*/
func pzReadsReceiverFirst(fd *ast.FuncDecl) bool {
	if fd.Recv == nil || len(fd.Recv.List[0].Names) != 1 {
		return false
	}
	rv := fd.Recv.List[0].Names[0].Name
	mentions := func(n ast.Node) bool {
		found := false
		ast.Inspect(n, func(m ast.Node) bool {
			if se, ok := m.(*ast.SelectorExpr); ok && exprString(se.X) == rv {
				found = true
			}
			return true
		})
		return found
	}
	for _, s := range fd.Body.List {
		switch x := s.(type) {
		case *ast.DeclStmt:
			continue
		case *ast.IfStmt:
			return x.Init == nil && mentions(x.Cond)
		case *ast.ReturnStmt:
			return len(x.Results) > 0 && mentions(x.Results[0])
		default:
			return false
		}
	}
	return false
}

/* every `return v, e` of `Alt` with a non-nil `e` carries the empty string */
func pzErrorReturnsCarryEmpty(fd *ast.FuncDecl) bool {
	good := fd != nil && fd.Body != nil
	if !good {
		return false
	}
	ast.Inspect(fd.Body, func(n ast.Node) bool {
		if rs, ok := n.(*ast.ReturnStmt); ok {
			if len(rs.Results) != 2 {
				good = false
			} else if !isNilIdent(rs.Results[1]) {
				if bl, ok := rs.Results[0].(*ast.BasicLit); !ok || bl.Value != `""` {
					good = false
				}
			}
		}
		return true
	})
	return good
}

func pzSplitVerb(format, verb string) (string, string, bool) {
	if strings.Count(format, "%") != 1 || strings.Count(format, verb) != 1 {
		return "", "", false
	}
	ix := strings.Index(format, verb)
	return format[:ix], format[ix+len(verb):], true
}

func (g *pz) call(sc *pzScope, x *ast.CallExpr) (string, string) {
	name := exprString(x.Fun)
	arg := func(i int) (string, string) { return g.expr(sc, x.Args[i]) }
	strLit := func(e ast.Expr) (string, bool) {
		bl, ok := e.(*ast.BasicLit)
		if !ok || bl.Kind != token.STRING {
			return "", false
		}
		s, err := strconv.Unquote(bl.Value)
		return s, err == nil
	}
	if id, ok := x.Fun.(*ast.Ident); ok {
		/* a function of the package being translated (style calling Red, ansi calling …) or a builtin */
		switch {
		case id.Name == "len" && len(x.Args) == 1:
			s, t := arg(0)
			if strings.HasPrefix(t, "[]") {
				return "(Go.len " + s + ")", "int"
			}
			return g.fail("len of %s", t), "?"
		case id.Name == "ago" && len(x.Args) == 1 && g.pkgFuncs["ago"] != nil:
			s, t := arg(0)
			if t == "time.Time" {
				return "(T.ago " + s + ")", "string"
			}
		}
		pkg := strings.SplitN(g.cur, ".", 2)[0]
		if fs, isExt := g.extFuncs[pkg]; isExt && fs[id.Name] != nil {
			return g.pkgCall(sc, pkg, id.Name, x.Args)
		}
		return g.fail("call %s", exprFull(x)), "?"
	}
	se, ok := x.Fun.(*ast.SelectorExpr)
	if !ok {
		return g.fail("call %s", exprFull(x)), "?"
	}
	if id, isId := se.X.(*ast.Ident); isId {
		if _, isVar := sc.types[id.Name]; !isVar {
			/* a package */
			switch {
			case name == "errors.Is" && len(x.Args) == 2:
				if exprString(x.Args[1]) != "object.ErrKeyNotPresent" {
					return g.fail("target of errors.Is: %s", exprFull(x.Args[1])), "?"
				}
				s, t := arg(0)
				if t == "error" {
					return "(Go.isAbsent " + s + ")", "bool"
				}
			case name == "strings.ToLower" && len(x.Args) == 1:
				s, t := arg(0)
				if t == "string" {
					return "(Go.toLower " + s + ")", "string"
				}
			case name == "strings.ReplaceAll" && len(x.Args) == 3:
				s, t := arg(0)
				old, isLit := strLit(x.Args[1])
				r, rt := arg(2)
				if t == "string" && rt == "string" && isLit && len([]rune(old)) == 1 {
					return fmt.Sprintf("(Go.Strings.replaceChar %s (Char.ofNat %d) %s)", s, []rune(old)[0], r), "string"
				}
			case name == "strings.Map" && len(x.Args) == 2:
				f := g.runeFunc(sc, x.Args[0])
				s, t := arg(1)
				if t == "string" {
					return "(Go.mapDrop " + f + " " + s + ")", "string"
				}
			case name == "unicode.IsControl" && len(x.Args) == 1:
				s, t := arg(0)
				if t == "rune" {
					return "(Uni.isControl " + s + ")", "bool"
				}
			case name == "fmt.Sprintf" && len(x.Args) == 2:
				format, isLit := strLit(x.Args[0])
				pre, post, okF := pzSplitVerb(format, "%d")
				s, t := arg(1)
				if isLit && okF && t == "uint64" {
					return "(Go.sprintfD (Go.str " + leanStr(pre) + ") " + s + " (Go.str " + leanStr(post) + "))", "string"
				}
				return g.fail("%s (one %%d of a uint64 and no other verb is understood)", exprFull(x)), "?"
			case name == "fmt.Errorf" && len(x.Args) == 2:
				format, isLit := strLit(x.Args[0])
				pre, post, okF := pzSplitVerb(format, "%w")
				s, t := arg(1)
				if isLit && okF && t == "error" {
					return "(Go.errorf (Go.str " + leanStr(pre) + ") " + s + " (Go.str " + leanStr(post) + "))", "error"
				}
				return g.fail("%s (one %%w and no other verb is understood)", exprFull(x)), "?"
			default:
				if _, isExt := g.extFuncs[id.Name]; isExt {
					return g.pkgCall(sc, id.Name, se.Sel.Name, x.Args)
				}
			}
			return g.fail("call %s", exprFull(x)), "?"
		}
	}
	/* a method */
	recv, rt := g.expr(sc, se.X)
	m := se.Sel.Name
	switch {
	case rt == "error" && m == "Error" && len(x.Args) == 0:
		return "(← Go.errorText " + recv + ")", "string"
	case rt == "object.Markup" && m == "Render" && len(x.Args) == 1:
		return "(← Go.render " + recv + " " + g.args(sc, "Render", []string{"int"}, x.Args) + ")", "string"
	case rt == "time.Time" && m == "Format" && len(x.Args) == 1:
		layout, isLit := strLit(x.Args[0])
		if !isLit {
			return g.fail("layout of %s (a literal is understood)", exprFull(x)), "?"
		}
		if !pzHas(g.layouts, layout) {
			g.layouts = append(g.layouts, layout)
		}
		return "(T.format " + recv + " (Go.str " + leanStr(layout) + "))", "string"
	case rt == "*Link" && m == "Alt" && len(x.Args) == 0:
		if !pzErrorReturnsCarryEmpty(g.linkDecl["Alt"]) {
			return g.fail("an error return of Link.Alt carries something else than the empty string"), "?"
		}
		return "(Go.ofR E (GenLink.Alt " + recv + "))", "(string,error)"
	case strings.HasPrefix(rt, "recv:"):
		return g.translatedCall(sc, rt[5:]+"."+m, recv, x.Args)
	case strings.HasPrefix(rt, "*") && g.structs[rt[1:]] != nil:
		fd := g.structs[rt[1:]].methods[m]
		if fd == nil || !pzReadsReceiverFirst(fd) {
			return g.fail("%s through a pointer: the method does not begin by reading its receiver", exprFull(x)), "?"
		}
		return g.translatedCall(sc, rt[1:]+"."+m, "(← Go.deref "+recv+")", x.Args)
	case g.ifaces[rt] != nil:
		return g.translatedCall(sc, rt+"."+m, recv, x.Args)
	}
	return g.fail("method %s of %s", m, rt), "?"
}

/* `style.X(…)`, `ansi.X(…)`: the earlier translation, or ours */
func (g *pz) pkgCall(sc *pzScope, pkg, fn string, args []ast.Expr) (string, string) {
	fd := g.extFuncs[pkg][fn]
	if fd == nil {
		return g.fail("function %s.%s", pkg, fn), "?"
	}
	ts, _ := g.results(fd)
	if len(ts) != 1 {
		return g.fail("results of %s.%s", pkg, fn), "?"
	}
	params := pzParamTypes(fd)
	if g.done[pkg][fn] {
		head := map[string]string{"style": "GenStyle." + fn + " c", "ansi": "GenAnsiH." + fn + " expand"}[pkg]
		return "(← " + head + " " + g.args(sc, pkg+"."+fn, params, args) + ")", ts[0]
	}
	return g.translatedCall(sc, pkg+"."+fn, "", args)
}

/* `func(r rune) rune { if c { return -1 }; return r }` as `Char → Option Char` */
func (g *pz) runeFunc(sc *pzScope, e ast.Expr) string {
	fl, ok := e.(*ast.FuncLit)
	if !ok || len(fl.Type.Params.List) != 1 || len(fl.Type.Params.List[0].Names) != 1 || typeString(fl.Type.Params.List[0].Type) != "rune" ||
		fl.Type.Results == nil || len(fl.Type.Results.List) != 1 || typeString(fl.Type.Results.List[0].Type) != "rune" {
		return g.fail("function argument %s", exprFull(e))
	}
	v := fl.Type.Params.List[0].Names[0].Name
	inner := sc.inner()
	inner.declare(v, "rune")
	val := func(r ast.Expr) string {
		if exprString(r) == "-1" {
			return "none"
		}
		s, t := g.expr(inner, r)
		if t != "rune" {
			return g.fail("result %s of the function literal", exprFull(r))
		}
		return "(some " + s + ")"
	}
	body := ""
	closers := ""
	for i, s := range fl.Body.List {
		switch x := s.(type) {
		case *ast.IfStmt:
			if x.Init != nil || x.Else != nil || len(x.Body.List) != 1 {
				return g.fail("function literal: form of the if")
			}
			rs, ok := x.Body.List[0].(*ast.ReturnStmt)
			if !ok || len(rs.Results) != 1 {
				return g.fail("function literal: body of the if")
			}
			c, ct := g.expr(inner, x.Cond)
			if ct != "bool" || strings.Contains(c, "←") {
				return g.fail("function literal: condition %s", exprFull(x.Cond))
			}
			body += "if " + c + " then " + val(rs.Results[0]) + " else ("
			closers += ")"
		case *ast.ReturnStmt:
			if len(x.Results) != 1 || i != len(fl.Body.List)-1 {
				return g.fail("function literal: return")
			}
			return "(fun " + pzIdent(v) + " => " + body + val(x.Results[0]) + closers + ")"
		default:
			return g.fail("function literal: statement %T", s)
		}
	}
	return g.fail("function literal: no final return")
}

/* ---------- statements ---------- */

func (g *pz) cond(sc *pzScope, e ast.Expr) string {
	s, t := g.expr(sc, e)
	if t != "bool" {
		return g.fail("condition %s (%s)", exprFull(e), t)
	}
	return s
}

func (g *pz) body(ind int, sc *pzScope, list []ast.Stmt) {
	if len(list) == 0 {
		g.line(ind, "pure ()")
		return
	}
	for _, s := range list {
		g.stmt(ind, sc, s)
	}
}

func (g *pz) define(ind int, sc *pzScope, name, t, val string) {
	if name == "_" {
		return
	}
	l := g.declareFresh(sc, name, t)
	g.line(ind, "let mut "+l+" : "+g.leanType(t)+" := "+val)
}

func (g *pz) stmt(ind int, sc *pzScope, st ast.Stmt) {
	switch s := st.(type) {
	case *ast.DeclStmt:
		gd, ok := s.Decl.(*ast.GenDecl)
		if !ok || gd.Tok != token.VAR {
			g.line(ind, g.fail("declaration"))
			return
		}
		for _, sp := range gd.Specs {
			vs := sp.(*ast.ValueSpec)
			if vs.Type == nil || len(vs.Values) != 0 {
				g.line(ind, g.fail("var declaration with a value"))
				return
			}
			t := typeString(vs.Type)
			z, ok := g.zeroOf(t)
			if !ok {
				g.line(ind, g.fail("zero value of %s", t))
				return
			}
			for _, n := range vs.Names {
				g.define(ind, sc, n.Name, t, z)
			}
		}
	case *ast.AssignStmt:
		g.assign(ind, sc, s)
	case *ast.IfStmt:
		g.ifStmt(ind, sc, s, "if ")
	case *ast.SwitchStmt:
		g.switchStmt(ind, sc, s)
	case *ast.RangeStmt:
		g.rangeStmt(ind, sc, s)
	case *ast.ReturnStmt:
		ts, _ := g.results(g.declOf(g.cur))
		if len(s.Results) == 1 && len(ts) > 1 {
			/* return f(…) of a function with the same results */
			v, t := g.expr(sc, s.Results[0])
			if t != pzResultType(ts) {
				v = g.fail("return of %s for %s", t, pzResultType(ts))
			}
			g.line(ind, "return "+v)
			return
		}
		if len(s.Results) != len(ts) {
			g.line(ind, g.fail("return statement"))
			return
		}
		vals := []string{}
		for i, r := range s.Results {
			v, t := "", ""
			if isNilIdent(r) && (ts[i] == "error" || strings.HasPrefix(ts[i], "*")) {
				v, t = "none", ts[i]
			} else {
				v, t = g.expr(sc, r)
			}
			if t == "int-literal" && (ts[i] == "int" || ts[i] == "uint64") {
				t = ts[i]
			}
			if t != ts[i] {
				v = g.fail("returned value of type %s for %s", t, ts[i])
			}
			vals = append(vals, v)
		}
		switch len(vals) {
		case 0:
			g.line(ind, "return ()")
		case 1:
			g.line(ind, "return "+vals[0])
		default:
			g.line(ind, "return ("+strings.Join(vals, ", ")+")")
		}
	case *ast.BranchStmt:
		if s.Label == nil && sc.inLoop && (s.Tok == token.CONTINUE || s.Tok == token.BREAK) {
			g.line(ind, s.Tok.String())
			return
		}
		g.line(ind, g.fail("statement %s", s.Tok))
	case *ast.ExprStmt:
		if ce, ok := s.X.(*ast.CallExpr); ok && exprString(ce.Fun) == "panic" && len(ce.Args) == 1 {
			v, t := g.expr(sc, ce.Args[0])
			if t != "string" {
				v = g.fail("argument of panic: %s", t)
			}
			g.line(ind, "throw (Go.panicText "+v+")")
			return
		}
		g.line(ind, g.fail("statement %s", exprFull(s.X)))
	case *ast.EmptyStmt:
	default:
		g.line(ind, g.fail("statement %T", st))
	}
}

func (g *pz) assign(ind int, sc *pzScope, s *ast.AssignStmt) {
	if len(s.Rhs) != 1 {
		g.line(ind, g.fail("assignment with several right-hand sides"))
		return
	}
	lhs := []string{}
	for _, l := range s.Lhs {
		id, ok := l.(*ast.Ident)
		if !ok {
			g.line(ind, g.fail("assignment to %s", exprFull(l)))
			return
		}
		lhs = append(lhs, id.Name)
	}
	v, t := g.expr(sc, s.Rhs[0])
	if len(lhs) == 1 {
		a := lhs[0]
		if t == "int-literal" {
			t = "int"
		}
		switch s.Tok {
		case token.DEFINE:
			g.define(ind, sc, a, t, v)
		case token.ASSIGN:
			if sc.types[a] != t {
				v = g.fail("%s of type %s assigned a %s", a, sc.types[a], t)
			}
			g.line(ind, sc.name(a)+" := "+v)
		case token.ADD_ASSIGN:
			switch {
			case sc.types[a] == "string" && t == "string":
				g.line(ind, sc.name(a)+" := ("+sc.name(a)+" ++ "+v+")")
			case sc.types[a] == "int" && t == "int":
				g.line(ind, sc.name(a)+" := ("+sc.name(a)+" + "+v+")")
			default:
				g.line(ind, g.fail("%s += %s (%s, %s)", a, exprFull(s.Rhs[0]), sc.types[a], t))
			}
		default:
			g.line(ind, g.fail("assignment operator %s", s.Tok))
		}
		return
	}
	/* a, b := f(…) */
	if s.Tok != token.DEFINE || !strings.HasPrefix(t, "(") {
		g.line(ind, g.fail("assignment of %s to %s", t, strings.Join(lhs, ", ")))
		return
	}
	ts := strings.Split(strings.Trim(t, "()"), ",")
	if len(ts) != len(lhs) {
		g.line(ind, g.fail("%d values for %s", len(ts), strings.Join(lhs, ", ")))
		return
	}
	for _, a := range lhs {
		if d, exists := sc.depth[a]; exists && d == sc.level && a != "_" {
			g.line(ind, g.fail("%s := redeclares %s in its own scope", strings.Join(lhs, ", "), a))
			return
		}
	}
	g.fresh++
	r := fmt.Sprintf("r%d_", g.fresh)
	if strings.HasPrefix(v, "(← ") {
		g.line(ind, "let "+r+" ← "+strings.TrimSuffix(strings.TrimPrefix(v, "(← "), ")"))
	} else {
		g.line(ind, "let "+r+" := "+v)
	}
	for i, a := range lhs {
		proj := r
		for j := 0; j < i; j++ {
			proj += ".2"
		}
		if i < len(lhs)-1 {
			proj += ".1"
		}
		g.define(ind, sc, a, ts[i], proj)
	}
}

func (g *pz) ifStmt(ind int, sc *pzScope, s *ast.IfStmt, kw string) {
	if s.Init != nil {
		as, ok := s.Init.(*ast.AssignStmt)
		if !ok || as.Tok != token.DEFINE {
			g.line(ind, g.fail("init statement of an if"))
			return
		}
		for _, l := range as.Lhs {
			if _, outer := sc.types[exprString(l)]; outer {
				g.line(ind, g.fail("the init statement of an if declares %s, which an enclosing scope has too", exprString(l)))
				return
			}
		}
		sc = sc.inner() // the scope of the if statement
		if kw != "if " {
			/* `else if init; c`: the init belongs to the else branch */
			g.line(ind, "else")
			ind++
			kw = "if "
		}
		g.assign(ind, sc, as)
	}
	g.line(ind, kw+g.cond(sc, s.Cond)+" then")
	g.body(ind+1, sc.inner(), s.Body.List)
	switch e := s.Else.(type) {
	case nil:
	case *ast.IfStmt:
		g.ifStmt(ind, sc, e, "else if ")
	case *ast.BlockStmt:
		g.line(ind, "else")
		g.body(ind+1, sc.inner(), e.List)
	default:
		g.line(ind, g.fail("else branch"))
	}
}

func (g *pz) switchStmt(ind int, sc *pzScope, s *ast.SwitchStmt) {
	if s.Init != nil || s.Tag == nil {
		g.line(ind, g.fail("form of the switch"))
		return
	}
	tag, tt := g.expr(sc, s.Tag)
	if tt != "string" || strings.Contains(tag, "←") {
		g.line(ind, g.fail("switch on %s", tt))
		return
	}
	var def *ast.CaseClause
	kw := "if "
	for _, c := range s.Body.List {
		cc := c.(*ast.CaseClause)
		if cc.List == nil {
			def = cc
			continue
		}
		conds := []string{}
		for _, e := range cc.List {
			v, t := g.expr(sc, e)
			if t != "string" {
				v = g.fail("case %s", exprFull(e))
			}
			conds = append(conds, "decide ("+tag+" = "+v+")")
		}
		for _, b := range cc.Body {
			if bs, ok := b.(*ast.BranchStmt); ok && bs.Tok == token.FALLTHROUGH {
				g.line(ind, g.fail("fallthrough"))
				return
			}
		}
		g.line(ind, kw+strings.Join(conds, " || ")+" then")
		g.body(ind+1, sc.inner(), cc.Body)
		kw = "else if "
	}
	if def != nil {
		if kw == "if " {
			g.body(ind, sc.inner(), def.Body)
			return
		}
		g.line(ind, "else")
		g.body(ind+1, sc.inner(), def.Body)
	}
}

func (g *pz) rangeStmt(ind int, sc *pzScope, s *ast.RangeStmt) {
	val, ok := s.Value.(*ast.Ident)
	if !ok || s.Tok != token.DEFINE {
		g.line(ind, g.fail("form of the range statement"))
		return
	}
	seq, seqT := g.expr(sc, s.X)
	if !strings.HasPrefix(seqT, "[]") || strings.Contains(seq, "←") {
		g.line(ind, g.fail("range over %s", seqT))
		return
	}
	inner := sc.inner()
	inner.inLoop = true
	vl := g.declareFresh(inner, val.Name, seqT[2:])
	if s.Key != nil && exprString(s.Key) != "_" {
		kl := g.declareFresh(inner, exprString(s.Key), "int")
		g.line(ind, "for ("+kl+", "+vl+") in (Go.enumerate "+seq+") do")
	} else {
		g.line(ind, "for "+vl+" in "+seq+" do")
	}
	g.body(ind+1, inner, s.Body.List)
}

/* ---------- functions ---------- */

func pzAssigned(body *ast.BlockStmt) map[string]bool {
	out := map[string]bool{}
	ast.Inspect(body, func(n ast.Node) bool {
		if as, ok := n.(*ast.AssignStmt); ok && as.Tok != token.DEFINE {
			for _, l := range as.Lhs {
				if id, ok := l.(*ast.Ident); ok {
					out[id.Name] = true
				}
			}
		}
		return true
	})
	return out
}

func (g *pz) function(key string) string {
	parts := strings.SplitN(key, ".", 2)
	g.cur = key
	g.fresh = 0
	g.used = map[string]int{}
	g.b = &strings.Builder{}
	if _, isIface := g.ifaces[parts[0]]; isIface {
		return g.dispatchDef(parts[0], parts[1])
	}
	fd := g.declOf(key)
	st := g.structs[parts[0]]
	sc := &pzScope{types: map[string]string{}, depth: map[string]int{}, lean: map[string]string{}}
	_, rt := g.results(fd)
	assigned := pzAssigned(fd.Body)
	names, types, copies := []string{}, []string{}, []string{}
	for _, p := range fd.Type.Params.List {
		if len(p.Names) == 0 {
			names = append(names, "_")
			types = append(types, g.leanType(typeString(p.Type)))
		}
		for _, n := range p.Names {
			t := typeString(p.Type)
			if t == "uint" {
				t = "uint64"
			}
			sc.declare(n.Name, t)
			g.used[n.Name]++
			if assigned[n.Name] {
				names = append(names, pzIdent(n.Name)+"0")
				copies = append(copies, "let mut "+pzIdent(n.Name)+" : "+g.leanType(t)+" := "+pzIdent(n.Name)+"0")
			} else {
				names = append(names, pzIdent(n.Name))
			}
			types = append(types, g.leanType(t))
		}
	}
	sc.level = 1
	if st == nil {
		g.curSt, g.curRecv = nil, ""
		g.line(0, "/-- `func "+parts[1]+"` of "+parts[0]+" -/")
		ps := []string{}
		for i := range names {
			ps = append(ps, "("+names[i]+" : "+types[i]+")")
		}
		g.line(0, "def "+g.leanName(key)+" {Time : Type} "+pzParams+" "+strings.Join(ps, " ")+" : Except Panic ("+rt+") := do")
		for _, c := range copies {
			g.line(1, c)
		}
		g.body(1, sc, fd.Body.List)
		g.line(0, "")
		return g.b.String()
	}
	r := fd.Recv.List[0]
	recvT := typeString(r.Type)
	if len(r.Names) != 1 || (recvT != "*"+st.name && recvT != st.name) {
		g.fail("receiver of %s", key)
		return ""
	}
	rv := r.Names[0].Name
	g.curSt, g.curRecv = st, rv
	sc.types[rv] = "recv:" + st.name
	sc.depth[rv] = 0
	sc.lean[rv] = pzIdent(rv)
	g.used[rv]++
	g.line(0, "/-- `func ("+rv+" "+recvT+") "+parts[1]+"` -/")
	if st.inductive {
		sig := append([]string{g.structRef(st.name)}, types...)
		g.line(0, "def "+key+" {Time : Type} "+pzParams+" : "+strings.Join(sig, " → ")+" → Except Panic ("+rt+")")
		pats := []string{}
		for _, f := range st.fields {
			pats = append(pats, pzIdent(rv)+"_"+f.name)
		}
		g.line(1, "| "+strings.Join(append([]string{pzIdent(rv) + "@(.mk " + strings.Join(pats, " ") + ")"}, names...), ", ")+" => do")
		for _, c := range copies {
			g.line(2, c)
		}
		g.body(2, sc, fd.Body.List)
	} else {
		ps := []string{"(" + pzIdent(rv) + " : " + g.structRef(st.name) + ")"}
		for i := range names {
			ps = append(ps, "("+names[i]+" : "+types[i]+")")
		}
		g.line(0, "def "+key+" {Time : Type} "+pzParams+" "+strings.Join(ps, " ")+" : Except Panic ("+rt+") := do")
		for _, c := range copies {
			g.line(1, c)
		}
		g.body(1, sc, fd.Body.List)
	}
	g.line(0, "")
	return g.b.String()
}

/* the dynamic dispatch of method m through interface `iface`: one arm per implementer */
func (g *pz) dispatchDef(iface, m string) string {
	first := g.structs[g.impls[iface][0]].methods[m]
	names, types := []string{}, []string{}
	for _, p := range first.Type.Params.List {
		for _, n := range p.Names {
			names = append(names, pzIdent(n.Name))
			types = append(types, g.leanType(typeString(p.Type)))
		}
	}
	ts, rt := g.results(first)
	g.line(0, "/-- `x."+m+"(…)` for `x "+iface+"`: the method of the dynamic type -/")
	g.line(0, "def "+iface+"."+m+" {Time : Type} "+pzParams+" : "+strings.Join(append([]string{iface + " Time"}, types...), " → ")+" → Except Panic ("+rt+")")
	for _, impl := range g.impls[iface] {
		fd := g.structs[impl].methods[m]
		ts2, _ := g.results(fd)
		call := strings.Join(append([]string{impl + "." + m, pzArgs, "v_"}, names...), " ")
		if strings.Join(ts, ",") != strings.Join(ts2, ",") || strings.Join(pzParamTypes(fd), ",") != strings.Join(pzParamTypes(first), ",") {
			call = g.fail("signature of %s.%s differs from the interface's", impl, m)
		}
		g.line(1, "| "+strings.Join(append([]string{"(." + slCtor(impl) + " v_)"}, names...), ", ")+" => "+call)
	}
	g.line(0, "")
	return g.b.String()
}

/* ---------- the packages ---------- */

func translatePresent(root string, wanted []string, styleDone, ansiDone []string) (string, []string) {
	g := &pz{root: root, structs: map[string]*pzStruct{}, ifaces: map[string][]string{}, impls: map[string][]string{},
		pkgFuncs: map[string]*ast.FuncDecl{}, extFuncs: map[string]map[string]*ast.FuncDecl{"style": {}, "ansi": {}},
		done: map[string]map[string]bool{"style": {}, "ansi": {}}, linkDecl: map[string]*ast.FuncDecl{}}
	g.b = &strings.Builder{}
	g.cur = "package pub"
	for _, n := range styleDone {
		g.done["style"][n] = true
	}
	for _, n := range ansiDone {
		g.done["ansi"][n] = true
	}
	for pkg, rel := range map[string]string{"style": "style/style.go", "ansi": "ansi/ansi.go"} {
		for _, d := range parseFile(root, rel).Decls {
			if fd, ok := d.(*ast.FuncDecl); ok && fd.Recv == nil && fd.Body != nil {
				g.extFuncs[pkg][fd.Name.Name] = fd
			}
		}
	}
	names, _ := filepath.Glob(filepath.Join(root, "pub", "*.go"))
	sort.Strings(names)
	declOrder := []string{}
	files := []*ast.File{}
	for _, p := range names {
		if strings.HasSuffix(p, "_test.go") || strings.HasSuffix(p, "verif_shim.go") {
			continue
		}
		rel, _ := filepath.Rel(root, p)
		f := parseFile(root, rel)
		files = append(files, f)
		for _, d := range f.Decls {
			gd, ok := d.(*ast.GenDecl)
			if !ok || gd.Tok != token.TYPE {
				continue
			}
			for _, sp := range gd.Specs {
				ts := sp.(*ast.TypeSpec)
				switch t := ts.Type.(type) {
				case *ast.InterfaceType:
					ms := []string{}
					for _, m := range t.Methods.List {
						for _, n := range m.Names {
							ms = append(ms, n.Name)
						}
					}
					g.ifaces[ts.Name.Name] = ms
				case *ast.StructType:
					st := &pzStruct{name: ts.Name.Name, fieldIx: map[string]int{}, read: map[string]bool{}, methods: map[string]*ast.FuncDecl{}}
					for _, fl := range t.Fields.List {
						for _, n := range fl.Names {
							st.fieldIx[n.Name] = len(st.fields)
							st.fields = append(st.fields, pzField{n.Name, typeString(fl.Type)})
						}
					}
					g.structs[st.name] = st
					declOrder = append(declOrder, st.name)
				}
			}
		}
	}
	for _, f := range files {
		for _, d := range f.Decls {
			fd, ok := d.(*ast.FuncDecl)
			if !ok || fd.Body == nil {
				continue
			}
			if fd.Recv == nil {
				g.pkgFuncs[fd.Name.Name] = fd
				continue
			}
			rt := strings.TrimPrefix(typeString(fd.Recv.List[0].Type), "*")
			if st, ok := g.structs[rt]; ok {
				st.methods[fd.Name.Name] = fd
			}
		}
	}
	if st, ok := g.structs["Link"]; ok {
		g.linkDecl = st.methods
		delete(g.structs, "Link") // its translation is GenLink's
	}
	for in, ms := range g.ifaces {
		for _, sn := range declOrder {
			st := g.structs[sn]
			has := len(ms) > 0 && st != nil
			for _, m := range ms {
				if st == nil || st.methods[m] == nil {
					has = false
				}
			}
			if has {
				g.impls[in] = append(g.impls[in], sn)
			}
		}
		sort.Strings(g.impls[in])
	}

	/* the functions to translate: the ones asked for and what they call */
	for _, key := range wanted {
		if g.declOf(key) == nil {
			g.fail("%s not found", key)
			continue
		}
		g.want = append(g.want, key)
	}
	deps := map[string][]string{}
	for i := 0; i < len(g.want); i++ {
		key := g.want[i]
		for _, c := range g.callees(key) {
			if g.declOf(c) == nil {
				continue
			}
			deps[key] = append(deps[key], c)
			if !pzHas(g.want, c) {
				g.want = append(g.want, c)
			}
		}
	}

	/* the fields each struct's translated methods read */
	needed := map[string]bool{}
	for _, key := range g.want {
		parts := strings.SplitN(key, ".", 2)
		st := g.structs[parts[0]]
		if st == nil {
			continue
		}
		needed[st.name] = true
		fd := st.methods[parts[1]]
		if len(fd.Recv.List[0].Names) != 1 {
			continue
		}
		rv := fd.Recv.List[0].Names[0].Name
		ast.Inspect(fd.Body, func(n ast.Node) bool {
			if se, ok := n.(*ast.SelectorExpr); ok && exprString(se.X) == rv {
				if _, ok := st.fieldIx[se.Sel.Name]; ok {
					st.read[se.Sel.Name] = true
				}
			}
			return true
		})
	}
	for in := range g.ifaces {
		used := false
		for _, key := range g.want {
			if strings.HasPrefix(key, in+".") {
				used = true
			}
		}
		if used {
			for _, impl := range g.impls[in] {
				needed[impl] = true
			}
		}
	}
	order := []string{}
	mentionsIface := func(t string) bool {
		t = strings.TrimPrefix(t, "[]")
		_, ok := g.ifaces[t]
		return ok
	}
	for _, sn := range declOrder {
		st := g.structs[sn]
		if st == nil {
			continue
		}
		if !needed[sn] {
			delete(g.structs, sn)
			continue
		}
		kept := []pzField{}
		st.fieldIx = map[string]int{}
		for _, f := range st.fields {
			if st.read[f.name] {
				st.fieldIx[f.name] = len(kept)
				kept = append(kept, f)
				if mentionsIface(f.goType) {
					st.inductive = true
				}
			}
		}
		st.fields = kept
		order = append(order, sn)
	}
	/* which structs mention time.Time (directly, through a struct, or through an interface) */
	for changed := true; changed; {
		changed = false
		for _, sn := range order {
			st := g.structs[sn]
			if st.needsTime {
				continue
			}
			for _, f := range st.fields {
				t := strings.TrimPrefix(strings.TrimPrefix(f.goType, "[]"), "*")
				if t == "time.Time" || mentionsIface(t) || (g.structs[t] != nil && g.structs[t].needsTime) {
					st.needsTime = true
					changed = true
				}
			}
		}
	}

	var out strings.Builder
	out.WriteString("set_option linter.unusedVariables false\n\nnamespace GenPresent\n\n")
	/* a structure after the structures its fields mention */
	plain := []string{}
	var place func(sn string)
	place = func(sn string) {
		st := g.structs[sn]
		if st == nil || st.inductive || pzHas(plain, sn) {
			return
		}
		for _, f := range st.fields {
			if t := strings.TrimPrefix(strings.TrimPrefix(f.goType, "[]"), "*"); t != sn {
				place(t)
			}
		}
		plain = append(plain, sn)
	}
	for _, sn := range order {
		place(sn)
	}
	for _, sn := range plain {
		st := g.structs[sn]
		out.WriteString("/-- `type " + sn + " struct`, the fields the translated methods read -/\n")
		tp := ""
		if st.needsTime {
			tp = " (Time : Type)"
		}
		out.WriteString("structure " + sn + tp + " where\n")
		for _, fl := range st.fields {
			out.WriteString("  " + fl.name + " : " + g.leanType(fl.goType) + "\n")
		}
		out.WriteString("\n")
	}
	usedIfaces := []string{}
	for in := range g.ifaces {
		for _, sn := range order {
			for _, f := range g.structs[sn].fields {
				if strings.TrimPrefix(f.goType, "[]") == in && !pzHas(usedIfaces, in) {
					usedIfaces = append(usedIfaces, in)
				}
			}
		}
	}
	sort.Strings(usedIfaces)
	if len(usedIfaces) > 0 {
		out.WriteString("mutual\n")
		for _, in := range usedIfaces {
			out.WriteString("/-- `type " + in + " interface`: a value is one of the types of the package that have its methods -/\n")
			out.WriteString("inductive " + in + " (Time : Type) where\n")
			for _, impl := range g.impls[in] {
				if g.structs[impl] == nil {
					g.fail("implementer %s of %s is not translated", impl, in)
					continue
				}
				out.WriteString("  | " + slCtor(impl) + " (v : " + g.structRef(impl) + ")\n")
			}
		}
		for _, sn := range order {
			st := g.structs[sn]
			if !st.inductive {
				continue
			}
			out.WriteString("/-- `type " + sn + " struct`, the fields the translated methods read -/\n")
			out.WriteString("inductive " + sn + " (Time : Type) where\n")
			fs := []string{}
			for _, fl := range st.fields {
				fs = append(fs, "("+fl.name+" : "+g.leanType(fl.goType)+")")
			}
			out.WriteString("  | mk " + strings.Join(fs, " ") + "\n")
		}
		out.WriteString("end\n\n")
	}

	/* callees first; a cycle is one mutual block (Tarjan) */
	index := map[string]int{}
	low := map[string]int{}
	onStack := map[string]bool{}
	stack := []string{}
	next := 0
	sccs := [][]string{}
	var strong func(v string)
	strong = func(v string) {
		next++
		index[v], low[v] = next, next
		stack = append(stack, v)
		onStack[v] = true
		for _, w := range deps[v] {
			if index[w] == 0 {
				strong(w)
				if low[w] < low[v] {
					low[v] = low[w]
				}
			} else if onStack[w] && index[w] < low[v] {
				low[v] = index[w]
			}
		}
		if low[v] == index[v] {
			comp := []string{}
			for {
				w := stack[len(stack)-1]
				stack = stack[:len(stack)-1]
				onStack[w] = false
				comp = append(comp, w)
				if w == v {
					break
				}
			}
			sort.Strings(comp)
			sccs = append(sccs, comp)
		}
	}
	sorted := append([]string{}, g.want...)
	sort.Strings(sorted)
	for _, k := range sorted {
		if index[k] == 0 {
			strong(k)
		}
	}
	bodies := []string{}
	for _, comp := range sccs {
		selfRec := len(comp) > 1 || pzHas(deps[comp[0]], comp[0])
		var b strings.Builder
		if selfRec {
			b.WriteString("mutual\n")
		}
		for _, key := range comp {
			b.WriteString(g.function(key))
		}
		if selfRec {
			b.WriteString("end\n\n")
		}
		bodies = append(bodies, b.String())
	}
	if len(g.layouts) > 0 {
		qs := []string{}
		for _, l := range g.layouts {
			qs = append(qs, leanStr(l))
		}
		out.WriteString("/-- the layouts the code hands to `time.Time.Format`, in the order met. In a layout of package time `2` is the day of\n    the month without padding, `Jan` the abbreviated English month name, `2006` the year in four digits. -/\n")
		out.WriteString("def layouts : List String := [" + strings.Join(qs, ", ") + "]\n\n")
	}
	for _, b := range bodies {
		out.WriteString(b)
	}
	out.WriteString("end GenPresent\n")
	return out.String(), g.errs
}
