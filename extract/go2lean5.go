package main

/*
go2lean, fifth front end: pub/link.go — a struct whose fields come in Go's `(x, xErr)` pairs,
its constructor, its methods and the selection loop — translated to Lean terms over the same
result type the model uses (`Obj.R α = Except Obj.Err α`).

  struct       a field `x T` followed somewhere by `xErr error` becomes ONE field `x : Obj.R T'`:
               `.ok v` when `xErr == nil`, `.error e` otherwise (the value next to a non-nil error
               is not carried: the translator refuses every read of `r.x` that is not inside a
               branch where `r.xErr` has been tested to be nil). Other fields keep their type.
               Pointer receivers and `[]*Link` elements are taken to be non-nil.
  results      `(T, error)`      -> `Obj.R T'`  (`return v, nil` / `return _, E`: the value next to
                                   an error is dropped)
               `(A, B, bool)`    -> `Option (A' × B')`  (`…, true` / `…, false`)
               a function that indexes or slices a slice returns `Except Panic (…)` around it:
               `s[i]` and `s[k:]` are `Go.index` / `Go.sliceFrom` with their panic
  errors       classified where they are built, as in the third front end: `object.ErrKeyNotPresent`
               -> `Obj.Err.absent`; `errors.New`, `fmt.Errorf` without `%w`, package error variables
               built by `errors.New` -> `Obj.Err.wrong`; `%w` takes the class of the wrapped operand;
               error variables and error fields are passed on unchanged
  tests        `r.xErr == nil` / `!= nil` as the condition of an `if` -> `match r.x with | .ok v | .error e`
               (inside the branches `r.x` is `v`, `r.xErr` is `e`); `errors.Is(r.xErr, E)` ->
               `decide (e = E')` where e is known, `Go.errIs r.x E'` otherwise
  statements   every statement consumes the rest of its block (continuation style, no joins):
               `var`, `=`, `:=`, `if`/`else if`/`else` with or without init, `return`,
               `v, err := call` + `if err != nil { … }`, `x, ok := y.(T)`,
               `l := &S{}` + assignments to `l.f` / `l.f, l.fErr` / `l.fErr` + `return l, nil`
               (the struct is assembled at the return from what was assigned on that path; a field
               not assigned on the path is untranslatable, never a zero value),
               `for _, e := range s { … }` -> a recursive definition `F_loop` over the list whose
               parameters are the variables the body and the rest of the function use;
               `continue` and the end of the body are the recursive call with the current values,
               the statements after the loop are the `[]` case
  arithmetic   `uint64`: `a * b` is `(a * b % 18446744073709551616)`, `+` likewise, `-` is `Go.usub`
  externals    o.GetString/GetNumber/GetMediaType/GetURL -> `Obj.get*` (GetURL takes the library
               parameter `L`), u.String() -> `Go.urlString` (a parsed URL is represented by its
               String()), mime.Unknown / mime.UnknownSubtype -> `Mime.*`, strings.ToLower ->
               `Link.lower`, slices.Contains([]string{…}, x) -> `List.contains […] x`,
               m.Essence / m.Supertype / m.Subtype -> the model's field names

Everything outside this makes the translator emit `sorry_untranslatable`, an unknown identifier
that also contains a forbidden word: the generated file no longer builds.
*/

import (
	"fmt"
	"go/ast"
	"go/token"
	"os"
	"path/filepath"
	"sort"
	"strconv"
	"strings"
)

type lkField struct {
	name   string
	goType string
	pair   bool
}

type lkLoop struct {
	fn      string
	vars    []string
	restVar string
}

type lkScope struct {
	order []string
	types map[string]string
	depth map[string]int
	level int
	known map[string]string            // "x.f" -> "ok:<lean var>" | "err:<lean var>"
	build map[string]map[string]string // struct under construction: variable -> field -> Lean term
	loop  *lkLoop
}

func newLkScope() *lkScope {
	return &lkScope{types: map[string]string{}, depth: map[string]int{}, known: map[string]string{}, build: map[string]map[string]string{}}
}

func (s *lkScope) clone() *lkScope {
	c := &lkScope{order: append([]string{}, s.order...), types: map[string]string{}, depth: map[string]int{}, level: s.level,
		known: map[string]string{}, build: map[string]map[string]string{}, loop: s.loop}
	for k, v := range s.types {
		c.types[k] = v
	}
	for k, v := range s.depth {
		c.depth[k] = v
	}
	for k, v := range s.known {
		c.known[k] = v
	}
	for k, v := range s.build {
		m := map[string]string{}
		for a, b := range v {
			m[a] = b
		}
		c.build[k] = m
	}
	return c
}

func (s *lkScope) declare(name, typ string) {
	if _, ok := s.types[name]; !ok {
		s.order = append(s.order, name)
	}
	s.types[name] = typ
	s.depth[name] = s.level
	s.forget(name)
}

/* the variable now holds another value: what was known about its fields is void */
func (s *lkScope) forget(name string) {
	for k := range s.known {
		if strings.HasPrefix(k, name+".") {
			delete(s.known, k)
		}
	}
}

/* end of a nested block: its variables go out of scope */
type lkPop struct {
	*ast.EmptyStmt
	level int
}

type lkHoist struct{ v, call string }

type lk struct {
	b          *strings.Builder
	errs       []string
	structName string
	fields     []lkField
	fieldIx    map[string]int
	funcs      map[string]*ast.FuncDecl
	needsL     map[string]bool
	panics     map[string]bool
	pkgErrs    map[string]string
	cur        string
	loops      int
	pending    []string
	hoists     []lkHoist
	fresh      int
}

type lkCont func(ind int, sc *lkScope)

func (g *lk) fail(format string, a ...any) string {
	msg := fmt.Sprintf(format, a...)
	g.errs = append(g.errs, g.cur+": "+msg)
	return "(sorry_untranslatable /- " + strings.ReplaceAll(msg, "-/", "- /") + " -/)"
}

func (g *lk) line(ind int, s string) { g.b.WriteString(strings.Repeat("  ", ind) + s + "\n") }

var lkKeywords = map[string]bool{"at": true, "from": true, "end": true, "open": true, "then": true, "with": true, "fun": true,
	"match": true, "matches": true, "do": true, "have": true, "show": true, "in": true, "by": true, "local": true, "instance": true, "section": true}

func lkIdent(n string) string {
	if lkKeywords[n] {
		return "«" + n + "»"
	}
	return n
}

/* ---------- types ---------- */

func (g *lk) leanType(t string) string {
	switch t {
	case "string":
		return "Str"
	case "uint64":
		return "Nat"
	case "bool":
		return "Bool"
	case "int":
		return "Int"
	case "any":
		return "JVal"
	case "map[string]any", "object.Object":
		return "List (Str × JVal)"
	case "*mime.MediaType":
		return "Mime.MediaType"
	case "*url.URL":
		return "_root_.Link.Url"
	case "error":
		return "Obj.Err"
	}
	if t == "*"+g.structName {
		return g.structName
	}
	if strings.HasPrefix(t, "[]") {
		return "List " + parenT(g.leanType(t[2:]))
	}
	return g.fail("type %s", t)
}

func (g *lk) zero(t string) string {
	switch t {
	case "string":
		return `(Go.str "")`
	case "uint64", "int":
		return "0"
	case "bool":
		return "false"
	}
	return g.fail("zero value of %s", t)
}

/* result shape of a function: "R" (T, error) or "Opt" (A, B, bool) */
func (g *lk) resKind(fd *ast.FuncDecl) (string, string, []string) {
	ts := []string{}
	if fd.Type.Results != nil {
		for _, r := range fd.Type.Results.List {
			n := len(r.Names)
			if n == 0 {
				n = 1
			}
			for i := 0; i < n; i++ {
				ts = append(ts, typeString(r.Type))
			}
		}
	}
	if len(ts) == 2 && ts[1] == "error" {
		return "R", "Obj.R " + parenT(g.leanType(ts[0])), ts
	}
	if len(ts) == 3 && ts[2] == "bool" {
		return "Opt", "Option (" + g.leanType(ts[0]) + " × " + g.leanType(ts[1]) + ")", ts
	}
	return "?", g.fail("result list of %s", fd.Name.Name), ts
}

func (g *lk) resType(fn string) string {
	_, t, _ := g.resKind(g.funcs[fn])
	if g.panics[fn] {
		return "Except Panic (" + t + ")"
	}
	return t
}

/* a finished result of the current function */
func (g *lk) leaf(s string) string {
	if g.panics[g.cur] {
		return ".ok (" + s + ")"
	}
	return s
}

/* ---------- error expressions ---------- */

func lkClassifyPkgErr(init ast.Expr) string {
	if ce, ok := init.(*ast.CallExpr); ok {
		switch exprString(ce.Fun) {
		case "errors.New":
			return "Obj.Err.wrong"
		case "fmt.Errorf":
			if len(ce.Args) > 0 {
				if bl, ok := ce.Args[0].(*ast.BasicLit); ok && !strings.Contains(bl.Value, "%w") {
					return "Obj.Err.wrong"
				}
			}
		}
	}
	return ""
}

/* package-level `var E = errors.New(…)` of the directory the file lives in */
func lkPackageErrors(root, dir string) map[string]string {
	out := map[string]string{}
	names, _ := filepath.Glob(filepath.Join(root, dir, "*.go"))
	sort.Strings(names)
	for _, p := range names {
		if strings.HasSuffix(p, "_test.go") || strings.HasSuffix(p, "verif_shim.go") {
			continue
		}
		rel, _ := filepath.Rel(root, p)
		if _, err := os.Stat(p); err != nil {
			continue
		}
		f := parseFile(root, rel)
		for _, d := range f.Decls {
			gd, ok := d.(*ast.GenDecl)
			if !ok || gd.Tok != token.VAR {
				continue
			}
			for _, sp := range gd.Specs {
				vs, ok := sp.(*ast.ValueSpec)
				if !ok || len(vs.Names) != len(vs.Values) {
					continue
				}
				for i, n := range vs.Names {
					if c := lkClassifyPkgErr(vs.Values[i]); c != "" {
						out[n.Name] = c
					}
				}
			}
		}
	}
	return out
}

func (g *lk) errConst(e ast.Expr) (string, bool) {
	switch exprString(e) {
	case "object.ErrKeyNotPresent":
		return "Obj.Err.absent", true
	case "object.ErrKeyWrongType":
		return "Obj.Err.wrong", true
	}
	if id, ok := e.(*ast.Ident); ok {
		if c, ok := g.pkgErrs[id.Name]; ok {
			return c, true
		}
	}
	return "", false
}

func (g *lk) errExpr(sc *lkScope, e ast.Expr) string {
	if c, ok := g.errConst(e); ok {
		return c
	}
	switch x := e.(type) {
	case *ast.Ident:
		if sc.types[x.Name] == "error" {
			return lkIdent(x.Name)
		}
	case *ast.SelectorExpr:
		if _, key, ok := g.errField(sc, x); ok {
			if k, ok := sc.known[key]; ok && strings.HasPrefix(k, "err:") {
				return k[4:]
			}
			return g.fail("%s used as an error where it is not known to be non-nil", exprString(x))
		}
	case *ast.CallExpr:
		switch exprString(x.Fun) {
		case "errors.New":
			return "Obj.Err.wrong"
		case "fmt.Errorf":
			format := ""
			if len(x.Args) > 0 {
				if bl, ok := x.Args[0].(*ast.BasicLit); ok {
					format = bl.Value
				}
			}
			if format == "" {
				return g.fail("format of fmt.Errorf")
			}
			if !strings.Contains(format, "%w") {
				return "Obj.Err.wrong"
			}
			/* the operand that belongs to %w: count the verbs before it */
			pos := 0
			for i := 0; i+1 < len(format); i++ {
				if format[i] != '%' {
					continue
				}
				if format[i+1] == '%' {
					i++
					continue
				}
				if format[i+1] == 'w' {
					break
				}
				pos++
			}
			if 1+pos < len(x.Args) {
				return g.errExpr(sc, x.Args[1+pos])
			}
			return g.fail("operand of %%w")
		}
	}
	return g.fail("error expression %s", exprString(e))
}

/* `r.xErr` where x is a paired field: the Lean term of the pair and the key of what is known */
func (g *lk) errField(sc *lkScope, e ast.Expr) (string, string, bool) {
	se, ok := e.(*ast.SelectorExpr)
	if !ok || !strings.HasSuffix(se.Sel.Name, "Err") {
		return "", "", false
	}
	f := strings.TrimSuffix(se.Sel.Name, "Err")
	ix, ok := g.fieldIx[f]
	if !ok || !g.fields[ix].pair {
		return "", "", false
	}
	id, ok := se.X.(*ast.Ident)
	if !ok || sc.types[id.Name] != "*"+g.structName {
		return "", "", false
	}
	if b, building := sc.build[id.Name]; building {
		if t, ok := b[f]; ok {
			return t, id.Name + "." + f, true
		}
		return g.fail("%s.%s tested before it is assigned", id.Name, f), id.Name + "." + f, true
	}
	return lkIdent(id.Name) + "." + f, id.Name + "." + f, true
}

/* ---------- expressions ---------- */

func isNilIdent(e ast.Expr) bool {
	id, ok := e.(*ast.Ident)
	return ok && id.Name == "nil"
}

func lkNumeric(t string) bool { return t == "uint64" || t == "int" || t == "int-literal" }

func lkSameNumeric(a, b string) (string, bool) {
	if !lkNumeric(a) || !lkNumeric(b) {
		return "", false
	}
	if a == "int-literal" {
		return b, b != "int-literal"
	}
	if b == "int-literal" || a == b {
		return a, true
	}
	return "", false
}

func (g *lk) expr(sc *lkScope, e ast.Expr) (string, string) {
	switch x := e.(type) {
	case *ast.ParenExpr:
		s, t := g.expr(sc, x.X)
		return s, t
	case *ast.Ident:
		switch x.Name {
		case "true", "false":
			return x.Name, "bool"
		case "nil":
			return g.fail("nil as a value"), "?"
		}
		if t, ok := sc.types[x.Name]; ok {
			if _, building := sc.build[x.Name]; building {
				return g.fail("%s used as a value while it is being filled in", x.Name), "?"
			}
			return lkIdent(x.Name), t
		}
		return g.fail("identifier %s", x.Name), "?"
	case *ast.BasicLit:
		switch x.Kind {
		case token.STRING:
			s, err := strconv.Unquote(x.Value)
			if err != nil {
				return g.fail("string literal %s", x.Value), "?"
			}
			return "(Go.str " + leanStr(s) + ")", "string"
		case token.INT:
			if _, err := strconv.ParseUint(x.Value, 10, 64); err == nil {
				return x.Value, "int-literal"
			}
		}
		return g.fail("literal %s", x.Value), "?"
	case *ast.UnaryExpr:
		if x.Op == token.NOT {
			s, t := g.expr(sc, x.X)
			if t == "bool" {
				return "(!" + s + ")", "bool"
			}
		}
		return g.fail("expression %s", exprString(e)), "?"
	case *ast.BinaryExpr:
		return g.binary(sc, x)
	case *ast.SelectorExpr:
		return g.selector(sc, x)
	case *ast.CallExpr:
		return g.call(sc, x)
	case *ast.IndexExpr:
		s, t := g.expr(sc, x.X)
		i, it := g.expr(sc, x.Index)
		if strings.HasPrefix(t, "[]") && (it == "int" || it == "int-literal") {
			return g.hoist("Go.index " + s + " " + i), t[2:]
		}
		return g.fail("index expression %s", exprString(e)), "?"
	case *ast.SliceExpr:
		s, t := g.expr(sc, x.X)
		if strings.HasPrefix(t, "[]") && !x.Slice3 {
			if x.Low != nil && x.High == nil {
				lo, lt := g.expr(sc, x.Low)
				if lt == "int" || lt == "int-literal" {
					return g.hoist("Go.sliceFrom " + s + " " + lo), t
				}
			}
			if x.Low == nil && x.High != nil {
				hi, ht := g.expr(sc, x.High)
				if ht == "int" || ht == "int-literal" {
					return g.hoist("Go.sliceTo " + s + " " + hi), t
				}
			}
		}
		return g.fail("slice expression %s", exprString(e)), "?"
	}
	return g.fail("expression %s", exprString(e)), "?"
}

/* an operation that can panic: evaluated before the statement it occurs in */
func (g *lk) hoist(call string) string {
	if !g.panics[g.cur] {
		return g.fail("panicking operation in a function not marked as such")
	}
	g.fresh++
	v := fmt.Sprintf("x%d_", g.fresh)
	g.hoists = append(g.hoists, lkHoist{v, call})
	return v
}

func (g *lk) flush(ind int) int {
	for _, h := range g.hoists {
		g.line(ind, "match "+h.call+" with")
		g.line(ind, "| .error p_ => .error p_")
		g.line(ind, "| .ok "+h.v+" =>")
		ind++
	}
	g.hoists = nil
	return ind
}

func (g *lk) binary(sc *lkScope, x *ast.BinaryExpr) (string, string) {
	/* r.xErr == nil / != nil inside a larger condition */
	if (x.Op == token.EQL || x.Op == token.NEQ) && isNilIdent(x.Y) {
		if pair, key, ok := g.errField(sc, x.X); ok {
			t := "(Go.errNil " + pair + ")"
			if k, known := sc.known[key]; known {
				t = strconv.FormatBool(strings.HasPrefix(k, "ok:"))
			}
			if x.Op == token.NEQ {
				return "(!" + t + ")", "bool"
			}
			return t, "bool"
		}
		return g.fail("comparison with nil: %s", exprString(x)), "?"
	}
	l, lt := g.expr(sc, x.X)
	r, rt := g.expr(sc, x.Y)
	switch x.Op {
	case token.LOR, token.LAND:
		if lt == "bool" && rt == "bool" {
			op := map[token.Token]string{token.LOR: "||", token.LAND: "&&"}[x.Op]
			return "(" + l + " " + op + " " + r + ")", "bool"
		}
	case token.EQL, token.NEQ:
		op := map[token.Token]string{token.EQL: "=", token.NEQ: "≠"}[x.Op]
		_, num := lkSameNumeric(lt, rt)
		if num || (lt == rt && (lt == "string" || lt == "bool")) {
			return "decide (" + l + " " + op + " " + r + ")", "bool"
		}
	case token.LSS, token.GTR, token.LEQ, token.GEQ:
		op := map[token.Token]string{token.LSS: "<", token.GTR: ">", token.LEQ: "≤", token.GEQ: "≥"}[x.Op]
		if _, num := lkSameNumeric(lt, rt); num {
			return "decide (" + l + " " + op + " " + r + ")", "bool"
		}
	case token.MUL, token.ADD:
		op := map[token.Token]string{token.MUL: "*", token.ADD: "+"}[x.Op]
		if t, num := lkSameNumeric(lt, rt); num && t == "uint64" {
			return "((" + l + " " + op + " " + r + ") % 18446744073709551616)", "uint64"
		}
	case token.SUB:
		if t, num := lkSameNumeric(lt, rt); num && t == "uint64" {
			return "(Go.usub " + l + " " + r + ")", "uint64"
		}
	}
	return g.fail("expression %s (%s, %s)", exprString(x), lt, rt), "?"
}

var lkMimeFields = map[string]string{"Essence": "essence", "Supertype": "supertype", "Subtype": "subtype"}

func (g *lk) selector(sc *lkScope, x *ast.SelectorExpr) (string, string) {
	/* r.f on the struct */
	if id, ok := x.X.(*ast.Ident); ok && sc.types[id.Name] == "*"+g.structName {
		f := x.Sel.Name
		ix, isField := g.fieldIx[f]
		if !isField {
			return g.fail("field %s", exprString(x)), "?"
		}
		fd := g.fields[ix]
		if b, building := sc.build[id.Name]; building {
			if !fd.pair {
				if t, ok := b[f]; ok {
					return t, fd.goType
				}
			}
			return g.fail("%s read while %s is being filled in", exprString(x), id.Name), "?"
		}
		if !fd.pair {
			return lkIdent(id.Name) + "." + f, fd.goType
		}
		if k, ok := sc.known[id.Name+"."+f]; ok && strings.HasPrefix(k, "ok:") {
			return k[3:], fd.goType
		}
		return g.fail("%s read where %sErr is not known to be nil", exprString(x), exprString(x)), "?"
	}
	s, t := g.expr(sc, x.X)
	if t == "*mime.MediaType" {
		if f, ok := lkMimeFields[x.Sel.Name]; ok {
			return s + "." + f, "string"
		}
	}
	return g.fail("selector %s", exprString(x)), "?"
}

/* calls whose result is one plain value */
func (g *lk) call(sc *lkScope, x *ast.CallExpr) (string, string) {
	name := exprString(x.Fun)
	arg := func(i int) (string, string) { return g.expr(sc, x.Args[i]) }
	switch {
	case name == "len" && len(x.Args) == 1:
		s, t := arg(0)
		if strings.HasPrefix(t, "[]") {
			return "(Go.len " + s + ")", "int"
		}
	case name == "slices.Contains" && len(x.Args) == 2:
		if cl, ok := x.Args[0].(*ast.CompositeLit); ok && typeString(cl.Type) == "[]string" {
			els := []string{}
			for _, el := range cl.Elts {
				s, t := g.expr(sc, el)
				if t != "string" {
					s = g.fail("element of the literal in slices.Contains")
				}
				els = append(els, s)
			}
			s, t := arg(1)
			if t == "string" {
				return "(List.contains [" + strings.Join(els, ", ") + "] " + s + ")", "bool"
			}
		}
	case name == "mime.Unknown" && len(x.Args) == 0:
		return "Mime.unknown", "*mime.MediaType"
	case name == "mime.UnknownSubtype" && len(x.Args) == 1:
		s, t := arg(0)
		if t == "string" {
			return "(Mime.unknownSubtype " + s + ")", "*mime.MediaType"
		}
	case name == "strings.ToLower" && len(x.Args) == 1:
		s, t := arg(0)
		if t == "string" {
			return "(_root_.Link.lower " + s + ")", "string"
		}
	case name == "object.Object" && len(x.Args) == 1:
		s, t := arg(0)
		if t == "map[string]any" {
			return s, "object.Object"
		}
	}
	if se, ok := x.Fun.(*ast.SelectorExpr); ok && se.Sel.Name == "String" && len(x.Args) == 0 {
		s, t := g.expr(sc, se.X)
		if t == "*url.URL" {
			return "(Go.urlString " + s + ")", "string"
		}
	}
	return g.fail("call %s", name), "?"
}

var lkObjCalls = map[string][3]string{
	/* method -> Lean function, needs L, Go type of the value */
	"GetString":    {"Obj.getString", "", "string"},
	"GetNumber":    {"Obj.getNumber", "", "uint64"},
	"GetMediaType": {"Obj.getMediaType", "", "*mime.MediaType"},
	"GetURL":       {"Obj.getURL", "L", "*url.URL"},
}

/* a call of one of the file's own functions: the Lean application and the Go result types */
func (g *lk) ownCall(sc *lkScope, x *ast.CallExpr) (string, *ast.FuncDecl, bool) {
	var fd *ast.FuncDecl
	args := []string{}
	switch fn := x.Fun.(type) {
	case *ast.Ident:
		fd = g.funcs[fn.Name]
		if fd == nil || fd.Recv != nil {
			return "", nil, false
		}
	case *ast.SelectorExpr:
		fd = g.funcs[fn.Sel.Name]
		if fd == nil || fd.Recv == nil {
			return "", nil, false
		}
		s, t := g.expr(sc, fn.X)
		if t != "*"+g.structName {
			return "", nil, false
		}
		args = append(args, s)
	default:
		return "", nil, false
	}
	params := []string{}
	for _, p := range fd.Type.Params.List {
		for range p.Names {
			params = append(params, typeString(p.Type))
		}
	}
	if len(params) != len(x.Args) {
		return g.fail("arity of the call of %s", fd.Name.Name), fd, true
	}
	for i, a := range x.Args {
		s, t := g.expr(sc, a)
		if t != params[i] {
			s = g.fail("argument %d of %s: %s for %s", i, fd.Name.Name, t, params[i])
		}
		args = append(args, s)
	}
	if g.panics[fd.Name.Name] {
		return g.fail("call of %s, which can panic", fd.Name.Name), fd, true
	}
	head := fd.Name.Name
	if g.needsL[head] {
		head += " L"
	}
	return "(" + head + " " + strings.Join(args, " ") + ")", fd, true
}

/* a call that returns (value, error): a Lean term of type `Obj.R _` and the Go type of the value */
func (g *lk) callR(sc *lkScope, x *ast.CallExpr) (string, string) {
	if se, ok := x.Fun.(*ast.SelectorExpr); ok {
		if id, ok := se.X.(*ast.Ident); ok && (sc.types[id.Name] == "object.Object") {
			if ent, ok := lkObjCalls[se.Sel.Name]; ok && len(x.Args) == 1 {
				k, kt := g.expr(sc, x.Args[0])
				if kt == "string" {
					head := ent[0]
					if ent[1] != "" {
						head += " " + ent[1]
					}
					return "(" + head + " " + lkIdent(id.Name) + " " + k + ")", ent[2]
				}
			}
		}
	}
	if s, fd, ok := g.ownCall(sc, x); ok {
		kind, _, ts := g.resKind(fd)
		if kind == "R" {
			return s, ts[0]
		}
	}
	return g.fail("call %s as a (value, error) result", exprString(x.Fun)), "?"
}

/* ---------- statements ---------- */

func lkConcat(a, b []ast.Stmt) []ast.Stmt { return append(append([]ast.Stmt{}, a...), b...) }

func (g *lk) nested(sc *lkScope, body []ast.Stmt, rest []ast.Stmt) (*lkScope, []ast.Stmt) {
	c := sc.clone()
	c.level++
	out := lkConcat(body, []ast.Stmt{&lkPop{&ast.EmptyStmt{}, sc.level}})
	return c, lkConcat(out, rest)
}

func (g *lk) structLit(sc *lkScope, v string) string {
	b := sc.build[v]
	parts := []string{}
	for _, f := range g.fields {
		t, ok := b[f.name]
		if !ok {
			t = g.fail("field %s of %s is not assigned on this path (its zero value is not representable)", f.name, v)
		}
		parts = append(parts, f.name+" := "+t)
	}
	return "{ " + strings.Join(parts, ", ") + " }"
}

func (g *lk) ret(ind int, sc *lkScope, rs *ast.ReturnStmt) {
	kind, _, ts := g.resKind(g.funcs[g.cur])
	/* return f(…) with the same result shape */
	if len(rs.Results) == 1 {
		if ce, ok := rs.Results[0].(*ast.CallExpr); ok {
			if s, fd, ok := g.ownCall(sc, ce); ok {
				k2, _, ts2 := g.resKind(fd)
				if k2 == kind && strings.Join(ts, ",") == strings.Join(ts2, ",") {
					ind = g.flush(ind)
					g.line(ind, g.leaf(s))
					return
				}
			}
		}
		g.line(ind, g.fail("return %s", exprString(rs.Results[0])))
		return
	}
	switch kind {
	case "R":
		if len(rs.Results) != 2 {
			break
		}
		if !isNilIdent(rs.Results[1]) {
			e := g.errExpr(sc, rs.Results[1])
			g.line(ind, g.leaf(".error "+e))
			return
		}
		if id, ok := rs.Results[0].(*ast.Ident); ok {
			if _, building := sc.build[id.Name]; building && ts[0] == "*"+g.structName {
				g.line(ind, g.leaf(".ok "+g.structLit(sc, id.Name)))
				return
			}
		}
		s, t := g.expr(sc, rs.Results[0])
		if t != ts[0] {
			s = g.fail("returned value of type %s for %s", t, ts[0])
		}
		ind = g.flush(ind)
		g.line(ind, g.leaf(".ok "+s))
		return
	case "Opt":
		if len(rs.Results) != 3 {
			break
		}
		switch exprString(rs.Results[2]) {
		case "false":
			g.line(ind, g.leaf("none"))
			return
		case "true":
			a, at := g.expr(sc, rs.Results[0])
			b, bt := g.expr(sc, rs.Results[1])
			if at != ts[0] || bt != ts[1] {
				a = g.fail("returned values of types %s, %s for %s, %s", at, bt, ts[0], ts[1])
			}
			ind = g.flush(ind)
			g.line(ind, g.leaf("some ("+a+", "+b+")"))
			return
		}
	}
	g.line(ind, g.fail("return statement"))
}

func (g *lk) loopCall(sc *lkScope) string {
	parts := []string{sc.loop.fn}
	if g.needsL[g.cur] {
		parts = append(parts, "L")
	}
	for _, v := range sc.loop.vars {
		parts = append(parts, lkIdent(v))
	}
	return strings.Join(append(parts, sc.loop.restVar), " ")
}

/* assignment to one or two fields of the struct under construction; returns false if it is not one */
func (g *lk) buildAssign(ind int, sc *lkScope, s *ast.AssignStmt) (int, bool) {
	field := func(e ast.Expr) (string, string, bool) {
		se, ok := e.(*ast.SelectorExpr)
		if !ok {
			return "", "", false
		}
		id, ok := se.X.(*ast.Ident)
		if !ok {
			return "", "", false
		}
		if _, building := sc.build[id.Name]; !building {
			return "", "", false
		}
		return id.Name, se.Sel.Name, true
	}
	v, f, ok := field(s.Lhs[0])
	if !ok || s.Tok != token.ASSIGN || len(s.Rhs) != 1 {
		return ind, false
	}
	leanVar := lkIdent(v + "_" + strings.TrimSuffix(f, "Err"))
	if len(s.Lhs) == 2 {
		/* l.x, l.xErr = call */
		v2, f2, ok2 := field(s.Lhs[1])
		ix, isField := g.fieldIx[f]
		ce, isCall := s.Rhs[0].(*ast.CallExpr)
		if !ok2 || v2 != v || f2 != f+"Err" || !isField || !g.fields[ix].pair || !isCall {
			g.line(ind, g.fail("assignment to %s, %s", exprString(s.Lhs[0]), exprString(s.Lhs[1])))
			return ind, true
		}
		t, vt := g.callR(sc, ce)
		if vt != g.fields[ix].goType {
			t = g.fail("%s of type %s assigned a %s", exprString(s.Lhs[0]), g.fields[ix].goType, vt)
		}
		ind = g.flush(ind)
		g.line(ind, "let "+leanVar+" := "+t)
		sc.build[v][f] = leanVar
		return ind, true
	}
	if strings.HasSuffix(f, "Err") {
		/* l.xErr = E: the pair is that error */
		base := strings.TrimSuffix(f, "Err")
		if ix, isField := g.fieldIx[base]; isField && g.fields[ix].pair {
			if isNilIdent(s.Rhs[0]) {
				g.line(ind, g.fail("%s = nil", exprString(s.Lhs[0])))
				return ind, true
			}
			e := g.errExpr(sc, s.Rhs[0])
			g.line(ind, "let "+leanVar+" : Obj.R "+parenT(g.leanType(g.fields[ix].goType))+" := .error "+e)
			sc.build[v][base] = leanVar
			return ind, true
		}
	}
	if ix, isField := g.fieldIx[f]; isField && !g.fields[ix].pair {
		t, vt := g.expr(sc, s.Rhs[0])
		if vt != g.fields[ix].goType {
			t = g.fail("%s of type %s assigned a %s", exprString(s.Lhs[0]), g.fields[ix].goType, vt)
		}
		ind = g.flush(ind)
		g.line(ind, "let "+leanVar+" := "+t)
		sc.build[v][f] = leanVar
		return ind, true
	}
	g.line(ind, g.fail("assignment to %s", exprString(s.Lhs[0])))
	return ind, true
}

func (g *lk) block(ind int, sc *lkScope, list []ast.Stmt, k lkCont) {
	if len(list) == 0 {
		k(ind, sc)
		return
	}
	st, rest := list[0], list[1:]
	switch s := st.(type) {
	case *lkPop:
		for name, d := range sc.depth {
			if d > s.level {
				delete(sc.types, name)
				delete(sc.depth, name)
				delete(sc.build, name)
				sc.forget(name)
				for i, o := range sc.order {
					if o == name {
						sc.order = append(append([]string{}, sc.order[:i]...), sc.order[i+1:]...)
						break
					}
				}
			}
		}
		sc.level = s.level
		g.block(ind, sc, rest, k)
	case *ast.ReturnStmt:
		g.ret(ind, sc, s)
	case *ast.BranchStmt:
		if s.Tok == token.CONTINUE && s.Label == nil && sc.loop != nil {
			g.line(ind, g.loopCall(sc))
			return
		}
		g.line(ind, g.fail("statement %s", s.Tok))
	case *ast.DeclStmt:
		gd, ok := s.Decl.(*ast.GenDecl)
		if !ok || gd.Tok != token.VAR {
			g.line(ind, g.fail("declaration"))
			return
		}
		for _, sp := range gd.Specs {
			vs, ok := sp.(*ast.ValueSpec)
			if !ok || len(vs.Values) != 0 || vs.Type == nil {
				g.line(ind, g.fail("declaration with initial values"))
				return
			}
			t := typeString(vs.Type)
			for _, n := range vs.Names {
				if d, exists := sc.depth[n.Name]; exists && d < sc.level {
					g.line(ind, g.fail("%s shadows an outer variable", n.Name))
					return
				}
				sc.declare(n.Name, t)
				if t != "error" { // a nil error variable is never read before it is assigned by the idioms below
					g.line(ind, "let "+lkIdent(n.Name)+" : "+g.leanType(t)+" := "+g.zero(t))
				}
			}
		}
		g.block(ind, sc, rest, k)
	case *ast.AssignStmt:
		g.assign(ind, sc, s, rest, k)
	case *ast.IfStmt:
		g.ifChain(ind, sc, s, rest, k)
	case *ast.RangeStmt:
		g.rangeLoop(ind, sc, s, rest, k)
	default:
		g.line(ind, g.fail("statement %T", st))
	}
}

func (g *lk) checkDefine(sc *lkScope, names ...string) bool {
	for _, n := range names {
		if d, exists := sc.depth[n]; exists && d < sc.level {
			return false
		}
	}
	return true
}

func (g *lk) assign(ind int, sc *lkScope, s *ast.AssignStmt, rest []ast.Stmt, k lkCont) {
	if ind2, ok := g.buildAssign(ind, sc, s); ok {
		g.block(ind2, sc, rest, k)
		return
	}
	if len(s.Rhs) != 1 {
		g.line(ind, g.fail("assignment with several right-hand sides"))
		return
	}
	/* l := &S{} */
	if ue, ok := s.Rhs[0].(*ast.UnaryExpr); ok && ue.Op == token.AND && len(s.Lhs) == 1 && s.Tok == token.DEFINE {
		if cl, ok := ue.X.(*ast.CompositeLit); ok && typeString(cl.Type) == g.structName && len(cl.Elts) == 0 {
			if id, ok := s.Lhs[0].(*ast.Ident); ok && g.checkDefine(sc, id.Name) {
				sc.declare(id.Name, "*"+g.structName)
				sc.build[id.Name] = map[string]string{}
				g.block(ind, sc, rest, k)
				return
			}
		}
	}
	lhsIdents := []string{}
	for _, l := range s.Lhs {
		id, ok := l.(*ast.Ident)
		if !ok {
			g.line(ind, g.fail("assignment to %s", exprString(l)))
			return
		}
		lhsIdents = append(lhsIdents, id.Name)
	}
	if s.Tok == token.DEFINE {
		if !g.checkDefine(sc, lhsIdents...) {
			g.line(ind, g.fail(":= shadows an outer variable (%s)", strings.Join(lhsIdents, ", ")))
			return
		}
	} else if s.Tok != token.ASSIGN {
		g.line(ind, g.fail("assignment operator %s", s.Tok))
		return
	} else {
		for _, n := range lhsIdents {
			if _, ok := sc.types[n]; !ok {
				g.line(ind, g.fail("assignment to unknown %s", n))
				return
			}
		}
	}
	if len(lhsIdents) == 2 {
		a, b := lhsIdents[0], lhsIdents[1]
		switch r := s.Rhs[0].(type) {
		case *ast.TypeAssertExpr:
			/* x, ok := y.(T) */
			y, yt := g.expr(sc, r.X)
			t := typeString(r.Type)
			suffix := map[string]string{"map[string]any": "map", "string": "string", "[]any": "list"}[t]
			if yt != "any" || suffix == "" {
				g.line(ind, g.fail("type assertion %s.(%s)", exprString(r.X), t))
				return
			}
			ind = g.flush(ind)
			g.line(ind, "let ("+lkIdent(a)+", "+lkIdent(b)+") := Go.assert_"+suffix+" "+y)
			sc.declare(a, t)
			sc.declare(b, "bool")
			g.block(ind, sc, rest, k)
			return
		case *ast.CallExpr:
			/* v, err := call ; if err != nil { … } */
			if len(rest) > 0 {
				if is, ok := rest[0].(*ast.IfStmt); ok && is.Init == nil && is.Else == nil && exprString(is.Cond) == b+"!=nil" {
					t, vt := g.callR(sc, r)
					if s.Tok == token.ASSIGN && sc.types[a] != vt {
						t = g.fail("%s of type %s assigned a %s", a, sc.types[a], vt)
					}
					ind = g.flush(ind)
					g.line(ind, "match "+t+" with")
					g.line(ind, "| .error "+lkIdent(b)+" => (")
					scE := sc.clone()
					scE.declare(b, "error")
					scE2, body := g.nested(scE, is.Body.List, rest[1:])
					g.block(ind+1, scE2, body, k)
					g.line(ind+1, ")")
					g.line(ind, "| .ok "+lkIdent(a)+" =>")
					sc.declare(a, vt)
					sc.declare(b, "error") // nil from here on: any use is a Lean error (unbound)
					g.block(ind+1, sc, rest[1:], k)
					return
				}
			}
		}
		g.line(ind, g.fail("two-value assignment %s, %s", a, b))
		return
	}
	if len(lhsIdents) == 1 {
		a := lhsIdents[0]
		t, vt := g.expr(sc, s.Rhs[0])
		if s.Tok == token.ASSIGN && sc.types[a] != vt && !(vt == "int-literal" && lkNumeric(sc.types[a])) {
			t = g.fail("%s of type %s assigned a %s", a, sc.types[a], vt)
		}
		if s.Tok == token.DEFINE && vt == "int-literal" {
			vt = "int"
		}
		ind = g.flush(ind)
		g.line(ind, "let "+lkIdent(a)+" := "+t)
		if s.Tok == token.DEFINE {
			sc.declare(a, vt)
		} else {
			sc.forget(a)
		}
		g.block(ind, sc, rest, k)
		return
	}
	g.line(ind, g.fail("assignment"))
}

func (g *lk) ifChain(ind int, sc *lkScope, s *ast.IfStmt, rest []ast.Stmt, k lkCont) {
	thenB := func(ind int, sc *lkScope) {
		c, body := g.nested(sc, s.Body.List, rest)
		g.block(ind, c, body, k)
	}
	elseB := func(ind int, sc *lkScope) {
		switch e := s.Else.(type) {
		case nil:
			g.block(ind, sc.clone(), rest, k)
		case *ast.IfStmt:
			g.ifChain(ind, sc.clone(), e, rest, k)
		case *ast.BlockStmt:
			c, body := g.nested(sc, e.List, rest)
			g.block(ind, c, body, k)
		default:
			g.line(ind, g.fail("else branch"))
		}
	}
	if s.Init != nil {
		g.ifInit(ind, sc, s, thenB, elseB)
		return
	}
	/* r.xErr == nil / != nil: a match that names the value or the error */
	if be, ok := s.Cond.(*ast.BinaryExpr); ok && (be.Op == token.EQL || be.Op == token.NEQ) && isNilIdent(be.Y) {
		if pair, key, ok := g.errField(sc, be.X); ok {
			if _, known := sc.known[key]; !known {
				base := strings.ReplaceAll(key, ".", "_")
				okArm := func(ind int, last bool) {
					c := sc.clone()
					c.known[key] = "ok:" + base + "_v"
					g.arm(ind, "| .ok "+base+"_v =>", last, func(ind int) {
						if be.Op == token.EQL {
							thenB(ind, c)
						} else {
							elseB(ind, c)
						}
					})
				}
				errArm := func(ind int, last bool) {
					c := sc.clone()
					c.known[key] = "err:" + base + "_e"
					g.arm(ind, "| .error "+base+"_e =>", last, func(ind int) {
						if be.Op == token.EQL {
							elseB(ind, c)
						} else {
							thenB(ind, c)
						}
					})
				}
				g.line(ind, "match "+pair+" with")
				if be.Op == token.EQL {
					okArm(ind, false)
					errArm(ind, true)
				} else {
					errArm(ind, false)
					okArm(ind, true)
				}
				return
			}
		}
	}
	cond := g.cond(sc, s.Cond)
	ind = g.flush(ind)
	g.line(ind, "if "+cond+" then (")
	thenB(ind+1, sc)
	g.line(ind+1, ") else")
	elseB(ind+1, sc)
}

/*
one alternative of a match; all but the last are parenthesised so that a match inside them

	does not take the alternatives that follow
*/
func (g *lk) arm(ind int, head string, last bool, body func(ind int)) {
	if last {
		g.line(ind, head)
		body(ind + 1)
		return
	}
	g.line(ind, head+" (")
	body(ind + 1)
	g.line(ind+1, ")")
}

func (g *lk) cond(sc *lkScope, e ast.Expr) string {
	/* errors.Is(r.xErr, E) */
	if ce, ok := e.(*ast.CallExpr); ok && exprString(ce.Fun) == "errors.Is" && len(ce.Args) == 2 {
		target, isConst := g.errConst(ce.Args[1])
		if !isConst {
			return g.fail("target of errors.Is: %s", exprString(ce.Args[1]))
		}
		if pair, key, ok := g.errField(sc, ce.Args[0]); ok {
			if kn, known := sc.known[key]; known {
				if strings.HasPrefix(kn, "err:") {
					return "decide (" + kn[4:] + " = " + target + ")"
				}
				return "false"
			}
			return "(Go.errIs " + pair + " " + target + ")"
		}
		if id, ok := ce.Args[0].(*ast.Ident); ok && sc.types[id.Name] == "error" {
			return "decide (" + lkIdent(id.Name) + " = " + target + ")"
		}
		return g.fail("errors.Is on %s", exprString(ce.Args[0]))
	}
	switch x := e.(type) {
	case *ast.ParenExpr:
		return "(" + g.cond(sc, x.X) + ")"
	case *ast.UnaryExpr:
		if x.Op == token.NOT {
			return "(!" + g.cond(sc, x.X) + ")"
		}
	case *ast.BinaryExpr:
		if x.Op == token.LAND {
			return "(" + g.cond(sc, x.X) + " && " + g.cond(sc, x.Y) + ")"
		}
		if x.Op == token.LOR {
			return "(" + g.cond(sc, x.X) + " || " + g.cond(sc, x.Y) + ")"
		}
	}
	s, t := g.expr(sc, e)
	if t != "bool" {
		return g.fail("condition %s", exprString(e))
	}
	return s
}

/* if a, err = call; err != nil { … } else … */
func (g *lk) ifInit(ind int, sc *lkScope, s *ast.IfStmt, thenB, elseB lkCont) {
	as, ok := s.Init.(*ast.AssignStmt)
	if !ok || len(as.Lhs) != 2 || len(as.Rhs) != 1 {
		g.line(ind, g.fail("if-init form"))
		return
	}
	errId, ok := as.Lhs[1].(*ast.Ident)
	ce, isCall := as.Rhs[0].(*ast.CallExpr)
	if !ok || !isCall || exprString(s.Cond) != errId.Name+"!=nil" {
		g.line(ind, g.fail("if-init form"))
		return
	}
	if as.Tok == token.ASSIGN && sc.types[errId.Name] != "error" {
		g.line(ind, g.fail("if-init assigns to %s, which is not an error variable", errId.Name))
		return
	}
	t, vt := g.callR(sc, ce)
	ind = g.flush(ind)
	scOk, scErr := sc.clone(), sc.clone()
	scErr.declare(errId.Name, "error")
	bound := ""
	switch l := as.Lhs[0].(type) {
	case *ast.Ident:
		if as.Tok == token.ASSIGN && sc.types[l.Name] != vt {
			t = g.fail("%s of type %s assigned a %s", l.Name, sc.types[l.Name], vt)
		}
		bound = lkIdent(l.Name)
		scOk.declare(l.Name, vt)
	case *ast.SelectorExpr:
		id, isId := l.X.(*ast.Ident)
		ix, isField := g.fieldIx[l.Sel.Name]
		if !isId || !isField || g.fields[ix].pair || as.Tok != token.ASSIGN {
			g.line(ind, g.fail("if-init assigns to %s", exprString(l)))
			return
		}
		if _, building := sc.build[id.Name]; !building {
			g.line(ind, g.fail("if-init assigns to %s", exprString(l)))
			return
		}
		if g.fields[ix].goType != vt {
			t = g.fail("%s of type %s assigned a %s", exprString(l), g.fields[ix].goType, vt)
		}
		bound = lkIdent(id.Name + "_" + l.Sel.Name)
		scOk.build[id.Name][l.Sel.Name] = bound
		/* Go has stored the value before the test: the error branch sees it too, but a value next
		   to an error is not carried, so the field stays unassigned there */
	default:
		g.line(ind, g.fail("if-init assigns to %s", exprString(as.Lhs[0])))
		return
	}
	g.line(ind, "match "+t+" with")
	g.arm(ind, "| .error "+lkIdent(errId.Name)+" =>", false, func(ind int) { thenB(ind, scErr) })
	g.arm(ind, "| .ok "+bound+" =>", true, func(ind int) { elseB(ind, scOk) })
}

func lkIdentsUsed(nodes []ast.Stmt) map[string]bool {
	out := map[string]bool{}
	for _, n := range nodes {
		if _, isPop := n.(*lkPop); isPop {
			continue
		}
		ast.Inspect(n, func(x ast.Node) bool {
			if id, ok := x.(*ast.Ident); ok {
				out[id.Name] = true
			}
			return true
		})
	}
	return out
}

func (g *lk) rangeLoop(ind int, sc *lkScope, s *ast.RangeStmt, rest []ast.Stmt, k lkCont) {
	if sc.loop != nil {
		g.line(ind, g.fail("nested loop"))
		return
	}
	val, ok := s.Value.(*ast.Ident)
	if !ok || s.Tok != token.DEFINE || (s.Key != nil && exprString(s.Key) != "_") || !g.checkDefine(sc, val.Name) {
		g.line(ind, g.fail("form of the range statement"))
		return
	}
	seq, seqT := g.expr(sc, s.X)
	if !strings.HasPrefix(seqT, "[]") {
		g.line(ind, g.fail("range over %s", seqT))
		return
	}
	elemT := seqT[2:]
	ind = g.flush(ind)

	realRest := []ast.Stmt{}
	for _, r := range rest {
		realRest = append(realRest, r)
	}
	used := lkIdentsUsed(append([]ast.Stmt{s.Body}, realRest...))
	vars := []string{}
	for _, v := range sc.order {
		if _, building := sc.build[v]; building {
			if used[v] {
				g.line(ind, g.fail("%s is still being filled in at the loop", v))
				return
			}
			continue
		}
		if used[v] && sc.types[v] != "error" {
			vars = append(vars, v)
		}
	}
	g.loops++
	name := g.cur + "_loop"
	if g.loops > 1 {
		name += strconv.Itoa(g.loops)
	}
	restVar := "rest_"

	save := g.b
	g.b = &strings.Builder{}
	params := []string{}
	if g.needsL[g.cur] {
		params = append(params, "(L : Obj.Libs Time _root_.Link.Url)")
	}
	for _, v := range vars {
		params = append(params, "("+lkIdent(v)+" : "+g.leanType(sc.types[v])+")")
	}
	g.line(0, "/-- the loop of `"+g.cur+"` over `"+exprString(s.X)+"`: the variables it reads and writes, then the elements still to visit -/")
	g.line(0, "def "+name+" "+strings.Join(params, " ")+" : List "+parenT(g.leanType(elemT))+" → "+g.resType(g.cur))
	base := newLkScope()
	base.level = sc.level
	for _, v := range vars {
		base.declare(v, sc.types[v])
		base.depth[v] = sc.depth[v]
	}
	/* after the loop */
	g.line(1, "| [] => (")
	g.block(2, base.clone(), rest, k)
	g.line(2, ")")
	/* one iteration */
	g.line(1, "| "+lkIdent(val.Name)+" :: "+restVar+" =>")
	body := base.clone()
	body.loop = &lkLoop{fn: name, vars: vars, restVar: restVar}
	body.level++
	body.declare(val.Name, elemT)
	g.block(2, body, s.Body.List, func(ind int, sc *lkScope) { g.line(ind, g.loopCall(sc)) })
	g.line(0, "")
	g.pending = append(g.pending, g.b.String())
	g.b = save

	call := []string{name}
	if g.needsL[g.cur] {
		call = append(call, "L")
	}
	for _, v := range vars {
		call = append(call, lkIdent(v))
	}
	g.line(ind, strings.Join(append(call, seq), " "))
}

/* ---------- functions, file ---------- */

func (g *lk) function(fd *ast.FuncDecl) string {
	g.cur = fd.Name.Name
	g.loops = 0
	g.fresh = 0
	g.hoists = nil
	g.pending = nil
	g.b = &strings.Builder{}
	sc := newLkScope()
	params := []string{}
	if g.needsL[g.cur] {
		params = append(params, "(L : Obj.Libs Time _root_.Link.Url)")
	}
	add := func(name, t string) {
		sc.declare(name, t)
		params = append(params, "("+lkIdent(name)+" : "+g.leanType(t)+")")
	}
	if fd.Recv != nil {
		r := fd.Recv.List[0]
		if len(r.Names) != 1 || typeString(r.Type) != "*"+g.structName {
			g.fail("receiver of %s", g.cur)
		} else {
			add(r.Names[0].Name, "*"+g.structName)
		}
	}
	for _, p := range fd.Type.Params.List {
		for _, n := range p.Names {
			add(n.Name, typeString(p.Type))
		}
	}
	doc := "/-- `func " + g.cur + "`"
	if g.panics[g.cur] {
		doc += " (indexes or slices: the outer `Except Panic` is Go's run-time panic)"
	}
	g.line(0, doc+" -/")
	g.line(0, "def "+g.cur+" "+strings.Join(params, " ")+" : "+g.resType(g.cur)+" :=")
	sc.level = 1
	g.block(1, sc, fd.Body.List, func(ind int, sc *lkScope) { g.line(ind, g.fail("control reaches the end of %s", g.cur)) })
	g.line(0, "")
	return strings.Join(g.pending, "") + g.b.String()
}

func translateLink(root, rel string) (string, []string) {
	f := parseFile(root, rel)
	g := &lk{fieldIx: map[string]int{}, funcs: map[string]*ast.FuncDecl{}, needsL: map[string]bool{}, panics: map[string]bool{}}
	g.b = &strings.Builder{}
	g.pkgErrs = lkPackageErrors(root, filepath.Dir(rel))
	var out strings.Builder
	out.WriteString("set_option linter.unusedVariables false\n\nnamespace GenLink\n\nvariable {Time : Type}\n\n")

	/* the struct */
	nStructs := 0
	for _, d := range f.Decls {
		gd, ok := d.(*ast.GenDecl)
		if !ok || gd.Tok != token.TYPE {
			continue
		}
		for _, sp := range gd.Specs {
			ts := sp.(*ast.TypeSpec)
			st, ok := ts.Type.(*ast.StructType)
			if !ok {
				g.fail("type declaration %s", ts.Name.Name)
				continue
			}
			nStructs++
			if nStructs > 1 {
				g.fail("second struct %s", ts.Name.Name)
				continue
			}
			g.structName = ts.Name.Name
			all := []lkField{}
			for _, fl := range st.Fields.List {
				if len(fl.Names) == 0 {
					g.fail("embedded field")
				}
				for _, n := range fl.Names {
					all = append(all, lkField{name: n.Name, goType: typeString(fl.Type)})
				}
			}
			isErrOf := map[string]bool{}
			for _, a := range all {
				if a.goType == "error" && strings.HasSuffix(a.name, "Err") {
					isErrOf[strings.TrimSuffix(a.name, "Err")] = true
				}
			}
			seen := map[string]bool{}
			for _, a := range all {
				if a.goType == "error" && strings.HasSuffix(a.name, "Err") {
					continue
				}
				a.pair = isErrOf[a.name]
				seen[a.name] = true
				g.fieldIx[a.name] = len(g.fields)
				g.fields = append(g.fields, a)
			}
			for base := range isErrOf {
				if !seen[base] {
					g.fail("field %sErr has no value field %s", base, base)
				}
			}
		}
	}
	if g.structName == "" {
		g.fail("no struct in %s", rel)
		g.structName = "Link"
	}
	out.WriteString("/-- `type " + g.structName + " struct`: a pair `x`, `xErr` is one field holding either the value or the error -/\n")
	out.WriteString("structure " + g.structName + " where\n")
	for _, fl := range g.fields {
		t := g.leanType(fl.goType)
		if fl.pair {
			t = "Obj.R " + parenT(t)
		}
		out.WriteString("  " + fl.name + " : " + t + "\n")
	}
	out.WriteString("\n")

	/* the functions, callees first */
	order := []string{}
	for _, d := range f.Decls {
		if fd, ok := d.(*ast.FuncDecl); ok && fd.Body != nil {
			if fd.Type.TypeParams != nil {
				g.fail("generic function %s", fd.Name.Name)
				continue
			}
			g.funcs[fd.Name.Name] = fd
			order = append(order, fd.Name.Name)
		}
	}
	calls := map[string][]string{}
	for _, n := range order {
		fd := g.funcs[n]
		ast.Inspect(fd.Body, func(x ast.Node) bool {
			switch c := x.(type) {
			case *ast.CallExpr:
				callee := ""
				switch fn := c.Fun.(type) {
				case *ast.Ident:
					callee = fn.Name
				case *ast.SelectorExpr:
					callee = fn.Sel.Name
					if callee == "GetURL" || callee == "GetTime" {
						g.needsL[n] = true
					}
				}
				if _, own := g.funcs[callee]; own && callee != n {
					calls[n] = append(calls[n], callee)
				}
			case *ast.IndexExpr, *ast.SliceExpr:
				g.panics[n] = true
			}
			return true
		})
	}
	for changed := true; changed; {
		changed = false
		for _, n := range order {
			for _, c := range calls[n] {
				if g.needsL[c] && !g.needsL[n] {
					g.needsL[n] = true
					changed = true
				}
			}
		}
	}
	done := map[string]bool{}
	visiting := map[string]bool{}
	var emit func(n string)
	emit = func(n string) {
		if done[n] {
			return
		}
		if visiting[n] {
			g.cur = n
			g.fail("recursion through %s", n)
			return
		}
		visiting[n] = true
		for _, c := range calls[n] {
			emit(c)
		}
		visiting[n] = false
		done[n] = true
		out.WriteString(g.function(g.funcs[n]))
	}
	for _, n := range order {
		emit(n)
	}
	out.WriteString("end GenLink\n")
	return out.String(), g.errs
}
