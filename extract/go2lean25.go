package main

/*
go2lean, twenty-fifth front end: main.go — `printRaw`, the goroutine that polls the terminal size,
the goroutine that runs the subcommand, the key loop and the start-up sequence of `main`.  Output:
lean/Generated/GoMain.lean, namespace GenMain; `Props/Gen16m.lean` proves it equal to the model
(`Model/Main.lean`), `Props/GenT16m.lean` carries C16 over to it, `Props/GenT01m.lean` C01.  From
ui/ui.go: `(*State).SetWidthHeight` (between `Lock()` and the deferred `Unlock()`: `if`, `return`,
`s.f = e` on the fields `Generated/GoView.lean` carries, `s.output(s.view())`) on `GenView.State`, and
the `width` / `height` of the struct `NewState` builds.

What the program does to the outside world (and to the interface state, through the exported
methods of `ui.State`) is recorded as a list of actions `Go.Term.Act` (Model/GoTerm.lean) in
program order; what the outside world hands back is a parameter of the translated function:

  got     what `term.GetSize` returned (width, height, error)
  raw     the error `term.MakeRaw` returned
  read    the bytes `os.Stdin.Read` delivered
  result  the error `state.Subcommand` returned
  werr    the error `os.Stdout.WriteString` returned (where the source binds it)
  args    os.Args

Five functions are produced.

  printRaw        `func printRaw(output string)`: the actions (one write) in `Except Panic`
  pollStep        one round of the loop of the goroutine `go func() { for { … } }()` that calls
                  `SetWidthHeight` (the closure's body must be that loop and nothing else)
  subcommandStep  the body of the goroutine `go func() { … }()` that calls `Subcommand`
  keyStep         one round of the `for { … }` that ends `main`
  start           `main` itself: the actions up to the loop, `Act.spawn` / `Act.loop` naming the
                  translated functions, and the values the variables each of them uses had then

A loop body or goroutine body is a function from the variables of `main` it mentions (a generated
structure `PollVars` / `SubVars` / `KeyVars`, whatever their number: a variable that is compared
but never assigned in the loop is a field that comes back unchanged) to a `Go.Term.Step`: the
variables afterwards, the actions, and `done` (the body returned / ended instead of going round).

What is read from the source:

  if c { … } else { … }                         (no init statement)
  a, b, e := term.GetSize(int(os.Stdin.Fd()))   Act.getSize; a, b, e are got.width, got.height, got.err
  t, e := term.MakeRaw(int(os.Stdin.Fd()))      Act.makeRaw; e is raw; t is the saved terminal state
  defer term.Restore(int(os.Stdin.Fd()), t)     Act.deferRestore (main only, t as above)
  term.Restore(int(os.Stdin.Fd()), t)           Act.restore
  s := ui.NewState(a, b, f)                     Act.newState a b "f"; f must be a translated function
  s.SetWidthHeight(a, b)                        Act.setWidthHeight a b
  s.Update(a) / go s.Update(a)                  Act.update a false / Act.update a true
  e = s.Subcommand(a, b)                        Act.subcommand a b; e is result
  time.Sleep(d)                                 Act.sleep d; time.Millisecond … are Go.Term.millisecond …
  os.Stdout.WriteString(x)                      Act.write x; `_, e := …` binds e to werr
  os.Stdin.Read(buf)                            buf := Go.Term.readInto buf read
  buf := make([]byte, n)                        Go.make
  printRaw(x)                                   the actions of the translated printRaw
  help()                                        Act.help
  os.Exit(n)                                    Act.exit n, and the function ends there
  panic(e)                                      throw
  return                                        (no results)
  go func() { … }()                             Act.spawn, see above
  for { … }                                     Act.loop (last statement of main only)
  x := e, x = e, x, y := e1, e2                 on int, byte, string, error, []byte locals
  expressions                                   literals, variables, == != < <= > >= (an error only with nil),
                                                && || ! (operands that cannot panic), + - *, len(os.Args), os.Args[i],
                                                buf[i], strings.ReplaceAll, e.Error()

Anything else is replaced by `sorry_untranslatable`, an undeclared identifier: the Lean build of
Generated/GoMain.lean fails, and with it `./check C16` and `./check C01`.
*/

import (
	"fmt"
	"go/ast"
	"go/token"
	"strings"
)

type m25fn struct {
	name    string
	doc     string
	varsTy  string /* "" for a function that returns the list of actions */
	varsDoc string
	body    string
	free    []string
	freeK   map[string]string
	params  map[string]bool
	strArgs []string /* printRaw: its own parameters */
}

type m25 struct {
	b        strings.Builder
	err      []string
	scopes   []map[string]string
	outer    map[string]string /* the variables of main visible to a closure / loop body */
	free     []string
	freeK    map[string]string
	params   map[string]bool
	stepMode bool /* the function returns a Step */
	oneShot  bool /* a goroutine body that is not a loop: falling off its end is `done` */
	inMain   bool
	tmp      int
	fns      []*m25fn
	captured map[string]bool
	spawned  map[string]bool
	known    map[string]bool   /* translated functions of the file (printRaw) */
	recv     string            /* ui.go: the receiver of the method being translated */
	fields   map[string]string /* ui.go: the fields of State the translated state carries, with their kinds */
	ended    bool              /* main: the final loop was seen */
}

func (g *m25) fail(format string, a ...any) string {
	msg := fmt.Sprintf(format, a...)
	g.err = append(g.err, msg)
	return "(sorry_untranslatable /- " + strings.ReplaceAll(msg, "-/", "- /") + " -/)"
}

func (g *m25) line(ind int, s string) { g.b.WriteString(strings.Repeat("  ", ind) + s + "\n") }
func (g *m25) bad(ind int, format string, a ...any) {
	g.line(ind, "let _ := "+g.fail(format, a...))
}
func (g *m25) act(ind int, a string) { g.line(ind, "acts := acts ++ ["+a+"]") }

func (g *m25) push() { g.scopes = append(g.scopes, map[string]string{}) }
func (g *m25) pop()  { g.scopes = g.scopes[:len(g.scopes)-1] }

/*
the kind of a variable: "" if unknown.  A variable of the enclosing function becomes a field of the

	variables structure the first time it is mentioned.
*/
func (g *m25) lookup(n string) string {
	for i := len(g.scopes) - 1; i >= 0; i-- {
		if k, ok := g.scopes[i][n]; ok {
			return k
		}
	}
	if k, ok := g.freeK[n]; ok {
		return k
	}
	if k, ok := g.outer[n]; ok {
		switch k {
		case "int", "byte", "bytes", "string", "error":
			g.free = append(g.free, n)
			g.freeK[n] = k
		}
		return k
	}
	return ""
}

func m25leanType(kind string) string {
	switch kind {
	case "int":
		return "Int"
	case "byte":
		return "Nat"
	case "bytes":
		return "(List Nat)"
	case "string":
		return "Str"
	case "error":
		return "(Option Str)"
	case "bool":
		return "Bool"
	}
	return ""
}

func m25reserved(n string) bool {
	switch n {
	case "acts", "v0", "got", "raw", "read", "result", "werr", "args", "printRaw", "pollStep", "subcommandStep", "keyStep", "start",
		"pollVars0_", "subVars0_", "keyVars0_", "Act", "Step", "SizeResult":
		return true
	}
	return false
}

func m25isStdinFd(e ast.Expr) bool {
	c, ok := e.(*ast.CallExpr)
	if !ok || len(c.Args) != 1 || exprString(c.Fun) != "int" {
		return false
	}
	c2, ok := c.Args[0].(*ast.CallExpr)
	return ok && len(c2.Args) == 0 && exprString(c2.Fun) == "os.Stdin.Fd"
}

func m25isByteSlice(e ast.Expr) bool {
	a, ok := e.(*ast.ArrayType)
	return ok && a.Len == nil && exprString(a.Elt) == "byte"
}

/* the receiver of a method call is the variable bound by ui.NewState */
func (g *m25) stateMethod(c *ast.CallExpr) string {
	sel, ok := c.Fun.(*ast.SelectorExpr)
	if !ok {
		return ""
	}
	id, ok := sel.X.(*ast.Ident)
	if !ok || g.lookup(id.Name) != "state" {
		return ""
	}
	return sel.Sel.Name
}

func (g *m25) param(p string) string {
	g.params[p] = true
	return p
}

/* a parameter that stands for the result of ONE external call: a second call in the same function has no parameter */
func (g *m25) paramOnce(ind int, p, what string) string {
	if g.params[p] {
		g.bad(ind, "a second %s in one function: its result has no parameter", what)
	}
	g.params[p] = true
	return p
}

func m25unify(a, b string) string {
	if a == b {
		return a
	}
	if a == "num" && (b == "int" || b == "byte") {
		return b
	}
	if b == "num" && (a == "int" || a == "byte") {
		return a
	}
	return ""
}

func (g *m25) expr(e ast.Expr) (string, string) {
	switch x := e.(type) {
	case *ast.ParenExpr:
		return g.expr(x.X)
	case *ast.BasicLit:
		switch x.Kind {
		case token.INT:
			return x.Value, "num"
		case token.STRING:
			return "(Go.str " + leanStr(unquote(x)) + ")", "string"
		}
		return g.fail("literal %s", x.Value), ""
	case *ast.Ident:
		switch x.Name {
		case "true", "false":
			return x.Name, "bool"
		}
		k := g.lookup(x.Name)
		switch k {
		case "int", "byte", "bytes", "string", "error", "bool":
			return x.Name, k
		}
		return g.fail("identifier %s", x.Name), ""
	case *ast.SelectorExpr:
		if id, ok := x.X.(*ast.Ident); ok && g.recv != "" && id.Name == g.recv && g.lookup(id.Name) == "" {
			if k, ok := g.fields[x.Sel.Name]; ok {
				return g.recv + "." + x.Sel.Name, k
			}
			return g.fail("field %s of the state is not carried", x.Sel.Name), ""
		}
		switch exprString(x) {
		case "time.Nanosecond":
			return "Go.Term.nanosecond", "int"
		case "time.Microsecond":
			return "Go.Term.microsecond", "int"
		case "time.Millisecond":
			return "Go.Term.millisecond", "int"
		case "time.Second":
			return "Go.Term.second", "int"
		}
		return g.fail("selector %s", exprString(x)), ""
	case *ast.UnaryExpr:
		a, k := g.expr(x.X)
		switch {
		case x.Op == token.NOT && k == "bool":
			return "(!" + a + ")", "bool"
		case x.Op == token.SUB && (k == "int" || k == "num"):
			return "(-" + a + ")", "int"
		}
		return g.fail("unary %s on %s", x.Op, exprString(x.X)), ""
	case *ast.IndexExpr:
		i, ik := g.expr(x.Index)
		if ik != "int" && ik != "num" {
			return g.fail("index %s", exprString(x.Index)), ""
		}
		if exprString(x.X) == "os.Args" {
			return "(← Go.index " + g.param("args") + " " + i + ")", "string"
		}
		a, k := g.expr(x.X)
		if k == "bytes" {
			return "(← Go.index " + a + " " + i + ")", "byte"
		}
		return g.fail("index into %s", exprString(x.X)), ""
	case *ast.CallExpr:
		fn := exprString(x.Fun)
		switch {
		case fn == "len" && len(x.Args) == 1 && exprString(x.Args[0]) == "os.Args":
			return "(Go.len " + g.param("args") + ")", "int"
		case fn == "len" && len(x.Args) == 1:
			a, k := g.expr(x.Args[0])
			if k == "bytes" {
				return "(Go.len " + a + ")", "int"
			}
		case fn == "strings.ReplaceAll" && len(x.Args) == 3:
			a, ka := g.expr(x.Args[0])
			b, kb := g.expr(x.Args[1])
			c, kc := g.expr(x.Args[2])
			if ka == "string" && kb == "string" && kc == "string" {
				return "(Go.Strings.replaceAll " + a + " " + b + " " + c + ")", "string"
			}
		case strings.HasSuffix(fn, ".Error") && len(x.Args) == 0:
			a, k := g.expr(x.Fun.(*ast.SelectorExpr).X)
			if k == "error" {
				return "(← Go.deref " + a + ")", "string"
			}
		}
		return g.fail("call %s", fn), ""
	case *ast.BinaryExpr:
		/* an error compared with nil */
		if x.Op == token.EQL || x.Op == token.NEQ {
			var other ast.Expr
			if exprString(x.Y) == "nil" {
				other = x.X
			} else if exprString(x.X) == "nil" {
				other = x.Y
			}
			if other != nil {
				a, k := g.expr(other)
				if k != "error" {
					return g.fail("%s compared with nil", exprString(other)), ""
				}
				if x.Op == token.NEQ {
					return a + ".isSome", "bool"
				}
				return a + ".isNone", "bool"
			}
		}
		a, ka := g.expr(x.X)
		b, kb := g.expr(x.Y)
		k := m25unify(ka, kb)
		switch x.Op {
		case token.LAND, token.LOR:
			if ka != "bool" || kb != "bool" {
				break
			}
			if strings.Contains(a, "←") || strings.Contains(b, "←") {
				return g.fail("an operand of %s that can panic: %s", x.Op, exprString(x)), ""
			}
			if x.Op == token.LAND {
				return "(" + a + " && " + b + ")", "bool"
			}
			return "(" + a + " || " + b + ")", "bool"
		case token.EQL, token.NEQ, token.LSS, token.LEQ, token.GTR, token.GEQ:
			ops := map[token.Token]string{token.EQL: "=", token.NEQ: "≠", token.LSS: "<", token.LEQ: "≤", token.GTR: ">", token.GEQ: "≥"}
			ordered := x.Op != token.EQL && x.Op != token.NEQ
			if k == "int" || k == "byte" || (k == "num") || (!ordered && (k == "string" || k == "bool")) {
				if k == "num" {
					a = "(" + a + " : Int)"
				}
				return "decide (" + a + " " + ops[x.Op] + " " + b + ")", "bool"
			}
		case token.ADD:
			if k == "string" {
				return "(" + a + " ++ " + b + ")", "string"
			}
			if k == "int" || k == "num" {
				return "(" + a + " + " + b + ")", k
			}
		case token.SUB, token.MUL:
			if k == "int" || k == "num" {
				return "(" + a + " " + x.Op.String() + " " + b + ")", k
			}
		}
		return g.fail("operator %s in %s", x.Op, exprString(x)), ""
	}
	return g.fail("expression %s", exprString(e)), ""
}

/* an expression that must have the given kind */
func (g *m25) exprOf(e ast.Expr, want string) string {
	a, k := g.expr(e)
	if k == want || (k == "num" && (want == "int" || want == "byte")) {
		return a
	}
	return g.fail("%s is not of kind %s", exprString(e), want)
}

/* bind the names on the left of `:=` / `=` to values of the given kinds */
func (g *m25) bind(ind int, define bool, lhs []ast.Expr, vals []string, kinds []string, parallel bool) {
	/* parallel assignment: the right-hand sides first */
	if parallel && len(lhs) > 1 {
		for i := range vals {
			if _, ok := lhs[i].(*ast.Ident); ok && lhs[i].(*ast.Ident).Name != "_" && m25leanType(kinds[i]) != "" {
				g.tmp++
				t := fmt.Sprintf("t%d_", g.tmp)
				g.line(ind, "let "+t+" : "+m25leanType(kinds[i])+" := "+vals[i])
				vals[i] = t
			}
		}
	}
	for i, l := range lhs {
		id, ok := l.(*ast.Ident)
		if !ok {
			g.bad(ind, "assignment to %s", exprString(l))
			continue
		}
		n := id.Name
		if n == "_" {
			continue
		}
		if m25reserved(n) || strings.HasSuffix(n, "_") {
			g.bad(ind, "the name %s is used by the translation", n)
			continue
		}
		kind := kinds[i]
		if kind == "num" {
			kind = "int"
		}
		cur := g.scopes[len(g.scopes)-1]
		_, here := cur[n]
		if define && !here {
			/* a new variable: it must not hide one the Lean block already has */
			hidden := false
			for j := 0; j < len(g.scopes)-1; j++ {
				if _, ok := g.scopes[j][n]; ok {
					hidden = true
				}
			}
			if _, ok := g.freeK[n]; ok {
				hidden = true
			}
			if hidden {
				g.bad(ind, "%s declared again in an inner block", n)
				continue
			}
			cur[n] = kind
			if kind == "state" || kind == "termstate" {
				continue
			}
			if m25leanType(kind) == "" {
				g.bad(ind, "no Lean type for %s", n)
				continue
			}
			g.line(ind, "let mut "+n+" : "+m25leanType(kind)+" := "+vals[i])
			continue
		}
		have := g.lookup(n)
		if have == "" {
			g.bad(ind, "assignment to unknown %s", n)
			continue
		}
		if have != kind || kind == "state" || kind == "termstate" {
			g.bad(ind, "%s (%s) assigned a value of kind %s", n, have, kind)
			continue
		}
		if g.inMain && g.captured[n] {
			g.bad(ind, "%s is assigned after a goroutine that uses it was started", n)
			continue
		}
		g.line(ind, n+" := "+vals[i])
	}
}

func (g *m25) ret(done bool) string {
	if !g.stepMode {
		if g.inMain {
			return "return { acts := acts, pollVars := pollVars0_, subVars := subVars0_, keyVars := keyVars0_ }"
		}
		return "return acts"
	}
	return fmt.Sprintf("return { vars := @@VARS@@, acts := acts, done := %v }", done)
}

func (g *m25) block(ind int, list []ast.Stmt) {
	g.push()
	n := g.b.Len()
	for i, st := range list {
		if g.stmt(ind, st) && i != len(list)-1 {
			g.bad(ind, "statements after one that does not return")
		}
	}
	if g.b.Len() == n {
		g.line(ind, "pure ()")
	}
	g.pop()
}

/* reports whether the statement ends the function (os.Exit, the final loop) */
func (g *m25) stmt(ind int, st ast.Stmt) bool {
	if g.inMain && g.ended {
		g.bad(ind, "a statement after the loop that ends main")
		return false
	}
	switch s := st.(type) {
	case *ast.IfStmt:
		if s.Init != nil {
			g.bad(ind, "if with an init statement")
			return false
		}
		g.line(ind, "if "+g.exprOf(s.Cond, "bool")+" then")
		g.block(ind+1, s.Body.List)
		switch e := s.Else.(type) {
		case nil:
		case *ast.BlockStmt:
			g.line(ind, "else")
			g.block(ind+1, e.List)
		case *ast.IfStmt:
			g.line(ind, "else")
			g.push()
			g.stmt(ind+1, e)
			g.pop()
		default:
			g.bad(ind, "else %T", e)
		}
		return false
	case *ast.ReturnStmt:
		if len(s.Results) != 0 {
			g.bad(ind, "return with results")
			return false
		}
		g.line(ind, g.ret(true))
		return false
	case *ast.DeferStmt:
		c := s.Call
		if exprString(c.Fun) == "term.Restore" && g.restoreArgs(c) && g.inMain && len(g.scopes) == 1 {
			g.act(ind, "Act.deferRestore")
			return false
		}
		g.bad(ind, "defer %s", exprString(c.Fun))
		return false
	case *ast.GoStmt:
		c := s.Call
		if g.stateMethod(c) == "Update" && len(c.Args) == 1 {
			g.act(ind, "Act.update "+g.exprOf(c.Args[0], "byte")+" true")
			return false
		}
		if lit, ok := c.Fun.(*ast.FuncLit); ok && len(c.Args) == 0 && len(lit.Type.Params.List) == 0 && g.inMain && len(g.scopes) == 1 {
			g.spawn(ind, lit)
			return false
		}
		g.bad(ind, "go %s", exprString(c.Fun))
		return false
	case *ast.ForStmt:
		if s.Init != nil || s.Cond != nil || s.Post != nil {
			g.bad(ind, "a loop with a condition")
			return false
		}
		if !g.inMain || len(g.scopes) != 1 {
			g.bad(ind, "a loop inside a translated body")
			return false
		}
		f := g.sub("keyStep", "KeyVars", "one round of the `for { … }` that ends `main`: `read` is what `os.Stdin.Read` delivered this round",
			"the variables of `main` that its final loop uses", s.Body.List, false)
		g.line(ind, "keyVars0_ := some "+g.capture(f, false))
		g.act(ind, "Act.loop \"keyStep\"")
		g.line(ind, g.ret(true))
		g.ended = true
		return false
	case *ast.ExprStmt:
		c, ok := s.X.(*ast.CallExpr)
		if !ok {
			g.bad(ind, "statement %s", exprString(s.X))
			return false
		}
		return g.call(ind, c, nil, false)
	case *ast.AssignStmt:
		if s.Tok != token.DEFINE && s.Tok != token.ASSIGN {
			g.bad(ind, "assignment operator %s", s.Tok)
			return false
		}
		define := s.Tok == token.DEFINE
		if len(s.Rhs) == 1 {
			if c, ok := s.Rhs[0].(*ast.CallExpr); ok {
				if g.callBinds(c) {
					return g.call(ind, c, s.Lhs, define)
				}
			}
		}
		if len(s.Rhs) != len(s.Lhs) {
			g.bad(ind, "assignment %s", exprStringStmt(s))
			return false
		}
		vals := make([]string, len(s.Rhs))
		kinds := make([]string, len(s.Rhs))
		for i, r := range s.Rhs {
			vals[i], kinds[i] = g.expr(r)
		}
		g.bind(ind, define, s.Lhs, vals, kinds, true)
		return false
	}
	g.bad(ind, "statement %T", st)
	return false
}

func (g *m25) restoreArgs(c *ast.CallExpr) bool {
	if len(c.Args) != 2 || !m25isStdinFd(c.Args[0]) {
		return false
	}
	id, ok := c.Args[1].(*ast.Ident)
	return ok && g.lookup(id.Name) == "termstate"
}

/* calls whose results are bound by an assignment */
func (g *m25) callBinds(c *ast.CallExpr) bool {
	switch exprString(c.Fun) {
	case "term.GetSize", "term.MakeRaw", "os.Stdout.WriteString", "ui.NewState", "make":
		return true
	}
	return g.stateMethod(c) == "Subcommand"
}

func (g *m25) call(ind int, c *ast.CallExpr, lhs []ast.Expr, define bool) bool {
	fn := exprString(c.Fun)
	nl := len(lhs)
	switch {
	case fn == "help" && len(c.Args) == 0 && nl == 0 && g.known["help"]:
		g.act(ind, "Act.help")
	case fn == "os.Exit" && len(c.Args) == 1 && nl == 0:
		g.act(ind, "Act.exit "+g.exprOf(c.Args[0], "int"))
		g.line(ind, g.ret(true))
		return true
	case fn == "panic" && len(c.Args) == 1 && nl == 0:
		g.line(ind, "throw (Panic.explicit "+leanStr("panic("+exprString(c.Args[0])+")")+")")
	case fn == "term.Restore" && nl == 0 && g.restoreArgs(c):
		g.act(ind, "Act.restore")
	case fn == "time.Sleep" && len(c.Args) == 1 && nl == 0:
		g.act(ind, "Act.sleep "+g.exprOf(c.Args[0], "int"))
	case fn == "term.GetSize" && len(c.Args) == 1 && m25isStdinFd(c.Args[0]) && nl == 3:
		p := g.paramOnce(ind, "got", "call of term.GetSize")
		g.act(ind, "Act.getSize")
		g.bind(ind, define, lhs, []string{p + ".width", p + ".height", p + ".err"}, []string{"int", "int", "error"}, false)
	case fn == "term.MakeRaw" && len(c.Args) == 1 && m25isStdinFd(c.Args[0]) && nl == 2 && define:
		p := g.paramOnce(ind, "raw", "call of term.MakeRaw")
		g.act(ind, "Act.makeRaw")
		g.bind(ind, define, lhs, []string{"", p}, []string{"termstate", "error"}, false)
	case fn == "os.Stdout.WriteString" && len(c.Args) == 1 && (nl == 0 || nl == 2):
		text := g.exprOf(c.Args[0], "string")
		g.act(ind, "Act.write "+text)
		if nl == 2 {
			if id, ok := lhs[0].(*ast.Ident); !ok || id.Name != "_" {
				g.bad(ind, "the number of bytes written is used")
			}
			p := g.paramOnce(ind, "werr", "write whose error is looked at")
			g.bind(ind, define, lhs, []string{"", p}, []string{"int", "error"}, false)
		}
	case fn == "os.Stdin.Read" && len(c.Args) == 1 && nl == 0:
		id, ok := c.Args[0].(*ast.Ident)
		if !ok || g.lookup(id.Name) != "bytes" {
			g.bad(ind, "os.Stdin.Read into %s", exprString(c.Args[0]))
			break
		}
		p := g.paramOnce(ind, "read", "call of os.Stdin.Read")
		g.line(ind, id.Name+" := Go.Term.readInto "+id.Name+" "+p)
	case fn == "ui.NewState" && len(c.Args) == 3 && nl == 1 && define:
		out, ok := c.Args[2].(*ast.Ident)
		if !ok || !g.known[out.Name] || out.Name == "help" {
			g.bad(ind, "the output function %s is not a translated function", exprString(c.Args[2]))
			break
		}
		g.act(ind, "Act.newState "+g.exprOf(c.Args[0], "int")+" "+g.exprOf(c.Args[1], "int")+" "+leanStr(out.Name))
		g.bind(ind, define, lhs, []string{""}, []string{"state"}, false)
	case fn == "make" && len(c.Args) == 2 && m25isByteSlice(c.Args[0]) && nl == 1:
		g.bind(ind, define, lhs, []string{"(← Go.make " + g.exprOf(c.Args[1], "int") + ")"}, []string{"bytes"}, false)
	case fn == "printRaw" && len(c.Args) == 1 && nl == 0 && g.known["printRaw"]:
		p := g.paramOnce(ind, "werr", "write whose error is looked at")
		g.line(ind, "acts := acts ++ (← printRaw "+p+" "+g.exprOf(c.Args[0], "string")+")")
	case g.stateMethod(c) == "SetWidthHeight" && len(c.Args) == 2 && nl == 0:
		g.act(ind, "Act.setWidthHeight "+g.exprOf(c.Args[0], "int")+" "+g.exprOf(c.Args[1], "int"))
	case g.stateMethod(c) == "Update" && len(c.Args) == 1 && nl == 0:
		g.act(ind, "Act.update "+g.exprOf(c.Args[0], "byte")+" false")
	case g.stateMethod(c) == "Subcommand" && len(c.Args) == 2 && nl == 1:
		a := g.exprOf(c.Args[0], "string")
		b := g.exprOf(c.Args[1], "string")
		p := g.paramOnce(ind, "result", "call of Subcommand")
		g.act(ind, "Act.subcommand "+a+" "+b)
		g.bind(ind, define, lhs, []string{p}, []string{"error"}, false)
	default:
		g.bad(ind, "call %s", fn)
	}
	return false
}

func m25mentions(n ast.Node, method string) bool {
	found := false
	ast.Inspect(n, func(x ast.Node) bool {
		if s, ok := x.(*ast.SelectorExpr); ok && s.Sel.Name == method {
			found = true
		}
		return true
	})
	return found
}

/* `go func() { … }()` in main */
func (g *m25) spawn(ind int, lit *ast.FuncLit) {
	body := lit.Body.List
	var f *m25fn
	var slot string
	if len(body) == 1 {
		if loop, ok := body[0].(*ast.ForStmt); ok {
			if loop.Init != nil || loop.Cond != nil || loop.Post != nil {
				g.bad(ind, "a goroutine whose loop has a condition")
				return
			}
			if !m25mentions(loop, "SetWidthHeight") || g.spawned["pollStep"] {
				g.bad(ind, "a looping goroutine other than the one that calls SetWidthHeight")
				return
			}
			g.spawned["pollStep"] = true
			f = g.sub("pollStep", "PollVars", "one round of `go func() { for { … } }()`, the goroutine that calls `SetWidthHeight`: `got` is what `term.GetSize` returned this round",
				"the variables of `main` that the loop of the goroutine with `SetWidthHeight` uses", loop.Body.List, false)
			slot = "pollVars0_"
		}
	}
	if f == nil {
		if !m25mentions(lit.Body, "Subcommand") || g.spawned["subcommandStep"] {
			g.bad(ind, "a goroutine other than the poller and the one that calls Subcommand")
			return
		}
		for _, st := range body {
			if _, ok := st.(*ast.ForStmt); ok {
				g.bad(ind, "a goroutine with statements around its loop")
				return
			}
		}
		g.spawned["subcommandStep"] = true
		f = g.sub("subcommandStep", "SubVars", "the body of `go func() { … }()`, the goroutine that calls `Subcommand`: `result` is the error it returned",
			"the variables of `main` that the goroutine with `Subcommand` uses", body, true)
		slot = "subVars0_"
	}
	g.line(ind, slot+" := some "+g.capture(f, true))
	g.act(ind, "Act.spawn "+leanStr(f.name))
}

/* the structure literal with the values the variables a body uses have now */
func (g *m25) capture(f *m25fn, goroutine bool) string {
	parts := []string{}
	for _, n := range f.free {
		if g.lookup(n) != f.freeK[n] {
			parts = append(parts, n+" := "+g.fail("variable %s of main", n))
			continue
		}
		parts = append(parts, n+" := "+n)
		if goroutine {
			g.captured[n] = true
		}
	}
	return "({ " + strings.Join(parts, ", ") + " } : " + f.varsTy + ")"
}

/* translate a loop body / goroutine body met in main into a function of its own */
func (g *m25) sub(name, varsTy, doc, varsDoc string, body []ast.Stmt, oneShot bool) *m25fn {
	outer := map[string]string{}
	for _, sc := range g.scopes {
		for n, k := range sc {
			outer[n] = k
		}
	}
	h := &m25{outer: outer, freeK: map[string]string{}, params: map[string]bool{}, stepMode: true, oneShot: oneShot,
		captured: map[string]bool{}, spawned: map[string]bool{}, known: g.known}
	h.scopes = []map[string]string{{}}
	ended := false
	for i, st := range body {
		if h.stmt(1, st) {
			ended = true
			if i != len(body)-1 {
				h.bad(1, "statements after one that does not return")
			}
		}
	}
	if !ended {
		h.line(1, h.ret(oneShot))
	}
	g.err = append(g.err, h.err...)
	f := &m25fn{name: name, doc: doc, varsTy: varsTy, varsDoc: varsDoc, body: h.b.String(), free: h.free, freeK: h.freeK, params: h.params}
	g.fns = append(g.fns, f)
	return f
}

var m25paramTypes = [][2]string{{"args", "List Str"}, {"raw", "Option Str"}, {"got", "SizeResult"}, {"read", "List Nat"}, {"result", "Option Str"}, {"werr", "Option Str"}}

func m25signature(params map[string]bool) string {
	s := ""
	for _, p := range m25paramTypes {
		if params[p[0]] {
			s += " (" + p[0] + " : " + p[1] + ")"
		}
	}
	return s
}

func (f *m25fn) emit(b *strings.Builder) {
	if f.varsTy != "" {
		b.WriteString("/-- " + f.varsDoc + " -/\nstructure " + f.varsTy + " where\n")
		for _, n := range f.free {
			b.WriteString("  " + n + " : " + m25leanType(f.freeK[n]) + "\n")
		}
		b.WriteString("  deriving DecidableEq, Repr\n\n")
	}
	b.WriteString("/-- " + f.doc + " -/\n")
	if f.varsTy != "" {
		b.WriteString("def " + f.name + " (v0 : " + f.varsTy + ")" + m25signature(f.params) + " : Except Panic (Step " + f.varsTy + ") := do\n")
	} else {
		sig := m25signature(f.params)
		for _, a := range f.strArgs {
			sig += " (" + a + "0 : Str)"
		}
		b.WriteString("def " + f.name + sig + " : Except Panic (List Act) := do\n")
	}
	b.WriteString("  let mut acts : List Act := []\n")
	for _, n := range f.free {
		b.WriteString("  let mut " + n + " : " + m25leanType(f.freeK[n]) + " := v0." + n + "\n")
	}
	for _, a := range f.strArgs {
		b.WriteString("  let mut " + a + " : Str := " + a + "0\n")
	}
	parts := []string{}
	for _, n := range f.free {
		parts = append(parts, n+" := "+n)
	}
	b.WriteString(strings.ReplaceAll(f.body, "@@VARS@@", "{ "+strings.Join(parts, ", ")+" }"))
	b.WriteString("\n")
}

func translateMain(file *ast.File) (string, []string) {
	g := &m25{freeK: map[string]string{}, params: map[string]bool{}, captured: map[string]bool{}, spawned: map[string]bool{}, known: map[string]bool{}}
	var mainFn, printFn *ast.FuncDecl
	for _, d := range file.Decls {
		fd, ok := d.(*ast.FuncDecl)
		if !ok || fd.Recv != nil || fd.Body == nil {
			continue
		}
		switch fd.Name.Name {
		case "main":
			mainFn = fd
		case "printRaw":
			printFn = fd
			g.known["printRaw"] = true
		case "help":
			g.known["help"] = true
		}
	}
	var out strings.Builder
	out.WriteString("set_option linter.unusedVariables false\n\nnamespace GenMain\nopen Go.Term\n\n")
	if printFn == nil || mainFn == nil {
		out.WriteString("def missing := " + g.fail("main.go must declare main and printRaw") + "\n\nend GenMain\n")
		return out.String(), g.err
	}

	/* printRaw: parameters are strings, no results */
	{
		h := &m25{freeK: map[string]string{}, params: map[string]bool{}, captured: map[string]bool{}, spawned: map[string]bool{}, known: map[string]bool{"help": g.known["help"]}}
		h.scopes = []map[string]string{{}}
		f := &m25fn{name: "printRaw", doc: "`func printRaw`: `werr` is the error `os.Stdout.WriteString` returned (`none` = nil)"}
		if printFn.Type.Results != nil && len(printFn.Type.Results.List) != 0 {
			h.bad(1, "printRaw returns something")
		}
		for _, p := range printFn.Type.Params.List {
			for _, n := range p.Names {
				if exprString(p.Type) != "string" || m25reserved(n.Name) {
					h.bad(1, "parameter %s of printRaw", n.Name)
					continue
				}
				h.scopes[0][n.Name] = "string"
				f.strArgs = append(f.strArgs, n.Name)
			}
		}
		if len(f.strArgs) != 1 {
			h.bad(1, "printRaw takes %d parameters", len(f.strArgs))
		}
		ended := false
		for i, st := range printFn.Body.List {
			if h.stmt(1, st) {
				ended = true
				if i != len(printFn.Body.List)-1 {
					h.bad(1, "statements after one that does not return")
				}
			}
		}
		if !ended {
			h.line(1, h.ret(true))
		}
		h.params["werr"] = true /* callers pass it whether or not printRaw looks at it */
		f.body, f.params = h.b.String(), h.params
		g.err = append(g.err, h.err...)
		f.emit(&out)
	}

	/* main */
	g.inMain = true
	g.scopes = []map[string]string{{}}
	ended := false
	for i, st := range mainFn.Body.List {
		if g.stmt(1, st) {
			ended = true
			if i != len(mainFn.Body.List)-1 {
				g.bad(1, "statements after one that does not return")
			}
		}
	}
	if !ended && !g.ended {
		g.line(1, g.ret(true))
	}
	for _, want := range []string{"pollStep", "subcommandStep", "keyStep"} {
		have := false
		for _, f := range g.fns {
			have = have || f.name == want
		}
		if !have {
			out.WriteString("def " + want + " := " + g.fail("main has no %s", want) + "\n\n")
		}
	}
	for _, f := range g.fns {
		f.emit(&out)
	}
	out.WriteString("/-- what `main` has done when it enters its final loop (or has left): the actions, and the values the variables\n    each goroutine / the loop uses had when it was started (`none`: it was not started) -/\n")
	out.WriteString("structure Started where\n  acts : List Act\n  pollVars : Option PollVars\n  subVars : Option SubVars\n  keyVars : Option KeyVars\n  deriving DecidableEq, Repr\n\n")
	out.WriteString("/-- `func main()`: `args` is os.Args, `raw` the error of `term.MakeRaw`, `got` what `term.GetSize` returned -/\n")
	out.WriteString("def start" + m25signature(g.params) + " : Except Panic Started := do\n")
	out.WriteString("  let mut acts : List Act := []\n  let mut pollVars0_ : Option PollVars := none\n  let mut subVars0_ : Option SubVars := none\n  let mut keyVars0_ : Option KeyVars := none\n")
	out.WriteString(g.b.String())
	out.WriteString("\nend GenMain\n")
	return out.String(), g.err
}

/* ---- ui/ui.go: (*State).SetWidthHeight and NewState, on the state `view` is translated over ---- */

func (g *m25) resizeStmt(ind int, st ast.Stmt) {
	switch s := st.(type) {
	case *ast.IfStmt:
		if s.Init != nil {
			g.bad(ind, "if with an init statement")
			return
		}
		g.line(ind, "if "+g.exprOf(s.Cond, "bool")+" then")
		g.resizeBlock(ind+1, s.Body.List)
		switch e := s.Else.(type) {
		case nil:
		case *ast.BlockStmt:
			g.line(ind, "else")
			g.resizeBlock(ind+1, e.List)
		default:
			g.bad(ind, "else %T", e)
		}
	case *ast.ReturnStmt:
		if len(s.Results) != 0 {
			g.bad(ind, "return with results")
			return
		}
		g.line(ind, "return ("+g.recv+", frames)")
	case *ast.AssignStmt:
		if s.Tok == token.ASSIGN && len(s.Lhs) == 1 && len(s.Rhs) == 1 {
			if sel, ok := s.Lhs[0].(*ast.SelectorExpr); ok && exprString(sel.X) == g.recv {
				if k, ok := g.fields[sel.Sel.Name]; ok {
					g.line(ind, g.recv+" := { "+g.recv+" with "+sel.Sel.Name+" := "+g.exprOf(s.Rhs[0], k)+" }")
					return
				}
			}
		}
		g.bad(ind, "assignment %s", exprStringStmt(s))
	case *ast.ExprStmt:
		if c, ok := s.X.(*ast.CallExpr); ok && exprString(c.Fun) == g.recv+".output" && len(c.Args) == 1 {
			if v, ok := c.Args[0].(*ast.CallExpr); ok && exprString(v.Fun) == g.recv+".view" && len(v.Args) == 0 {
				g.line(ind, "frames := frames ++ ["+g.recv+"]")
				return
			}
		}
		g.bad(ind, "statement %s", exprString(s.X))
	default:
		g.bad(ind, "statement %T", st)
	}
}

func (g *m25) resizeBlock(ind int, list []ast.Stmt) {
	n := g.b.Len()
	for _, st := range list {
		g.resizeStmt(ind, st)
	}
	if g.b.Len() == n {
		g.line(ind, "pure ()")
	}
}

func translateResize(ui *ast.File) (string, []string) {
	g := &m25{freeK: map[string]string{}, params: map[string]bool{}, captured: map[string]bool{}, spawned: map[string]bool{}, known: map[string]bool{}}
	g.scopes = []map[string]string{{}}
	g.fields = map[string]string{}
	var method, ctor *ast.FuncDecl
	for _, d := range ui.Decls {
		switch x := d.(type) {
		case *ast.GenDecl:
			for _, sp := range x.Specs {
				ts, ok := sp.(*ast.TypeSpec)
				if !ok || ts.Name.Name != "State" {
					continue
				}
				st, ok := ts.Type.(*ast.StructType)
				if !ok {
					continue
				}
				/* the fields Generated/GoView.lean carries, if they have the types it gives them */
				want := map[string]string{"width": "int", "height": "int", "mode": "int", "buffer": "string"}
				for _, f := range st.Fields.List {
					for _, n := range f.Names {
						if w, ok := want[n.Name]; ok && exprString(f.Type) == w {
							g.fields[n.Name] = w
						}
					}
				}
			}
		case *ast.FuncDecl:
			if x.Name.Name == "SetWidthHeight" && x.Recv != nil && len(x.Recv.List) == 1 && exprString(x.Recv.List[0].Type) == "*State" {
				method = x
			}
			if x.Name.Name == "NewState" && x.Recv == nil {
				ctor = x
			}
		}
	}
	var out strings.Builder
	out.WriteString("namespace GenMain\n\n")
	intParams := func(fd *ast.FuncDecl, upto int) string {
		sig := ""
		i := 0
		for _, p := range fd.Type.Params.List {
			for _, n := range p.Names {
				if i < upto {
					if exprString(p.Type) != "int" || m25reserved(n.Name) || n.Name == "frames" || n.Name == "s0" {
						sig += " " + g.fail("parameter %s of %s", n.Name, fd.Name.Name)
					} else {
						sig += " (" + n.Name + " : Int)"
						g.scopes[0][n.Name] = "int"
					}
				}
				i++
			}
		}
		return sig
	}
	if method == nil || len(method.Recv.List[0].Names) != 1 {
		out.WriteString("def SetWidthHeight := " + g.fail("ui.go has no (*State).SetWidthHeight") + "\n\n")
	} else {
		g.recv = method.Recv.List[0].Names[0].Name
		if g.recv == "frames" || g.recv == "s0" || m25reserved(g.recv) {
			g.recv = g.fail("receiver name %s", g.recv)
		}
		sig := intParams(method, 1<<30)
		body := method.Body.List
		if len(body) < 2 || exprStringStmt(body[0]) != g.recv+".m.Lock()" {
			g.bad(1, "SetWidthHeight does not start with Lock()")
		} else if d, ok := body[1].(*ast.DeferStmt); !ok || exprString(d.Call.Fun) != g.recv+".m.Unlock" {
			g.bad(1, "SetWidthHeight does not defer Unlock()")
		} else {
			for _, st := range body[2:] {
				g.resizeStmt(1, st)
			}
		}
		out.WriteString("/-- `func (s *State) SetWidthHeight` of ui/ui.go between `Lock()` and the deferred `Unlock()`: the state it leaves and\n    the states `s.output(s.view())` drew a frame from, in order -/\n")
		out.WriteString("def SetWidthHeight (s0 : GenView.State)" + sig + " : Except Panic (GenView.State × List GenView.State) := do\n")
		out.WriteString("  let mut " + g.recv + " := s0\n  let mut frames : List GenView.State := []\n")
		out.WriteString(g.b.String())
		out.WriteString("  return (" + g.recv + ", frames)\n\n")
	}
	/* NewState: the size the state is created with */
	g.b.Reset()
	g.recv = ""
	g.scopes = []map[string]string{{}}
	w, h := "", ""
	sig := ""
	if ctor != nil {
		sig = intParams(ctor, 2)
		ast.Inspect(ctor.Body, func(n ast.Node) bool {
			cl, ok := n.(*ast.CompositeLit)
			if !ok || exprString(cl.Type) != "State" {
				return true
			}
			for _, e := range cl.Elts {
				kv, ok := e.(*ast.KeyValueExpr)
				if !ok {
					continue
				}
				switch exprString(kv.Key) {
				case "width":
					w = g.exprOf(kv.Value, "int")
				case "height":
					h = g.exprOf(kv.Value, "int")
				}
			}
			return false
		})
		for _, st := range ctor.Body.List {
			switch x := st.(type) {
			case *ast.ReturnStmt:
			case *ast.AssignStmt:
				if x.Tok == token.DEFINE && len(x.Rhs) == 1 {
					if u, ok := x.Rhs[0].(*ast.UnaryExpr); ok && u.Op == token.AND {
						if _, ok := u.X.(*ast.CompositeLit); ok {
							continue
						}
					}
				}
				w = g.fail("NewState does more than build the struct: %s", exprStringStmt(x))
			default:
				w = g.fail("NewState does more than build the struct: %T", st)
			}
		}
	}
	if w == "" {
		w = g.fail("NewState sets no width")
	}
	if h == "" {
		h = g.fail("NewState sets no height")
	}
	out.WriteString("/-- `func NewState` of ui/ui.go: the `width` and `height` of the struct it builds -/\n")
	out.WriteString("def newStateSize" + sig + " : Int × Int := (" + w + ", " + h + ")\n\nend GenMain\n")
	return out.String(), g.err
}
