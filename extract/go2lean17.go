package main

/*
go2lean, seventeenth front end: `(*State).openExternally(link string, mediaType *mime.MediaType)` of
ui/ui.go, the function that starts the media hook (the subject of C20).  Output:
lean/Generated/GoHook.lean, namespace GenHook; `Props/Gen20h.lean` proves it equal to the models
(`Hook.build`, `Ui.openExternally`, `Ui.hookDone`), `Props/GenT20h.lean` carries C20 over to it.

Two functions are produced.

  openExternally   everything up to and excluding the `go` statement (which must be the last
                   statement): a `do` block in `Except Panic` over a mutable copy of the receiver.
                   It returns the state it leaves, the frames it emitted, the configured hook as
                   it is afterwards, and the command it built.
  hookDone         the body of the goroutine `go func() { … }()`: the statements before
                   `s.m.Lock()` may only run the command and name its results (they must not
                   mention the receiver); `s.m.Lock(); defer s.m.Unlock()` is recognised and
                   dropped; the rest is the critical section, translated like `Update`'s.  What
                   running the program returned is the parameter `outcome` (the external world);
                   WHICH method of `exec.Cmd` ran it is read from the source (`runMethod`).

What is read from the source:

  const ( loading = iota … )        the modes (as in the sixteenth front end)
  type State struct                 the fields the two functions touch (int, string); the others
                                    travel as one field `rest` of a parameter type
  type MediaType struct (mime.go)   the translated struct of Generated/GoMime.lean; the pointer
                                    parameter is an `Option`, `mediaType.F` is `(← Go.deref mediaType).F`
  config.Parsed.Media.Hook          the parameter `hook` (config.go must declare `Parsed` and a field
                                    `Media.Hook []string`).  A local that is ASSIGNED this slice shares
                                    its array: every write through the local is then also a write of
                                    the configured hook (`hookCfg`), and so is `copy(config…, …)` or
                                    `config…[i] = …`.  The result field `configured` is the hook afterwards
  make([]string, n), copy(d, s), len, x[i], x[k:], x[:k], x[i] = v
                                    Model/GoSem.lean, Model/GoSlices.lean (bounds-checked)
  for i, v := range x { … }         `for i in Go.indices x do` with `let v ← Go.index x i` first; `x` must
                                    be a local slice that the body does not assign as a whole;
                                    `continue` is Lean's
  switch tag { case lit, …: … }     a chain of `if decide (tag = lit) then … else …`; no default needed,
                                    no break / fallthrough
  exec.Command(name, rest...)       a `Cmd` record: `name`, `args` (the variadic slice), `stdin := none`
  cmd.Stdin = strings.NewReader(e)  `{ cmd with stdin := some e }`
  a, b := cmd.CombinedOutput()      (before the lock, in the goroutine) `outcome.output`, `outcome.err`
  string(bytes)                     the bytes as text (the outcome's output is given as text)
  s.output(s.view())                the state is appended to `frames` (what the frame is drawn from)
  strings.Contains(a, b)            Go.Strings.contains
  statements                        := = on locals, fields of the receiver, slice elements; `_ = e`; if / else;
                                    `return` inside the goroutine only
  expressions                       string / int literals, == != on strings, ints and bools, ! && ||,
                                    + on strings, comparisons of an error or a pointer with nil,
                                    err.Error()

Anything else is replaced by `sorry_untranslatable`, an undeclared identifier: the Lean build of
Generated/GoHook.lean fails, and with it `./check C20`.
*/

import (
	"fmt"
	"go/ast"
	"go/token"
	"sort"
	"strconv"
	"strings"
)

type h17 struct {
	b         strings.Builder
	err       []string
	recv      string
	scopes    []map[string]string
	mutable   map[string]bool
	modeSet   map[string]bool
	state     *ast.StructType
	used      map[string]bool
	mimeOK    map[string]bool /* string fields of mime.MediaType */
	alias     map[string]bool /* locals that share the array of the configured hook */
	hookWrite bool
	tmp       int
	inLoop    int
	closure   bool
	cmdVar    string
	runMethod string
	cfgOK     bool
}

func (g *h17) fail(format string, a ...any) string {
	msg := fmt.Sprintf(format, a...)
	g.err = append(g.err, msg)
	return "(sorry_untranslatable /- " + strings.ReplaceAll(msg, "-/", "- /") + " -/)"
}

func (g *h17) line(ind int, s string) { g.b.WriteString(strings.Repeat("  ", ind) + s + "\n") }

func (g *h17) bad(ind int, format string, a ...any) {
	g.line(ind, "let _ := "+g.fail(format, a...))
}

func (g *h17) push() { g.scopes = append(g.scopes, map[string]string{}) }
func (g *h17) pop()  { g.scopes = g.scopes[:len(g.scopes)-1] }
func (g *h17) lookup(n string) string {
	for i := len(g.scopes) - 1; i >= 0; i-- {
		if k, ok := g.scopes[i][n]; ok {
			return k
		}
	}
	return ""
}

func (g *h17) fresh(stem string) string {
	g.tmp++
	return fmt.Sprintf("%s%d_", stem, g.tmp)
}

func (g *h17) leanType(kind string) string {
	switch kind {
	case "string", "bytes":
		return "Str"
	case "int":
		return "Int"
	case "bool":
		return "Bool"
	case "strings":
		return "(List Str)"
	case "mediatype":
		return "(Option GenMime.MediaType)"
	case "error":
		return "(Option Str)"
	case "cmd":
		return "Cmd"
	}
	return g.fail("no Lean type for %s", kind)
}

func (g *h17) reserved(name string) bool {
	switch name {
	case "s0", "hook", "hookCfg", "frames", "outcome", "openExternally", "hookDone", "runMethod", "Cmd", "State", "Started", "Done", "Outcome":
		return true
	}
	/* a local may have the name of a mode constant (`command`): it shadows the constant from its declaration on,
	   in Go as in the `do` block; inside the goroutine such a name is rejected (it would mean the local) */
	return name == g.recv || strings.HasSuffix(name, "_")
}

func (g *h17) declare(ind int, name, kind, value string) {
	if name == "_" {
		return
	}
	if g.reserved(name) {
		g.bad(ind, "local %s clashes with a name of the translation", name)
		return
	}
	if g.lookup(name) != "" {
		g.bad(ind, "%s declared twice (shadowing is not translated)", name)
		return
	}
	if kind == "lit" {
		kind = "int"
	}
	lt := g.leanType(kind)
	g.scopes[len(g.scopes)-1][name] = kind
	mut := ""
	if g.mutable[name] {
		mut = "mut "
	}
	g.line(ind, "let "+mut+leanIdent(name)+" : "+lt+" := "+value)
}

/* is the expression `config.Parsed.Media.Hook`? */
func (g *h17) isHookCfg(e ast.Expr) bool {
	return exprString(e) == "config.Parsed.Media.Hook"
}

func (g *h17) stateField(name string) (string, string) {
	if g.state == nil {
		return g.fail("type State struct not found"), "?"
	}
	for _, fl := range g.state.Fields.List {
		for _, n := range fl.Names {
			if n.Name == name {
				k := typeString(fl.Type)
				if k != "int" && k != "string" {
					return g.fail("field %s.%s of type %s", g.recv, name, exprFull(fl.Type)), "?"
				}
				g.used[name] = true
				return g.recv + "." + leanIdent(name), k
			}
		}
	}
	return g.fail("no field %s in State", name), "?"
}

func (g *h17) expr(e ast.Expr) (string, string) {
	switch x := e.(type) {
	case *ast.BasicLit:
		switch x.Kind {
		case token.INT:
			return x.Value, "lit"
		case token.STRING:
			u, err := strconv.Unquote(x.Value)
			if err != nil {
				return g.fail("string literal %s", x.Value), "?"
			}
			return "(Go.str " + leanStr(u) + ")", "string"
		}
	case *ast.Ident:
		switch x.Name {
		case "true", "false":
			return x.Name, "bool"
		case "nil":
			return "none", "nil"
		}
		if k := g.lookup(x.Name); k != "" {
			return leanIdent(x.Name), k
		}
		if g.modeSet[x.Name] {
			return x.Name, "int"
		}
	case *ast.ParenExpr:
		t, k := g.expr(x.X)
		return "(" + t + ")", k
	case *ast.SelectorExpr:
		if g.isHookCfg(x) {
			if !g.cfgOK {
				return g.fail("config.Parsed.Media.Hook is not declared as a []string in config/config.go"), "?"
			}
			if g.closure {
				return g.fail("the completion handler reads the configuration"), "?"
			}
			if g.hookWrite {
				return "hookCfg", "strings"
			}
			return "hook", "strings"
		}
		if id, ok := x.X.(*ast.Ident); ok {
			if id.Name == g.recv {
				return g.stateField(x.Sel.Name)
			}
			if g.lookup(id.Name) == "mediatype" {
				if !g.mimeOK[x.Sel.Name] {
					return g.fail("mime.MediaType has no string field %s", x.Sel.Name), "?"
				}
				return "(← Go.deref " + leanIdent(id.Name) + ")." + x.Sel.Name, "string"
			}
		}
	case *ast.UnaryExpr:
		t, k := g.expr(x.X)
		if x.Op == token.NOT && k == "bool" {
			return "(!" + t + ")", "bool"
		}
	case *ast.BinaryExpr:
		return g.binary(x)
	case *ast.IndexExpr:
		t, k := g.expr(x.X)
		i, ik := g.expr(x.Index)
		if k == "strings" && (ik == "int" || ik == "lit") {
			return "(← Go.index " + t + " " + i + ")", "string"
		}
	case *ast.SliceExpr:
		if !x.Slice3 {
			t, k := g.expr(x.X)
			if k == "strings" {
				switch {
				case x.Low != nil && x.High == nil:
					l, lk := g.expr(x.Low)
					if lk == "int" || lk == "lit" {
						return "(← Go.sliceFrom " + t + " " + l + ")", "strings"
					}
				case x.Low == nil && x.High != nil:
					h, hk := g.expr(x.High)
					if hk == "int" || hk == "lit" {
						return "(← Go.sliceTo " + t + " " + h + ")", "strings"
					}
				}
			}
		}
	case *ast.CallExpr:
		return g.call(x)
	}
	return g.fail("expression %s", exprFull(e)), "?"
}

func (g *h17) binary(x *ast.BinaryExpr) (string, string) {
	l, lk := g.expr(x.X)
	r, rk := g.expr(x.Y)
	if (x.Op == token.EQL || x.Op == token.NEQ) && (lk == "nil" || rk == "nil") {
		v, vk := l, lk
		if lk == "nil" {
			v, vk = r, rk
		}
		if vk == "error" || vk == "mediatype" {
			if x.Op == token.EQL {
				return v + ".isNone", "bool"
			}
			return v + ".isSome", "bool"
		}
		return g.fail("comparison with nil: %s", exprFull(x)), "?"
	}
	k := lk
	if lk == "lit" {
		k = rk
	} else if rk != "lit" && rk != lk {
		return g.fail("operands of different types in %s", exprFull(x)), "?"
	}
	if k == "lit" {
		k = "int"
	}
	if u16Effects(r) && (x.Op == token.LAND || x.Op == token.LOR) {
		return g.fail("right operand of %s may panic: %s", x.Op, exprFull(x)), "?"
	}
	switch x.Op {
	case token.ADD:
		switch k {
		case "string":
			return "(" + l + " ++ " + r + ")", k
		case "int":
			return "(" + l + " + " + r + ")", k
		}
	case token.SUB:
		if k == "int" {
			return "(" + l + " - " + r + ")", k
		}
	case token.LSS, token.GTR, token.LEQ, token.GEQ:
		if k == "int" {
			op := map[token.Token]string{token.LSS: "<", token.GTR: ">", token.LEQ: "≤", token.GEQ: "≥"}[x.Op]
			return "decide (" + l + " " + op + " " + r + ")", "bool"
		}
	case token.EQL, token.NEQ:
		if k == "int" || k == "string" || k == "bool" {
			op := map[token.Token]string{token.EQL: "=", token.NEQ: "≠"}[x.Op]
			return "decide (" + l + " " + op + " " + r + ")", "bool"
		}
	case token.LAND, token.LOR:
		if k == "bool" {
			op := map[token.Token]string{token.LAND: "&&", token.LOR: "||"}[x.Op]
			return "(" + l + " " + op + " " + r + ")", "bool"
		}
	}
	return g.fail("expression %s", exprFull(x)), "?"
}

func (g *h17) call(x *ast.CallExpr) (string, string) {
	if id, ok := x.Fun.(*ast.Ident); ok && x.Ellipsis == token.NoPos {
		switch {
		case id.Name == "len" && len(x.Args) == 1:
			t, k := g.expr(x.Args[0])
			if k == "strings" {
				return "(Go.len " + t + ")", "int"
			}
			if k == "string" {
				return g.fail("the byte length of a string is not modelled: %s", exprFull(x)), "?"
			}
		case id.Name == "make" && len(x.Args) == 2:
			if at, ok := x.Args[0].(*ast.ArrayType); ok && at.Len == nil && isIdent(at.Elt, "string") {
				n, nk := g.expr(x.Args[1])
				if nk == "int" || nk == "lit" {
					return "(← Go.make " + n + ")", "strings"
				}
			}
		case id.Name == "string" && len(x.Args) == 1:
			t, k := g.expr(x.Args[0])
			if k == "bytes" || k == "string" {
				return t, "string"
			}
		}
	}
	se, ok := x.Fun.(*ast.SelectorExpr)
	if !ok {
		return g.fail("call %s", exprFull(x)), "?"
	}
	switch exprString(se) {
	case "strings.Contains":
		if len(x.Args) == 2 && x.Ellipsis == token.NoPos {
			a, ak := g.expr(x.Args[0])
			b, bk := g.expr(x.Args[1])
			if ak == "string" && bk == "string" {
				return "(Go.Strings.contains " + a + " " + b + ")", "bool"
			}
		}
		return g.fail("arguments of %s", exprFull(x)), "?"
	case "exec.Command":
		/* exec.Command(name, rest...) : the variadic part must be ONE slice passed with `...` */
		if len(x.Args) == 2 && x.Ellipsis != token.NoPos {
			n, nk := g.expr(x.Args[0])
			a, ak := g.expr(x.Args[1])
			if nk == "string" && ak == "strings" {
				return "{ name := " + n + ", args := " + a + ", stdin := none }", "cmd"
			}
		}
		if x.Ellipsis == token.NoPos && len(x.Args) >= 1 {
			parts := []string{}
			okAll := true
			for _, a := range x.Args {
				t, k := g.expr(a)
				if k != "string" {
					okAll = false
				}
				parts = append(parts, t)
			}
			if okAll {
				return "{ name := " + parts[0] + ", args := [" + strings.Join(parts[1:], ", ") + "], stdin := none }", "cmd"
			}
		}
		return g.fail("arguments of %s", exprFull(x)), "?"
	}
	if id, isId := se.X.(*ast.Ident); isId && g.lookup(id.Name) == "error" && se.Sel.Name == "Error" && len(x.Args) == 0 {
		return "(← Go.deref " + leanIdent(id.Name) + ")", "string"
	}
	return g.fail("call %s", exprFull(x)), "?"
}

func (g *h17) blockEndsInLet(start int) bool {
	text := g.b.String()[start:]
	lines := strings.Split(strings.TrimRight(text, "\n"), "\n")
	last := strings.TrimSpace(lines[len(lines)-1])
	return strings.HasPrefix(last, "let ") || strings.HasPrefix(last, "--")
}

func (g *h17) body(ind int, list []ast.Stmt) {
	start := g.b.Len()
	g.push()
	for _, st := range list {
		g.stmt(ind, st)
	}
	g.pop()
	if g.b.Len() == start || g.blockEndsInLet(start) {
		g.line(ind, "pure ()")
	}
}

/* a value that may contain `(← …)` must be named before it goes under a `fun` */
func (g *h17) named(ind int, value string) string {
	if !u16Effects(value) {
		return value
	}
	v := g.fresh("v")
	g.line(ind, "let "+v+" := "+value)
	return v
}

/* the configured hook is written from now on */
func (g *h17) writesHook() { g.hookWrite = true }

func (g *h17) assign(ind int, s *ast.AssignStmt) {
	if len(s.Lhs) == 2 && len(s.Rhs) == 1 {
		g.runResults(ind, s)
		return
	}
	if len(s.Lhs) != 1 || len(s.Rhs) != 1 {
		g.bad(ind, "parallel assignment")
		return
	}
	switch lhs := s.Lhs[0].(type) {
	case *ast.SelectorExpr:
		id, ok := lhs.X.(*ast.Ident)
		if !ok || s.Tok != token.ASSIGN {
			g.bad(ind, "assignment to %s", exprFull(lhs))
			return
		}
		switch {
		case id.Name == g.recv:
			_, fk := g.stateField(lhs.Sel.Name)
			r, rk := g.expr(s.Rhs[0])
			if rk == "lit" && fk == "int" {
				rk = "int"
			}
			if rk != fk || fk == "?" {
				g.bad(ind, "assignment of a %s to %s", rk, exprFull(lhs))
				return
			}
			g.line(ind, g.recv+" := { "+g.recv+" with "+leanIdent(lhs.Sel.Name)+" := "+r+" }")
		case g.lookup(id.Name) == "cmd" && lhs.Sel.Name == "Stdin":
			if g.closure {
				g.bad(ind, "the completion handler changes the command")
				return
			}
			if isIdent(s.Rhs[0], "nil") {
				g.line(ind, leanIdent(id.Name)+" := { "+leanIdent(id.Name)+" with stdin := none }")
				return
			}
			if c, ok := s.Rhs[0].(*ast.CallExpr); ok && exprString(c.Fun) == "strings.NewReader" && len(c.Args) == 1 && c.Ellipsis == token.NoPos {
				t, k := g.expr(c.Args[0])
				if k == "string" {
					g.line(ind, leanIdent(id.Name)+" := { "+leanIdent(id.Name)+" with stdin := some "+t+" }")
					return
				}
			}
			g.bad(ind, "what %s is set to: %s", exprFull(lhs), exprFull(s.Rhs[0]))
		default:
			g.bad(ind, "assignment to %s", exprFull(lhs))
		}
	case *ast.IndexExpr:
		if s.Tok != token.ASSIGN {
			g.bad(ind, "assignment operator %s", s.Tok)
			return
		}
		i, ik := g.expr(lhs.Index)
		if ik != "int" && ik != "lit" {
			g.bad(ind, "index of %s", exprFull(lhs))
			return
		}
		r, rk := g.expr(s.Rhs[0])
		if rk != "string" {
			g.bad(ind, "assignment of a %s to %s", rk, exprFull(lhs))
			return
		}
		if g.isHookCfg(lhs.X) {
			g.writesHook()
			v := g.named(ind, r)
			g.line(ind, "-- a write of the configured hook")
			g.line(ind, "hookCfg ← Go.modify hookCfg "+i+" (fun _ => "+v+")")
			return
		}
		id, ok := lhs.X.(*ast.Ident)
		if !ok || g.lookup(id.Name) != "strings" {
			g.bad(ind, "assignment to %s", exprFull(lhs))
			return
		}
		v := g.named(ind, r)
		g.line(ind, leanIdent(id.Name)+" ← Go.modify "+leanIdent(id.Name)+" "+i+" (fun _ => "+v+")")
		if g.alias[id.Name] {
			g.line(ind, "-- "+id.Name+" shares the array of the configured hook: the same write there")
			g.line(ind, "hookCfg ← Go.modify hookCfg "+i+" (fun _ => "+v+")")
		}
	case *ast.Ident:
		/* x := config.Parsed.Media.Hook : x shares the configured array */
		if g.isHookCfg(s.Rhs[0]) {
			if s.Tok != token.DEFINE || g.inLoop > 0 {
				g.bad(ind, "assignment of the configured hook to %s", lhs.Name)
				return
			}
			g.writesHook()
			g.alias[lhs.Name] = true
			g.mutable[lhs.Name] = true
			g.line(ind, "-- "+lhs.Name+" := config.Parsed.Media.Hook: no copy, the two share one array")
			g.declare(ind, lhs.Name, "strings", "hookCfg")
			return
		}
		r, rk := g.expr(s.Rhs[0])
		if rk == "nil" || rk == "?" {
			if rk != "?" {
				r = g.fail("assignment from %s", exprFull(s.Rhs[0]))
			}
			g.line(ind, "let _ := "+r)
			return
		}
		if lhs.Name == "_" && s.Tok == token.ASSIGN {
			/* `_ = e`: e is evaluated (it may panic), its value dropped */
			g.line(ind, "let _ := "+r)
			return
		}
		if s.Tok == token.DEFINE {
			if rk == "cmd" {
				if g.cmdVar != "" {
					g.bad(ind, "a second command")
					return
				}
				g.cmdVar = lhs.Name
			}
			if rk == "strings" {
				if id, ok := s.Rhs[0].(*ast.Ident); ok && g.alias[id.Name] {
					g.alias[lhs.Name] = true
				}
				if _, ok := s.Rhs[0].(*ast.SliceExpr); ok {
					g.bad(ind, "a slice of a slice kept in %s (shared arrays are not modelled)", lhs.Name)
					return
				}
			}
			g.declare(ind, lhs.Name, rk, r)
			return
		}
		vk := g.lookup(lhs.Name)
		if vk == "" || (vk != rk && !(rk == "lit" && vk == "int")) || s.Tok != token.ASSIGN {
			g.bad(ind, "assignment to %s", lhs.Name)
			return
		}
		if vk == "strings" || vk == "cmd" {
			g.bad(ind, "%s assigned as a whole (shared arrays are not modelled)", lhs.Name)
			return
		}
		g.line(ind, leanIdent(lhs.Name)+" := "+r)
	default:
		g.bad(ind, "assignment target %s", exprFull(s.Lhs[0]))
	}
}

/* a, b := cmd.M()  in the goroutine, before the lock */
func (g *h17) runResults(ind int, s *ast.AssignStmt) {
	call, ok := s.Rhs[0].(*ast.CallExpr)
	if !ok || !g.closure || s.Tok != token.DEFINE || len(call.Args) != 0 {
		g.bad(ind, "tuple assignment from %s", exprFull(s.Rhs[0]))
		return
	}
	se, ok := call.Fun.(*ast.SelectorExpr)
	if !ok || g.cmdVar == "" || !isIdent(se.X, g.cmdVar) {
		g.bad(ind, "tuple assignment from %s", exprFull(call))
		return
	}
	if se.Sel.Name != "CombinedOutput" && se.Sel.Name != "Output" {
		g.bad(ind, "exec.Cmd.%s is not a method that returns ([]byte, error)", se.Sel.Name)
		return
	}
	if g.runMethod != "" {
		g.bad(ind, "the command is run twice")
		return
	}
	g.runMethod = se.Sel.Name
	a, ok1 := s.Lhs[0].(*ast.Ident)
	b, ok2 := s.Lhs[1].(*ast.Ident)
	if !ok1 || !ok2 {
		g.bad(ind, "targets of %s", exprFull(call))
		return
	}
	g.line(ind, "-- "+a.Name+", "+b.Name+" := "+exprFull(call)+": what the external program did")
	g.declare(ind, a.Name, "bytes", "outcome.output")
	g.declare(ind, b.Name, "error", "outcome.err")
}

func (g *h17) ifStmt(ind int, s *ast.IfStmt) {
	if s.Init != nil {
		g.bad(ind, "init statement of an if")
		return
	}
	t, k := g.expr(s.Cond)
	if k != "bool" {
		t = g.fail("condition %s", exprFull(s.Cond))
	}
	g.line(ind, "if "+t+" then")
	g.body(ind+1, s.Body.List)
	if s.Else != nil {
		g.line(ind, "else")
		g.body(ind+1, []ast.Stmt{s.Else})
	}
}

func (g *h17) switchStmt(ind int, s *ast.SwitchStmt) {
	if s.Init != nil || s.Tag == nil {
		g.bad(ind, "switch form")
		return
	}
	tag, tk := g.expr(s.Tag)
	if u16Effects(tag) || (tk != "int" && tk != "string") {
		g.bad(ind, "switch tag %s", exprFull(s.Tag))
		return
	}
	var deflt *ast.CaseClause
	cases := []*ast.CaseClause{}
	for _, c := range s.Body.List {
		cc := c.(*ast.CaseClause)
		if cc.List == nil {
			deflt = cc
			continue
		}
		cases = append(cases, cc)
	}
	g.line(ind, "-- switch "+exprFull(s.Tag))
	body := func(ind int, cc *ast.CaseClause) {
		for _, st := range cc.Body {
			bad := false
			ast.Inspect(st, func(m ast.Node) bool {
				if bs, ok := m.(*ast.BranchStmt); ok && !(bs.Tok == token.CONTINUE && bs.Label == nil && g.inLoop > 0) {
					bad = true
				}
				return true
			})
			if bad {
				g.bad(ind, "break / fallthrough / goto inside a case")
				return
			}
		}
		g.body(ind, cc.Body)
	}
	for _, cc := range cases {
		conds := []string{}
		for _, ce := range cc.List {
			v, vk := g.expr(ce)
			if u16Effects(v) || (vk != tk && !(vk == "lit" && tk == "int")) {
				g.bad(ind, "case %s", exprFull(ce))
				return
			}
			conds = append(conds, "decide ("+tag+" = "+v+")")
		}
		cond := conds[0]
		if len(conds) > 1 {
			cond = "(" + strings.Join(conds, " || ") + ")"
		}
		g.line(ind, "if "+cond+" then")
		body(ind+1, cc)
		g.line(ind, "else")
		ind++
	}
	if deflt != nil {
		body(ind, deflt)
	} else {
		g.line(ind, "pure ()")
	}
}

func (g *h17) rangeStmt(ind int, s *ast.RangeStmt) {
	x, ok := s.X.(*ast.Ident)
	if !ok || g.lookup(x.Name) != "strings" || s.Tok != token.DEFINE {
		g.bad(ind, "range over %s", exprFull(s.X))
		return
	}
	key, ok := s.Key.(*ast.Ident)
	if !ok {
		g.bad(ind, "range without an index variable")
		return
	}
	var val *ast.Ident
	if s.Value != nil {
		if val, ok = s.Value.(*ast.Ident); !ok {
			g.bad(ind, "range value %s", exprFull(s.Value))
			return
		}
	}
	as := assignedIdents(s.Body)
	if as[x.Name] || as[key.Name] || (val != nil && as[val.Name]) {
		g.bad(ind, "the loop assigns %s, its index or its value variable", x.Name)
		return
	}
	bad := false
	ast.Inspect(s.Body, func(n ast.Node) bool {
		switch m := n.(type) {
		case *ast.BranchStmt:
			if m.Tok != token.CONTINUE || m.Label != nil {
				bad = true
			}
		case *ast.ForStmt, *ast.RangeStmt, *ast.GoStmt, *ast.DeferStmt, *ast.FuncLit, *ast.ReturnStmt:
			bad = true
		}
		return true
	})
	if bad {
		g.bad(ind, "break / return / goto / nested loop / closure inside the loop")
		return
	}
	hdr := "for " + key.Name
	if val != nil && val.Name != "_" {
		hdr += ", " + val.Name
	}
	g.line(ind, "-- "+hdr+" := range "+x.Name)
	kn := leanIdent(key.Name)
	if key.Name == "_" {
		kn = g.fresh("i")
	}
	g.line(ind, "for "+kn+" in Go.indices "+leanIdent(x.Name)+" do")
	g.push()
	if key.Name != "_" {
		if g.reserved(key.Name) || g.lookup(key.Name) != "" {
			g.bad(ind+1, "name of the index variable %s", key.Name)
		}
		g.scopes[len(g.scopes)-1][key.Name] = "int"
	}
	if val != nil && val.Name != "_" {
		if g.reserved(val.Name) || g.lookup(val.Name) != "" {
			g.bad(ind+1, "name of the value variable %s", val.Name)
		}
		g.scopes[len(g.scopes)-1][val.Name] = "string"
		g.line(ind+1, "let "+leanIdent(val.Name)+" ← Go.index "+leanIdent(x.Name)+" "+kn)
	}
	g.inLoop++
	start := g.b.Len()
	for _, st := range s.Body.List {
		g.stmt(ind+1, st)
	}
	if g.b.Len() == start || g.blockEndsInLet(start) {
		g.line(ind+1, "pure ()")
	}
	g.inLoop--
	g.pop()
}

func (g *h17) isRedraw(call *ast.CallExpr) bool {
	se, ok := call.Fun.(*ast.SelectorExpr)
	if !ok || !isIdent(se.X, g.recv) || se.Sel.Name != "output" || len(call.Args) != 1 {
		return false
	}
	vc, ok := call.Args[0].(*ast.CallExpr)
	if !ok || len(vc.Args) != 0 {
		return false
	}
	vs, ok := vc.Fun.(*ast.SelectorExpr)
	return ok && isIdent(vs.X, g.recv) && vs.Sel.Name == "view"
}

func (g *h17) stmt(ind int, st ast.Stmt) {
	switch s := st.(type) {
	case *ast.BlockStmt:
		g.body(ind, s.List)
	case *ast.EmptyStmt:
	case *ast.ReturnStmt:
		if !g.closure || len(s.Results) != 0 {
			g.bad(ind, "return in openExternally (the hook would not be started)")
			return
		}
		g.line(ind, "return { state := "+g.recv+", frames := frames }")
	case *ast.BranchStmt:
		if s.Tok == token.CONTINUE && s.Label == nil && g.inLoop > 0 {
			g.line(ind, "continue")
			return
		}
		g.bad(ind, "%s", s.Tok)
	case *ast.IfStmt:
		g.ifStmt(ind, s)
	case *ast.SwitchStmt:
		g.switchStmt(ind, s)
	case *ast.RangeStmt:
		g.rangeStmt(ind, s)
	case *ast.ExprStmt:
		call, ok := s.X.(*ast.CallExpr)
		if !ok {
			g.bad(ind, "expression statement %s", exprFull(s.X))
			return
		}
		if g.isRedraw(call) {
			g.line(ind, "frames := frames ++ ["+g.recv+"]")
			return
		}
		if isIdent(call.Fun, "copy") && len(call.Args) == 2 && call.Ellipsis == token.NoPos {
			src, sk := g.expr(call.Args[1])
			if sk != "strings" {
				g.bad(ind, "source of %s", exprFull(call))
				return
			}
			if g.isHookCfg(call.Args[0]) {
				g.writesHook()
				g.line(ind, "-- a write of the configured hook")
				g.line(ind, "hookCfg := Go.copy hookCfg "+src)
				return
			}
			if id, ok := call.Args[0].(*ast.Ident); ok && g.lookup(id.Name) == "strings" {
				if u16Effects(src) {
					src = g.named(ind, src)
				}
				g.line(ind, leanIdent(id.Name)+" := Go.copy "+leanIdent(id.Name)+" "+src)
				if g.alias[id.Name] {
					g.line(ind, "-- "+id.Name+" shares the array of the configured hook: the same write there")
					g.line(ind, "hookCfg := Go.copy hookCfg "+src)
				}
				return
			}
		}
		g.bad(ind, "expression statement %s", exprFull(s.X))
	case *ast.DeclStmt:
		gd, ok := s.Decl.(*ast.GenDecl)
		if !ok || gd.Tok != token.VAR {
			g.bad(ind, "declaration")
			return
		}
		for _, sp := range gd.Specs {
			vs := sp.(*ast.ValueSpec)
			switch {
			case len(vs.Values) == 0 && vs.Type != nil:
				z := map[string]string{"string": "(Go.str \"\")", "int": "0", "bool": "false"}[typeString(vs.Type)]
				for _, n := range vs.Names {
					if z == "" {
						g.bad(ind, "zero value of %s", exprFull(vs.Type))
						continue
					}
					g.declare(ind, n.Name, typeString(vs.Type), z)
				}
			case len(vs.Values) == len(vs.Names) && vs.Type == nil:
				for i, n := range vs.Names {
					as := &ast.AssignStmt{Lhs: []ast.Expr{n}, Tok: token.DEFINE, Rhs: []ast.Expr{vs.Values[i]}}
					g.assign(ind, as)
				}
			default:
				g.bad(ind, "declaration form")
			}
		}
	case *ast.AssignStmt:
		g.assign(ind, s)
	default:
		g.bad(ind, "statement %T", st)
	}
}

/* every name a statement list writes: whole variables, elements, fields, first arguments of copy */
func h17Written(list []ast.Stmt) map[string]bool {
	out := map[string]bool{}
	root := func(e ast.Expr) {
		for {
			switch x := e.(type) {
			case *ast.Ident:
				out[x.Name] = true
				return
			case *ast.IndexExpr:
				e = x.X
			case *ast.SelectorExpr:
				e = x.X
			case *ast.ParenExpr:
				e = x.X
			default:
				return
			}
		}
	}
	for _, st := range list {
		ast.Inspect(st, func(n ast.Node) bool {
			switch s := n.(type) {
			case *ast.FuncLit:
				return false
			case *ast.AssignStmt:
				if s.Tok != token.DEFINE {
					for _, l := range s.Lhs {
						root(l)
					}
				}
			case *ast.IncDecStmt:
				root(s.X)
			case *ast.CallExpr:
				if isIdent(s.Fun, "copy") && len(s.Args) == 2 {
					root(s.Args[0])
				}
			}
			return true
		})
	}
	return out
}

/* config/config.go declares `var Parsed *Config` and `Config.Media.Hook []string` */
func h17ConfigDeclared(root string) bool {
	f := parseFile(root, "config/config.go")
	parsed, hook := false, false
	for _, d := range f.Decls {
		gd, ok := d.(*ast.GenDecl)
		if !ok {
			continue
		}
		for _, sp := range gd.Specs {
			switch x := sp.(type) {
			case *ast.ValueSpec:
				if gd.Tok == token.VAR && len(x.Names) == 1 && x.Names[0].Name == "Parsed" && x.Type != nil && typeString(x.Type) == "*Config" {
					parsed = true
				}
			case *ast.TypeSpec:
				st, ok := x.Type.(*ast.StructType)
				if !ok || x.Name.Name != "Config" {
					continue
				}
				for _, fl := range st.Fields.List {
					inner, ok := fl.Type.(*ast.StructType)
					if !ok || len(fl.Names) != 1 || fl.Names[0].Name != "Media" {
						continue
					}
					for _, il := range inner.Fields.List {
						for _, n := range il.Names {
							if n.Name == "Hook" && typeString(il.Type) == "[]string" {
								hook = true
							}
						}
					}
				}
			}
		}
	}
	return parsed && hook
}

func translateHook(root string) (string, []string) {
	f := parseFile(root, "ui/ui.go")
	g := &h17{mutable: map[string]bool{}, modeSet: map[string]bool{}, used: map[string]bool{}, mimeOK: map[string]bool{}, alias: map[string]bool{}}
	g.cfgOK = h17ConfigDeclared(root)
	var fd *ast.FuncDecl
	for _, d := range f.Decls {
		switch x := d.(type) {
		case *ast.GenDecl:
			if x.Tok == token.TYPE {
				for _, sp := range x.Specs {
					ts := sp.(*ast.TypeSpec)
					if st, ok := ts.Type.(*ast.StructType); ok && ts.Name.Name == "State" {
						g.state = st
					}
				}
			}
		case *ast.FuncDecl:
			if x.Recv != nil && len(x.Recv.List) == 1 && exprString(x.Recv.List[0].Type) == "*State" && x.Name.Name == "openExternally" {
				fd = x
			}
		}
	}
	/* the string fields of mime.MediaType (the struct itself is translated in Generated/GoMime.lean) */
	for _, d := range parseFile(root, "mime/mime.go").Decls {
		if gd, ok := d.(*ast.GenDecl); ok && gd.Tok == token.TYPE {
			for _, sp := range gd.Specs {
				ts := sp.(*ast.TypeSpec)
				if st, ok := ts.Type.(*ast.StructType); ok && ts.Name.Name == "MediaType" {
					for _, fl := range st.Fields.List {
						for _, n := range fl.Names {
							if isIdent(fl.Type, "string") {
								g.mimeOK[n.Name] = true
							}
						}
					}
				}
			}
		}
	}
	/* the modes, read as the sixteenth front end reads them */
	u := &u16{modeSet: g.modeSet}
	modeDefs := u.modeBlock(f)
	g.err = append(g.err, u.err...)

	var mainBody, doneBody string
	mutex := ""
	if fd == nil {
		g.fail("func (s *State) openExternally not found")
	} else {
		g.recv = recvName(fd)
		ps := fd.Type.Params.List
		okSig := g.recv != "" && fd.Type.Results == nil && len(ps) == 2 && len(ps[0].Names) == 1 && len(ps[1].Names) == 1 &&
			isIdent(ps[0].Type, "string") && typeString(ps[1].Type) == "*mime.MediaType" &&
			ps[0].Names[0].Name == "link" && ps[1].Names[0].Name == "mediaType"
		list := fd.Body.List
		var goStmt *ast.GoStmt
		if !okSig {
			g.fail("signature of openExternally (expected (link string, mediaType *mime.MediaType))")
		}
		if len(list) > 0 {
			if gs, ok := list[len(list)-1].(*ast.GoStmt); ok {
				goStmt = gs
				list = list[:len(list)-1]
			}
		}
		if goStmt == nil {
			g.fail("openExternally does not end with a go statement")
		}
		/* the mutex of State */
		if g.state != nil {
			for _, fl := range g.state.Fields.List {
				for _, n := range fl.Names {
					if typeString(fl.Type) == "*sync.Mutex" || typeString(fl.Type) == "sync.Mutex" {
						mutex = n.Name
					}
				}
			}
		}
		for _, st := range list {
			ast.Inspect(st, func(n ast.Node) bool {
				if se, ok := n.(*ast.SelectorExpr); ok && isIdent(se.X, g.recv) && mutex != "" && se.Sel.Name == mutex {
					g.fail("openExternally uses the mutex before the hook is started (line %d)", fset.Position(se.Pos()).Line)
				}
				switch n.(type) {
				case *ast.GoStmt, *ast.DeferStmt, *ast.FuncLit, *ast.LabeledStmt:
					g.fail("go / defer / closure / label before the final go statement (line %d)", fset.Position(n.Pos()).Line)
				}
				return true
			})
		}
		params := assignedIdents(fd.Body)
		if params["link"] || params["mediaType"] {
			g.fail("openExternally assigns to a parameter")
		}
		/* the part before the go statement */
		g.mutable = h17Written(list)
		g.push()
		g.scopes[0]["link"] = "string"
		g.scopes[0]["mediaType"] = "mediatype"
		for _, st := range list {
			g.stmt(1, st)
		}
		if g.cmdVar == "" {
			g.fail("no command is built (cmd := exec.Command(…))")
			g.cmdVar = "sorry_untranslatable"
		}
		cfg := "hook"
		if g.hookWrite {
			cfg = "hookCfg"
		}
		g.line(1, "return { state := "+g.recv+", frames := frames, configured := "+cfg+", cmd := "+leanIdent(g.cmdVar)+" }")
		outerNames := []string{}
		for n := range g.scopes[0] {
			outerNames = append(outerNames, n)
		}
		sort.Strings(outerNames)
		g.pop()
		mainBody = g.b.String()
		g.b = strings.Builder{}

		/* the goroutine */
		if goStmt != nil {
			fl, ok := goStmt.Call.Fun.(*ast.FuncLit)
			if !ok || len(goStmt.Call.Args) != 0 || (fl.Type.Params != nil && len(fl.Type.Params.List) != 0) || fl.Type.Results != nil {
				g.fail("the go statement does not start a closure without parameters")
			} else {
				g.closure = true
				cl := fl.Body.List
				lockAt := -1
				for i, st := range cl {
					es, ok := st.(*ast.ExprStmt)
					if !ok {
						continue
					}
					c, ok := es.X.(*ast.CallExpr)
					if ok && mutex != "" && exprString(c.Fun) == g.recv+"."+mutex+".Lock" && len(c.Args) == 0 {
						lockAt = i
						break
					}
				}
				okLock := lockAt >= 0 && lockAt+1 < len(cl)
				if okLock {
					ds, ok := cl[lockAt+1].(*ast.DeferStmt)
					okLock = ok && exprString(ds.Call.Fun) == g.recv+"."+mutex+".Unlock" && len(ds.Call.Args) == 0
				}
				if !okLock {
					g.fail("the goroutine has no %s.%s.Lock(); defer %s.%s.Unlock() pair", g.recv, mutex, g.recv, mutex)
					lockAt = -2
				}
				var pre, crit []ast.Stmt
				if okLock {
					pre, crit = cl[:lockAt], cl[lockAt+2:]
				} else {
					crit = cl
				}
				for _, st := range pre {
					if mentionsIdent(st, g.recv) {
						g.fail("the goroutine touches the state before it takes the mutex (line %d)", fset.Position(st.Pos()).Line)
					}
				}
				for _, st := range crit {
					ast.Inspect(st, func(n ast.Node) bool {
						if se, ok := n.(*ast.SelectorExpr); ok && isIdent(se.X, g.recv) && se.Sel.Name == mutex {
							g.fail("the mutex is used inside the critical section (line %d)", fset.Position(se.Pos()).Line)
						}
						switch n.(type) {
						case *ast.GoStmt, *ast.DeferStmt, *ast.FuncLit, *ast.LabeledStmt, *ast.ForStmt:
							g.fail("go / defer / closure / loop / label in the critical section (line %d)", fset.Position(n.Pos()).Line)
						}
						return true
					})
				}
				/* what the closure may see of the enclosing call: the command, as the receiver of the one run */
				g.scopes = nil
				g.push()
				g.scopes[0][g.cmdVar] = "cmd"
				{
					for _, n := range outerNames {
						if n != g.cmdVar && mentionsIdent(fl.Body, n) {
							declaredInside := false
							ast.Inspect(fl.Body, func(m ast.Node) bool {
								if as, ok := m.(*ast.AssignStmt); ok && as.Tok == token.DEFINE {
									for _, l := range as.Lhs {
										if isIdent(l, n) {
											declaredInside = true
										}
									}
								}
								return true
							})
							if !declaredInside {
								g.fail("the goroutine reads %s of the call that started it", n)
							}
						}
					}
				}
				cmdUses := 0
				ast.Inspect(fl.Body, func(m ast.Node) bool {
					if isIdentNode(m, g.cmdVar) {
						cmdUses++
					}
					return true
				})
				if cmdUses != 1 {
					g.fail("the goroutine mentions the command %d times (expected: once, to run it)", cmdUses)
				}
				g.mutable = h17Written(cl)
				g.tmp = 0
				for _, st := range pre {
					g.stmt(1, st)
				}
				if okLock {
					g.line(1, "-- "+g.recv+"."+mutex+".Lock(); defer "+g.recv+"."+mutex+".Unlock()")
				}
				for _, st := range crit {
					g.stmt(1, st)
				}
				g.line(1, "return { state := "+g.recv+", frames := frames }")
				g.pop()
				if g.runMethod == "" {
					g.fail("the goroutine does not run the command")
				}
				doneBody = g.b.String()
				g.b = strings.Builder{}
				g.closure = false
			}
		}
	}

	/* the file */
	g.line(0, "namespace GenHook")
	g.line(0, "")
	g.line(0, "/-- the modes: the `const` block of ui/ui.go that declares `loading`, in its order -/")
	for _, l := range modeDefs {
		g.line(0, l)
	}
	g.line(0, "")
	carried, dropped := []string{}, []string{}
	if g.state != nil {
		for _, fl := range g.state.Fields.List {
			for _, n := range fl.Names {
				if g.used[n.Name] {
					carried = append(carried, leanIdent(n.Name)+" : "+g.leanType(typeString(fl.Type)))
				} else {
					dropped = append(dropped, n.Name)
				}
			}
		}
	}
	g.line(0, "/-- `type State struct`: the fields `openExternally` and its goroutine touch; the others ("+strings.Join(dropped, ", ")+") travel as `rest` -/")
	g.line(0, "structure State (Rest : Type) where")
	for _, c := range carried {
		g.line(1, c)
	}
	g.line(1, "rest : Rest")
	g.line(0, "")
	g.line(0, "/-- what `exec.Command(name, arg...)` was given and what `cmd.Stdin` was set to (`none` = nil, `some t` = a")
	g.line(0, "    `strings.NewReader` over `t`) -/")
	g.line(0, "structure Cmd where")
	g.line(1, "name : Str")
	g.line(1, "args : List Str")
	g.line(1, "stdin : Option Str")
	g.line(1, "deriving DecidableEq, Repr")
	g.line(0, "")
	g.line(0, "/-- os/exec (trusted): the argv of the started program is `append([]string{name}, arg...)` -/")
	g.line(0, "def Cmd.argv (c : Cmd) : List Str := c.name :: c.args")
	g.line(0, "")
	g.line(0, "/-- what running the command returned: its output as text, and the error's text (`none` = nil) -/")
	g.line(0, "structure Outcome where")
	g.line(1, "output : Str")
	g.line(1, "err : Option Str")
	g.line(0, "")
	g.line(0, "/-- what `openExternally` leaves when it returns: the state, the frames emitted (the state each was drawn")
	g.line(0, "    from), `config.Parsed.Media.Hook` as it is afterwards, the command the goroutine runs -/")
	g.line(0, "structure Started (Rest : Type) where")
	g.line(1, "state : State Rest")
	g.line(1, "frames : List (State Rest)")
	g.line(1, "configured : List Str")
	g.line(1, "cmd : Cmd")
	g.line(0, "")
	g.line(0, "/-- what the goroutine leaves -/")
	g.line(0, "structure Done (Rest : Type) where")
	g.line(1, "state : State Rest")
	g.line(1, "frames : List (State Rest)")
	g.line(0, "")
	g.line(0, "variable {Rest : Type}")
	g.line(0, "")
	if mainBody != "" {
		g.line(0, "/-- `func (s *State) openExternally(link string, mediaType *mime.MediaType)` up to its `go` statement;")
		g.line(0, "    `hook` is `config.Parsed.Media.Hook` -/")
		g.line(0, "def openExternally (hook : List Str) (s0 : State Rest) (link : Str) (mediaType : Option GenMime.MediaType) :")
		g.line(2, "Except Panic (Started Rest) := do")
		g.line(1, "let mut "+g.recv+" := s0")
		g.line(1, "let mut frames : List (State Rest) := []")
		if g.hookWrite {
			g.line(1, "let mut hookCfg : List Str := hook")
		}
		g.b.WriteString(mainBody)
		g.line(0, "")
	}
	if doneBody != "" {
		g.line(0, "/-- which method of `exec.Cmd` the goroutine runs the command with -/")
		g.line(0, "def runMethod : String := "+leanStr(g.runMethod))
		g.line(0, "")
		g.line(0, "/-- the goroutine `go func() { … }()`: `s0` is the state when it gets the mutex, `outcome` what")
		g.line(0, "    `cmd."+g.runMethod+"()` returned -/")
		g.line(0, "def hookDone (s0 : State Rest) (outcome : Outcome) : Except Panic (Done Rest) := do")
		g.line(1, "let mut "+g.recv+" := s0")
		g.line(1, "let mut frames : List (State Rest) := []")
		g.b.WriteString(doneBody)
		g.line(0, "")
	}
	g.line(0, "end GenHook")
	return g.b.String(), g.err
}

func isIdentNode(n ast.Node, name string) bool {
	id, ok := n.(*ast.Ident)
	return ok && id.Name == name
}
