package main

/*
go2lean, eighteenth front end: the statements of `jtp.Get` (jtp/jtp.go) BEFORE
`buf := bufio.NewReader(connection)` — the cache lookup, the scheme test, the dial target, the
deadline and the one write of the request — as `GenJtpFront.Get_front`, and `Get_once`, that part
followed by the statements the ninth front end translates (`GenJtp.Get_response`).

  the result   a description of what this part does, `Front Doc Conn`:
                 `done item source`        `return v, l, nil`
                 `again link maxRedirects` `return Get(l, accept, tolerated, n)` (`accept` and
                                           `tolerated` must be passed on unchanged)
                 `failed e acts`           `return nil, nil, e` for an `e` that is visibly non-nil
                 `reading v… acts`         the reader is about to be set up; `v…` are the locals
                                           of this part the rest of `Get` mentions
               `acts` is the list of what was done on the network, in program order: `dial d
               network addr` (`tls.DialWithDialer(d, network, addr, nil)` was called; a
               configuration other than `nil` is rejected), `setDeadline c d` (`c.SetDeadline(
               time.Now().Add(d))`), `write c bytes` (`c.Write([]byte(bytes))`), `close c`.
               `e` is `.new text` for `errors.New(text)` or `.of "call"` for the error the named
               external call returned (alone, or `errors.Join`ed with what `Close` returned).
  externals    fields of `W : Ext Doc Conn`: `cacheGet` (`cache.Get(key)` on the package's
               `lru` cache of `bundle`s), `dial` (fails or yields a connection), whether
               `SetDeadline` / `Write` return an error, what the connection delivers to the reader.
  the link     a non-nil `*url.URL` parameter is a `Go.Net.URL`: its string fields and its string
               methods without arguments are fields of that record (Model/GoNet.lean); any other
               field or method is rejected.  `cached.redirect` etc. are the fields of
               `GenJtp.bundle` (an `Option` for a pointer or a map).
  the timeout  `config.Parsed.Network.Timeout` is the parameter `timeout : Int`; the package
               variable `dialer = &net.Dialer{…}` is translated field by field.
  expressions  string literals, `+` on strings (left to right as the parser nests it), `==` `!=`
               on strings and on a `uint` against a literal, `>` `<` `>=` `<=` on integers,
               `p == nil` / `p != nil` on a field of the bundle, `n - k` on `uint` (wrapping,
               `Go.usub`), `strings.Join`, `net.JoinHostPort`, `[]byte(s)`, `!`, `&&`, `||`.
  statements   continuation style (no joins): `v := e`, `v = e`, `if c { … }` (the statements
               after it are repeated in both branches unless the body is a single assignment
               `v = e`, which becomes `let v := if c then e else v`), `if … else`,
               `if v, ok := cache.Get(k); ok { … }`, `v, err := tls.DialWithDialer(…)`,
               `err = c.SetDeadline(…)`, `_, err = c.Write(…)` — each of the three directly
               followed by `if err != nil { … }` —, `return`.

Everything else makes the translator emit `sorry_untranslatable`, an unknown identifier that also
contains a forbidden word: the generated file no longer builds.
*/

import (
	"fmt"
	"go/ast"
	"go/token"
	"strconv"
	"strings"
)

var jfURLFields = map[string]bool{"Scheme": true, "Opaque": true, "Host": true, "Path": true, "RawPath": true, "RawQuery": true, "Fragment": true, "RawFragment": true}
var jfURLMethods = map[string]bool{"String": true, "Port": true, "Hostname": true, "RequestURI": true, "EscapedPath": true}

const jfTimeout = "config.Parsed.Network.Timeout"

type jfScope struct {
	order  []string
	types  map[string]string // Go variable -> kind: string, url, urlopt, docopt, uint, strs, bundle, conn, error, int
	origin map[string]string // error variable -> the external call it came from
	nonNil map[string]bool   // error variables inside the branch where they were tested != nil
	params map[string]bool
}

func (s *jfScope) clone() *jfScope {
	c := &jfScope{order: append([]string{}, s.order...), types: map[string]string{}, origin: map[string]string{}, nonNil: map[string]bool{}, params: s.params}
	for k, v := range s.types {
		c.types[k] = v
	}
	for k, v := range s.origin {
		c.origin[k] = v
	}
	for k, v := range s.nonNil {
		c.nonNil[k] = v
	}
	return c
}

func (s *jfScope) declare(name, typ string) {
	if name == "_" {
		return
	}
	if _, ok := s.types[name]; !ok {
		s.order = append(s.order, name)
	}
	s.types[name] = typ
	delete(s.nonNil, name)
}

type jf struct {
	b          *strings.Builder
	errs       []string
	bundle     map[string]string // field -> kind
	hasCache   bool
	hasDialer  bool
	dialerDef  string
	getParams  []string
	getKinds   []string
	tail       []ast.Stmt
	live       [][2]string // name, kind: locals of the front part the tail mentions
	liveSet    bool
	extUsed    map[string]bool
	usesTO     bool
	readerVar  string
	readerConn string
}

func (g *jf) fail(format string, a ...any) string {
	msg := fmt.Sprintf(format, a...)
	g.errs = append(g.errs, "Get (front): "+msg)
	return "(sorry_untranslatable /- " + strings.ReplaceAll(msg, "-/", "- /") + " -/)"
}

func (g *jf) line(ind int, s string) { g.b.WriteString(strings.Repeat("  ", ind) + s + "\n") }

func jfLeanType(kind string) string {
	switch kind {
	case "string":
		return "Str"
	case "url":
		return "URL"
	case "urlopt":
		return "Option URL"
	case "docopt":
		return "Option Doc"
	case "uint":
		return "Nat"
	case "int":
		return "Int"
	case "strs":
		return "List Str"
	case "conn":
		return "Conn"
	case "bundle":
		return "GenJtp.bundle URL Doc"
	case "bool":
		return "Bool"
	}
	return "sorry_untranslatable /- type " + kind + " -/"
}

func jfKindOfType(t string, param bool) string {
	switch t {
	case "string":
		return "string"
	case "[]string":
		return "strs"
	case "uint":
		return "uint"
	case "*url.URL":
		if param {
			return "url"
		}
		return "urlopt"
	case "map[string]any":
		return "docopt"
	case "error":
		return "error"
	}
	return "?" + t
}

/* ---------- expressions ---------- */

func (g *jf) expr(sc *jfScope, e ast.Expr) (string, string) {
	switch x := e.(type) {
	case *ast.ParenExpr:
		return g.expr(sc, x.X)
	case *ast.Ident:
		switch x.Name {
		case "true", "false":
			return x.Name, "bool"
		case "nil":
			return "none", "nil"
		}
		if t, ok := sc.types[x.Name]; ok {
			if t == "error" {
				return g.fail("%s used as a value", x.Name), "?"
			}
			return lkIdent(x.Name), t
		}
		return g.fail("identifier %s", x.Name), "?"
	case *ast.BasicLit:
		switch x.Kind {
		case token.STRING:
			s, err := strconv.Unquote(x.Value)
			if err != nil {
				return g.fail("string literal %s", x.Value), "?"
			}
			return "(Go.str " + leanStr(s) + ")", "string"
		case token.INT:
			if _, err := strconv.ParseUint(x.Value, 10, 63); err == nil {
				return x.Value, "int-literal"
			}
		}
		return g.fail("literal %s", x.Value), "?"
	case *ast.UnaryExpr:
		if x.Op == token.NOT {
			v, t := g.expr(sc, x.X)
			if t != "bool" {
				return g.fail("! on %s", t), "?"
			}
			return "(!" + v + ")", "bool"
		}
		return g.fail("unary %s", x.Op), "?"
	case *ast.SelectorExpr:
		if exprString(x) == jfTimeout {
			g.usesTO = true
			return "timeout", "int"
		}
		if id, ok := x.X.(*ast.Ident); ok {
			switch sc.types[id.Name] {
			case "url":
				if jfURLFields[x.Sel.Name] {
					return lkIdent(id.Name) + "." + x.Sel.Name, "string"
				}
				return g.fail("field %s of a *url.URL", x.Sel.Name), "?"
			case "bundle":
				if k, ok := g.bundle[x.Sel.Name]; ok {
					return lkIdent(id.Name) + "." + lkIdent(x.Sel.Name), k
				}
				return g.fail("field %s of a bundle", x.Sel.Name), "?"
			}
		}
		return g.fail("selector %s", exprString(x)), "?"
	case *ast.BinaryExpr:
		return g.binary(sc, x)
	case *ast.CallExpr:
		return g.call(sc, x)
	}
	return g.fail("expression %T", e), "?"
}

func jfInt(t string) bool { return t == "int" || t == "int-literal" }

func (g *jf) binary(sc *jfScope, x *ast.BinaryExpr) (string, string) {
	/* p == nil, p != nil */
	if x.Op == token.EQL || x.Op == token.NEQ {
		if id, ok := x.Y.(*ast.Ident); ok && id.Name == "nil" {
			v, t := g.expr(sc, x.X)
			if t != "urlopt" && t != "docopt" {
				return g.fail("comparison of %s with nil", t), "?"
			}
			if x.Op == token.EQL {
				return v + ".isNone", "bool"
			}
			return v + ".isSome", "bool"
		}
	}
	a, ta := g.expr(sc, x.X)
	b, tb := g.expr(sc, x.Y)
	switch x.Op {
	case token.ADD:
		if ta == "string" && tb == "string" {
			return "(" + a + " ++ " + b + ")", "string"
		}
	case token.SUB:
		if ta == "uint" && (tb == "uint" || tb == "int-literal") {
			return "(Go.usub " + a + " " + b + ")", "uint"
		}
	case token.EQL, token.NEQ:
		op := " = "
		if x.Op == token.NEQ {
			op = " ≠ "
		}
		if (ta == "string" && tb == "string") || (ta == "uint" && (tb == "uint" || tb == "int-literal")) || (jfInt(ta) && jfInt(tb)) {
			return "decide (" + a + op + b + ")", "bool"
		}
	case token.GTR, token.LSS, token.GEQ, token.LEQ:
		op := map[token.Token]string{token.GTR: " > ", token.LSS: " < ", token.GEQ: " ≥ ", token.LEQ: " ≤ "}[x.Op]
		if (jfInt(ta) && jfInt(tb)) || (ta == "uint" && (tb == "uint" || tb == "int-literal")) {
			return "decide (" + a + op + b + ")", "bool"
		}
	case token.LAND, token.LOR:
		op := " && "
		if x.Op == token.LOR {
			op = " || "
		}
		if ta == "bool" && tb == "bool" {
			return "(" + a + op + b + ")", "bool"
		}
	}
	return g.fail("%s %s %s", ta, x.Op, tb), "?"
}

func (g *jf) call(sc *jfScope, x *ast.CallExpr) (string, string) {
	/* []byte(s) */
	if at, ok := x.Fun.(*ast.ArrayType); ok && at.Len == nil && typeString(at.Elt) == "byte" && len(x.Args) == 1 {
		v, t := g.expr(sc, x.Args[0])
		if t != "string" {
			return g.fail("[]byte(%s)", t), "?"
		}
		return v, "bytes"
	}
	fun := exprString(x.Fun)
	args := func(kinds ...string) ([]string, bool) {
		if len(x.Args) != len(kinds) || x.Ellipsis != token.NoPos {
			g.fail("%s with %d arguments", fun, len(x.Args))
			return nil, false
		}
		out := []string{}
		for i, a := range x.Args {
			v, t := g.expr(sc, a)
			if t != kinds[i] {
				g.fail("argument %d of %s is %s, not %s", i+1, fun, t, kinds[i])
				return nil, false
			}
			out = append(out, v)
		}
		return out, true
	}
	switch fun {
	case "strings.Join":
		if a, ok := args("strs", "string"); ok {
			return "(Go.Strings.join " + a[0] + " " + a[1] + ")", "string"
		}
		return "(sorry_untranslatable /- strings.Join -/)", "?"
	case "net.JoinHostPort":
		if a, ok := args("string", "string"); ok {
			return "(Go.Net.joinHostPort " + a[0] + " " + a[1] + ")", "string"
		}
		return "(sorry_untranslatable /- net.JoinHostPort -/)", "?"
	}
	/* link.M() */
	if se, ok := x.Fun.(*ast.SelectorExpr); ok {
		if id, ok := se.X.(*ast.Ident); ok && sc.types[id.Name] == "url" {
			if jfURLMethods[se.Sel.Name] && len(x.Args) == 0 {
				return lkIdent(id.Name) + "." + se.Sel.Name, "string"
			}
			return g.fail("method %s of a *url.URL", se.Sel.Name), "?"
		}
	}
	return g.fail("call of %s", fun), "?"
}

func (g *jf) cond(sc *jfScope, e ast.Expr) string {
	v, t := g.expr(sc, e)
	if t != "bool" {
		return g.fail("condition of type %s", t)
	}
	return v
}

/* ---------- statements ---------- */

type jfCont func(ind int, sc *jfScope)

func jfIsErrTest(e ast.Expr, name string) bool {
	be, ok := e.(*ast.BinaryExpr)
	if !ok || be.Op != token.NEQ {
		return false
	}
	x, ok1 := be.X.(*ast.Ident)
	y, ok2 := be.Y.(*ast.Ident)
	return ok1 && ok2 && x.Name == name && y.Name == "nil"
}

/* the `if err != nil { … }` that must follow an external call: its body, or nil */
func jfErrBranch(rest []ast.Stmt, errName string) *ast.BlockStmt {
	if len(rest) == 0 {
		return nil
	}
	is, ok := rest[0].(*ast.IfStmt)
	if !ok || is.Init != nil || is.Else != nil || !jfIsErrTest(is.Cond, errName) {
		return nil
	}
	return is.Body
}

func (g *jf) fallOff(ind int, sc *jfScope) {
	g.line(ind, g.fail("the statements end without the reader being set up"))
}

func (g *jf) stmts(ind int, list []ast.Stmt, sc *jfScope, k jfCont) {
	if len(list) == 0 {
		k(ind, sc)
		return
	}
	s, rest := list[0], list[1:]
	next := func(ind int, sc *jfScope) { g.stmts(ind, rest, sc, k) }
	switch x := s.(type) {
	case *ast.ReturnStmt:
		g.ret(ind, x, sc)
	case *ast.IfStmt:
		g.ifStmt(ind, x, rest, sc, k)
	case *ast.AssignStmt:
		g.assign(ind, x, rest, sc, k)
	case *ast.EmptyStmt:
		next(ind, sc)
	default:
		g.line(ind, g.fail("statement %T", s))
	}
}

/* `acts_` grows by one entry */
func (g *jf) act(ind int, a string) {
	g.line(ind, "let acts_ := acts_ ++ ["+a+"]")
}

func (g *jf) assign(ind int, s *ast.AssignStmt, rest []ast.Stmt, sc *jfScope, k jfCont) {
	next := func(ind int, sc *jfScope) { g.stmts(ind, rest, sc, k) }
	if len(s.Rhs) != 1 {
		g.line(ind, g.fail("assignment of %d values", len(s.Rhs)))
		return
	}
	lhs := []string{}
	for _, l := range s.Lhs {
		id, ok := l.(*ast.Ident)
		if !ok {
			g.line(ind, g.fail("assignment to %s", exprString(l)))
			return
		}
		lhs = append(lhs, id.Name)
	}
	/* the external calls */
	if ce, ok := s.Rhs[0].(*ast.CallExpr); ok {
		fun := exprString(ce.Fun)
		/* the reader: the end of this part */
		if fun == "bufio.NewReader" {
			if len(lhs) == 1 && s.Tok == token.DEFINE && len(ce.Args) == 1 {
				if id, ok := ce.Args[0].(*ast.Ident); ok && sc.types[id.Name] == "conn" {
					g.reading(ind, sc, lhs[0], id.Name, rest)
					return
				}
			}
			g.line(ind, g.fail("bufio.NewReader in another shape"))
			return
		}
		if fun == "tls.DialWithDialer" {
			if len(lhs) != 2 || s.Tok != token.DEFINE || len(ce.Args) != 4 || lhs[0] == "_" || lhs[1] == "_" {
				g.line(ind, g.fail("tls.DialWithDialer in another shape"))
				return
			}
			body := jfErrBranch(rest, lhs[1])
			if body == nil {
				g.line(ind, g.fail("the error of tls.DialWithDialer is not tested at once"))
				return
			}
			d := ""
			if id, ok := ce.Args[0].(*ast.Ident); ok && id.Name == "dialer" && g.hasDialer && sc.types["dialer"] == "" {
				d = "(dialer timeout)"
			} else {
				d = g.fail("the dialer %s", exprString(ce.Args[0]))
			}
			network, tn := g.expr(sc, ce.Args[1])
			addr, ta := g.expr(sc, ce.Args[2])
			if tn != "string" || ta != "string" {
				g.line(ind, g.fail("network and address of types %s, %s", tn, ta))
				return
			}
			if id, ok := ce.Args[3].(*ast.Ident); !ok || id.Name != "nil" {
				g.line(ind, g.fail("a TLS configuration other than nil: %s", exprString(ce.Args[3])))
				return
			}
			g.extUsed["dial"] = true
			g.act(ind, ".dial "+d+" "+network+" "+addr)
			g.line(ind, "match W.dial "+d+" "+network+" "+addr+" with")
			g.line(ind, "| none => (")
			bad := sc.clone()
			bad.declare(lhs[1], "error")
			bad.origin[lhs[1]] = fun
			bad.nonNil[lhs[1]] = true
			g.stmts(ind+1, body.List, bad, func(ind int, sc *jfScope) {
				g.line(ind, g.fail("the branch of a failed dial goes on"))
			})
			g.line(ind+1, ")")
			g.line(ind, "| some "+lkIdent(lhs[0])+" =>")
			good := sc.clone()
			good.declare(lhs[0], "conn")
			good.declare(lhs[1], "error")
			g.stmts(ind+1, rest[1:], good, k)
			return
		}
		if se, ok := ce.Fun.(*ast.SelectorExpr); ok {
			if id, ok := se.X.(*ast.Ident); ok && sc.types[id.Name] == "conn" {
				conn := lkIdent(id.Name)
				errName := lhs[len(lhs)-1]
				if sc.types[errName] != "error" || s.Tok != token.ASSIGN {
					g.line(ind, g.fail("the error of %s is not assigned to a declared error variable", fun))
					return
				}
				body := jfErrBranch(rest, errName)
				if body == nil {
					g.line(ind, g.fail("the error of %s is not tested at once", fun))
					return
				}
				flag := ""
				switch se.Sel.Name {
				case "SetDeadline":
					/* c.SetDeadline(time.Now().Add(d)) */
					ok := len(lhs) == 1 && len(ce.Args) == 1
					var d ast.Expr
					if ok {
						add, isCall := ce.Args[0].(*ast.CallExpr)
						ok = isCall && len(add.Args) == 1
						if ok {
							sel, isSel := add.Fun.(*ast.SelectorExpr)
							ok = isSel && sel.Sel.Name == "Add"
							if ok {
								now, isNow := sel.X.(*ast.CallExpr)
								ok = isNow && exprString(now.Fun) == "time.Now" && len(now.Args) == 0
								d = add.Args[0]
							}
						}
					}
					if !ok {
						g.line(ind, g.fail("SetDeadline with something other than time.Now().Add(d)"))
						return
					}
					dv, dt := g.expr(sc, d)
					if dt != "int" {
						g.line(ind, g.fail("a deadline %s from now", dt))
						return
					}
					g.act(ind, ".setDeadline "+conn+" "+dv)
					flag = "setDeadlineFails"
				case "Write":
					if len(lhs) != 2 || lhs[0] != "_" || len(ce.Args) != 1 {
						g.line(ind, g.fail("Write in another shape"))
						return
					}
					bv, bt := g.expr(sc, ce.Args[0])
					if bt != "bytes" {
						g.line(ind, g.fail("Write of %s", bt))
						return
					}
					g.act(ind, ".write "+conn+" "+bv)
					flag = "writeFails"
				default:
					g.line(ind, g.fail("method %s of the connection", se.Sel.Name))
					return
				}
				g.extUsed[flag] = true
				g.line(ind, "if W."+flag+" then (")
				bad := sc.clone()
				bad.origin[errName] = fun
				bad.nonNil[errName] = true
				g.stmts(ind+1, body.List, bad, func(ind int, sc *jfScope) {
					g.line(ind, g.fail("the branch of a failed %s goes on", fun))
				})
				g.line(ind+1, ") else")
				g.stmts(ind+1, rest[1:], sc, k)
				return
			}
		}
	}
	/* v := e, v = e */
	if len(lhs) != 1 || lhs[0] == "_" {
		g.line(ind, g.fail("assignment %s", exprStringStmt(s)))
		return
	}
	v, t := g.expr(sc, s.Rhs[0])
	switch s.Tok {
	case token.DEFINE:
		if t != "string" && t != "uint" {
			g.line(ind, g.fail("a local of type %s", t))
			return
		}
		sc = sc.clone()
		sc.declare(lhs[0], t)
	case token.ASSIGN:
		if sc.types[lhs[0]] != t || sc.params[lhs[0]] || (t != "string" && t != "uint") {
			g.line(ind, g.fail("assignment of %s to %s", t, lhs[0]))
			return
		}
	default:
		g.line(ind, g.fail("assignment operator %s", s.Tok))
		return
	}
	g.line(ind, "let "+lkIdent(lhs[0])+" := "+v)
	next(ind, sc)
}

func (g *jf) ifStmt(ind int, s *ast.IfStmt, rest []ast.Stmt, sc *jfScope, k jfCont) {
	next := func(ind int, sc *jfScope) { g.stmts(ind, rest, sc, k) }
	/* if v, ok := cache.Get(key); ok { … } */
	if s.Init != nil {
		as, ok := s.Init.(*ast.AssignStmt)
		if ok && as.Tok == token.DEFINE && len(as.Lhs) == 2 && len(as.Rhs) == 1 && s.Else == nil {
			ce, isCall := as.Rhs[0].(*ast.CallExpr)
			v, okv := as.Lhs[0].(*ast.Ident)
			o, oko := as.Lhs[1].(*ast.Ident)
			c, okc := s.Cond.(*ast.Ident)
			if isCall && okv && oko && okc && c.Name == o.Name && exprString(ce.Fun) == "cache.Get" && len(ce.Args) == 1 && g.hasCache && sc.types["cache"] == "" {
				key, tk := g.expr(sc, ce.Args[0])
				if tk != "string" {
					g.line(ind, g.fail("a cache key of type %s", tk))
					return
				}
				g.extUsed["cacheGet"] = true
				g.line(ind, "match W.cacheGet "+key+" with")
				g.line(ind, "| some "+lkIdent(v.Name)+" =>")
				hit := sc.clone()
				hit.declare(v.Name, "bundle")
				g.stmts(ind+1, s.Body.List, hit, next)
				g.line(ind, "| none =>")
				g.stmts(ind+1, rest, sc, k)
				return
			}
		}
		g.line(ind, g.fail("if with the initialiser %s", exprStringStmt(s.Init)))
		return
	}
	c := g.cond(sc, s.Cond)
	/* if c { v = e } */
	if s.Else == nil && len(s.Body.List) == 1 {
		if as, ok := s.Body.List[0].(*ast.AssignStmt); ok && as.Tok == token.ASSIGN && len(as.Lhs) == 1 && len(as.Rhs) == 1 {
			if id, ok := as.Lhs[0].(*ast.Ident); ok && !sc.params[id.Name] && (sc.types[id.Name] == "string" || sc.types[id.Name] == "uint") {
				if _, isCall := as.Rhs[0].(*ast.CallExpr); !isCall {
					v, t := g.expr(sc, as.Rhs[0])
					if t != sc.types[id.Name] {
						g.line(ind, g.fail("assignment of %s to %s", t, id.Name))
						return
					}
					g.line(ind, "let "+lkIdent(id.Name)+" := if "+c+" then "+v+" else "+lkIdent(id.Name))
					next(ind, sc)
					return
				}
			}
		}
	}
	g.line(ind, "if "+c+" then (")
	g.stmts(ind+1, s.Body.List, sc.clone(), next)
	g.line(ind+1, ") else")
	switch e := s.Else.(type) {
	case nil:
		next(ind+1, sc)
	case *ast.BlockStmt:
		g.stmts(ind+1, e.List, sc.clone(), next)
	case *ast.IfStmt:
		g.ifStmt(ind+1, e, rest, sc, k)
	default:
		g.line(ind+1, g.fail("else %T", s.Else))
	}
}

/* an expression that is visibly a non-nil error: the `Err` it is, after the actions its operands perform */
func (g *jf) errValue(ind int, sc *jfScope, e ast.Expr) string {
	switch x := e.(type) {
	case *ast.Ident:
		if sc.types[x.Name] == "error" && sc.nonNil[x.Name] && sc.origin[x.Name] != "" {
			return "(.of " + leanStr(sc.origin[x.Name]) + ")"
		}
		return g.fail("%s is not known to be a non-nil error here", x.Name)
	case *ast.CallExpr:
		switch exprString(x.Fun) {
		case "errors.New":
			if len(x.Args) == 1 {
				v, t := g.expr(sc, x.Args[0])
				if t == "string" {
					return "(.new " + v + ")"
				}
			}
			return g.fail("errors.New in another shape")
		case "errors.Join":
			/* errors.Join(err, connection.Close()): the first operand decides; Close is an action */
			if len(x.Args) == 2 {
				if cc, ok := x.Args[1].(*ast.CallExpr); ok && len(cc.Args) == 0 {
					if se, ok := cc.Fun.(*ast.SelectorExpr); ok && se.Sel.Name == "Close" {
						if id, ok := se.X.(*ast.Ident); ok && sc.types[id.Name] == "conn" {
							first := g.errValue(ind, sc, x.Args[0])
							g.act(ind, ".close "+lkIdent(id.Name))
							return first
						}
					}
				}
			}
			return g.fail("errors.Join in another shape")
		}
	}
	return g.fail("the error %s", exprString(e))
}

func jfIsNil(e ast.Expr) bool {
	id, ok := e.(*ast.Ident)
	return ok && id.Name == "nil"
}

func (g *jf) ret(ind int, s *ast.ReturnStmt, sc *jfScope) {
	/* return Get(l, accept, tolerated, n) */
	if len(s.Results) == 1 {
		ce, ok := s.Results[0].(*ast.CallExpr)
		if ok && exprString(ce.Fun) == "Get" && len(ce.Args) == len(g.getParams) && sc.types["Get"] == "" {
			out := ".again"
			for i, p := range g.getParams {
				switch g.getKinds[i] {
				case "url":
					v, t := g.expr(sc, ce.Args[i])
					switch t {
					case "urlopt":
					case "url":
						v = "(some " + v + ")"
					default:
						v = g.fail("argument %s of the recursive Get is %s", p, t)
					}
					out += " " + v
				case "uint":
					v, t := g.expr(sc, ce.Args[i])
					if t != "uint" {
						v = g.fail("argument %s of the recursive Get is %s", p, t)
					}
					out += " " + v
				default:
					if id, ok := ce.Args[i].(*ast.Ident); !ok || id.Name != p || !sc.params[p] {
						out += " " + g.fail("the recursive Get is given another %s", p)
					}
				}
			}
			g.line(ind, out)
			return
		}
	}
	if len(s.Results) != 3 {
		g.line(ind, g.fail("return of %d values", len(s.Results)))
		return
	}
	if jfIsNil(s.Results[2]) {
		a, ta := g.expr(sc, s.Results[0])
		b, tb := g.expr(sc, s.Results[1])
		if ta != "docopt" {
			a = g.fail("a first result of type %s", ta)
		}
		switch tb {
		case "urlopt":
		case "url":
			b = "(some " + b + ")"
		default:
			b = g.fail("a second result of type %s", tb)
		}
		g.line(ind, ".done "+a+" "+b)
		return
	}
	if !jfIsNil(s.Results[0]) || !jfIsNil(s.Results[1]) {
		g.line(ind, g.fail("values returned next to an error"))
		return
	}
	e := g.errValue(ind, sc, s.Results[2])
	g.line(ind, ".failed "+e+" acts_")
}

/* `buf := bufio.NewReader(connection)`: this part ends; the locals the rest mentions are handed on */
func (g *jf) reading(ind int, sc *jfScope, bufName, connName string, tail []ast.Stmt) {
	used := jtMentions(tail)
	live := [][2]string{}
	for _, v := range sc.order {
		if sc.params[v] || !used[v] || sc.types[v] == "error" {
			continue
		}
		live = append(live, [2]string{v, sc.types[v]})
	}
	if !g.liveSet {
		g.live = live
		g.liveSet = true
		g.tail = tail
		g.readerVar = bufName
		g.readerConn = connName
	} else if fmt.Sprint(live) != fmt.Sprint(g.live) || connName != g.readerConn {
		g.line(ind, g.fail("the reader is set up in two places with different locals"))
		return
	}
	out := ".reading"
	for _, l := range live {
		out += " " + lkIdent(l[0])
	}
	g.line(ind, out+" acts_")
}

/* ---------- the unit ---------- */

func translateJtpFront(f *ast.File) (string, []string) {
	g := &jf{b: &strings.Builder{}, bundle: map[string]string{}, extUsed: map[string]bool{}}
	var get *ast.FuncDecl
	dialerFields := [][2]string{}
	for _, d := range f.Decls {
		switch x := d.(type) {
		case *ast.FuncDecl:
			if x.Recv == nil && x.Name.Name == "Get" {
				get = x
			}
		case *ast.GenDecl:
			for _, sp := range x.Specs {
				switch s := sp.(type) {
				case *ast.ValueSpec:
					if x.Tok != token.VAR || len(s.Values) != 1 || len(s.Names) < 1 {
						continue
					}
					switch s.Names[0].Name {
					case "cache":
						if ce, ok := s.Values[0].(*ast.CallExpr); ok {
							if ix, ok := ce.Fun.(*ast.IndexListExpr); ok && exprString(ix.X) == "lru.New" && len(ix.Indices) == 2 &&
								typeString(ix.Indices[0]) == "string" && typeString(ix.Indices[1]) == "bundle" {
								g.hasCache = true
							}
						}
					case "dialer":
						/* &net.Dialer{K: v, …} */
						if ue, ok := s.Values[0].(*ast.UnaryExpr); ok && ue.Op == token.AND {
							if cl, ok := ue.X.(*ast.CompositeLit); ok && typeString(cl.Type) == "net.Dialer" {
								g.hasDialer = true
								sc := &jfScope{types: map[string]string{}, origin: map[string]string{}, nonNil: map[string]bool{}, params: map[string]bool{}}
								for _, el := range cl.Elts {
									kv, ok := el.(*ast.KeyValueExpr)
									if !ok {
										dialerFields = append(dialerFields, [2]string{"_", g.fail("a positional field of net.Dialer")})
										continue
									}
									key := exprString(kv.Key)
									v, t := g.expr(sc, kv.Value)
									if key != "Timeout" || !jfInt(t) {
										v = g.fail("field %s of net.Dialer (%s)", key, t)
									}
									dialerFields = append(dialerFields, [2]string{key, v})
								}
							}
						}
					}
				case *ast.TypeSpec:
					if st, ok := s.Type.(*ast.StructType); ok && s.Name.Name == "bundle" {
						for _, fl := range st.Fields.List {
							for _, n := range fl.Names {
								g.bundle[n.Name] = jfKindOfType(typeString(fl.Type), false)
							}
						}
					}
				}
			}
		}
	}
	var out strings.Builder
	w := func(s string) { out.WriteString(s + "\n") }
	w("set_option linter.unusedVariables false")
	w("")
	w("namespace GenJtpFront")
	w("open Go.Net (URL)")
	w("")
	if get == nil {
		g.fail("function Get not found")
		w("def Get_front := sorry_untranslatable")
		w("")
		w("end GenJtpFront")
		return out.String(), g.errs
	}

	/* the body first: it decides which externals and which locals appear in the declarations */
	sc := &jfScope{types: map[string]string{}, origin: map[string]string{}, nonNil: map[string]bool{}, params: map[string]bool{}}
	params := ""
	for _, p := range get.Type.Params.List {
		for _, n := range p.Names {
			k := jfKindOfType(typeString(p.Type), true)
			g.getParams = append(g.getParams, n.Name)
			g.getKinds = append(g.getKinds, k)
			sc.declare(n.Name, k)
			sc.params[n.Name] = true
			params += " (" + lkIdent(n.Name) + " : " + jfLeanType(k) + ")"
		}
	}
	resKinds := []string{}
	if get.Type.Results != nil {
		for _, r := range get.Type.Results.List {
			n := len(r.Names)
			if n == 0 {
				n = 1
			}
			for i := 0; i < n; i++ {
				resKinds = append(resKinds, jfKindOfType(typeString(r.Type), false))
			}
		}
	}
	if fmt.Sprint(resKinds) != "[docopt urlopt error]" {
		g.fail("results of Get: %v", resKinds)
	}
	g.line(1, "let acts_ : List (Act Conn) := []")
	g.stmts(1, get.Body.List, sc, g.fallOff)
	body := g.b.String()

	w("/-- The world outside jtp/jtp.go, as far as the translated statements call it: one field per")
	w("    external the source uses (added when a call of it is translated). -/")
	w("structure Ext (Doc Conn : Type) where")
	type ext struct{ name, doc, typ string }
	for _, e := range []ext{
		{"cacheGet", "`cache.Get(key)` on the package's LRU cache: what is remembered under the key, if anything", "Str → Option (GenJtp.bundle URL Doc)"},
		{"dial", "`tls.DialWithDialer(d, network, addr, nil)`: the connection, or an error", "Go.Net.Dialer → Str → Str → Option Conn"},
		{"setDeadlineFails", "whether `SetDeadline` on the connection returns an error", "Bool"},
		{"writeFails", "whether `Write` on the connection returns an error", "Bool"},
	} {
		if g.extUsed[e.name] {
			w("  /-- " + e.doc + " -/")
			w("  " + e.name + " : " + e.typ)
		}
	}
	w("  /-- `bufio.NewReader(connection)`: the bytes the connection delivers -/")
	w("  newReader : Conn → Str")
	w("")
	if g.hasDialer {
		w("/-- `var dialer = &net.Dialer{…}` -/")
		w("def dialer (timeout : Int) : Go.Net.Dialer :=")
		fs := []string{}
		for _, f := range dialerFields {
			fs = append(fs, f[0]+" := "+f[1])
		}
		w("  { " + strings.Join(fs, ", ") + " }")
		w("")
	}
	w("/-- What `Get` did on the network, in program order. -/")
	w("inductive Act (Conn : Type) where")
	w("  | dial (d : Go.Net.Dialer) (network addr : Str)")
	w("  | setDeadline (c : Conn) (fromNow : Int)")
	w("  | write (c : Conn) (bytes : Str)")
	w("  | close (c : Conn)")
	w("")
	w("/-- The error `Get` returns: `errors.New(text)`, or the error the named external call returned. -/")
	w("inductive Err where")
	w("  | new (text : Str)")
	w("  | of (call : String)")
	w("")
	w("/-- How the statements of `Get` before the reader is set up end. -/")
	w("inductive Front (Doc Conn : Type) where")
	w("  | done (item : Option Doc) (source : Option URL)")
	again := ""
	for i, p := range g.getParams {
		switch g.getKinds[i] {
		case "url":
			again += " (" + lkIdent(p) + " : Option URL)"
		case "uint":
			again += " (" + lkIdent(p) + " : Nat)"
		}
	}
	w("  | again" + again)
	w("  | failed (e : Err) (acts : List (Act Conn))")
	rd := ""
	for _, l := range g.live {
		rd += " (" + lkIdent(l[0]) + " : " + jfLeanType(l[1]) + ")"
	}
	w("  | reading" + rd + " (acts : List (Act Conn))")
	w("")
	w("variable {Doc Conn : Type}")
	w("")
	bufName := g.readerVar
	if bufName == "" {
		bufName = "buf"
	}
	w("/-- the statements of `func Get` before `" + bufName + " := bufio.NewReader(" + g.readerConn + ")` -/")
	w("def Get_front (W : Ext Doc Conn) (timeout : Int)" + params + " : Front Doc Conn :=")
	out.WriteString(body)
	w("")

	/* the whole call: this part, the reader, the part the ninth front end translates */
	w("/-- How one call of `Get` ends: before the reader is set up, or with what `GenJtp.Get_response`")
	w("    makes of the response (after `acts`). -/")
	w("inductive Once (Doc Conn : Type) where")
	w("  | front (r : Front Doc Conn)")
	w("  | response (acts : List (Act Conn)) (r : Except Go.Fail (GenJtp.Reply URL Doc))")
	w("")
	if !g.liveSet {
		w("def Get_once := sorry_untranslatable")
	} else {
		used := jtMentions(g.tail)
		args := ""
		call := ""
		for _, p := range g.getParams {
			call += " " + lkIdent(p)
			if used[p] && p != "accept" {
				args += " " + lkIdent(p)
			}
		}
		pat := ""
		for _, l := range g.live {
			pat += " " + lkIdent(l[0])
			if l[1] != "conn" {
				args += " " + lkIdent(l[0])
			}
		}
		w("/-- one call of `func Get`: `Get_front`, then `" + bufName + " := bufio.NewReader(" + g.readerConn + ")` and the statements after it (`GenJtp.Get_response`) -/")
		w("def Get_once {MT : Type} (V : GenJtp.Ext URL MT Doc) (W : Ext Doc Conn) (timeout : Int)" + params + " : Once Doc Conn :=")
		w("  match Get_front W timeout" + call + " with")
		w("  | .reading" + pat + " acts_ =>")
		w("    let " + lkIdent(bufName) + " := W.newReader " + lkIdent(g.readerConn))
		w("    .response acts_ (GenJtp.Get_response V" + args + " " + lkIdent(bufName) + ")")
		w("  | r_ => .front r_")
	}
	w("")
	w("end GenJtpFront")
	return out.String(), g.errs
}
