package main

/*
Translation of `hexToAnsi` and of the part of `parse` that follows the defaults (config/config.go)
into Lean, over BYTES: a Go string is `GoB.Bytes` (lean/Model/GoBytes.lean), `len` counts bytes,
`s[i:j]` cuts bytes and is bounds-checked (`GoB.slice`, which can panic).  A `(T, error)` function
becomes a `do` block in `GoB.R = Except GoB.Failure`; a value of type `error` is an
`Option GoB.Error`.  Every statement is translated on its own, in order:

	x := errors.New("…")   x := fmt.Errorf("…", args)      (no %w)   let x := some (.new "…")
	var x error                                                       let x := none
	x := <expr>            x = <expr>                                 let x := <expr>
	v, err := strconv.ParseUint(s, base, bitSize)                     the pair of strconv, read apart
	v, err := strconv.ParseInt(s, base, bitSize)                      (base 2..36 as a literal)
	metadata, err := toml.DecodeFile(location, config)                the external `decodeFile`: the struct
	                                                                  it wrote, the metadata, the error
	if [x := <expr>;] <cond> { return … }                             no else, only returns inside
	return <value>, nil                                               return <value>
	return <value>, <error expression>                                return (← GoB.ret <value> <error>)

expressions: variables, string and integer literals, `s[i:j]`, `len(s)`, `a + b` on strings,
`strings.HasPrefix(a, b)`, `strconv.Itoa(i)`, `int(u)`, comparisons of integers and of strings,
`err != nil` / `err == nil`, `!c`, `c && d`, `c || d` (when the right operand cannot panic),
`errors.Is(err, os.ErrNotExist)`, `metadata.Undecoded()`.

`parse` must begin with `config := &Config{}` followed by assignments to fields of `config` up to
the first `if`: these are the defaults, translated by go2lean4.go as `GenConfig.defaults`.

Anything else is replaced by `sorry_untranslatable`, an undeclared identifier: the Lean build of
the generated file breaks.
*/

import (
	"fmt"
	"go/ast"
	"go/token"
	"strconv"
	"strings"
)

type hxTr struct {
	errs []string
	env  map[string]string // variable -> Go type
	tmp  int
	fn   string
	res  string // type of the first result: "string" or "*Config"
}

func (t *hxTr) fail(msg string) string {
	msg = t.fn + ": " + msg
	t.errs = append(t.errs, msg)
	return "(sorry_untranslatable /- " + strings.ReplaceAll(msg, "-/", "- /") + " -/)"
}

func hxIsNil(e ast.Expr) bool {
	id, ok := e.(*ast.Ident)
	return ok && id.Name == "nil"
}

/* an expression and its Go type ("" when it could not be translated) */
func (t *hxTr) expr(e ast.Expr) (string, string) {
	switch x := e.(type) {
	case *ast.ParenExpr:
		return t.expr(x.X)
	case *ast.Ident:
		if x.Name == "true" || x.Name == "false" {
			return x.Name, "bool"
		}
		if ty, ok := t.env[x.Name]; ok {
			return x.Name, ty
		}
	case *ast.BasicLit:
		switch x.Kind {
		case token.STRING:
			if s, err := strconv.Unquote(x.Value); err == nil {
				return "(GoB.lit " + leanStr(s) + ")", "string"
			}
		case token.INT:
			if n, err := strconv.ParseInt(x.Value, 0, 64); err == nil {
				return fmt.Sprintf("%d", n), "int"
			}
		}
	case *ast.SliceExpr:
		s, ty := t.expr(x.X)
		if ty == "string" && !x.Slice3 {
			lo, hi := "0", "(GoB.len "+s+")"
			ok := true
			if x.Low != nil {
				l, lt := t.expr(x.Low)
				lo, ok = l, ok && lt == "int"
			}
			if x.High != nil {
				h, ht := t.expr(x.High)
				hi, ok = h, ok && ht == "int"
			}
			if ok {
				return "(← GoB.slice " + s + " " + lo + " " + hi + ")", "string"
			}
		}
	case *ast.UnaryExpr:
		if x.Op == token.NOT {
			c, ty := t.expr(x.X)
			if ty == "bool" {
				return "(!" + c + ")", "bool"
			}
		}
	case *ast.BinaryExpr:
		/* comparison of an error with nil */
		if x.Op == token.NEQ || x.Op == token.EQL {
			var other ast.Expr
			if hxIsNil(x.Y) {
				other = x.X
			} else if hxIsNil(x.X) {
				other = x.Y
			}
			if other != nil {
				o, ty := t.expr(other)
				if ty == "error" {
					if x.Op == token.NEQ {
						return "(Option.isSome " + o + ")", "bool"
					}
					return "(Option.isNone " + o + ")", "bool"
				}
				break
			}
		}
		a, ta := t.expr(x.X)
		b, tb := t.expr(x.Y)
		if ta == "" || ta != tb {
			break
		}
		switch x.Op {
		case token.ADD:
			if ta == "string" {
				return "(" + a + " ++ " + b + ")", "string"
			}
		case token.LSS, token.GTR, token.LEQ, token.GEQ:
			if ta == "int" {
				op := map[token.Token]string{token.LSS: "<", token.GTR: ">", token.LEQ: "≤", token.GEQ: "≥"}[x.Op]
				return "(decide (" + a + " " + op + " " + b + "))", "bool"
			}
		case token.EQL, token.NEQ:
			if ta == "int" || ta == "string" {
				op := map[token.Token]string{token.EQL: "=", token.NEQ: "≠"}[x.Op]
				return "(decide (" + a + " " + op + " " + b + "))", "bool"
			}
		case token.LAND, token.LOR:
			if ta == "bool" && !strings.Contains(b, "←") {
				op := map[token.Token]string{token.LAND: "&&", token.LOR: "||"}[x.Op]
				return "(" + a + " " + op + " " + b + ")", "bool"
			}
		}
	case *ast.CallExpr:
		fn := exprString(x.Fun)
		if sel, ok := x.Fun.(*ast.SelectorExpr); ok {
			fn = exprString(sel.X) + "." + sel.Sel.Name
		} else if id, ok := x.Fun.(*ast.Ident); ok {
			fn = id.Name
		}
		if x.Ellipsis != token.NoPos {
			break
		}
		switch {
		case fn == "len" && len(x.Args) == 1:
			a, ty := t.expr(x.Args[0])
			if ty == "string" {
				return "(GoB.len " + a + ")", "int"
			}
			if ty == "[]toml.Key" {
				return "(Go.len " + a + ")", "int"
			}
		case fn == "strings.HasPrefix" && len(x.Args) == 2:
			a, ta := t.expr(x.Args[0])
			b, tb := t.expr(x.Args[1])
			if ta == "string" && tb == "string" {
				return "(GoB.hasPrefix " + a + " " + b + ")", "bool"
			}
		case fn == "strconv.Itoa" && len(x.Args) == 1:
			a, ty := t.expr(x.Args[0])
			if ty == "int" {
				return "(GoB.Strconv.itoa " + a + ")", "string"
			}
		case fn == "int" && len(x.Args) == 1:
			a, ty := t.expr(x.Args[0])
			switch ty {
			case "uint64":
				return "(Go.toInt " + a + ")", "int"
			case "int64", "int":
				return a, "int"
			}
		case fn == "errors.Is" && len(x.Args) == 2:
			a, ty := t.expr(x.Args[0])
			if ty == "error" && exprString(x.Args[1]) == "os.ErrNotExist" {
				return "(GoB.Error.isNotExist " + a + ")", "bool"
			}
		case strings.HasSuffix(fn, ".Undecoded") && len(x.Args) == 0:
			if sel, ok := x.Fun.(*ast.SelectorExpr); ok {
				a, ty := t.expr(sel.X)
				if ty == "toml.MetaData" {
					return "(GoB.Toml.MetaData.Undecoded " + a + ")", "[]toml.Key"
				}
			}
		case (fn == "errors.New" && len(x.Args) == 1) || (fn == "fmt.Errorf" && len(x.Args) >= 1):
			if bl, ok := x.Args[0].(*ast.BasicLit); ok && bl.Kind == token.STRING {
				if s, err := strconv.Unquote(bl.Value); err == nil && !(fn == "fmt.Errorf" && strings.Contains(s, "%w")) {
					/* the arguments of Errorf only fill the message in: they are evaluated for nothing else,
					   and must be plain variables so that evaluating them cannot do anything */
					plain := true
					for _, a := range x.Args[1:] {
						if id, ok := a.(*ast.Ident); !ok || t.env[id.Name] == "" {
							plain = false
						}
					}
					if plain {
						return "(some (GoB.Error.new " + leanStr(s) + "))", "error"
					}
				}
			}
		}
	}
	return t.fail("expression " + hxSrc(e)), ""
}

func hxSrc(e ast.Expr) string {
	switch x := e.(type) {
	case *ast.BinaryExpr:
		return hxSrc(x.X) + " " + x.Op.String() + " " + hxSrc(x.Y)
	case *ast.UnaryExpr:
		return x.Op.String() + hxSrc(x.X)
	case *ast.SliceExpr:
		lo, hi := "", ""
		if x.Low != nil {
			lo = hxSrc(x.Low)
		}
		if x.High != nil {
			hi = hxSrc(x.High)
		}
		return hxSrc(x.X) + "[" + lo + ":" + hi + "]"
	case *ast.CallExpr:
		as := []string{}
		for _, a := range x.Args {
			as = append(as, hxSrc(a))
		}
		return hxSrc(x.Fun) + "(" + strings.Join(as, ", ") + ")"
	case *ast.ParenExpr:
		return "(" + hxSrc(x.X) + ")"
	}
	return exprString(e)
}

/* the literal base / bitSize of a strconv call */
func hxIntLit(e ast.Expr) (int64, bool) {
	bl, ok := e.(*ast.BasicLit)
	if !ok || bl.Kind != token.INT {
		return 0, false
	}
	n, err := strconv.ParseInt(bl.Value, 0, 64)
	return n, err == nil
}

func (t *hxTr) bind(b *strings.Builder, ind string, lhs ast.Expr, val string, ty string) {
	id, ok := lhs.(*ast.Ident)
	if !ok {
		b.WriteString(ind + "let _ := " + t.fail("assignment to "+hxSrc(lhs)) + "\n")
		return
	}
	if id.Name == "_" {
		return
	}
	if old, ok := t.env[id.Name]; ok && old != ty {
		b.WriteString(ind + "let _ := " + t.fail("variable "+id.Name+" changes its type") + "\n")
		return
	}
	t.env[id.Name] = ty
	ann := ""
	if ty == "error" {
		ann = " : Option GoB.Error"
	}
	b.WriteString(ind + "let " + id.Name + ann + " := " + val + "\n")
}

func (t *hxTr) ret(b *strings.Builder, ind string, rs *ast.ReturnStmt) {
	if len(rs.Results) != 2 {
		b.WriteString(ind + "return " + t.fail("return with other than two results") + "\n")
		return
	}
	var val string
	switch t.res {
	case "string":
		v, ty := t.expr(rs.Results[0])
		if ty != "string" {
			v = t.fail("returned value " + hxSrc(rs.Results[0]))
		}
		val = v
	case "*Config":
		if hxIsNil(rs.Results[0]) {
			val = "none"
		} else if v, ty := t.expr(rs.Results[0]); ty == "*Config" {
			val = "(some " + v + ")"
		} else {
			val = t.fail("returned value " + hxSrc(rs.Results[0]))
		}
	}
	if hxIsNil(rs.Results[1]) {
		b.WriteString(ind + "return " + val + "\n")
		return
	}
	e, ty := t.expr(rs.Results[1])
	if ty != "error" {
		e = t.fail("returned error " + hxSrc(rs.Results[1]))
	}
	b.WriteString(ind + "return (← GoB.ret " + val + " " + e + ")\n")
}

func (t *hxTr) assign(b *strings.Builder, ind string, st *ast.AssignStmt, scoped bool) {
	if st.Tok != token.DEFINE && st.Tok != token.ASSIGN {
		b.WriteString(ind + "let _ := " + t.fail("assignment operator "+st.Tok.String()) + "\n")
		return
	}
	for _, l := range st.Lhs {
		id, ok := l.(*ast.Ident)
		if !ok {
			b.WriteString(ind + "let _ := " + t.fail("assignment to "+hxSrc(l)) + "\n")
			return
		}
		_, known := t.env[id.Name]
		if id.Name != "_" && ((st.Tok == token.ASSIGN && !known) || (scoped && known)) {
			b.WriteString(ind + "let _ := " + t.fail("scope of "+id.Name) + "\n")
			return
		}
	}
	if len(st.Lhs) == 1 && len(st.Rhs) == 1 {
		v, ty := t.expr(st.Rhs[0])
		if ty == "" {
			b.WriteString(ind + "let _ := " + v + "\n")
			return
		}
		t.bind(b, ind, st.Lhs[0], v, ty)
		return
	}
	if len(st.Lhs) == 2 && len(st.Rhs) == 1 {
		if call, ok := st.Rhs[0].(*ast.CallExpr); ok && call.Ellipsis == token.NoPos {
			fn := hxSrc(call.Fun)
			switch {
			case (fn == "strconv.ParseUint" || fn == "strconv.ParseInt") && len(call.Args) == 3:
				s, ty := t.expr(call.Args[0])
				base, okb := hxIntLit(call.Args[1])
				bits, okz := hxIntLit(call.Args[2])
				if ty == "string" && okb && okz && base >= 2 && base <= 36 {
					t.tmp++
					tmp := fmt.Sprintf("t%d", t.tmp)
					lean, vty := "GoB.Strconv.parseUint", "uint64"
					if fn == "strconv.ParseInt" {
						lean, vty = "GoB.Strconv.parseInt", "int64"
					}
					b.WriteString(fmt.Sprintf("%slet %s := %s %s %d %d\n", ind, tmp, lean, s, base, bits))
					t.bind(b, ind, st.Lhs[0], tmp+".1", vty)
					t.bind(b, ind, st.Lhs[1], tmp+".2", "error")
					return
				}
			case fn == "toml.DecodeFile" && len(call.Args) == 2:
				loc, tl := t.expr(call.Args[0])
				cfg, tc := t.expr(call.Args[1])
				if _, isVar := call.Args[1].(*ast.Ident); tl == "string" && tc == "*Config" && isVar {
					t.tmp++
					tmp := fmt.Sprintf("t%d", t.tmp)
					b.WriteString(fmt.Sprintf("%slet %s := decodeFile %s %s\n", ind, tmp, loc, cfg))
					/* DecodeFile writes through the pointer */
					b.WriteString(fmt.Sprintf("%slet %s := %s.config\n", ind, cfg, tmp))
					t.bind(b, ind, st.Lhs[0], tmp+".metadata", "toml.MetaData")
					t.bind(b, ind, st.Lhs[1], tmp+".err", "error")
					return
				}
			}
		}
	}
	b.WriteString(ind + "let _ := " + t.fail("assignment "+exprStringStmt(st)) + "\n")
}

func (t *hxTr) stmts(b *strings.Builder, ind string, list []ast.Stmt, inIf bool) {
	for _, s := range list {
		switch st := s.(type) {
		case *ast.ReturnStmt:
			t.ret(b, ind, st)
		case *ast.AssignStmt:
			if inIf {
				b.WriteString(ind + "let _ := " + t.fail("assignment inside an if") + "\n")
				continue
			}
			t.assign(b, ind, st, false)
		case *ast.DeclStmt:
			done := false
			if gd, ok := st.Decl.(*ast.GenDecl); ok && gd.Tok == token.VAR && len(gd.Specs) == 1 && !inIf {
				if vs, ok := gd.Specs[0].(*ast.ValueSpec); ok && len(vs.Names) == 1 && len(vs.Values) == 0 && exprString(vs.Type) == "error" {
					if _, known := t.env[vs.Names[0].Name]; !known {
						t.env[vs.Names[0].Name] = "error"
						b.WriteString(ind + "let " + vs.Names[0].Name + " : Option GoB.Error := none\n")
						done = true
					}
				}
			}
			if !done {
				b.WriteString(ind + "let _ := " + t.fail("declaration") + "\n")
			}
		case *ast.IfStmt:
			if st.Else != nil || inIf {
				b.WriteString(ind + "let _ := " + t.fail("if with else, or nested if") + "\n")
				continue
			}
			if st.Init != nil {
				as, ok := st.Init.(*ast.AssignStmt)
				if !ok || as.Tok != token.DEFINE {
					b.WriteString(ind + "let _ := " + t.fail("if with an initialiser that is no definition") + "\n")
					continue
				}
				/* the variable lives in the if only: it must not hide one of the function */
				t.assign(b, ind, as, true)
			}
			c, ty := t.expr(st.Cond)
			if ty != "bool" {
				c = t.fail("condition " + hxSrc(st.Cond))
			}
			b.WriteString(ind + "if " + c + " then\n")
			if len(st.Body.List) == 0 {
				b.WriteString(ind + "  pure ()\n")
			}
			t.stmts(b, ind+"  ", st.Body.List, true)
		default:
			b.WriteString(ind + "let _ := " + t.fail(fmt.Sprintf("statement %T", s)) + "\n")
		}
	}
}

func hxParamIsString(fd *ast.FuncDecl) (string, bool) {
	ps := fd.Type.Params.List
	if len(ps) != 1 || len(ps[0].Names) != 1 || exprString(ps[0].Type) != "string" {
		return "", false
	}
	return ps[0].Names[0].Name, true
}

func hxResults(fd *ast.FuncDecl) string {
	if fd.Type.Results == nil || len(fd.Type.Results.List) != 2 {
		return ""
	}
	rs := fd.Type.Results.List
	if len(rs[0].Names) != 0 || len(rs[1].Names) != 0 || exprString(rs[1].Type) != "error" {
		return ""
	}
	return exprString(rs[0].Type)
}

func translateHex(f *ast.File) (string, []string) {
	var b strings.Builder
	errs := []string{}
	b.WriteString("namespace GenHex\n\n")
	found := map[string]bool{}
	for _, d := range f.Decls {
		fd, ok := d.(*ast.FuncDecl)
		if !ok || fd.Body == nil || fd.Recv != nil {
			continue
		}
		switch fd.Name.Name {
		case "hexToAnsi":
			found["hexToAnsi"] = true
			t := &hxTr{env: map[string]string{}, fn: "hexToAnsi", res: "string"}
			param, ok := hxParamIsString(fd)
			b.WriteString("/-- `hexToAnsi(text string) (string, error)` -/\n")
			if !ok || hxResults(fd) != "string" {
				b.WriteString("def hexToAnsi : GoB.Bytes → GoB.R GoB.Bytes := " + t.fail("signature") + "\n\n")
			} else {
				t.env[param] = "string"
				b.WriteString("def hexToAnsi (" + param + " : GoB.Bytes) : GoB.R GoB.Bytes := do\n")
				t.stmts(&b, "  ", fd.Body.List, false)
				b.WriteString("\n")
			}
			errs = append(errs, t.errs...)
		case "parse":
			found["parse"] = true
			t := &hxTr{env: map[string]string{}, fn: "parse", res: "*Config"}
			param, ok := hxParamIsString(fd)
			b.WriteString("/-- `parse(location string) (*Config, error)` after the defaults; `decodeFile` is `toml.DecodeFile` -/\n")
			sig := "(decodeFile : GoB.Bytes → GenConfig.Config → GoB.Toml.Decoded GenConfig.Config)"
			if !ok || hxResults(fd) != "*Config" {
				b.WriteString("def parse " + sig + " : GoB.Bytes → GoB.R (Option GenConfig.Config) := " + t.fail("signature") + "\n\n")
				errs = append(errs, t.errs...)
				continue
			}
			t.env[param] = "string"
			b.WriteString("def parse " + sig + " (" + param + " : GoB.Bytes) : GoB.R (Option GenConfig.Config) := do\n")
			/* the defaults: `config := &Config{}` and assignments to its fields, up to the first if */
			list := fd.Body.List
			i := 0
			cfg := ""
			if len(list) > 0 {
				if as, ok := list[0].(*ast.AssignStmt); ok && as.Tok == token.DEFINE && len(as.Lhs) == 1 && len(as.Rhs) == 1 {
					if u, ok := as.Rhs[0].(*ast.UnaryExpr); ok && u.Op == token.AND {
						if cl, ok := u.X.(*ast.CompositeLit); ok && exprString(cl.Type) == "Config" && len(cl.Elts) == 0 {
							if id, ok := as.Lhs[0].(*ast.Ident); ok && id.Name != "_" && id.Name != param {
								cfg = id.Name
							}
						}
					}
				}
			}
			if cfg == "" {
				b.WriteString("  let _ := " + t.fail("does not begin with config := &Config{}") + "\n")
			} else {
				i = 1
				for ; i < len(list); i++ {
					if _, isIf := list[i].(*ast.IfStmt); isIf {
						break
					}
					as, ok := list[i].(*ast.AssignStmt)
					okPath := false
					if ok && as.Tok == token.ASSIGN && len(as.Lhs) == 1 && len(as.Rhs) == 1 {
						p, rooted := cfgPath(as.Lhs[0], cfg)
						okPath = rooted && p != ""
					}
					if !okPath {
						b.WriteString("  let _ := " + t.fail(fmt.Sprintf("statement %d before the first if is no default", i)) + "\n")
					}
				}
				t.env[cfg] = "*Config"
				b.WriteString("  let " + cfg + " := GenConfig.defaults\n")
			}
			t.stmts(&b, "  ", list[i:], false)
			b.WriteString("\n")
			errs = append(errs, t.errs...)
		}
	}
	for _, name := range []string{"hexToAnsi", "parse"} {
		if !found[name] {
			t := &hxTr{fn: name}
			b.WriteString("def " + name + " := " + t.fail("function not found") + "\n\n")
			errs = append(errs, t.errs...)
		}
	}
	b.WriteString("end GenHex\n")
	return b.String(), errs
}
