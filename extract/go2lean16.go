package main

/*
go2lean, sixteenth front end: `(*State).Update(input byte)` of ui/ui.go, the function every key
byte goes through (the subject of C07).  Output: lean/Generated/GoUpdate.lean, namespace
GenUpdate; `Props/Gen07.lean` proves it equal to the model (`Ui.update`), `Props/GenT07.lean`
carries C07 over to it.

The translated function is the critical section of `Update`: a `do` block in `Except Panic` over a
mutable copy of the receiver, `return` where the source returns.  What is read from the source:

  s.m.Lock(); defer s.m.Unlock()   must be the first two statements and the only mentions of the
                               mutex: recognised and dropped
  const ( loading = iota … )   the modes, as in the twelfth front end: `def name : Int := k`
  const ( enterKey byte = … )  the typed constants of type byte: `def name : Nat := value`
  type State, type Page        the fields `Update` touches, with their declared types (int, string,
                               history.History[*Page], *feed.Feed); the other fields of Page travel
                               as one field `rest` of a parameter type, the other fields of State
                               are not carried
  pub.Tangible                 the sum of the struct types of package pub that have every method of
                               the interface (as in the eleventh front end), over parameter types:
                               `Update` reads no field of them, it only calls methods.  A value of
                               the interface is an `Option` (nil); `x.(*pub.T)` in
                               `if v, ok := x.(*pub.T); ok {…}` is a `match` on the sum
  methods of package pub       `activity.Target()`, `post.Creators()`, `post.Media()`,
                               `current.SelectLink(n)` …: fields of the parameter `env`, typed from
                               the declarations in pub/*.go (`Tangible` -> Option, `[]Tangible` ->
                               List, `(string, *mime.MediaType, bool)` -> a triple); a call through
                               the interface `Go.deref`s first
  other methods of *State      `s.loadSurroundings()`, `s.switchTo(x)`, `s.openExternally(l, m)`,
                               `s.openInternally(l)`, `s.subcommand(a, b)`: fields of `env`, state in,
                               state out (and the error's text for a method that returns `error`),
                               typed from their declarations in ui/ui.go; a parameter of type `any`
                               is a sum with one constructor per static type passed at the call
                               sites of `Update`.  `s.output(s.view())` is `env.redraw s` (a frame is
                               emitted, the state stays)
  s.h.Back() / Forward()       the translated `GenHistory.*`; `s.h.Current().feed.MoveUp()` … the
                               translated `GenFeed.*` written back through the two pointers
                               (`setCurrent`: every `s.h.Add(…)` of ui.go must add a fresh
                               `&Page{feed: feed.Create…(…)}`, checked)
  strings.SplitN, strconv.Atoi, string(b), []rune(s), string(runes), x[:n], x[i], len
                               Model/GoConv.lean, Model/GoSem.lean; `len(s)` of a string only in a
                               comparison with 0; the error of Atoi only compared with nil
  statements                   var declarations, := = +=, tuple assignments from calls, if / else
                               with or without an init statement, `switch input` with
                               single-constant cases and no break/fallthrough, return
  expressions                  literals (characters as `'c'.toNat`), comparisons (`decide`), ! && ||,
                               + on strings, + - on int, comparisons with nil

Anything else is replaced by `sorry_untranslatable`, an undeclared identifier: the Lean build of
Generated/GoUpdate.lean fails, and with it `./check C07`.
*/

import (
	"fmt"
	"go/ast"
	"go/token"
	"path/filepath"
	"sort"
	"strconv"
	"strings"
)

type u16sig struct {
	params []string // kinds
	result string   // kind, "" for none
}

type u16 struct {
	b       strings.Builder
	err     []string
	recv    string
	scopes  []map[string]string
	mutable map[string]bool
	structs map[string]*ast.StructType
	used    map[string]map[string]bool
	modeSet map[string]bool
	keySet  map[string]bool
	stMeth  map[string]*ast.FuncDecl
	envSt   []string
	anyArgs map[string][]string
	pubMeth map[string]map[string]*ast.FuncType
	iface   map[string]*ast.FuncType
	impls   []string
	envPub  []string
	feedM   map[string]*ast.FuncDecl
	histM   map[string]*ast.FuncDecl
	tmp     int
	redraw  bool
}

func (g *u16) fail(format string, a ...any) string {
	msg := fmt.Sprintf(format, a...)
	g.err = append(g.err, msg)
	return "(sorry_untranslatable /- " + strings.ReplaceAll(msg, "-/", "- /") + " -/)"
}

func (g *u16) line(ind int, s string) { g.b.WriteString(strings.Repeat("  ", ind) + s + "\n") }

func (g *u16) bad(ind int, format string, a ...any) {
	g.line(ind, "let _ := "+g.fail(format, a...))
}

func (g *u16) p4() string { return strings.Join(g.impls, " ") }
func (g *u16) p5() string { return g.p4() + " PageRest" }
func (g *u16) tT() string { return "(Tangible " + g.p4() + ")" }
func (g *u16) stT() string { return "(State " + g.p5() + ")" }

func (g *u16) leanType(kind string) string {
	switch kind {
	case "string":
		return "Str"
	case "int":
		return "Int"
	case "bool":
		return "Bool"
	case "byte":
		return "Nat"
	case "item":
		return "(Option " + g.tT() + ")"
	case "items":
		return "(List (Option " + g.tT() + "))"
	case "mediatype":
		return "(Option Mime.MediaType)"
	case "error":
		return "(Option Str)"
	case "numerror":
		return "(Option Go.Strconv.NumError)"
	case "strings":
		return "(List Str)"
	case "runes":
		return "(List Char)"
	case "triple":
		return "(Str × Option Mime.MediaType × Bool)"
	case "history":
		return "(GenHistory.History (Page " + g.p5() + "))"
	case "feed":
		return "(GenFeed.Feed " + g.tT() + ")"
	case "page":
		return "(Page " + g.p5() + ")"
	}
	if strings.HasPrefix(kind, "ptr:") {
		return strings.TrimPrefix(kind, "ptr:")
	}
	if strings.HasPrefix(kind, "any:") {
		return "(Arg_" + strings.TrimPrefix(kind, "any:") + " " + g.p4() + ")"
	}
	return g.fail("no Lean type for %s", kind)
}

var u16Zero = map[string]string{"string": "(Go.str \"\")", "int": "0", "bool": "false", "mediatype": "none", "item": "none", "error": "none"}

/* the kind of a declared type; inPub: the declaration is inside package pub */
func (g *u16) kindOfType(e ast.Expr, inPub bool) string {
	s := typeString(e)
	if inPub {
		switch s {
		case "Tangible":
			return "item"
		case "[]Tangible":
			return "items"
		}
	}
	switch s {
	case "string", "int", "bool", "byte", "error", "any":
		return s
	case "pub.Tangible":
		return "item"
	case "[]pub.Tangible":
		return "items"
	case "*mime.MediaType":
		return "mediatype"
	case "[]string":
		return "strings"
	case "[]rune":
		return "runes"
	case "*feed.Feed":
		return "feed"
	case "*Page":
		if !inPub {
			return "page"
		}
	}
	if ix, ok := e.(*ast.IndexExpr); ok && exprString(ix.X) == "history.History" && typeString(ix.Index) == "*Page" {
		return "history"
	}
	return "?"
}

func (g *u16) sigOf(ft *ast.FuncType, inPub bool) (u16sig, bool) {
	sig := u16sig{}
	if ft.Params != nil {
		for _, p := range ft.Params.List {
			k := g.kindOfType(p.Type, inPub)
			if k == "?" {
				return sig, false
			}
			n := len(p.Names)
			if n == 0 {
				n = 1
			}
			for i := 0; i < n; i++ {
				sig.params = append(sig.params, k)
			}
		}
	}
	if ft.Results != nil {
		ks := []string{}
		for _, r := range ft.Results.List {
			n := len(r.Names)
			if n == 0 {
				n = 1
			}
			for i := 0; i < n; i++ {
				ks = append(ks, g.kindOfType(r.Type, inPub))
			}
		}
		switch {
		case len(ks) == 1 && ks[0] != "?" && ks[0] != "any":
			sig.result = ks[0]
		case len(ks) == 3 && ks[0] == "string" && ks[1] == "mediatype" && ks[2] == "bool":
			sig.result = "triple"
		default:
			return sig, false
		}
	}
	return sig, true
}

/* scopes */
func (g *u16) push()           { g.scopes = append(g.scopes, map[string]string{}) }
func (g *u16) pop()            { g.scopes = g.scopes[:len(g.scopes)-1] }
func (g *u16) lookup(n string) string {
	for i := len(g.scopes) - 1; i >= 0; i-- {
		if k, ok := g.scopes[i][n]; ok {
			return k
		}
	}
	return ""
}

func (g *u16) fresh(stem string) string {
	g.tmp++
	return fmt.Sprintf("%s%d_", stem, g.tmp)
}

func (g *u16) reserved(name string) bool {
	return name == "env" || name == "s0" || name == g.recv || g.modeSet[name] || g.keySet[name] || name == "input" ||
		name == "setCurrent" || name == "Update" || strings.HasSuffix(name, "_")
}

/* declare a local; value has the given kind */
func (g *u16) declare(ind int, name, kind, value string, monadic bool) {
	if name == "_" {
		return
	}
	if g.reserved(name) {
		g.bad(ind, "local %s clashes with a name of the translation", name)
		return
	}
	if g.lookup(name) != "" {
		g.bad(ind, "%s declared twice (shadowing is not translated)", name)
		return
	}
	if kind == "lit" {
		kind = "int"
	}
	lt := g.leanType(kind)
	g.scopes[len(g.scopes)-1][name] = kind
	mut := ""
	if g.mutable[name] {
		mut = "mut "
	}
	arrow := ":="
	if monadic {
		arrow = "←"
	}
	g.line(ind, "let "+mut+leanIdent(name)+" : "+lt+" "+arrow+" "+value)
}

func u16Effects(s string) bool { return strings.Contains(s, "(←") }

func (g *u16) charLit(lit *ast.BasicLit) string {
	u, _, _, err := strconv.UnquoteChar(strings.TrimSuffix(strings.TrimPrefix(lit.Value, "'"), "'"), '\'')
	if err != nil {
		return g.fail("character literal %s", lit.Value)
	}
	switch {
	case u == '\r':
		return "'\\r'.toNat"
	case u == '\n':
		return "'\\n'.toNat"
	case u == '\t':
		return "'\\t'.toNat"
	case u >= 0x20 && u < 0x7f && u != '\'' && u != '\\':
		return "'" + string(u) + "'.toNat"
	}
	return fmt.Sprintf("%d", u)
}

func (g *u16) field(structName, recvText, name string) (string, string) {
	st, ok := g.structs[structName]
	if !ok {
		return g.fail("struct %s not declared", structName), "?"
	}
	for _, fl := range st.Fields.List {
		for _, n := range fl.Names {
			if n.Name == name {
				k := g.kindOfType(fl.Type, false)
				if k != "int" && k != "string" && k != "history" && k != "feed" {
					return g.fail("field %s.%s of type %s", structName, name, exprFull(fl.Type)), "?"
				}
				if g.used[structName] == nil {
					g.used[structName] = map[string]bool{}
				}
				g.used[structName][name] = true
				return recvText + "." + leanIdent(name), k
			}
		}
	}
	return g.fail("no field %s in %s", name, structName), "?"
}

/* arguments of a call against the kinds a signature wants */
func (g *u16) args(x *ast.CallExpr, kinds []string) ([]string, bool) {
	if len(x.Args) != len(kinds) || x.Ellipsis != token.NoPos {
		return nil, false
	}
	out := []string{}
	for i, a := range x.Args {
		t, k := g.expr(a)
		if k == "lit" && (kinds[i] == "int" || kinds[i] == "byte") {
			k = kinds[i]
		}
		if k != kinds[i] {
			return nil, false
		}
		out = append(out, t)
	}
	return out, true
}

func (g *u16) usePub(recvType, method string) {
	key := recvType + "." + method
	for _, e := range g.envPub {
		if e == key {
			return
		}
	}
	g.envPub = append(g.envPub, key)
}

func (g *u16) useSt(method string) {
	for _, e := range g.envSt {
		if e == method {
			return
		}
	}
	g.envSt = append(g.envSt, method)
}

func isLenOf(e ast.Expr) (ast.Expr, bool) {
	ce, ok := e.(*ast.CallExpr)
	if ok && isIdent(ce.Fun, "len") && len(ce.Args) == 1 {
		return ce.Args[0], true
	}
	return nil, false
}

func isZeroLit(e ast.Expr) bool {
	bl, ok := e.(*ast.BasicLit)
	return ok && bl.Kind == token.INT && bl.Value == "0"
}

/* a call of a method of package pub on a pointer to one of its structs, or through the interface */
func (g *u16) pubCall(x *ast.CallExpr, se *ast.SelectorExpr, rt, rk string) (string, string) {
	var ft *ast.FuncType
	var owner, recvText string
	if rk == "item" {
		ft = g.iface[se.Sel.Name]
		owner = "Tangible"
		recvText = "(← Go.deref " + rt + ")"
	} else {
		owner = strings.TrimPrefix(rk, "ptr:")
		ft = g.pubMeth[owner][se.Sel.Name]
		recvText = rt
	}
	if ft == nil {
		return g.fail("%s has no method %s", owner, se.Sel.Name), "?"
	}
	sig, ok := g.sigOf(ft, true)
	if !ok || sig.result == "" {
		return g.fail("signature of %s.%s", owner, se.Sel.Name), "?"
	}
	a, ok := g.args(x, sig.params)
	if !ok {
		return g.fail("arguments of %s", exprFull(x)), "?"
	}
	g.usePub(owner, se.Sel.Name)
	return "(← env." + owner + "_" + se.Sel.Name + " " + strings.Join(append([]string{recvText}, a...), " ") + ")", sig.result
}

func (g *u16) expr(e ast.Expr) (string, string) {
	switch x := e.(type) {
	case *ast.BasicLit:
		switch x.Kind {
		case token.INT:
			return x.Value, "lit"
		case token.CHAR:
			return g.charLit(x), "lit"
		case token.STRING:
			u, err := strconv.Unquote(x.Value)
			if err != nil {
				return g.fail("string literal %s", x.Value), "?"
			}
			return "(Go.str " + leanStr(u) + ")", "string"
		}
	case *ast.Ident:
		switch x.Name {
		case "true", "false":
			return x.Name, "bool"
		case "nil":
			return "none", "nil"
		}
		if k := g.lookup(x.Name); k != "" {
			return leanIdent(x.Name), k
		}
		if g.modeSet[x.Name] {
			return x.Name, "int"
		}
		if g.keySet[x.Name] {
			return x.Name, "byte"
		}
	case *ast.ParenExpr:
		t, k := g.expr(x.X)
		return "(" + t + ")", k
	case *ast.SelectorExpr:
		if id, ok := x.X.(*ast.Ident); ok && id.Name == g.recv {
			return g.field("State", id.Name, x.Sel.Name)
		}
		if id, isId := x.X.(*ast.Ident); !isId || g.lookup(id.Name) != "" {
			t, k := g.expr(x.X)
			if k == "page" {
				return g.field("Page", t, x.Sel.Name)
			}
		}
	case *ast.UnaryExpr:
		t, k := g.expr(x.X)
		switch {
		case x.Op == token.SUB && (k == "int" || k == "lit"):
			return "(-" + t + ")", k
		case x.Op == token.NOT && k == "bool":
			return "(!" + t + ")", "bool"
		}
	case *ast.BinaryExpr:
		return g.binary(x)
	case *ast.IndexExpr:
		t, k := g.expr(x.X)
		i, ik := g.expr(x.Index)
		if (k == "strings" || k == "items" || k == "runes") && (ik == "int" || ik == "lit") {
			return "(← Go.index " + t + " " + i + ")", map[string]string{"strings": "string", "items": "item", "runes": "rune"}[k]
		}
	case *ast.SliceExpr:
		if x.Low == nil && x.High != nil && !x.Slice3 {
			t, k := g.expr(x.X)
			h, hk := g.expr(x.High)
			if (k == "runes" || k == "strings" || k == "items") && (hk == "int" || hk == "lit") {
				return "(← Go.sliceTo " + t + " " + h + ")", k
			}
		}
	case *ast.CallExpr:
		return g.call(x)
	}
	return g.fail("expression %s", exprFull(e)), "?"
}

func (g *u16) binary(x *ast.BinaryExpr) (string, string) {
	/* len(s) of a string: only against 0 */
	for _, pair := range [][2]ast.Expr{{x.X, x.Y}, {x.Y, x.X}} {
		if arg, ok := isLenOf(pair[0]); ok {
			at, ak := g.expr(arg)
			if ak == "string" {
				if !isZeroLit(pair[1]) {
					return g.fail("the byte length of a string is not modelled: %s", exprFull(x)), "?"
				}
				lenLeft := pair[0] == x.X
				switch {
				case x.Op == token.EQL, x.Op == token.LEQ && lenLeft, x.Op == token.GEQ && !lenLeft:
					return "decide (" + at + " = (Go.str \"\"))", "bool"
				case x.Op == token.NEQ, x.Op == token.GTR && lenLeft, x.Op == token.LSS && !lenLeft:
					return "decide (" + at + " ≠ (Go.str \"\"))", "bool"
				}
				return g.fail("comparison %s", exprFull(x)), "?"
			}
		}
	}
	l, lk := g.expr(x.X)
	r, rk := g.expr(x.Y)
	/* comparisons with nil */
	if (x.Op == token.EQL || x.Op == token.NEQ) && (lk == "nil" || rk == "nil") {
		v, vk := l, lk
		if lk == "nil" {
			v, vk = r, rk
		}
		switch vk {
		case "item", "error", "numerror", "mediatype":
			if x.Op == token.EQL {
				return v + ".isNone", "bool"
			}
			return v + ".isSome", "bool"
		}
		return g.fail("comparison with nil: %s", exprFull(x)), "?"
	}
	k := lk
	if lk == "lit" {
		k = rk
	} else if rk != "lit" && rk != lk {
		return g.fail("operands of different types in %s", exprFull(x)), "?"
	}
	if k == "lit" {
		k = "int"
	}
	switch x.Op {
	case token.ADD:
		switch k {
		case "string":
			return "(" + l + " ++ " + r + ")", k
		case "int":
			return "(" + l + " + " + r + ")", k
		}
	case token.SUB:
		if k == "int" {
			return "(" + l + " - " + r + ")", k
		}
	case token.LSS, token.GTR, token.LEQ, token.GEQ:
		if k == "int" || k == "byte" {
			op := map[token.Token]string{token.LSS: "<", token.GTR: ">", token.LEQ: "≤", token.GEQ: "≥"}[x.Op]
			return "decide (" + l + " " + op + " " + r + ")", "bool"
		}
	case token.EQL, token.NEQ:
		if k == "int" || k == "string" || k == "byte" {
			op := map[token.Token]string{token.EQL: "=", token.NEQ: "≠"}[x.Op]
			return "decide (" + l + " " + op + " " + r + ")", "bool"
		}
	case token.LAND, token.LOR:
		if k == "bool" {
			if u16Effects(r) {
				f := map[token.Token]string{token.LAND: "Go.land", token.LOR: "Go.lor"}[x.Op]
				if !strings.HasPrefix(l, "(") {
					l = "(" + l + ")"
				}
				return "(← " + f + " " + l + " (do return " + r + "))", "bool"
			}
			op := map[token.Token]string{token.LAND: "&&", token.LOR: "||"}[x.Op]
			return "(" + l + " " + op + " " + r + ")", "bool"
		}
	}
	return g.fail("expression %s", exprFull(x)), "?"
}

func (g *u16) call(x *ast.CallExpr) (string, string) {
	/* conversions and builtins */
	if at, ok := x.Fun.(*ast.ArrayType); ok && at.Len == nil && isIdent(at.Elt, "rune") && len(x.Args) == 1 {
		t, k := g.expr(x.Args[0])
		if k == "string" {
			return "(Go.runes " + t + ")", "runes"
		}
	}
	if id, ok := x.Fun.(*ast.Ident); ok && len(x.Args) == 1 {
		switch id.Name {
		case "string":
			t, k := g.expr(x.Args[0])
			switch k {
			case "byte":
				return "(Go.byteString " + t + ")", "string"
			case "runes":
				return "(Go.runesString " + t + ")", "string"
			}
		case "len":
			t, k := g.expr(x.Args[0])
			switch k {
			case "runes", "strings", "items":
				return "(Go.len " + t + ")", "int"
			case "string":
				return g.fail("the byte length of a string is not modelled: %s", exprFull(x)), "?"
			}
		}
	}
	se, ok := x.Fun.(*ast.SelectorExpr)
	if !ok {
		return g.fail("call %s", exprFull(x)), "?"
	}
	switch exprString(se) {
	case "strings.SplitN":
		if a, ok := g.args(x, []string{"string", "string", "int"}); ok {
			return "(Go.Strings.splitN " + strings.Join(a, " ") + ")", "strings"
		}
		return g.fail("arguments of %s", exprFull(x)), "?"
	case "strconv.Atoi":
		if a, ok := g.args(x, []string{"string"}); ok {
			return "(Go.Strconv.atoi " + a[0] + ")", "atoi"
		}
		return g.fail("arguments of %s", exprFull(x)), "?"
	}
	if id, isIdent := se.X.(*ast.Ident); isIdent && g.lookup(id.Name) == "" && id.Name != g.recv {
		return g.fail("call %s of a package this translator knows nothing about", exprFull(x)), "?"
	}
	if id, isIdent := se.X.(*ast.Ident); isIdent && id.Name == g.recv {
		return g.fail("call %s in an expression", exprFull(x)), "?"
	}
	rt, rk := g.expr(se.X)
	switch {
	case rk == "history":
		fd := g.histM[se.Sel.Name]
		if fd != nil && fd.Type.Results != nil && len(fd.Type.Results.List) == 1 && typeString(fd.Type.Results.List[0].Type) == "T" && len(x.Args) == 0 {
			return "(← GenHistory." + se.Sel.Name + " " + rt + ")", "page"
		}
	case rk == "feed":
		fd := g.feedM[se.Sel.Name]
		if fd != nil && fd.Type.Results != nil && len(fd.Type.Results.List) == 1 {
			res := map[string]string{"pub.Tangible": "item", "bool": "bool"}[typeString(fd.Type.Results.List[0].Type)]
			kinds := []string{}
			for _, p := range fd.Type.Params.List {
				for range p.Names {
					kinds = append(kinds, g.kindOfType(p.Type, false))
				}
			}
			if a, ok := g.args(x, kinds); ok && res != "" {
				return "(← GenFeed." + se.Sel.Name + " " + strings.Join(append([]string{rt}, a...), " ") + ")", res
			}
		}
	case rk == "item" || strings.HasPrefix(rk, "ptr:"):
		return g.pubCall(x, se, rt, rk)
	case rk == "error" && se.Sel.Name == "Error" && len(x.Args) == 0:
		/* the text of a non-nil error; through a nil one the call panics */
		return "(← Go.deref " + rt + ")", "string"
	}
	return g.fail("call %s", exprFull(x)), "?"
}

/* the last emitted line is a declaration: a `do` block may not end with one */
func (g *u16) blockEndsInLet(start int) bool {
	text := g.b.String()[start:]
	lines := strings.Split(strings.TrimRight(text, "\n"), "\n")
	last := strings.TrimSpace(lines[len(lines)-1])
	return strings.HasPrefix(last, "let ") || strings.HasPrefix(last, "--")
}

func (g *u16) body(ind int, list []ast.Stmt) {
	start := g.b.Len()
	g.push()
	/* a name declared in this block is `mut` when the block assigns to it */
	saved := g.mutable
	g.mutable = map[string]bool{}
	for _, st := range list {
		for n := range assignedIdents(st) {
			g.mutable[n] = true
		}
	}
	for _, st := range list {
		g.stmt(ind, st)
	}
	g.mutable = saved
	g.pop()
	if g.b.Len() == start || g.blockEndsInLet(start) {
		g.line(ind, "pure ()")
	}
}

/* recv.h.M() and recv.h.Current().feed.M(args): mutators of history / feed reached from the receiver */
func (g *u16) mutatorCall(ind int, call *ast.CallExpr) bool {
	se, ok := call.Fun.(*ast.SelectorExpr)
	if !ok {
		return false
	}
	/* receiver expression must be rooted at the receiver of Update */
	root := se.X
	for {
		switch r := root.(type) {
		case *ast.SelectorExpr:
			root = r.X
			continue
		case *ast.CallExpr:
			root = r.Fun
			continue
		}
		break
	}
	if !isIdent(root, g.recv) {
		return false
	}
	noResult := func(fd *ast.FuncDecl) bool {
		return fd != nil && (fd.Type.Results == nil || len(fd.Type.Results.List) == 0)
	}
	/* recv.<history field>.M() */
	if hs, ok := se.X.(*ast.SelectorExpr); ok && isIdent(hs.X, g.recv) {
		ht, hk := g.field("State", g.recv, hs.Sel.Name)
		if hk == "history" && noResult(g.histM[se.Sel.Name]) && len(call.Args) == 0 && len(g.histM[se.Sel.Name].Type.Params.List) == 0 {
			g.line(ind, g.recv+" := { "+g.recv+" with "+leanIdent(hs.Sel.Name)+" := (← GenHistory."+se.Sel.Name+" "+ht+") }")
			return true
		}
		return false
	}
	/* recv.<history field>.Current().<feed field>.M(args) */
	fs, ok := se.X.(*ast.SelectorExpr)
	if !ok {
		return false
	}
	cur, ok := fs.X.(*ast.CallExpr)
	if !ok || len(cur.Args) != 0 {
		return false
	}
	cs, ok := cur.Fun.(*ast.SelectorExpr)
	if !ok || cs.Sel.Name != "Current" {
		return false
	}
	hs, ok := cs.X.(*ast.SelectorExpr)
	if !ok || !isIdent(hs.X, g.recv) {
		return false
	}
	ht, hk := g.field("State", g.recv, hs.Sel.Name)
	if hk != "history" {
		return false
	}
	page := g.fresh("page")
	_, fk := g.field("Page", page, fs.Sel.Name)
	fd := g.feedM[se.Sel.Name]
	if fk != "feed" || !noResult(fd) {
		return false
	}
	kinds := []string{}
	for _, p := range fd.Type.Params.List {
		for range p.Names {
			kinds = append(kinds, g.kindOfType(p.Type, false))
		}
	}
	a, ok := g.args(call, kinds)
	if !ok {
		return false
	}
	feed := g.fresh("feed")
	g.line(ind, "-- "+exprFull(call)+": the history holds a pointer to the page, the page a pointer to the feed")
	g.line(ind, "let "+page+" ← GenHistory.Current "+ht)
	g.line(ind, "let "+feed+" ← GenFeed."+se.Sel.Name+" "+strings.Join(append([]string{page + "." + leanIdent(fs.Sel.Name)}, a...), " "))
	g.line(ind, g.recv+" := { "+g.recv+" with "+leanIdent(hs.Sel.Name)+" := (setCurrent "+ht+" { "+page+" with "+leanIdent(fs.Sel.Name)+" := "+feed+" }) }")
	return true
}

/* recv.M(args) for a method of *State that is not translated here; returns the Lean call and the result kind */
func (g *u16) stateCall(call *ast.CallExpr) (string, string, bool) {
	se, ok := call.Fun.(*ast.SelectorExpr)
	if !ok || !isIdent(se.X, g.recv) {
		return "", "", false
	}
	fd := g.stMeth[se.Sel.Name]
	if fd == nil {
		return "", "", false
	}
	sig, ok := g.sigOf(fd.Type, false)
	if !ok || (sig.result != "" && sig.result != "error") {
		return g.fail("signature of (*State).%s", se.Sel.Name), "?", true
	}
	if len(call.Args) != len(sig.params) || call.Ellipsis != token.NoPos {
		return g.fail("arguments of %s", exprFull(call)), "?", true
	}
	a := []string{}
	for i, arg := range call.Args {
		t, k := g.expr(arg)
		want := sig.params[i]
		if want == "any" {
			ctor := map[string]string{"item": "tangible", "items": "tangibles", "string": "string"}[k]
			if ctor == "" {
				return g.fail("argument %s of static type %s for a parameter of type any", exprFull(arg), k), "?", true
			}
			seen := false
			for _, c := range g.anyArgs[se.Sel.Name] {
				if c == k {
					seen = true
				}
			}
			if !seen {
				g.anyArgs[se.Sel.Name] = append(g.anyArgs[se.Sel.Name], k)
			}
			t = "(." + ctor + " " + t + ")"
		} else {
			if k == "lit" && (want == "int" || want == "byte") {
				k = want
			}
			if k != want {
				return g.fail("argument %s of %s", exprFull(arg), exprFull(call)), "?", true
			}
		}
		a = append(a, t)
	}
	g.useSt(se.Sel.Name)
	return "env." + se.Sel.Name + " " + strings.Join(append([]string{g.recv}, a...), " "), sig.result, true
}

func (g *u16) assignField(ind int, s *ast.AssignStmt, sel *ast.SelectorExpr) {
	ft, fk := g.field("State", g.recv, sel.Sel.Name)
	if fk != "int" && fk != "string" {
		g.bad(ind, "assignment to %s", exprFull(sel))
		return
	}
	r, rk := g.expr(s.Rhs[0])
	if rk == "lit" && fk == "int" {
		rk = "int"
	}
	if rk != fk {
		g.bad(ind, "assignment of a %s to %s", rk, exprFull(sel))
		return
	}
	switch {
	case s.Tok == token.ASSIGN:
		g.line(ind, g.recv+" := { "+g.recv+" with "+leanIdent(sel.Sel.Name)+" := "+r+" }")
	case s.Tok == token.ADD_ASSIGN && fk == "string":
		g.line(ind, g.recv+" := { "+g.recv+" with "+leanIdent(sel.Sel.Name)+" := ("+ft+" ++ "+r+") }")
	default:
		g.bad(ind, "assignment operator %s", s.Tok)
	}
}

/* a, b, c := call  /  a, b, c = call */
func (g *u16) tupleAssign(ind int, s *ast.AssignStmt) {
	call, ok := s.Rhs[0].(*ast.CallExpr)
	if !ok {
		g.bad(ind, "tuple assignment from %s", exprFull(s.Rhs[0]))
		return
	}
	names := []string{}
	for _, l := range s.Lhs {
		id, ok := l.(*ast.Ident)
		if !ok {
			g.bad(ind, "assignment target %s", exprFull(l))
			return
		}
		names = append(names, id.Name)
	}
	t, k := g.expr(call)
	var kinds, projs []string
	switch {
	case k == "triple" && len(names) == 3:
		kinds = []string{"string", "mediatype", "bool"}
		projs = []string{".1", ".2.1", ".2.2"}
	case k == "atoi" && len(names) == 2:
		kinds = []string{"int", "numerror"}
		projs = []string{".1", ".2"}
	default:
		g.bad(ind, "tuple assignment from %s", exprFull(call))
		return
	}
	tmp := g.fresh("r")
	if u16Effects(t) && strings.HasPrefix(t, "(← ") && strings.HasSuffix(t, ")") {
		g.line(ind, "let "+tmp+" ← "+strings.TrimSuffix(strings.TrimPrefix(t, "(← "), ")"))
	} else {
		g.line(ind, "let "+tmp+" := "+t)
	}
	for i, n := range names {
		if n == "_" {
			continue
		}
		if s.Tok == token.DEFINE {
			g.declare(ind, n, kinds[i], tmp+projs[i], false)
			continue
		}
		if g.lookup(n) != kinds[i] {
			g.bad(ind, "assignment to %s", n)
			continue
		}
		g.line(ind, leanIdent(n)+" := "+tmp+projs[i])
	}
}

func (g *u16) assign(ind int, s *ast.AssignStmt) {
	if len(s.Rhs) == 1 && len(s.Lhs) > 1 {
		g.tupleAssign(ind, s)
		return
	}
	if len(s.Lhs) != 1 || len(s.Rhs) != 1 {
		g.bad(ind, "parallel assignment")
		return
	}
	if sel, ok := s.Lhs[0].(*ast.SelectorExpr); ok && isIdent(sel.X, g.recv) {
		g.assignField(ind, s, sel)
		return
	}
	id, ok := s.Lhs[0].(*ast.Ident)
	if !ok {
		g.bad(ind, "assignment target %s", exprFull(s.Lhs[0]))
		return
	}
	/* err := recv.M(args) */
	if call, ok := s.Rhs[0].(*ast.CallExpr); ok {
		if t, rk, is := g.stateCall(call); is {
			if rk != "error" || s.Tok != token.DEFINE {
				g.bad(ind, "assignment from %s", exprFull(call))
				return
			}
			tmp := g.fresh("r")
			g.line(ind, "let "+tmp+" ← "+t)
			g.line(ind, g.recv+" := "+tmp+".1")
			g.declare(ind, id.Name, "error", tmp+".2", false)
			return
		}
	}
	r, rk := g.expr(s.Rhs[0])
	if rk == "atoi" || rk == "triple" || rk == "nil" || rk == "?" || rk == "rune" {
		if rk != "?" {
			r = g.fail("assignment from %s", exprFull(s.Rhs[0]))
		}
		rk = "?"
	}
	if s.Tok == token.DEFINE {
		if rk == "?" {
			g.line(ind, "let _ := "+r)
			return
		}
		g.declare(ind, id.Name, rk, r, false)
		return
	}
	vk := g.lookup(id.Name)
	if vk == "" || (vk != rk && !(rk == "lit" && vk == "int")) {
		g.line(ind, "let _ := "+g.fail("assignment to %s", id.Name))
		return
	}
	name := leanIdent(id.Name)
	switch {
	case s.Tok == token.ASSIGN:
		g.line(ind, name+" := "+r)
	case s.Tok == token.ADD_ASSIGN && vk == "string":
		g.line(ind, name+" := ("+name+" ++ "+r+")")
	case s.Tok == token.ADD_ASSIGN && vk == "int":
		g.line(ind, name+" := ("+name+" + "+r+")")
	default:
		g.bad(ind, "assignment operator %s", s.Tok)
	}
}

/* if v, ok := x.(*pub.T); ok { … } [else { … }] */
func (g *u16) assertIf(ind int, s *ast.IfStmt, as *ast.AssignStmt, ta *ast.TypeAssertExpr) {
	v, ok1 := as.Lhs[0].(*ast.Ident)
	okv, ok2 := as.Lhs[1].(*ast.Ident)
	star, ok3 := ta.Type.(*ast.StarExpr)
	if !ok1 || !ok2 || !ok3 || as.Tok != token.DEFINE || !isIdent(s.Cond, okv.Name) {
		g.bad(ind, "form of the type assertion %s", exprFull(ta.X))
		return
	}
	tn := strings.TrimPrefix(typeString(star.X), "pub.")
	isImpl := false
	for _, im := range g.impls {
		if im == tn && typeString(star.X) == "pub."+tn {
			isImpl = true
		}
	}
	if !isImpl {
		g.bad(ind, "type assertion to %s, which is not one of the types behind pub.Tangible", typeString(ta.Type))
		return
	}
	if mentionsIdent(s.Body, okv.Name) || (s.Else != nil && (mentionsIdent(s.Else, okv.Name) || mentionsIdent(s.Else, v.Name))) {
		g.bad(ind, "the results of the type assertion are used beyond the test")
		return
	}
	if g.reserved(v.Name) || g.lookup(v.Name) != "" || g.mutable[v.Name] {
		g.bad(ind, "name %s bound by the type assertion", v.Name)
		return
	}
	x, xk := g.expr(ta.X)
	if xk != "item" {
		g.bad(ind, "type assertion on %s, which is no pub.Tangible", exprFull(ta.X))
		return
	}
	ctor := strings.ToLower(tn[:1]) + tn[1:]
	g.line(ind, "-- if "+v.Name+", "+okv.Name+" := "+exprFull(ta.X)+".(*pub."+tn+"); "+okv.Name)
	g.line(ind, "match "+x+" with")
	g.line(ind, "| some (."+ctor+" "+leanIdent(v.Name)+") =>")
	g.push()
	g.scopes[len(g.scopes)-1][v.Name] = "ptr:" + tn
	g.body(ind+1, s.Body.List)
	g.pop()
	g.line(ind, "| _ =>")
	if s.Else != nil {
		g.body(ind+1, []ast.Stmt{s.Else})
	} else {
		g.line(ind+1, "pure ()")
	}
}

func (g *u16) ifStmt(ind int, s *ast.IfStmt) {
	g.push()
	defer g.pop()
	if s.Init != nil {
		as, ok := s.Init.(*ast.AssignStmt)
		if !ok || as.Tok != token.DEFINE {
			g.bad(ind, "init statement of an if")
			return
		}
		if len(as.Lhs) == 2 && len(as.Rhs) == 1 {
			if ta, ok := as.Rhs[0].(*ast.TypeAssertExpr); ok && ta.Type != nil {
				g.assertIf(ind, s, as, ta)
				return
			}
		}
		g.line(ind, "-- if "+exprFull(as.Lhs[0])+" … := "+exprFull(as.Rhs[0])+"; "+exprFull(s.Cond))
		saved := g.mutable
		g.mutable = assignedIdents(s)
		g.assign(ind, as)
		g.mutable = saved
	}
	t, k := g.expr(s.Cond)
	if k != "bool" {
		t = g.fail("condition %s", exprFull(s.Cond))
	}
	g.line(ind, "if "+t+" then")
	g.body(ind+1, s.Body.List)
	if s.Else != nil {
		g.line(ind, "else")
		g.body(ind+1, []ast.Stmt{s.Else})
	}
}

func (g *u16) switchStmt(ind int, s *ast.SwitchStmt) {
	if s.Init != nil || s.Tag == nil {
		g.bad(ind, "switch form")
		return
	}
	tag, tk := g.expr(s.Tag)
	if u16Effects(tag) || (tk != "int" && tk != "byte") {
		g.bad(ind, "switch tag %s", exprFull(s.Tag))
		return
	}
	var deflt *ast.CaseClause
	cases := []*ast.CaseClause{}
	for _, c := range s.Body.List {
		cc := c.(*ast.CaseClause)
		if cc.List == nil {
			deflt = cc
			continue
		}
		cases = append(cases, cc)
	}
	g.line(ind, "-- switch "+exprFull(s.Tag))
	body := func(ind int, cc *ast.CaseClause) {
		for _, st := range cc.Body {
			bad := false
			ast.Inspect(st, func(m ast.Node) bool {
				if _, ok := m.(*ast.BranchStmt); ok {
					bad = true
				}
				return true
			})
			if bad {
				g.bad(ind, "break / fallthrough / goto inside a case")
				return
			}
		}
		g.body(ind, cc.Body)
	}
	for _, cc := range cases {
		if len(cc.List) != 1 {
			g.bad(ind, "case with several values")
			return
		}
		v, vk := g.expr(cc.List[0])
		if u16Effects(v) || (vk != tk && vk != "lit") {
			g.bad(ind, "case %s", exprFull(cc.List[0]))
			return
		}
		g.line(ind, "if decide ("+tag+" = "+v+") then")
		body(ind+1, cc)
		g.line(ind, "else")
		ind++
	}
	if deflt != nil {
		body(ind, deflt)
	} else {
		g.line(ind, "pure ()")
	}
}

func (g *u16) stmt(ind int, st ast.Stmt) {
	switch s := st.(type) {
	case *ast.BlockStmt:
		g.body(ind, s.List)
	case *ast.EmptyStmt:
	case *ast.ReturnStmt:
		if len(s.Results) != 0 {
			g.bad(ind, "return with a value")
			return
		}
		g.line(ind, "return "+g.recv)
	case *ast.IfStmt:
		g.ifStmt(ind, s)
	case *ast.SwitchStmt:
		g.switchStmt(ind, s)
	case *ast.ExprStmt:
		call, ok := s.X.(*ast.CallExpr)
		if !ok {
			g.bad(ind, "expression statement %s", exprFull(s.X))
			return
		}
		/* recv.output(recv.view()) */
		if se, ok := call.Fun.(*ast.SelectorExpr); ok && isIdent(se.X, g.recv) && se.Sel.Name == "output" && len(call.Args) == 1 {
			if vc, ok := call.Args[0].(*ast.CallExpr); ok && len(vc.Args) == 0 {
				if vs, ok := vc.Fun.(*ast.SelectorExpr); ok && isIdent(vs.X, g.recv) && vs.Sel.Name == "view" {
					g.redraw = true
					g.line(ind, "env.redraw "+g.recv)
					return
				}
			}
		}
		if t, rk, is := g.stateCall(call); is {
			if rk != "" {
				g.bad(ind, "the result of %s is dropped", exprFull(call))
				return
			}
			g.line(ind, g.recv+" ← "+t)
			return
		}
		if g.mutatorCall(ind, call) {
			return
		}
		g.bad(ind, "expression statement %s", exprFull(s.X))
	case *ast.DeclStmt:
		gd, ok := s.Decl.(*ast.GenDecl)
		if !ok || gd.Tok != token.VAR {
			g.bad(ind, "declaration")
			return
		}
		for _, sp := range gd.Specs {
			vs := sp.(*ast.ValueSpec)
			switch {
			case len(vs.Values) == 0 && vs.Type != nil:
				k := g.kindOfType(vs.Type, false)
				z, ok := u16Zero[k]
				for _, n := range vs.Names {
					if !ok {
						g.bad(ind, "zero value of %s", exprFull(vs.Type))
						continue
					}
					g.declare(ind, n.Name, k, z, false)
				}
			case len(vs.Values) == len(vs.Names):
				for i, n := range vs.Names {
					t, k := g.expr(vs.Values[i])
					if vs.Type != nil {
						dk := g.kindOfType(vs.Type, false)
						if dk != k && !(k == "lit" && (dk == "int" || dk == "byte")) && !(k == "nil" && u16Zero[dk] == "none") {
							t = g.fail("declared type of %s", n.Name)
						}
						k = dk
					}
					g.declare(ind, n.Name, k, t, false)
				}
			default:
				g.bad(ind, "declaration form")
			}
		}
	case *ast.AssignStmt:
		g.assign(ind, s)
	default:
		g.bad(ind, "statement %T", st)
	}
}

/* the const block that declares `loading` (iota, implicit repetition) */
func (g *u16) modeBlock(f *ast.File) []string {
	out := []string{}
	for _, d := range f.Decls {
		gd, ok := d.(*ast.GenDecl)
		if !ok || gd.Tok != token.CONST {
			continue
		}
		has := false
		for _, sp := range gd.Specs {
			for _, n := range sp.(*ast.ValueSpec).Names {
				if n.Name == "loading" {
					has = true
				}
			}
		}
		if !has {
			continue
		}
		for i, sp := range gd.Specs {
			vs := sp.(*ast.ValueSpec)
			okForm := len(vs.Names) == 1 && vs.Type == nil &&
				((i == 0 && len(vs.Values) == 1 && isIdent(vs.Values[0], "iota")) || (i > 0 && len(vs.Values) == 0))
			if !okForm {
				out = append(out, "-- "+g.fail("mode constant %s", vs.Names[0].Name))
				continue
			}
			g.modeSet[vs.Names[0].Name] = true
			out = append(out, fmt.Sprintf("def %s : Int := %d", vs.Names[0].Name, i))
		}
		return out
	}
	return []string{"-- " + g.fail("no const block declares the mode `loading`")}
}

/* the typed byte constants (`enterKey byte = '\r'` …) */
func (g *u16) keyBlock(f *ast.File) []string {
	out := []string{}
	for _, d := range f.Decls {
		gd, ok := d.(*ast.GenDecl)
		if !ok || gd.Tok != token.CONST {
			continue
		}
		for _, sp := range gd.Specs {
			vs := sp.(*ast.ValueSpec)
			if vs.Type == nil || !isIdent(vs.Type, "byte") {
				continue
			}
			for i, n := range vs.Names {
				if i >= len(vs.Values) {
					out = append(out, "-- "+g.fail("byte constant %s without a value", n.Name))
					continue
				}
				bl, ok := vs.Values[i].(*ast.BasicLit)
				if !ok || (bl.Kind != token.INT && bl.Kind != token.CHAR) {
					out = append(out, "-- "+g.fail("byte constant %s = %s", n.Name, exprFull(vs.Values[i])))
					continue
				}
				v := bl.Value
				if bl.Kind == token.CHAR {
					v = g.charLit(bl)
				}
				g.keySet[n.Name] = true
				out = append(out, "def "+n.Name+" : Nat := "+v)
			}
		}
	}
	return out
}

func translateUpdate(root string) (string, []string) {
	f := parseFile(root, "ui/ui.go")
	g := &u16{mutable: map[string]bool{}, structs: map[string]*ast.StructType{}, used: map[string]map[string]bool{},
		modeSet: map[string]bool{}, keySet: map[string]bool{}, stMeth: map[string]*ast.FuncDecl{}, anyArgs: map[string][]string{},
		pubMeth: map[string]map[string]*ast.FuncType{}, iface: map[string]*ast.FuncType{}, feedM: map[string]*ast.FuncDecl{},
		histM: map[string]*ast.FuncDecl{}}
	var fd *ast.FuncDecl
	for _, d := range f.Decls {
		switch x := d.(type) {
		case *ast.GenDecl:
			if x.Tok == token.TYPE {
				for _, sp := range x.Specs {
					ts := sp.(*ast.TypeSpec)
					if st, ok := ts.Type.(*ast.StructType); ok {
						g.structs[ts.Name.Name] = st
					}
				}
			}
		case *ast.FuncDecl:
			if x.Recv != nil && len(x.Recv.List) == 1 && exprString(x.Recv.List[0].Type) == "*State" {
				if x.Name.Name == "Update" {
					fd = x
				} else {
					g.stMeth[x.Name.Name] = x
				}
			}
		}
	}
	/* package pub: the interface, the struct types that have all of its methods, their methods */
	names, _ := filepath.Glob(filepath.Join(root, "pub", "*.go"))
	sort.Strings(names)
	structNames := []string{}
	for _, p := range names {
		if strings.HasSuffix(p, "_test.go") || strings.HasSuffix(p, "verif_shim.go") {
			continue
		}
		rel, _ := filepath.Rel(root, p)
		for _, d := range parseFile(root, rel).Decls {
			switch x := d.(type) {
			case *ast.GenDecl:
				if x.Tok != token.TYPE {
					continue
				}
				for _, sp := range x.Specs {
					ts := sp.(*ast.TypeSpec)
					switch t := ts.Type.(type) {
					case *ast.InterfaceType:
						if ts.Name.Name == "Tangible" {
							for _, m := range t.Methods.List {
								if ft, ok := m.Type.(*ast.FuncType); ok && len(m.Names) == 1 {
									g.iface[m.Names[0].Name] = ft
								}
							}
						}
					case *ast.StructType:
						structNames = append(structNames, ts.Name.Name)
					}
				}
			case *ast.FuncDecl:
				if x.Recv != nil && len(x.Recv.List) == 1 {
					rt := strings.TrimPrefix(typeString(x.Recv.List[0].Type), "*")
					if g.pubMeth[rt] == nil {
						g.pubMeth[rt] = map[string]*ast.FuncType{}
					}
					g.pubMeth[rt][x.Name.Name] = x.Type
				}
			}
		}
	}
	sort.Strings(structNames)
	for _, sn := range structNames {
		has := len(g.iface) > 0
		for m := range g.iface {
			if g.pubMeth[sn][m] == nil {
				has = false
			}
		}
		if has {
			g.impls = append(g.impls, sn)
		}
	}
	if len(g.impls) == 0 {
		g.fail("no struct type of package pub has the methods of pub.Tangible")
		g.impls = []string{"Nothing"}
	}
	for _, d := range parseFile(root, "feed/feed.go").Decls {
		if x, ok := d.(*ast.FuncDecl); ok && x.Recv != nil && len(x.Recv.List) == 1 && typeString(x.Recv.List[0].Type) == "*Feed" {
			g.feedM[x.Name.Name] = x
		}
	}
	for _, d := range parseFile(root, "history/history.go").Decls {
		if x, ok := d.(*ast.FuncDecl); ok && x.Recv != nil && len(x.Recv.List) == 1 {
			g.histM[x.Name.Name] = x
		}
	}
	modeDefs := g.modeBlock(f)
	keyDefs := g.keyBlock(f)

	var body strings.Builder
	sig := ""
	if fd == nil {
		g.fail("func (s *State) Update(input byte) not found")
	} else {
		g.recv = recvName(fd)
		okSig := g.recv != "" && fd.Type.Results == nil && len(fd.Type.Params.List) == 1 && len(fd.Type.Params.List[0].Names) == 1 &&
			isIdent(fd.Type.Params.List[0].Type, "byte")
		list := fd.Body.List
		if !okSig {
			g.fail("signature of Update")
		} else {
			/* the critical section: Lock, defer Unlock, and no other mention of the mutex */
			mutex := ""
			okLock := false
			if len(list) >= 2 {
				if es, ok := list[0].(*ast.ExprStmt); ok {
					if ds, ok := list[1].(*ast.DeferStmt); ok {
						if c, ok := es.X.(*ast.CallExpr); ok && len(c.Args) == 0 && len(ds.Call.Args) == 0 {
							l := exprString(c.Fun)
							u := exprString(ds.Call.Fun)
							if strings.HasPrefix(l, g.recv+".") && strings.HasSuffix(l, ".Lock") && u == strings.TrimSuffix(l, "Lock")+"Unlock" {
								mutex = strings.TrimSuffix(strings.TrimPrefix(l, g.recv+"."), ".Lock")
								okLock = true
							}
						}
					}
				}
			}
			if okLock {
				if st, ok := g.structs["State"]; ok {
					isMutex := false
					for _, fl := range st.Fields.List {
						for _, n := range fl.Names {
							if n.Name == mutex && (typeString(fl.Type) == "*sync.Mutex" || typeString(fl.Type) == "sync.Mutex") {
								isMutex = true
							}
						}
					}
					if !isMutex {
						g.fail("%s.%s is not a sync.Mutex", g.recv, mutex)
					}
				}
				list = list[2:]
				for _, st := range list {
					ast.Inspect(st, func(n ast.Node) bool {
						if se, ok := n.(*ast.SelectorExpr); ok && isIdent(se.X, g.recv) && se.Sel.Name == mutex {
							g.fail("the mutex is used inside the critical section (line %d)", fset.Position(se.Pos()).Line)
						}
						switch n.(type) {
						case *ast.GoStmt, *ast.DeferStmt, *ast.FuncLit, *ast.ForStmt, *ast.RangeStmt, *ast.LabeledStmt:
							g.fail("go / defer / closure / loop / label in Update (line %d)", fset.Position(n.Pos()).Line)
						}
						return true
					})
				}
			} else {
				g.fail("Update does not start with %s.m.Lock(); defer %s.m.Unlock()", g.recv, g.recv)
			}
			pname := fd.Type.Params.List[0].Names[0].Name
			if pname != "input" {
				g.fail("the parameter of Update is called %s (the translation calls it input)", pname)
			}
			if assignedIdents(fd.Body)[pname] {
				g.fail("Update assigns to its parameter")
			}
		}
		g.mutable = assignedIdents(fd.Body)
		g.push()
		g.scopes[0]["input"] = "byte"
		g.line(1, "let mut "+g.recv+" := s0")
		for _, st := range list {
			g.stmt(1, st)
		}
		g.line(1, "return "+g.recv)
		g.pop()
		body = g.b
		g.b = strings.Builder{}
		sig = "def Update (env : Env " + g.p5() + ") (s0 : " + g.stT() + ") (input : Nat) : Except Panic " + g.stT() + " := do"
	}
	/* pages enter the history as fresh pointers with fresh feeds */
	ast.Inspect(f, func(n ast.Node) bool {
		ce, ok := n.(*ast.CallExpr)
		if !ok {
			return true
		}
		se, ok := ce.Fun.(*ast.SelectorExpr)
		if !ok || se.Sel.Name != "Add" || len(ce.Args) != 1 {
			return true
		}
		if hs, ok := se.X.(*ast.SelectorExpr); !ok || g.kindOfFieldNoUse("State", hs.Sel.Name) != "history" {
			return true
		}
		line := fset.Position(ce.Pos()).Line
		ue, ok := ce.Args[0].(*ast.UnaryExpr)
		if !ok || ue.Op != token.AND {
			g.fail("a page added to the history that is no fresh &Page{…} (line %d)", line)
			return true
		}
		cl, ok := ue.X.(*ast.CompositeLit)
		if !ok || !isIdent(cl.Type, "Page") {
			g.fail("a page added to the history that is no fresh &Page{…} (line %d)", line)
			return true
		}
		fresh := false
		for _, e := range cl.Elts {
			if kv, ok := e.(*ast.KeyValueExpr); ok && g.kindOfFieldNoUse("Page", exprString(kv.Key)) == "feed" {
				if c, ok := kv.Value.(*ast.CallExpr); ok && strings.HasPrefix(exprString(c.Fun), "feed.Create") {
					fresh = true
				}
			}
		}
		if !fresh {
			g.fail("a page added to the history whose feed is no fresh feed.Create…(…) (line %d)", line)
		}
		return true
	})

	tT := g.tT()
	g.line(0, "namespace GenUpdate")
	g.line(0, "")
	g.line(0, "/-- the modes: the `const` block of ui/ui.go that declares `loading`, in its order -/")
	for _, l := range modeDefs {
		g.line(0, l)
	}
	g.line(0, "")
	g.line(0, "/-- the special keys: the `const` declarations of type `byte` -/")
	for _, l := range keyDefs {
		g.line(0, l)
	}
	g.line(0, "")
	g.line(0, "/-- `pub.Tangible` (pub/interfaces.go): a value is one of the struct types of package pub that have")
	g.line(0, "    its methods; `Update` reads no field of them, so they are parameters -/")
	g.line(0, "inductive Tangible ("+g.p4()+" : Type) where")
	for _, im := range g.impls {
		g.line(1, "| "+strings.ToLower(im[:1])+im[1:]+" (v : "+im+")")
	}
	g.line(0, "")
	for _, sn := range []string{"Page", "State"} {
		st, ok := g.structs[sn]
		if !ok {
			g.fail("type %s struct not found", sn)
			continue
		}
		carried, dropped := []string{}, []string{}
		for _, fl := range st.Fields.List {
			for _, n := range fl.Names {
				if g.used[sn][n.Name] {
					carried = append(carried, leanIdent(n.Name)+" : "+g.leanType(g.kindOfType(fl.Type, false)))
				} else {
					dropped = append(dropped, n.Name)
				}
			}
		}
		if sn == "Page" {
			g.line(0, "/-- `type Page struct`: the field `Update` touches; the others ("+strings.Join(dropped, ", ")+") travel as `rest` -/")
		} else {
			g.line(0, "/-- `type State struct`: the fields `Update` touches (not carried: "+strings.Join(dropped, ", ")+") -/")
		}
		g.line(0, "structure "+sn+" ("+g.p5()+" : Type) where")
		for _, cf := range carried {
			g.line(1, cf)
		}
		if sn == "Page" {
			g.line(1, "rest : PageRest")
		}
		g.line(0, "")
	}
	/* parameters of type any */
	anyMethods := []string{}
	for m := range g.anyArgs {
		anyMethods = append(anyMethods, m)
	}
	sort.Strings(anyMethods)
	for _, m := range anyMethods {
		g.line(0, "/-- what the `any` parameter of `"+m+"` is given at the call sites of `Update`, by static type -/")
		g.line(0, "inductive Arg_"+m+" ("+g.p4()+" : Type) where")
		for _, k := range g.anyArgs[m] {
			switch k {
			case "item":
				g.line(1, "| tangible (x : Option "+tT+")      -- pub.Tangible")
			case "items":
				g.line(1, "| tangibles (xs : List (Option "+tT+"))      -- []pub.Tangible")
			case "string":
				g.line(1, "| string (x : Str)")
			}
		}
		g.line(0, "")
	}
	g.line(0, "/-- what `Update` calls and this file does not translate -/")
	g.line(0, "structure Env ("+g.p5()+" : Type) where")
	for _, m := range g.envSt {
		sig, _ := g.sigOf(g.stMeth[m].Type, false)
		parts := []string{g.stT()}
		for _, k := range sig.params {
			if k == "any" {
				k = "any:" + m
			}
			parts = append(parts, g.leanType(k))
		}
		res := g.stT()
		doc := "state in, state out"
		if sig.result == "error" {
			res = "(" + g.stT() + " × Option Str)"
			doc = "state in, state out, and the text of the error it returns (`none` = nil)"
		}
		g.line(1, "/-- `func (s *State) "+m+"` of ui/ui.go: "+doc+" -/")
		g.line(1, m+" : "+strings.Join(parts, " → ")+" → Except Panic "+res)
	}
	if g.redraw {
		g.line(1, "/-- `s.output(s.view())`: a frame is emitted (`view` is translated in Generated/GoView.lean); the state stays -/")
		g.line(1, "redraw : "+g.stT()+" → Except Panic Unit")
	}
	for _, key := range g.envPub {
		parts := strings.SplitN(key, ".", 2)
		var ft *ast.FuncType
		recvT := parts[0]
		if parts[0] == "Tangible" {
			ft = g.iface[parts[1]]
			recvT = tT
			g.line(1, "/-- `"+parts[1]+"` through the interface `pub.Tangible` -/")
		} else {
			ft = g.pubMeth[parts[0]][parts[1]]
			g.line(1, "/-- `func (*"+parts[0]+") "+parts[1]+"` of package pub -/")
		}
		sig, _ := g.sigOf(ft, true)
		ts := []string{recvT}
		for _, k := range sig.params {
			ts = append(ts, g.leanType(k))
		}
		g.line(1, parts[0]+"_"+parts[1]+" : "+strings.Join(ts, " → ")+" → Except Panic "+g.leanType(sig.result))
	}
	g.line(0, "")
	g.line(0, "/-- a write through the pointer `h.Current()` returned: the history holds pointers to its pages, each")
	g.line(0, "    added as a fresh `&Page{…}` (checked), so the page at `h.index` is the one that changed -/")
	g.line(0, "def setCurrent {P : Type} (h : GenHistory.History P) (p : P) : GenHistory.History P :=")
	g.line(1, "{ h with elements := h.elements.set h.index.toNat p }")
	g.line(0, "")
	g.line(0, "variable {"+g.p5()+" : Type}")
	g.line(0, "")
	if sig != "" {
		g.line(0, "/-- `func (s *State) Update(input byte)`: what happens between `Lock()` and the deferred `Unlock()` -/")
		g.line(0, sig)
		g.b.WriteString(body.String())
		g.line(0, "")
	}
	g.line(0, "end GenUpdate")
	return g.b.String(), g.err
}

/* the kind of a declared field, without marking it as used */
func (g *u16) kindOfFieldNoUse(structName, name string) string {
	st, ok := g.structs[structName]
	if !ok {
		return "?"
	}
	for _, fl := range st.Fields.List {
		for _, n := range fl.Names {
			if n.Name == name {
				return g.kindOfType(fl.Type, false)
			}
		}
	}
	return "?"
}
