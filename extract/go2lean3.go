package main

/*
go2lean, third front end: functions that return (value, error), translated to the `Except`
monad. Applied to the typed accessors of object/object.go (property C17).

An error expression is classified when it is built: one that wraps or is `ErrKeyNotPresent`
becomes `Obj.Err.absent` (what `errors.Is(err, ErrKeyNotPresent)` observes), any other freshly built
error becomes `Obj.Err.wrong`, an error variable is passed on unchanged. The value returned next to
a non-nil error is dropped (callers never look at it).

  idioms       `v, err := call` followed by `if err != nil { return …, E }`
               `if v, err := call; err != nil { return …, E } else if … else …`
               `if value, ok := m[key]; COND { … } else if narrowed, ok := value.(T); !ok { … } else { … }`
               `return v, nil`, `return …, E`, plain assignments, `if COND { return … }`
  generics     one Lean definition per instantiation `f[T]` that occurs in the file
  externals    time.Parse(time.RFC3339, ·), url.Parse, mime.Parse (parameters `L.parseTime`,
               `L.parseUrl`, `Mime.parse`), ansi.Scrub (the model's `Ansi.scrub`)
*/

import (
	"fmt"
	"go/ast"
	"go/token"
	"math/big"
	"strings"
)

type e2l struct {
	b     strings.Builder
	funcs map[string]*ast.FuncDecl
	err   []string
	tsub  string // the Go type substituted for the type parameter T in the current instance
	insts []string
	recv  string
	flts  map[string]bool // identifiers holding a float64 in the current function
}

func (g *e2l) fail(format string, a ...any) string {
	msg := fmt.Sprintf(format, a...)
	g.err = append(g.err, msg)
	return "(sorry_untranslatable /- " + msg + " -/)"
}

func (g *e2l) line(ind int, s string) { g.b.WriteString(strings.Repeat("  ", ind) + s + "\n") }

/* Go type -> (suffix used in instance names, Lean type) */
func (g *e2l) typ(e ast.Expr) (string, string) {
	s := typeString(e)
	if s == "T" && g.tsub != "" {
		s = g.tsub
	}
	switch s {
	case "any":
		return "any", "JVal"
	case "string":
		return "string", "Str"
	case "float64":
		return "float64", "Nat"
	case "uint64":
		return "uint64", "Nat"
	case "map[string]any", "Object":
		return "map", "List (Str × JVal)"
	case "[]any":
		return "list", "List JVal"
	case "time.Time":
		return "time", "Time"
	case "*url.URL":
		return "url", "Url"
	case "*mime.MediaType":
		return "mediatype", "Mime.MediaType"
	}
	return "?", g.fail("type %s", s)
}

func typeString(e ast.Expr) string {
	switch t := e.(type) {
	case *ast.Ident:
		return t.Name
	case *ast.SelectorExpr:
		return typeString(t.X) + "." + t.Sel.Name
	case *ast.StarExpr:
		return "*" + typeString(t.X)
	case *ast.ArrayType:
		return "[]" + typeString(t.Elt)
	case *ast.MapType:
		return "map[" + typeString(t.Key) + "]" + typeString(t.Value)
	}
	return fmt.Sprintf("<%T>", e)
}

/* classify an error expression */
func (g *e2l) errExpr(e ast.Expr) string {
	switch x := e.(type) {
	case *ast.Ident:
		switch x.Name {
		case "ErrKeyNotPresent":
			return "Obj.Err.absent"
		case "ErrKeyWrongType":
			return "Obj.Err.wrong"
		case "err":
			return "err"
		}
	case *ast.CallExpr:
		if se, ok := x.Fun.(*ast.SelectorExpr); ok {
			name := exprString(se)
			if name == "errors.New" {
				return "Obj.Err.wrong"
			}
			if name == "fmt.Errorf" {
				format := ""
				if bl, ok := x.Args[0].(*ast.BasicLit); ok {
					format = bl.Value
				}
				if strings.Contains(format, "%w") {
					/* the wrapped operand decides */
					for _, a := range x.Args[1:] {
						if id, ok := a.(*ast.Ident); ok {
							switch id.Name {
							case "ErrKeyNotPresent":
								return "Obj.Err.absent"
							case "ErrKeyWrongType":
								return "Obj.Err.wrong"
							case "err":
								return "err"
							}
						}
					}
					return g.fail("wrapped error operand")
				}
				return "Obj.Err.wrong"
			}
		}
	}
	return g.fail("error expression %s", exprString(e))
}

func (g *e2l) expr(e ast.Expr) string {
	switch x := e.(type) {
	case *ast.Ident:
		if x.Name == "nil" {
			return "none"
		}
		return x.Name
	case *ast.BasicLit:
		if x.Kind == token.STRING {
			return "(Go.str " + x.Value + ")"
		}
		return x.Value
	case *ast.ParenExpr:
		return "(" + g.expr(x.X) + ")"
	case *ast.UnaryExpr:
		if x.Op == token.NOT {
			return "(!" + g.expr(x.X) + ")"
		}
	case *ast.BinaryExpr:
		if g.isFloat(x.X) || g.isFloat(x.Y) {
			return g.floatCmp(x)
		}
		l, r := g.expr(x.X), g.expr(x.Y)
		if id, ok := x.Y.(*ast.Ident); ok && id.Name == "nil" {
			switch x.Op {
			case token.EQL:
				return "(Go.isNilAny " + l + ")"
			case token.NEQ:
				return "(!Go.isNilAny " + l + ")"
			}
		}
		switch x.Op {
		case token.LOR:
			return "(" + l + " || " + r + ")"
		case token.LAND:
			return "(" + l + " && " + r + ")"
		case token.EQL:
			return "decide (" + l + " = " + r + ")"
		case token.NEQ:
			return "decide (" + l + " ≠ " + r + ")"
		}
	case *ast.CompositeLit:
		if typeString(x.Type) == "[]any" {
			els := []string{}
			for _, el := range x.Elts {
				els = append(els, g.expr(el))
			}
			return "[" + strings.Join(els, ", ") + "]"
		}
	case *ast.CallExpr:
		return g.call(x)
	}
	return g.fail("expression %s", exprString(e))
}

/* a call whose result is a plain value */
func (g *e2l) call(x *ast.CallExpr) string {
	args := []string{}
	for _, a := range x.Args {
		args = append(args, g.expr(a))
	}
	if exprString(x.Fun) == "ansi.Scrub" {
		return "(Ansi.scrub " + args[0] + ")"
	}
	if exprString(x.Fun) == "math.Trunc" && len(x.Args) == 1 && g.isFloat(x.Args[0]) {
		return "(Go.f64trunc " + args[0] + ")"
	}
	if exprString(x.Fun) == "uint64" && len(x.Args) == 1 && g.isFloat(x.Args[0]) {
		return "(Go.f64toUint64 " + args[0] + ")"
	}
	return g.fail("call %s", exprString(x.Fun))
}

/* does the expression denote a float64 (a bit pattern on the Lean side)? */
func (g *e2l) isFloat(e ast.Expr) bool {
	switch x := e.(type) {
	case *ast.Ident:
		return g.flts[x.Name]
	case *ast.ParenExpr:
		return g.isFloat(x.X)
	case *ast.CallExpr:
		return exprString(x.Fun) == "math.Trunc"
	}
	return false
}

/* a natural-number literal that a float64 represents exactly (so that the constant the Go
   compiler converts it to is the number itself) */
func exactNatLiteral(e ast.Expr) (string, bool) {
	bl, ok := e.(*ast.BasicLit)
	if !ok || bl.Kind != token.INT {
		return "", false
	}
	n, ok := new(big.Int).SetString(bl.Value, 0)
	if !ok || n.Sign() < 0 {
		return "", false
	}
	if n.Sign() == 0 {
		return "0", true
	}
	/* odd part below 2^53 */
	m := new(big.Int).Set(n)
	for m.Bit(0) == 0 {
		m.Rsh(m, 1)
	}
	if m.BitLen() > 53 || n.BitLen() > 1023 {
		return "", false
	}
	return n.String(), true
}

/* comparisons with a float64 operand */
func (g *e2l) floatCmp(x *ast.BinaryExpr) string {
	if g.isFloat(x.X) && g.isFloat(x.Y) {
		switch x.Op {
		case token.NEQ:
			return "(Go.f64ne " + g.expr(x.X) + " " + g.expr(x.Y) + ")"
		case token.EQL:
			return "(!Go.f64ne " + g.expr(x.X) + " " + g.expr(x.Y) + ")"
		}
	}
	if g.isFloat(x.X) {
		if lit, ok := exactNatLiteral(x.Y); ok {
			switch x.Op {
			case token.LSS:
				return "(Go.f64ltNat " + g.expr(x.X) + " " + lit + ")"
			case token.GEQ:
				return "(Go.f64geNat " + g.expr(x.X) + " " + lit + ")"
			}
		}
	}
	return g.fail("float comparison %s", exprString(x))
}

/* a call that returns (value, error): a Lean term of type `Obj.R _` */
func (g *e2l) callR(x *ast.CallExpr) string {
	if exprString(x.Fun) == "time.Parse" && len(x.Args) == 2 && exprString(x.Args[0]) == "time.RFC3339" {
		return "(Go.ofOption (L.parseTime " + g.expr(x.Args[1]) + "))"
	}
	args := []string{}
	for _, a := range x.Args {
		args = append(args, g.expr(a))
	}
	switch fn := x.Fun.(type) {
	case *ast.IndexExpr:
		/* generic instantiation f[T](…) */
		if id, ok := fn.X.(*ast.Ident); ok {
			suffix, _ := g.typ(fn.Index)
			g.need(id.Name, typeStringSub(fn.Index, g.tsub))
			return "(" + id.Name + "_" + suffix + " " + strings.Join(args, " ") + ")"
		}
	case *ast.SelectorExpr:
		name := exprString(fn)
		if id, ok := fn.X.(*ast.Ident); ok && id.Name == g.recv {
			if _, ok := g.funcs[fn.Sel.Name]; ok {
				return "(" + fn.Sel.Name + " L " + g.recv + " " + strings.Join(args, " ") + ")"
			}
		}
		switch name {
		case "url.Parse":
			return "(Go.ofOption (L.parseUrl " + args[0] + "))"
		case "mime.Parse":
			return "(Go.ofOption (Mime.parse " + args[0] + "))"
		}
	}
	return g.fail("call %s", exprString(x.Fun))
}

func typeStringSub(e ast.Expr, tsub string) string {
	s := typeString(e)
	if s == "T" && tsub != "" {
		return tsub
	}
	return s
}

func (g *e2l) need(fn, t string) {
	key := fn + "[" + t + "]"
	for _, i := range g.insts {
		if i == key {
			return
		}
	}
	g.insts = append(g.insts, key)
}

/* `return a, b` */
func (g *e2l) ret(ind int, rs *ast.ReturnStmt) {
	if len(rs.Results) == 1 {
		/* return f(...) of a (value, error) function */
		if ce, ok := rs.Results[0].(*ast.CallExpr); ok {
			g.line(ind, g.callR(ce))
			return
		}
	}
	if len(rs.Results) != 2 {
		g.line(ind, g.fail("return arity"))
		return
	}
	if id, ok := rs.Results[1].(*ast.Ident); ok && id.Name == "nil" {
		g.line(ind, ".ok "+g.expr(rs.Results[0]))
		return
	}
	g.line(ind, ".error "+g.errExpr(rs.Results[1]))
}

/* statements of a block, as one Lean term (each statement consumes the rest) */
func (g *e2l) block(ind int, list []ast.Stmt) {
	if len(list) == 0 {
		g.line(ind, g.fail("fall through"))
		return
	}
	st, rest := list[0], list[1:]
	switch s := st.(type) {
	case *ast.ReturnStmt:
		g.ret(ind, s)
	case *ast.DeclStmt:
		g.block(ind, rest) // `var zero T`: the value next to an error is dropped
	case *ast.AssignStmt:
		/* v, err := call ; if err != nil { return …, E } */
		if len(s.Lhs) == 2 && len(s.Rhs) == 1 && exprString(s.Lhs[1]) == "err" {
			if ce, ok := s.Rhs[0].(*ast.CallExpr); ok && len(rest) > 0 {
				if is, ok := rest[0].(*ast.IfStmt); ok && exprString(is.Cond) == "err!=nil" && is.Else == nil {
					g.line(ind, "match "+g.callR(ce)+" with")
					g.line(ind, "| .error err =>")
					g.block(ind+1, is.Body.List)
					g.line(ind, "| .ok "+exprString(s.Lhs[0])+" =>")
					g.block(ind+1, rest[1:])
					return
				}
			}
		}
		if len(s.Lhs) == 1 && len(s.Rhs) == 1 && (s.Tok == token.ASSIGN || s.Tok == token.DEFINE) {
			g.line(ind, "let "+exprString(s.Lhs[0])+" := "+g.expr(s.Rhs[0]))
			g.block(ind, rest)
			return
		}
		g.line(ind, g.fail("assignment %s", exprString(s.Lhs[0])))
	case *ast.IfStmt:
		g.ifChain(ind, s, rest)
	default:
		g.line(ind, g.fail("statement %T", st))
	}
}

func (g *e2l) ifChain(ind int, s *ast.IfStmt, rest []ast.Stmt) {
	elseBranch := func(ind int) {
		switch e := s.Else.(type) {
		case nil:
			g.block(ind, rest)
		case *ast.IfStmt:
			g.ifChain(ind, e, rest)
		case *ast.BlockStmt:
			g.block(ind, append(append([]ast.Stmt{}, e.List...), rest...))
		}
	}
	if s.Init == nil {
		g.line(ind, "if "+g.expr(s.Cond)+" then")
		g.block(ind+1, append(append([]ast.Stmt{}, s.Body.List...), rest...))
		g.line(ind, "else")
		elseBranch(ind + 1)
		return
	}
	as, ok := s.Init.(*ast.AssignStmt)
	if !ok || len(as.Lhs) != 2 || len(as.Rhs) != 1 {
		g.line(ind, g.fail("if-init form"))
		return
	}
	a, b := exprString(as.Lhs[0]), exprString(as.Lhs[1])
	switch r := as.Rhs[0].(type) {
	case *ast.CallExpr:
		/* if v, err := call; err != nil { … } else … */
		if b == "err" && exprString(s.Cond) == "err!=nil" {
			if ix, ok := r.Fun.(*ast.IndexExpr); ok && typeStringSub(ix.Index, g.tsub) == "float64" {
				g.flts[a] = true
			}
			g.line(ind, "match "+g.callR(r)+" with")
			g.line(ind, "| .error err =>")
			g.block(ind+1, s.Body.List)
			g.line(ind, "| .ok "+a+" =>")
			elseBranch(ind + 1)
			return
		}
	case *ast.IndexExpr:
		/* value, ok := m[key] */
		g.line(ind, "let ("+a+", "+b+") := Go.mapLookup "+g.expr(r.X)+" "+g.expr(r.Index))
		g.line(ind, "if "+g.expr(s.Cond)+" then")
		g.block(ind+1, s.Body.List)
		g.line(ind, "else")
		elseBranch(ind + 1)
		return
	case *ast.TypeAssertExpr:
		suffix, _ := g.typ(r.Type)
		g.line(ind, "let ("+a+", "+b+") := Go.assert_"+suffix+" "+g.expr(r.X))
		g.line(ind, "if "+g.expr(s.Cond)+" then")
		g.block(ind+1, s.Body.List)
		g.line(ind, "else")
		elseBranch(ind + 1)
		return
	}
	g.line(ind, g.fail("if-init form"))
}

func (g *e2l) function(fd *ast.FuncDecl, tsub string) {
	g.tsub = tsub
	g.flts = map[string]bool{}
	name := fd.Name.Name
	params := []string{"(L : Obj.Libs Time Url)"}
	g.recv = ""
	if fd.Recv != nil {
		g.recv = fd.Recv.List[0].Names[0].Name
		params = append(params, "("+g.recv+" : List (Str × JVal))")
	}
	if tsub != "" {
		suffix, _ := g.typ(&ast.Ident{Name: tsub})
		name += "_" + suffix
		params = params[:0] // generic helpers take no library parameter
	}
	for _, p := range fd.Type.Params.List {
		_, lt := g.typ(p.Type)
		for _, n := range p.Names {
			params = append(params, "("+n.Name+" : "+lt+")")
		}
	}
	_, rt := g.typ(fd.Type.Results.List[0].Type)
	g.line(0, fmt.Sprintf("def %s %s : Obj.R %s :=", name, strings.Join(params, " "), parenT(rt)))
	g.block(1, fd.Body.List)
	g.line(0, "")
}

func parenT(s string) string {
	if strings.Contains(s, " ") {
		return "(" + s + ")"
	}
	return s
}

func translateErrFuncs(f *ast.File, names []string, ns string) (string, []string) {
	g := &e2l{funcs: map[string]*ast.FuncDecl{}}
	generic := map[string]*ast.FuncDecl{}
	for _, d := range f.Decls {
		if fd, ok := d.(*ast.FuncDecl); ok {
			if fd.Type.TypeParams != nil {
				generic[fd.Name.Name] = fd
				continue
			}
			for _, n := range names {
				if fd.Name.Name == n {
					g.funcs[n] = fd
				}
			}
		}
	}
	/* first pass: translate the methods into a scratch builder to learn the instantiations */
	var body strings.Builder
	for _, n := range names {
		fd, ok := g.funcs[n]
		if !ok {
			g.fail("function %s not found", n)
			continue
		}
		g.b.Reset()
		g.function(fd, "")
		body.WriteString(g.b.String())
	}
	insts := append([]string{}, g.insts...)
	g.b.Reset()
	g.line(0, "namespace "+ns)
	g.line(0, "")
	g.line(0, "variable {Time Url : Type}")
	g.line(0, "")
	for _, inst := range insts {
		fn := inst[:strings.Index(inst, "[")]
		t := inst[strings.Index(inst, "[")+1 : len(inst)-1]
		fd, ok := generic[fn]
		if !ok {
			g.fail("generic function %s not found", fn)
			continue
		}
		g.function(fd, t)
	}
	g.tsub = ""
	g.b.WriteString(body.String())
	g.line(0, "end "+ns)
	return g.b.String(), g.err
}
