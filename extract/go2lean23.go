package main

/*
go2lean, twenty-third front end: `ResolveWebfinger` and `FetchURL` of client/client.go (property
C04: what a lookup asks for, and of whom), into `lean/Generated/GoWebfinger.lean`, namespace
`GenWebfinger`.  Every identifier, literal, operator, field name and call of the output comes from
the AST; what is known beforehand is the signature of the library functions that may be called and
the shape "statements, ONE call of jtp.Get at the top level of the body, statements".

ResolveWebfinger is cut at its call of `jtp.Get` (whose signature is read from jtp/jtp.go):

  ResolveWebfinger_request   the statements before the call and the four arguments of the call, as a
                             `Request` (link, accept, tolerated, maxRedirects), or the error the
                             function returns before it asks anything
  ResolveWebfinger_loopN     one function per `for _, x := range xs`, recursive in the list, over
                             the variables the body assigns (`continue` = the recursive call,
                             `break` = the state as it is, falling off the body = `continue`)
  ResolveWebfinger_answer    the statements after the call, as a function of what `jtp.Get` returned
  ResolveWebfinger           the composition, `jtp.Get` being the parameter `X.jtpGet`

  values       string = `Str`; []string = `List Str`; bool; `any` = `JVal`; `map[string]any` /
               `object.Object` = `List (Str × JVal)`; `[]any` = `List JVal`; `*mime.MediaType` as
               `GenObject.GetMediaType` returns it; `*url.URL` = `Go.Net.URL`
  a URL        `&url.URL{Field: e, …}` with string fields only, evaluated in the body, is
               `Go.Url.fresh U {…}` (Model/GoUrl.lean): a FRESH value per call, whose methods return
               what net/url computes from those fields.  A package-level `*url.URL`, a URL reached
               through any other variable, and an assignment to a field of a URL are NOT
               translated: what `jtp.Get` reads would then depend on what other calls wrote
  calls        strings.SplitN(s, "c", n) (one-character literal, literal n ≥ 0), len, `s[i]` as the
               whole right-hand side of an assignment (a panic branch `Err.panic`, proved
               unreachable in Props/Gen04w.lean), `(url.Values{"k": []string{…}, …}).Encode()`
               (`Go.Url.valuesEncode`: query escaping of keys and values), object.Object(m),
               `v, ok := x.(map[string]any)`, the accessors `o.GetString/GetList/GetObject/GetAny/
               GetMediaType(k)` (the translated `GenObject.*`; their signatures are checked in
               object/object.go), `m.Matches([]string{…})` (`Mime.MediaType.matchesAny`, equal to
               the translated `Matches` by `Gen03m.matches_eq`), errors.New, fmt.Errorf without %w
               (the format is kept, the operands are not), errors.Is(err, object.ErrKeyNotPresent)
  errors       `x, err := f(…)` must be followed by `if err != nil { … }` or by
               `if errors.Is(err, object.ErrKeyNotPresent) { … } else if err != nil { … }` whose
               bodies leave (return / continue / break); an error return must carry `""`
  statements   `var a, b T`, `x := e`, `x = e`, `if` / `else if` / `else` whose bodies leave or are
               last, `for _, x := range`, `continue`, `break`, `return`

FetchURL must be: a key `k := uri.String()` (any string expression over the parameter), then either
`return jtp.Get(…)` or `b, _, _ := G.Do(k, func() (any, error) { j, s, e := jtp.Get(…); return
bundle{item: j, source: s, err: e}, nil })` on a package-level `singleflight.Group` G, optionally
`G.Forget(k)`, and `return b.(bundle).item, b.(bundle).source, b.(bundle).err` in the order the
bundle was filled.  `Go.Singleflight.do` states what the sharing means.  A mutex, another key, a
result taken from anywhere else: untranslatable.

Anything else yields `sorry_untranslatable`, which breaks the build of the generated file.
*/

import (
	"fmt"
	"go/ast"
	"go/token"
	"strconv"
	"strings"
	"unicode/utf8"
)

type wfScope map[string]string

func (s wfScope) clone() wfScope {
	c := wfScope{}
	for k, v := range s {
		c[k] = v
	}
	return c
}

type wfCont struct {
	end  func(ind int, sc wfScope) // the statement list is exhausted
	cont string                    // `continue` ("" outside a loop)
	brk  string                    // `break`
}

type wf struct {
	b       strings.Builder
	err     *[]string
	imports map[string]string
	consts  map[string]string // package-level integer constants
	pkgVars map[string]string // package-level variables and their types
	objFile *ast.File
	fn      string
	loops   *[]string
	nloops  *int
}

func (g *wf) fail(format string, a ...any) string {
	msg := fmt.Sprintf(format, a...)
	*g.err = append(*g.err, msg)
	return "(sorry_untranslatable /- " + strings.ReplaceAll(msg, "-/", "- /") + " -/)"
}

func (g *wf) line(ind int, s string) { g.b.WriteString(strings.Repeat("  ", ind) + s + "\n") }

func wfLeanType(t string) string {
	switch t {
	case "str":
		return "Str"
	case "strs":
		return "List Str"
	case "bool":
		return "Bool"
	case "int":
		return "Int"
	case "uint":
		return "Nat"
	case "url":
		return "URL"
	case "map":
		return "List (Str × JVal)"
	case "list":
		return "List JVal"
	case "any":
		return "JVal"
	case "mt":
		return "Mime.MediaType"
	}
	return "?"
}

func wfZero(t string) (string, bool) {
	switch t {
	case "str", "strs", "map", "list":
		return "[]", true
	case "bool":
		return "false", true
	case "int", "uint":
		return "0", true
	}
	return "", false
}

func (g *wf) typeOf(e ast.Expr) string {
	switch typeString(e) {
	case "string":
		return "str"
	case "[]string":
		return "strs"
	case "bool":
		return "bool"
	case "int":
		return "int"
	case "uint":
		return "uint"
	case "any":
		return "any"
	case "map[string]any":
		return "map"
	case "[]any":
		return "list"
	case "object.Object":
		if g.imports["object"] == "servitor/object" {
			return "map"
		}
	case "*url.URL":
		if g.imports["url"] == "net/url" {
			return "url"
		}
	case "*mime.MediaType":
		return "mt"
	case "error":
		return "error"
	}
	return ""
}

func (g *wf) isPkgSel(e ast.Expr, pkg, path, name string) bool {
	se, ok := e.(*ast.SelectorExpr)
	if !ok {
		return false
	}
	id, ok := se.X.(*ast.Ident)
	return ok && id.Name == pkg && se.Sel.Name == name && g.imports[pkg] == path
}

const wfShared = "a *url.URL that is not built by a composite literal inside the call (a package-level or otherwise shared URL): what jtp.Get reads of it would depend on other calls"

/* identifiers read or written in a subtree (selector names excluded) */
func wfIdents(n ast.Node, out map[string]bool) {
	ast.Inspect(n, func(m ast.Node) bool {
		switch x := m.(type) {
		case *ast.SelectorExpr:
			wfIdents(x.X, out)
			return false
		case *ast.Ident:
			out[x.Name] = true
		}
		return true
	})
}

/* variables of the enclosing scope assigned with `=` in a subtree */
func wfAssigned(n ast.Node, out *[]string) {
	ast.Inspect(n, func(m ast.Node) bool {
		if as, ok := m.(*ast.AssignStmt); ok && as.Tok == token.ASSIGN {
			for _, l := range as.Lhs {
				if id, ok := l.(*ast.Ident); ok && id.Name != "_" {
					dup := false
					for _, o := range *out {
						dup = dup || o == id.Name
					}
					if !dup {
						*out = append(*out, id.Name)
					}
				}
			}
		}
		return true
	})
}

/* ---------- expressions ---------- */

func (g *wf) strList(sc wfScope, e ast.Expr) string {
	cl, ok := e.(*ast.CompositeLit)
	if !ok || typeString(cl.Type) != "[]string" {
		t, typ := g.expr(sc, e)
		if typ == "strs" {
			return t
		}
		return g.fail("a []string is expected, found %s", exprString(e))
	}
	parts := []string{}
	for _, el := range cl.Elts {
		t, typ := g.expr(sc, el)
		if typ != "str" {
			t = g.fail("element %s of a []string literal is not a string", exprString(el))
		}
		parts = append(parts, t)
	}
	return "[" + strings.Join(parts, ", ") + "]"
}

func (g *wf) expr(sc wfScope, e ast.Expr) (string, string) {
	switch x := e.(type) {
	case *ast.ParenExpr:
		return g.expr(sc, x.X)
	case *ast.BasicLit:
		switch x.Kind {
		case token.STRING:
			return "(Go.str " + leanStr(unquote(x)) + ")", "str"
		case token.INT:
			if _, err := strconv.ParseUint(x.Value, 10, 63); err == nil {
				return x.Value, "int"
			}
		}
		return g.fail("literal %s", x.Value), ""
	case *ast.Ident:
		if x.Name == "true" || x.Name == "false" {
			return x.Name, "bool"
		}
		if t, ok := sc[x.Name]; ok {
			if t == "objerr" || t == "geterr" {
				return g.fail("the error %s used as a value", x.Name), ""
			}
			return x.Name, t
		}
		if _, ok := g.consts[x.Name]; ok {
			return x.Name, "int"
		}
		if t, ok := g.pkgVars[x.Name]; ok {
			if t == "*url.URL" || t == "url.URL" {
				return g.fail("%s: %s", x.Name, wfShared), "url"
			}
			return g.fail("package-level variable %s (shared state)", x.Name), ""
		}
		return g.fail("unknown identifier %s", x.Name), ""
	case *ast.CompositeLit:
		if typeString(x.Type) == "[]string" {
			return g.strList(sc, x), "strs"
		}
		if typeString(x.Type) == "url.URL" {
			return g.fail("a url.URL value that is not taken by address"), ""
		}
		return g.fail("composite literal of type %s", typeString(x.Type)), ""
	case *ast.UnaryExpr:
		if x.Op == token.NOT {
			t, typ := g.expr(sc, x.X)
			if typ != "bool" {
				return g.fail("! on a non-boolean %s", exprString(x.X)), "bool"
			}
			return "(!" + t + ")", "bool"
		}
		if x.Op == token.AND {
			if cl, ok := x.X.(*ast.CompositeLit); ok && typeString(cl.Type) == "url.URL" && g.imports["url"] == "net/url" {
				return g.urlLiteral(sc, cl), "url"
			}
			return g.fail("& of %s: %s", exprString(x.X), wfShared), "url"
		}
		return g.fail("unary operator %s", x.Op), ""
	case *ast.BinaryExpr:
		l, lt := g.expr(sc, x.X)
		r, rt := g.expr(sc, x.Y)
		switch x.Op {
		case token.ADD:
			if lt == "str" && rt == "str" {
				return "(" + l + " ++ " + r + ")", "str"
			}
		case token.EQL, token.NEQ:
			if lt == rt && (lt == "str" || lt == "int" || lt == "bool") {
				op := " = "
				if x.Op == token.NEQ {
					op = " ≠ "
				}
				return "decide (" + l + op + r + ")", "bool"
			}
		case token.LAND:
			if lt == "bool" && rt == "bool" {
				return "(" + l + " && " + r + ")", "bool"
			}
		case token.LOR:
			if lt == "bool" && rt == "bool" {
				return "(" + l + " || " + r + ")", "bool"
			}
		}
		return g.fail("operator %s on %s", x.Op, exprString(e)), ""
	case *ast.SelectorExpr:
		if id, ok := x.X.(*ast.Ident); ok {
			if sc[id.Name] == "url" {
				for _, f := range []string{"Scheme", "Opaque", "Host", "Path", "RawPath", "RawQuery", "Fragment", "RawFragment"} {
					if f == x.Sel.Name {
						return id.Name + "." + f, "str"
					}
				}
				return g.fail("field %s of a *url.URL", x.Sel.Name), ""
			}
			if t, ok := g.pkgVars[id.Name]; ok && (t == "*url.URL" || t == "url.URL") {
				return g.fail("%s.%s: %s", id.Name, x.Sel.Name, wfShared), ""
			}
		}
		return g.fail("selector %s", exprString(e)), ""
	case *ast.CallExpr:
		return g.call(sc, x)
	}
	return g.fail("expression %s", exprString(e)), ""
}

func (g *wf) urlLiteral(sc wfScope, cl *ast.CompositeLit) string {
	fields := []string{}
	seen := map[string]bool{}
	for _, el := range cl.Elts {
		kv, ok := el.(*ast.KeyValueExpr)
		if !ok {
			return g.fail("a url.URL literal without field names")
		}
		key, ok := kv.Key.(*ast.Ident)
		if !ok {
			return g.fail("field %s of a url.URL literal", exprString(kv.Key))
		}
		known := false
		for _, f := range []string{"Scheme", "Opaque", "Host", "Path", "RawPath", "RawQuery", "Fragment", "RawFragment"} {
			known = known || f == key.Name
		}
		if !known || seen[key.Name] {
			return g.fail("field %s of a url.URL literal (only the string fields are translated)", key.Name)
		}
		seen[key.Name] = true
		t, typ := g.expr(sc, kv.Value)
		if typ != "str" {
			t = g.fail("field %s of the url.URL literal is not a string: %s", key.Name, exprString(kv.Value))
		}
		fields = append(fields, key.Name+" := "+t)
	}
	return "(Go.Url.fresh U { " + strings.Join(fields, ", ") + " })"
}

func (g *wf) call(sc wfScope, x *ast.CallExpr) (string, string) {
	if id, ok := x.Fun.(*ast.Ident); ok && id.Name == "len" && len(x.Args) == 1 {
		t, typ := g.expr(sc, x.Args[0])
		if typ == "strs" || typ == "list" || typ == "str" {
			return "(Go.len " + t + ")", "int"
		}
		return g.fail("len of %s", exprString(x.Args[0])), "int"
	}
	if g.isPkgSel(x.Fun, "strings", "strings", "SplitN") && len(x.Args) == 3 {
		s, st := g.expr(sc, x.Args[0])
		sep, ok1 := x.Args[1].(*ast.BasicLit)
		n, ok2 := x.Args[2].(*ast.BasicLit)
		if st != "str" || !ok1 || !ok2 || sep.Kind != token.STRING || n.Kind != token.INT || utf8.RuneCountInString(unquote(sep)) != 1 {
			return g.fail("strings.SplitN other than (string, one-character literal, literal count): %s", exprString(x)), "strs"
		}
		r, _ := utf8.DecodeRuneInString(unquote(sep))
		if r < 0x21 || r > 0x7e || r == '\'' || r == '\\' {
			return g.fail("separator %q of strings.SplitN", unquote(sep)), "strs"
		}
		return "(Go.Strings.splitNChar " + s + " '" + string(r) + "' " + n.Value + ")", "strs"
	}
	if g.isPkgSel(x.Fun, "object", "servitor/object", "Object") && len(x.Args) == 1 {
		t, typ := g.expr(sc, x.Args[0])
		if typ != "map" {
			return g.fail("object.Object of %s", exprString(x.Args[0])), "map"
		}
		return t, "map"
	}
	if se, ok := x.Fun.(*ast.SelectorExpr); ok {
		/* (url.Values{…}).Encode() */
		recv := se.X
		if p, ok := recv.(*ast.ParenExpr); ok {
			recv = p.X
		}
		if cl, ok := recv.(*ast.CompositeLit); ok && typeString(cl.Type) == "url.Values" && g.imports["url"] == "net/url" {
			if se.Sel.Name != "Encode" || len(x.Args) != 0 {
				return g.fail("method %s of url.Values", se.Sel.Name), "str"
			}
			pairs := []string{}
			for _, el := range cl.Elts {
				kv, ok := el.(*ast.KeyValueExpr)
				if !ok {
					return g.fail("url.Values literal"), "str"
				}
				k, kt := g.expr(sc, kv.Key)
				if kt != "str" {
					k = g.fail("key %s of url.Values", exprString(kv.Key))
				}
				pairs = append(pairs, "("+k+", "+g.strList(sc, kv.Value)+")")
			}
			return "(Go.Url.valuesEncode [" + strings.Join(pairs, ", ") + "])", "str"
		}
		if id, ok := se.X.(*ast.Ident); ok {
			switch sc[id.Name] {
			case "mt":
				if se.Sel.Name == "Matches" && len(x.Args) == 1 {
					return "(Mime.MediaType.matchesAny " + id.Name + " " + g.strList(sc, x.Args[0]) + ")", "bool"
				}
			case "url":
				for _, m := range []string{"String", "Port", "Hostname", "RequestURI", "EscapedPath"} {
					if se.Sel.Name == m && len(x.Args) == 0 {
						return id.Name + "." + m, "str"
					}
				}
			}
			if t, ok := g.pkgVars[id.Name]; ok && (t == "*url.URL" || t == "url.URL") {
				return g.fail("%s.%s(): %s", id.Name, se.Sel.Name, wfShared), ""
			}
		}
	}
	return g.fail("call %s", exprString(x)), ""
}

/* an accessor of object.Object: o.GetX(k) → (term of type Obj.R T, T) */
func (g *wf) accessor(sc wfScope, e ast.Expr) (string, string, bool) {
	x, ok := e.(*ast.CallExpr)
	if !ok {
		return "", "", false
	}
	se, ok := x.Fun.(*ast.SelectorExpr)
	if !ok || len(x.Args) != 1 {
		return "", "", false
	}
	id, ok := se.X.(*ast.Ident)
	if !ok || sc[id.Name] != "map" {
		return "", "", false
	}
	want := map[string]string{"GetString": "str", "GetList": "list", "GetObject": "map", "GetAny": "any", "GetMediaType": "mt"}
	typ, ok := want[se.Sel.Name]
	if !ok {
		return "", "", false
	}
	/* the signature in object/object.go */
	found := false
	for _, d := range g.objFile.Decls {
		fd, ok := d.(*ast.FuncDecl)
		if !ok || fd.Name.Name != se.Sel.Name || fd.Recv == nil || len(fd.Recv.List) != 1 || typeString(fd.Recv.List[0].Type) != "Object" {
			continue
		}
		res := fd.Type.Results
		if res == nil || len(res.List) != 2 || typeString(res.List[1].Type) != "error" {
			continue
		}
		rt := typeString(res.List[0].Type)
		okT := map[string]string{"str": "string", "list": "[]any", "map": "Object", "any": "any", "mt": "*mime.MediaType"}
		if rt == okT[typ] && len(fd.Type.Params.List) == 1 && typeString(fd.Type.Params.List[0].Type) == "string" {
			found = true
		}
	}
	if !found {
		return g.fail("object.Object.%s with the expected signature was not found in object/object.go", se.Sel.Name), typ, true
	}
	k, kt := g.expr(sc, x.Args[0])
	if kt != "str" {
		k = g.fail("key %s", exprString(x.Args[0]))
	}
	return "(GenObject." + se.Sel.Name + " L " + id.Name + " " + k + ")", typ, true
}

/* ---------- statements ---------- */

func wfLeaves(list []ast.Stmt) bool {
	if len(list) == 0 {
		return false
	}
	switch s := list[len(list)-1].(type) {
	case *ast.ReturnStmt:
		return true
	case *ast.BranchStmt:
		return s.Label == nil && (s.Tok == token.CONTINUE || s.Tok == token.BREAK)
	case *ast.IfStmt:
		if s.Else == nil || !wfLeaves(s.Body.List) {
			return false
		}
		switch el := s.Else.(type) {
		case *ast.BlockStmt:
			return wfLeaves(el.List)
		case *ast.IfStmt:
			return wfLeaves([]ast.Stmt{el})
		}
	}
	return false
}

func wfIsErrNotNil(e ast.Expr, name string) bool {
	b, ok := e.(*ast.BinaryExpr)
	if !ok || b.Op != token.NEQ {
		return false
	}
	l, ok1 := b.X.(*ast.Ident)
	r, ok2 := b.Y.(*ast.Ident)
	return ok1 && ok2 && l.Name == name && r.Name == "nil"
}

func (g *wf) isErrorsIsAbsent(e ast.Expr, name string) bool {
	c, ok := e.(*ast.CallExpr)
	if !ok || !g.isPkgSel(c.Fun, "errors", "errors", "Is") || len(c.Args) != 2 {
		return false
	}
	id, ok := c.Args[0].(*ast.Ident)
	return ok && id.Name == name && g.isPkgSel(c.Args[1], "object", "servitor/object", "ErrKeyNotPresent")
}

/* the error arm after `x, err := f(…)`: the `if` that follows, with err of kind `kind` in scope */
func (g *wf) errArm(ind int, next ast.Stmt, errName, kind string, sc wfScope, k wfCont) {
	ifs, ok := next.(*ast.IfStmt)
	if !ok || ifs.Init != nil {
		g.line(ind, g.fail("%s is not tested right after the call that sets it", errName))
		return
	}
	inner := sc.clone()
	inner[errName] = kind
	noEnd := wfCont{end: func(ind int, sc wfScope) {
		g.line(ind, g.fail("the body of a test of %s falls through", errName))
	}, cont: k.cont, brk: k.brk}
	if wfIsErrNotNil(ifs.Cond, errName) && ifs.Else == nil {
		g.stmts(ind, ifs.Body.List, inner, noEnd)
		return
	}
	if g.isErrorsIsAbsent(ifs.Cond, errName) && kind == "objerr" {
		if el, ok := ifs.Else.(*ast.IfStmt); ok && el.Init == nil && el.Else == nil && wfIsErrNotNil(el.Cond, errName) {
			g.line(ind, "if decide ("+errName+" = Obj.Err.absent) then (")
			g.stmts(ind+1, ifs.Body.List, inner.clone(), noEnd)
			g.line(ind+1, ") else (")
			g.stmts(ind+1, el.Body.List, inner.clone(), noEnd)
			g.line(ind+1, ")")
			return
		}
	}
	g.line(ind, g.fail("the test of %s after the call is neither `if %s != nil {…}` nor `if errors.Is(%s, object.ErrKeyNotPresent) {…} else if %s != nil {…}`", errName, errName, errName, errName))
}

func (g *wf) errValue(sc wfScope, e ast.Expr) string {
	if id, ok := e.(*ast.Ident); ok {
		switch sc[id.Name] {
		case "objerr":
			return "(.obj " + id.Name + ")"
		case "geterr":
			return ".get"
		}
		return g.fail("error value %s", id.Name)
	}
	if c, ok := e.(*ast.CallExpr); ok {
		if g.isPkgSel(c.Fun, "errors", "errors", "New") && len(c.Args) == 1 {
			if lit, ok := c.Args[0].(*ast.BasicLit); ok && lit.Kind == token.STRING {
				return "(.new (Go.str " + leanStr(unquote(lit)) + "))"
			}
		}
		if g.isPkgSel(c.Fun, "fmt", "fmt", "Errorf") && len(c.Args) >= 1 {
			if lit, ok := c.Args[0].(*ast.BasicLit); ok && lit.Kind == token.STRING && !strings.Contains(unquote(lit), "%w") {
				return "(.fmt (Go.str " + leanStr(unquote(lit)) + "))"
			}
		}
	}
	return g.fail("error value %s", exprString(e))
}

func (g *wf) ret(ind int, s *ast.ReturnStmt, sc wfScope) {
	if len(s.Results) != 2 {
		g.line(ind, g.fail("return with %d values", len(s.Results)))
		return
	}
	if id, ok := s.Results[1].(*ast.Ident); ok && id.Name == "nil" {
		t, typ := g.expr(sc, s.Results[0])
		if typ != "str" {
			t = g.fail("the value returned is not a string: %s", exprString(s.Results[0]))
		}
		g.line(ind, ".ok "+t)
		return
	}
	if lit, ok := s.Results[0].(*ast.BasicLit); !ok || lit.Kind != token.STRING || unquote(lit) != "" {
		g.line(ind, g.fail("an error is returned together with a value other than \"\": %s", exprString(s.Results[0])))
		return
	}
	g.line(ind, ".error "+g.errValue(sc, s.Results[1]))
}

func (g *wf) cond(sc wfScope, e ast.Expr) string {
	t, typ := g.expr(sc, e)
	if typ != "bool" {
		return g.fail("condition %s", exprString(e))
	}
	return t
}

func (g *wf) ifStmt(ind int, s *ast.IfStmt, rest []ast.Stmt, sc wfScope, k wfCont) {
	if s.Init != nil {
		g.line(ind, g.fail("if with an init statement"))
		return
	}
	c := g.cond(sc, s.Cond)
	var elseList []ast.Stmt
	switch el := s.Else.(type) {
	case nil:
	case *ast.BlockStmt:
		elseList = el.List
	case *ast.IfStmt:
		elseList = []ast.Stmt{el}
	}
	thenLeaves := wfLeaves(s.Body.List)
	if s.Else == nil {
		if !thenLeaves && len(rest) > 0 {
			g.line(ind, g.fail("an if whose body falls through to the statements after it"))
			return
		}
		g.line(ind, "if "+c+" then (")
		g.stmts(ind+1, s.Body.List, sc.clone(), k)
		g.line(ind+1, ") else (")
		g.stmts(ind+1, rest, sc, k)
		g.line(ind+1, ")")
		return
	}
	if len(rest) > 0 && !(thenLeaves && wfLeaves(elseList)) {
		g.line(ind, g.fail("an if/else with a branch that falls through to the statements after it"))
		return
	}
	g.line(ind, "if "+c+" then (")
	g.stmts(ind+1, s.Body.List, sc.clone(), k)
	g.line(ind+1, ") else (")
	g.stmts(ind+1, elseList, sc.clone(), k)
	g.line(ind+1, ")")
}

func (g *wf) stmts(ind int, list []ast.Stmt, sc wfScope, k wfCont) {
	for i, st := range list {
		rest := list[i+1:]
		switch s := st.(type) {
		case *ast.DeclStmt:
			gd, ok := s.Decl.(*ast.GenDecl)
			if !ok || gd.Tok != token.VAR {
				g.line(ind, g.fail("declaration"))
				return
			}
			for _, sp := range gd.Specs {
				vs := sp.(*ast.ValueSpec)
				if len(vs.Values) != 0 || vs.Type == nil {
					g.line(ind, g.fail("var with an initial value"))
					return
				}
				t := g.typeOf(vs.Type)
				z, ok := wfZero(t)
				if !ok {
					g.line(ind, g.fail("var of type %s", typeString(vs.Type)))
					return
				}
				for _, n := range vs.Names {
					g.line(ind, "let "+n.Name+" : "+wfLeanType(t)+" := "+z)
					sc[n.Name] = t
				}
			}
		case *ast.AssignStmt:
			if done := g.assign(ind, s, rest, sc, k); done {
				return
			}
		case *ast.IfStmt:
			g.ifStmt(ind, s, rest, sc, k)
			return
		case *ast.ReturnStmt:
			g.ret(ind, s, sc)
			return
		case *ast.BranchStmt:
			if s.Label == nil && s.Tok == token.CONTINUE && k.cont != "" {
				g.line(ind, k.cont)
			} else if s.Label == nil && s.Tok == token.BREAK && k.brk != "" {
				g.line(ind, k.brk)
			} else {
				g.line(ind, g.fail("%s", s.Tok))
			}
			return
		case *ast.RangeStmt:
			g.rangeStmt(ind, s, rest, sc, k)
			return
		default:
			g.line(ind, g.fail("statement %T", st))
			return
		}
	}
	k.end(ind, sc)
}

/* returns true when it has translated the rest of the list itself */
func (g *wf) assign(ind int, s *ast.AssignStmt, rest []ast.Stmt, sc wfScope, k wfCont) bool {
	if s.Tok != token.DEFINE && s.Tok != token.ASSIGN {
		g.line(ind, g.fail("assignment operator %s", s.Tok))
		return true
	}
	names := []string{}
	for _, l := range s.Lhs {
		id, ok := l.(*ast.Ident)
		if !ok {
			if se, ok := l.(*ast.SelectorExpr); ok {
				g.line(ind, g.fail("assignment to %s: a field of a URL (or of any other shared value) written in place; %s", exprString(se), wfShared))
			} else {
				g.line(ind, g.fail("assignment to %s", exprString(l)))
			}
			return true
		}
		names = append(names, id.Name)
	}
	bind := func(name, typ string) bool {
		if name == "_" {
			return true
		}
		if old, ok := sc[name]; ok && s.Tok == token.ASSIGN && old != typ {
			g.line(ind, g.fail("%s changes its type", name))
			return false
		}
		if _, ok := sc[name]; !ok && s.Tok == token.ASSIGN {
			g.line(ind, g.fail("assignment to %s, which is not a local variable (shared state)", name))
			return false
		}
		sc[name] = typ
		return true
	}
	if len(names) == 1 && len(s.Rhs) == 1 {
		if ix, ok := s.Rhs[0].(*ast.IndexExpr); ok {
			xs, xt := g.expr(sc, ix.X)
			i, it := g.expr(sc, ix.Index)
			if xt != "strs" || it != "int" {
				g.line(ind, g.fail("index expression %s", exprString(ix)))
				return true
			}
			if !bind(names[0], "str") {
				return true
			}
			g.line(ind, "match Go.index "+xs+" "+i+" with")
			g.line(ind, "| .error p_ => .error (.panic p_)")
			g.line(ind, "| .ok "+names[0]+" =>")
			g.stmts(ind, rest, sc, k)
			return true
		}
		t, typ := g.expr(sc, s.Rhs[0])
		if typ == "" {
			g.line(ind, t)
			return true
		}
		if !bind(names[0], typ) {
			return true
		}
		g.line(ind, "let "+names[0]+" := "+t)
		return false
	}
	if len(names) == 2 && len(s.Rhs) == 1 {
		if ta, ok := s.Rhs[0].(*ast.TypeAssertExpr); ok && ta.Type != nil {
			x, xt := g.expr(sc, ta.X)
			fn := map[string]string{"map[string]any": "Go.assert_map", "[]any": "Go.assert_list", "string": "Go.assert_string"}[typeString(ta.Type)]
			tt := map[string]string{"map[string]any": "map", "[]any": "list", "string": "str"}[typeString(ta.Type)]
			if xt != "any" || fn == "" {
				g.line(ind, g.fail("type assertion %s", exprString(ta)))
				return true
			}
			if !bind(names[0], tt) || !bind(names[1], "bool") {
				return true
			}
			g.line(ind, "let ("+names[0]+", "+names[1]+") := "+fn+" "+x)
			return false
		}
		if call, typ, ok := g.accessor(sc, s.Rhs[0]); ok {
			if len(rest) == 0 || names[1] == "_" {
				g.line(ind, g.fail("the error of %s is not tested", exprString(s.Rhs[0])))
				return true
			}
			g.line(ind, "match "+call+" with")
			g.line(ind, "| .error "+names[1]+" =>")
			g.errArm(ind+1, rest[0], names[1], "objerr", sc, k)
			delete(sc, names[1])
			v := names[0]
			if !bind(v, typ) {
				return true
			}
			g.line(ind, "| .ok "+v+" =>")
			g.stmts(ind, rest[1:], sc, k)
			return true
		}
	}
	g.line(ind, g.fail("assignment %s := %s", strings.Join(names, ", "), exprString(s.Rhs[0])))
	return true
}

func (g *wf) rangeStmt(ind int, s *ast.RangeStmt, rest []ast.Stmt, sc wfScope, k wfCont) {
	key, _ := s.Key.(*ast.Ident)
	val, _ := s.Value.(*ast.Ident)
	if key == nil || key.Name != "_" || val == nil || s.Tok != token.DEFINE {
		g.line(ind, g.fail("a loop other than `for _, x := range xs`"))
		return
	}
	xs, xt := g.expr(sc, s.X)
	elemT := map[string]string{"list": "any", "strs": "str"}[xt]
	if elemT == "" {
		g.line(ind, g.fail("range over %s", exprString(s.X)))
		return
	}
	state := []string{}
	wfAssigned(s.Body, &state)
	used := map[string]bool{}
	wfIdents(s.Body, used)
	for name := range sc {
		isState := false
		for _, st := range state {
			isState = isState || st == name
		}
		if used[name] && !isState {
			g.line(ind, g.fail("the loop body reads %s, a variable of the enclosing function it does not assign", name))
			return
		}
	}
	if len(state) == 0 {
		g.line(ind, g.fail("a loop that assigns no variable of the enclosing function"))
		return
	}
	types := []string{}
	for _, st := range state {
		t, ok := sc[st]
		if _, z := wfZero(t); !ok || !z {
			g.line(ind, g.fail("the loop assigns %s, which is not a local variable of a translated type", st))
			return
		}
		types = append(types, wfLeanType(t))
	}
	*g.nloops++
	name := fmt.Sprintf("%s_loop%d", g.fn, *g.nloops)
	tuple := strings.Join(state, ", ")
	if len(state) > 1 {
		tuple = "(" + tuple + ")"
	}
	/* the loop function */
	lg := &wf{err: g.err, imports: g.imports, consts: g.consts, pkgVars: g.pkgVars, objFile: g.objFile, fn: g.fn, loops: g.loops, nloops: g.nloops}
	lg.line(0, fmt.Sprintf("/-- `for _, %s := range %s` in `func %s`, over the variables the body assigns -/", val.Name, exprString(s.X), g.fn))
	lg.line(0, "def "+name+" (L : Obj.Libs Time Url) : "+wfLeanType(xt)+" → "+strings.Join(types, " → ")+" → Except Err ("+strings.Join(types, " × ")+")")
	lg.line(1, "| [], "+strings.Join(state, ", ")+" => .ok "+tuple)
	lg.line(1, "| "+val.Name+" :: rest_, "+strings.Join(state, ", ")+" =>")
	inner := wfScope{}
	for _, st := range state {
		inner[st] = sc[st]
	}
	inner[val.Name] = elemT
	again := name + " L rest_ " + strings.Join(state, " ")
	lg.stmts(2, s.Body.List, inner, wfCont{
		end:  func(ind int, sc wfScope) { lg.line(ind, again) },
		cont: again,
		brk:  ".ok " + tuple,
	})
	*g.loops = append(*g.loops, lg.b.String())
	/* its use */
	g.line(ind, "match "+name+" L "+xs+" "+strings.Join(state, " ")+" with")
	g.line(ind, "| .error e_ => .error e_")
	g.line(ind, "| .ok "+tuple+" =>")
	g.stmts(ind, rest, sc, k)
}

/* ---------- the call of jtp.Get ---------- */

/* is `st` the statement `a, b, err := jtp.Get(…)`? */
func (g *wf) getCall(st ast.Stmt) (*ast.AssignStmt, *ast.CallExpr) {
	as, ok := st.(*ast.AssignStmt)
	if !ok || len(as.Rhs) != 1 {
		return nil, nil
	}
	c, ok := as.Rhs[0].(*ast.CallExpr)
	if !ok || !g.isPkgSel(c.Fun, "jtp", "servitor/jtp", "Get") {
		return nil, nil
	}
	return as, c
}

func (g *wf) request(sc wfScope, c *ast.CallExpr) string {
	if len(c.Args) != 4 {
		return g.fail("jtp.Get with %d arguments", len(c.Args))
	}
	link, lt := g.expr(sc, c.Args[0])
	if lt != "url" {
		link = g.fail("the link handed to jtp.Get: %s", exprString(c.Args[0]))
	}
	accept, at := g.expr(sc, c.Args[1])
	if at != "str" {
		accept = g.fail("the accept string handed to jtp.Get: %s", exprString(c.Args[1]))
	}
	tol := g.strList(sc, c.Args[2])
	max, mt := g.expr(sc, c.Args[3])
	if mt != "int" {
		max = g.fail("the redirect budget handed to jtp.Get: %s", exprString(c.Args[3]))
	}
	return "{ link := " + link + ", accept := " + accept + ", tolerated := " + tol + ", maxRedirects := " + max + " }"
}

func wfCountGets(g *wf, n ast.Node) int {
	count := 0
	ast.Inspect(n, func(m ast.Node) bool {
		if c, ok := m.(*ast.CallExpr); ok && g.isPkgSel(c.Fun, "jtp", "servitor/jtp", "Get") {
			count++
		}
		return true
	})
	return count
}

func (g *wf) resolve(fd *ast.FuncDecl) {
	p := fd.Type.Params
	r := fd.Type.Results
	if p == nil || len(p.List) != 1 || len(p.List[0].Names) != 1 || typeString(p.List[0].Type) != "string" ||
		r == nil || len(r.List) != 2 || typeString(r.List[0].Type) != "string" || typeString(r.List[1].Type) != "error" || len(r.List[0].Names) != 0 {
		g.line(0, "def "+fd.Name.Name+" := "+g.fail("the signature of %s is not (string) (string, error)", fd.Name.Name))
		return
	}
	param := p.List[0].Names[0].Name
	at := -1
	for i, st := range fd.Body.List {
		if as, _ := g.getCall(st); as != nil {
			at = i
			break
		}
	}
	if at < 0 || wfCountGets(g, fd.Body) != 1 || at+1 >= len(fd.Body.List) {
		g.line(0, "def "+fd.Name.Name+" := "+g.fail("%s does not call jtp.Get exactly once, as a statement `a, b, err := jtp.Get(…)` of its body followed by a test of the error", fd.Name.Name))
		return
	}
	as, call := g.getCall(fd.Body.List[at])
	if len(as.Lhs) != 3 || as.Tok != token.DEFINE {
		g.line(0, "def "+fd.Name.Name+" := "+g.fail("the results of jtp.Get are not bound by `a, b, err :=`"))
		return
	}
	bound := []string{}
	for _, l := range as.Lhs {
		id, ok := l.(*ast.Ident)
		if !ok {
			g.line(0, "def "+fd.Name.Name+" := "+g.fail("the results of jtp.Get are not bound to identifiers"))
			return
		}
		bound = append(bound, id.Name)
	}
	name := fd.Name.Name

	/* before the call */
	var front strings.Builder
	sc := wfScope{param: "str"}
	g.b.Reset()
	g.line(0, fmt.Sprintf("/-- `func %s`: the statements before `jtp.Get` is called, and what it is called with -/", name))
	g.line(0, "def "+name+"_request (U : Go.Url.Lib) ("+param+" : Str) : Except Err Request :=")
	var scAt wfScope
	g.stmts(1, fd.Body.List[:at], sc, wfCont{end: func(ind int, sc wfScope) {
		g.line(ind, ".ok "+g.request(sc, call))
		scAt = sc.clone()
	}})
	front.WriteString(g.b.String())
	g.b.Reset()

	/* after it */
	tail := fd.Body.List[at+1:]
	if scAt != nil {
		used := map[string]bool{}
		for _, st := range tail {
			wfIdents(st, used)
		}
		for v := range scAt {
			isBound := false
			for _, b := range bound {
				isBound = isBound || b == v
			}
			if used[v] && !isBound {
				g.line(0, "-- "+g.fail("the statements after jtp.Get read %s, which was set before it", v))
			}
		}
	}
	g.line(0, fmt.Sprintf("/-- `func %s`: the statements after `%s := jtp.Get(…)`, given what it returned -/", name, strings.Join(bound, ", ")))
	g.line(0, "def "+name+"_answer (L : Obj.Libs Time Url) (got_ : Except Unit (List (Str × JVal) × Src)) : Except Err Str :=")
	g.line(1, "match got_ with")
	g.line(1, "| .error _ =>")
	errName := bound[2]
	if errName == "_" {
		g.line(2, g.fail("the error of jtp.Get is dropped"))
	} else {
		g.errArm(2, tail[0], errName, "geterr", wfScope{}, wfCont{})
	}
	pat := func(n string) string {
		if n == "_" {
			return "_"
		}
		return n
	}
	g.line(1, "| .ok ("+pat(bound[0])+", "+pat(bound[1])+") =>")
	after := wfScope{}
	if bound[0] != "_" {
		after[bound[0]] = "map"
	}
	if bound[1] != "_" {
		after[bound[1]] = "src"
	}
	g.stmts(1, tail[1:], after, wfCont{end: func(ind int, sc wfScope) {
		g.line(ind, g.fail("%s falls off its end", name))
	}})
	answer := g.b.String()
	g.b.Reset()

	g.b.WriteString(front.String() + "\n")
	for _, l := range *g.loops {
		g.b.WriteString(l + "\n")
	}
	g.b.WriteString(answer + "\n")
	g.line(0, fmt.Sprintf("/-- `func %s`: `jtp.Get` is called once, with the request above -/", name))
	g.line(0, "def "+name+" (L : Obj.Libs Time Url) (U : Go.Url.Lib) (X : Ext Src) ("+param+" : Str) : Except Err Str :=")
	g.line(1, "match "+name+"_request U "+param+" with")
	g.line(1, "| .error e_ => .error e_")
	g.line(1, "| .ok q_ => "+name+"_answer L (X.jtpGet q_.link q_.accept q_.tolerated q_.maxRedirects)")
}

/* ---------- FetchURL ---------- */

func (g *wf) fetchURL(fd *ast.FuncDecl, file *ast.File) {
	name := fd.Name.Name
	bad := func(format string, a ...any) {
		g.line(0, "def "+name+" := "+g.fail(format, a...))
	}
	p := fd.Type.Params
	r := fd.Type.Results
	if p == nil || len(p.List) != 1 || len(p.List[0].Names) != 1 || g.typeOf(p.List[0].Type) != "url" ||
		r == nil || len(r.List) != 3 || g.typeOf(r.List[0].Type) != "map" || g.typeOf(r.List[1].Type) != "url" || typeString(r.List[2].Type) != "error" {
		bad("the signature of %s is not (*url.URL) (object.Object, *url.URL, error)", name)
		return
	}
	param := p.List[0].Names[0].Name
	sc := wfScope{param: "url"}
	body := fd.Body.List
	if wfCountGets(g, fd.Body) != 1 {
		bad("%s does not call jtp.Get exactly once", name)
		return
	}
	emit := func(key string, shared, forgets bool, call *ast.CallExpr, scCall wfScope) {
		g.line(0, fmt.Sprintf("/-- `func %s`: what `jtp.Get` is called with -/", name))
		g.line(0, "def "+name+"_request ("+param+" : URL) : Request :=")
		g.line(1, g.request(scCall, call))
		g.line(0, "")
		g.line(0, fmt.Sprintf("/-- `func %s`: whether the call goes through `singleflight.Group.Do`, and whether the key is forgotten afterwards -/", name))
		g.line(0, fmt.Sprintf("def %s_shared : Bool := %v", name, shared))
		g.line(0, fmt.Sprintf("def %s_forgets : Bool := %v", name, forgets))
		g.line(0, "")
		if shared {
			g.line(0, fmt.Sprintf("/-- `func %s`: the key under which callers share one flight -/", name))
			g.line(0, "def "+name+"_key ("+param+" : URL) : Str :=")
			g.line(1, key)
			g.line(0, "")
		}
		g.line(0, fmt.Sprintf("/-- `func %s`: the three results are those of the one call of `jtp.Get` -/", name))
		g.line(0, "def "+name+" (X : Ext Src) ("+param+" : URL) : Except Unit (List (Str × JVal) × Src) :=")
		get := "X.jtpGet (" + name + "_request " + param + ").link (" + name + "_request " + param + ").accept (" + name + "_request " + param + ").tolerated (" + name + "_request " + param + ").maxRedirects"
		if shared {
			g.line(1, "Go.Singleflight.do ("+name+"_key "+param+") (fun _ => "+get+")")
		} else {
			g.line(1, get)
		}
	}
	/* the direct form */
	if len(body) == 1 {
		if rs, ok := body[0].(*ast.ReturnStmt); ok && len(rs.Results) == 1 {
			if c, ok := rs.Results[0].(*ast.CallExpr); ok && g.isPkgSel(c.Fun, "jtp", "servitor/jtp", "Get") {
				emit("", false, false, c, sc)
				return
			}
		}
	}
	/* k := e ; b, _, _ := G.Do(k, func…) ; [G.Forget(k)] ; return b.(bundle).f… */
	if len(body) < 3 || len(body) > 4 {
		bad("%s is neither `return jtp.Get(…)` nor key / Do / [Forget] / return", name)
		return
	}
	ka, ok := body[0].(*ast.AssignStmt)
	if !ok || ka.Tok != token.DEFINE || len(ka.Lhs) != 1 || len(ka.Rhs) != 1 {
		bad("the first statement of %s does not define the key", name)
		return
	}
	keyName := exprString(ka.Lhs[0])
	keyTerm, kt := g.expr(sc, ka.Rhs[0])
	if kt != "str" {
		bad("the key %s is not a string over the parameter", exprString(ka.Rhs[0]))
		return
	}
	da, ok := body[1].(*ast.AssignStmt)
	if !ok || da.Tok != token.DEFINE || len(da.Lhs) != 3 || len(da.Rhs) != 1 || exprString(da.Lhs[1]) != "_" || exprString(da.Lhs[2]) != "_" {
		bad("the second statement of %s is not `b, _, _ := G.Do(…)`", name)
		return
	}
	resName := exprString(da.Lhs[0])
	dc, ok := da.Rhs[0].(*ast.CallExpr)
	var grp string
	if ok {
		if se, ok2 := dc.Fun.(*ast.SelectorExpr); ok2 && se.Sel.Name == "Do" {
			grp = exprString(se.X)
		}
	}
	if grp == "" || g.pkgVars[grp] != "singleflight.Group" || g.imports["singleflight"] != "golang.org/x/sync/singleflight" || len(dc.Args) != 2 || exprString(dc.Args[0]) != keyName {
		bad("the second statement of %s is not a call of Do(%s, …) on a package-level singleflight.Group", name, keyName)
		return
	}
	fl, ok := dc.Args[1].(*ast.FuncLit)
	if !ok || fl.Type.Params.NumFields() != 0 || len(fl.Body.List) != 2 {
		bad("the function handed to Do is not `func() (any, error) { j, s, e := jtp.Get(…); return bundle{…}, nil }`")
		return
	}
	ga, call := g.getCall(fl.Body.List[0])
	if ga == nil || ga.Tok != token.DEFINE || len(ga.Lhs) != 3 {
		bad("the function handed to Do does not start with `j, s, e := jtp.Get(…)`")
		return
	}
	got := []string{exprString(ga.Lhs[0]), exprString(ga.Lhs[1]), exprString(ga.Lhs[2])}
	frs, ok := fl.Body.List[1].(*ast.ReturnStmt)
	if !ok || len(frs.Results) != 2 || exprString(frs.Results[1]) != "nil" {
		bad("the function handed to Do does not end with `return bundle{…}, nil`")
		return
	}
	bl, ok := frs.Results[0].(*ast.CompositeLit)
	if !ok || len(bl.Elts) != 3 {
		bad("the function handed to Do does not return a struct of the three results")
		return
	}
	bundleT := typeString(bl.Type)
	fieldOf := map[string]string{} // result of jtp.Get → field of the bundle
	for _, el := range bl.Elts {
		kv, ok := el.(*ast.KeyValueExpr)
		if !ok {
			bad("the bundle is filled without field names")
			return
		}
		fieldOf[exprString(kv.Value)] = exprString(kv.Key)
	}
	/* the struct type must be declared in the file with those fields */
	declared := false
	for _, d := range file.Decls {
		if gd, ok := d.(*ast.GenDecl); ok && gd.Tok == token.TYPE {
			for _, sp := range gd.Specs {
				ts := sp.(*ast.TypeSpec)
				if _, ok := ts.Type.(*ast.StructType); ok && ts.Name.Name == bundleT {
					declared = true
				}
			}
		}
	}
	if !declared || len(fieldOf) != 3 {
		bad("the struct %s the results travel in", bundleT)
		return
	}
	i := 2
	forgets := false
	if len(body) == 4 {
		es, ok := body[2].(*ast.ExprStmt)
		var fc *ast.CallExpr
		if ok {
			fc, _ = es.X.(*ast.CallExpr)
		}
		if fc == nil || exprString(fc.Fun) != grp+".Forget" || len(fc.Args) != 1 || exprString(fc.Args[0]) != keyName {
			bad("the third statement of %s is not %s.Forget(%s)", name, grp, keyName)
			return
		}
		forgets = true
		i = 3
	}
	rs, ok := body[i].(*ast.ReturnStmt)
	if !ok || len(rs.Results) != 3 {
		bad("%s does not end with a return of three values", name)
		return
	}
	for j, res := range rs.Results {
		want := resName + ".(" + bundleT + ")." + fieldOf[got[j]]
		se, ok := res.(*ast.SelectorExpr)
		have := ""
		if ok {
			if ta, ok := se.X.(*ast.TypeAssertExpr); ok && ta.Type != nil {
				have = exprString(ta.X) + ".(" + typeString(ta.Type) + ")." + se.Sel.Name
			}
		}
		if fieldOf[got[j]] == "" || have != want {
			bad("result %d of %s is %s, not the corresponding result of jtp.Get (%s)", j+1, name, exprString(res), want)
			return
		}
	}
	scCall := sc.clone()
	scCall[keyName] = "str"
	emit("let "+keyName+" := "+keyTerm+"\n  "+keyName, true, forgets, call, scCall)
}

/* ---------- the unit ---------- */

func translateWebfinger(root string) (string, []string) {
	file := parseFile(root, "client/client.go")
	jtpFile := parseFile(root, "jtp/jtp.go")
	errs := []string{}
	loops := []string{}
	nloops := 0
	g := &wf{err: &errs, imports: map[string]string{}, consts: map[string]string{}, pkgVars: map[string]string{},
		objFile: parseFile(root, "object/object.go"), loops: &loops, nloops: &nloops}
	for _, im := range file.Imports {
		path, _ := strconv.Unquote(im.Path.Value)
		name := path[strings.LastIndex(path, "/")+1:]
		if im.Name != nil {
			name = im.Name.Name
		}
		g.imports[name] = path
	}
	var out strings.Builder
	out.WriteString("set_option linter.unusedVariables false\n\nnamespace GenWebfinger\nopen Go.Net (URL)\n\nvariable {Time Url Src : Type}\n\n")
	out.WriteString("/-- The world outside client/client.go, as far as the translated functions call it:\n    `jtp.Get(link, accept, tolerated, maxRedirects)`: the decoded document and the URL it finally\n    came from, or an error. -/\n")
	out.WriteString("structure Ext (Src : Type) where\n  jtpGet : URL → Str → List Str → Nat → Except Unit (List (Str × JVal) × Src)\n\n")
	out.WriteString("/-- The four arguments of a call of `jtp.Get`. -/\nstructure Request where\n  link : URL\n  accept : Str\n  tolerated : List Str\n  maxRedirects : Nat\n\n")
	out.WriteString("/-- The error a translated function returns: `errors.New(text)`, `fmt.Errorf(format, …)`, the error\n    `jtp.Get` returned, the error an accessor of `object.Object` returned; `panic`: an index out of range. -/\n")
	out.WriteString("inductive Err where\n  | new (text : Str)\n  | fmt (format : Str)\n  | get\n  | obj (e : Obj.Err)\n  | panic (p : Panic)\n\n")

	/* the signature of jtp.Get */
	sigOK := false
	for _, d := range jtpFile.Decls {
		if fd, ok := d.(*ast.FuncDecl); ok && fd.Recv == nil && fd.Name.Name == "Get" {
			ts := []string{}
			for _, f := range fd.Type.Params.List {
				for range f.Names {
					ts = append(ts, typeString(f.Type))
				}
			}
			rs := []string{}
			if fd.Type.Results != nil {
				for _, f := range fd.Type.Results.List {
					rs = append(rs, typeString(f.Type))
				}
			}
			sigOK = strings.Join(ts, ",") == "*url.URL,string,[]string,uint" && strings.Join(rs, ",") == "map[string]any,*url.URL,error"
		}
	}
	if !sigOK {
		out.WriteString("def Get_signature := " + g.fail("jtp.Get is not func(*url.URL, string, []string, uint) (map[string]any, *url.URL, error)") + "\n\n")
	}

	/* package-level constants and variables */
	for _, d := range file.Decls {
		gd, ok := d.(*ast.GenDecl)
		if !ok {
			continue
		}
		for _, sp := range gd.Specs {
			vs, ok := sp.(*ast.ValueSpec)
			if !ok {
				continue
			}
			for i, n := range vs.Names {
				if gd.Tok == token.CONST {
					if i < len(vs.Values) {
						if lit, ok := vs.Values[i].(*ast.BasicLit); ok && lit.Kind == token.INT && vs.Type == nil {
							if _, err := strconv.ParseUint(lit.Value, 10, 63); err == nil {
								g.consts[n.Name] = lit.Value
								out.WriteString(fmt.Sprintf("/-- `const %s` -/\ndef %s : Nat := %s\n\n", n.Name, n.Name, lit.Value))
							}
						}
					}
				} else if gd.Tok == token.VAR {
					t := ""
					if vs.Type != nil {
						t = typeString(vs.Type)
					} else if i < len(vs.Values) {
						switch v := vs.Values[i].(type) {
						case *ast.UnaryExpr:
							if cl, ok := v.X.(*ast.CompositeLit); ok && v.Op == token.AND {
								t = "*" + typeString(cl.Type)
							}
						case *ast.CompositeLit:
							t = typeString(v.Type)
						}
					}
					if t == "" {
						t = "?"
					}
					g.pkgVars[n.Name] = t
				}
			}
		}
	}

	for _, want := range []string{"ResolveWebfinger", "FetchURL"} {
		var fd *ast.FuncDecl
		for _, d := range file.Decls {
			if f, ok := d.(*ast.FuncDecl); ok && f.Recv == nil && f.Name.Name == want && f.Body != nil {
				fd = f
			}
		}
		if fd == nil {
			out.WriteString("def " + want + " := " + g.fail("func %s was not found in client/client.go", want) + "\n\n")
			continue
		}
		g.b.Reset()
		g.fn = want
		*g.loops = nil
		if want == "ResolveWebfinger" {
			g.resolve(fd)
		} else {
			g.fetchURL(fd, file)
		}
		out.WriteString(g.b.String() + "\n")
	}
	out.WriteString("end GenWebfinger\n")
	return out.String(), errs
}
