package main

/*
go2lean, thirteenth front end: `FetchUnknown` of client/client.go (properties C02, C09), translated
statement by statement into a `do` block in `Except Panic` (`lean/Generated/GoClient.lean`,
namespace `GenClient`).  Every identifier, operator, literal, field name and call of the output
comes from the AST; nothing about the function is known beforehand except the signatures of the
library functions it may call.

  values       `any` = `JVal`; `object.Object` / `map[string]any` = `List (Str × JVal)` (nil = `[]`);
               `*url.URL` = `Option Url` (nil = `none`); `error` = `Option Obj.Err` (nil = `none`;
               a fresh error is `.wrong`, `errors.Is(err, object.ErrKeyNotPresent)` tests `.absent`);
               the function returns the triple Go returns
  pointers     every read through a `*url.URL` (`p.Host`, `p.ResolveReference(q)` for both `p` and
               `q`, a pointer handed to `FetchURL`) is `(← Go.deref p)`: a panic branch, which
               `Props/Gen02.lean` proves unreachable.  `&&` / `||` whose operands contain such a
               read become `Go.andM` / `Go.orM` (the right operand is not evaluated when the left
               one decides), so a guard `id != nil && … id.Host …` guards in Lean as it does in Go
  statements   `var x T`; `switch v := x.(type)` over an `any` (cases `string`, `map[string]any`,
               `[]any`, `float64`, `bool`, `default`) = `match`; `a, b := f(…)`, `a, b, c = f(…)`,
               `x = e`, `x := e`; `if` / `else if` / `else`; `return a, b, c`
  calls        url.Parse (`L.parseUrl`), FetchURL (parameter `X.FetchURL`; its signature is read
               from the same file), `o.GetURL(k)` (the translated accessor `GenObject.GetURL`; its
               signature is read from object/object.go), `p.ResolveReference(q)`
               (`X.ResolveReference`), `len(m)`, `object.Object(m)`, errors.New, fmt.Errorf without
               `%w`, errors.Is(err, object.ErrKeyNotPresent)
  fields       of `*url.URL`: `Host` only (`X.Host`); methods such as `Hostname()` are not modelled

Anything else is reported as untranslatable, which breaks the build of the generated file.
*/

import (
	"fmt"
	"go/ast"
	"go/token"
	"strings"
)

type c13typ int

const (
	c13Bad c13typ = iota
	c13Any
	c13Map
	c13Ptr // *url.URL, may be nil
	c13Url // a *url.URL known not to be nil (the result of ResolveReference)
	c13Err
	c13Str
	c13Int
	c13Bool
	c13List
	c13Num
)

func (t c13typ) lean() string {
	switch t {
	case c13Any:
		return "JVal"
	case c13Map:
		return "List (Str × JVal)"
	case c13Ptr:
		return "Option Url"
	case c13Url:
		return "Url"
	case c13Err:
		return "Option Obj.Err"
	case c13Str:
		return "Str"
	case c13Int:
		return "Int"
	case c13Bool:
		return "Bool"
	case c13List:
		return "List JVal"
	case c13Num:
		return "Nat"
	}
	return "?"
}

/* the zero value, which is what `nil` denotes for the nilable ones */
func (t c13typ) zero() (string, bool) {
	switch t {
	case c13Map:
		return "[]", true
	case c13Ptr, c13Err:
		return "none", true
	}
	return "", false
}

/* fields of *url.URL that the external-world structure `Ext` carries */
var c13urlFields = map[string]c13typ{"Host": c13Str}

type c13scope struct {
	vars   map[string]c13typ
	parent *c13scope
}

func (s *c13scope) lookup(n string) (c13typ, bool) {
	for c := s; c != nil; c = c.parent {
		if t, ok := c.vars[n]; ok {
			return t, true
		}
	}
	return c13Bad, false
}

type c13 struct {
	b       strings.Builder
	err     []string
	file    *ast.File
	objFile *ast.File
	imports map[string]string
	results []c13typ
}

func (g *c13) fail(format string, a ...any) string {
	msg := fmt.Sprintf(format, a...)
	g.err = append(g.err, msg)
	return "(sorry_untranslatable /- " + msg + " -/)"
}

func (g *c13) line(ind int, s string) { g.b.WriteString(strings.Repeat("  ", ind) + s + "\n") }

func (g *c13) typ(e ast.Expr) c13typ {
	switch typeString(e) {
	case "any":
		return c13Any
	case "object.Object", "map[string]any":
		if typeString(e) == "object.Object" && g.imports["object"] != "servitor/object" {
			return c13Bad
		}
		return c13Map
	case "*url.URL":
		if g.imports["url"] != "net/url" {
			return c13Bad
		}
		return c13Ptr
	case "error":
		return c13Err
	case "string":
		return c13Str
	case "int":
		return c13Int
	case "bool":
		return c13Bool
	case "[]any":
		return c13List
	case "float64":
		return c13Num
	}
	return c13Bad
}

/* is `e` the selector pkg.name with pkg imported from path? */
func (g *c13) isPkgSel(e ast.Expr, pkg, path, name string) bool {
	se, ok := e.(*ast.SelectorExpr)
	if !ok {
		return false
	}
	id, ok := se.X.(*ast.Ident)
	return ok && id.Name == pkg && se.Sel.Name == name && g.imports[pkg] == path
}

type c13val struct {
	term string
	typ  c13typ
	lift bool // contains a `(← Go.deref …)`
}

/* a pointer operand that is read through: non-nil or a panic */
func (g *c13) through(v c13val) c13val {
	switch v.typ {
	case c13Ptr:
		return c13val{"(← Go.deref " + v.term + ")", c13Url, true}
	case c13Url:
		return v
	}
	return c13val{g.fail("a *url.URL is expected, found %s", v.term), c13Url, v.lift}
}

/* a single-valued expression; `want` types a bare nil */
func (g *c13) val(sc *c13scope, e ast.Expr, want c13typ) c13val {
	switch x := e.(type) {
	case *ast.ParenExpr:
		return g.val(sc, x.X, want)
	case *ast.Ident:
		if x.Name == "nil" {
			if z, ok := want.zero(); ok {
				return c13val{z, want, false}
			}
			return c13val{g.fail("nil where no nilable type is expected"), want, false}
		}
		if x.Name == "true" || x.Name == "false" {
			return c13val{x.Name, c13Bool, false}
		}
		if t, ok := sc.lookup(x.Name); ok {
			return c13val{x.Name, t, false}
		}
		return c13val{g.fail("identifier %s", x.Name), c13Bad, false}
	case *ast.BasicLit:
		switch x.Kind {
		case token.INT:
			return c13val{x.Value, c13Int, false}
		case token.STRING:
			if strings.HasPrefix(x.Value, "\"") {
				return c13val{"(Go.str " + x.Value + ")", c13Str, false}
			}
		}
		return c13val{g.fail("literal %s", x.Value), c13Bad, false}
	case *ast.SelectorExpr:
		/* a field read through a pointer */
		base := g.val(sc, x.X, c13Bad)
		if base.typ == c13Ptr || base.typ == c13Url {
			ft, ok := c13urlFields[x.Sel.Name]
			if !ok {
				return c13val{g.fail("field %s of *url.URL is not modelled", x.Sel.Name), c13Bad, base.lift}
			}
			p := g.through(base)
			return c13val{"(X." + x.Sel.Name + " " + p.term + ")", ft, p.lift}
		}
		return c13val{g.fail("selector %s", exprFull(e)), c13Bad, false}
	case *ast.CallExpr:
		return g.call(sc, x)
	case *ast.BinaryExpr, *ast.UnaryExpr:
		t, mon := g.cond(sc, e)
		if mon {
			return c13val{"(← " + t + ")", c13Bool, true}
		}
		return c13val{t, c13Bool, false}
	}
	return c13val{g.fail("expression %s", exprFull(e)), c13Bad, false}
}

/* a call with one result */
func (g *c13) call(sc *c13scope, x *ast.CallExpr) c13val {
	if id, ok := x.Fun.(*ast.Ident); ok && id.Name == "len" && len(x.Args) == 1 {
		a := g.val(sc, x.Args[0], c13Bad)
		if a.typ == c13Map {
			return c13val{"(Go.lenMap " + a.term + ")", c13Int, a.lift}
		}
		return c13val{g.fail("len of %s", exprFull(x.Args[0])), c13Int, a.lift}
	}
	/* conversion object.Object(m) */
	if g.isPkgSel(x.Fun, "object", "servitor/object", "Object") && len(x.Args) == 1 {
		a := g.val(sc, x.Args[0], c13Map)
		if a.typ == c13Map {
			return a
		}
		return c13val{g.fail("conversion of %s to object.Object", exprFull(x.Args[0])), c13Map, a.lift}
	}
	/* a fresh error: never ErrKeyNotPresent */
	if g.isPkgSel(x.Fun, "errors", "errors", "New") && len(x.Args) == 1 {
		if bl, ok := x.Args[0].(*ast.BasicLit); ok && bl.Kind == token.STRING {
			return c13val{"(some Obj.Err.wrong)", c13Err, false}
		}
	}
	if g.isPkgSel(x.Fun, "fmt", "fmt", "Errorf") && len(x.Args) >= 1 {
		if bl, ok := x.Args[0].(*ast.BasicLit); ok && bl.Kind == token.STRING && !strings.Contains(bl.Value, "%w") {
			return c13val{"(some Obj.Err.wrong)", c13Err, false}
		}
		return c13val{g.fail("fmt.Errorf that wraps an error"), c13Err, false}
	}
	/* p.ResolveReference(q): reads through both */
	if se, ok := x.Fun.(*ast.SelectorExpr); ok && se.Sel.Name == "ResolveReference" && len(x.Args) == 1 {
		recv := g.val(sc, se.X, c13Bad)
		if recv.typ == c13Ptr || recv.typ == c13Url {
			p := g.through(recv)
			q := g.through(g.val(sc, x.Args[0], c13Ptr))
			return c13val{"(X.ResolveReference " + p.term + " " + q.term + ")", c13Url, p.lift || q.lift}
		}
	}
	return c13val{g.fail("call %s", exprFull(x.Fun)), c13Bad, false}
}

func (g *c13) funcDecl(f *ast.File, recv, name string) *ast.FuncDecl {
	if f == nil {
		return nil
	}
	for _, d := range f.Decls {
		fd, ok := d.(*ast.FuncDecl)
		if !ok || fd.Name.Name != name {
			continue
		}
		if recv == "" && fd.Recv == nil {
			return fd
		}
		if recv != "" && fd.Recv != nil && len(fd.Recv.List) == 1 && typeString(fd.Recv.List[0].Type) == recv {
			return fd
		}
	}
	return nil
}

/* parameter and result types of a declared function, as Go type strings */
func sig13(fd *ast.FuncDecl) (string, string) {
	ps, rs := []string{}, []string{}
	for _, p := range fd.Type.Params.List {
		n := len(p.Names)
		if n == 0 {
			n = 1
		}
		for i := 0; i < n; i++ {
			ps = append(ps, typeString(p.Type))
		}
	}
	if fd.Type.Results != nil {
		for _, r := range fd.Type.Results.List {
			n := len(r.Names)
			if n == 0 {
				n = 1
			}
			for i := 0; i < n; i++ {
				rs = append(rs, typeString(r.Type))
			}
		}
	}
	return strings.Join(ps, ","), strings.Join(rs, ",")
}

/* a call with several results: the Lean term (a tuple) and the types of its components */
func (g *c13) multi(sc *c13scope, x *ast.CallExpr) (string, []c13typ) {
	/* url.Parse(s) */
	if g.isPkgSel(x.Fun, "url", "net/url", "Parse") && len(x.Args) == 1 {
		a := g.val(sc, x.Args[0], c13Str)
		if a.typ != c13Str {
			return g.fail("url.Parse of a non-string"), []c13typ{c13Ptr, c13Err}
		}
		return "Go.ret2 (Go.ofOption (L.parseUrl " + a.term + "))", []c13typ{c13Ptr, c13Err}
	}
	/* FetchURL(p): declared in this file; it reads through its argument (uri.String()) */
	if id, ok := x.Fun.(*ast.Ident); ok && id.Name == "FetchURL" && len(x.Args) == 1 {
		fd := g.funcDecl(g.file, "", "FetchURL")
		if fd == nil {
			return g.fail("FetchURL is not declared in this file"), []c13typ{c13Map, c13Ptr, c13Err}
		}
		if ps, rs := sig13(fd); ps != "*url.URL" || rs != "object.Object,*url.URL,error" {
			return g.fail("FetchURL has signature (%s) (%s)", ps, rs), []c13typ{c13Map, c13Ptr, c13Err}
		}
		a := g.through(g.val(sc, x.Args[0], c13Ptr))
		return "Go.ret3 (Go.ofExt (X.FetchURL " + a.term + "))", []c13typ{c13Map, c13Ptr, c13Err}
	}
	/* o.GetURL(key): the translated accessor */
	if se, ok := x.Fun.(*ast.SelectorExpr); ok && se.Sel.Name == "GetURL" && len(x.Args) == 1 {
		recv := g.val(sc, se.X, c13Bad)
		if recv.typ == c13Map && !recv.lift {
			fd := g.funcDecl(g.objFile, "Object", "GetURL")
			if fd == nil {
				return g.fail("object.Object has no method GetURL"), []c13typ{c13Ptr, c13Err}
			}
			if ps, rs := sig13(fd); ps != "string" || rs != "*url.URL,error" {
				return g.fail("GetURL has signature (%s) (%s)", ps, rs), []c13typ{c13Ptr, c13Err}
			}
			k := g.val(sc, x.Args[0], c13Str)
			if k.typ != c13Str {
				return g.fail("GetURL of a non-string key"), []c13typ{c13Ptr, c13Err}
			}
			return "Go.ret2 (GenObject.GetURL L " + recv.term + " " + k.term + ")", []c13typ{c13Ptr, c13Err}
		}
	}
	return g.fail("call %s", exprFull(x.Fun)), nil
}

var c13cmp = map[token.Token]string{token.EQL: "=", token.NEQ: "≠", token.LSS: "<", token.LEQ: "≤", token.GTR: ">", token.GEQ: "≥"}

/*
a boolean expression: a `Bool` term, or (monadic) an `Except Panic Bool` term when evaluating it

	reads through a pointer
*/
func (g *c13) cond(sc *c13scope, e ast.Expr) (string, bool) {
	switch x := e.(type) {
	case *ast.ParenExpr:
		return g.cond(sc, x.X)
	case *ast.UnaryExpr:
		if x.Op == token.NOT {
			t, mon := g.cond(sc, x.X)
			if mon {
				return "(do pure (!(← " + t + ")))", true
			}
			return "(!" + t + ")", false
		}
	case *ast.BinaryExpr:
		switch x.Op {
		case token.LAND, token.LOR:
			l, lm := g.cond(sc, x.X)
			r, rm := g.cond(sc, x.Y)
			if !lm && !rm {
				if x.Op == token.LAND {
					return "(" + l + " && " + r + ")", false
				}
				return "(" + l + " || " + r + ")", false
			}
			if !lm {
				l = "(pure " + l + ")"
			}
			if !rm {
				r = "(pure " + r + ")"
			}
			if x.Op == token.LAND {
				return "(Go.andM " + l + " " + r + ")", true
			}
			return "(Go.orM " + l + " " + r + ")", true
		case token.EQL, token.NEQ, token.LSS, token.LEQ, token.GTR, token.GEQ:
			/* comparison with nil */
			if isNilIdent(x.Y) || isNilIdent(x.X) {
				other := x.X
				if isNilIdent(x.X) {
					other = x.Y
				}
				v := g.val(sc, other, c13Bad)
				if (v.typ == c13Ptr || v.typ == c13Err) && !v.lift {
					switch x.Op {
					case token.EQL:
						return v.term + ".isNone", false
					case token.NEQ:
						return v.term + ".isSome", false
					}
				}
				return g.fail("comparison %s", exprFull(e)), false
			}
			l := g.val(sc, x.X, c13Bad)
			r := g.val(sc, x.Y, c13Bad)
			if l.typ != r.typ || !(l.typ == c13Str || l.typ == c13Int) {
				return g.fail("comparison %s", exprFull(e)), false
			}
			if l.typ == c13Str && x.Op != token.EQL && x.Op != token.NEQ {
				return g.fail("ordering of strings %s", exprFull(e)), false
			}
			t := "decide (" + l.term + " " + c13cmp[x.Op] + " " + r.term + ")"
			if l.lift || r.lift {
				return "(do pure (" + t + "))", true
			}
			return "(" + t + ")", false
		}
	case *ast.CallExpr:
		/* errors.Is(err, object.ErrKeyNotPresent) */
		if g.isPkgSel(x.Fun, "errors", "errors", "Is") && len(x.Args) == 2 {
			v := g.val(sc, x.Args[0], c13Err)
			if v.typ == c13Err && !v.lift && g.isPkgSel(x.Args[1], "object", "servitor/object", "ErrKeyNotPresent") {
				return "(Go.errorIs " + v.term + " Obj.Err.absent)", false
			}
			return g.fail("errors.Is with target %s", exprFull(x.Args[1])), false
		}
	case *ast.Ident:
		if x.Name == "true" || x.Name == "false" {
			return x.Name, false
		}
		if t, ok := sc.lookup(x.Name); ok && t == c13Bool {
			return x.Name, false
		}
	}
	return g.fail("condition %s", exprFull(e)), false
}

func (g *c13) block(ind int, sc *c13scope, list []ast.Stmt) {
	if len(list) == 0 {
		g.line(ind, "pure ()")
		return
	}
	for _, st := range list {
		g.stmt(ind, sc, st)
	}
}

func (g *c13) stmt(ind int, sc *c13scope, st ast.Stmt) {
	switch s := st.(type) {
	case *ast.DeclStmt:
		gd, ok := s.Decl.(*ast.GenDecl)
		if !ok || gd.Tok != token.VAR {
			g.line(ind, g.fail("declaration"))
			return
		}
		for _, sp := range gd.Specs {
			vs := sp.(*ast.ValueSpec)
			if vs.Type == nil || len(vs.Values) != 0 {
				g.line(ind, g.fail("var with an initial value"))
				continue
			}
			t := g.typ(vs.Type)
			z, ok := t.zero()
			if !ok {
				g.line(ind, g.fail("var of type %s", typeString(vs.Type)))
				continue
			}
			for _, n := range vs.Names {
				sc.vars[n.Name] = t
				g.line(ind, "let mut "+n.Name+" : "+t.lean()+" := "+z)
			}
		}
	case *ast.AssignStmt:
		g.assign(ind, sc, s)
	case *ast.IfStmt:
		g.ifStmt(ind, sc, s, "if ")
	case *ast.TypeSwitchStmt:
		g.typeSwitch(ind, sc, s)
	case *ast.ReturnStmt:
		if len(s.Results) != len(g.results) {
			g.line(ind, g.fail("return of %d values", len(s.Results)))
			return
		}
		parts := []string{}
		for i, r := range s.Results {
			v := g.val(sc, r, g.results[i])
			if v.typ != g.results[i] {
				parts = append(parts, g.fail("result %d: %s is not a %s", i, exprFull(r), g.results[i].lean()))
				continue
			}
			parts = append(parts, v.term)
		}
		g.line(ind, "return ("+strings.Join(parts, ", ")+")")
	default:
		g.line(ind, g.fail("statement %T", st))
	}
}

func (g *c13) assign(ind int, sc *c13scope, s *ast.AssignStmt) {
	if s.Tok != token.ASSIGN && s.Tok != token.DEFINE {
		g.line(ind, g.fail("assignment operator %s", s.Tok))
		return
	}
	names := []string{}
	for _, l := range s.Lhs {
		id, ok := l.(*ast.Ident)
		if !ok || id.Name == "_" {
			g.line(ind, g.fail("assignment to %s", exprFull(l)))
			return
		}
		names = append(names, id.Name)
	}
	var term string
	var types []c13typ
	if len(s.Rhs) == 1 && len(names) > 1 {
		ce, ok := s.Rhs[0].(*ast.CallExpr)
		if !ok {
			g.line(ind, g.fail("multiple assignment from %s", exprFull(s.Rhs[0])))
			return
		}
		term, types = g.multi(sc, ce)
		if len(types) != len(names) {
			g.line(ind, g.fail("%d variables for the results of %s", len(names), exprFull(ce.Fun)))
			return
		}
	} else if len(s.Rhs) == 1 && len(names) == 1 {
		want := c13Bad
		if t, ok := sc.lookup(names[0]); ok && s.Tok == token.ASSIGN {
			want = t
		}
		v := g.val(sc, s.Rhs[0], want)
		term, types = v.term, []c13typ{v.typ}
	} else {
		g.line(ind, g.fail("parallel assignment"))
		return
	}
	lhs := names[0]
	if len(names) > 1 {
		lhs = "(" + strings.Join(names, ", ") + ")"
	}
	if s.Tok == token.DEFINE {
		for i, n := range names {
			if old, ok := sc.vars[n]; ok && old != types[i] {
				g.line(ind, g.fail("%s redeclared with another type", n))
				return
			}
			if types[i] == c13Bad {
				g.line(ind, g.fail("%s of an unknown type", n))
				return
			}
			sc.vars[n] = types[i]
		}
		g.line(ind, "let mut "+lhs+" := "+term)
		return
	}
	for i, n := range names {
		t, ok := sc.lookup(n)
		if !ok {
			g.line(ind, g.fail("assignment to undeclared %s", n))
			return
		}
		if t != types[i] && !(t == c13Ptr && types[i] == c13Url) {
			g.line(ind, g.fail("%s is a %s, assigned a %s", n, t.lean(), types[i].lean()))
			return
		}
		if t == c13Ptr && types[i] == c13Url {
			term = "(some " + term + ")"
		}
	}
	g.line(ind, lhs+" := "+term)
}

func (g *c13) ifStmt(ind int, sc *c13scope, s *ast.IfStmt, kw string) {
	if s.Init != nil {
		g.line(ind, g.fail("if with an init statement"))
		return
	}
	c, mon := g.cond(sc, s.Cond)
	if mon {
		c = "(← " + c + ")"
	}
	g.line(ind, kw+c+" then")
	g.block(ind+1, &c13scope{vars: map[string]c13typ{}, parent: sc}, s.Body.List)
	switch e := s.Else.(type) {
	case nil:
	case *ast.IfStmt:
		/* the condition of an `else if` is evaluated only when the first one is false: a read
		   through a pointer in it must not be hoisted in front of the whole chain */
		if _, m := (&c13{file: g.file, objFile: g.objFile, imports: g.imports, results: g.results}).cond(sc, e.Cond); m {
			g.line(ind, "else")
			g.ifStmt(ind+1, sc, e, "if ")
		} else {
			g.ifStmt(ind, sc, e, "else if ")
		}
	case *ast.BlockStmt:
		g.line(ind, "else")
		g.block(ind+1, &c13scope{vars: map[string]c13typ{}, parent: sc}, e.List)
	default:
		g.line(ind, g.fail("else %T", s.Else))
	}
}

func (g *c13) typeSwitch(ind int, sc *c13scope, s *ast.TypeSwitchStmt) {
	if s.Init != nil {
		g.line(ind, g.fail("type switch with an init statement"))
		return
	}
	bound := "_"
	var ta *ast.TypeAssertExpr
	switch a := s.Assign.(type) {
	case *ast.AssignStmt:
		if len(a.Lhs) == 1 && len(a.Rhs) == 1 {
			bound = exprString(a.Lhs[0])
			ta, _ = a.Rhs[0].(*ast.TypeAssertExpr)
		}
	case *ast.ExprStmt:
		ta, _ = a.X.(*ast.TypeAssertExpr)
	}
	if ta == nil || ta.Type != nil {
		g.line(ind, g.fail("type switch header"))
		return
	}
	subj := g.val(sc, ta.X, c13Bad)
	if subj.typ != c13Any || subj.lift {
		g.line(ind, g.fail("type switch over %s, which is not an `any`", exprFull(ta.X)))
		return
	}
	g.line(ind, "match "+subj.term+" with")
	ctor := map[c13typ]string{c13Str: ".str", c13Map: ".obj", c13List: ".arr", c13Num: ".num", c13Bool: ".bool"}
	seen := map[string]bool{}
	var deflt *ast.CaseClause
	for _, cl := range s.Body.List {
		cc := cl.(*ast.CaseClause)
		if cc.List == nil {
			deflt = cc
			continue
		}
		if len(cc.List) != 1 {
			g.line(ind, g.fail("case with several types"))
			continue
		}
		if typeString(cc.List[0]) == "object.Object" {
			/* a named type: a decoded JSON value never has it */
			g.line(ind, g.fail("case object.Object (never the dynamic type of a decoded value)"))
			continue
		}
		t := g.typ(cc.List[0])
		c, ok := ctor[t]
		if !ok || seen[c] {
			g.line(ind, g.fail("case %s", typeString(cc.List[0])))
			continue
		}
		seen[c] = true
		inner := &c13scope{vars: map[string]c13typ{}, parent: sc}
		if bound != "_" {
			inner.vars[bound] = t
		}
		g.line(ind, "| "+c+" "+bound+" =>")
		g.block(ind+1, inner, cc.Body)
	}
	/* the default clause is taken by every value no case names, wherever it stands in the source */
	g.line(ind, "| _ =>")
	if deflt == nil {
		g.line(ind+1, "pure ()")
		return
	}
	inner := &c13scope{vars: map[string]c13typ{}, parent: sc}
	if bound != "_" {
		inner.vars[bound] = c13Any
		g.line(ind+1, "let "+bound+" := "+subj.term)
	}
	g.block(ind+1, inner, deflt.Body)
}

/* the parameters the body assigns to */
func assigned13(body *ast.BlockStmt) map[string]bool {
	out := map[string]bool{}
	ast.Inspect(body, func(n ast.Node) bool {
		if as, ok := n.(*ast.AssignStmt); ok && as.Tok == token.ASSIGN {
			for _, l := range as.Lhs {
				if id, ok := l.(*ast.Ident); ok {
					out[id.Name] = true
				}
			}
		}
		return true
	})
	return out
}

func translateClient(root string, rel string, names []string) (string, []string) {
	f := parseFile(root, rel)
	g := &c13{file: f, objFile: parseFile(root, "object/object.go"), imports: map[string]string{}}
	for _, im := range f.Imports {
		path := strings.Trim(im.Path.Value, "\"")
		name := path[strings.LastIndex(path, "/")+1:]
		if im.Name != nil {
			name = im.Name.Name
		}
		g.imports[name] = path
	}
	g.line(0, "set_option linter.unusedVariables false")
	g.line(0, "")
	g.line(0, "namespace GenClient")
	g.line(0, "")
	g.line(0, "variable {Time Url : Type}")
	g.line(0, "")
	g.line(0, "/-- What the translated code takes from outside: the field `Host` of a `*url.URL` (not nil),")
	g.line(0, "    `(*url.URL).ResolveReference`, and `FetchURL` (the object served and the final source URL,")
	g.line(0, "    or an error). -/")
	g.line(0, "structure Ext (Url : Type) where")
	g.line(0, "  Host : Url → Str")
	g.line(0, "  ResolveReference : Url → Url → Url")
	g.line(0, "  FetchURL : Url → Except Unit (List (Str × JVal) × Url)")
	g.line(0, "")
	for _, n := range names {
		fd := g.funcDecl(f, "", n)
		if fd == nil {
			g.fail("function %s not found", n)
			continue
		}
		g.function(fd)
	}
	g.line(0, "end GenClient")
	return g.b.String(), g.err
}

func (g *c13) function(fd *ast.FuncDecl) {
	sc := &c13scope{vars: map[string]c13typ{}}
	params := []string{"(L : Obj.Libs Time Url)", "(X : Ext Url)"}
	written := assigned13(fd.Body)
	shadow := []string{}
	for _, p := range fd.Type.Params.List {
		t := g.typ(p.Type)
		lt := t.lean()
		if t == c13Bad {
			lt = g.fail("parameter type %s", typeString(p.Type))
		}
		for _, n := range p.Names {
			sc.vars[n.Name] = t
			if written[n.Name] {
				params = append(params, "("+n.Name+"_0 : "+lt+")")
				shadow = append(shadow, n.Name)
			} else {
				params = append(params, "("+n.Name+" : "+lt+")")
			}
		}
	}
	g.results = nil
	rts := []string{}
	if fd.Type.Results != nil {
		for _, r := range fd.Type.Results.List {
			t := g.typ(r.Type)
			if len(r.Names) != 0 {
				rts = append(rts, g.fail("named results"))
			}
			if _, ok := t.zero(); !ok {
				rts = append(rts, g.fail("result type %s", typeString(r.Type)))
				g.results = append(g.results, c13Bad)
				continue
			}
			g.results = append(g.results, t)
			rts = append(rts, t.lean())
		}
	}
	g.line(0, "/-- `func "+fd.Name.Name+"` -/")
	g.line(0, "def "+fd.Name.Name+" "+strings.Join(params, " ")+" :")
	g.line(0, "    Except Panic ("+strings.Join(rts, " × ")+") := do")
	for _, n := range shadow {
		g.line(1, "let mut "+n+" := "+n+"_0")
	}
	for _, st := range fd.Body.List {
		g.stmt(1, sc, st)
	}
	g.line(0, "")
}
