package main

/*
Translation of config/config.go into Lean: the `Config` struct (flattened; maps are left out),
the defaults `parse` installs, and `postprocess` as a function in `Except String` whose error is
the key named in the message.  `int` arithmetic on the sizes is wrapping 64-bit arithmetic
(`Go.wrap64`): this is the one place where the property is about the integer type.

Statements understood in `postprocess` (anything else becomes an early failure named
UNTRANSLATABLE, which the equivalence theorem cannot survive):

	var err error
	config.F, err = hexToAnsi(config.F)  +  if err != nil { return fmt.Errorf("key K is invalid…", err) }
	if <condition over fields, len, integer constants> { return errors.New("key K is invalid…") }
	config.F *= <expr>
	return nil
*/

import (
	"fmt"
	"go/ast"
	"go/token"
	"regexp"
	"strconv"
	"strings"
)

var cfgKeyInMessage = regexp.MustCompile(`key ([a-z_.]+) is invalid`)

type cfgField struct {
	path string // Style_Colors_Primary
	typ  string // Str, List Str, Int
}

func cfgFlatten(prefix string, st *ast.StructType, out *[]cfgField, skipped *[]string) {
	for _, f := range st.Fields.List {
		for _, n := range f.Names {
			name := n.Name
			if prefix != "" {
				name = prefix + "_" + n.Name
			}
			switch t := f.Type.(type) {
			case *ast.StructType:
				cfgFlatten(name, t, out, skipped)
			case *ast.Ident:
				switch t.Name {
				case "string":
					*out = append(*out, cfgField{name, "Str"})
				case "int", "int64", "uint":
					*out = append(*out, cfgField{name, "Int"})
				default:
					*skipped = append(*skipped, name+" : "+t.Name)
				}
			case *ast.SelectorExpr:
				if exprString(t) == "time.Duration" {
					*out = append(*out, cfgField{name, "Int"})
				} else {
					*skipped = append(*skipped, name+" : "+exprString(t))
				}
			case *ast.ArrayType:
				if id, ok := t.Elt.(*ast.Ident); ok && id.Name == "string" && t.Len == nil {
					*out = append(*out, cfgField{name, "List Str"})
				} else {
					*skipped = append(*skipped, name+" : slice")
				}
			default:
				*skipped = append(*skipped, name+" : (map or other)")
			}
		}
	}
}

/* config.A.B.C -> A_B_C (nil if not a path rooted at the receiver name) */
func cfgPath(e ast.Expr, root string) (string, bool) {
	switch x := e.(type) {
	case *ast.Ident:
		if x.Name == root {
			return "", true
		}
	case *ast.SelectorExpr:
		p, ok := cfgPath(x.X, root)
		if !ok {
			return "", false
		}
		if p == "" {
			return x.Sel.Name, true
		}
		return p + "_" + x.Sel.Name, true
	}
	return "", false
}

type cfgTr struct {
	root string
	errs []string
}

func (t *cfgTr) fail(what string) string {
	t.errs = append(t.errs, what)
	return "(Go.untranslatable " + leanStr(what) + ")"
}

/* integer expression; arithmetic wraps */
func (t *cfgTr) intExpr(e ast.Expr) string {
	switch x := e.(type) {
	case *ast.ParenExpr:
		return t.intExpr(x.X)
	case *ast.BasicLit:
		if x.Kind == token.INT {
			return x.Value
		}
	case *ast.SelectorExpr:
		switch exprString(x) {
		case "math.MaxInt32":
			return "2147483647"
		case "math.MaxInt64":
			return "9223372036854775807"
		case "math.MaxInt":
			return "9223372036854775807"
		case "time.Second":
			return "1000000000"
		case "time.Millisecond":
			return "1000000"
		}
		if p, ok := cfgPath(x, t.root); ok {
			return "c." + p
		}
	case *ast.CallExpr:
		if id, ok := x.Fun.(*ast.Ident); ok && id.Name == "len" && len(x.Args) == 1 {
			if p, ok := cfgPath(x.Args[0], t.root); ok {
				return "(Go.len c." + p + ")"
			}
		}
	case *ast.UnaryExpr:
		if x.Op == token.SUB {
			return "(Go.wrap64 (-" + t.intExpr(x.X) + "))"
		}
	case *ast.BinaryExpr:
		a, b := t.intExpr(x.X), t.intExpr(x.Y)
		switch x.Op {
		case token.ADD:
			return "(Go.wrap64 (" + a + " + " + b + "))"
		case token.SUB:
			return "(Go.wrap64 (" + a + " - " + b + "))"
		case token.MUL:
			return "(Go.wrap64 (" + a + " * " + b + "))"
		case token.QUO:
			return "(Go.idiv " + a + " " + b + ")"
		}
	}
	return t.fail("integer expression " + exprString(e))
}

func (t *cfgTr) cond(e ast.Expr) string {
	switch x := e.(type) {
	case *ast.ParenExpr:
		return t.cond(x.X)
	case *ast.BinaryExpr:
		switch x.Op {
		case token.LSS, token.GTR, token.LEQ, token.GEQ, token.EQL, token.NEQ:
			op := map[token.Token]string{token.LSS: "<", token.GTR: ">", token.LEQ: "≤", token.GEQ: "≥", token.EQL: "=", token.NEQ: "≠"}[x.Op]
			return "decide (" + t.intExpr(x.X) + " " + op + " " + t.intExpr(x.Y) + ")"
		case token.LAND:
			return "(" + t.cond(x.X) + " && " + t.cond(x.Y) + ")"
		case token.LOR:
			return "(" + t.cond(x.X) + " || " + t.cond(x.Y) + ")"
		}
	case *ast.UnaryExpr:
		if x.Op == token.NOT {
			return "(!" + t.cond(x.X) + ")"
		}
	}
	return "decide (" + t.fail("condition "+exprString(e)) + " = 0)"
}

/* the key a return statement's message names; "" if it is `return nil`; "?" otherwise */
func cfgReturnKey(rs *ast.ReturnStmt) string {
	if len(rs.Results) != 1 {
		return "?"
	}
	if id, ok := rs.Results[0].(*ast.Ident); ok && id.Name == "nil" {
		return ""
	}
	key := "?"
	ast.Inspect(rs.Results[0], func(n ast.Node) bool {
		if bl, ok := n.(*ast.BasicLit); ok && key == "?" && bl.Kind == token.STRING {
			if s, err := strconv.Unquote(bl.Value); err == nil {
				if m := cfgKeyInMessage.FindStringSubmatch(s); m != nil {
					key = m[1]
				}
			}
		}
		return true
	})
	return key
}

func cfgSoleReturn(b *ast.BlockStmt) (*ast.ReturnStmt, bool) {
	if len(b.List) != 1 {
		return nil, false
	}
	rs, ok := b.List[0].(*ast.ReturnStmt)
	return rs, ok
}

func translateConfig(f *ast.File) (string, []string) {
	var b strings.Builder
	t := &cfgTr{}
	b.WriteString("namespace GenConfig\n\n")
	fields := []cfgField{}
	skipped := []string{}
	for _, d := range f.Decls {
		gd, ok := d.(*ast.GenDecl)
		if !ok {
			continue
		}
		for _, sp := range gd.Specs {
			ts, ok := sp.(*ast.TypeSpec)
			if !ok || ts.Name.Name != "Config" {
				continue
			}
			if st, ok := ts.Type.(*ast.StructType); ok {
				cfgFlatten("", st, &fields, &skipped)
			}
		}
	}
	b.WriteString("/-- `type Config struct`, flattened")
	if len(skipped) > 0 {
		b.WriteString(" (not carried: " + strings.Join(skipped, "; ") + ")")
	}
	b.WriteString(" -/\nstructure Config where\n")
	for _, fl := range fields {
		b.WriteString("  " + fl.path + " : " + fl.typ + "\n")
	}
	b.WriteString("\n")
	known := map[string]string{}
	for _, fl := range fields {
		known[fl.path] = fl.typ
	}

	for _, d := range f.Decls {
		fd, ok := d.(*ast.FuncDecl)
		if !ok || fd.Body == nil {
			continue
		}
		switch fd.Name.Name {
		case "parse":
			/* the defaults: assignments to fields of the fresh Config before the file is read */
			vals := map[string]string{}
			for _, st := range fd.Body.List {
				as, ok := st.(*ast.AssignStmt)
				if !ok || len(as.Lhs) != 1 || len(as.Rhs) != 1 || as.Tok != token.ASSIGN {
					if _, isIf := st.(*ast.IfStmt); isIf {
						break
					}
					continue
				}
				p, ok := cfgPath(as.Lhs[0], "config")
				if !ok || p == "" {
					continue
				}
				typ, carried := known[p]
				if !carried {
					continue
				}
				switch v := as.Rhs[0].(type) {
				case *ast.BasicLit:
					if v.Kind == token.STRING && typ == "Str" {
						s, _ := strconv.Unquote(v.Value)
						vals[p] = "Go.str " + leanStr(s)
					} else if v.Kind == token.INT && typ == "Int" {
						vals[p] = v.Value
					} else {
						vals[p] = t.fail("default of " + p)
					}
				case *ast.CompositeLit:
					items := []string{}
					for _, el := range v.Elts {
						if bl, ok := el.(*ast.BasicLit); ok && bl.Kind == token.STRING {
							s, _ := strconv.Unquote(bl.Value)
							items = append(items, "Go.str "+leanStr(s))
						} else {
							items = append(items, t.fail("default element of "+p))
						}
					}
					vals[p] = "[" + strings.Join(items, ", ") + "]"
				default:
					vals[p] = t.fail("default of " + p)
				}
			}
			b.WriteString("/-- what `parse` starts from -/\ndef defaults : Config :=\n  {")
			for i, fl := range fields {
				v, ok := vals[fl.path]
				if !ok {
					v = t.fail("no default for " + fl.path)
				}
				if i > 0 {
					b.WriteString(",\n   ")
				}
				b.WriteString(" " + fl.path + " := " + v)
			}
			b.WriteString(" }\n\n")
		case "postprocess":
			if len(fd.Type.Params.List) == 1 && len(fd.Type.Params.List[0].Names) == 1 {
				t.root = fd.Type.Params.List[0].Names[0].Name
			}
			b.WriteString("/-- `postprocess`; the error is the key the message names -/\n")
			b.WriteString("def postprocess (hexToAnsi : Str → Option Str) (c0 : Config) : Except String Config := do\n  let mut c := c0\n")
			list := fd.Body.List
			for i := 0; i < len(list); i++ {
				switch st := list[i].(type) {
				case *ast.DeclStmt:
					continue
				case *ast.AssignStmt:
					/* config.F, err = hexToAnsi(config.G) followed by the error test */
					if len(st.Lhs) == 2 && len(st.Rhs) == 1 && st.Tok == token.ASSIGN {
						call, isCall := st.Rhs[0].(*ast.CallExpr)
						dst, okDst := cfgPath(st.Lhs[0], t.root)
						if isCall && okDst && exprString(call.Fun) == "hexToAnsi" && len(call.Args) == 1 && exprString(st.Lhs[1]) == "err" && i+1 < len(list) {
							src, okSrc := cfgPath(call.Args[0], t.root)
							ifs, isIf := list[i+1].(*ast.IfStmt)
							if okSrc && isIf && strings.ReplaceAll(exprString(ifs.Cond), " ", "") == "err!=nil" && ifs.Else == nil && ifs.Init == nil {
								if rs, ok := cfgSoleReturn(ifs.Body); ok {
									b.WriteString("  match hexToAnsi c." + src + " with\n  | none => throw " + leanStr(cfgReturnKey(rs)) + "\n  | some v => c := { c with " + dst + " := v }\n")
									i++
									continue
								}
							}
						}
					}
					if len(st.Lhs) == 1 && len(st.Rhs) == 1 && (st.Tok == token.MUL_ASSIGN || st.Tok == token.ADD_ASSIGN || st.Tok == token.SUB_ASSIGN || st.Tok == token.ASSIGN) {
						if dst, ok := cfgPath(st.Lhs[0], t.root); ok && known[dst] == "Int" {
							rhs := t.intExpr(st.Rhs[0])
							switch st.Tok {
							case token.MUL_ASSIGN:
								rhs = "Go.wrap64 (c." + dst + " * " + rhs + ")"
							case token.ADD_ASSIGN:
								rhs = "Go.wrap64 (c." + dst + " + " + rhs + ")"
							case token.SUB_ASSIGN:
								rhs = "Go.wrap64 (c." + dst + " - " + rhs + ")"
							}
							b.WriteString("  c := { c with " + dst + " := " + rhs + " }\n")
							continue
						}
					}
					b.WriteString("  throw " + leanStr("UNTRANSLATABLE") + " -- " + t.fail(fmt.Sprintf("statement %d of postprocess", i)) + "\n")
				case *ast.IfStmt:
					if st.Else == nil && st.Init == nil {
						if rs, ok := cfgSoleReturn(st.Body); ok {
							key := cfgReturnKey(rs)
							if key == "" {
								b.WriteString("  if " + t.cond(st.Cond) + " then\n    return c\n")
							} else {
								b.WriteString("  if " + t.cond(st.Cond) + " then\n    throw " + leanStr(key) + "\n")
							}
							continue
						}
					}
					b.WriteString("  throw " + leanStr("UNTRANSLATABLE") + " -- " + t.fail(fmt.Sprintf("statement %d of postprocess", i)) + "\n")
				case *ast.ReturnStmt:
					key := cfgReturnKey(st)
					if key == "" {
						b.WriteString("  return c\n")
					} else {
						b.WriteString("  throw " + leanStr(key) + "\n")
					}
				default:
					b.WriteString("  throw " + leanStr("UNTRANSLATABLE") + " -- " + t.fail(fmt.Sprintf("statement %d of postprocess", i)) + "\n")
				}
			}
			b.WriteString("\n")
		}
	}
	b.WriteString("end GenConfig\n")
	return b.String(), t.errs
}
