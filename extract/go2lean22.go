package main

/*
go2lean, twenty-second front end: the constructors of package pub — `NewPost`,
`NewPostFromObject`, `NewActor`, `NewActorFromObject`, `NewActivity`, `NewActivityFromObject`,
`New`, `NewTangible`, `getActors`, `getActor`, `getPostOrActor`, `getCollection`,
`getAndFetchUnkown`, `getLinks`, `getLinksShorthand`, `getBestLink`, `getBestLinkShorthand`,
`getFirstLinkShorthand` — translated statement by statement into `Generated/GoNewitem.lean`,
namespace `GenNewitem`. Every function becomes a `do` block in `Except Panic` without mutable
state and without joins: the statements after a branching statement are translated once per
path that reaches them (continuation style), an assignment is a shadowing `let`.

  results      `(T, error)` is `Go.Res T` (lean/Model/GoNewitem.lean): after `v, err := f(…)` the
               rest is translated once under `.error err` (there `err != nil` is true, `v` cannot
               be used: a use is refused) and once under `.ok v` (`err != nil` is false,
               `errors.Is(err, …)` is false). Tests of an error against nil are decided, never
               emitted; an error variable whose state is not known is refused.
  errors       `Go.Error` of lean/Model/GoPub.lean: accessor errors (`Go.ofObj`), the opaque error
               of `client.FetchUnknown` (`Go.ofFetch`), `errors.New(lit)`, `fmt.Errorf(lit, …)`
               with its `%w` operands, the sentinels `ErrWrongType`, `object.ErrKeyNotPresent`.
  structs      `p := &Post{}`: the fields are variables. `p.x, p.xErr = f(…)` keeps the pair as
               one `Go.Res`. `return p, nil` builds the record of the model (`Pub.PostM`,
               `Pub.ActorM`, `Pub.ActivityM`) from the table `n22Records` below: which Go
               field(s) fill which field of the model under which reading; a Go field assigned
               in the constructor that is in neither the table nor the list of presentation
               fields is refused, and so is a table entry whose field was never assigned.
  types        `any` holding JSON -> `JVal`, `object.Object` / `map[string]any` -> `Pub.O`,
               `*url.URL` -> `Option Pub.U`, `string` -> `Str`, `Tangible` and the `any` of `New`
               -> the sums `GenListing.Tangible`, `GenListing.Any` (a `*T` stored there is
               injected with the constructor of its type).
  external     `client.FetchUnknown` is the translated `GenClient.FetchUnknown` over `X.client`;
               the accessors are `GenObject.Get…`; `GetMarkup`, `NewLink`, `SelectBestLink`,
               `SelectFirstLink`, `strings.ToLower`, `NewCollection`, `NewCollectionFromObject`
               are fields of `Ext`. A function value handed to those (a function literal, a
               variable bound to one, a function name) is a constructor of `Construct` carrying
               the variables it captures; its body belongs to unit `listing`.
  wait groups  `wg.Add(n)`, n statements `go func() { BODY; wg.Done() }()`, `wg.Wait()`: accepted
               only if no closure writes what another reads or writes (fields of the struct under
               construction and variables, compared by name); then the bodies run in program
               order.
  fan-out      `out := make([]T, len(xs)); var wg …; for i := range xs { wg.Add(1); i := i; go
               func() { BODY; wg.Done() }() }; wg.Wait()`: `Go.fanout xs (fun i => BODY)` where
               every path of BODY ends with the one write `out[i] = v`; `xs[i]` is `Go.index`.
  fill loop    `out := make([]T, len(xs)); for i, x := range xs { BODY }`: `Go.fillLoop`, every
               path of BODY ends with `out[i] = v` or returns from the function. A write to any
               other indexed location (the list handed in, for one) is refused.
  creators     `for _, c := range p.creators { … }` directly before the final `return p, nil` is
               the loop unit `listing` translates from the same source in the same run
               (`GenListing.NewPostFromObject_creators`): it is called here with the parameter
               `id`; a statement between the loop and the return is translated like any other
               (and changes the record), anything after `wg.Wait()` and before the loop too.

Everything else emits `sorry_untranslatable`, an unknown identifier: the generated file no
longer builds.
*/

import (
	"fmt"
	"go/ast"
	"go/token"
	"os"
	"path/filepath"
	"sort"
	"strconv"
	"strings"
)

type n22var struct {
	lean  string
	typ   string // Go type as written ("" unknown)
	state string // errors: "nil", "nonnil"; values: "ok", "unset"
	depth int
	group string // for a field that is part of a pair: the variable holding the pair
	role  string // "val", "err"
}

type n22env struct {
	vars    map[string]*n22var
	depth   int
	saved   []map[string]*n22var
	strukt  string // Go name of the struct under construction
	stype   string
	cell    string // the slice whose cell the body writes
	cellIdx string
	cellTyp string
	loopRet bool // inside a fill loop: a return leaves through `.error`
	listVar string
	fresh   *int
}

func (e *n22env) clone() *n22env {
	c := *e
	c.vars = map[string]*n22var{}
	for k, v := range e.vars {
		w := *v
		c.vars[k] = &w
	}
	c.saved = make([]map[string]*n22var, len(e.saved))
	for i, m := range e.saved {
		c.saved[i] = map[string]*n22var{}
		for k, v := range m {
			c.saved[i][k] = v
		}
	}
	return &c
}

func (e *n22env) enter() {
	e.depth++
	e.saved = append(e.saved, map[string]*n22var{})
}

func (e *n22env) leave() {
	top := e.saved[len(e.saved)-1]
	for k, old := range top {
		if old == nil {
			delete(e.vars, k)
		} else {
			e.vars[k] = old
		}
	}
	e.saved = e.saved[:len(e.saved)-1]
	e.depth--
}

/* declare (`:=`, `var`) a name in the current block; a name of an outer block is shadowed under a fresh Lean name */
func (e *n22env) declare(name, typ, state string) *n22var {
	old := e.vars[name]
	if old != nil && old.depth == e.depth {
		old.state = state
		if typ != "" {
			old.typ = typ
		}
		return old
	}
	lean := name
	if old != nil {
		*e.fresh++
		lean = fmt.Sprintf("%s_%d", name, *e.fresh)
	}
	if len(e.saved) > 0 {
		top := e.saved[len(e.saved)-1]
		if _, ok := top[name]; !ok {
			top[name] = old
		}
	}
	v := &n22var{lean: lean, typ: typ, state: state, depth: e.depth}
	e.vars[name] = v
	return v
}

type n22sig struct {
	params  []string
	ptypes  []string
	results []string
}

type n22 struct {
	funcs    map[string]*ast.FuncDecl
	structs  map[string]*ast.StructType
	sigs     map[string]n22sig
	b        *strings.Builder
	errs     []string
	cur      string
	curSig   n22sig
	closures map[string][]string // constructor of Construct -> captured variables
	closOrd  []string
	localFn  map[string]string // variable bound to a function literal -> constructor
	order    []string
	visiting map[string]bool
	doneFn   map[string]bool
}

type n22rec struct {
	lean   string
	fields [][3]string // model field, Go field (first of its pair) or "#o", reading
	show   []string    // presentation fields (first of their pair): computed, not kept by the model
}

/* the correspondence of records: model field <- Go field under a reading */
var n22Records = map[string]n22rec{
	"Post": {lean: "Pub.PostM", fields: [][3]string{
		{"kind", "kind", ""}, {"id", "id", ""}, {"title", "title", "Go.toObjR"}, {"parent", "parentObject", "Go.toObjR"},
		{"creators", "creators", "authors"}, {"recipients", "recipients", "authors"}, {"comments", "comments", "Go.toObjR"},
		{"bodyLinks", "body", "Go.resLinks"}, {"created", "created", "Go.toObjR"}, {"obj", "#o", ""}},
		show: []string{"media", "edited", "attachments"}},
	"Actor": {lean: "Pub.ActorM", fields: [][3]string{
		{"kind", "kind", ""}, {"id", "id", ""}, {"name", "name", "Go.toObjR"}, {"posts", "posts", "Go.toObjR"},
		{"bioLinks", "bio", "Go.resLinks"}, {"joined", "joined", "Go.toObjR"}, {"obj", "#o", ""}},
		show: []string{"handle", "pfp", "banner"}},
	"Activity": {lean: "Pub.ActivityM", fields: [][3]string{
		{"kind", "kind", ""}, {"id", "id", ""}, {"actor", "actor", "Go.toUnitR"}, {"target", "target", "targetOf"},
		{"created", "created", "Go.toObjR"}, {"obj", "#o", ""}},
		show: []string{}},
}

var n22TypeMap = map[string]string{
	"any": "JVal", "*url.URL": "Option Pub.U", "object.Object": "Pub.O", "map[string]any": "Pub.O", "string": "Str",
	"*Post": "Pub.PostM", "*Actor": "Pub.ActorM", "*Activity": "Pub.ActivityM", "*Collection": "Pub.CollM",
	"Tangible": "Tangible", "[]Tangible": "List Tangible", "[]*Link": "List X.Link", "*Link": "X.Link",
	"func(any, *url.URL) Tangible": "Construct", "[]any": "List JVal", "[]string": "List Str",
	"object.Markup": "X.Markup", "time.Time": "Int", "error": "Go.Error",
}

var n22Inject = map[string]string{"*Post": "post", "*Actor": "actor", "*Activity": "activity", "*Failure": "failure", "*Collection": "collection"}

func (g *n22) bad(format string, a ...any) string {
	msg := fmt.Sprintf(format, a...)
	g.errs = append(g.errs, g.cur+": "+msg)
	return "sorry_untranslatable"
}

func (g *n22) line(ind int, s string) {
	g.b.WriteString(strings.Repeat("  ", ind) + s + "\n")
}

func (g *n22) leanType(t string, forResult bool) string {
	if forResult && t == "any" {
		return "Any"
	}
	if l, ok := n22TypeMap[t]; ok {
		return l
	}
	return g.bad("type %s", t)
}

func (g *n22) resultType(res []string) string {
	if len(res) == 0 {
		return g.bad("no result")
	}
	if res[len(res)-1] == "error" {
		parts := []string{}
		for _, r := range res[:len(res)-1] {
			parts = append(parts, g.leanType(r, true))
		}
		if len(parts) == 0 {
			return g.bad("only an error")
		}
		if len(parts) == 1 && !strings.Contains(parts[0], " ") {
			return "Go.Res " + parts[0]
		}
		return "Go.Res (" + strings.Join(parts, " × ") + ")"
	}
	if len(res) != 1 {
		return g.bad("several results without an error")
	}
	return g.leanType(res[0], true)
}

/* ---------- expressions ---------- */

func n22lit(e ast.Expr) (string, bool) {
	if b, ok := e.(*ast.BasicLit); ok && b.Kind == token.STRING {
		s, err := strconv.Unquote(b.Value)
		if err == nil {
			return s, true
		}
	}
	return "", false
}

func (g *n22) sentinel(e ast.Expr) string {
	switch n22full(e) {
	case "object.ErrKeyNotPresent":
		return ".keyNotPresent"
	case "ErrWrongType":
		return ".wrongType"
	}
	return ""
}

func n22full(e ast.Expr) string {
	switch x := e.(type) {
	case *ast.Ident:
		return x.Name
	case *ast.SelectorExpr:
		return n22full(x.X) + "." + x.Sel.Name
	case *ast.IndexExpr:
		return n22full(x.X) + "[" + n22full(x.Index) + "]"
	case *ast.StarExpr:
		return "*" + n22full(x.X)
	}
	return "?"
}

/* the variable a name or a field of the struct under construction stands for */
func (g *n22) lookup(e ast.Expr, env *n22env) *n22var {
	switch x := e.(type) {
	case *ast.Ident:
		return env.vars[x.Name]
	case *ast.SelectorExpr:
		if id, ok := x.X.(*ast.Ident); ok && id.Name == env.strukt && env.strukt != "" {
			return env.vars[id.Name+"."+x.Sel.Name]
		}
	}
	return nil
}

/* a value expression: Lean term and Go type */
func (g *n22) expr(e ast.Expr, env *n22env) (string, string) {
	switch x := e.(type) {
	case *ast.ParenExpr:
		return g.expr(x.X, env)
	case *ast.BasicLit:
		if s, ok := n22lit(x); ok {
			return "(Go.str " + leanStr(s) + ")", "string"
		}
	case *ast.Ident:
		if x.Name == "nil" {
			return "none", "nil"
		}
		if fn, ok := g.localFn[x.Name]; ok {
			return g.construct(fn, env), "func(any, *url.URL) Tangible"
		}
		if v := env.vars[x.Name]; v != nil {
			if v.state == "unset" {
				return g.bad("%s is used where it holds no value", x.Name), v.typ
			}
			return v.lean, v.typ
		}
		if _, ok := g.funcs[x.Name]; ok {
			return g.construct(x.Name, env), "func(any, *url.URL) Tangible"
		}
	case *ast.SelectorExpr:
		if v := g.lookup(x, env); v != nil {
			if v.group != "" {
				return g.bad("%s read out of its pair", n22full(x)), v.typ
			}
			if v.state == "unset" {
				return g.bad("%s is used where it holds no value", n22full(x)), v.typ
			}
			return v.lean, v.typ
		}
	case *ast.IndexExpr:
		/* xs[i] inside a fan-out */
		if env.cell != "" && n22full(x.X) == env.listVar && n22full(x.Index) == env.cellIdx {
			l, t := g.expr(x.X, env)
			return "(← Go.index " + l + " " + env.cellIdx + ")", strings.TrimPrefix(t, "[]")
		}
	case *ast.FuncLit:
		return g.bad("function literal as a value"), ""
	case *ast.CallExpr:
		term, panics, res := g.call(x, env)
		if len(res) == 1 && res[0] != "error" {
			if panics {
				return "(← " + term + ")", res[0]
			}
			return term, res[0]
		}
		return g.bad("call %s used as a single value", n22full(x.Fun)), ""
	}
	return g.bad("expression %T %s", e, n22full(e)), ""
}

/* a function value handed on: a constructor of Construct with what the literal captures */
func (g *n22) construct(name string, env *n22env) string {
	caps := g.closures[name]
	if len(caps) == 0 {
		return "Construct." + name
	}
	parts := []string{}
	for _, c := range caps {
		if v := env.vars[c]; v != nil && v.state != "unset" {
			parts = append(parts, v.lean)
		} else {
			parts = append(parts, g.bad("captured %s", c))
		}
	}
	return "(Construct." + name + " " + strings.Join(parts, " ") + ")"
}

func (g *n22) conv(term, from, to string) string {
	if from == to || to == "" {
		return term
	}
	if from == "nil" && (strings.HasPrefix(to, "*") || to == "error") {
		return term
	}
	if inj, ok := n22Inject[from]; ok {
		if to == "Tangible" && inj != "collection" {
			return "(Tangible." + inj + " " + term + ")"
		}
		if to == "pub.Any" {
			return "(Any." + inj + " " + term + ")"
		}
	}
	if (from == "map[string]any" && to == "object.Object") || (from == "object.Object" && to == "map[string]any") {
		return term
	}
	return g.bad("a %s where a %s is expected", from, to)
}

/* an error expression known to be non-nil */
func (g *n22) errExpr(e ast.Expr, env *n22env) string {
	switch x := e.(type) {
	case *ast.Ident:
		if v := env.vars[x.Name]; v != nil && v.typ == "error" {
			if v.state == "nonnil" {
				return v.lean
			}
			return g.bad("error %s is not known to be non-nil here", x.Name)
		}
		if s := g.sentinel(x); s != "" {
			return "(Go.Error.sentinel " + s + ")"
		}
	case *ast.SelectorExpr:
		if s := g.sentinel(x); s != "" {
			return "(Go.Error.sentinel " + s + ")"
		}
	case *ast.CallExpr:
		switch n22full(x.Fun) {
		case "errors.New":
			if s, ok := n22lit(x.Args[0]); ok && len(x.Args) == 1 {
				return "(Go.Error.new (Go.str " + leanStr(s) + "))"
			}
		case "fmt.Errorf":
			if s, ok := n22lit(x.Args[0]); ok {
				/* the operands of the %w verbs, in order */
				ws := []string{}
				arg := 1
				for i := 0; i+1 < len(s); i++ {
					if s[i] == '%' {
						if s[i+1] == '%' {
							i++
							continue
						}
						if arg >= len(x.Args) {
							return g.bad("fmt.Errorf: too few operands")
						}
						if s[i+1] == 'w' {
							ws = append(ws, g.errExpr(x.Args[arg], env))
						}
						arg++
						i++
					}
				}
				switch len(ws) {
				case 0:
					return "(Go.Error.new (Go.str " + leanStr(s) + "))"
				case 1:
					return "(Go.Error.errorf1 (Go.str " + leanStr(s) + ") " + ws[0] + ")"
				case 2:
					return "(Go.Error.errorf2 (Go.str " + leanStr(s) + ") " + ws[0] + " " + ws[1] + ")"
				}
			}
		}
	}
	return g.bad("error expression %s", n22full(e))
}

/* a call: Lean term, whether it is in `Except Panic`, and the Go result types */
func (g *n22) call(c *ast.CallExpr, env *n22env) (string, bool, []string) {
	fn := n22full(c.Fun)
	args := func(types ...string) []string {
		out := []string{}
		if len(types) != len(c.Args) {
			return []string{g.bad("%s: %d arguments", fn, len(c.Args))}
		}
		for i, a := range c.Args {
			t, ty := g.expr(a, env)
			out = append(out, g.conv(t, ty, types[i]))
		}
		return out
	}
	if sel, ok := c.Fun.(*ast.SelectorExpr); ok {
		if recv := g.lookupPlain(sel.X, env); recv != nil && (recv.typ == "object.Object") {
			switch sel.Sel.Name {
			case "GetString", "GetAny", "GetList", "GetTime":
				rt := map[string]string{"GetString": "string", "GetAny": "any", "GetList": "[]any", "GetTime": "time.Time"}[sel.Sel.Name]
				a := args("string")
				return "(Go.ofObj (GenObject." + sel.Sel.Name + " L " + recv.lean + " " + a[0] + "))", false, []string{rt, "error"}
			case "GetMarkup":
				a := args("string", "string")
				return "(X.GetMarkup " + recv.lean + " " + strings.Join(a, " ") + ")", false, []string{"object.Markup", "[]string", "error"}
			}
			return g.bad("method %s of object.Object", sel.Sel.Name), false, []string{"?"}
		}
	}
	switch fn {
	case "client.FetchUnknown":
		a := args("any", "*url.URL")
		return "(Go.ofFetch (← GenClient.FetchUnknown L X.client " + strings.Join(a, " ") + "))", false, []string{"object.Object", "*url.URL", "error"}
	case "NewCollection":
		a := args("any", "*url.URL", "func(any, *url.URL) Tangible")
		return "(X.NewCollection " + strings.Join(a, " ") + ")", false, []string{"*Collection", "error"}
	case "NewCollectionFromObject":
		a := args("object.Object", "*url.URL", "func(any, *url.URL) Tangible")
		return "(X.NewCollectionFromObject " + strings.Join(a, " ") + ")", false, []string{"*Collection", "error"}
	case "SelectBestLink":
		a := args("[]*Link", "string")
		return "(X.SelectBestLink " + strings.Join(a, " ") + ")", true, []string{"*Link", "error"}
	case "SelectFirstLink":
		a := args("[]*Link")
		return "(X.SelectFirstLink " + strings.Join(a, " ") + ")", true, []string{"*Link", "error"}
	case "strings.ToLower":
		a := args("string")
		return "(X.ToLower " + a[0] + ")", false, []string{"string"}
	case "object.Object":
		a := args("map[string]any")
		return a[0], false, []string{"object.Object"}
	case "NewLink":
		if len(c.Args) == 1 {
			if cl, ok := c.Args[0].(*ast.CompositeLit); ok && n22full(cl.Type) == "object.Object" {
				/* an object.Object built in place: not a map[string]any for the type switch of NewLink */
				kvs := []string{}
				for _, el := range cl.Elts {
					kv, ok := el.(*ast.KeyValueExpr)
					if !ok {
						return g.bad("composite literal"), false, []string{"*Link", "error"}
					}
					k, _ := g.expr(kv.Key, env)
					v, vt := g.expr(kv.Value, env)
					if vt != "string" {
						v = g.bad("value of type %s in an object literal", vt)
					}
					kvs = append(kvs, "("+k+", JVal.str "+v+")")
				}
				return "(X.NewLinkOfObject [" + strings.Join(kvs, ", ") + "])", false, []string{"*Link", "error"}
			}
			t, ty := g.expr(c.Args[0], env)
			switch ty {
			case "any":
				return "(X.NewLink " + t + ")", false, []string{"*Link", "error"}
			case "map[string]any":
				return "(X.NewLink (JVal.obj " + t + "))", false, []string{"*Link", "error"}
			}
			return g.bad("NewLink of a %s", ty), false, []string{"*Link", "error"}
		}
	case "NewFailure":
		if len(c.Args) == 1 {
			return "(Failure.mk " + g.errExpr(c.Args[0], env) + ")", false, []string{"*Failure"}
		}
	}
	if sig, ok := g.sigs[fn]; ok {
		g.need(fn)
		a := args(sig.ptypes...)
		return "(" + fn + " L X " + strings.Join(a, " ") + ")", true, sig.results
	}
	return g.bad("call of %s", fn), false, []string{"?"}
}

func (g *n22) lookupPlain(e ast.Expr, env *n22env) *n22var {
	if id, ok := e.(*ast.Ident); ok {
		if v := env.vars[id.Name]; v != nil && v.state != "unset" {
			return v
		}
	}
	return nil
}

/* a condition: decided (static != "") or a Lean Bool */
func (g *n22) cond(e ast.Expr, env *n22env) (string, string) {
	switch x := e.(type) {
	case *ast.ParenExpr:
		return g.cond(x.X, env)
	case *ast.UnaryExpr:
		if x.Op == token.NOT {
			s, l := g.cond(x.X, env)
			if s == "true" {
				return "false", ""
			} else if s == "false" {
				return "true", ""
			}
			return "", "(!" + l + ")"
		}
	case *ast.BinaryExpr:
		switch x.Op {
		case token.LOR, token.LAND:
			s1, l1 := g.cond(x.X, env)
			s2, l2 := g.cond(x.Y, env)
			if s1 == "" && s2 == "" {
				op := " || "
				if x.Op == token.LAND {
					op = " && "
				}
				return "", "(" + l1 + op + l2 + ")"
			}
			return "", g.bad("a decided test inside %s", x.Op)
		case token.EQL, token.NEQ:
			/* an error against nil: decided by the path */
			for _, pair := range [][2]ast.Expr{{x.X, x.Y}, {x.Y, x.X}} {
				if id, ok := pair[1].(*ast.Ident); ok && id.Name == "nil" {
					v := g.lookup(pair[0], env)
					if v != nil && v.typ == "error" && v.group == "" {
						isNil := v.state == "nil"
						if v.state != "nil" && v.state != "nonnil" {
							return "", g.bad("error %s of unknown state compared with nil", n22full(pair[0]))
						}
						if (x.Op == token.EQL) == isNil {
							return "true", ""
						}
						return "false", ""
					}
					return "", g.bad("%s compared with nil", n22full(pair[0]))
				}
			}
			l, lt := g.expr(x.X, env)
			r, rt := g.expr(x.Y, env)
			if lt != "string" || rt != "string" {
				return "", g.bad("comparison of %s and %s", lt, rt)
			}
			if x.Op == token.EQL {
				return "", "(decide (" + l + " = " + r + "))"
			}
			return "", "(decide (" + l + " ≠ " + r + "))"
		}
	case *ast.CallExpr:
		switch n22full(x.Fun) {
		case "errors.Is":
			if len(x.Args) == 2 {
				s := g.sentinel(x.Args[1])
				if s == "" {
					return "", g.bad("errors.Is against %s", n22full(x.Args[1]))
				}
				v := g.lookup(x.Args[0], env)
				if v == nil || v.typ != "error" {
					return "", g.bad("errors.Is of %s", n22full(x.Args[0]))
				}
				if v.group != "" {
					gv := env.vars[v.group]
					return "", "(Go.Res.errIs " + gv.lean + " " + s + ")"
				}
				switch v.state {
				case "nil":
					return "false", ""
				case "nonnil":
					return "", "(Go.Error.is " + v.lean + " " + s + ")"
				}
				return "", g.bad("errors.Is of %s whose state is unknown", n22full(x.Args[0]))
			}
		case "slices.Contains":
			if len(x.Args) == 2 {
				if cl, ok := x.Args[0].(*ast.CompositeLit); ok && n22full(cl.Type) == "?" {
					if at, ok := cl.Type.(*ast.ArrayType); ok && n22full(at.Elt) == "string" {
						els := []string{}
						for _, el := range cl.Elts {
							s, ok := n22lit(el)
							if !ok {
								return "", g.bad("slices.Contains: element")
							}
							els = append(els, "Go.str "+leanStr(s))
						}
						v, vt := g.expr(x.Args[1], env)
						if vt != "string" {
							return "", g.bad("slices.Contains of a %s", vt)
						}
						return "", "(Go.containsStr [" + strings.Join(els, ", ") + "] " + v + ")"
					}
				}
			}
		}
	}
	return "", g.bad("condition %s", n22full(e))
}

/* ---------- statements ---------- */

type n22k func(env *n22env, ind int)

func (g *n22) terminates(ss []ast.Stmt) bool {
	if len(ss) == 0 {
		return false
	}
	switch x := ss[len(ss)-1].(type) {
	case *ast.ReturnStmt:
		return true
	case *ast.IfStmt:
		if x.Else == nil {
			return false
		}
		eb, ok := x.Else.(*ast.BlockStmt)
		if !ok {
			return g.terminates([]ast.Stmt{x.Else}) && g.terminates(x.Body.List)
		}
		return g.terminates(x.Body.List) && g.terminates(eb.List)
	}
	return false
}

/* a nested block: its own declarations end with it */
func (g *n22) block(ss []ast.Stmt, env *n22env, ind int, k n22k) {
	e := env.clone()
	e.enter()
	g.stmts(ss, e, ind, func(e2 *n22env, i2 int) {
		e3 := e2.clone()
		e3.leave()
		k(e3, i2)
	})
}

func (g *n22) isWg(e ast.Expr, method string) (bool, string) {
	es, ok := e.(*ast.CallExpr)
	if !ok {
		return false, ""
	}
	if n22full(es.Fun) == "wg."+method {
		if len(es.Args) == 1 {
			if b, ok := es.Args[0].(*ast.BasicLit); ok {
				return true, b.Value
			}
		}
		return true, ""
	}
	return false, ""
}

func n22isWgStmt(g *n22, s ast.Stmt, method string) (bool, string) {
	if es, ok := s.(*ast.ExprStmt); ok {
		return g.isWg(es.X, method)
	}
	return false, ""
}

/* the body of `go func() { BODY; wg.Done() }()` */
func (g *n22) goBody(s ast.Stmt) []ast.Stmt {
	gs, ok := s.(*ast.GoStmt)
	if !ok {
		return nil
	}
	fl, ok := gs.Call.Fun.(*ast.FuncLit)
	if !ok || len(gs.Call.Args) != 0 || len(fl.Type.Params.List) != 0 || len(fl.Body.List) == 0 {
		return nil
	}
	if ok, _ := n22isWgStmt(g, fl.Body.List[len(fl.Body.List)-1], "Done"); !ok {
		return nil
	}
	body := fl.Body.List[:len(fl.Body.List)-1]
	bad := false
	ast.Inspect(&ast.BlockStmt{List: body}, func(n ast.Node) bool {
		switch x := n.(type) {
		case *ast.ReturnStmt, *ast.GoStmt:
			bad = true
		case *ast.Ident:
			if x.Name == "wg" {
				bad = true
			}
		}
		return true
	})
	if bad {
		return nil
	}
	return body
}

/* names written and names mentioned by statements: variables and fields `x.f` */
func n22rw(ss []ast.Stmt) (map[string]bool, map[string]bool) {
	w, r := map[string]bool{}, map[string]bool{}
	local := map[string]bool{}
	ast.Inspect(&ast.BlockStmt{List: ss}, func(n ast.Node) bool {
		switch x := n.(type) {
		case *ast.AssignStmt:
			for _, l := range x.Lhs {
				name := n22full(l)
				if ie, ok := l.(*ast.IndexExpr); ok {
					name = n22full(ie.X)
				}
				if x.Tok == token.DEFINE {
					local[name] = true
				} else {
					w[name] = true
				}
			}
		case *ast.SelectorExpr:
			r[n22full(x)] = true
			return false
		case *ast.Ident:
			r[x.Name] = true
		}
		return true
	})
	for n := range local {
		delete(w, n)
		delete(r, n)
	}
	return w, r
}

func (g *n22) stmts(ss []ast.Stmt, env *n22env, ind int, k n22k) {
	if len(ss) == 0 {
		k(env, ind)
		return
	}
	s := ss[0]
	rest := ss[1:]
	next := func(e *n22env, i int) { g.stmts(rest, e, i, k) }

	/* wg.Add(n); go …; wg.Wait() */
	if ok, n := n22isWgStmt(g, s, "Add"); ok {
		want, _ := strconv.Atoi(n)
		bodies := [][]ast.Stmt{}
		seq := []ast.Stmt{}
		j := 0
		for ; j < len(rest); j++ {
			if ok, _ := n22isWgStmt(g, rest[j], "Wait"); ok {
				break
			}
			if b := g.goBody(rest[j]); b != nil {
				bodies = append(bodies, b)
				seq = append(seq, &ast.BlockStmt{List: b})
				continue
			}
			if as, ok := rest[j].(*ast.AssignStmt); ok && len(as.Rhs) == 1 {
				if _, ok := as.Rhs[0].(*ast.FuncLit); ok {
					seq = append(seq, rest[j])
					continue
				}
			}
			g.line(ind, g.bad("statement between wg.Add and wg.Wait"))
			return
		}
		if j == len(rest) || len(bodies) != want {
			g.line(ind, g.bad("wg.Add(%s) with %d goroutines", n, len(bodies)))
			return
		}
		for a := range bodies {
			wa, _ := n22rw(bodies[a])
			for b := range bodies {
				if a == b {
					continue
				}
				wb, rb := n22rw(bodies[b])
				for name := range wa {
					if wb[name] || rb[name] {
						g.line(ind, g.bad("goroutines %d and %d share %s", a+1, b+1, name))
						return
					}
				}
			}
		}
		g.line(ind, fmt.Sprintf("-- wg.Add(%d); %d goroutines, each writing only what no other touches; wg.Wait(): in program order", want, want))
		g.stmts(append(append([]ast.Stmt{}, seq...), rest[j+1:]...), env, ind, k)
		return
	}

	switch x := s.(type) {
	case *ast.BlockStmt:
		g.block(x.List, env, ind, next)
		return
	case *ast.DeclStmt:
		gd, ok := x.Decl.(*ast.GenDecl)
		if ok && gd.Tok == token.VAR {
			e := env.clone()
			for _, sp := range gd.Specs {
				vs := sp.(*ast.ValueSpec)
				if len(vs.Values) != 0 {
					g.line(ind, g.bad("var with a value"))
					return
				}
				t := typeStr(vs.Type)
				if t == "any" && len(g.curSig.results) == 1 && g.curSig.results[0] == "pub.Any" {
					t = "pub.Any" /* the `any` that holds items */
				}
				for _, n := range vs.Names {
					switch t {
					case "error":
						e.declare(n.Name, t, "nil")
					case "sync.WaitGroup":
						if n.Name != "wg" {
							g.line(ind, g.bad("wait group %s", n.Name))
							return
						}
					default:
						e.declare(n.Name, t, "unset")
					}
				}
			}
			next(e, ind)
			return
		}
	case *ast.ExprStmt:
		if ok, _ := g.isWg(x.X, "Wait"); ok {
			/* the goroutines it waits for were run where they were started */
			next(env, ind)
			return
		}
	case *ast.AssignStmt:
		g.assign(x, rest, env, ind, k)
		return
	case *ast.IfStmt:
		g.ifStmt(x, rest, env, ind, k)
		return
	case *ast.ReturnStmt:
		if len(rest) != 0 {
			g.line(ind, g.bad("statements after return"))
			return
		}
		g.ret(x, env, ind)
		return
	case *ast.RangeStmt:
		/* the creators loop: translated by unit listing from the same source */
		if n22full(x.X) == env.strukt+".creators" && g.cur == "NewPostFromObject" {
			v := g.lookup(x.X, env)
			idv := env.vars["id"]
			if v == nil || v.state != "ok" || idv == nil || idv.depth != 0 || len(rest) == 0 {
				g.line(ind, g.bad("creators loop"))
				return
			}
			g.line(ind, "-- for … := range "+n22full(x.X)+": the loop of unit listing (GenListing.NewPostFromObject_creators), an error it returns is returned here")
			g.line(ind, "match (← GenListing.NewPostFromObject_creators "+idv.lean+" "+v.lean+") with")
			g.line(ind, "| some err_creators => pure (.error err_creators)")
			g.line(ind, "| none =>")
			next(env, ind+1)
			return
		}
	case *ast.TypeSwitchStmt:
		g.typeSwitch(x, rest, env, ind, k)
		return
	}
	g.line(ind, g.bad("statement %T", s))
}

func (g *n22) typeSwitch(x *ast.TypeSwitchStmt, rest []ast.Stmt, env *n22env, ind int, k n22k) {
	as, ok := x.Assign.(*ast.AssignStmt)
	if !ok || x.Init != nil || len(as.Lhs) != 1 || len(as.Rhs) != 1 {
		g.line(ind, g.bad("type switch"))
		return
	}
	ta, ok := as.Rhs[0].(*ast.TypeAssertExpr)
	if !ok || ta.Type != nil {
		g.line(ind, g.bad("type switch"))
		return
	}
	subj, st := g.expr(ta.X, env)
	if st != "any" {
		g.line(ind, g.bad("type switch on a %s", st))
		return
	}
	name := as.Lhs[0].(*ast.Ident).Name
	g.line(ind, "match "+subj+" with")
	sawDefault := false
	for _, c := range x.Body.List {
		cc := c.(*ast.CaseClause)
		e := env.clone()
		e.enter()
		if cc.List == nil {
			sawDefault = true
			g.line(ind, "| _ =>")
			e.declare(name, "any", "unset")
		} else if len(cc.List) == 1 && typeStr(cc.List[0]) == "map[string]any" {
			v := e.declare(name, "map[string]any", "ok")
			g.line(ind, "| .obj "+v.lean+" =>")
		} else if len(cc.List) == 1 && typeStr(cc.List[0]) == "string" {
			v := e.declare(name, "string", "ok")
			g.line(ind, "| .str "+v.lean+" =>")
		} else {
			g.line(ind, "| "+g.bad("case of a type switch")+" =>")
		}
		g.stmts(cc.Body, e, ind+1, func(e2 *n22env, i2 int) {
			e3 := e2.clone()
			e3.leave()
			g.stmts(rest, e3, i2, k)
		})
	}
	if !sawDefault {
		g.line(ind, "| _ =>")
		g.stmts(rest, env, ind+1, k)
	}
}

/* the targets of an assignment: fields of the struct under construction, variables, `_`, a cell */
func (g *n22) isField(e ast.Expr, env *n22env) (string, bool) {
	if sel, ok := e.(*ast.SelectorExpr); ok && env.strukt != "" {
		if id, ok := sel.X.(*ast.Ident); ok && id.Name == env.strukt {
			return sel.Sel.Name, true
		}
	}
	return "", false
}

func (g *n22) fieldType(stype, field string) string {
	st := g.structs[stype]
	if st == nil {
		return ""
	}
	for _, f := range st.Fields.List {
		for _, n := range f.Names {
			if n.Name == field {
				return typeStr(f.Type)
			}
		}
	}
	return ""
}

func (g *n22) assign(x *ast.AssignStmt, rest []ast.Stmt, env *n22env, ind int, k n22k) {
	next := func(e *n22env, i int) { g.stmts(rest, e, i, k) }
	if len(x.Rhs) != 1 {
		g.line(ind, g.bad("parallel assignment"))
		return
	}
	rhs := x.Rhs[0]
	/* a function literal bound to a name: handed on, never called here */
	if fl, ok := rhs.(*ast.FuncLit); ok && len(x.Lhs) == 1 && x.Tok == token.DEFINE {
		name := x.Lhs[0].(*ast.Ident).Name
		g.localFn[name] = g.closure(g.cur+"_"+name, fl, env)
		g.line(ind, "-- "+name+" := func…: handed on as Construct."+g.localFn[name]+", its body belongs to unit listing")
		next(env, ind)
		return
	}
	/* p := &Post{} */
	if ue, ok := rhs.(*ast.UnaryExpr); ok && ue.Op == token.AND && len(x.Lhs) == 1 && x.Tok == token.DEFINE {
		if cl, ok := ue.X.(*ast.CompositeLit); ok && len(cl.Elts) == 0 && env.strukt == "" {
			st := n22full(cl.Type)
			if _, ok := n22Records[st]; ok && g.structs[st] != nil {
				e := env.clone()
				e.strukt = x.Lhs[0].(*ast.Ident).Name
				e.stype = st
				g.line(ind, "-- "+e.strukt+" := &"+st+"{}: its fields are variables here")
				next(e, ind)
				return
			}
		}
	}
	/* out := make([]T, len(xs)) and the loop that fills it */
	if ce, ok := rhs.(*ast.CallExpr); ok && n22full(ce.Fun) == "make" && len(x.Lhs) == 1 && x.Tok == token.DEFINE {
		g.makeLoop(x, ce, rest, env, ind, k)
		return
	}
	/* out[i] = v: the one write of a cell, last on its path */
	if ie, ok := x.Lhs[0].(*ast.IndexExpr); ok && len(x.Lhs) == 1 {
		if env.cell != "" && n22full(ie.X) == env.cell && n22full(ie.Index) == env.cellIdx && len(rest) == 0 && x.Tok == token.ASSIGN {
			t, ty := g.expr(rhs, env)
			val := g.conv(t, ty, env.cellTyp)
			if env.loopRet {
				g.line(ind, "pure (.ok "+val+")")
			} else {
				g.line(ind, "pure "+val)
			}
			return
		}
		g.line(ind, g.bad("write to %s", n22full(ie)))
		return
	}
	call, isCall := rhs.(*ast.CallExpr)
	if isCall && n22full(call.Fun) == "object.Object" {
		isCall = false
	}
	if !isCall {
		/* x = e, x := e, p.f = e */
		if len(x.Lhs) != 1 {
			g.line(ind, g.bad("assignment"))
			return
		}
		t, ty := g.expr(rhs, env)
		e := env.clone()
		if f, ok := g.isField(x.Lhs[0], env); ok {
			ft := g.fieldType(env.stype, f)
			v := &n22var{lean: env.strukt + "_" + f, typ: ft, state: "ok", depth: 0}
			e.vars[env.strukt+"."+f] = v
			g.line(ind, "let "+v.lean+" := "+g.conv(t, ty, ft))
			next(e, ind)
			return
		}
		id, ok := x.Lhs[0].(*ast.Ident)
		if !ok {
			g.line(ind, g.bad("assignment to %s", n22full(x.Lhs[0])))
			return
		}
		if x.Tok == token.DEFINE {
			if id.Name == n22full(rhs) && env.cell != "" && id.Name == env.cellIdx {
				/* i := i, the per-iteration copy: required by the fan-out, checked there */
				next(env, ind)
				return
			}
			v := e.declare(id.Name, ty, "ok")
			g.line(ind, "let "+v.lean+" := "+t)
		} else {
			v := e.vars[id.Name]
			if v == nil {
				g.line(ind, g.bad("assignment to %s", id.Name))
				return
			}
			g.line(ind, "let "+v.lean+" := "+g.conv(t, ty, v.typ))
			v.state = "ok"
		}
		next(e, ind)
		return
	}
	term, panics, res := g.call(call, env)
	if len(res) != len(x.Lhs) && !(len(res) == 1 && len(x.Lhs) == 1) {
		g.line(ind, g.bad("%d targets for %d results", len(x.Lhs), len(res)))
		return
	}
	bind := func(name string) {
		if panics || strings.Contains(term, "←") {
			if panics {
				g.line(ind, "let "+name+" ← "+term)
			} else {
				g.line(ind, "let "+name+" := "+term)
			}
		} else {
			g.line(ind, "let "+name+" := "+term)
		}
	}
	hasErr := res[len(res)-1] == "error"
	allFields := true
	for _, l := range x.Lhs {
		if _, ok := g.isField(l, env); !ok {
			allFields = false
		}
	}
	if allFields {
		e := env.clone()
		first, _ := g.isField(x.Lhs[0], env)
		gname := env.strukt + "_" + first
		if !hasErr {
			ft := g.fieldType(env.stype, first)
			if len(x.Lhs) != 1 || ft != res[0] {
				g.line(ind, g.bad("a %s stored in %s", res[0], n22full(x.Lhs[0])))
				return
			}
			e.vars[env.strukt+"."+first] = &n22var{lean: gname, typ: ft, state: "ok"}
			bind(gname)
			next(e, ind)
			return
		}
		/* the pair p.x, …, p.xErr as one Go.Res */
		for i, l := range x.Lhs {
			f, _ := g.isField(l, env)
			ft := g.fieldType(env.stype, f)
			if ft != res[i] {
				g.line(ind, g.bad("a %s stored in %s %s", res[i], n22full(l), ft))
				return
			}
			role := "val"
			if i == len(x.Lhs)-1 {
				role = "err"
			}
			e.vars[env.strukt+"."+f] = &n22var{lean: gname, typ: ft, state: "ok", group: env.strukt + "#" + first, role: role}
		}
		e.vars[env.strukt+"#"+first] = &n22var{lean: gname, typ: "pair", state: "ok"}
		bind(gname)
		next(e, ind)
		return
	}
	if !hasErr {
		if len(x.Lhs) != 1 {
			g.line(ind, g.bad("assignment"))
			return
		}
		id, ok := x.Lhs[0].(*ast.Ident)
		if !ok {
			g.line(ind, g.bad("assignment to %s", n22full(x.Lhs[0])))
			return
		}
		e := env.clone()
		var v *n22var
		if x.Tok == token.DEFINE {
			v = e.declare(id.Name, res[0], "ok")
			bind(v.lean)
		} else {
			v = e.vars[id.Name]
			if v == nil {
				g.line(ind, g.bad("assignment to %s", id.Name))
				return
			}
			v.state = "ok"
			if v.typ != res[0] {
				bind(v.lean + "_v")
				g.line(ind, "let "+v.lean+" := "+g.conv(v.lean+"_v", res[0], v.typ))
			} else {
				bind(v.lean)
			}
		}
		next(e, ind)
		return
	}
	/* v, err := f(…): once for the failure, once for the success */
	errT := x.Lhs[len(x.Lhs)-1]
	eid, ok := errT.(*ast.Ident)
	if !ok || eid.Name == "_" {
		g.line(ind, g.bad("the error of %s is not kept in a variable", n22full(call.Fun)))
		return
	}
	eErr, eOk := env.clone(), env.clone()
	declareIn := func(e *n22env, l ast.Expr, typ, state string) (*n22var, bool) {
		if f, ok := g.isField(l, e); ok {
			ft := g.fieldType(e.stype, f)
			v := &n22var{lean: e.strukt + "_" + f, typ: ft, state: state}
			e.vars[e.strukt+"."+f] = v
			return v, ft == typ || typ == ""
		}
		id, ok := l.(*ast.Ident)
		if !ok {
			return nil, false
		}
		if id.Name == "_" {
			return &n22var{lean: "_", typ: typ}, true
		}
		if x.Tok == token.DEFINE {
			return e.declare(id.Name, typ, state), true
		}
		v := e.vars[id.Name]
		if v == nil {
			return nil, false
		}
		v.state = state
		return v, true
	}
	ev, ok1 := declareIn(eErr, errT, "error", "nonnil")
	if !ok1 || ev == nil {
		g.line(ind, g.bad("error target"))
		return
	}
	for _, l := range x.Lhs[:len(x.Lhs)-1] {
		if _, ok := declareIn(eErr, l, "", "unset"); !ok {
			g.line(ind, g.bad("target %s", n22full(l)))
			return
		}
	}
	pats := []string{}
	post := []string{}
	for i, l := range x.Lhs[:len(x.Lhs)-1] {
		v, ok := declareIn(eOk, l, res[i], "ok")
		if !ok || v == nil {
			g.line(ind, g.bad("target %s", n22full(l)))
			return
		}
		if v.typ != res[i] && v.lean != "_" {
			if v.typ == "" {
				v.typ = res[i]
				pats = append(pats, v.lean)
			} else {
				pats = append(pats, v.lean+"_v")
				post = append(post, "let "+v.lean+" := "+g.conv(v.lean+"_v", res[i], v.typ))
			}
		} else {
			pats = append(pats, v.lean)
		}
	}
	declareIn(eOk, errT, "error", "nil")
	if panics {
		g.line(ind, "match (← "+term+") with")
	} else {
		g.line(ind, "match "+term+" with")
	}
	g.line(ind, "| .error "+ev.lean+" =>")
	g.stmts(rest, eErr, ind+1, k)
	pat := pats[0]
	if len(pats) > 1 {
		pat = "(" + strings.Join(pats, ", ") + ")"
	}
	g.line(ind, "| .ok "+pat+" =>")
	for _, p := range post {
		g.line(ind+1, p)
	}
	g.stmts(rest, eOk, ind+1, k)
}

/* `out := make([]T, len(xs))` followed by the fan-out or the fill loop */
func (g *n22) makeLoop(x *ast.AssignStmt, mk *ast.CallExpr, rest []ast.Stmt, env *n22env, ind int, k n22k) {
	out := x.Lhs[0].(*ast.Ident).Name
	if len(mk.Args) != 2 {
		g.line(ind, g.bad("make"))
		return
	}
	at, ok := mk.Args[0].(*ast.ArrayType)
	ln, ok2 := mk.Args[1].(*ast.CallExpr)
	if !ok || !ok2 || n22full(ln.Fun) != "len" || len(ln.Args) != 1 {
		g.line(ind, g.bad("make"))
		return
	}
	elt := typeStr(at.Elt)
	list := n22full(ln.Args[0])
	lv := env.vars[list]
	if lv == nil || lv.state != "ok" || !strings.HasPrefix(lv.typ, "[]") {
		g.line(ind, g.bad("make over %s", list))
		return
	}
	i := 0
	fan := false
	if i < len(rest) {
		if ds, ok := rest[i].(*ast.DeclStmt); ok {
			if gd, ok := ds.Decl.(*ast.GenDecl); ok && len(gd.Specs) == 1 {
				if vs, ok := gd.Specs[0].(*ast.ValueSpec); ok && typeStr(vs.Type) == "sync.WaitGroup" && len(vs.Names) == 1 && vs.Names[0].Name == "wg" {
					fan = true
					i++
				}
			}
		}
	}
	if i >= len(rest) {
		g.line(ind, g.bad("make without a loop"))
		return
	}
	rs, ok := rest[i].(*ast.RangeStmt)
	if !ok || n22full(rs.X) != list || rs.Tok != token.DEFINE || rs.Key == nil {
		g.line(ind, g.bad("make without a loop over %s", list))
		return
	}
	idx := n22full(rs.Key)
	after := rest[i+1:]
	/* the slice is not touched in the loop except by the one write; the list is only read */
	e := env.clone()
	e.enter()
	e.cell, e.cellIdx, e.cellTyp, e.listVar = out, idx, elt, list
	var body []ast.Stmt
	if fan {
		if rs.Value != nil || len(rs.Body.List) != 3 || len(after) == 0 {
			g.line(ind, g.bad("fan-out shape"))
			return
		}
		okAdd, n := n22isWgStmt(g, rs.Body.List[0], "Add")
		cp, okCp := rs.Body.List[1].(*ast.AssignStmt)
		body = g.goBody(rs.Body.List[2])
		okWait, _ := n22isWgStmt(g, after[0], "Wait")
		if !okAdd || n != "1" || !okCp || cp.Tok != token.DEFINE || len(cp.Lhs) != 1 || n22full(cp.Lhs[0]) != idx || n22full(cp.Rhs[0]) != idx || body == nil || !okWait {
			g.line(ind, g.bad("fan-out shape (wg.Add(1); %s := %s; go func() { …; wg.Done() }(); then wg.Wait())", idx, idx))
			return
		}
		after = after[1:]
		e.declare(idx, "int", "ok")
		e.loopRet = false
		g.line(ind, "-- "+out+" := make([]"+elt+", len("+list+")); for "+idx+" := range "+list+" { wg.Add(1); "+idx+" := "+idx+"; go func() { …; wg.Done() }() }; wg.Wait()")
		g.line(ind, "let "+out+" ← Go.fanout "+lv.lean+" (fun "+idx+" => do")
	} else {
		if rs.Value == nil {
			g.line(ind, g.bad("fill loop without an element variable"))
			return
		}
		body = rs.Body.List
		e.declare(idx, "int", "unset")
		e.declare(n22full(rs.Value), strings.TrimPrefix(lv.typ, "[]"), "ok")
		e.loopRet = true
		g.line(ind, "-- "+out+" := make([]"+elt+", len("+list+")); for "+idx+", "+n22full(rs.Value)+" := range "+list+" { …; "+out+"["+idx+"] = … }")
		g.line(ind, "match (← Go.fillLoop (fun "+e.vars[n22full(rs.Value)].lean+" => do")
	}
	/* no other mention of the slice or of the index in the body */
	w, r := n22rw(body)
	_ = r
	for name := range w {
		if name != out {
			if v := env.vars[name]; v != nil {
				g.line(ind+2, g.bad("the loop writes %s", name))
				return
			}
		}
	}
	g.stmts(body, e, ind+2, func(e2 *n22env, i2 int) {
		g.line(i2, g.bad("a path through the loop body that does not write %s[%s]", out, idx))
	})
	e2 := env.clone()
	v := e2.declare(out, "[]"+elt, "ok")
	if fan {
		g.line(ind+1, ")")
		_ = v
		g.stmts(after, e2, ind, k)
	} else {
		g.line(ind+1, ") "+lv.lean+") with")
		g.line(ind, "| .error ret_ => pure ret_")
		g.line(ind, "| .ok "+v.lean+" =>")
		g.stmts(after, e2, ind+1, k)
	}
}

func (g *n22) ifStmt(x *ast.IfStmt, rest []ast.Stmt, env *n22env, ind int, k n22k) {
	next := func(e *n22env, i int) { g.stmts(rest, e, i, k) }
	if x.Init != nil {
		/* v, ok := e.(T); ok */
		if as, ok := x.Init.(*ast.AssignStmt); ok && len(as.Lhs) == 2 && len(as.Rhs) == 1 {
			if ta, ok := as.Rhs[0].(*ast.TypeAssertExpr); ok && n22full(x.Cond) == n22full(as.Lhs[1]) && x.Else == nil && as.Tok == token.DEFINE {
				subj, st := g.expr(ta.X, env)
				tt := typeStr(ta.Type)
				e := env.clone()
				e.enter()
				switch {
				case st == "any" && tt == "map[string]any":
					v := e.declare(n22full(as.Lhs[0]), tt, "ok")
					g.line(ind, "match "+subj+" with")
					g.line(ind, "| .obj "+v.lean+" =>")
				case st == "pub.Any" && tt == "Tangible":
					v := e.declare(n22full(as.Lhs[0]), tt, "ok")
					g.line(ind, "match Any.asTangible "+subj+" with")
					g.line(ind, "| some "+v.lean+" =>")
				default:
					g.line(ind, g.bad("type assertion of a %s to %s", st, tt))
					return
				}
				g.stmts(x.Body.List, e, ind+1, func(e2 *n22env, i2 int) {
					e3 := e2.clone()
					e3.leave()
					next(e3, i2)
				})
				g.line(ind, "| _ =>")
				next(env, ind+1)
				return
			}
		}
		/* if v, err = f(…); cond { … }: the init in its own block */
		inner := &ast.IfStmt{Cond: x.Cond, Body: x.Body, Else: x.Else}
		if as, ok := x.Init.(*ast.AssignStmt); ok && as.Tok == token.ASSIGN {
			/* plain assignment: no new scope */
			g.stmts(append([]ast.Stmt{x.Init, inner}, rest...), env, ind, k)
			return
		}
		g.block([]ast.Stmt{x.Init, inner}, env, ind, next)
		return
	}
	/* both branches only assign the same targets: a conditional value */
	if tg := n22onlyAssign(x.Body.List); tg != "" && (x.Else == nil || n22elseAssign(x.Else) == tg) {
		s, c := g.cond(x.Cond, env)
		if s == "" {
			as := x.Body.List[0].(*ast.AssignStmt)
			if call, ok := as.Rhs[0].(*ast.CallExpr); ok && as.Tok == token.ASSIGN {
				t1, p1, r1 := g.call(call, env)
				wrap := func(t string, p bool) string {
					if p {
						return t
					}
					return "pure " + t
				}
				var t2 string
				if x.Else != nil {
					as2 := x.Else.(*ast.BlockStmt).List[0].(*ast.AssignStmt)
					call2, ok := as2.Rhs[0].(*ast.CallExpr)
					if !ok {
						g.line(ind, g.bad("else branch"))
						return
					}
					tt, p2, r2 := g.call(call2, env)
					if strings.Join(r1, ",") != strings.Join(r2, ",") {
						g.line(ind, g.bad("branches of different types"))
						return
					}
					t2 = wrap(tt, p2)
				} else {
					first, isF := g.isField(as.Lhs[0], env)
					if !isF {
						g.line(ind, g.bad("conditional assignment"))
						return
					}
					old := env.vars[env.strukt+"#"+first]
					if old == nil {
						old = env.vars[env.strukt+"."+first]
					}
					if old == nil {
						g.line(ind, g.bad("conditional assignment to a field not yet set"))
						return
					}
					t2 = "pure " + old.lean
				}
				/* register through the ordinary path, with the conditional term */
				fake := *as
				e := env.clone()
				first, isF := g.isField(as.Lhs[0], env)
				if !isF || len(r1) != len(as.Lhs) {
					g.line(ind, g.bad("conditional assignment"))
					return
				}
				_ = fake
				gname := env.strukt + "_" + first
				for i, l := range as.Lhs {
					f, ok := g.isField(l, env)
					if !ok || g.fieldType(env.stype, f) != r1[i] {
						g.line(ind, g.bad("conditional assignment to %s", n22full(l)))
						return
					}
					role := "val"
					if i == len(as.Lhs)-1 {
						role = "err"
					}
					e.vars[env.strukt+"."+f] = &n22var{lean: gname, typ: r1[i], state: "ok", group: env.strukt + "#" + first, role: role}
				}
				e.vars[env.strukt+"#"+first] = &n22var{lean: gname, typ: "pair", state: "ok"}
				g.line(ind, "let "+gname+" ← (if "+c+" then "+wrap(t1, p1)+" else "+t2+")")
				next(e, ind)
				return
			}
		}
	}
	s, c := g.cond(x.Cond, env)
	elseStmts := []ast.Stmt{}
	if x.Else != nil {
		if eb, ok := x.Else.(*ast.BlockStmt); ok {
			elseStmts = eb.List
		} else {
			elseStmts = []ast.Stmt{x.Else}
		}
	}
	switch s {
	case "true":
		g.line(ind, "-- "+n22condStr(x.Cond)+": true here")
		g.block(x.Body.List, env, ind, next)
		return
	case "false":
		g.line(ind, "-- "+n22condStr(x.Cond)+": false here")
		g.block(elseStmts, env, ind, next)
		return
	}
	g.line(ind, "if "+c+" then")
	g.block(x.Body.List, env, ind+1, next)
	g.line(ind, "else")
	g.block(elseStmts, env, ind+1, next)
}

func n22condStr(e ast.Expr) string {
	switch x := e.(type) {
	case *ast.BinaryExpr:
		return n22condStr(x.X) + x.Op.String() + n22condStr(x.Y)
	case *ast.UnaryExpr:
		return x.Op.String() + n22condStr(x.X)
	case *ast.CallExpr:
		return n22full(x.Fun) + "()"
	case *ast.ParenExpr:
		return "(" + n22condStr(x.X) + ")"
	}
	return n22full(e)
}

func n22onlyAssign(ss []ast.Stmt) string {
	if len(ss) != 1 {
		return ""
	}
	as, ok := ss[0].(*ast.AssignStmt)
	if !ok || len(as.Rhs) != 1 {
		return ""
	}
	parts := []string{}
	for _, l := range as.Lhs {
		parts = append(parts, n22full(l))
	}
	return strings.Join(parts, ",")
}

func n22elseAssign(s ast.Stmt) string {
	b, ok := s.(*ast.BlockStmt)
	if !ok {
		return ""
	}
	return n22onlyAssign(b.List)
}

func (g *n22) isZero(e ast.Expr) bool {
	if id, ok := e.(*ast.Ident); ok && id.Name == "nil" {
		return true
	}
	if cl, ok := e.(*ast.CompositeLit); ok && len(cl.Elts) == 0 {
		return true
	}
	return false
}

func (g *n22) ret(x *ast.ReturnStmt, env *n22env, ind int) {
	out := func(v string) {
		if env.loopRet {
			g.line(ind, "pure (.error "+v+")")
		} else {
			g.line(ind, "pure "+v)
		}
	}
	res := g.curSig.results
	/* return f(…) */
	if len(x.Results) == 1 && len(res) > 1 {
		if call, ok := x.Results[0].(*ast.CallExpr); ok {
			t, p, r := g.call(call, env)
			if strings.Join(r, ",") != strings.Join(res, ",") {
				out(g.bad("return of a call with results %v", r))
				return
			}
			if p {
				out("(← " + t + ")")
			} else {
				out(t)
			}
			return
		}
	}
	if len(x.Results) != len(res) {
		out(g.bad("return with %d values", len(x.Results)))
		return
	}
	if res[len(res)-1] == "error" {
		last := x.Results[len(x.Results)-1]
		isNil := false
		if id, ok := last.(*ast.Ident); ok {
			if id.Name == "nil" {
				isNil = true
			} else if v := env.vars[id.Name]; v != nil && v.typ == "error" && v.state == "nil" {
				isNil = true
			}
		}
		if !isNil {
			for _, r := range x.Results[:len(x.Results)-1] {
				if !g.isZero(r) {
					out(g.bad("a value returned together with an error"))
					return
				}
			}
			out("(.error " + g.errExpr(last, env) + ")")
			return
		}
		vals := []string{}
		for i, r := range x.Results[:len(x.Results)-1] {
			if id, ok := r.(*ast.Ident); ok && id.Name == env.strukt && env.strukt != "" {
				vals = append(vals, g.record(env))
				continue
			}
			t, ty := g.expr(r, env)
			vals = append(vals, g.conv(t, ty, res[i]))
		}
		v := vals[0]
		if len(vals) > 1 {
			v = "(" + strings.Join(vals, ", ") + ")"
		}
		out("(.ok " + v + ")")
		return
	}
	if cl, ok := x.Results[0].(*ast.CompositeLit); ok && strings.HasPrefix(res[0], "[]") {
		els := []string{}
		for _, el := range cl.Elts {
			t, ty := g.expr(el, env)
			els = append(els, g.conv(t, ty, strings.TrimPrefix(res[0], "[]")))
		}
		out("[" + strings.Join(els, ", ") + "]")
		return
	}
	t, ty := g.expr(x.Results[0], env)
	to := res[0]
	if ty == "pub.Any" && to == "any" {
		out(t)
		return
	}
	out(g.conv(t, ty, to))
}

/* the record of the model built from the fields assigned so far */
func (g *n22) record(env *n22env) string {
	rec := n22Records[env.stype]
	used := map[string]bool{}
	parts := []string{}
	for _, f := range rec.fields {
		if f[1] == "#o" {
			o := env.vars["o"]
			if o == nil || o.depth != 0 || o.typ != "object.Object" {
				return g.bad("the object the item is built from")
			}
			parts = append(parts, f[0]+" := "+o.lean)
			continue
		}
		v := env.vars[env.strukt+"#"+f[1]]
		if v == nil {
			v = env.vars[env.strukt+"."+f[1]]
		}
		if v == nil || v.state != "ok" {
			parts = append(parts, f[0]+" := "+g.bad("field %s was never assigned", f[1]))
			continue
		}
		used[f[1]] = true
		switch f[2] {
		case "":
			parts = append(parts, f[0]+" := "+v.lean)
		case "authors":
			parts = append(parts, f[0]+" := "+v.lean+".map authorOf")
		default:
			parts = append(parts, f[0]+" := "+f[2]+" "+v.lean)
		}
	}
	for _, s := range rec.show {
		used[s] = true
	}
	/* every field assigned must be accounted for */
	names := []string{}
	for name, v := range env.vars {
		if strings.HasPrefix(name, env.strukt+".") {
			f := strings.TrimPrefix(name, env.strukt+".")
			if v.group != "" {
				f = strings.TrimPrefix(v.group, env.strukt+"#")
			}
			if !used[f] {
				names = append(names, f)
			}
		}
	}
	sort.Strings(names)
	for _, f := range names {
		parts = append(parts, "obj := "+g.bad("field %s is assigned but has no place in the record", f))
	}
	return "({ " + strings.Join(parts, ", ") + " } : " + rec.lean + ")"
}

/* a function literal handed on: its name and the variables of the enclosing function it mentions */
func (g *n22) closure(name string, fl *ast.FuncLit, env *n22env) string {
	own := map[string]bool{}
	for _, p := range fl.Type.Params.List {
		for _, n := range p.Names {
			own[n.Name] = true
		}
	}
	ast.Inspect(fl.Body, func(n ast.Node) bool {
		if as, ok := n.(*ast.AssignStmt); ok && as.Tok == token.DEFINE {
			for _, l := range as.Lhs {
				own[n22full(l)] = true
			}
		}
		return true
	})
	caps := []string{}
	seen := map[string]bool{}
	ast.Inspect(fl.Body, func(n ast.Node) bool {
		switch x := n.(type) {
		case *ast.SelectorExpr:
			if id, ok := x.X.(*ast.Ident); ok && !own[id.Name] && env.vars[id.Name] == nil && id.Name != env.strukt {
				return false
			}
		case *ast.Ident:
			if !own[x.Name] && !seen[x.Name] {
				if v := env.vars[x.Name]; v != nil {
					if v.typ != "*url.URL" {
						caps = append(caps, x.Name+"!")
					} else {
						caps = append(caps, x.Name)
					}
					seen[x.Name] = true
				} else if x.Name == env.strukt && env.strukt != "" {
					caps = append(caps, x.Name+"!")
					seen[x.Name] = true
				}
			}
		}
		return true
	})
	clean := []string{}
	for _, c := range caps {
		if strings.HasSuffix(c, "!") {
			g.bad("the function literal %s captures %s", name, strings.TrimSuffix(c, "!"))
			continue
		}
		clean = append(clean, c)
	}
	if _, ok := g.closures[name]; !ok {
		g.closOrd = append(g.closOrd, name)
	}
	g.closures[name] = clean
	return name
}

/* ---------- functions ---------- */

var n22Pending = map[string]string{}

func (g *n22) need(fn string) {
	if g.doneFn[fn] {
		return
	}
	if g.visiting[fn] {
		g.bad("recursion through %s", fn)
		return
	}
	save, saveCur, saveSig, saveLocal := g.b, g.cur, g.curSig, g.localFn
	g.b = &strings.Builder{}
	g.function(fn)
	n22Pending[fn] = g.b.String()
	g.order = append(g.order, fn)
	g.b, g.cur, g.curSig, g.localFn = save, saveCur, saveSig, saveLocal
}

func (g *n22) function(fn string) {
	fd := g.funcs[fn]
	g.visiting[fn] = true
	g.cur = fn
	g.curSig = g.sigs[fn]
	g.localFn = map[string]string{}
	fresh := 0
	env := &n22env{vars: map[string]*n22var{}, fresh: &fresh}
	params := []string{"(L : Obj.Libs Int Pub.U)", "(X : Ext)"}
	for i, p := range g.curSig.params {
		env.vars[p] = &n22var{lean: p, typ: g.curSig.ptypes[i], state: "ok", depth: 0}
		params = append(params, "("+p+" : "+g.leanType(g.curSig.ptypes[i], false)+")")
	}
	/* a parameter holding a function literal inline (getCollection(o, k, id, func…)) is named after its key */
	rt := g.resultType(g.curSig.results)
	if len(g.curSig.results) == 1 && g.curSig.results[0] == "any" {
		/* the `any` that holds items */
		for _, v := range env.vars {
			_ = v
		}
	}
	g.line(0, "/-- `func "+fn+"` -/")
	g.line(0, "def "+fn+" "+strings.Join(params, " ")+" :")
	g.line(2, "Except Panic ("+rt+") := do")
	/* inline function literals in calls: bound to names first */
	body := g.hoistLits(fd.Body.List, fn)
	g.stmts(body, env, 1, func(e *n22env, ind int) {
		g.line(ind, g.bad("the function ends without a return"))
	})
	g.line(0, "")
	g.visiting[fn] = false
	g.doneFn[fn] = true
}

/* `f(…, func(…) {…})` as a statement's call argument: `lit_k := func…` before the statement */
func (g *n22) hoistLits(ss []ast.Stmt, fn string) []ast.Stmt {
	out := []ast.Stmt{}
	for _, s := range ss {
		if as, ok := s.(*ast.AssignStmt); ok && len(as.Rhs) == 1 {
			if call, ok := as.Rhs[0].(*ast.CallExpr); ok {
				for i, a := range call.Args {
					if fl, ok := a.(*ast.FuncLit); ok {
						name := "lit"
						if len(call.Args) > 1 {
							if s, ok := n22lit(call.Args[1]); ok {
								name = s
							}
						}
						id := ast.NewIdent(name)
						out = append(out, &ast.AssignStmt{Lhs: []ast.Expr{id}, Tok: token.DEFINE, Rhs: []ast.Expr{fl}})
						nc := *call
						nc.Args = append([]ast.Expr{}, call.Args...)
						nc.Args[i] = id
						na := *as
						na.Rhs = []ast.Expr{&nc}
						s = &na
					}
				}
			}
		}
		out = append(out, s)
	}
	return out
}

func translateNewitem(root string) (string, []string) {
	g := &n22{funcs: map[string]*ast.FuncDecl{}, structs: map[string]*ast.StructType{}, sigs: map[string]n22sig{},
		b: &strings.Builder{}, closures: map[string][]string{}, localFn: map[string]string{}, visiting: map[string]bool{}, doneFn: map[string]bool{}}
	n22Pending = map[string]string{}
	entries, err := os.ReadDir(filepath.Join(root, "pub"))
	if err != nil {
		return "def newitem := sorry_untranslatable\n", []string{"pub: " + err.Error()}
	}
	names := []string{}
	for _, e := range entries {
		if strings.HasSuffix(e.Name(), ".go") && !strings.HasSuffix(e.Name(), "_test.go") && !strings.HasSuffix(e.Name(), "verif_shim.go") {
			names = append(names, e.Name())
		}
	}
	sort.Strings(names)
	for _, n := range names {
		f := parseFile(root, filepath.Join("pub", n))
		for _, d := range f.Decls {
			switch x := d.(type) {
			case *ast.FuncDecl:
				if x.Recv == nil {
					g.funcs[x.Name.Name] = x
				}
			case *ast.GenDecl:
				for _, spec := range x.Specs {
					if ts, ok := spec.(*ast.TypeSpec); ok {
						if st, ok := ts.Type.(*ast.StructType); ok {
							g.structs[ts.Name.Name] = st
						}
					}
				}
			}
		}
	}
	units := []string{"getLinks", "getLinksShorthand", "getBestLinkShorthand", "getFirstLinkShorthand", "getBestLink",
		"getCollection", "getAndFetchUnkown", "NewActorFromObject", "NewActor", "getActor", "getActors",
		"NewPostFromObject", "NewPost", "getPostOrActor", "NewActivityFromObject", "NewActivity", "New", "NewTangible"}
	for _, u := range units {
		fd := g.funcs[u]
		if fd == nil || fd.Body == nil {
			g.cur = u
			g.bad("function not found")
			continue
		}
		sig := n22sig{}
		for _, p := range fd.Type.Params.List {
			for _, n := range p.Names {
				sig.params = append(sig.params, n.Name)
				sig.ptypes = append(sig.ptypes, typeStr(p.Type))
			}
		}
		if fd.Type.Results != nil {
			for _, r := range fd.Type.Results.List {
				cnt := len(r.Names)
				if cnt == 0 {
					cnt = 1
				}
				for i := 0; i < cnt; i++ {
					sig.results = append(sig.results, typeStr(r.Type))
				}
			}
		}
		if u == "New" && len(sig.results) == 1 && sig.results[0] == "any" {
			sig.results[0] = "pub.Any"
		}
		g.sigs[u] = sig
	}
	n22TypeMap["pub.Any"] = "Any"
	for _, u := range units {
		if g.funcs[u] != nil {
			g.need(u)
		}
	}
	var out strings.Builder
	w := func(s string) { out.WriteString(s + "\n") }
	w("set_option linter.unusedVariables false")
	w("")
	w("namespace GenNewitem")
	w("open GenListing (Tangible Any Failure)")
	w("")
	w("/-- the reading of a `[]Tangible` of authors as the model keeps it: an actor, or an error item in its place -/")
	w("def authorOf : Tangible → Pub.AorF")
	w("  | .actor a => .actor a")
	w("  | _ => .failure")
	w("")
	w("/-- the reading of the `Tangible` an activity points at as the model keeps it -/")
	w("def targetOf : Tangible → Pub.Target")
	w("  | .post p => .post p")
	w("  | .actor a => .actor a")
	w("  | _ => .failure")
	w("")
	w("/-- a function value handed to `NewCollection` / `NewCollectionFromObject`: which function (a literal is named after")
	w("    the function it stands in and the variable or key it is bound to) and the variables it captures -/")
	w("inductive Construct where")
	for _, c := range g.closOrd {
		ps := ""
		for _, p := range g.closures[c] {
			ps += " (" + p + " : Option Pub.U)"
		}
		w("  | " + c + ps)
	}
	for _, u := range units {
		used := false
		for _, t := range n22Pending {
			if strings.Contains(t, "Construct."+u+")") || strings.Contains(t, "Construct."+u+" ") || strings.Contains(t, "Construct."+u+"\n") {
				used = true
			}
		}
		if used {
			w("  | " + u)
		}
	}
	w("")
	w("/-- What the translated code takes from outside. -/")
	w("structure Ext where")
	w("  client : GenClient.Ext Pub.U")
	w("  Markup : Type")
	w("  Link : Type")
	w("  GetMarkup : Pub.O → Str → Str → Go.Res (Markup × List Str)")
	w("  NewLink : JVal → Go.Res Link")
	w("  /-- `NewLink(object.Object{…})`: the argument is not a `map[string]any` -/")
	w("  NewLinkOfObject : Pub.O → Go.Res Link")
	w("  SelectBestLink : List Link → Str → Except Panic (Go.Res Link)")
	w("  SelectFirstLink : List Link → Except Panic (Go.Res Link)")
	w("  ToLower : Str → Str")
	w("  NewCollection : JVal → Option Pub.U → Construct → Go.Res Pub.CollM")
	w("  NewCollectionFromObject : Pub.O → Option Pub.U → Construct → Go.Res Pub.CollM")
	w("")
	for _, fn := range g.order {
		out.WriteString(n22Pending[fn])
	}
	w("end GenNewitem")
	return out.String(), g.errs
}
