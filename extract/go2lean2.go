package main

/*
go2lean, second front end: package-level functions over strings, int, uint and bool (no structs).
Applied to the vertical layout functions of ansi/ansi.go (Height, CenterVertically,
ReplaceLastLine, SetLength, Squash), the subject of C16.

  types        string (a list of code points), int (Int), uint (Nat, subtraction wraps modulo 2^64),
               bool, []string, []rune (the same list of code points)
  statements   if / else if / else, = += :=, multi-value :=, var x = e, return, panic
  expressions  literals, + - / % (typed by their operands), comparisons, && || !, conversions
               int(), uint(), string(), []rune(), len, s[:k], s[k:], calls of translated functions,
               strings.Count/Split/Join/Repeat/ReplaceAll/Contains/LastIndex,
               calls of functions outside the translated set listed in `external`

Offsets into strings (strings.LastIndex, s[:k]) are code point offsets in the translation and byte
offsets in Go; they coincide in their only use, cutting at an ASCII newline.
*/

import (
	"fmt"
	"go/ast"
	"go/token"
	"strconv"
	"strings"
)

type f2l struct {
	colors bool // every function takes the processed colours `c : Colors` (package style)
	b      strings.Builder
	funcs  map[string]*ast.FuncDecl
	res    map[string]string // function -> result kind
	vars   map[string]string
	err    []string
}

/* functions outside the translated set: Lean term (pure) and result kind */
var external = map[string][2]string{
	"Scrub":       {"Ansi.scrub", "string"},
	"ansi.Scrub":  {"Ansi.scrub", "string"},
	"ansi.Apply":  {"Ansi.apply", "string"},
	"ansi.Indent": {"Ansi.indent", "string"},
	/* only ever called with len(links)-derived numbers */
	"superscript": {"Style.superscriptInt", "string"},
}

func colorField(e ast.Expr) (string, bool) {
	s := exprString(e)
	const p = "config.Parsed.Style.Colors."
	if strings.HasPrefix(s, p) {
		return "c." + strings.ToLower(s[len(p):len(p)+1]) + s[len(p)+1:], true
	}
	return "", false
}

func (g *f2l) fail(format string, a ...any) string {
	msg := fmt.Sprintf(format, a...)
	g.err = append(g.err, msg)
	return "(sorry_untranslatable /- " + msg + " -/)"
}

func kindOfType(e ast.Expr) string {
	switch t := e.(type) {
	case *ast.Ident:
		switch t.Name {
		case "string", "int", "uint", "bool":
			return t.Name
		}
	case *ast.ArrayType:
		if id, ok := t.Elt.(*ast.Ident); ok && t.Len == nil {
			switch id.Name {
			case "string":
				return "strs"
			case "rune":
				return "string"
			}
		}
	}
	return "?"
}

func leanOfKind(k string) string {
	return map[string]string{"string": "Str", "int": "Int", "uint": "Nat", "bool": "Bool", "strs": "List Str"}[k]
}

func (g *f2l) kind(e ast.Expr) string {
	switch x := e.(type) {
	case *ast.Ident:
		if k, ok := g.vars[x.Name]; ok {
			return k
		}
		if x.Name == "true" || x.Name == "false" {
			return "bool"
		}
	case *ast.BasicLit:
		switch x.Kind {
		case token.INT:
			return "const"
		case token.STRING:
			return "string"
		}
	case *ast.ParenExpr:
		return g.kind(x.X)
	case *ast.SelectorExpr:
		if _, ok := colorField(x); ok {
			return "string"
		}
	case *ast.UnaryExpr:
		if x.Op == token.NOT {
			return "bool"
		}
		return g.kind(x.X)
	case *ast.BinaryExpr:
		switch x.Op {
		case token.LSS, token.GTR, token.LEQ, token.GEQ, token.EQL, token.NEQ, token.LAND, token.LOR:
			return "bool"
		}
		if k := g.kind(x.X); k != "const" {
			return k
		}
		return g.kind(x.Y)
	case *ast.SliceExpr:
		return g.kind(x.X)
	case *ast.CallExpr:
		switch fn := x.Fun.(type) {
		case *ast.Ident:
			switch fn.Name {
			case "len":
				return "int"
			case "int", "uint", "string":
				return fn.Name
			}
			if k, ok := g.res[fn.Name]; ok {
				return k
			}
			if ext, ok := external[fn.Name]; ok {
				return ext[1]
			}
		case *ast.ArrayType:
			return kindOfType(fn)
		case *ast.SelectorExpr:
			if ext, ok := external[exprString(fn)]; ok {
				return ext[1]
			}
			if id, ok := fn.X.(*ast.Ident); ok && id.Name == "strings" {
				switch fn.Sel.Name {
				case "Count", "LastIndex":
					return "int"
				case "Split":
					return "strs"
				case "Join", "Repeat", "ReplaceAll":
					return "string"
				case "Contains":
					return "bool"
				}
			}
		}
	}
	return "?"
}

func (g *f2l) expr(e ast.Expr) string {
	switch x := e.(type) {
	case *ast.BasicLit:
		switch x.Kind {
		case token.INT:
			return x.Value
		case token.STRING:
			return "(Go.str " + x.Value + ")"
		}
	case *ast.Ident:
		return leanIdent(x.Name)
	case *ast.SelectorExpr:
		if f, ok := colorField(x); ok {
			return f
		}
	case *ast.ParenExpr:
		return "(" + g.expr(x.X) + ")"
	case *ast.UnaryExpr:
		switch x.Op {
		case token.SUB:
			return "(-" + g.expr(x.X) + ")"
		case token.NOT:
			return "(!" + g.expr(x.X) + ")"
		}
	case *ast.BinaryExpr:
		l, r := g.expr(x.X), g.expr(x.Y)
		k := g.kind(x)
		switch x.Op {
		case token.ADD:
			if k == "string" {
				return "(" + l + " ++ " + r + ")"
			}
			return "(" + l + " + " + r + ")"
		case token.SUB:
			if k == "uint" {
				return "(Go.usub " + l + " " + r + ")"
			}
			return "(" + l + " - " + r + ")"
		case token.QUO:
			if k == "uint" {
				return "(" + l + " / " + r + ")"
			}
			return "(Go.idiv " + l + " " + r + ")"
		case token.REM:
			if k == "uint" {
				return "(" + l + " % " + r + ")"
			}
			return "(Go.irem " + l + " " + r + ")"
		case token.LSS:
			return "decide (" + l + " < " + r + ")"
		case token.GTR:
			return "decide (" + l + " > " + r + ")"
		case token.LEQ:
			return "decide (" + l + " ≤ " + r + ")"
		case token.GEQ:
			return "decide (" + l + " ≥ " + r + ")"
		case token.EQL:
			return "decide (" + l + " = " + r + ")"
		case token.NEQ:
			return "decide (" + l + " ≠ " + r + ")"
		case token.LAND:
			return "(" + l + " && " + r + ")"
		case token.LOR:
			return "(" + l + " || " + r + ")"
		}
	case *ast.SliceExpr:
		if x.Max != nil {
			break
		}
		base := g.expr(x.X)
		conv := func(e ast.Expr) string {
			if g.kind(e) == "uint" {
				return "(Go.toInt " + g.expr(e) + ")"
			}
			return g.expr(e)
		}
		switch {
		case x.Low == nil && x.High != nil:
			return "(← Go.sliceTo " + base + " " + conv(x.High) + ")"
		case x.Low != nil && x.High == nil:
			return "(← Go.sliceFrom " + base + " " + conv(x.Low) + ")"
		}
	case *ast.CallExpr:
		args := []string{}
		for _, a := range x.Args {
			args = append(args, g.expr(a))
		}
		switch fn := x.Fun.(type) {
		case *ast.ArrayType:
			if kindOfType(fn) == "string" && len(args) == 1 {
				return args[0] // []rune(s): the same code points
			}
		case *ast.Ident:
			switch fn.Name {
			case "len":
				return "(Go.len " + args[0] + ")"
			case "string":
				return args[0]
			case "int":
				if g.kind(x.Args[0]) == "uint" {
					return "(Go.toInt " + args[0] + ")"
				}
				return args[0]
			case "uint":
				if g.kind(x.Args[0]) == "uint" {
					return args[0]
				}
				return "(Go.toUint " + args[0] + ")"
			}
			if _, ok := g.funcs[fn.Name]; ok {
				if g.colors {
					args = append([]string{"c"}, args...)
				}
				return "(← " + fn.Name + " " + strings.Join(args, " ") + ")"
			}
			if ext, ok := external[fn.Name]; ok {
				return "(" + ext[0] + " " + strings.Join(args, " ") + ")"
			}
		case *ast.SelectorExpr:
			if ext, ok := external[exprString(fn)]; ok {
				return "(" + ext[0] + " " + strings.Join(args, " ") + ")"
			}
			if id, ok := fn.X.(*ast.Ident); ok && id.Name == "strings" {
				/* separators must be one-character literals: the semantics library has the
				   single-character versions only */
				sep := func(i int) (string, bool) {
					bl, ok := x.Args[i].(*ast.BasicLit)
					if !ok || bl.Kind != token.STRING {
						return "", false
					}
					u, err := strconv.Unquote(bl.Value)
					r := []rune(u)
					if err != nil || len(r) != 1 {
						return "", false
					}
					return fmt.Sprintf("(Char.ofNat %d)", r[0]), true
				}
				switch fn.Sel.Name {
				case "Count", "Split", "Contains", "LastIndex":
					if c, ok := sep(1); ok {
						return "(Go.Strings." + strings.ToLower(fn.Sel.Name[:1]) + fn.Sel.Name[1:] + "Char " + args[0] + " " + c + ")"
					}
				case "ReplaceAll":
					if c, ok := sep(1); ok {
						return "(Go.Strings.replaceChar " + args[0] + " " + c + " " + args[2] + ")"
					}
				case "Join":
					return "(Go.Strings.join " + args[0] + " " + args[1] + ")"
				case "Repeat":
					return "(← Go.Strings.repeat " + args[0] + " " + args[1] + ")"
				}
			}
		}
	}
	return g.fail("expression %s", exprString(e))
}

/* `prefix`, `suffix` … are fine in Lean, but a few Go names are Lean keywords */
func leanIdent(n string) string {
	switch n {
	case "prefix", "suffix", "end", "from", "at", "open", "in", "then", "fun", "show", "have", "by", "do":
		return n + "_"
	}
	return n
}

func (g *f2l) line(ind int, s string) { g.b.WriteString(strings.Repeat("  ", ind) + s + "\n") }

func (g *f2l) stmts(ind int, list []ast.Stmt) {
	for _, st := range list {
		g.stmt(ind, st)
	}
}

func (g *f2l) stmt(ind int, st ast.Stmt) {
	switch s := st.(type) {
	case *ast.BlockStmt:
		g.stmts(ind, s.List)
	case *ast.ReturnStmt:
		if len(s.Results) != 1 {
			g.line(ind, g.fail("return arity"))
			return
		}
		g.line(ind, "return "+g.expr(s.Results[0]))
	case *ast.IfStmt:
		if s.Init != nil {
			g.line(ind, g.fail("if with init"))
			return
		}
		g.line(ind, "if "+g.expr(s.Cond)+" then")
		g.stmts(ind+1, s.Body.List)
		if s.Else != nil {
			g.line(ind, "else")
			g.stmt(ind+1, s.Else)
		}
	case *ast.ExprStmt:
		if call, ok := s.X.(*ast.CallExpr); ok {
			if id, ok := call.Fun.(*ast.Ident); ok && id.Name == "panic" {
				if bl, ok := call.Args[0].(*ast.BasicLit); ok {
					g.line(ind, "throw (Panic.explicit "+bl.Value+")")
					return
				}
			}
		}
		g.line(ind, g.fail("expression statement"))
	case *ast.DeclStmt:
		gd, ok := s.Decl.(*ast.GenDecl)
		if ok && gd.Tok == token.VAR && len(gd.Specs) == 1 {
			vs := gd.Specs[0].(*ast.ValueSpec)
			if len(vs.Names) == 1 && len(vs.Values) == 1 {
				g.vars[vs.Names[0].Name] = g.kind(vs.Values[0])
				g.line(ind, "let mut "+leanIdent(vs.Names[0].Name)+" := "+g.expr(vs.Values[0]))
				return
			}
		}
		g.line(ind, g.fail("declaration"))
	case *ast.AssignStmt:
		if len(s.Lhs) != len(s.Rhs) {
			g.line(ind, g.fail("assignment arity"))
			return
		}
		/* right-hand sides first (Go evaluates them before assigning) */
		rhs := make([]string, len(s.Rhs))
		kinds := make([]string, len(s.Rhs))
		for i, r := range s.Rhs {
			rhs[i], kinds[i] = g.expr(r), g.kind(r)
		}
		if len(s.Lhs) > 1 && s.Tok != token.DEFINE {
			g.line(ind, g.fail("parallel assignment"))
			return
		}
		for i, l := range s.Lhs {
			id, ok := l.(*ast.Ident)
			if !ok {
				g.line(ind, g.fail("assignment target"))
				continue
			}
			name := leanIdent(id.Name)
			switch s.Tok {
			case token.DEFINE:
				k := kinds[i]
				if k == "const" {
					k = "int"
				}
				g.vars[id.Name] = k
				g.line(ind, "let mut "+name+" : "+leanOfKind(k)+" := "+rhs[i])
			case token.ASSIGN:
				g.line(ind, name+" := "+rhs[i])
			case token.ADD_ASSIGN:
				if g.vars[id.Name] == "string" {
					g.line(ind, name+" := ("+name+" ++ "+rhs[i]+")")
				} else {
					g.line(ind, name+" := ("+name+" + "+rhs[i]+")")
				}
			default:
				g.line(ind, g.fail("assignment operator"))
			}
		}
	default:
		g.line(ind, g.fail("statement %T", st))
	}
}

func (g *f2l) function(fd *ast.FuncDecl) {
	g.vars = map[string]string{}
	params := []string{}
	rebinding := []string{}
	if g.colors {
		params = append(params, "(c : Colors)")
	}
	for _, p := range fd.Type.Params.List {
		k := kindOfType(p.Type)
		for _, n := range p.Names {
			g.vars[n.Name] = k
			params = append(params, "("+leanIdent(n.Name)+"0 : "+leanOfKind(k)+")")
			rebinding = append(rebinding, "let mut "+leanIdent(n.Name)+" := "+leanIdent(n.Name)+"0")
		}
	}
	g.line(0, fmt.Sprintf("def %s %s : Except Panic %s := do", fd.Name.Name, strings.Join(params, " "), leanOfKind(g.res[fd.Name.Name])))
	for _, r := range rebinding {
		g.line(1, r)
	}
	g.stmts(1, fd.Body.List)
	g.line(0, "")
}

func translateFuncs(f *ast.File, names []string, ns string, colors bool) (string, []string) {
	g := &f2l{funcs: map[string]*ast.FuncDecl{}, res: map[string]string{}, colors: colors}
	for _, d := range f.Decls {
		if fd, ok := d.(*ast.FuncDecl); ok && fd.Recv == nil {
			for _, n := range names {
				if fd.Name.Name == n {
					g.funcs[n] = fd
					if fd.Type.Results != nil && len(fd.Type.Results.List) == 1 {
						g.res[n] = kindOfType(fd.Type.Results.List[0].Type)
					}
				}
			}
		}
	}
	g.line(0, "namespace "+ns)
	g.line(0, "")
	/* callees before callers */
	emitted := map[string]bool{}
	var visit func(n string)
	visit = func(n string) {
		fd, ok := g.funcs[n]
		if !ok {
			g.fail("function %s not found", n)
			return
		}
		if emitted[n] {
			return
		}
		emitted[n] = true
		ast.Inspect(fd.Body, func(nd ast.Node) bool {
			if ce, ok := nd.(*ast.CallExpr); ok {
				if id, ok := ce.Fun.(*ast.Ident); ok {
					if _, ok := g.funcs[id.Name]; ok {
						visit(id.Name)
					}
				}
			}
			return true
		})
		g.function(fd)
	}
	for _, n := range names {
		visit(n)
	}
	g.line(0, "end "+ns)
	return g.b.String(), g.err
}
