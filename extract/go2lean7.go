package main

/*
Translation of splicer/splicer.go into Lean (lean/Generated/GoSplicer.lean, namespace GenSplicer):
the element type of `type Splicer []struct{…}` and the methods named by the caller (Harvest,
clone, replenish, microharvest), statement by statement, as `do` blocks in `Except Panic`.

State-passing: a `Splicer` is a Go slice of structs that the methods mutate in place through
`s[i].f = v`.  The translation carries the slice as a `List` in a mutable variable of the `do`
block, turns `s[i].f = v` into `s ← Go.modify s i (fun cell => { cell with f := v })`
(bounds-checked), and a method that writes through its receiver returns the new receiver next
to its results.  Pointers to a splicer (`*Splicer`, `&newSplicer`) are the value itself.

What is read from the AST: the struct fields and their types; every statement of the bodies in
order; loop headers (`for i, x := range s`, `for i := range s`, `for i := lo; i < hi; i++` with
the comparison operator and both bounds); conditions with their operators and operand order;
slice expressions with their bounds; integer conversions; literals; the `nil` tests on interface
values (interfaces are `Option`); the external calls `X.page.Harvest(a, b)` (a parameter `hv`
whose type is read from the interface in pub/interfaces.go) and `A.Timestamp().After(B.Timestamp())`
(a parameter `ts : Tangible → Int`; After / Before / Equal are > / < / = on instants, receiver
on the left, argument on the right).

The goroutine fan-out

	var wg sync.WaitGroup
	for i, x := range s { i := i; x := x; wg.Add(1); go func() { BODY; wg.Done() }() }
	wg.Wait()

is recognised in exactly this shape, and only when BODY touches the ranged slice at `s[i]` alone
and assigns to no variable declared outside the closure (then the closures commute; property C08
checks the same disjointness on the extracted facts).  It becomes the sequential loop over the
indices in order.  Anything else with `go`, `wg` or `sync` is rejected.

Anything not understood becomes the identifier `sorry_untranslatable`, which does not exist:
the generated file does not build and the obligations of the property fail.
*/

import (
	"fmt"
	"go/ast"
	"go/token"
	"strings"
)

type s7 struct {
	b       strings.Builder
	errs    []string
	typeNm  string
	forder  []string
	fkind   map[string]string
	methods map[string]*ast.FuncDecl
	mutates map[string]bool
	usesHv  map[string]bool
	usesTs  map[string]bool
	rkinds  map[string][]string
	iface   map[string]*ast.FuncType // methods of pub.Container

	/* per function */
	fn       string
	vars     map[string]string
	params   map[string]bool
	recv     string
	mut      bool
	tmp      int
	wg       string
	needWait bool
	results  []string
}

func (g *s7) fail(format string, a ...any) string {
	msg := fmt.Sprintf(format, a...)
	g.errs = append(g.errs, g.fn+": "+msg)
	return "(sorry_untranslatable /- " + strings.ReplaceAll(msg, "-/", "- /") + " -/)"
}

func (g *s7) line(ind int, s string) { g.b.WriteString(strings.Repeat("  ", ind) + s + "\n") }

func (g *s7) fresh(p string) string {
	g.tmp++
	return fmt.Sprintf("%s%d", p, g.tmp)
}

/* kinds: splicer, source, int, uint, tangible, container, tangibles */
func (g *s7) kindOfType(e ast.Expr) string {
	switch t := e.(type) {
	case *ast.Ident:
		switch t.Name {
		case "int":
			return "int"
		case "uint":
			return "uint"
		case "Tangible":
			return "tangible"
		case "Container":
			return "container"
		}
		if t.Name == g.typeNm {
			return "splicer"
		}
	case *ast.StarExpr:
		if id, ok := t.X.(*ast.Ident); ok && id.Name == g.typeNm {
			return "splicer"
		}
	case *ast.SelectorExpr:
		switch exprString(t) {
		case "pub.Tangible":
			return "tangible"
		case "pub.Container":
			return "container"
		}
	case *ast.ArrayType:
		if t.Len == nil && g.kindOfType(t.Elt) == "tangible" {
			return "tangibles"
		}
	}
	return "?"
}

func s7LeanType(k string) string {
	switch k {
	case "splicer":
		return "Splicer Container Tangible"
	case "source":
		return "Source Container Tangible"
	case "int":
		return "Int"
	case "uint":
		return "Nat"
	case "tangible":
		return "Option Tangible"
	case "container":
		return "Option Container"
	case "tangibles":
		return "List (Option Tangible)"
	}
	return "sorry_untranslatable"
}

func s7Zero(k string) string {
	switch k {
	case "int", "uint":
		return "0"
	case "tangible", "container":
		return "none"
	case "tangibles", "splicer":
		return "[]"
	}
	return "sorry_untranslatable"
}

func isIdent(e ast.Expr, name string) bool {
	id, ok := e.(*ast.Ident)
	return ok && id.Name == name
}

/* the kind of an expression ("?" when unknown; an untyped integer literal is "lit") */
func (g *s7) kind(e ast.Expr) string {
	switch x := e.(type) {
	case *ast.ParenExpr:
		return g.kind(x.X)
	case *ast.Ident:
		if k, ok := g.vars[x.Name]; ok {
			return k
		}
	case *ast.BasicLit:
		if x.Kind == token.INT {
			return "lit"
		}
	case *ast.SelectorExpr:
		if g.kind(x.X) == "source" {
			if k, ok := g.fkind[x.Sel.Name]; ok {
				return k
			}
		}
	case *ast.IndexExpr:
		switch g.kind(x.X) {
		case "splicer":
			return "source"
		case "tangibles":
			return "tangible"
		}
	case *ast.SliceExpr:
		return g.kind(x.X)
	case *ast.UnaryExpr:
		if x.Op == token.AND {
			return g.kind(x.X)
		}
	case *ast.CompositeLit:
		return g.kindOfType(x.Type)
	case *ast.CallExpr:
		if id, ok := x.Fun.(*ast.Ident); ok {
			switch id.Name {
			case "len":
				return "int"
			case "int":
				return "int"
			case "uint":
				return "uint"
			case "append":
				if len(x.Args) > 0 {
					return g.kind(x.Args[0])
				}
			case "make":
				if len(x.Args) > 0 {
					return g.kindOfType(x.Args[0])
				}
			}
		}
		if m, _, ok := g.ownCall(x); ok {
			if rk := g.rkinds[m]; len(rk) == 1 {
				return rk[0]
			}
		}
	case *ast.BinaryExpr:
		switch x.Op {
		case token.ADD, token.SUB:
			a, b := g.kind(x.X), g.kind(x.Y)
			if a == "lit" {
				return b
			}
			if b == "lit" || a == b {
				return a
			}
		}
	}
	return "?"
}

/* v.m(args) with v a splicer variable and m a translated method */
func (g *s7) ownCall(x *ast.CallExpr) (string, string, bool) {
	se, ok := x.Fun.(*ast.SelectorExpr)
	if !ok {
		return "", "", false
	}
	id, ok := se.X.(*ast.Ident)
	if !ok || g.vars[id.Name] != "splicer" {
		return "", "", false
	}
	if _, ok := g.methods[se.Sel.Name]; !ok {
		return "", "", false
	}
	return se.Sel.Name, id.Name, true
}

/* `m hv ts v args` */
func (g *s7) ownCallText(m, v string, x *ast.CallExpr) string {
	parts := []string{leanIdent7(m)}
	if g.usesHv[m] {
		parts = append(parts, "hv")
	}
	if g.usesTs[m] {
		parts = append(parts, "ts")
	}
	parts = append(parts, v)
	fd := g.methods[m]
	n := 0
	for _, p := range fd.Type.Params.List {
		for range p.Names {
			if n < len(x.Args) {
				want := g.kindOfType(p.Type)
				got := g.kind(x.Args[n])
				if got != want && got != "lit" {
					parts = append(parts, g.fail("argument %d of %s has kind %s, want %s", n, m, got, want))
				} else {
					parts = append(parts, g.expr(x.Args[n]))
				}
			}
			n++
		}
	}
	if n != len(x.Args) {
		parts = append(parts, g.fail("arity of %s", m))
	}
	return strings.Join(parts, " ")
}

func leanIdent7(n string) string { return n }

/* an instant: X.Timestamp() with X an interface value */
func (g *s7) instant(e ast.Expr) string {
	if c, ok := e.(*ast.CallExpr); ok && len(c.Args) == 0 {
		if se, ok := c.Fun.(*ast.SelectorExpr); ok && se.Sel.Name == "Timestamp" && g.kind(se.X) == "tangible" {
			return "(ts (← Go.deref " + g.expr(se.X) + "))"
		}
	}
	return g.fail("instant %s", exprString(e))
}

func (g *s7) expr(e ast.Expr) string {
	switch x := e.(type) {
	case *ast.ParenExpr:
		return g.expr(x.X)
	case *ast.Ident:
		switch x.Name {
		case "true", "false":
			return x.Name
		}
		if _, ok := g.vars[x.Name]; ok {
			return x.Name
		}
		return g.fail("identifier %s", x.Name)
	case *ast.BasicLit:
		if x.Kind == token.INT {
			return x.Value
		}
	case *ast.SelectorExpr:
		if g.kind(x.X) == "source" {
			if _, ok := g.fkind[x.Sel.Name]; ok {
				return g.expr(x.X) + "." + x.Sel.Name
			}
		}
	case *ast.IndexExpr:
		switch g.kind(x.X) {
		case "splicer", "tangibles":
			if k := g.kind(x.Index); k == "int" || k == "lit" {
				return "(← Go.index " + g.expr(x.X) + " " + g.expr(x.Index) + ")"
			}
		}
	case *ast.SliceExpr:
		if k := g.kind(x.X); (k == "tangibles" || k == "splicer") && !x.Slice3 {
			switch {
			case x.Low != nil && x.High == nil:
				return "(← Go.sliceFrom " + g.expr(x.X) + " " + g.intExpr(x.Low) + ")"
			case x.Low == nil && x.High != nil:
				return "(← Go.sliceTo " + g.expr(x.X) + " " + g.intExpr(x.High) + ")"
			case x.Low == nil && x.High == nil:
				return g.expr(x.X)
			}
		}
	case *ast.UnaryExpr:
		switch x.Op {
		case token.AND:
			if g.kind(x.X) == "splicer" {
				return g.expr(x.X)
			}
		case token.NOT:
			return "(!" + g.expr(x.X) + ")"
		}
	case *ast.CompositeLit:
		if g.kindOfType(x.Type) == "tangibles" {
			items := []string{}
			for _, el := range x.Elts {
				if g.kind(el) != "tangible" {
					items = append(items, g.fail("element %s", exprString(el)))
				} else {
					items = append(items, g.expr(el))
				}
			}
			return "[" + strings.Join(items, ", ") + "]"
		}
	case *ast.CallExpr:
		if id, ok := x.Fun.(*ast.Ident); ok {
			switch id.Name {
			case "len":
				if len(x.Args) == 1 {
					if k := g.kind(x.Args[0]); k == "tangibles" || k == "splicer" {
						return "(Go.len " + g.expr(x.Args[0]) + ")"
					}
				}
			case "int":
				if len(x.Args) == 1 {
					switch g.kind(x.Args[0]) {
					case "uint":
						return "(Go.toInt " + g.expr(x.Args[0]) + ")"
					case "int":
						return g.expr(x.Args[0])
					}
				}
			case "uint":
				if len(x.Args) == 1 {
					switch g.kind(x.Args[0]) {
					case "int":
						return "(Go.toUint " + g.expr(x.Args[0]) + ")"
					case "uint":
						return g.expr(x.Args[0])
					}
				}
			case "append":
				if len(x.Args) == 2 && g.kind(x.Args[0]) == "tangibles" {
					if x.Ellipsis != token.NoPos {
						if g.kind(x.Args[1]) == "tangibles" {
							return "(" + g.expr(x.Args[0]) + " ++ " + g.expr(x.Args[1]) + ")"
						}
					} else if g.kind(x.Args[1]) == "tangible" {
						return "(" + g.expr(x.Args[0]) + " ++ [" + g.expr(x.Args[1]) + "])"
					}
				}
			case "make":
				if len(x.Args) == 2 {
					if k := g.kindOfType(x.Args[0]); k == "splicer" || k == "tangibles" {
						return "(← Go.make " + g.intExpr(x.Args[1]) + ")"
					}
				}
			}
		}
		if se, ok := x.Fun.(*ast.SelectorExpr); ok && len(x.Args) == 1 {
			/* A.Timestamp().After(B.Timestamp()): receiver left, argument right */
			op := map[string]string{"After": ">", "Before": "<", "Equal": "="}[se.Sel.Name]
			if op != "" {
				return "decide (" + g.instant(se.X) + " " + op + " " + g.instant(x.Args[0]) + ")"
			}
		}
		if m, v, ok := g.ownCall(x); ok && !g.mutates[m] && len(g.rkinds[m]) == 1 {
			return "(← " + g.ownCallText(m, v, x) + ")"
		}
		/* the external call through a container field */
		if se, ok := x.Fun.(*ast.SelectorExpr); ok && g.kind(se.X) == "container" {
			if ft, ok := g.iface[se.Sel.Name]; ok && se.Sel.Name == "Harvest" {
				args := []string{}
				n := 0
				for _, p := range ft.Params.List {
					cnt := len(p.Names)
					if cnt == 0 {
						cnt = 1
					}
					for j := 0; j < cnt; j++ {
						if n < len(x.Args) {
							want := g.kindOfType(p.Type)
							if got := g.kind(x.Args[n]); got != want && got != "lit" {
								args = append(args, g.fail("argument %d of %s has kind %s, want %s", n, se.Sel.Name, got, want))
							} else {
								args = append(args, g.expr(x.Args[n]))
							}
						}
						n++
					}
				}
				if n != len(x.Args) {
					return g.fail("arity of %s", exprString(x))
				}
				return "(hv (← Go.deref " + g.expr(se.X) + ") " + strings.Join(args, " ") + ")"
			}
		}
	case *ast.BinaryExpr:
		switch x.Op {
		case token.ADD, token.SUB:
			return g.intExpr(e)
		case token.LAND, token.LOR:
			a, b := g.expr(x.X), g.expr(x.Y)
			if strings.Contains(b, "(←") {
				return g.fail("effect on the right of a short-circuit operator: %s", exprString(e))
			}
			op := "&&"
			if x.Op == token.LOR {
				op = "||"
			}
			return "(" + a + " " + op + " " + b + ")"
		case token.EQL, token.NEQ:
			if isIdent(x.Y, "nil") {
				switch g.kind(x.X) {
				case "tangible", "container":
					if x.Op == token.EQL {
						return "(Option.isNone " + g.expr(x.X) + ")"
					}
					return "(Option.isSome " + g.expr(x.X) + ")"
				case "tangibles":
					if x.Op == token.EQL {
						return "(Go.isNil " + g.expr(x.X) + ")"
					}
					return "(!(Go.isNil " + g.expr(x.X) + "))"
				}
				return g.fail("nil test on %s", exprString(x.X))
			}
			fallthrough
		case token.LSS, token.GTR, token.LEQ, token.GEQ:
			a, b := g.kind(x.X), g.kind(x.Y)
			if (a == "int" || a == "uint" || a == "lit") && (b == a || b == "lit" || a == "lit") {
				op := map[token.Token]string{token.LSS: "<", token.GTR: ">", token.LEQ: "≤", token.GEQ: "≥", token.EQL: "=", token.NEQ: "≠"}[x.Op]
				return "decide (" + g.intExpr(x.X) + " " + op + " " + g.intExpr(x.Y) + ")"
			}
		}
	}
	return g.fail("expression %s", exprString(e))
}

/* integer expression: `int` is unbounded, `uint` addition and subtraction wrap */
func (g *s7) intExpr(e ast.Expr) string {
	switch x := e.(type) {
	case *ast.ParenExpr:
		return g.intExpr(x.X)
	case *ast.BinaryExpr:
		k := g.kind(e)
		a, b := g.intExpr(x.X), g.intExpr(x.Y)
		switch {
		case x.Op == token.ADD && k == "int":
			return "(" + a + " + " + b + ")"
		case x.Op == token.SUB && k == "int":
			return "(" + a + " - " + b + ")"
		case x.Op == token.ADD && k == "uint":
			return "(Go.uadd " + a + " " + b + ")"
		case x.Op == token.SUB && k == "uint":
			return "(Go.usub " + a + " " + b + ")"
		}
		return g.fail("integer expression %s", exprString(e))
	}
	switch g.kind(e) {
	case "int", "uint", "lit":
		return g.expr(e)
	}
	return g.fail("integer expression %s", exprString(e))
}

/* S[i].f with S a splicer variable and i an identifier: (S, i, f) */
func (g *s7) cellField(e ast.Expr) (string, string, string, bool) {
	se, ok := e.(*ast.SelectorExpr)
	if !ok {
		return "", "", "", false
	}
	ix, ok := se.X.(*ast.IndexExpr)
	if !ok {
		return "", "", "", false
	}
	s, ok1 := ix.X.(*ast.Ident)
	i, ok2 := ix.Index.(*ast.Ident)
	if !ok1 || !ok2 || g.vars[s.Name] != "splicer" || g.vars[i.Name] != "int" {
		return "", "", "", false
	}
	if _, ok := g.fkind[se.Sel.Name]; !ok {
		return "", "", "", false
	}
	return s.Name, i.Name, se.Sel.Name, true
}

func (g *s7) writable(ind int, v string) {
	if v == g.recv && !g.mut {
		g.line(ind, "let _ := "+g.fail("write through the receiver of a method not classified as mutating"))
	}
	if g.params[v] {
		g.line(ind, "let _ := "+g.fail("assignment to parameter %s", v))
	}
}

/* target = value (value is a pure Lean term of kind k) */
func (g *s7) store(ind int, target ast.Expr, value string, k string) {
	if isIdent(target, "_") {
		return
	}
	if id, ok := target.(*ast.Ident); ok {
		if have, ok := g.vars[id.Name]; ok && have == k {
			g.writable(ind, id.Name)
			g.line(ind, id.Name+" := "+value)
			return
		}
		g.line(ind, "let _ := "+g.fail("assignment of a %s to %s", k, id.Name))
		return
	}
	if s, i, f, ok := g.cellField(target); ok && g.fkind[f] == k {
		g.writable(ind, s)
		g.line(ind, s+" ← Go.modify "+s+" "+i+" (fun cell => { cell with "+f+" := "+value+" })")
		return
	}
	g.line(ind, "let _ := "+g.fail("assignment target %s", exprString(target)))
}

/* value of an expression bound to a fresh name when it has effects or is not atomic */
func (g *s7) bound(ind int, text string) string {
	v := g.fresh("v")
	g.line(ind, "let "+v+" := "+text)
	return v
}

func tupleProj(r string, k, n int) string {
	if n == 1 {
		return r
	}
	if k < n-1 {
		return r + strings.Repeat(".2", k) + ".1"
	}
	return r + strings.Repeat(".2", n-1)
}

/* a statement-level call of an own method: returns the Lean names of its results */
func (g *s7) callStmt(ind int, x *ast.CallExpr) ([]string, []string, bool) {
	m, v, ok := g.ownCall(x)
	if !ok {
		return nil, nil, false
	}
	rk := g.rkinds[m]
	text := g.ownCallText(m, v, x)
	if !g.mutates[m] {
		r := g.fresh("r")
		g.line(ind, "let "+r+" ← "+text)
		out := []string{}
		for k := range rk {
			out = append(out, tupleProj(r, k, len(rk)))
		}
		return out, rk, true
	}
	g.writable(ind, v)
	if len(rk) == 0 {
		g.line(ind, v+" ← "+text)
		return nil, rk, true
	}
	r := g.fresh("r")
	g.line(ind, "let "+r+" ← "+text)
	g.line(ind, v+" := "+tupleProj(r, len(rk), len(rk)+1))
	out := []string{}
	for k := range rk {
		out = append(out, tupleProj(r, k, len(rk)+1))
	}
	return out, rk, true
}

func (g *s7) define(ind int, name string, value string, k string) {
	if name == "_" {
		return
	}
	g.vars[name] = k
	delete(g.params, name)
	g.line(ind, "let mut "+name+" : "+s7LeanType(k)+" := "+value)
}

func (g *s7) assign(ind int, st *ast.AssignStmt) {
	/* a, b, c = X.page.Harvest(…) */
	if len(st.Rhs) == 1 && len(st.Lhs) > 1 {
		call, ok := st.Rhs[0].(*ast.CallExpr)
		if ok {
			if se, ok := call.Fun.(*ast.SelectorExpr); ok && g.kind(se.X) == "container" {
				if ft, ok := g.iface[se.Sel.Name]; ok && ft.Results != nil && st.Tok == token.ASSIGN {
					rk := []string{}
					for _, r := range ft.Results.List {
						cnt := len(r.Names)
						if cnt == 0 {
							cnt = 1
						}
						for j := 0; j < cnt; j++ {
							rk = append(rk, g.kindOfType(r.Type))
						}
					}
					if len(rk) == len(st.Lhs) {
						r := g.fresh("r")
						g.line(ind, "let "+r+" := "+g.expr(call))
						/* Go assigns left to right after evaluating the call */
						for k, l := range st.Lhs {
							g.store(ind, l, tupleProj(r, k, len(rk)), rk[k])
						}
						return
					}
				}
			}
		}
		g.line(ind, "let _ := "+g.fail("tuple assignment %s", exprString(st.Rhs[0])))
		return
	}
	if len(st.Lhs) != 1 || len(st.Rhs) != 1 {
		g.line(ind, "let _ := "+g.fail("parallel assignment"))
		return
	}
	lhs, rhs := st.Lhs[0], st.Rhs[0]
	/* x := x inside a loop body: the per-iteration copy (the translated loop variables are
	   already per iteration) */
	if st.Tok == token.DEFINE {
		if l, ok := lhs.(*ast.Ident); ok && isIdent(rhs, l.Name) {
			if _, known := g.vars[l.Name]; known {
				g.line(ind, "-- "+l.Name+" := "+l.Name+" (per-iteration copy)")
				return
			}
		}
	}
	var value, k string
	if call, ok := rhs.(*ast.CallExpr); ok {
		if m, _, own := g.ownCall(call); own && (g.mutates[m] || len(g.rkinds[m]) != 1) {
			vals, ks, _ := g.callStmt(ind, call)
			if len(vals) != 1 {
				g.line(ind, "let _ := "+g.fail("%s does not return one value", m))
				return
			}
			value, k = vals[0], ks[0]
		}
	}
	if value == "" {
		k = g.kind(rhs)
		if k == "lit" {
			k = "int"
		}
		value = g.expr(rhs)
	}
	switch st.Tok {
	case token.DEFINE:
		id, ok := lhs.(*ast.Ident)
		if !ok {
			g.line(ind, "let _ := "+g.fail(":= to %s", exprString(lhs)))
			return
		}
		if id.Name == "_" {
			g.line(ind, "let _ := "+value)
			return
		}
		g.define(ind, id.Name, value, k)
	case token.ASSIGN:
		if isIdent(lhs, "_") {
			g.line(ind, "let _ := "+value)
			return
		}
		if _, _, _, cell := g.cellField(lhs); cell && strings.Contains(value, "(←") {
			value = g.bound(ind, value)
		}
		g.store(ind, lhs, value, k)
	default:
		g.line(ind, "let _ := "+g.fail("assignment operator %s", st.Tok))
	}
}

func assignedIdents(n ast.Node) map[string]bool {
	out := map[string]bool{}
	ast.Inspect(n, func(n ast.Node) bool {
		switch s := n.(type) {
		case *ast.AssignStmt:
			for _, l := range s.Lhs {
				if id, ok := l.(*ast.Ident); ok && s.Tok != token.DEFINE {
					out[id.Name] = true
				}
			}
		case *ast.IncDecStmt:
			if id, ok := s.X.(*ast.Ident); ok {
				out[id.Name] = true
			}
		case *ast.UnaryExpr:
			if id, ok := s.X.(*ast.Ident); ok && s.Op == token.AND {
				out[id.Name] = true
			}
		}
		return true
	})
	return out
}

func mentionsIdent(n ast.Node, name string) bool {
	found := false
	ast.Inspect(n, func(n ast.Node) bool {
		if id, ok := n.(*ast.Ident); ok && id.Name == name {
			found = true
		}
		return true
	})
	return found
}

/* wg.M(args) */
func (g *s7) wgCall(st ast.Stmt, method string) (*ast.CallExpr, bool) {
	es, ok := st.(*ast.ExprStmt)
	if !ok {
		return nil, false
	}
	c, ok := es.X.(*ast.CallExpr)
	if !ok {
		return nil, false
	}
	se, ok := c.Fun.(*ast.SelectorExpr)
	if !ok || g.wg == "" || !isIdent(se.X, g.wg) || se.Sel.Name != method {
		return nil, false
	}
	return c, true
}

/*
the body of `for key, val := range S` as a fan-out: self-copies, wg.Add(1), go func(){ BODY; wg.Done() }();
returns BODY or the reason it is something else
*/
func (g *s7) fanout(rs *ast.RangeStmt, s, key string) ([]ast.Stmt, string) {
	list := rs.Body.List
	i := 0
	for ; i < len(list); i++ {
		as, ok := list[i].(*ast.AssignStmt)
		if !ok || as.Tok != token.DEFINE || len(as.Lhs) != 1 || len(as.Rhs) != 1 {
			break
		}
		l, ok := as.Lhs[0].(*ast.Ident)
		if !ok || !isIdent(as.Rhs[0], l.Name) {
			break
		}
	}
	if len(list)-i != 2 {
		return nil, "the loop body is not copies; wg.Add(1); go func(){…}()"
	}
	add, ok := g.wgCall(list[i], "Add")
	if !ok || len(add.Args) != 1 || exprString(add.Args[0]) != "1" {
		return nil, "no wg.Add(1) before the go statement"
	}
	gs, ok := list[i+1].(*ast.GoStmt)
	if !ok {
		return nil, "no go statement"
	}
	fl, ok := gs.Call.Fun.(*ast.FuncLit)
	if !ok || len(gs.Call.Args) != 0 || (fl.Type.Params != nil && len(fl.Type.Params.List) != 0) || (fl.Type.Results != nil && len(fl.Type.Results.List) != 0) {
		return nil, "the goroutine is not a parameterless closure"
	}
	body := fl.Body.List
	if len(body) == 0 {
		return nil, "empty closure"
	}
	if done, ok := g.wgCall(body[len(body)-1], "Done"); !ok || len(done.Args) != 0 {
		return nil, "the closure does not end with wg.Done()"
	}
	body = body[:len(body)-1]
	reason := ""
	declared := map[string]bool{}
	for _, st := range body {
		ast.Inspect(st, func(n ast.Node) bool {
			switch x := n.(type) {
			case *ast.Ident:
				if x.Name == g.wg {
					reason = "the closure uses the wait group before its end"
				}
			case *ast.ReturnStmt, *ast.BranchStmt, *ast.GoStmt, *ast.DeferStmt, *ast.FuncLit:
				reason = fmt.Sprintf("%T inside the closure", n)
			case *ast.AssignStmt:
				if x.Tok == token.DEFINE {
					for _, l := range x.Lhs {
						if id, ok := l.(*ast.Ident); ok {
							declared[id.Name] = true
						}
					}
				}
			case *ast.ValueSpec:
				for _, id := range x.Names {
					declared[id.Name] = true
				}
			case *ast.IndexExpr:
				if isIdent(x.X, s) && !isIdent(x.Index, key) {
					reason = "the closure touches " + exprString(x) + ", not only " + s + "[" + key + "]"
				}
			case *ast.CallExpr:
				if se, ok := x.Fun.(*ast.SelectorExpr); ok && isIdent(se.X, s) {
					reason = "the closure calls a method on the shared slice"
				}
			}
			return true
		})
	}
	for name := range assignedIdents(&ast.BlockStmt{List: body}) {
		if !declared[name] {
			reason = "the closure assigns to " + name + ", declared outside it"
		}
	}
	/* the shared slice may appear only as s[key] */
	for _, st := range body {
		ast.Inspect(st, func(n ast.Node) bool {
			if ix, ok := n.(*ast.IndexExpr); ok && isIdent(ix.X, s) {
				return false
			}
			if id, ok := n.(*ast.Ident); ok && id.Name == s {
				reason = "the closure uses the shared slice other than as " + s + "[" + key + "]"
			}
			return true
		})
	}
	if reason != "" {
		return nil, reason
	}
	return body, ""
}

func (g *s7) rangeLoop(ind int, rs *ast.RangeStmt) {
	sid, ok := rs.X.(*ast.Ident)
	if !ok || (g.vars[sid.Name] != "splicer" && g.vars[sid.Name] != "tangibles") || rs.Tok != token.DEFINE || rs.Key == nil {
		g.line(ind, "let _ := "+g.fail("range over %s", exprString(rs.X)))
		return
	}
	key, ok := rs.Key.(*ast.Ident)
	if !ok {
		g.line(ind, "let _ := "+g.fail("range key"))
		return
	}
	keyName := key.Name
	if keyName == "_" {
		keyName = g.fresh("i")
	}
	if assignedIdents(rs.Body)[sid.Name] {
		g.line(ind, "let _ := "+g.fail("the loop assigns to the slice it ranges over"))
		return
	}
	elem := "source"
	if g.vars[sid.Name] == "tangibles" {
		elem = "tangible"
	}
	g.line(ind, "-- "+rangeHeader(rs))
	g.line(ind, "for "+keyName+" in Go.indices "+sid.Name+" do")
	g.vars[keyName] = "int"
	g.params[keyName] = true
	if rs.Value != nil && !isIdent(rs.Value, "_") {
		val, ok := rs.Value.(*ast.Ident)
		if !ok {
			g.line(ind+1, "let _ := "+g.fail("range value"))
			return
		}
		g.line(ind+1, "let "+val.Name+" ← Go.index "+sid.Name+" "+keyName)
		g.vars[val.Name] = elem
		g.params[val.Name] = true
	}
	usesGo := false
	ast.Inspect(rs.Body, func(n ast.Node) bool {
		if _, ok := n.(*ast.GoStmt); ok {
			usesGo = true
		}
		return true
	})
	if usesGo {
		body, why := g.fanout(rs, sid.Name, keyName)
		if why != "" {
			g.line(ind+1, "let _ := "+g.fail("goroutines: %s", why))
			return
		}
		g.line(ind+1, "-- one goroutine per index ("+g.wg+".Add(1); go func(){ …; "+g.wg+".Done() }(); "+g.wg+".Wait() after the loop):")
		g.line(ind+1, "-- the closures touch "+sid.Name+"["+keyName+"] only and assign to nothing declared outside them (checked")
		g.line(ind+1, "-- by the translator; C08.fanouts_disjoint), so they commute: run in index order")
		g.block(ind+1, body)
		if len(body) == 0 {
			g.line(ind+1, "pure ()")
		}
		g.needWait = true
		return
	}
	g.block(ind+1, rs.Body.List)
	if len(rs.Body.List) == 0 {
		g.line(ind+1, "pure ()")
	}
}

func rangeHeader(rs *ast.RangeStmt) string {
	h := "for " + exprString(rs.Key)
	if rs.Value != nil {
		h += ", " + exprString(rs.Value)
	}
	return h + " := range " + exprString(rs.X)
}

func (g *s7) countLoop(ind int, fs *ast.ForStmt) {
	bad := func(why string) { g.line(ind, "let _ := "+g.fail("for loop: %s", why)) }
	init, ok := fs.Init.(*ast.AssignStmt)
	if !ok || init.Tok != token.DEFINE || len(init.Lhs) != 1 || len(init.Rhs) != 1 {
		bad("initialisation")
		return
	}
	iv, ok := init.Lhs[0].(*ast.Ident)
	if !ok {
		bad("initialisation")
		return
	}
	if k := g.kind(init.Rhs[0]); k != "int" && k != "lit" {
		bad("the counter is not an int")
		return
	}
	lo := g.intExpr(init.Rhs[0])
	cond, ok := fs.Cond.(*ast.BinaryExpr)
	if !ok || !isIdent(cond.X, iv.Name) || (cond.Op != token.LSS && cond.Op != token.LEQ) {
		bad("condition " + exprString(fs.Cond))
		return
	}
	post, ok := fs.Post.(*ast.IncDecStmt)
	if !ok || post.Tok != token.INC || !isIdent(post.X, iv.Name) {
		bad("post statement")
		return
	}
	if k := g.kind(cond.Y); k != "int" && k != "lit" {
		bad("the bound is not an int")
		return
	}
	hi := g.intExpr(cond.Y)
	if strings.Contains(hi, "(←") || strings.Contains(lo, "(←") {
		bad("bound with effects")
		return
	}
	changed := assignedIdents(fs.Body)
	if changed[iv.Name] {
		bad("the body changes the counter")
		return
	}
	for name := range changed {
		if mentionsIdent(cond.Y, name) {
			bad("the body changes " + name + ", which the bound mentions")
			return
		}
	}
	if cond.Op == token.LEQ {
		hi = "(" + hi + " + 1)"
	}
	g.line(ind, "-- for "+iv.Name+" := "+exprString(init.Rhs[0])+"; "+iv.Name+" "+cond.Op.String()+" "+exprFull(cond.Y)+"; "+iv.Name+"++")
	counter := iv.Name
	if !mentionsIdent(fs.Body, iv.Name) {
		counter = "_" + iv.Name
	}
	g.line(ind, "for "+counter+" in Go.countUp "+lo+" "+hi+" do")
	g.vars[iv.Name] = "int"
	g.params[iv.Name] = true
	g.block(ind+1, fs.Body.List)
	if len(fs.Body.List) == 0 {
		g.line(ind+1, "pure ()")
	}
}

func (g *s7) ret(ind int, rs *ast.ReturnStmt) {
	if len(rs.Results) != len(g.results) {
		g.line(ind, "let _ := "+g.fail("return arity"))
		return
	}
	parts := []string{}
	for k, r := range rs.Results {
		want := g.results[k]
		switch {
		case isIdent(r, "nil") && (want == "tangible" || want == "container*"):
			parts = append(parts, "none")
		case want == "container*":
			/* the splicer itself handed back as the continuation */
			if g.kind(r) == "splicer" {
				parts = append(parts, "(some "+g.expr(r)+")")
			} else {
				parts = append(parts, g.fail("continuation %s", exprString(r)))
			}
		case g.kind(r) == want || (g.kind(r) == "lit" && (want == "int" || want == "uint")):
			parts = append(parts, g.expr(r))
		default:
			parts = append(parts, g.fail("result %d: %s is not a %s", k, exprString(r), want))
		}
	}
	if g.mut {
		parts = append(parts, g.recv)
	}
	switch len(parts) {
	case 0:
		g.line(ind, "return ()")
	case 1:
		g.line(ind, "return "+parts[0])
	default:
		g.line(ind, "return ("+strings.Join(parts, ", ")+")")
	}
}

func (g *s7) block(ind int, list []ast.Stmt) {
	for _, st := range list {
		if g.needWait {
			g.needWait = false
			if c, ok := g.wgCall(st, "Wait"); ok && len(c.Args) == 0 {
				g.line(ind, "-- "+g.wg+".Wait()")
				continue
			}
			g.line(ind, "let _ := "+g.fail("the goroutines are not awaited right after the loop"))
		}
		g.stmt(ind, st)
	}
	if g.needWait {
		g.needWait = false
		g.line(ind, "let _ := "+g.fail("the goroutines are not awaited right after the loop"))
	}
}

func (g *s7) stmt(ind int, st ast.Stmt) {
	switch s := st.(type) {
	case *ast.DeclStmt:
		gd, ok := s.Decl.(*ast.GenDecl)
		if !ok || gd.Tok != token.VAR {
			g.line(ind, "let _ := "+g.fail("declaration"))
			return
		}
		for _, sp := range gd.Specs {
			vs, ok := sp.(*ast.ValueSpec)
			if !ok || len(vs.Values) != 0 || vs.Type == nil {
				g.line(ind, "let _ := "+g.fail("declaration with values"))
				continue
			}
			if exprString(vs.Type) == "sync.WaitGroup" && len(vs.Names) == 1 && g.wg == "" {
				g.wg = vs.Names[0].Name
				g.line(ind, "-- var "+g.wg+" sync.WaitGroup")
				continue
			}
			k := g.kindOfType(vs.Type)
			if k == "?" || k == "source" {
				g.line(ind, "let _ := "+g.fail("declaration of type %s", exprString(vs.Type)))
				continue
			}
			for _, n := range vs.Names {
				g.define(ind, n.Name, s7Zero(k), k)
			}
		}
	case *ast.AssignStmt:
		g.assign(ind, s)
	case *ast.ExprStmt:
		call, ok := s.X.(*ast.CallExpr)
		if !ok {
			g.line(ind, "let _ := "+g.fail("expression statement"))
			return
		}
		if _, _, own := g.ownCall(call); own {
			g.callStmt(ind, call)
			return
		}
		if id, ok := call.Fun.(*ast.Ident); ok && id.Name == "copy" && len(call.Args) == 2 {
			k := g.kind(call.Args[0])
			if (k == "splicer" || k == "tangibles") && g.kind(call.Args[1]) == k {
				value := "(Go.copy " + g.expr(call.Args[0]) + " " + g.expr(call.Args[1]) + ")"
				if _, isId := call.Args[0].(*ast.Ident); !isId {
					value = g.bound(ind, value)
				}
				g.store(ind, call.Args[0], value, k)
				return
			}
		}
		g.line(ind, "let _ := "+g.fail("call %s", exprString(call)))
	case *ast.IfStmt:
		if s.Init != nil {
			g.line(ind, "let _ := "+g.fail("if with an initialiser"))
			return
		}
		g.line(ind, "if "+g.expr(s.Cond)+" then")
		g.scoped(func() { g.block(ind+1, s.Body.List) })
		if len(s.Body.List) == 0 {
			g.line(ind+1, "pure ()")
		}
		switch e := s.Else.(type) {
		case nil:
		case *ast.BlockStmt:
			g.line(ind, "else")
			g.scoped(func() { g.block(ind+1, e.List) })
			if len(e.List) == 0 {
				g.line(ind+1, "pure ()")
			}
		case *ast.IfStmt:
			g.line(ind, "else")
			g.stmt(ind+1, e)
		}
	case *ast.BranchStmt:
		if s.Tok == token.CONTINUE && s.Label == nil {
			g.line(ind, "continue")
		} else if s.Tok == token.BREAK && s.Label == nil {
			g.line(ind, "break")
		} else {
			g.line(ind, "let _ := "+g.fail("branch %s", s.Tok))
		}
	case *ast.ReturnStmt:
		g.ret(ind, s)
	case *ast.RangeStmt:
		g.scoped(func() { g.rangeLoop(ind, s) })
	case *ast.ForStmt:
		if s.Init == nil || s.Cond == nil || s.Post == nil {
			g.line(ind, "let _ := "+g.fail("for loop without the three clauses"))
			return
		}
		g.scoped(func() { g.countLoop(ind, s) })
	default:
		g.line(ind, "let _ := "+g.fail("statement %T", st))
	}
}

/* variables declared in a nested block are not visible after it */
func (g *s7) scoped(f func()) {
	saveV := map[string]string{}
	for k, v := range g.vars {
		saveV[k] = v
	}
	saveP := map[string]bool{}
	for k, v := range g.params {
		saveP[k] = v
	}
	f()
	g.vars, g.params = saveV, saveP
}

func (g *s7) function(fd *ast.FuncDecl) {
	name := fd.Name.Name
	g.fn = name
	g.vars = map[string]string{}
	g.params = map[string]bool{}
	g.tmp = 0
	g.wg = ""
	g.needWait = false
	g.recv = recvName(fd)
	g.mut = g.mutates[name]
	g.results = append([]string{}, g.rkinds[name]...)
	if g.recv == "" || g.kindOfType(fd.Recv.List[0].Type) != "splicer" {
		g.line(0, "def "+name+" := "+g.fail("receiver of %s", name))
		return
	}
	g.vars[g.recv] = "splicer"
	sig := "def " + name
	if g.usesHv[name] {
		sig += " (hv : HarvestFn Container Tangible)"
	}
	if g.usesTs[name] {
		sig += " (ts : Tangible → Int)"
	}
	if g.mut {
		sig += " (" + g.recv + "0 : Splicer Container Tangible)"
	} else {
		sig += " (" + g.recv + " : Splicer Container Tangible)"
		g.params[g.recv] = true
	}
	for _, p := range fd.Type.Params.List {
		k := g.kindOfType(p.Type)
		for _, n := range p.Names {
			if k == "?" {
				sig += " (" + n.Name + " : " + g.fail("parameter type %s", exprString(p.Type)) + ")"
				continue
			}
			g.vars[n.Name] = k
			g.params[n.Name] = true
			sig += " (" + n.Name + " : " + s7LeanType(k) + ")"
		}
	}
	rts := []string{}
	for _, k := range g.results {
		if k == "container*" {
			rts = append(rts, "Option (Splicer Container Tangible)")
		} else if k == "?" {
			rts = append(rts, g.fail("result type"))
		} else {
			rts = append(rts, paren(s7LeanType(k)))
		}
	}
	if g.mut {
		rts = append(rts, "Splicer Container Tangible")
	}
	rt := "Unit"
	if len(rts) > 0 {
		rt = strings.Join(rts, " × ")
	}
	usesCopy := false
	ast.Inspect(fd.Body, func(n ast.Node) bool {
		if c, ok := n.(*ast.CallExpr); ok && isIdent(c.Fun, "copy") {
			usesCopy = true
		}
		return true
	})
	if usesCopy {
		g.line(0, "/-- `"+name+"`, statement by statement over values.  On immutable lists a copy is the value itself")
		g.line(0, "    (`Gen11.clone_eq`: the result equals the receiver).  NOT modelled: the copy is shallow — `copy` of")
		g.line(0, "    the outer slice copies the slice headers of the inner ones, so the inner `copy` copies each array")
		g.line(0, "    onto itself and the element arrays stay shared between the original and the clone (DESIGN.md §4:")
		g.line(0, "    aliasing is modelled by value semantics and exercised by the differential check). -/")
	} else if g.mut {
		g.line(0, "/-- `"+name+"`: writes through its receiver; the receiver afterwards is the last component of the result. -/")
	}
	g.line(0, sig+" :")
	g.line(2, "Except Panic ("+rt+") := do")
	if g.mut {
		g.line(1, "let mut "+g.recv+" := "+g.recv+"0")
	}
	g.block(1, fd.Body.List)
	last := ast.Stmt(nil)
	if n := len(fd.Body.List); n > 0 {
		last = fd.Body.List[n-1]
	}
	if _, isRet := last.(*ast.ReturnStmt); !isRet {
		if len(g.results) == 0 {
			g.ret(1, &ast.ReturnStmt{})
		} else {
			g.line(1, "let _ := "+g.fail("missing return"))
		}
	}
	g.line(0, "")
}

/* writes through `recv[…]`, copies into it, or calls a mutating method on it */
func (g *s7) writesThrough(fd *ast.FuncDecl, recv string) bool {
	found := false
	rooted := func(e ast.Expr) bool {
		for {
			switch x := e.(type) {
			case *ast.SelectorExpr:
				e = x.X
			case *ast.IndexExpr:
				return isIdent(x.X, recv)
			case *ast.ParenExpr:
				e = x.X
			default:
				return false
			}
		}
	}
	ast.Inspect(fd.Body, func(n ast.Node) bool {
		switch s := n.(type) {
		case *ast.AssignStmt:
			for _, l := range s.Lhs {
				if rooted(l) {
					found = true
				}
			}
		case *ast.CallExpr:
			if isIdent(s.Fun, "copy") && len(s.Args) == 2 && (rooted(s.Args[0]) || isIdent(s.Args[0], recv)) {
				found = true
			}
			if se, ok := s.Fun.(*ast.SelectorExpr); ok && isIdent(se.X, recv) && g.mutates[se.Sel.Name] {
				found = true
			}
		}
		return true
	})
	return found
}

func translateSplicer(f *ast.File, ifaces *ast.File, typeName string, names []string) (string, []string) {
	g := &s7{typeNm: typeName, fkind: map[string]string{}, methods: map[string]*ast.FuncDecl{}, mutates: map[string]bool{},
		usesHv: map[string]bool{}, usesTs: map[string]bool{}, rkinds: map[string][]string{}, iface: map[string]*ast.FuncType{}}
	g.fn = "type " + typeName
	g.line(0, "namespace GenSplicer")
	g.line(0, "")

	/* pub.Container's methods */
	for _, d := range ifaces.Decls {
		gd, ok := d.(*ast.GenDecl)
		if !ok {
			continue
		}
		for _, sp := range gd.Specs {
			ts, ok := sp.(*ast.TypeSpec)
			if !ok || ts.Name.Name != "Container" {
				continue
			}
			if it, ok := ts.Type.(*ast.InterfaceType); ok {
				for _, m := range it.Methods.List {
					if ft, ok := m.Type.(*ast.FuncType); ok && len(m.Names) == 1 {
						g.iface[m.Names[0].Name] = ft
					}
				}
			}
		}
	}

	/* type Splicer []struct{…} */
	var st *ast.StructType
	for _, d := range f.Decls {
		gd, ok := d.(*ast.GenDecl)
		if !ok {
			continue
		}
		for _, sp := range gd.Specs {
			ts, ok := sp.(*ast.TypeSpec)
			if !ok || ts.Name.Name != typeName {
				continue
			}
			if at, ok := ts.Type.(*ast.ArrayType); ok && at.Len == nil {
				st, _ = at.Elt.(*ast.StructType)
			}
		}
	}
	if st == nil {
		g.line(0, "def Source := "+g.fail("%s is not a slice of structs", typeName))
	} else {
		g.line(0, "/-- the element type of `type "+typeName+" []struct{…}`; interface values are `Option`s (`none` = nil) -/")
		g.line(0, "structure Source (Container Tangible : Type) where")
		zeros := []string{}
		for _, fl := range st.Fields.List {
			k := g.kindOfType(fl.Type)
			for _, n := range fl.Names {
				if k == "?" || k == "splicer" {
					g.line(1, n.Name+" : "+g.fail("field type %s", exprString(fl.Type)))
					continue
				}
				g.fkind[n.Name] = k
				g.forder = append(g.forder, n.Name)
				g.line(1, n.Name+" : "+s7LeanType(k))
				zeros = append(zeros, n.Name+" := "+s7Zero(k))
			}
		}
		g.line(0, "")
		g.line(0, "abbrev Splicer (Container Tangible : Type) := List (Source Container Tangible)")
		g.line(0, "")
		g.line(0, "/-- the zero value `make` fills a fresh slice with -/")
		g.line(0, "instance {Container Tangible : Type} : Go.Zero (Source Container Tangible) := ⟨{ "+strings.Join(zeros, ", ")+" }⟩")
		g.line(0, "")
	}

	/* the external call: pub.Container.Harvest */
	if ft, ok := g.iface["Harvest"]; ok && ft.Results != nil {
		parts := []string{"Container"}
		for _, p := range ft.Params.List {
			cnt := len(p.Names)
			if cnt == 0 {
				cnt = 1
			}
			for j := 0; j < cnt; j++ {
				parts = append(parts, paren(s7LeanType(g.kindOfType(p.Type))))
			}
		}
		res := []string{}
		for _, r := range ft.Results.List {
			cnt := len(r.Names)
			if cnt == 0 {
				cnt = 1
			}
			for j := 0; j < cnt; j++ {
				res = append(res, paren(s7LeanType(g.kindOfType(r.Type))))
			}
		}
		g.line(0, "/-- `pub.Container.Harvest` as declared in pub/interfaces.go: an external call -/")
		g.line(0, "abbrev HarvestFn (Container Tangible : Type) := "+strings.Join(parts, " → ")+" → "+strings.Join(res, " × "))
	} else {
		g.line(0, "abbrev HarvestFn := "+g.fail("pub.Container has no method Harvest"))
	}
	g.line(0, "")
	g.line(0, "variable {Container Tangible : Type}")
	g.line(0, "")

	for _, d := range f.Decls {
		fd, ok := d.(*ast.FuncDecl)
		if !ok || fd.Recv == nil || fd.Body == nil {
			continue
		}
		for _, n := range names {
			if n == fd.Name.Name {
				g.methods[n] = fd
			}
		}
	}
	for _, n := range names {
		if _, ok := g.methods[n]; !ok {
			g.line(0, "def "+n+" := "+g.fail("method %s not found", n))
		}
	}

	/* result kinds; a pub.Container result that hands back a splicer is the continuation */
	for n, fd := range g.methods {
		rk := []string{}
		if fd.Type.Results != nil {
			for _, r := range fd.Type.Results.List {
				cnt := len(r.Names)
				if cnt == 0 {
					cnt = 1
				}
				for j := 0; j < cnt; j++ {
					k := g.kindOfType(r.Type)
					if k == "container" {
						k = "container*"
					}
					rk = append(rk, k)
				}
			}
		}
		g.rkinds[n] = rk
	}

	/* which methods write through their receiver, which need hv / ts: fixpoint over the calls */
	calls := map[string][]string{}
	for n, fd := range g.methods {
		ast.Inspect(fd.Body, func(x ast.Node) bool {
			c, ok := x.(*ast.CallExpr)
			if !ok {
				return true
			}
			se, ok := c.Fun.(*ast.SelectorExpr)
			if !ok {
				return true
			}
			if inner, ok := se.X.(*ast.SelectorExpr); ok && g.fkind[inner.Sel.Name] == "container" {
				g.usesHv[n] = true
				return true
			}
			if se.Sel.Name == "Timestamp" {
				g.usesTs[n] = true
			}
			if _, isId := se.X.(*ast.Ident); isId {
				if _, own := g.methods[se.Sel.Name]; own {
					calls[n] = append(calls[n], se.Sel.Name)
				}
			}
			return true
		})
	}
	for changed := true; changed; {
		changed = false
		for n, fd := range g.methods {
			if !g.mutates[n] && g.writesThrough(fd, recvName(fd)) {
				g.mutates[n], changed = true, true
			}
			for _, c := range calls[n] {
				if g.usesHv[c] && !g.usesHv[n] {
					g.usesHv[n], changed = true, true
				}
				if g.usesTs[c] && !g.usesTs[n] {
					g.usesTs[n], changed = true, true
				}
			}
		}
	}

	/* callees first */
	done := map[string]bool{}
	var emit func(n string, depth int)
	emit = func(n string, depth int) {
		if done[n] || depth > len(names) {
			return
		}
		done[n] = true
		for _, c := range calls[n] {
			if c != n {
				emit(c, depth+1)
			}
		}
		g.function(g.methods[n])
	}
	for _, n := range names {
		if _, ok := g.methods[n]; ok {
			emit(n, 0)
		}
	}
	g.line(0, "end GenSplicer")
	return g.b.String(), g.errs
}
