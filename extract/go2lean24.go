package main

/*
go2lean, twenty-fourth front end: the functions of ui/ui.go that put a new page on the history and start
the loaders — SetWidthHeight, loadSurroundings (and its two goroutines), switchTo, openUserInput, openFeed
(and their goroutines), subcommand, Subcommand.  Output: lean/Generated/GoSwitch.lean, namespace GenSwitch.

What is read from the source:

  const ( loading = iota … )      the modes
  type Page struct, State struct  fields, order, types (pub.Tangible / pub.Container are the parameters T / C;
                                  an interface value that may be nil is an Option)
  pub/interfaces.go               the signatures of Parents, Children, Harvest (fields of Env, projections)
  pub/user-input.go, splicer.go   FetchUserInput(string) Any, NewSplicer([]string) *Splicer; Splicer has
                                  Harvest and no Parents (so it is a Container and no Tangible)
  config/config.go                Parsed, Network.Context int, Feeds map[string][]string
  feed/feed.go                    which methods of *Feed there are, their parameters, which return nothing
                                  (the mutating ones: the translated method returns the new feed)
  the seven functions             every statement and expression; each `go func() { … }()` becomes a
                                  constructor of Job, a `_goN_done` (the critical section) and a `_goN` (the whole)

Anything not understood is replaced by `sorry_untranslatable` (an undeclared identifier) and reported.
*/

import (
	"fmt"
	"go/ast"
	"go/token"
	"strconv"
	"strings"
)

type p24 struct{ name, kind string }

type sig24 struct {
	iface   string
	name    string
	params  []string /* kinds */
	results []string /* kinds */
}

type fn24 struct {
	name     string
	params   []p24
	retErr   bool
	cfg, env bool
}

type go24 struct {
	name     string
	captured []p24
	cfg, env bool /* of the wrapper */
}

type w24 struct {
	b       strings.Builder
	err     []string
	recv    string
	mutex   string
	scopes  []map[string]string
	order   []string /* locals of the current function in order of declaration */
	mutable map[string]bool
	modeSet map[string]bool
	page    []p24
	state   []p24
	ifaces  map[string]sig24 /* "Tangible.Parents" → */
	feedM   map[string]sig24 /* methods of *Feed */
	feedF   map[string]sig24 /* functions of package feed that return a *Feed */
	extern  map[string]sig24 /* "pub.FetchUserInput", "splicer.NewSplicer" */
	cfgCtx  bool
	cfgFeed bool
	splOK   bool
	args    []p24 /* the constructors of Arg: name, kind of the payload */
	argSrc  []string
	argSeen bool
	fns     map[string]*fn24
	jobs    []go24
	tmp     int
	depth   int
	cur     *fn24 /* whose needs are being collected */
	fn      *fn24 /* the function being translated */
	fd      *ast.FuncDecl
	inDone  bool
	pageVar string /* the live *Page local */
	goN     int
	extra   strings.Builder
}

func (g *w24) fail(format string, a ...any) string {
	msg := fmt.Sprintf(format, a...)
	g.err = append(g.err, msg)
	return "(sorry_untranslatable /- " + strings.ReplaceAll(msg, "-/", "- /") + " -/)"
}

func (g *w24) line(ind int, s string) { g.b.WriteString(strings.Repeat("  ", ind) + s + "\n") }

func (g *w24) bad(ind int, format string, a ...any) {
	g.line(ind, "let _ := "+g.fail(format, a...))
}

func (g *w24) push() { g.scopes = append(g.scopes, map[string]string{}) }
func (g *w24) pop()  { g.scopes = g.scopes[:len(g.scopes)-1] }
func (g *w24) lookup(n string) string {
	for i := len(g.scopes) - 1; i >= 0; i-- {
		if k, ok := g.scopes[i][n]; ok {
			return k
		}
	}
	return ""
}

func (g *w24) fresh(stem string) string {
	g.tmp++
	return fmt.Sprintf("%s%d_", stem, g.tmp)
}

func (g *w24) leanType(kind string) string {
	switch kind {
	case "int", "lit":
		return "Int"
	case "uint":
		return "Nat"
	case "string":
		return "Str"
	case "bool":
		return "Bool"
	case "tang?":
		return "(Option T)"
	case "tang":
		return "T"
	case "cont?":
		return "(Option C)"
	case "cont", "splicer":
		return "C"
	case "tangs":
		return "(List (Option T))"
	case "strings":
		return "(List Str)"
	case "error":
		return "(Option Str)"
	case "arg":
		return "(Arg T C)"
	case "feed":
		return "(GenFeed.Feed T)"
	case "hist":
		return "(GenHistory.History (Page T C))"
	}
	return g.fail("no Lean type for %s", kind)
}

func strip24(s string) string {
	if strings.HasPrefix(s, "(") && strings.HasSuffix(s, ")") && !strings.HasPrefix(s, "(sorry_") {
		return s[1 : len(s)-1]
	}
	return s
}

/* the kind of a Go type; inPub: the type is written inside package pub (Tangible, Container unqualified) */
func (g *w24) kindOfType(e ast.Expr, inPkg string) string {
	switch t := e.(type) {
	case *ast.Ident:
		switch t.Name {
		case "int", "uint", "string", "bool", "error":
			return t.Name
		case "any":
			return "arg"
		}
		if inPkg == "pub" {
			switch t.Name {
			case "Tangible":
				return "tang?"
			case "Container":
				return "cont?"
			case "Any":
				return "arg"
			}
		}
	case *ast.InterfaceType:
		if t.Methods == nil || len(t.Methods.List) == 0 {
			return "arg"
		}
	case *ast.SelectorExpr:
		switch typeString(t) {
		case "pub.Tangible":
			return "tang?"
		case "pub.Container":
			return "cont?"
		case "pub.Any":
			return "arg"
		}
	case *ast.StarExpr:
		switch typeString(t) {
		case "*feed.Feed":
			return "feed"
		case "*sync.Mutex":
			return "mutex"
		case "*splicer.Splicer":
			return "splicer"
		case "*Splicer":
			if inPkg == "splicer" {
				return "splicer"
			}
		case "*Feed":
			if inPkg == "feed" {
				return "feed"
			}
		}
	case *ast.ArrayType:
		if t.Len == nil {
			switch g.kindOfType(t.Elt, inPkg) {
			case "tang?":
				return "tangs"
			case "string":
				return "strings"
			}
		}
	case *ast.IndexExpr:
		if typeString(t.X) == "history.History" && typeString(t.Index) == "*Page" {
			return "hist"
		}
	case *ast.FuncType:
		return "func"
	}
	return "?"
}

func (g *w24) sigOf(ft *ast.FuncType, inPkg string) ([]string, []string, bool) {
	ps, rs := []string{}, []string{}
	ok := true
	collect := func(fl *ast.FieldList, out *[]string) {
		if fl == nil {
			return
		}
		for _, f := range fl.List {
			k := g.kindOfType(f.Type, inPkg)
			if k == "?" || k == "mutex" || k == "func" {
				ok = false
			}
			n := len(f.Names)
			if n == 0 {
				n = 1
			}
			for i := 0; i < n; i++ {
				*out = append(*out, k)
			}
		}
	}
	collect(ft.Params, &ps)
	collect(ft.Results, &rs)
	return ps, rs, ok
}

func (g *w24) reserved(name string) bool {
	switch name {
	case "s0", "frames", "started", "env", "cfg", "setPage", "run", "Page", "State", "Arg", "Cfg", "Job", "Out", "Env", "T", "C":
		return true
	}
	if _, ok := g.fns[name]; ok {
		return true
	}
	return name == g.recv || g.modeSet[name] || strings.HasSuffix(name, "_") || strings.HasSuffix(name, "_pos") || strings.Contains(name, "_go")
}

/* `(← f a b)` bound to a name is `let x ← f a b` */
func bind24(value string) (string, bool) {
	if strings.HasPrefix(value, "(← ") && strings.HasSuffix(value, ")") {
		depth := 0
		for i, r := range value {
			switch r {
			case '(':
				depth++
			case ')':
				depth--
				if depth == 0 && i != len(value)-1 {
					return value, false
				}
			}
		}
		return value[len("(← ") : len(value)-1], true
	}
	return value, false
}

func (g *w24) declare(ind int, name, kind, value string) {
	if name == "_" {
		if u16Effects(value) {
			g.line(ind, "let _ := "+value)
		}
		return
	}
	if g.reserved(name) {
		g.bad(ind, "local %s clashes with a name of the translation", name)
		return
	}
	if g.lookup(name) != "" {
		g.bad(ind, "%s declared twice (shadowing is not translated)", name)
		return
	}
	if kind == "lit" {
		kind = "int"
	}
	if kind == "nil" || kind == "?" || kind == "hist" || kind == "pagelit" || kind == "tuple" {
		g.bad(ind, "a local %s of kind %s", name, kind)
		return
	}
	lt := g.leanType(kind)
	g.scopes[len(g.scopes)-1][name] = kind
	g.order = append(g.order, name)
	mut := ""
	if g.mutable[name] {
		mut = "mut "
	}
	if inner, ok := bind24(value); ok {
		g.line(ind, "let "+mut+leanIdent(name)+" : "+lt+" ← "+inner)
		return
	}
	g.line(ind, "let "+mut+leanIdent(name)+" : "+lt+" := "+value)
}

/* a value of kind `have` where kind `want` is expected */
func (g *w24) coerce(text, have, want, what string) string {
	switch {
	case have == want:
		return text
	case have == "lit" && (want == "int" || want == "uint"):
		return text
	case (have == "tang" && want == "tang?") || ((have == "cont" || have == "splicer") && want == "cont?"):
		return "(some " + text + ")"
	case have == "splicer" && want == "cont":
		if !g.splOK {
			return g.fail("splicer.Splicer is not known to be a pub.Container and no pub.Tangible")
		}
		return text
	case have == "nil" && (want == "tang?" || want == "cont?" || want == "error"):
		return "none"
	case want == "arg":
		cons := map[string]string{"tangs": "tangibles", "tang": "tangible", "cont": "container", "splicer": "container"}[have]
		if have == "splicer" && !g.splOK {
			return g.fail("splicer.Splicer must have a method Harvest and none named Parents to be passed as a Container (%s)", what)
		}
		for _, a := range g.args {
			if cons != "" && a.name == cons {
				return "(." + cons + " " + text + ")"
			}
		}
		return g.fail("a %s passed as `any` (%s): which case of the type switch takes it is not known", have, what)
	}
	if have == "?" {
		return text
	}
	return g.fail("a %s where a %s is expected (%s)", have, want, what)
}

func (g *w24) isCfgContext(e ast.Expr) bool { return exprString(e) == "config.Parsed.Network.Context" }

func (g *w24) isCurrentCall(e ast.Expr) bool {
	c, ok := e.(*ast.CallExpr)
	return ok && len(c.Args) == 0 && exprString(c.Fun) == g.recv+".h.Current"
}

func (g *w24) pageField(name string) string {
	for _, f := range g.page {
		if f.name == name {
			return f.kind
		}
	}
	return ""
}

func (g *w24) stateField(name string) string {
	for _, f := range g.state {
		if f.name == name {
			return f.kind
		}
	}
	return ""
}

func (g *w24) expr(e ast.Expr) (string, string) {
	switch x := e.(type) {
	case *ast.BasicLit:
		switch x.Kind {
		case token.INT:
			if _, err := strconv.ParseUint(x.Value, 10, 63); err == nil {
				return x.Value, "lit"
			}
		case token.STRING:
			u, err := strconv.Unquote(x.Value)
			if err != nil {
				return g.fail("string literal %s", x.Value), "?"
			}
			return "(Go.str " + leanStr(u) + ")", "string"
		}
	case *ast.Ident:
		switch x.Name {
		case "true", "false":
			return x.Name, "bool"
		case "nil":
			return "none", "nil"
		}
		if k := g.lookup(x.Name); k != "" {
			if k == "pageptr" {
				return g.fail("the pointer %s used as a value", x.Name), "?"
			}
			return leanIdent(x.Name), k
		}
		if g.modeSet[x.Name] {
			return x.Name, "int"
		}
	case *ast.ParenExpr:
		t, k := g.expr(x.X)
		return "(" + t + ")", k
	case *ast.SelectorExpr:
		if g.isCfgContext(x) {
			if !g.cfgCtx {
				return g.fail("config.Parsed.Network.Context is not declared as an int in config/config.go"), "?"
			}
			g.cur.cfg = true
			return "cfg.context", "int"
		}
		if id, ok := x.X.(*ast.Ident); ok {
			if id.Name == g.recv && g.lookup(id.Name) == "" {
				switch k := g.stateField(x.Sel.Name); k {
				case "int", "string", "bool", "uint":
					return g.recv + "." + leanIdent(x.Sel.Name), k
				case "":
					return g.fail("no field %s in State", x.Sel.Name), "?"
				default:
					return g.fail("the field %s.%s used as a value", g.recv, x.Sel.Name), "?"
				}
			}
			if g.lookup(id.Name) == "pageptr" {
				k := g.pageField(x.Sel.Name)
				if k == "" {
					return g.fail("no field %s in Page", x.Sel.Name), "?"
				}
				return leanIdent(id.Name) + "." + leanIdent(x.Sel.Name), k
			}
		}
		if g.isCurrentCall(x.X) {
			k := g.pageField(x.Sel.Name)
			if k == "" {
				return g.fail("no field %s in Page", x.Sel.Name), "?"
			}
			return "(← GenHistory.Current " + g.recv + ".h)." + leanIdent(x.Sel.Name), k
		}
	case *ast.UnaryExpr:
		t, k := g.expr(x.X)
		if x.Op == token.NOT && k == "bool" {
			return "(!" + t + ")", "bool"
		}
		if x.Op == token.SUB && k == "int" {
			return "(-" + t + ")", "int"
		}
	case *ast.BinaryExpr:
		return g.binary(x)
	case *ast.IndexExpr:
		t, k := g.expr(x.X)
		i, ik := g.expr(x.Index)
		if ik == "int" || ik == "lit" {
			switch k {
			case "tangs":
				return "(← Go.index " + t + " " + i + ")", "tang?"
			case "strings":
				return "(← Go.index " + t + " " + i + ")", "string"
			}
		}
	case *ast.CallExpr:
		return g.call(x)
	}
	return g.fail("expression %s", exprFull(e)), "?"
}

func (g *w24) binary(x *ast.BinaryExpr) (string, string) {
	l, lk := g.expr(x.X)
	r, rk := g.expr(x.Y)
	if lk == "?" || rk == "?" {
		return g.fail("expression %s", exprFull(x)), "?"
	}
	if (x.Op == token.EQL || x.Op == token.NEQ) && (lk == "nil" || rk == "nil") {
		v, vk := l, lk
		if lk == "nil" {
			v, vk = r, rk
		}
		if (vk == "error" || vk == "tang?" || vk == "cont?") && !u16Effects(v) {
			if x.Op == token.EQL {
				return v + ".isNone", "bool"
			}
			return v + ".isSome", "bool"
		}
		return g.fail("comparison with nil: %s", exprFull(x)), "?"
	}
	k := lk
	if lk == "lit" {
		k = rk
	} else if rk != "lit" && rk != lk {
		return g.fail("operands of different types in %s", exprFull(x)), "?"
	}
	if k == "lit" {
		k = "int"
	}
	switch x.Op {
	case token.ADD:
		switch k {
		case "string":
			return "(" + l + " ++ " + r + ")", k
		case "int", "uint":
			return "(" + l + " + " + r + ")", k
		}
	case token.SUB:
		if k == "int" {
			return "(" + l + " - " + r + ")", k
		}
	case token.LSS, token.GTR, token.LEQ, token.GEQ:
		if k == "int" || k == "uint" {
			op := map[token.Token]string{token.LSS: "<", token.GTR: ">", token.LEQ: "≤", token.GEQ: "≥"}[x.Op]
			return "decide (" + l + " " + op + " " + r + ")", "bool"
		}
	case token.EQL, token.NEQ:
		if k == "int" || k == "uint" || k == "string" || k == "bool" {
			op := map[token.Token]string{token.EQL: "=", token.NEQ: "≠"}[x.Op]
			return "decide (" + l + " " + op + " " + r + ")", "bool"
		}
	case token.LAND, token.LOR:
		if k == "bool" {
			if u16Effects(r) {
				fn := map[token.Token]string{token.LAND: "Go.land", token.LOR: "Go.lor"}[x.Op]
				la := l
				if strings.HasPrefix(la, "decide ") {
					la = "(" + la + ")"
				}
				return "(← " + fn + " " + la + " (do return " + r + "))", "bool"
			}
			op := map[token.Token]string{token.LAND: "&&", token.LOR: "||"}[x.Op]
			return "(" + l + " " + op + " " + r + ")", "bool"
		}
	}
	return g.fail("expression %s", exprFull(x)), "?"
}

/* the arguments of a call against the kinds of the parameters */
func (g *w24) callArgs(x *ast.CallExpr, kinds []string) (string, bool) {
	if len(x.Args) != len(kinds) || x.Ellipsis != token.NoPos {
		return " " + g.fail("arguments of %s", exprFull(x)), false
	}
	out := ""
	for i, a := range x.Args {
		t, k := g.expr(a)
		t = g.coerce(t, k, kinds[i], exprFull(x))
		if strings.HasPrefix(t, "decide ") || strings.HasPrefix(t, "some ") {
			t = "(" + t + ")"
		}
		out += " " + t
	}
	return out, true
}

func tupleKind(rs []string) string { return "tuple:" + strings.Join(rs, ",") }

func (g *w24) call(x *ast.CallExpr) (string, string) {
	if id, ok := x.Fun.(*ast.Ident); ok && x.Ellipsis == token.NoPos && g.lookup(id.Name) == "" {
		switch {
		case id.Name == "len" && len(x.Args) == 1:
			t, k := g.expr(x.Args[0])
			if k == "strings" || k == "tangs" {
				return "(Go.len " + t + ")", "int"
			}
			return g.fail("len of a %s: %s", k, exprFull(x)), "?"
		case id.Name == "uint" && len(x.Args) == 1:
			t, k := g.expr(x.Args[0])
			switch k {
			case "int":
				return "(Go.toUint " + t + ")", "uint"
			case "lit", "uint":
				return t, "uint"
			}
			return g.fail("conversion %s", exprFull(x)), "?"
		}
	}
	se, ok := x.Fun.(*ast.SelectorExpr)
	if !ok {
		return g.fail("call %s", exprFull(x)), "?"
	}
	name := exprString(se)
	if pk, isId := se.X.(*ast.Ident); isId && g.lookup(pk.Name) == "" {
		switch {
		case name == "errors.New" && len(x.Args) == 1 && x.Ellipsis == token.NoPos:
			t, k := g.expr(x.Args[0])
			if k == "string" {
				return "some " + t, "error"
			}
			return g.fail("argument of %s", exprFull(x)), "?"
		case name == "fmt.Errorf":
			return g.errorf(x)
		case pk.Name == "feed":
			if sg, ok := g.feedF[se.Sel.Name]; ok {
				a, _ := g.callArgs(x, sg.params)
				return "(← GenFeed." + se.Sel.Name + a + ")", "feed"
			}
			return g.fail("no translated function feed.%s", se.Sel.Name), "?"
		}
		if sg, ok := g.extern[name]; ok {
			a, _ := g.callArgs(x, sg.params)
			g.cur.env = true
			return "(← env." + se.Sel.Name + a + ")", sg.results[0]
		}
	}
	/* a method: by the kind of the receiver */
	if g.isCurrentCall(se.X) || isIdent(se.X, g.recv) || exprString(se.X) == g.recv+".h" || exprString(se.X) == g.recv+"."+g.mutex {
		return g.fail("call %s used as a value", exprFull(x)), "?"
	}
	rt, rk := g.expr(se.X)
	switch rk {
	case "feed":
		sg, ok := g.feedM[se.Sel.Name]
		if !ok {
			return g.fail("no method %s of *feed.Feed", se.Sel.Name), "?"
		}
		if len(sg.results) != 1 {
			return g.fail("the method %s of *feed.Feed returns nothing: %s used as a value", se.Sel.Name, exprFull(x)), "?"
		}
		a, _ := g.callArgs(x, sg.params)
		return "(← GenFeed." + se.Sel.Name + " " + rt + a + ")", sg.results[0]
	case "tang", "tang?", "cont", "cont?":
		iface := "Tangible"
		if strings.HasPrefix(rk, "cont") {
			iface = "Container"
		}
		sg, ok := g.ifaces[iface+"."+se.Sel.Name]
		if !ok {
			return g.fail("the method %s of pub.%s is not one of those the environment answers", se.Sel.Name, iface), "?"
		}
		if strings.HasSuffix(rk, "?") {
			rt = "(← Go.deref " + rt + ")"
		}
		a, _ := g.callArgs(x, sg.params)
		g.cur.env = true
		k := sg.results[0]
		if len(sg.results) > 1 {
			k = tupleKind(sg.results)
		}
		return "(← env." + iface + "_" + se.Sel.Name + " " + rt + a + ")", k
	case "error":
		if se.Sel.Name == "Error" && len(x.Args) == 0 {
			return "(← Go.deref " + rt + ")", "string"
		}
	}
	return g.fail("call %s", exprFull(x)), "?"
}

/* fmt.Errorf with a literal format whose only verbs are %s */
func (g *w24) errorf(x *ast.CallExpr) (string, string) {
	if len(x.Args) == 0 || x.Ellipsis != token.NoPos {
		return g.fail("call %s", exprFull(x)), "?"
	}
	lit, ok := x.Args[0].(*ast.BasicLit)
	if !ok || lit.Kind != token.STRING {
		return g.fail("the format of %s is not a literal", exprFull(x)), "?"
	}
	format, err := strconv.Unquote(lit.Value)
	if err != nil {
		return g.fail("format %s", lit.Value), "?"
	}
	pieces := strings.Split(format, "%s")
	for _, p := range pieces {
		if strings.Contains(p, "%") {
			return g.fail("a verb other than %%s in the format of %s", exprFull(x)), "?"
		}
	}
	if len(pieces)-1 != len(x.Args)-1 {
		return g.fail("the format of %s and the number of its arguments", exprFull(x)), "?"
	}
	parts := []string{}
	for i, p := range pieces {
		if p != "" {
			parts = append(parts, "(Go.str "+leanStr(p)+")")
		}
		if i < len(pieces)-1 {
			t, k := g.expr(x.Args[i+1])
			if k != "string" {
				return g.fail("%%s of a %s in %s", k, exprFull(x)), "?"
			}
			parts = append(parts, t)
		}
	}
	if len(parts) == 0 {
		return "some (Go.str \"\")", "error"
	}
	acc := parts[0]
	for _, p := range parts[1:] {
		acc = "(" + acc + " ++ " + p + ")"
	}
	return "some " + acc, "error"
}

func proj24(i, n int) string {
	if n == 1 {
		return ""
	}
	if i < n-1 {
		return strings.Repeat(".2", i) + ".1"
	}
	return strings.Repeat(".2", n-1)
}

func (g *w24) blockEndsInLet(start int) bool {
	text := g.b.String()[start:]
	lines := strings.Split(strings.TrimRight(text, "\n"), "\n")
	last := strings.TrimSpace(lines[len(lines)-1])
	return strings.HasPrefix(last, "let ") || strings.HasPrefix(last, "--")
}

func (g *w24) body(ind int, list []ast.Stmt) {
	start := g.b.Len()
	g.push()
	g.depth++
	for _, st := range list {
		g.stmt(ind, st)
	}
	g.depth--
	g.pop()
	if g.b.Len() == start || g.blockEndsInLet(start) {
		g.line(ind, "pure ()")
	}
}

func (g *w24) outText() string {
	return "{ state := " + g.recv + ", frames := frames, started := started }"
}

func (g *w24) isRedraw(call *ast.CallExpr) bool {
	se, ok := call.Fun.(*ast.SelectorExpr)
	if !ok || !isIdent(se.X, g.recv) || se.Sel.Name != "output" || len(call.Args) != 1 {
		return false
	}
	vc, ok := call.Args[0].(*ast.CallExpr)
	if !ok || len(vc.Args) != 0 {
		return false
	}
	vs, ok := vc.Fun.(*ast.SelectorExpr)
	return ok && isIdent(vs.X, g.recv) && vs.Sel.Name == "view"
}

/* page.f = v through the local pointer */
func (g *w24) pageWrite(ind int, p, field, value string) {
	g.line(ind, leanIdent(p)+" := { "+leanIdent(p)+" with "+leanIdent(field)+" := "+value+" }")
	g.line(ind, g.recv+" := { "+g.recv+" with h := (← setPage "+g.recv+".h "+p+"_pos "+leanIdent(p)+") }")
}

/* s.h.Current().f = v : `value` is given the name of the current page */
func (g *w24) curWrite(ind int, field string, value func(cur string) string) {
	cur := g.fresh("cur")
	g.line(ind, "let "+cur+" ← GenHistory.Current "+g.recv+".h")
	g.line(ind, g.recv+" := { "+g.recv+" with h := (← setPage "+g.recv+".h "+g.recv+".h.index { "+cur+" with "+leanIdent(field)+" := "+value(cur)+" }) }")
	if g.pageVar != "" {
		g.line(ind, leanIdent(g.pageVar)+" ← Go.index "+g.recv+".h.elements "+g.pageVar+"_pos")
	}
}

/* &Page{…} */
func (g *w24) pageLit(ind int, e ast.Expr) (string, bool) {
	u, ok := e.(*ast.UnaryExpr)
	if !ok || u.Op != token.AND {
		return "", false
	}
	cl, ok := u.X.(*ast.CompositeLit)
	if !ok || !isIdent(cl.Type, "Page") {
		return "", false
	}
	given := map[string]string{}
	for _, el := range cl.Elts {
		kv, ok := el.(*ast.KeyValueExpr)
		if !ok {
			return g.fail("a Page literal without field names"), true
		}
		key, ok := kv.Key.(*ast.Ident)
		if !ok || g.pageField(key.Name) == "" {
			return g.fail("field %s of a Page literal", exprFull(kv.Key)), true
		}
		if _, dup := given[key.Name]; dup {
			return g.fail("field %s twice in a Page literal", key.Name), true
		}
		v, k := g.expr(kv.Value)
		v = g.coerce(v, k, g.pageField(key.Name), "field "+key.Name+" of a Page literal")
		if u16Effects(v) {
			/* Go evaluates the initialisers in source order */
			n := g.fresh("f")
			if inner, ok := bind24(v); ok {
				g.line(ind, "let "+n+" ← "+inner)
			} else {
				g.line(ind, "let "+n+" := "+v)
			}
			v = n
		}
		given[key.Name] = v
	}
	parts := []string{}
	for _, f := range g.page {
		v, ok := given[f.name]
		if !ok {
			switch f.kind {
			case "bool":
				v = "false"
			case "uint", "int":
				v = "0"
			case "tang?", "cont?":
				v = "none"
			case "string":
				v = "(Go.str \"\")"
			default:
				v = g.fail("a Page literal without %s (a nil %s)", f.name, f.kind)
			}
		}
		parts = append(parts, leanIdent(f.name)+" := "+v)
	}
	return "({ " + strings.Join(parts, ", ") + " } : Page T C)", true
}

/* a call of another translated method of *State; returns the name its result is bound to */
func (g *w24) stateCall(ind int, call *ast.CallExpr) (string, *fn24) {
	se := call.Fun.(*ast.SelectorExpr)
	callee, ok := g.fns[se.Sel.Name]
	if !ok || callee == nil {
		g.bad(ind, "call of %s.%s: not a function translated before this one", g.recv, se.Sel.Name)
		return "", nil
	}
	if g.pageVar != "" {
		g.bad(ind, "%s is called while the page pointer %s is held", se.Sel.Name, g.pageVar)
		return "", nil
	}
	kinds := []string{}
	for _, p := range callee.params {
		kinds = append(kinds, p.kind)
	}
	a, _ := g.callArgs(call, kinds)
	pre := ""
	if callee.env {
		pre += " env"
		g.cur.env = true
	}
	if callee.cfg {
		pre += " cfg"
		g.cur.cfg = true
	}
	r := g.fresh("r")
	g.line(ind, "let "+r+" ← "+callee.name+pre+" "+g.recv+a)
	o := r
	if callee.retErr {
		o = r + ".1"
	}
	g.line(ind, g.recv+" := "+o+".state")
	g.line(ind, "frames := frames ++ "+o+".frames")
	g.line(ind, "started := started ++ "+o+".started")
	return r, callee
}

func (g *w24) isStateCall(e ast.Expr) (*ast.CallExpr, bool) {
	call, ok := e.(*ast.CallExpr)
	if !ok {
		return nil, false
	}
	se, ok := call.Fun.(*ast.SelectorExpr)
	if !ok || !isIdent(se.X, g.recv) || g.lookup(g.recv) != "" {
		return nil, false
	}
	if se.Sel.Name == "output" || se.Sel.Name == "view" || g.stateField(se.Sel.Name) != "" {
		return nil, false
	}
	return call, true
}

func (g *w24) isMapLookup(e ast.Expr) (ast.Expr, bool) {
	ix, ok := e.(*ast.IndexExpr)
	if !ok || exprString(ix.X) != "config.Parsed.Feeds" {
		return nil, false
	}
	return ix.Index, true
}

/* a, present := config.Parsed.Feeds[k] */
func (g *w24) mapLookup(ind int, s *ast.AssignStmt, key ast.Expr) {
	if !g.cfgFeed {
		g.bad(ind, "config.Parsed.Feeds is not declared as a map[string][]string in config/config.go")
		return
	}
	a, ok1 := s.Lhs[0].(*ast.Ident)
	b, ok2 := s.Lhs[1].(*ast.Ident)
	if !ok1 || !ok2 || s.Tok != token.DEFINE {
		g.bad(ind, "targets of the lookup %s", exprFull(s.Rhs[0]))
		return
	}
	k, kk := g.expr(key)
	if kk != "string" || u16Effects(k) {
		g.bad(ind, "key of the lookup %s", exprFull(s.Rhs[0]))
		return
	}
	g.cur.cfg = true
	r := g.fresh("r")
	g.line(ind, "let "+r+" := cfg.feeds "+k)
	g.declare(ind, a.Name, "strings", r+".getD []")
	g.declare(ind, b.Name, "bool", r+".isSome")
}

func (g *w24) tupleAssign(ind int, s *ast.AssignStmt) {
	if key, ok := g.isMapLookup(s.Rhs[0]); ok && len(s.Lhs) == 2 {
		g.line(ind, "-- "+exprStringList(s.Lhs)+" := "+exprFull(s.Rhs[0]))
		g.mapLookup(ind, s, key)
		return
	}
	if s.Tok != token.DEFINE {
		g.bad(ind, "tuple assignment to existing variables")
		return
	}
	v, k := g.expr(s.Rhs[0])
	if !strings.HasPrefix(k, "tuple:") {
		g.bad(ind, "tuple assignment from %s", exprFull(s.Rhs[0]))
		return
	}
	kinds := strings.Split(strings.TrimPrefix(k, "tuple:"), ",")
	if len(kinds) != len(s.Lhs) {
		g.bad(ind, "%d names for the %d results of %s", len(s.Lhs), len(kinds), exprFull(s.Rhs[0]))
		return
	}
	r := g.fresh("r")
	inner, _ := bind24(v)
	g.line(ind, "let "+r+" ← "+inner)
	for i, l := range s.Lhs {
		id, ok := l.(*ast.Ident)
		if !ok {
			g.bad(ind, "target %s", exprFull(l))
			continue
		}
		if id.Name == "_" {
			continue
		}
		g.declare(ind, id.Name, kinds[i], r+proj24(i, len(kinds)))
	}
}

func exprStringList(es []ast.Expr) string {
	out := []string{}
	for _, e := range es {
		out = append(out, exprFull(e))
	}
	return strings.Join(out, ", ")
}

func (g *w24) assign(ind int, s *ast.AssignStmt) {
	if len(s.Lhs) >= 2 && len(s.Rhs) == 1 {
		g.tupleAssign(ind, s)
		return
	}
	if len(s.Lhs) != 1 || len(s.Rhs) != 1 {
		g.bad(ind, "parallel assignment")
		return
	}
	switch lhs := s.Lhs[0].(type) {
	case *ast.SelectorExpr:
		if s.Tok != token.ASSIGN {
			g.bad(ind, "assignment operator %s on %s", s.Tok, exprFull(lhs))
			return
		}
		id, isId := lhs.X.(*ast.Ident)
		switch {
		case isId && id.Name == g.recv && g.lookup(id.Name) == "":
			fk := g.stateField(lhs.Sel.Name)
			if fk != "int" && fk != "string" && fk != "bool" && fk != "uint" {
				g.bad(ind, "assignment to %s", exprFull(lhs))
				return
			}
			r, rk := g.expr(s.Rhs[0])
			r = g.coerce(r, rk, fk, "assignment to "+exprFull(lhs))
			g.line(ind, g.recv+" := { "+g.recv+" with "+leanIdent(lhs.Sel.Name)+" := "+r+" }")
		case isId && g.lookup(id.Name) == "pageptr":
			fk := g.pageField(lhs.Sel.Name)
			if fk == "" || fk == "feed" {
				g.bad(ind, "assignment to %s", exprFull(lhs))
				return
			}
			r, rk := g.expr(s.Rhs[0])
			r = g.coerce(r, rk, fk, "assignment to "+exprFull(lhs))
			g.pageWrite(ind, id.Name, lhs.Sel.Name, r)
		case g.isCurrentCall(lhs.X):
			fk := g.pageField(lhs.Sel.Name)
			if fk == "" || fk == "feed" {
				g.bad(ind, "assignment to %s", exprFull(lhs))
				return
			}
			r, rk := g.expr(s.Rhs[0])
			r = g.coerce(r, rk, fk, "assignment to "+exprFull(lhs))
			if u16Effects(r) {
				n := g.fresh("v")
				inner, _ := bind24(r)
				g.line(ind, "let "+n+" ← "+inner)
				r = n
			}
			g.curWrite(ind, lhs.Sel.Name, func(string) string { return r })
		default:
			g.bad(ind, "assignment to %s", exprFull(lhs))
		}
	case *ast.Ident:
		/* page := s.h.Current() */
		if g.isCurrentCall(s.Rhs[0]) {
			if s.Tok != token.DEFINE || g.depth != 0 || g.pageVar != "" || g.inDone || g.reserved(lhs.Name) || g.lookup(lhs.Name) != "" || g.mutable[lhs.Name] {
				g.bad(ind, "%s: a pointer to the current page is only translated as one `p := %s.h.Current()` at the top of a function, never reassigned", exprFull(s.Rhs[0]), g.recv)
				return
			}
			p := lhs.Name
			g.line(ind, "-- "+p+" := "+exprFull(s.Rhs[0])+": a pointer to the page at `"+p+"_pos`")
			g.line(ind, "let mut "+leanIdent(p)+" : Page T C ← GenHistory.Current "+g.recv+".h")
			g.line(ind, "let "+p+"_pos : Int := "+g.recv+".h.index")
			g.scopes[len(g.scopes)-1][p] = "pageptr"
			g.order = append(g.order, p)
			g.pageVar = p
			return
		}
		if call, ok := g.isStateCall(s.Rhs[0]); ok {
			if s.Tok != token.DEFINE {
				g.bad(ind, "the result of %s assigned to an existing variable", exprFull(call))
				return
			}
			r, callee := g.stateCall(ind, call)
			if callee == nil {
				return
			}
			if !callee.retErr {
				g.bad(ind, "%s returns nothing", callee.name)
				return
			}
			g.declare(ind, lhs.Name, "error", r+".2")
			return
		}
		r, rk := g.expr(s.Rhs[0])
		if s.Tok == token.DEFINE {
			if strings.HasPrefix(rk, "tuple:") {
				g.bad(ind, "one name for the results of %s", exprFull(s.Rhs[0]))
				return
			}
			g.declare(ind, lhs.Name, rk, r)
			return
		}
		if lhs.Name == "_" && s.Tok == token.ASSIGN {
			g.line(ind, "let _ := "+r)
			return
		}
		vk := g.lookup(lhs.Name)
		if vk == "" || vk == "pageptr" || s.Tok != token.ASSIGN || !g.mutable[lhs.Name] {
			g.bad(ind, "assignment to %s", lhs.Name)
			return
		}
		r = g.coerce(r, rk, vk, "assignment to "+lhs.Name)
		g.line(ind, leanIdent(lhs.Name)+" := "+r)
	default:
		g.bad(ind, "assignment target %s", exprFull(s.Lhs[0]))
	}
}

func (g *w24) ifStmt(ind int, s *ast.IfStmt) {
	if s.Init != nil {
		as, ok := s.Init.(*ast.AssignStmt)
		var key ast.Expr
		if ok && len(as.Lhs) == 2 && len(as.Rhs) == 1 {
			key, ok = g.isMapLookup(as.Rhs[0])
		} else {
			ok = false
		}
		if !ok {
			g.bad(ind, "init statement of an if")
			return
		}
		g.line(ind, "-- if "+exprStringList(as.Lhs)+" := "+exprFull(as.Rhs[0])+"; "+exprFull(s.Cond))
		g.mapLookup(ind, as, key)
	}
	t, k := g.expr(s.Cond)
	if k != "bool" {
		t = g.fail("condition %s", exprFull(s.Cond))
	}
	g.line(ind, "if "+t+" then")
	g.body(ind+1, s.Body.List)
	if s.Else != nil {
		g.line(ind, "else")
		if blk, ok := s.Else.(*ast.BlockStmt); ok {
			g.body(ind+1, blk.List)
		} else {
			g.body(ind+1, []ast.Stmt{s.Else})
		}
	}
}

func (g *w24) switchStmt(ind int, s *ast.SwitchStmt) {
	if s.Init != nil || s.Tag == nil {
		g.bad(ind, "switch form")
		return
	}
	tag, tk := g.expr(s.Tag)
	if u16Effects(tag) || (tk != "int" && tk != "string") {
		g.bad(ind, "switch tag %s", exprFull(s.Tag))
		return
	}
	var deflt *ast.CaseClause
	cases := []*ast.CaseClause{}
	for i, c := range s.Body.List {
		cc := c.(*ast.CaseClause)
		if cc.List == nil {
			if i != len(s.Body.List)-1 {
				g.bad(ind, "a default that is not the last clause")
				return
			}
			deflt = cc
			continue
		}
		cases = append(cases, cc)
	}
	g.line(ind, "-- switch "+exprFull(s.Tag))
	body := func(ind int, cc *ast.CaseClause) {
		for _, st := range cc.Body {
			bad := false
			ast.Inspect(st, func(m ast.Node) bool {
				if _, ok := m.(*ast.BranchStmt); ok {
					bad = true
				}
				return true
			})
			if bad {
				g.bad(ind, "break / fallthrough / goto inside a case")
				return
			}
		}
		g.body(ind, cc.Body)
	}
	for _, cc := range cases {
		conds := []string{}
		for _, ce := range cc.List {
			v, vk := g.expr(ce)
			if u16Effects(v) || (vk != tk && !(vk == "lit" && tk == "int")) {
				g.bad(ind, "case %s", exprFull(ce))
				return
			}
			conds = append(conds, "decide ("+tag+" = "+v+")")
		}
		cond := conds[0]
		if len(conds) > 1 {
			cond = "(" + strings.Join(conds, " || ") + ")"
		}
		g.line(ind, "if "+cond+" then")
		body(ind+1, cc)
		g.line(ind, "else")
		ind++
	}
	if deflt != nil {
		body(ind, deflt)
	} else {
		g.line(ind, "pure ()")
	}
}

/* the cases of a type switch as constructors of Arg */
func (g *w24) argCases(s *ast.TypeSwitchStmt) ([]p24, []string, *ast.CaseClause, string) {
	cons, src := []p24{}, []string{}
	var deflt *ast.CaseClause
	for i, c := range s.Body.List {
		cc := c.(*ast.CaseClause)
		if cc.List == nil {
			if i != len(s.Body.List)-1 {
				return nil, nil, nil, "a default that is not the last clause of the type switch"
			}
			deflt = cc
			continue
		}
		if len(cc.List) != 1 {
			return nil, nil, nil, "a case of the type switch with several types"
		}
		switch g.kindOfType(cc.List[0], "ui") {
		case "tangs":
			cons = append(cons, p24{"tangibles", "tangs"})
		case "tang?":
			cons = append(cons, p24{"tangible", "tang"})
		case "cont?":
			cons = append(cons, p24{"container", "cont"})
		default:
			return nil, nil, nil, "case " + exprFull(cc.List[0]) + " of the type switch (only []pub.Tangible, pub.Tangible, pub.Container are understood)"
		}
		src = append(src, exprFull(cc.List[0]))
	}
	seen := map[string]bool{}
	for _, c := range cons {
		if seen[c.name] {
			return nil, nil, nil, "a type twice in the type switch"
		}
		seen[c.name] = true
	}
	return cons, src, deflt, ""
}

func (g *w24) typeSwitch(ind int, s *ast.TypeSwitchStmt) {
	if s.Init != nil {
		g.bad(ind, "init statement of a type switch")
		return
	}
	bound := "_"
	var ta *ast.TypeAssertExpr
	switch a := s.Assign.(type) {
	case *ast.AssignStmt:
		if len(a.Lhs) == 1 && len(a.Rhs) == 1 {
			if id, ok := a.Lhs[0].(*ast.Ident); ok {
				bound = id.Name
			}
			ta, _ = a.Rhs[0].(*ast.TypeAssertExpr)
		}
	case *ast.ExprStmt:
		ta, _ = a.X.(*ast.TypeAssertExpr)
	}
	if ta == nil || ta.Type != nil {
		g.bad(ind, "type switch form")
		return
	}
	subj, ok := ta.X.(*ast.Ident)
	if !ok || g.lookup(subj.Name) != "arg" {
		g.bad(ind, "type switch on %s, which is not a parameter of type any", exprFull(ta.X))
		return
	}
	cons, _, deflt, why := g.argCases(s)
	if why != "" {
		g.bad(ind, "%s", why)
		return
	}
	if len(cons) != len(g.args) {
		g.bad(ind, "the type switches do not agree on their cases")
		return
	}
	for i := range cons {
		if cons[i] != g.args[i] {
			g.bad(ind, "the type switches do not agree on their cases")
			return
		}
	}
	if bound != "_" && (g.reserved(bound) || g.lookup(bound) != "") {
		g.bad(ind, "name %s bound by the type switch", bound)
		return
	}
	hdr := "switch "
	if bound != "_" {
		hdr += bound + " := "
	}
	g.line(ind, "-- "+hdr+exprFull(ta.X)+".(type)")
	g.line(ind, "match "+leanIdent(subj.Name)+" with")
	arm := func(cc *ast.CaseClause, kind string) {
		for _, st := range cc.Body {
			bad := false
			ast.Inspect(st, func(m ast.Node) bool {
				if _, ok := m.(*ast.BranchStmt); ok {
					bad = true
				}
				return true
			})
			if bad {
				g.bad(ind+1, "break / fallthrough / goto inside a case")
				return
			}
		}
		g.push()
		if bound != "_" {
			g.scopes[len(g.scopes)-1][bound] = kind
		}
		g.body(ind+1, cc.Body)
		g.pop()
	}
	i := 0
	for _, c := range s.Body.List {
		cc := c.(*ast.CaseClause)
		if cc.List == nil {
			continue
		}
		g.line(ind, "| ."+cons[i].name+" "+leanIdent(bound)+" =>")
		arm(cc, cons[i].kind)
		i++
	}
	g.line(ind, "| .other =>")
	if deflt == nil {
		g.line(ind+1, "pure ()")
		return
	}
	/* in the default arm the bound name has the type of the subject; it is not given a meaning here */
	okDef := len(deflt.Body) == 1
	if okDef {
		es, isE := deflt.Body[0].(*ast.ExprStmt)
		okDef = isE && g.panicText(es.X) != ""
	}
	if !okDef {
		g.bad(ind+1, "a default of the type switch that does not just panic with a string literal")
		return
	}
	g.stmt(ind+1, deflt.Body[0])
}

/* panic("literal") */
func (g *w24) panicText(e ast.Expr) string {
	call, ok := e.(*ast.CallExpr)
	if !ok || !isIdent(call.Fun, "panic") || g.lookup("panic") != "" || len(call.Args) != 1 {
		return ""
	}
	lit, ok := call.Args[0].(*ast.BasicLit)
	if !ok || lit.Kind != token.STRING {
		return ""
	}
	u, err := strconv.Unquote(lit.Value)
	if err != nil {
		return ""
	}
	return "throw (Panic.explicit " + leanStr(u) + ")"
}

func (g *w24) exprStmt(ind int, e ast.Expr) {
	call, ok := e.(*ast.CallExpr)
	if !ok {
		g.bad(ind, "expression statement %s", exprFull(e))
		return
	}
	if g.isRedraw(call) {
		g.line(ind, "frames := frames ++ ["+g.recv+"]")
		return
	}
	if t := g.panicText(call); t != "" {
		g.line(ind, t)
		return
	}
	se, ok := call.Fun.(*ast.SelectorExpr)
	if !ok {
		g.bad(ind, "expression statement %s", exprFull(e))
		return
	}
	/* s.h.Add(&Page{…}), s.h.Back(), s.h.Forward() */
	if exprString(se.X) == g.recv+".h" && g.lookup(g.recv) == "" {
		if g.pageVar != "" {
			g.bad(ind, "%s while the page pointer %s is held", exprFull(call), g.pageVar)
			return
		}
		switch {
		case se.Sel.Name == "Add" && len(call.Args) == 1 && call.Ellipsis == token.NoPos:
			lit, ok := g.pageLit(ind, call.Args[0])
			if !ok {
				g.bad(ind, "what is added to the history: %s", exprFull(call.Args[0]))
				return
			}
			g.line(ind, g.recv+" := { "+g.recv+" with h := (← GenHistory.Add "+g.recv+".h "+lit+") }")
		case (se.Sel.Name == "Back" || se.Sel.Name == "Forward") && len(call.Args) == 0:
			g.line(ind, g.recv+" := { "+g.recv+" with h := (← GenHistory."+se.Sel.Name+" "+g.recv+".h) }")
		default:
			g.bad(ind, "expression statement %s", exprFull(e))
		}
		return
	}
	if c, ok := g.isStateCall(call); ok {
		g.stateCall(ind, c)
		return
	}
	/* a mutating method of the feed of a page */
	if fs, ok := se.X.(*ast.SelectorExpr); ok && fs.Sel.Name == "feed" && g.pageField("feed") == "feed" {
		sg, known := g.feedM[se.Sel.Name]
		id, isId := fs.X.(*ast.Ident)
		viaLocal := isId && g.lookup(id.Name) == "pageptr"
		if viaLocal || g.isCurrentCall(fs.X) {
			if !known {
				g.bad(ind, "no method %s of *feed.Feed", se.Sel.Name)
				return
			}
			if len(sg.results) != 0 {
				/* a reading method whose result is dropped: evaluated for its panics */
				t, _ := g.expr(call)
				g.line(ind, "let _ := "+t)
				return
			}
			a, _ := g.callArgs(call, sg.params)
			if viaLocal {
				p := leanIdent(id.Name)
				g.pageWrite(ind, id.Name, "feed", "(← GenFeed."+se.Sel.Name+" "+p+".feed"+a+")")
			} else {
				g.curWrite(ind, "feed", func(cur string) string { return "(← GenFeed." + se.Sel.Name + " " + cur + ".feed" + a + ")" })
			}
			return
		}
	}
	g.bad(ind, "expression statement %s", exprFull(e))
}

func (g *w24) stmt(ind int, st ast.Stmt) {
	switch s := st.(type) {
	case *ast.BlockStmt:
		g.body(ind, s.List)
	case *ast.EmptyStmt:
	case *ast.ReturnStmt:
		if g.inDone {
			g.bad(ind, "return inside a critical section (the mutex would stay locked)")
			return
		}
		switch {
		case !g.fn.retErr && len(s.Results) == 0:
			g.line(ind, "return "+g.outText())
		case g.fn.retErr && len(s.Results) == 1:
			r, rk := g.expr(s.Results[0])
			r = g.coerce(r, rk, "error", "return")
			g.line(ind, "return ("+g.outText()+", "+r+")")
		default:
			g.bad(ind, "return form")
		}
	case *ast.IfStmt:
		g.ifStmt(ind, s)
	case *ast.SwitchStmt:
		g.switchStmt(ind, s)
	case *ast.TypeSwitchStmt:
		g.typeSwitch(ind, s)
	case *ast.ExprStmt:
		g.exprStmt(ind, s.X)
	case *ast.AssignStmt:
		g.assign(ind, s)
	case *ast.GoStmt:
		g.goStmt(ind, s)
	default:
		g.bad(ind, "statement %T (line %d)", st, fset.Position(st.Pos()).Line)
	}
}

func ordinal24(n int) string {
	switch {
	case n%10 == 1 && n%100 != 11:
		return fmt.Sprintf("%dst", n)
	case n%10 == 2 && n%100 != 12:
		return fmt.Sprintf("%dnd", n)
	case n%10 == 3 && n%100 != 13:
		return fmt.Sprintf("%drd", n)
	}
	return fmt.Sprintf("%dth", n)
}

func (g *w24) isMutexCall(st ast.Stmt, method string) bool {
	es, ok := st.(*ast.ExprStmt)
	if !ok {
		return false
	}
	c, ok := es.X.(*ast.CallExpr)
	return ok && g.mutex != "" && len(c.Args) == 0 && exprString(c.Fun) == g.recv+"."+g.mutex+"."+method
}

func (g *w24) mentionsMutex(n ast.Node) bool {
	found := false
	ast.Inspect(n, func(m ast.Node) bool {
		if se, ok := m.(*ast.SelectorExpr); ok && isIdent(se.X, g.recv) && se.Sel.Name == g.mutex {
			found = true
		}
		return true
	})
	return found
}

func (g *w24) needsText(f *fn24, typed bool) string {
	out := ""
	if f.env {
		if typed {
			out += " (env : Env T C)"
		} else {
			out += " env"
		}
	}
	if f.cfg {
		if typed {
			out += " (cfg : Cfg)"
		} else {
			out += " cfg"
		}
	}
	return out
}

func (g *w24) prologue() {
	g.line(1, "let mut "+g.recv+" := s0")
	g.line(1, "let mut frames : List (State T C) := []")
	g.line(1, "let mut started : List Job := []")
}

/* go func() { x, y := <external call>; s.m.Lock(); …; s.m.Unlock() }() */
func (g *w24) goStmt(ind int, s *ast.GoStmt) {
	fl, ok := s.Call.Fun.(*ast.FuncLit)
	if !ok || len(s.Call.Args) != 0 || (fl.Type.Params != nil && len(fl.Type.Params.List) != 0) || fl.Type.Results != nil {
		g.bad(ind, "a go statement that does not start a closure without parameters")
		return
	}
	if g.inDone {
		g.bad(ind, "a goroutine started inside a critical section")
		return
	}
	g.goN++
	n := g.goN
	name := fmt.Sprintf("%s_go%d", g.fn.name, n)
	cl := fl.Body.List
	lockAt := -1
	for i, st := range cl {
		if g.isMutexCall(st, "Lock") {
			lockAt = i
			break
		}
	}
	if lockAt < 0 || len(cl) < 2 || !g.isMutexCall(cl[len(cl)-1], "Unlock") {
		g.bad(ind, "the goroutine %s is not of the form …; %s.%s.Lock(); …; %s.%s.Unlock()", name, g.recv, g.mutex, g.recv, g.mutex)
		return
	}
	pre, crit := cl[:lockAt], cl[lockAt+1:len(cl)-1]
	if len(pre) != 1 {
		g.bad(ind, "the goroutine %s has %d statements before it takes the mutex (expected: one call of the environment)", name, len(pre))
		return
	}
	as, ok := pre[0].(*ast.AssignStmt)
	if !ok || as.Tok != token.DEFINE || len(as.Rhs) != 1 {
		g.bad(ind, "the statement of the goroutine %s before it takes the mutex is not `x, … := call`", name)
		return
	}
	if _, isCall := as.Rhs[0].(*ast.CallExpr); !isCall {
		g.bad(ind, "the statement of the goroutine %s before it takes the mutex is not `x, … := call`", name)
		return
	}
	if mentionsIdent(pre[0], g.recv) {
		g.bad(ind, "the goroutine %s touches the state before it takes the mutex", name)
		return
	}
	for _, st := range crit {
		if g.mentionsMutex(st) {
			g.bad(ind, "the mutex is used inside the critical section of %s", name)
			return
		}
	}
	/* names the closure declares */
	inner := map[string]bool{}
	ast.Inspect(fl.Body, func(m ast.Node) bool {
		if a, ok := m.(*ast.AssignStmt); ok && a.Tok == token.DEFINE {
			for _, l := range a.Lhs {
				if id, ok := l.(*ast.Ident); ok && id.Name != "_" {
					inner[id.Name] = true
				}
			}
		}
		return true
	})
	for nm := range inner {
		if g.lookup(nm) != "" {
			g.bad(ind, "the goroutine %s declares %s, which the enclosing call has too", name, nm)
			return
		}
	}
	captured := []p24{}
	seen := map[string]bool{}
	for _, nm := range g.order {
		k := g.lookup(nm)
		if k == "" || seen[nm] || !mentionsIdent(fl.Body, nm) {
			continue
		}
		seen[nm] = true
		switch k {
		case "int", "uint", "string", "bool", "strings", "pageptr":
		default:
			g.bad(ind, "the goroutine %s captures %s, a %s", name, nm, k)
			return
		}
		if g.mutable[nm] {
			g.bad(ind, "the goroutine %s captures %s, which the enclosing call assigns", name, nm)
			return
		}
		captured = append(captured, p24{nm, k})
	}
	capArgs, capParams, pageCap := "", "", ""
	for _, c := range captured {
		if c.kind == "pageptr" {
			capArgs += " " + c.name + "_pos"
			capParams += " (" + c.name + "_pos : Int)"
			pageCap = c.name
		} else {
			capArgs += " " + leanIdent(c.name)
			capParams += " (" + leanIdent(c.name) + " : " + g.leanType(c.kind) + ")"
		}
	}
	g.line(ind, "-- go func() { … }(): "+name)
	g.line(ind, "started := started ++ [."+name+capArgs+"]")

	/* the two functions of the goroutine */
	saveB, saveScopes, saveOrder, saveTmp, saveDepth := g.b.String(), g.scopes, g.order, g.tmp, g.depth
	saveCur, savePage, saveMut := g.cur, g.pageVar, g.mutable
	defer func() {
		g.b = strings.Builder{}
		g.b.WriteString(saveB)
		g.scopes, g.order, g.tmp, g.depth = saveScopes, saveOrder, saveTmp, saveDepth
		g.cur, g.pageVar, g.mutable, g.inDone = saveCur, savePage, saveMut, false
	}()
	scope := func() {
		g.scopes = nil
		g.push()
		g.order = nil
		for _, c := range captured {
			g.scopes[0][c.name] = c.kind
			g.order = append(g.order, c.name)
		}
	}
	/* the call before the lock */
	wrap := &fn24{name: name}
	g.cur = wrap
	g.b = strings.Builder{}
	g.tmp = 0
	g.depth = 1
	g.pageVar = ""
	g.mutable = assignedIdents(fl.Body)
	scope()
	v, k := g.expr(as.Rhs[0])
	if !wrap.env || !strings.HasPrefix(v, "(← env.") {
		v = g.fail("what the goroutine %s does before it takes the mutex is not a call of the environment: %s", name, exprFull(as.Rhs[0]))
	}
	kinds := []string{k}
	if strings.HasPrefix(k, "tuple:") {
		kinds = strings.Split(strings.TrimPrefix(k, "tuple:"), ",")
	}
	if len(kinds) != len(as.Lhs) {
		v = g.fail("%d names for the %d results of %s", len(as.Lhs), len(kinds), exprFull(as.Rhs[0]))
		kinds = make([]string, len(as.Lhs))
	}
	results := []p24{}
	projs := []string{}
	r := g.fresh("r")
	for i, l := range as.Lhs {
		id, ok := l.(*ast.Ident)
		if !ok {
			v = g.fail("target %s", exprFull(l))
			continue
		}
		if id.Name == "_" {
			continue
		}
		if g.reserved(id.Name) {
			v = g.fail("local %s clashes with a name of the translation", id.Name)
		}
		results = append(results, p24{id.Name, kinds[i]})
		projs = append(projs, r+proj24(i, len(kinds)))
	}
	bound, _ := bind24(v)

	/* the critical section */
	done := &fn24{name: name + "_done"}
	g.cur = done
	g.tmp = 0
	g.depth = 1
	g.inDone = true
	g.pageVar = pageCap
	scope()
	resParams, resNames := "", []string{}
	for _, p := range results {
		g.scopes[0][p.name] = p.kind
		g.order = append(g.order, p.name)
		resParams += " (" + leanIdent(p.name) + " : " + g.leanType(p.kind) + ")"
		resNames = append(resNames, "`"+p.name+"`")
	}
	if pageCap != "" {
		g.line(1, "let mut "+leanIdent(pageCap)+" : Page T C ← Go.index "+g.recv+".h.elements "+pageCap+"_pos")
	}
	for _, st := range crit {
		g.stmt(1, st)
	}
	g.line(1, "return "+g.outText())
	doneBody := g.b.String()
	g.inDone = false
	wrap.env = wrap.env || done.env
	wrap.cfg = wrap.cfg || done.cfg

	x := &g.extra
	verb := "are"
	if len(resNames) == 1 {
		verb = "is"
	}
	what := strings.Join(resNames, ", ") + " " + verb
	if len(resNames) == 0 {
		what = "nothing is kept of"
	}
	x.WriteString("/-- the critical section of the " + ordinal24(n) + " goroutine of `" + g.fn.name + "` (between `" + g.recv + "." + g.mutex + ".Lock()` and `" + g.recv + "." + g.mutex + ".Unlock()`); " + what + "\n")
	x.WriteString("    what `" + exprFull(as.Rhs[0]) + "` returned -/\n")
	x.WriteString("def " + done.name + g.needsText(done, true) + " (s0 : State T C)" + capParams + resParams + " : Except Panic (Out T C) := do\n")
	x.WriteString("  let mut " + g.recv + " := s0\n  let mut frames : List (State T C) := []\n  let mut started : List Job := []\n")
	x.WriteString(doneBody)
	x.WriteString("\n")
	x.WriteString("/-- the " + ordinal24(n) + " goroutine of `" + g.fn.name + "` as a whole, when nothing else runs between its call and its critical section -/\n")
	x.WriteString("def " + name + g.needsText(wrap, true) + " (s0 : State T C)" + capParams + " : Except Panic (Out T C) := do\n")
	if pageCap != "" {
		x.WriteString("  let " + leanIdent(pageCap) + " : Page T C ← Go.index s0.h.elements " + pageCap + "_pos\n")
	}
	x.WriteString("  let " + r + " ← " + bound + "\n")
	x.WriteString("  " + done.name + g.needsText(done, false) + " s0" + capArgs)
	for _, p := range projs {
		x.WriteString(" " + p)
	}
	x.WriteString("\n\n")
	g.jobs = append(g.jobs, go24{name: name, captured: captured, cfg: wrap.cfg, env: wrap.env})
}

func fieldListText(fl *ast.FieldList) string {
	if fl == nil {
		return ""
	}
	parts := []string{}
	for _, f := range fl.List {
		names := []string{}
		for _, n := range f.Names {
			names = append(names, n.Name)
		}
		t := typeString(f.Type)
		if len(names) > 0 {
			t = strings.Join(names, ", ") + " " + t
		}
		parts = append(parts, t)
	}
	return strings.Join(parts, ", ")
}

func (g *w24) function(fd *ast.FuncDecl) string {
	name := fd.Name.Name
	fn := &fn24{name: name}
	g.fn, g.cur, g.fd = fn, fn, fd
	g.b = strings.Builder{}
	g.extra = strings.Builder{}
	g.tmp, g.depth, g.goN, g.pageVar, g.inDone = 0, 0, 0, "", false
	g.scopes, g.order = nil, nil
	g.mutable = assignedIdents(fd.Body)
	g.push()
	if recvName(fd) != g.recv {
		g.fail("the receiver of %s is not named %s", name, g.recv)
	}
	paramText := ""
	for _, f := range fd.Type.Params.List {
		k := g.kindOfType(f.Type, "ui")
		switch k {
		case "int", "uint", "string", "bool", "strings", "arg":
		default:
			g.fail("parameter of type %s of %s", typeString(f.Type), name)
			k = "?"
		}
		for _, n := range f.Names {
			if g.reserved(n.Name) || g.mutable[n.Name] || n.Name == "_" {
				g.fail("parameter %s of %s (reserved, assigned or blank)", n.Name, name)
			}
			fn.params = append(fn.params, p24{n.Name, k})
			g.scopes[0][n.Name] = k
			g.order = append(g.order, n.Name)
			lt := "(sorry_untranslatable)"
			if k != "?" {
				lt = strip24(g.leanType(k))
				if k != "arg" {
					lt = g.leanType(k)
				}
			}
			paramText += " (" + leanIdent(n.Name) + " : " + lt + ")"
		}
	}
	sigText := "func (" + g.recv + " *State) " + name + "(" + fieldListText(fd.Type.Params) + ")"
	if fd.Type.Results != nil {
		if len(fd.Type.Results.List) == 1 && len(fd.Type.Results.List[0].Names) == 0 && isIdent(fd.Type.Results.List[0].Type, "error") {
			fn.retErr = true
			sigText += " error"
		} else {
			g.fail("results of %s", name)
		}
	}
	/* the mutex */
	list := fd.Body.List
	docTail := ""
	lockHeld := false
	switch {
	case len(list) >= 2 && g.isMutexCall(list[0], "Lock") && func() bool {
		ds, ok := list[1].(*ast.DeferStmt)
		return ok && len(ds.Call.Args) == 0 && exprString(ds.Call.Fun) == g.recv+"."+g.mutex+".Unlock"
	}():
		g.line(1, "-- "+g.recv+"."+g.mutex+".Lock(); defer "+g.recv+"."+g.mutex+".Unlock()")
		list = list[2:]
	case len(list) >= 3 && g.isMutexCall(list[0], "Lock") && g.isMutexCall(list[len(list)-2], "Unlock") && fn.retErr && func() bool {
		rs, ok := list[len(list)-1].(*ast.ReturnStmt)
		return ok && len(rs.Results) == 1 && isIdent(rs.Results[0], "nil")
	}():
		lockHeld = true
		docTail = ": `" + g.recv + "." + g.mutex + ".Lock()` at its start; `" + g.recv + "." + g.mutex + ".Unlock()` only before it returns nil"
		list = append(append([]ast.Stmt{}, list[1:len(list)-2]...), list[len(list)-1])
	}
	for _, st := range list {
		if _, isGo := st.(*ast.GoStmt); isGo {
			continue /* the closure's own use of the mutex is judged with the goroutine */
		}
		bad := false
		ast.Inspect(st, func(m ast.Node) bool {
			if _, ok := m.(*ast.FuncLit); ok {
				return false
			}
			if se, ok := m.(*ast.SelectorExpr); ok && isIdent(se.X, g.recv) && se.Sel.Name == g.mutex {
				bad = true
			}
			return true
		})
		if bad {
			g.fail("use of the mutex in %s that is not understood (line %d)", name, fset.Position(st.Pos()).Line)
		}
	}
	if !lockHeld && fn.retErr {
		docTail = ": what it leaves and the text of the error it returns (`none` = nil)"
	}
	endsInGo := false
	if len(list) > 0 {
		_, endsInGo = list[len(list)-1].(*ast.GoStmt)
	}
	if endsInGo {
		docTail = " up to its `go` statement" + docTail
	}
	for _, st := range list {
		g.stmt(1, st)
	}
	if !fn.retErr {
		g.line(1, "return "+g.outText())
	} else if len(list) == 0 || !isReturn(list[len(list)-1]) {
		g.line(1, g.fail("%s does not end with a return", name))
	}
	g.pop()
	body := g.b.String()
	g.b = strings.Builder{}
	ret := "Out T C"
	if fn.retErr {
		ret = "Out T C × Option Str"
	}
	g.line(0, "/-- `"+sigText+"`"+docTail+" -/")
	g.line(0, "def "+name+g.needsText(fn, true)+" (s0 : State T C)"+paramText+" : Except Panic ("+ret+") := do")
	g.prologue()
	g.b.WriteString(body)
	g.line(0, "")
	g.b.WriteString(g.extra.String())
	g.fns[name] = fn
	return g.b.String()
}

func structOf(f *ast.File, name string) *ast.StructType {
	for _, d := range f.Decls {
		gd, ok := d.(*ast.GenDecl)
		if !ok || gd.Tok != token.TYPE {
			continue
		}
		for _, sp := range gd.Specs {
			ts := sp.(*ast.TypeSpec)
			if st, ok := ts.Type.(*ast.StructType); ok && ts.Name.Name == name {
				return st
			}
		}
	}
	return nil
}

/* config/config.go: `var Parsed *Config`, `Network.Context int`, `Feeds map[string][]string` */
func (g *w24) readConfig(root string) {
	f := parseFile(root, "config/config.go")
	parsed := false
	for _, d := range f.Decls {
		gd, ok := d.(*ast.GenDecl)
		if !ok || gd.Tok != token.VAR {
			continue
		}
		for _, sp := range gd.Specs {
			vs := sp.(*ast.ValueSpec)
			if len(vs.Names) == 1 && vs.Names[0].Name == "Parsed" && vs.Type != nil && typeString(vs.Type) == "*Config" {
				parsed = true
			}
		}
	}
	st := structOf(f, "Config")
	if !parsed || st == nil {
		return
	}
	for _, fl := range st.Fields.List {
		for _, n := range fl.Names {
			switch n.Name {
			case "Feeds":
				g.cfgFeed = typeString(fl.Type) == "map[string][]string"
			case "Network":
				if inner, ok := fl.Type.(*ast.StructType); ok {
					for _, il := range inner.Fields.List {
						for _, m := range il.Names {
							if m.Name == "Context" && typeString(il.Type) == "int" {
								g.cfgCtx = true
							}
						}
					}
				}
			}
		}
	}
}

func (g *w24) readDecls(root string) {
	/* the interfaces */
	pf := parseFile(root, "pub/interfaces.go")
	anyOK := false
	for _, d := range pf.Decls {
		gd, ok := d.(*ast.GenDecl)
		if !ok || gd.Tok != token.TYPE {
			continue
		}
		for _, sp := range gd.Specs {
			ts := sp.(*ast.TypeSpec)
			if ts.Name.Name == "Any" && g.kindOfType(ts.Type, "pub") == "arg" {
				anyOK = true
			}
			it, ok := ts.Type.(*ast.InterfaceType)
			if !ok || (ts.Name.Name != "Tangible" && ts.Name.Name != "Container") {
				continue
			}
			for _, m := range it.Methods.List {
				ft, ok := m.Type.(*ast.FuncType)
				if !ok || len(m.Names) != 1 {
					continue
				}
				ps, rs, ok := g.sigOf(ft, "pub")
				if ok && len(rs) >= 1 {
					g.ifaces[ts.Name.Name+"."+m.Names[0].Name] = sig24{iface: ts.Name.Name, name: m.Names[0].Name, params: ps, results: rs}
				}
			}
		}
	}
	/* only these three are answered by the environment */
	for k, sg := range g.ifaces {
		if !(sg.iface == "Tangible" && (sg.name == "Parents" || sg.name == "Children")) && !(sg.iface == "Container" && sg.name == "Harvest") {
			delete(g.ifaces, k)
		}
	}
	/* pub.FetchUserInput */
	for _, d := range parseFile(root, "pub/user-input.go").Decls {
		if fd, ok := d.(*ast.FuncDecl); ok && fd.Recv == nil && fd.Name.Name == "FetchUserInput" {
			ps, rs, ok := g.sigOf(fd.Type, "pub")
			if ok && anyOK && len(ps) == 1 && ps[0] == "string" && len(rs) == 1 && rs[0] == "arg" {
				g.extern["pub.FetchUserInput"] = sig24{name: "FetchUserInput", params: ps, results: rs}
			}
		}
	}
	/* splicer.NewSplicer and the methods of Splicer */
	harvest, parents := false, false
	for _, d := range parseFile(root, "splicer/splicer.go").Decls {
		fd, ok := d.(*ast.FuncDecl)
		if !ok {
			continue
		}
		if fd.Recv == nil && fd.Name.Name == "NewSplicer" {
			ps, rs, ok := g.sigOf(fd.Type, "splicer")
			if ok && len(ps) == 1 && ps[0] == "strings" && len(rs) == 1 && rs[0] == "splicer" {
				g.extern["splicer.NewSplicer"] = sig24{name: "NewSplicer", params: ps, results: rs}
			}
		}
		if fd.Recv != nil && len(fd.Recv.List) == 1 && strings.TrimPrefix(typeString(fd.Recv.List[0].Type), "*") == "Splicer" {
			switch fd.Name.Name {
			case "Harvest":
				harvest = true
			case "Parents":
				parents = true
			}
		}
	}
	g.splOK = harvest && !parents
	/* package feed */
	for _, d := range parseFile(root, "feed/feed.go").Decls {
		fd, ok := d.(*ast.FuncDecl)
		if !ok {
			continue
		}
		ps, rs, ok := g.sigOf(fd.Type, "feed")
		if !ok {
			continue
		}
		ps2 := []string{}
		for _, p := range ps {
			ps2 = append(ps2, p)
		}
		/* inside package feed the interfaces are written pub.Tangible: kindOfType knows them */
		switch {
		case fd.Recv == nil && len(rs) == 1 && rs[0] == "feed":
			g.feedF[fd.Name.Name] = sig24{name: fd.Name.Name, params: ps2, results: rs}
		case fd.Recv != nil && len(fd.Recv.List) == 1 && typeString(fd.Recv.List[0].Type) == "*Feed" && len(rs) <= 1:
			g.feedM[fd.Name.Name] = sig24{name: fd.Name.Name, params: ps2, results: rs}
		}
	}
}

func (g *w24) readStruct(f *ast.File, name string) ([]p24, []string) {
	st := structOf(f, name)
	out, dropped := []p24{}, []string{}
	if st == nil {
		g.fail("type %s struct not found", name)
		return out, dropped
	}
	for _, fl := range st.Fields.List {
		k := g.kindOfType(fl.Type, "ui")
		if len(fl.Names) == 0 {
			g.fail("embedded field in %s", name)
		}
		for _, n := range fl.Names {
			switch {
			case k == "mutex" || k == "func":
				if name != "State" {
					g.fail("field %s.%s of type %s", name, n.Name, typeString(fl.Type))
				}
				if k == "mutex" {
					g.mutex = n.Name
				}
				dropped = append(dropped, n.Name)
			case k == "?" || k == "arg" || k == "error" || k == "splicer" || (k == "hist" && name != "State"):
				g.fail("field %s.%s of type %s", name, n.Name, exprFull(fl.Type))
			default:
				out = append(out, p24{n.Name, k})
			}
		}
	}
	return out, dropped
}

func translateSwitch(root string) (string, []string) {
	f := parseFile(root, "ui/ui.go")
	g := &w24{modeSet: map[string]bool{}, ifaces: map[string]sig24{}, feedM: map[string]sig24{}, feedF: map[string]sig24{},
		extern: map[string]sig24{}, fns: map[string]*fn24{}, mutable: map[string]bool{}}
	g.cur = &fn24{}
	g.readConfig(root)
	g.readDecls(root)
	u := &u16{modeSet: g.modeSet}
	modeDefs := u.modeBlock(f)
	g.err = append(g.err, u.err...)
	var dropped []string
	g.page, _ = g.readStruct(f, "Page")
	g.state, dropped = g.readStruct(f, "State")
	if g.mutex == "" {
		g.fail("State has no *sync.Mutex")
	}
	if g.stateField("h") != "hist" {
		g.fail("State has no field h history.History[*Page]")
	}

	names := []string{"SetWidthHeight", "loadSurroundings", "switchTo", "openUserInput", "openFeed", "subcommand", "Subcommand"}
	decls := map[string]*ast.FuncDecl{}
	for _, d := range f.Decls {
		if fd, ok := d.(*ast.FuncDecl); ok && fd.Recv != nil && len(fd.Recv.List) == 1 && exprString(fd.Recv.List[0].Type) == "*State" {
			decls[fd.Name.Name] = fd
		}
	}
	for _, n := range names {
		if fd := decls[n]; fd != nil && g.recv == "" {
			g.recv = recvName(fd)
		}
	}
	if g.recv == "" || g.recv == "s0" {
		g.fail("name of the receiver")
		g.recv = "s"
	}
	/* the cases of the type switch of switchTo are the constructors of Arg */
	for _, n := range names {
		if fd := decls[n]; fd != nil && !g.argSeen {
			ast.Inspect(fd.Body, func(m ast.Node) bool {
				if ts, ok := m.(*ast.TypeSwitchStmt); ok && !g.argSeen {
					g.argSeen = true
					cons, src, _, why := g.argCases(ts)
					if why == "" {
						g.args, g.argSrc = cons, src
					}
					/* `why` is reported where the switch is translated */
				}
				return true
			})
		}
	}
	for _, n := range names {
		g.fns[n] = nil /* reserved names, not yet callable */
	}
	defs := []string{}
	for _, n := range names {
		fd := decls[n]
		if fd == nil || fd.Body == nil {
			g.fail("func (%s *State) %s not found", g.recv, n)
			continue
		}
		defs = append(defs, g.function(fd))
	}

	/* the file */
	g.b = strings.Builder{}
	g.line(0, "set_option linter.unusedVariables false")
	g.line(0, "")
	g.line(0, "namespace GenSwitch")
	g.line(0, "")
	g.line(0, "/-- the modes: the `const` block of ui/ui.go that declares `loading`, in its order -/")
	for _, l := range modeDefs {
		g.line(0, l)
	}
	g.line(0, "")
	g.line(0, "/-- `type Page struct`: `pub.Tangible` and `pub.Container` are the parameters `T` and `C` (interface values: nil is `none`) -/")
	g.line(0, "structure Page (T C : Type) where")
	for _, p := range g.page {
		g.line(1, leanIdent(p.name)+" : "+g.leanType(p.kind))
	}
	g.line(0, "")
	g.line(0, "/-- `type State struct` (not carried: "+strings.Join(dropped, ", ")+") -/")
	g.line(0, "structure State (T C : Type) where")
	for _, p := range g.state {
		g.line(1, leanIdent(p.name)+" : "+g.leanType(p.kind))
	}
	g.line(0, "")
	g.line(0, "/-- what the `any` parameter of `switchTo` holds, by the cases of its type switch in their order; `other` is")
	g.line(0, "    every value none of them takes (a nil interface included) -/")
	g.line(0, "inductive Arg (T C : Type) where")
	for i, a := range g.args {
		g.line(1, "| "+a.name+" (v : "+strip24(g.leanType(a.kind))+")      -- "+g.argSrc[i])
	}
	g.line(1, "| other")
	g.line(0, "")
	g.line(0, "/-- what is read of the configuration: `config.Parsed.Network.Context`, `config.Parsed.Feeds[k]` (`none` = not present) -/")
	g.line(0, "structure Cfg where")
	if g.cfgCtx {
		g.line(1, "context : Int")
	}
	if g.cfgFeed {
		g.line(1, "feeds : Str → Option (List Str)")
	}
	g.line(0, "")
	g.line(0, "/-- the goroutines these functions start, each with the locals of the starting call it uses (a `*Page` as the")
	g.line(0, "    position of the page in the history) -/")
	g.line(0, "inductive Job where")
	for _, j := range g.jobs {
		ps := ""
		for _, c := range j.captured {
			if c.kind == "pageptr" {
				ps += " (" + c.name + "_pos : Int)"
			} else {
				ps += " (" + leanIdent(c.name) + " : " + g.leanType(c.kind) + ")"
			}
		}
		g.line(1, "| "+j.name+ps)
	}
	g.line(0, "")
	g.line(0, "/-- what a function leaves: the state, the frames emitted (`s.output(s.view())`: the state each was drawn from), the")
	g.line(0, "    goroutines started -/")
	g.line(0, "structure Out (T C : Type) where")
	g.line(1, "state : State T C")
	g.line(1, "frames : List (State T C)")
	g.line(1, "started : List Job")
	g.line(0, "")
	g.line(0, "/-- what these functions call and this file does not translate -/")
	g.line(0, "structure Env (T C : Type) where")
	for _, key := range []string{"Tangible.Parents", "Tangible.Children", "Container.Harvest"} {
		sg, ok := g.ifaces[key]
		parts := strings.Split(key, ".")
		g.line(1, "/-- `"+parts[1]+"` through the interface `pub."+parts[0]+"` -/")
		if !ok {
			g.line(1, parts[0]+"_"+parts[1]+" : "+g.fail("the signature of %s in pub/interfaces.go", key))
			continue
		}
		t := map[string]string{"Tangible": "T", "Container": "C"}[parts[0]]
		for _, p := range sg.params {
			t += " → " + g.leanType(p)
		}
		g.line(1, parts[0]+"_"+parts[1]+" : "+t+" → Except Panic "+g.resultType(sg.results))
	}
	g.line(1, "/-- `pub.FetchUserInput`: what it returns, as `switchTo` will see it -/")
	if sg, ok := g.extern["pub.FetchUserInput"]; ok {
		g.line(1, "FetchUserInput : "+g.leanType(sg.params[0])+" → Except Panic "+g.resultType(sg.results))
	} else {
		g.line(1, "FetchUserInput : "+g.fail("pub.FetchUserInput(string) Any not found in pub/user-input.go"))
	}
	g.line(1, "/-- `splicer.NewSplicer`: a `*Splicer`, which has the methods of `pub.Container` and not those of `pub.Tangible` -/")
	if sg, ok := g.extern["splicer.NewSplicer"]; ok && g.splOK {
		g.line(1, "NewSplicer : "+g.leanType(sg.params[0])+" → Except Panic "+g.resultType(sg.results))
	} else {
		g.line(1, "NewSplicer : "+g.fail("splicer.NewSplicer([]string) *Splicer with Harvest and without Parents not found in splicer/splicer.go"))
	}
	g.line(0, "")
	g.line(0, "/-- a write through a `*Page`: the history holds pointers to its pages; `pos` is where the page sits -/")
	g.line(0, "def setPage {P : Type} (h : GenHistory.History P) (pos : Int) (p : P) : Except Panic (GenHistory.History P) := do")
	g.line(1, "return { h with elements := (← Go.modify h.elements pos (fun _ => p)) }")
	g.line(0, "")
	g.line(0, "variable {T C : Type}")
	g.line(0, "")
	for _, d := range defs {
		g.b.WriteString(d)
	}
	g.line(0, "/-- a started goroutine run as a whole -/")
	g.line(0, "def run (env : Env T C) (cfg : Cfg) ("+g.recv+" : State T C) : Job → Except Panic (Out T C)")
	for _, j := range g.jobs {
		ps := ""
		for _, c := range j.captured {
			if c.kind == "pageptr" {
				ps += " " + c.name + "_pos"
			} else {
				ps += " " + leanIdent(c.name)
			}
		}
		g.line(1, "| ."+j.name+ps+" => "+j.name+g.needsText(&fn24{cfg: j.cfg, env: j.env}, false)+" "+g.recv+ps)
	}
	if len(g.jobs) == 0 {
		g.line(1, "| j => nomatch j")
	}
	g.line(0, "")
	g.line(0, "end GenSwitch")
	/* `emit` adds the final newline */
	return strings.TrimSuffix(g.b.String(), "\n"), g.err
}

func (g *w24) resultType(rs []string) string {
	if len(rs) == 1 {
		return g.leanType(rs[0])
	}
	ts := []string{}
	for _, r := range rs {
		ts = append(ts, g.leanType(r))
	}
	return "(" + strings.Join(ts, " × ") + ")"
}
