package main

/*
go2lean, twentieth front end: hypertext/hypertext.go (the HTML renderer: C01, C06, C12, C14, C15)
into lean/Generated/GoHypertext.lean (namespace GenHypertext), statement by statement, as `do`
blocks in `Except Panic`.  `Props/Gen15h.lean` proves the translated functions equal to the
hand-written model (`Model/Hypertext.lean`) on every forest; `Props/GenT15h.lean` restates the
property theorems on the translated code.  The Go semantics it relies on is
`Model/GoHtml.lean` (read its header first), `Model/GoSem.lean`, `Model/GoStrings.lean`.

EVERY function declaration of the file is translated, except the ones that call the parser
(`html.Parse…`: found in the AST, listed in the generated `untranslated`; Gen15h pins the list).
What is read from the AST (nothing is assumed about the bodies beyond the subset below):

  structs       `type T struct { … }`: field names and types in order.  A field of type
                `*[]string` is a shared cell: it is not a field of the Lean structure; see "the
                cell" below
  signatures    parameter names and types, result types (`error` results are rejected)
  *html.Node    a value `Go.Html.Node` (type, data, attr, kids) plus, for every node parameter
                `n`, a parameter `nParent : Option Str`, the `Data` of `n.Parent`.  Understood of
                a node: `n.Type`, `n.Data`, `n.Attr`; `html.<X>Node` constants; the loop
                `for x := n.FirstChild; x != nil; x = x.NextSibling { … }` whose body does not
                assign `x` (no `return` / labelled branch inside); the test
                `n.Parent != nil && n.Parent.Data == <string literal>` on a node PARAMETER `n`
                (`Go.Html.parentDataIs nParent lit`).  A node handed to a function must be a
                variable: the function's own node parameter (handed on with its `nParent`), the
                variable of a sibling loop over `m.FirstChild` (with `some m.data`: the tree
                invariant `c.Parent == m`), or the variable of a `range` over a `[]*html.Node`
                (with `none`: such slices come out of `html.ParseFragment` only, which detaches
                the nodes it returns; the translator checks that every `[]*html.Node` stored in a
                struct of the file is the result of that call and that no such slice is built
                otherwise).  `Parent`, `FirstChild`, `NextSibling` anywhere else, a comparison of
                a node with nil, `PrevSibling`, `LastChild`, `DataAtom`, `Namespace` of a node:
                rejected
  sibling loops each becomes a function `<f>_loop<k>` by recursion over the list of the
                children: the variables of `f` the body assigns (and the cell) are threaded
                through as parameters and returned, the ones it only reads are parameters;
                `continue` is the recursive call on the rest, `break` returns the state
  recursion     functions that call each other in a cycle are emitted in one `mutual` block
                with `termination_by K * sizeOf <node> + rank`, where rank is the length of the
                longest chain of calls that hand the same node on (a cycle of those is rejected),
                loops `K * sizeOf <siblings>`; a call that is neither on the same node nor on a
                child leaves a termination goal Lean cannot close: the build fails
  the cell      a struct with a `*[]string` field `f` can be created only as
                `x := T{…, f: &[]string{}}` (a fresh empty cell); a function has at most one
                variable of such a struct type (parameter or that local) and never copies it to
                another variable, so every copy of the struct reachable in a call tree shares the
                one cell: the cell is the Lean variable `f` (`List Str`), `*x.f` reads it,
                `*x.f = e` writes it.  A function with such a parameter that mentions `x.f` or
                hands `x` to a function that does takes the cell's content as its last parameter
                `f0` and returns the new content as its last result.  `x.f` without `*`, an
                assignment to `x.f`, `&` anywhere else: rejected.  Structs are values: a struct
                parameter whose fields the body assigns is the callee's copy (`let mut`)
  evaluation    when a statement contains a call that writes the cell, every call in that
  order         statement that can panic is bound by its own `let r ←` in Go's order (operands
                left to right, arguments before the call); otherwise nested `(← …)`
  regular       `v := regexp.MustCompile(<literal>)`, numbered in source order: `patternN`, and a
  expressions   field `reN` of the structure `Ext` the translated functions take as `W`:
                `v.FindStringSubmatch(s)` (`Str → List Str`: nil is [], else the whole match and
                the groups) or `v.ReplaceAllString(s, <literal without $>)` (`Str → List
                Go.Piece`: the text cut into matches and what lies between;
                `Go.Regexp.replaceAllString`)
  calls         of the functions of the file; style.* / ansi.* among the translated ones
                (`GenStyle.*` with the colours `c`, `GenAnsiH.*` with `expand`), signatures read
                from style/style.go, ansi/ansi.go; `ansi.Scrub` is the model's `Ansi.scrub`
  strings.*     Trim(s, literal cutset), Count(s, one-character literal), Repeat(s, n)
  statements    := (one variable; several from a call of a function of the file, `_` allowed),
                =, +=, -= on variables and on fields of struct variables, `*x.f = e`, if / else,
                `switch e { case <literals>: … default: … }` (an if-chain in the order of the
                clauses, `default` last; `fallthrough` and a `break` inside are rejected),
                `for _, x := range xs`, the sibling loop, `continue`, `break`, `return`
  expressions   string / integer literals, + on strings and ints, - on ints, comparisons, && ||
                ! (right operand free of panics), len, xs[i], append(xs, x), T{…}, x.field

Types: string → Str, int → Int (unbounded), uint → Nat, bool → Bool, []string → List Str,
*html.Node → Go.Html.Node, []*html.Node → List Go.Html.Node, html.Attribute, []html.Attribute.

Anything not understood becomes the identifier `sorry_untranslatable`, which does not exist, and a
line `-- UNTRANSLATABLE`: the generated file does not build and the obligations fail.
*/

import (
	"fmt"
	"go/ast"
	"go/token"
	"strconv"
	"strings"
)

type v20 struct {
	lean, kind string
	parent     string // for a node variable: the Lean expression of its parent's Data
	param      bool   // a parameter of the function being translated
}

type sig20 struct {
	names   []string
	params  []string // kinds
	results []string // kinds
	recv    string
	recvMut bool
	cell    bool   // takes and returns the cell
	cellVar string // the parameter of cell-struct type ("" if none)
}

type struct20 struct {
	name   string
	fields []v15 // lean = field name; the cell field has kind "cell"
	cell   string
}

type re20 struct {
	pattern, method string
	pos             token.Pos
}

type g20 struct {
	b       *strings.Builder
	errs    []string
	root    string
	imports map[string]string
	structs map[string]*struct20
	sorder  []string
	funcs   map[string]*ast.FuncDecl
	order   []string
	skipped []string
	sigs    map[string]sig20
	extSigs map[string]map[string]sig15
	res     []re20
	group   map[string]bool // functions of the recursive group
	rank    map[string]int
	K       int

	fn       string
	scope    map[string]v20
	used     map[string]bool
	declared []string // Go names in declaration order
	pre      []string // lines to emit before the statement being translated
	preInd   int
	anf      bool
	tmp      int
	loopCtl  string // "", "range", "sibling"
	inSwitch bool
	contStmt string // the recursive call of the enclosing sibling loop
	brkStmt  string
	cellName string // Lean name of the cell in this function ("" if none)
	cellVar  string // Go variable of cell-struct type
	nloops   int
	aux      []string // finished auxiliary functions of the current function
	inAux    bool
}

func (g *g20) fail(format string, a ...any) string {
	msg := fmt.Sprintf(format, a...)
	g.errs = append(g.errs, "hypertext."+g.fn+": "+msg)
	return "(sorry_untranslatable /- " + strings.ReplaceAll(msg, "-/", "- /") + " -/)"
}

func (g *g20) line(ind int, s string) { g.b.WriteString(strings.Repeat("  ", ind) + s + "\n") }

func g20Ident(n string) string {
	switch n {
	case "attribute", "structure", "inductive", "class", "deriving", "mutual", "variable", "universe", "example",
		"axiom", "opaque", "abbrev", "macro", "syntax", "notation", "infix", "postfix", "import", "export",
		"private", "protected", "partial", "unsafe", "noncomputable", "local", "scoped", "calc", "nomatch",
		"nofun", "forall", "exists", "Type", "Prop", "Sort", "c", "W", "rest_", "siblings":
		return n + "_"
	}
	return h8Ident(n)
}

func (g *g20) isHTML(e ast.Expr) bool {
	id, ok := e.(*ast.Ident)
	if !ok {
		return false
	}
	if _, local := g.scope[id.Name]; local {
		return false
	}
	return g.imports[id.Name] == "golang.org/x/net/html"
}

func (g *g20) kind(e ast.Expr) string {
	switch t := e.(type) {
	case *ast.Ident:
		switch t.Name {
		case "string", "int", "uint", "bool", "error":
			return t.Name
		}
		if _, ok := g.structs[t.Name]; ok {
			return "S:" + t.Name
		}
	case *ast.SelectorExpr:
		if g.isHTML(t.X) && t.Sel.Name == "Attribute" {
			return "attr"
		}
	case *ast.StarExpr:
		if se, ok := t.X.(*ast.SelectorExpr); ok && g.isHTML(se.X) && se.Sel.Name == "Node" {
			return "node"
		}
		if k := g.kind(t.X); strings.HasPrefix(k, "S:") {
			return k
		}
		if g.kind(t.X) == "strs" {
			return "cell"
		}
	case *ast.ArrayType:
		if t.Len == nil {
			switch g.kind(t.Elt) {
			case "string":
				return "strs"
			case "node":
				return "nodes"
			case "attr":
				return "attrs"
			}
		}
	}
	return "?"
}

func (g *g20) lean(k string) string {
	switch k {
	case "string":
		return "Str"
	case "int", "lit":
		return "Int"
	case "uint":
		return "Nat"
	case "bool":
		return "Bool"
	case "strs":
		return "List Str"
	case "node":
		return "Go.Html.Node"
	case "nodes":
		return "List Go.Html.Node"
	case "attr":
		return "Go.Html.Attribute"
	case "attrs":
		return "List Go.Html.Attribute"
	}
	if strings.HasPrefix(k, "S:") {
		return k[2:]
	}
	return ""
}

func g20Zero(k string) string {
	return map[string]string{"string": "[]", "int": "0", "uint": "0", "bool": "false", "strs": "[]", "nodes": "[]", "attrs": "[]"}[k]
}

func (g *g20) tuple(ks []string) string {
	ts := []string{}
	for _, k := range ks {
		ts = append(ts, g.lean(k))
	}
	return strings.Join(ts, " × ")
}

func (g *g20) cellStruct(k string) *struct20 {
	if strings.HasPrefix(k, "S:") {
		if s := g.structs[k[2:]]; s != nil && s.cell != "" {
			return s
		}
	}
	return nil
}

func (g *g20) signature(fd *ast.FuncDecl) (sig20, bool) {
	s := sig20{}
	ok := true
	for _, p := range fd.Type.Params.List {
		k := g.kind(p.Type)
		if g.lean(k) == "" {
			ok = false
		}
		if _, star := p.Type.(*ast.StarExpr); star && strings.HasPrefix(k, "S:") {
			ok = false // a pointer to a struct as a parameter: only receivers
		}
		if len(p.Names) == 0 {
			ok = false
		}
		for _, n := range p.Names {
			s.params = append(s.params, k)
			s.names = append(s.names, n.Name)
			if g.cellStruct(k) != nil {
				if s.cellVar != "" {
					ok = false
				}
				s.cellVar = n.Name
			}
		}
	}
	if fd.Type.Results != nil {
		for _, r := range fd.Type.Results.List {
			k := g.kind(r.Type)
			if len(r.Names) != 0 || g.lean(k) == "" || g.cellStruct(k) != nil {
				ok = false
			}
			s.results = append(s.results, k)
		}
	}
	return s, ok
}

func (g *g20) external(pkg, rel string, translated map[string]bool) {
	f := parseFile(g.root, rel)
	h := &g15{}
	out := map[string]sig15{}
	for _, d := range f.Decls {
		if fd, ok := d.(*ast.FuncDecl); ok && fd.Recv == nil && translated[fd.Name.Name] && !g15HasError(fd) {
			if s, ok := h.signature(fd); ok && len(s.results) == 1 {
				out[fd.Name.Name] = s
			}
		}
	}
	g.extSigs[pkg] = out
}

func (g *g20) pkgOf(e ast.Expr) string {
	id, ok := e.(*ast.Ident)
	if !ok {
		return ""
	}
	if _, local := g.scope[id.Name]; local {
		return ""
	}
	return g.imports[id.Name]
}

func (g *g20) mustCompile(e ast.Expr) (int, bool) {
	ce, ok := e.(*ast.CallExpr)
	if !ok || len(ce.Args) != 1 || ce.Ellipsis != token.NoPos {
		return 0, false
	}
	se, ok := ce.Fun.(*ast.SelectorExpr)
	if !ok || g.pkgOf(se.X) != "regexp" || se.Sel.Name != "MustCompile" {
		return 0, false
	}
	if bl, ok := ce.Args[0].(*ast.BasicLit); !ok || bl.Kind != token.STRING {
		return 0, false
	}
	for i, r := range g.res {
		if r.pos == ce.Pos() {
			return i, true
		}
	}
	return 0, false
}

func g20Fits(k, want string) bool { return g15Fits(k, want) }

/* names assigned anywhere in the node: =, op=, ++, -- on the variable or on a field of it */
func g20Assigned(n ast.Node) map[string]bool {
	out := map[string]bool{}
	root := func(e ast.Expr) {
		for {
			switch x := e.(type) {
			case *ast.SelectorExpr:
				e = x.X
				continue
			case *ast.Ident:
				out[x.Name] = true
			}
			return
		}
	}
	ast.Inspect(n, func(q ast.Node) bool {
		switch s := q.(type) {
		case *ast.AssignStmt:
			if s.Tok != token.DEFINE {
				for _, l := range s.Lhs {
					root(l)
				}
			}
		case *ast.IncDecStmt:
			root(s.X)
		}
		return true
	})
	return out
}

/* identifiers mentioned anywhere in the node */
func g20Mentions(n ast.Node) map[string]bool {
	out := map[string]bool{}
	ast.Inspect(n, func(q ast.Node) bool {
		if id, ok := q.(*ast.Ident); ok {
			out[id.Name] = true
		}
		return true
	})
	return out
}

/* does the node contain a call of a function of the file that writes the cell */
func (g *g20) writesCell(n ast.Node) bool {
	found := false
	ast.Inspect(n, func(q ast.Node) bool {
		if ce, ok := q.(*ast.CallExpr); ok {
			if id, ok := ce.Fun.(*ast.Ident); ok {
				if _, local := g.scope[id.Name]; !local && g.sigs[id.Name].cell {
					found = true
				}
			}
		}
		return true
	})
	return found
}

/* a computation in Except: bound by its own `let` in evaluation order, or nested */
func (g *g20) mono(call string) string {
	if g.anf {
		g.tmp++
		t := fmt.Sprintf("r%d_", g.tmp)
		g.pre = append(g.pre, "let "+t+" ← "+call)
		return t
	}
	return "(← " + call + ")"
}

func (g *g20) flush(ind int) {
	for _, l := range g.pre {
		g.line(ind, l)
	}
	g.pre = nil
}

/* `n.Parent != nil && n.Parent.Data == "lit"` on a node parameter */
func (g *g20) parentTest(x *ast.BinaryExpr) (string, bool) {
	if x.Op != token.LAND {
		return "", false
	}
	l, ok := x.X.(*ast.BinaryExpr)
	if !ok || l.Op != token.NEQ || !isIdent(l.Y, "nil") {
		return "", false
	}
	if _, hidden := g.scope["nil"]; hidden {
		return "", false
	}
	ls, ok := l.X.(*ast.SelectorExpr)
	if !ok || ls.Sel.Name != "Parent" {
		return "", false
	}
	n, ok := ls.X.(*ast.Ident)
	if !ok {
		return "", false
	}
	v, ok := g.scope[n.Name]
	if !ok || v.kind != "node" {
		return "", false
	}
	r, ok := x.Y.(*ast.BinaryExpr)
	if !ok || r.Op != token.EQL {
		return "", false
	}
	rs, ok := r.X.(*ast.SelectorExpr)
	if !ok || rs.Sel.Name != "Data" {
		return "", false
	}
	rp, ok := rs.X.(*ast.SelectorExpr)
	if !ok || rp.Sel.Name != "Parent" || !isIdent(rp.X, n.Name) {
		return "", false
	}
	bl, ok := r.Y.(*ast.BasicLit)
	if !ok || bl.Kind != token.STRING {
		return "", false
	}
	u, err := strconv.Unquote(bl.Value)
	if err != nil {
		return "", false
	}
	return "(Go.Html.parentDataIs " + v.parent + " (Go.str " + leanStr(u) + "))", true
}

var g20NodeTypes = map[string]bool{"ErrorNode": true, "TextNode": true, "DocumentNode": true, "ElementNode": true,
	"CommentNode": true, "DoctypeNode": true, "RawNode": true}

func (g *g20) expr(e ast.Expr) (string, string) {
	bad := func() (string, string) { return g.fail("expression %s", exprFull(e)), "?" }
	switch x := e.(type) {
	case *ast.BasicLit:
		switch x.Kind {
		case token.INT:
			if _, err := strconv.ParseInt(x.Value, 10, 64); err == nil {
				return x.Value, "lit"
			}
		case token.STRING:
			if u, err := strconv.Unquote(x.Value); err == nil {
				return "(Go.str " + leanStr(u) + ")", "string"
			}
		}
	case *ast.Ident:
		if v, ok := g.scope[x.Name]; ok {
			if v.kind == "regexp" {
				return g.fail("the regular expression %s used as a value", x.Name), "?"
			}
			return v.lean, v.kind
		}
		switch x.Name {
		case "true", "false":
			return x.Name, "bool"
		}
	case *ast.ParenExpr:
		s, k := g.expr(x.X)
		return "(" + s + ")", k
	case *ast.StarExpr:
		/* *x.f: the cell */
		if se, ok := x.X.(*ast.SelectorExpr); ok {
			if id, ok := se.X.(*ast.Ident); ok {
				if v, ok := g.scope[id.Name]; ok {
					if cs := g.cellStruct(v.kind); cs != nil && cs.cell == se.Sel.Name && g.cellName != "" {
						return g.cellName, "strs"
					}
				}
			}
		}
	case *ast.UnaryExpr:
		if x.Op == token.AND {
			break
		}
		s, k := g.expr(x.X)
		switch {
		case x.Op == token.NOT && k == "bool":
			return "(!" + s + ")", "bool"
		case x.Op == token.SUB && (k == "int" || k == "lit"):
			return "(-" + s + ")", k
		}
	case *ast.BinaryExpr:
		if s, ok := g.parentTest(x); ok {
			return s, "bool"
		}
		l, lk := g.expr(x.X)
		npre := len(g.pre)
		r, rk := g.expr(x.Y)
		nk := ""
		switch {
		case lk == "lit" && rk == "lit":
			nk = "lit"
		case (lk == "int" || lk == "lit") && (rk == "int" || rk == "lit"):
			nk = "int"
		case (lk == "uint" || lk == "lit") && (rk == "uint" || rk == "lit"):
			nk = "uint"
		}
		switch x.Op {
		case token.ADD:
			if lk == "string" && rk == "string" {
				return "(" + l + " ++ " + r + ")", "string"
			}
			if nk == "int" || nk == "lit" {
				return "(" + l + " + " + r + ")", nk
			}
		case token.SUB:
			if nk == "int" || nk == "lit" {
				return "(" + l + " - " + r + ")", nk
			}
		case token.LSS, token.GTR, token.LEQ, token.GEQ:
			if nk != "" {
				op := map[token.Token]string{token.LSS: "<", token.GTR: ">", token.LEQ: "≤", token.GEQ: "≥"}[x.Op]
				return "decide (" + l + " " + op + " " + r + ")", "bool"
			}
		case token.EQL, token.NEQ:
			if nk != "" || (lk == rk && (lk == "string" || lk == "bool" || lk == "nodetype")) {
				op := map[token.Token]string{token.EQL: "=", token.NEQ: "≠"}[x.Op]
				return "decide (" + l + " " + op + " " + r + ")", "bool"
			}
		case token.LAND, token.LOR:
			if lk == "bool" && rk == "bool" {
				if strings.Contains(r, "(←") || len(g.pre) != npre {
					return g.fail("right operand of %s can panic: %s", x.Op, exprFull(x.Y)), "?"
				}
				op := map[token.Token]string{token.LAND: "&&", token.LOR: "||"}[x.Op]
				return "(" + l + " " + op + " " + r + ")", "bool"
			}
		}
	case *ast.SelectorExpr:
		if g.isHTML(x.X) && g20NodeTypes[x.Sel.Name] {
			return "Go.Html.NodeType." + x.Sel.Name, "nodetype"
		}
		if id, ok := x.X.(*ast.Ident); ok {
			if v, ok := g.scope[id.Name]; ok {
				switch {
				case strings.HasPrefix(v.kind, "S:"):
					for _, f := range g.structs[v.kind[2:]].fields {
						if f.lean == x.Sel.Name && f.kind != "cell" {
							return v.lean + "." + g20Ident(f.lean), f.kind
						}
					}
					return g.fail("field %s of %s (a cell is read as *%s.%s only)", x.Sel.Name, v.kind[2:], id.Name, x.Sel.Name), "?"
				case v.kind == "node":
					switch x.Sel.Name {
					case "Type":
						return v.lean + ".type", "nodetype"
					case "Data":
						return v.lean + ".data", "string"
					case "Attr":
						return v.lean + ".attr", "attrs"
					}
					return g.fail("%s.%s of a node", id.Name, x.Sel.Name), "?"
				case v.kind == "attr":
					switch x.Sel.Name {
					case "Key", "Val", "Namespace":
						return v.lean + "." + x.Sel.Name, "string"
					}
				}
			}
		}
	case *ast.IndexExpr:
		base, bk := g.expr(x.X)
		if bk == "strs" {
			i, ik := g.expr(x.Index)
			if ik == "int" || ik == "lit" {
				return g.mono("Go.index " + base + " " + i), "string"
			}
		}
	case *ast.CompositeLit:
		return g.composite(x)
	case *ast.CallExpr:
		return g.call(x)
	}
	return bad()
}

/* `[]string{…}`, `T{field: value, …}` (a struct without a cell) */
func (g *g20) composite(x *ast.CompositeLit) (string, string) {
	bad := func() (string, string) { return g.fail("composite literal %s", exprFull(x.Type)), "?" }
	k := g.kind(x.Type)
	if k == "strs" {
		els := []string{}
		for _, el := range x.Elts {
			s, ek := g.expr(el)
			if ek != "string" {
				return bad()
			}
			els = append(els, s)
		}
		return "[" + strings.Join(els, ", ") + "]", "strs"
	}
	if strings.HasPrefix(k, "S:") {
		if _, isStar := x.Type.(*ast.StarExpr); isStar || g.cellStruct(k) != nil {
			return bad()
		}
		return g.structLit(x, g.structs[k[2:]], false)
	}
	return bad()
}

/* the fields of a struct literal; withCell: the cell field must be given as `&[]string{}` */
func (g *g20) structLit(x *ast.CompositeLit, st *struct20, withCell bool) (string, string) {
	given := map[string]string{}
	cellGiven := false
	for _, el := range x.Elts {
		kv, ok := el.(*ast.KeyValueExpr)
		if !ok {
			return g.fail("literal of %s without field names", st.name), "?"
		}
		key, ok := kv.Key.(*ast.Ident)
		if !ok {
			return g.fail("literal of %s", st.name), "?"
		}
		fk := ""
		for _, f := range st.fields {
			if f.lean == key.Name {
				fk = f.kind
			}
		}
		if fk == "cell" {
			/* &[]string{} */
			ue, ok := kv.Value.(*ast.UnaryExpr)
			var cl *ast.CompositeLit
			if ok && ue.Op == token.AND {
				cl, _ = ue.X.(*ast.CompositeLit)
			}
			if !withCell || cl == nil || g.kind(cl.Type) != "strs" || len(cl.Elts) != 0 || cellGiven {
				return g.fail("the cell %s must be created as &[]string{}", key.Name), "?"
			}
			cellGiven = true
			continue
		}
		v, k := g.expr(kv.Value)
		if _, dup := given[key.Name]; dup || fk == "" || !g20Fits(k, fk) {
			return g.fail("field %s of the literal", key.Name), "?"
		}
		given[key.Name] = v
	}
	if withCell && !cellGiven {
		return g.fail("a %s without its cell (a nil pointer)", st.name), "?"
	}
	parts := []string{}
	for _, f := range st.fields {
		if f.kind == "cell" {
			continue
		}
		v, ok := given[f.lean]
		if !ok {
			v = g20Zero(f.kind)
			if v == "" {
				return g.fail("field %s of the literal has no zero value here", f.lean), "?"
			}
		}
		parts = append(parts, g20Ident(f.lean)+" := "+v)
	}
	return "({ " + strings.Join(parts, ", ") + " } : " + st.name + ")", "S:" + st.name
}

/* the arguments of a call of a function of the file, with the parents of node arguments and the cell */
func (g *g20) fileArgs(name string, ce *ast.CallExpr) (string, bool) {
	sig := g.sigs[name]
	if ce.Ellipsis != token.NoPos || len(ce.Args) != len(sig.params) {
		return "", false
	}
	args := []string{}
	for i, a := range ce.Args {
		if sig.params[i] == "node" {
			id, ok := a.(*ast.Ident)
			if !ok {
				return "", false
			}
			v, ok := g.scope[id.Name]
			if !ok || v.kind != "node" {
				return "", false
			}
			args = append(args, v.lean, v.parent)
			continue
		}
		v, k := g.expr(a)
		if !g20Fits(k, sig.params[i]) {
			return "", false
		}
		if cs := g.cellStruct(k); cs != nil {
			if id, ok := a.(*ast.Ident); !ok || id.Name != g.cellVar {
				return "", false
			}
		}
		args = append(args, v)
	}
	if sig.cell {
		if g.cellName == "" {
			return "", false
		}
		args = append(args, g.cellName)
	}
	return strings.Join(args, " "), true
}

func (g *g20) call(x *ast.CallExpr) (string, string) {
	bad := func() (string, string) { return g.fail("call %s", exprFull(x)), "?" }
	args := make([]string, len(x.Args))
	kinds := make([]string, len(x.Args))
	evalArgs := func() {
		for i, a := range x.Args {
			args[i], kinds[i] = g.expr(a)
		}
	}
	want := func(ks ...string) bool {
		if len(ks) != len(kinds) || x.Ellipsis != token.NoPos {
			return false
		}
		for i, k := range ks {
			if !g20Fits(kinds[i], k) {
				return false
			}
		}
		return true
	}
	oneChar := func(e ast.Expr) (rune, bool) {
		if bl, ok := e.(*ast.BasicLit); ok && bl.Kind == token.STRING {
			if u, err := strconv.Unquote(bl.Value); err == nil && len([]rune(u)) == 1 {
				return []rune(u)[0], true
			}
		}
		return 0, false
	}
	switch fn := x.Fun.(type) {
	case *ast.Ident:
		if _, local := g.scope[fn.Name]; local {
			return bad()
		}
		switch fn.Name {
		case "len":
			evalArgs()
			if want("strs") || want("nodes") || want("attrs") {
				return "(Go.len " + args[0] + ")", "int"
			}
			return bad()
		case "append":
			evalArgs()
			if want("strs", "string") {
				return "(" + args[0] + " ++ [" + args[1] + "])", "strs"
			}
			return bad()
		}
		if sig, ok := g.sigs[fn.Name]; ok && sig.recv == "" {
			a, ok := g.fileArgs(fn.Name, x)
			if !ok || len(sig.results) != 1 {
				return bad()
			}
			callee := fn.Name + " c expand W " + a
			if sig.cell {
				/* always bound: the cell has to be written back */
				g.tmp++
				t := fmt.Sprintf("r%d_", g.tmp)
				g.pre = append(g.pre, "let "+t+" ← "+callee, g.cellName+" := "+t+".2")
				return t + ".1", sig.results[0]
			}
			return g.mono(callee), sig.results[0]
		}
	case *ast.SelectorExpr:
		/* v.FindStringSubmatch(s), v.ReplaceAllString(s, lit) on a regular expression variable */
		if id, ok := fn.X.(*ast.Ident); ok {
			if v, ok := g.scope[id.Name]; ok && v.kind == "regexp" {
				i, _ := strconv.Atoi(v.lean)
				evalArgs()
				method := fn.Sel.Name
				if g.res[i].method != "" && g.res[i].method != method {
					return g.fail("%s is asked %s and %s", id.Name, g.res[i].method, method), "?"
				}
				switch {
				case method == "FindStringSubmatch" && want("string"):
					g.res[i].method = method
					return fmt.Sprintf("(W.re%d %s)", i+1, args[0]), "strs"
				case method == "ReplaceAllString" && want("string", "string"):
					if bl, ok := x.Args[1].(*ast.BasicLit); ok && !strings.Contains(bl.Value, "$") {
						g.res[i].method = method
						return fmt.Sprintf("(Go.Regexp.replaceAllString (W.re%d %s) %s)", i+1, args[0], args[1]), "string"
					}
				}
				return bad()
			}
		}
		pkg := g.pkgOf(fn.X)
		if pkg == "" {
			return bad()
		}
		evalArgs()
		name := fn.Sel.Name
		switch pkg {
		case "servitor/style", "servitor/ansi":
			short := strings.TrimPrefix(pkg, "servitor/")
			if short == "ansi" && name == "Scrub" && want("string") {
				return "(Ansi.scrub " + args[0] + ")", "string"
			}
			sig, ok := g.extSigs[short][name]
			if !ok {
				return g.fail("%s.%s is not among the translated functions", short, name), "?"
			}
			if !want(sig.params...) {
				return bad()
			}
			if short == "style" {
				return g.mono("GenStyle." + name + " c " + strings.Join(args, " ")), sig.results[0]
			}
			return g.mono("GenAnsiH." + name + " expand " + strings.Join(args, " ")), sig.results[0]
		case "strings":
			switch name {
			case "Trim":
				if _, lit := x.Args[len(x.Args)-1].(*ast.BasicLit); lit && want("string", "string") {
					return "(Go.Strings.trim " + args[0] + " " + args[1] + ")", "string"
				}
			case "Count":
				if want("string", "string") {
					if r, ok := oneChar(x.Args[1]); ok {
						return fmt.Sprintf("(Go.Strings.countChar %s (Char.ofNat %d))", args[0], r), "int"
					}
				}
			case "Repeat":
				if want("string", "int") {
					return g.mono("Go.Strings.repeat " + args[0] + " " + args[1]), "string"
				}
			}
		}
	}
	return bad()
}

func (g *g20) fresh(name string) string {
	base := g20Ident(name)
	cand := base
	for i := 1; g.used[cand]; i++ {
		cand = fmt.Sprintf("%s%d", strings.TrimSuffix(base, "_")+"_", i)
	}
	g.used[cand] = true
	return cand
}

func (g *g20) declare(ind int, name, kind, value string) {
	if kind == "lit" {
		kind = "int"
	}
	if name == "_" {
		g.line(ind, g.fail("declaration of _"))
		return
	}
	if g.lean(kind) == "" || kind == "node" || g.cellStruct(kind) != nil {
		g.line(ind, g.fail("declaration of %s: a %s cannot be declared here", name, kind))
		return
	}
	ln := g.fresh(name)
	g.scope[name] = v20{lean: ln, kind: kind}
	g.declared = append(g.declared, name)
	g.line(ind, "let mut "+ln+" : "+g.lean(kind)+" := "+value)
}

/* variables declared in a nested block go out of scope with it */
func (g *g20) scoped(f func()) {
	saved := map[string]v20{}
	for k, v := range g.scope {
		saved[k] = v
	}
	used := map[string]bool{}
	for k, v := range g.used {
		used[k] = v
	}
	nd := len(g.declared)
	f()
	g.scope = saved
	g.used = used
	g.declared = g.declared[:nd]
}

func (g *g20) block(ind int, list []ast.Stmt) {
	if len(list) == 0 {
		g.line(ind, "pure ()")
	}
	for _, st := range list {
		g.stmt(ind, st)
	}
}

func (g *g20) boolExpr(e ast.Expr) string {
	s, k := g.expr(e)
	if k != "bool" {
		return g.fail("condition %s is not a bool", exprFull(e))
	}
	return s
}

func (g *g20) stmt(ind int, st ast.Stmt) {
	g.pre = nil
	g.anf = false
	switch s := st.(type) {
	case *ast.BlockStmt:
		g.scoped(func() { g.block(ind, s.List) })
	case *ast.EmptyStmt:
	case *ast.ReturnStmt:
		g.anf = g.writesCell(s)
		g.ret(ind, s)
	case *ast.BranchStmt:
		switch {
		case s.Label != nil || g.loopCtl == "":
			g.line(ind, g.fail("branch statement %s", s.Tok))
		case s.Tok == token.CONTINUE && g.loopCtl == "range":
			g.line(ind, "continue")
		case s.Tok == token.BREAK && g.loopCtl == "range" && !g.inSwitch:
			g.line(ind, "break")
		case s.Tok == token.CONTINUE && g.loopCtl == "sibling":
			g.line(ind, g.contStmt)
		case s.Tok == token.BREAK && g.loopCtl == "sibling" && !g.inSwitch:
			g.line(ind, g.brkStmt)
		default:
			g.line(ind, g.fail("branch statement %s", s.Tok))
		}
	case *ast.IfStmt:
		g.scoped(func() {
			if s.Init != nil {
				as, ok := s.Init.(*ast.AssignStmt)
				if !ok || as.Tok != token.DEFINE {
					g.line(ind, g.fail("if with an init statement that is not a :="))
					return
				}
				g.stmt(ind, as)
			}
			g.pre = nil
			g.anf = g.writesCell(s.Cond)
			cond := g.boolExpr(s.Cond)
			g.flush(ind)
			g.line(ind, "if "+cond+" then")
			g.scoped(func() { g.block(ind+1, s.Body.List) })
			if s.Else != nil {
				g.line(ind, "else")
				switch e := s.Else.(type) {
				case *ast.BlockStmt:
					g.scoped(func() { g.block(ind+1, e.List) })
				default:
					g.stmt(ind+1, e)
				}
			}
		})
	case *ast.SwitchStmt:
		g.switchStmt(ind, s)
	case *ast.AssignStmt:
		g.anf = g.writesCell(s)
		g.assign(ind, s)
	case *ast.RangeStmt:
		g.rangeLoop(ind, s)
	case *ast.ForStmt:
		g.siblingLoop(ind, s)
	default:
		g.line(ind, g.fail("statement %T", st))
	}
	g.pre = nil
	g.anf = false
}

func (g *g20) stateTuple(vals []string) string {
	switch len(vals) {
	case 0:
		return "()"
	case 1:
		return vals[0]
	}
	return "(" + strings.Join(vals, ", ") + ")"
}

func (g *g20) ret(ind int, s *ast.ReturnStmt) {
	if g.inAux {
		g.line(ind, g.fail("return inside a sibling loop"))
		return
	}
	sig := g.sigs[g.fn]
	if len(s.Results) != len(sig.results) {
		g.line(ind, g.fail("return arity"))
		return
	}
	vals := []string{}
	for i, r := range s.Results {
		v, k := g.expr(r)
		if !g20Fits(k, sig.results[i]) {
			v = g.fail("return of a %s where the function returns %s", k, sig.results[i])
		}
		vals = append(vals, v)
	}
	if sig.cell {
		vals = append(vals, g.cellName)
	}
	if sig.recvMut {
		vals = append(vals, g.scope[sig.recv].lean)
	}
	g.flush(ind)
	g.line(ind, "return "+g.stateTuple(vals))
}

func (g *g20) switchStmt(ind int, s *ast.SwitchStmt) {
	if s.Init != nil || s.Tag == nil {
		g.line(ind, g.fail("switch form (only `switch e { … }`)"))
		return
	}
	tag, tk := g.expr(s.Tag)
	if len(g.pre) != 0 || strings.Contains(tag, "(←") || (tk != "string" && tk != "int" && tk != "uint" && tk != "nodetype") {
		g.pre = nil
		g.line(ind, g.fail("switch on %s", exprFull(s.Tag)))
		return
	}
	type clause struct {
		cond string
		body []ast.Stmt
	}
	clauses := []clause{}
	var deflt *ast.CaseClause
	for _, c := range s.Body.List {
		cc := c.(*ast.CaseClause)
		for _, b := range cc.Body {
			if br, ok := b.(*ast.BranchStmt); ok && br.Tok == token.FALLTHROUGH {
				g.line(ind, g.fail("fallthrough"))
				return
			}
		}
		if cc.List == nil {
			if deflt != nil {
				g.line(ind, g.fail("two default clauses"))
				return
			}
			deflt = cc
			continue
		}
		cond := ""
		for _, e := range cc.List {
			_, lit := e.(*ast.BasicLit)
			_, sel := e.(*ast.SelectorExpr)
			v, k := g.expr(e)
			if !(lit || sel) || len(g.pre) != 0 || !(k == tk || (k == "lit" && (tk == "int" || tk == "uint"))) {
				g.pre = nil
				g.line(ind, g.fail("case %s", exprFull(e)))
				return
			}
			t := "decide (" + tag + " = " + v + ")"
			if cond == "" {
				cond = t
			} else {
				cond = "(" + cond + " || " + t + ")"
			}
		}
		clauses = append(clauses, clause{cond, cc.Body})
	}
	saved := g.inSwitch
	g.inSwitch = true
	for i, c := range clauses {
		if i == 0 {
			g.line(ind, "if "+c.cond+" then")
		} else {
			g.line(ind, "else if "+c.cond+" then")
		}
		g.scoped(func() { g.block(ind+1, c.body) })
	}
	if deflt != nil {
		if len(clauses) == 0 {
			g.scoped(func() { g.block(ind, deflt.Body) })
		} else {
			g.line(ind, "else")
			g.scoped(func() { g.block(ind+1, deflt.Body) })
		}
	}
	g.inSwitch = saved
}

func (g *g20) assign(ind int, s *ast.AssignStmt) {
	/* a, b := f(…) for a function of the file */
	if len(s.Lhs) > 1 {
		var ce *ast.CallExpr
		if s.Tok == token.DEFINE && len(s.Rhs) == 1 {
			ce, _ = s.Rhs[0].(*ast.CallExpr)
		}
		if ce == nil {
			g.line(ind, g.fail("multiple assignment"))
			return
		}
		fn, ok := ce.Fun.(*ast.Ident)
		sig, known := sig20{}, false
		if ok {
			sig, known = g.sigs[fn.Name]
			if _, local := g.scope[fn.Name]; local {
				known = false
			}
		}
		if !known || sig.recv != "" || len(sig.results) != len(s.Lhs) {
			g.line(ind, g.fail("multiple assignment from %s", exprFull(ce)))
			return
		}
		args, ok := g.fileArgs(fn.Name, ce)
		if !ok {
			g.pre = nil
			g.line(ind, g.fail("arguments of %s", exprFull(ce)))
			return
		}
		g.flush(ind)
		g.tmp++
		t := fmt.Sprintf("r%d_", g.tmp)
		g.line(ind, "let "+t+" ← "+fn.Name+" c expand W "+args)
		n := len(s.Lhs)
		if sig.cell {
			n++
			g.line(ind, g.cellName+" := "+g15Proj(t, n-1, n))
		}
		for i, l := range s.Lhs {
			id, ok := l.(*ast.Ident)
			if !ok {
				g.line(ind, g.fail("assignment target %s", exprFull(l)))
				continue
			}
			if id.Name == "_" {
				continue
			}
			g.declare(ind, id.Name, sig.results[i], g15Proj(t, i, n))
		}
		return
	}
	if len(s.Lhs) != 1 || len(s.Rhs) != 1 {
		g.line(ind, g.fail("multiple assignment"))
		return
	}
	opAssign := func(target, kind string, v, k string) (string, bool) {
		same := g20Fits(k, kind)
		switch {
		case s.Tok == token.ASSIGN && same:
			return v, true
		case s.Tok == token.ADD_ASSIGN && same && kind == "string":
			return "(" + target + " ++ " + v + ")", true
		case s.Tok == token.ADD_ASSIGN && same && kind == "int":
			return "(" + target + " + " + v + ")", true
		case s.Tok == token.SUB_ASSIGN && same && kind == "int":
			return "(" + target + " - " + v + ")", true
		}
		return "", false
	}
	/* *x.f = e: the cell */
	if st, ok := s.Lhs[0].(*ast.StarExpr); ok {
		target, tk := g.expr(st)
		v, k := g.expr(s.Rhs[0])
		if tk != "strs" || target != g.cellName || s.Tok != token.ASSIGN || k != "strs" {
			g.pre = nil
			g.line(ind, g.fail("assignment %s = %s", exprFull(s.Lhs[0]), exprFull(s.Rhs[0])))
			return
		}
		g.flush(ind)
		g.line(ind, g.cellName+" := "+v)
		return
	}
	/* x.field = e on a struct variable */
	if se, ok := s.Lhs[0].(*ast.SelectorExpr); ok {
		id, ok := se.X.(*ast.Ident)
		var v20v v20
		if ok {
			v20v, ok = g.scope[id.Name]
		}
		if !ok || !strings.HasPrefix(v20v.kind, "S:") || s.Tok == token.DEFINE {
			g.line(ind, g.fail("assignment target %s", exprFull(s.Lhs[0])))
			return
		}
		fk := ""
		for _, f := range g.structs[v20v.kind[2:]].fields {
			if f.lean == se.Sel.Name && f.kind != "cell" {
				fk = f.kind
			}
		}
		v, k := g.expr(s.Rhs[0])
		field := v20v.lean + "." + g20Ident(se.Sel.Name)
		nv, ok := opAssign(field, fk, v, k)
		if fk == "" || !ok {
			g.pre = nil
			g.line(ind, g.fail("assignment %s %s %s", exprFull(s.Lhs[0]), s.Tok, exprFull(s.Rhs[0])))
			return
		}
		g.flush(ind)
		g.line(ind, v20v.lean+" := { "+v20v.lean+" with "+g20Ident(se.Sel.Name)+" := "+nv+" }")
		return
	}
	id, ok := s.Lhs[0].(*ast.Ident)
	if !ok {
		g.line(ind, g.fail("assignment target %s", exprFull(s.Lhs[0])))
		return
	}
	if s.Tok == token.DEFINE {
		/* v := regexp.MustCompile(<literal>): nothing happens until v is asked something */
		if i, ok := g.mustCompile(s.Rhs[0]); ok {
			g.scope[id.Name] = v20{lean: strconv.Itoa(i), kind: "regexp"}
			g.line(ind, fmt.Sprintf("-- %s := regexp.MustCompile(pattern%d)", id.Name, i+1))
			return
		}
		/* x := T{…, f: &[]string{}}: the struct and its fresh cell */
		if cl, ok := s.Rhs[0].(*ast.CompositeLit); ok {
			if cs := g.cellStruct(g.kind(cl.Type)); cs != nil {
				if _, isStar := cl.Type.(*ast.StarExpr); isStar || g.cellVar != "" || g.inAux {
					g.line(ind, g.fail("a second %s in the function", cs.name))
					return
				}
				v, _ := g.structLit(cl, cs, true)
				g.flush(ind)
				g.cellName = g.fresh(cs.cell)
				g.cellVar = id.Name
				g.line(ind, "let mut "+g.cellName+" : List Str := []")
				ln := g.fresh(id.Name)
				g.scope[id.Name] = v20{lean: ln, kind: "S:" + cs.name}
				g.declared = append(g.declared, id.Name)
				g.line(ind, "let mut "+ln+" : "+cs.name+" := "+v)
				return
			}
		}
		v, k := g.expr(s.Rhs[0])
		g.flush(ind)
		g.declare(ind, id.Name, k, v)
		return
	}
	v, k := g.expr(s.Rhs[0])
	tv, known := g.scope[id.Name]
	if !known || tv.kind == "regexp" || tv.kind == "node" || strings.HasPrefix(tv.kind, "S:") {
		g.pre = nil
		g.line(ind, g.fail("assignment to %s", id.Name))
		return
	}
	nv, ok := opAssign(tv.lean, tv.kind, v, k)
	if !ok {
		g.pre = nil
		g.line(ind, g.fail("assignment %s %s %s", id.Name, s.Tok, exprFull(s.Rhs[0])))
		return
	}
	g.flush(ind)
	g.line(ind, tv.lean+" := "+nv)
}

/* `for _, x := range xs` */
func (g *g20) rangeLoop(ind int, s *ast.RangeStmt) {
	k, ok := s.Key.(*ast.Ident)
	v, ok2 := s.Value.(*ast.Ident)
	if !ok || !ok2 || k.Name != "_" || v.Name == "_" || s.Tok != token.DEFINE {
		g.line(ind, g.fail("range form (only `for _, x := range xs`)"))
		return
	}
	xs, xk := g.expr(s.X)
	ek := map[string]string{"strs": "string", "nodes": "node", "attrs": "attr"}[xk]
	if ek == "" || strings.Contains(xs, "(←") || len(g.pre) != 0 {
		g.pre = nil
		g.line(ind, g.fail("range over %s", exprFull(s.X)))
		return
	}
	if g20Assigned(s.Body)[v.Name] {
		g.line(ind, g.fail("the body assigns the range variable %s", v.Name))
		return
	}
	g.scoped(func() {
		ln := g.fresh(v.Name)
		g.scope[v.Name] = v20{lean: ln, kind: ek, parent: "none"}
		g.line(ind, "for "+ln+" in "+xs+" do")
		ctl, sw := g.loopCtl, g.inSwitch
		g.loopCtl, g.inSwitch = "range", false
		g.block(ind+1, s.Body.List)
		g.loopCtl, g.inSwitch = ctl, sw
	})
}

/* `for x := n.FirstChild; x != nil; x = x.NextSibling { … }` */
func (g *g20) siblingLoop(ind int, s *ast.ForStmt) {
	form := func() (string, string, bool) {
		init, ok := s.Init.(*ast.AssignStmt)
		if !ok || init.Tok != token.DEFINE || len(init.Lhs) != 1 || len(init.Rhs) != 1 {
			return "", "", false
		}
		cur, ok := init.Lhs[0].(*ast.Ident)
		fc, ok2 := init.Rhs[0].(*ast.SelectorExpr)
		if !ok || !ok2 || fc.Sel.Name != "FirstChild" || cur.Name == "_" {
			return "", "", false
		}
		n, ok := fc.X.(*ast.Ident)
		if !ok || g.scope[n.Name].kind != "node" || n.Name == cur.Name {
			return "", "", false
		}
		cond, ok := s.Cond.(*ast.BinaryExpr)
		if _, hidden := g.scope["nil"]; hidden || !ok || cond.Op != token.NEQ || !isIdent(cond.X, cur.Name) || !isIdent(cond.Y, "nil") {
			return "", "", false
		}
		post, ok := s.Post.(*ast.AssignStmt)
		if !ok || post.Tok != token.ASSIGN || len(post.Lhs) != 1 || len(post.Rhs) != 1 || !isIdent(post.Lhs[0], cur.Name) {
			return "", "", false
		}
		ns, ok := post.Rhs[0].(*ast.SelectorExpr)
		if !ok || ns.Sel.Name != "NextSibling" || !isIdent(ns.X, cur.Name) {
			return "", "", false
		}
		return cur.Name, n.Name, true
	}
	cur, over, ok := form()
	if !ok {
		g.line(ind, g.fail("for statement (only `for x := n.FirstChild; x != nil; x = x.NextSibling`)"))
		return
	}
	assigned := g20Assigned(s.Body)
	mentions := g20Mentions(s.Body)
	problem := ""
	if assigned[cur] {
		problem = "the body assigns the loop variable " + cur
	}
	ast.Inspect(s.Body, func(q ast.Node) bool {
		switch x := q.(type) {
		case *ast.ReturnStmt:
			problem = "return inside a sibling loop"
		case *ast.BranchStmt:
			if x.Label != nil || x.Tok == token.GOTO {
				problem = "labelled branch inside a sibling loop"
			}
		case *ast.FuncLit:
			problem = "function literal inside a sibling loop"
		}
		return true
	})
	if problem != "" {
		g.line(ind, g.fail("%s", problem))
		return
	}
	/* the variables of the enclosing function the body reads (parameters) and assigns (state) */
	type pv struct{ goName, lean, kind, parent string }
	reads, state := []pv{}, []pv{}
	cellState := false
	if g.cellName != "" {
		usesField := false
		ast.Inspect(s.Body, func(q ast.Node) bool {
			if se, ok := q.(*ast.SelectorExpr); ok && isIdent(se.X, g.cellVar) {
				if cs := g.cellStruct(g.scope[g.cellVar].kind); cs != nil && cs.cell == se.Sel.Name {
					usesField = true
				}
			}
			return true
		})
		cellState = usesField || g.writesCell(s.Body)
	}
	seen := map[string]bool{}
	for _, name := range g.declared {
		v, ok := g.scope[name]
		if !ok || seen[name] || !mentions[name] || name == cur {
			continue
		}
		seen[name] = true
		switch {
		case v.kind == "regexp":
			g.line(ind, g.fail("the regular expression %s is used inside a sibling loop", name))
			return
		case assigned[name] && v.kind == "node":
			g.line(ind, g.fail("the body assigns the node %s", name))
			return
		case assigned[name]:
			state = append(state, pv{name, v.lean, v.kind, ""})
		default:
			reads = append(reads, pv{name, v.lean, v.kind, v.parent})
		}
	}
	g.nloops++
	top := g.fn
	aux := fmt.Sprintf("%s_loop%d", top, g.nloops)
	curLean := g20Ident(cur)
	parentName := curLean + "Parent"
	params := []string{"(c : Colors)", "(expand : Str → List Go.Match)", "(W : Ext)", "(siblings : List Go.Html.Node)", "(" + parentName + " : Option Str)"}
	callArgs := []string{}
	for _, r := range reads {
		params = append(params, "("+r.lean+" : "+g.lean(r.kind)+")")
		callArgs = append(callArgs, r.lean)
		if r.kind == "node" {
			params = append(params, "("+r.lean+"Parent_ : Option Str)")
			callArgs = append(callArgs, r.parent)
		}
	}
	stNames, st0, stTypes := []string{}, []string{}, []string{}
	if cellState {
		stNames = append(stNames, g.cellName)
		stTypes = append(stTypes, "List Str")
	}
	for _, v := range state {
		stNames = append(stNames, v.lean)
		stTypes = append(stTypes, g.lean(v.kind))
	}
	for i, n := range stNames {
		params = append(params, "("+n+"0 : "+stTypes[i]+")")
		st0 = append(st0, n+"0")
	}
	rt := "Unit"
	if len(stTypes) > 0 {
		rt = strings.Join(stTypes, " × ")
	}
	self := aux + " c expand W rest_ " + parentName
	if len(callArgs) > 0 {
		self += " " + strings.Join(callArgs, " ")
	}
	recur := self
	if len(stNames) > 0 {
		recur += " " + strings.Join(stNames, " ")
	}
	/* the auxiliary function, in its own buffer */
	outer := g.b
	savedPre, savedCtl, savedSw, savedCont, savedBrk, savedAux := g.pre, g.loopCtl, g.inSwitch, g.contStmt, g.brkStmt, g.inAux
	g.b = &strings.Builder{}
	g.scoped(func() {
		for _, r := range reads {
			if r.kind == "node" {
				v := g.scope[r.goName]
				v.parent = r.lean + "Parent_"
				g.scope[r.goName] = v
			}
		}
		g.used["siblings"], g.used["rest_"], g.used[parentName], g.used[curLean] = true, true, true, true
		g.scope[cur] = v20{lean: curLean, kind: "node", parent: parentName}
		g.loopCtl, g.inSwitch, g.inAux = "sibling", false, true
		g.contStmt = "return (← " + recur + ")"
		g.brkStmt = "return " + g.stateTuple(stNames)
		g.line(0, "/-- the loop over the children of `"+over+"` in `func "+top+"`: the state it leaves -/")
		g.line(0, fmt.Sprintf("def %s %s : Except Panic %s := do", aux, strings.Join(params, " "), paren(rt)))
		g.line(1, "match siblings with")
		g.line(1, "| [] => return "+g.stateTuple(st0))
		g.line(1, "| "+curLean+" :: rest_ =>")
		for i, n := range stNames {
			g.line(2, "let mut "+n+" : "+stTypes[i]+" := "+n+"0")
		}
		g.block(2, s.Body.List)
		g.line(2, g.contStmt)
		if g.group[top] {
			g.line(0, fmt.Sprintf("termination_by %d * sizeOf siblings", g.K))
			g.decreasing(curLean)
		}
		g.line(0, "")
	})
	g.aux = append(g.aux, g.b.String())
	g.b = outer
	g.pre, g.loopCtl, g.inSwitch, g.contStmt, g.brkStmt, g.inAux = savedPre, savedCtl, savedSw, savedCont, savedBrk, savedAux
	/* the call */
	ov := g.scope[over]
	call := aux + " c expand W " + ov.lean + ".kids (some " + ov.lean + ".data)"
	if len(callArgs) > 0 {
		call += " " + strings.Join(callArgs, " ")
	}
	if len(stNames) > 0 {
		call += " " + strings.Join(stNames, " ")
	}
	g.tmp++
	t := fmt.Sprintf("r%d_", g.tmp)
	g.line(ind, "let "+t+" ← "+call)
	for i, n := range stNames {
		g.line(ind, n+" := "+g15Proj(t, i, len(stNames)))
	}
}

func (g *g20) decreasing(nodes ...string) {
	g.line(0, "decreasing_by")
	g.line(1, "all_goals simp_wf")
	alts := "omega"
	for _, n := range nodes {
		if n != "" {
			alts += " | (have h_ := Go.Html.Node.sizeOf_kids_lt " + n + "; omega)"
		}
	}
	g.line(1, "all_goals first | "+alts)
}

/* does the body assign to a field of the receiver */
func (g *g20) function(fd *ast.FuncDecl) string {
	g.fn = fd.Name.Name
	g.scope = map[string]v20{}
	g.used = map[string]bool{"c": true, "expand": true, "W": true}
	g.declared = nil
	g.tmp, g.nloops = 0, 0
	g.loopCtl, g.inSwitch, g.inAux = "", false, false
	g.cellName, g.cellVar = "", ""
	g.aux = nil
	g.b.Reset()
	sig := g.sigs[g.fn]
	assigned := g20Assigned(fd.Body)
	params := []string{"(c : Colors)", "(expand : Str → List Go.Match)", "(W : Ext)"}
	rebind := []string{}
	nodeParam := ""
	bind := func(name, kind string, mutated bool) {
		t := g.lean(kind)
		if t == "" {
			t = g.fail("type of %s", name)
		}
		ln := g.fresh(name)
		v := v20{lean: ln, kind: kind, param: true}
		if kind == "node" {
			v.parent = g.fresh(name + "Parent")
			nodeParam = ln
			if mutated {
				t = g.fail("the node parameter %s is assigned", name)
			}
		}
		g.scope[name] = v
		g.declared = append(g.declared, name)
		if mutated {
			params = append(params, "("+ln+"0 : "+t+")")
			rebind = append(rebind, "let mut "+ln+" : "+t+" := "+ln+"0")
		} else {
			params = append(params, "("+ln+" : "+t+")")
		}
		if kind == "node" {
			params = append(params, "("+v.parent+" : Option Str)")
		}
	}
	if fd.Recv != nil {
		bind(sig.recv, g.kind(fd.Recv.List[0].Type), sig.recvMut)
		if _, star := fd.Recv.List[0].Type.(*ast.StarExpr); !star && sig.recvMut {
			g.line(0, "-- "+g.fail("a value receiver whose fields are assigned"))
		}
	}
	for i, n := range sig.names {
		bind(n, sig.params[i], assigned[n])
	}
	if sig.cellVar != "" {
		g.cellVar = sig.cellVar
	}
	if sig.cell {
		cs := g.cellStruct(g.scope[sig.cellVar].kind)
		g.cellName = g.fresh(cs.cell)
		params = append(params, "("+g.cellName+"0 : List Str)")
		rebind = append(rebind, "let mut "+g.cellName+" : List Str := "+g.cellName+"0")
	}
	results := append([]string{}, sig.results...)
	rts := []string{}
	for _, k := range results {
		rts = append(rts, g.lean(k))
	}
	if sig.cell {
		rts = append(rts, "List Str")
	}
	if sig.recvMut {
		rts = append(rts, g.lean(g.scope[sig.recv].kind))
	}
	rt := "Unit"
	if len(rts) > 0 {
		rt = strings.Join(rts, " × ")
	}
	what := "`func " + g.fn + "`"
	if fd.Recv != nil {
		what = "`func (" + sig.recv + " " + exprFull(fd.Recv.List[0].Type) + ") " + g.fn + "`"
		if sig.recvMut {
			what += ": the results, then the receiver as the method leaves it"
		}
	}
	if sig.cell {
		what += ": the results, then the cell `*" + sig.cellVar + "." + g.cellStruct(g.scope[sig.cellVar].kind).cell + "` as the function leaves it"
	}
	g.line(0, "/-- "+what+" -/")
	g.line(0, fmt.Sprintf("def %s %s : Except Panic %s := do", g.fn, strings.Join(params, " "), paren(rt)))
	for _, r := range rebind {
		g.line(1, r)
	}
	g.block(1, fd.Body.List)
	if len(sig.results) == 0 && !sig.cell && !sig.recvMut {
		g.line(1, "return ()")
	}
	if g.group[g.fn] {
		if nodeParam == "" {
			g.line(0, "-- "+g.fail("a recursive function without a node parameter"))
		} else {
			m := fmt.Sprintf("termination_by %d * sizeOf %s", g.K, nodeParam)
			if r := g.rank[g.fn]; r > 0 {
				m += fmt.Sprintf(" + %d", r)
			}
			g.line(0, m)
			g.decreasing(nodeParam)
		}
	}
	g.line(0, "")
	out := g.b.String() + strings.Join(g.aux, "")
	g.b.Reset()
	return out
}

func translateHypertext(root string) (string, []string) {
	rel := "hypertext/hypertext.go"
	f := parseFile(root, rel)
	g := &g20{b: &strings.Builder{}, root: root, imports: map[string]string{}, structs: map[string]*struct20{}, funcs: map[string]*ast.FuncDecl{},
		sigs: map[string]sig20{}, extSigs: map[string]map[string]sig15{}, group: map[string]bool{}, rank: map[string]int{}, scope: map[string]v20{}}
	g.fn = "(declarations)"
	for _, im := range f.Imports {
		p, _ := strconv.Unquote(im.Path.Value)
		name := p[strings.LastIndex(p, "/")+1:]
		if im.Name != nil {
			name = im.Name.Name
		}
		g.imports[name] = p
	}
	g.external("style", "style/style.go", g15Style)
	g.external("ansi", "ansi/ansi.go", g15Ansi)

	var head strings.Builder
	note := func(format string, a ...any) { head.WriteString("-- " + g.fail(format, a...) + "\n") }
	/* struct names first: a field or a signature may mention a struct declared later */
	var specs []*ast.TypeSpec
	for _, d := range f.Decls {
		switch x := d.(type) {
		case *ast.GenDecl:
			switch x.Tok {
			case token.IMPORT:
			case token.TYPE:
				for _, sp := range x.Specs {
					ts := sp.(*ast.TypeSpec)
					if _, ok := ts.Type.(*ast.StructType); !ok || ts.TypeParams != nil || g.structs[ts.Name.Name] != nil {
						note("type declaration %s (struct types are understood)", ts.Name.Name)
						continue
					}
					g.structs[ts.Name.Name] = &struct20{name: ts.Name.Name}
					g.sorder = append(g.sorder, ts.Name.Name)
					specs = append(specs, ts)
				}
			default:
				note("%s declaration at package level", x.Tok)
			}
		case *ast.FuncDecl:
			if _, dup := g.funcs[x.Name.Name]; dup || x.Body == nil || x.Type.TypeParams != nil {
				note("declaration of %s", x.Name.Name)
				continue
			}
			g.funcs[x.Name.Name] = x
			g.order = append(g.order, x.Name.Name)
		}
	}
	for _, ts := range specs {
		st := g.structs[ts.Name.Name]
		for _, fl := range ts.Type.(*ast.StructType).Fields.List {
			k := g.kind(fl.Type)
			if (k != "cell" && (g20Zero(k) == "" || strings.HasPrefix(k, "S:"))) || len(fl.Names) == 0 || (k == "cell" && st.cell != "") {
				note("field of type %s in %s", exprFull(fl.Type), st.name)
				continue
			}
			for _, n := range fl.Names {
				st.fields = append(st.fields, v15{n.Name, k})
				if k == "cell" {
					if st.cell != "" {
						note("two cells in %s", st.name)
					}
					st.cell = n.Name
				}
			}
		}
	}
	/* the functions that call the parser are not translated */
	callsParser := func(fd *ast.FuncDecl) bool {
		found := false
		ast.Inspect(fd.Body, func(n ast.Node) bool {
			if ce, ok := n.(*ast.CallExpr); ok {
				if se, ok := ce.Fun.(*ast.SelectorExpr); ok && g.isHTML(se.X) && strings.HasPrefix(se.Sel.Name, "Parse") {
					found = true
				}
			}
			return true
		})
		return found
	}
	translated := []string{}
	for _, n := range g.order {
		if callsParser(g.funcs[n]) {
			g.skipped = append(g.skipped, n)
		} else {
			translated = append(translated, n)
		}
	}
	g.originCheck(f, note)
	for _, n := range translated {
		fd := g.funcs[n]
		g.fn = n
		sig, ok := g.signature(fd)
		if !ok {
			note("signature")
		}
		if fd.Recv != nil {
			r := fd.Recv.List[0]
			if len(fd.Recv.List) != 1 || len(r.Names) != 1 || !strings.HasPrefix(g.kind(r.Type), "S:") || g.cellStruct(g.kind(r.Type)) != nil {
				note("receiver")
			} else {
				sig.recv = r.Names[0].Name
				sig.recvMut = g20Assigned(fd.Body)[sig.recv]
			}
		}
		g.sigs[n] = sig
	}
	/* which functions write (or hand on) the cell: a fixed point */
	calls := func(fd *ast.FuncDecl, name string) bool {
		found := false
		ast.Inspect(fd.Body, func(n ast.Node) bool {
			if ce, ok := n.(*ast.CallExpr); ok && isIdent(ce.Fun, name) {
				found = true
			}
			return true
		})
		return found
	}
	for changed := true; changed; {
		changed = false
		for _, n := range translated {
			sig := g.sigs[n]
			if sig.cell || sig.cellVar == "" {
				continue
			}
			cs := g.cellStruct(sig.params[indexOf(sig.names, sig.cellVar)])
			uses := false
			ast.Inspect(g.funcs[n].Body, func(q ast.Node) bool {
				switch x := q.(type) {
				case *ast.SelectorExpr:
					if isIdent(x.X, sig.cellVar) && x.Sel.Name == cs.cell {
						uses = true
					}
				case *ast.CallExpr:
					if id, ok := x.Fun.(*ast.Ident); ok && g.sigs[id.Name].cell {
						for _, a := range x.Args {
							if isIdent(a, sig.cellVar) {
								uses = true
							}
						}
					}
				}
				return true
			})
			if uses {
				sig.cell = true
				g.sigs[n] = sig
				changed = true
			}
		}
	}
	/* the regular expressions, in source order */
	for _, n := range translated {
		ast.Inspect(g.funcs[n].Body, func(q ast.Node) bool {
			if ce, ok := q.(*ast.CallExpr); ok {
				if se, ok := ce.Fun.(*ast.SelectorExpr); ok && g.imports[exprString(se.X)] == "regexp" && se.Sel.Name == "MustCompile" && len(ce.Args) == 1 {
					if bl, ok := ce.Args[0].(*ast.BasicLit); ok && bl.Kind == token.STRING {
						if p, err := strconv.Unquote(bl.Value); err == nil {
							g.res = append(g.res, re20{pattern: p, pos: ce.Pos()})
						}
					}
				}
			}
			return true
		})
	}
	/* the recursive group: the functions that lie on a cycle of calls */
	reach := map[string]map[string]bool{}
	for _, n := range translated {
		reach[n] = map[string]bool{}
		for _, m := range translated {
			if calls(g.funcs[n], m) {
				reach[n][m] = true
			}
		}
	}
	for _, k := range translated {
		for _, i := range translated {
			for _, j := range translated {
				if reach[i][k] && reach[k][j] {
					reach[i][j] = true
				}
			}
		}
	}
	for _, n := range translated {
		if reach[n][n] {
			g.group[n] = true
		}
	}
	/* rank: the longest chain of calls inside the group that hand the function's own node on */
	same := map[string][]string{}
	for _, n := range translated {
		if !g.group[n] {
			continue
		}
		node := ""
		for i, k := range g.sigs[n].params {
			if k == "node" {
				node = g.sigs[n].names[i]
			}
		}
		ast.Inspect(g.funcs[n].Body, func(q ast.Node) bool {
			if ce, ok := q.(*ast.CallExpr); ok {
				if id, ok := ce.Fun.(*ast.Ident); ok && g.group[id.Name] {
					for _, a := range ce.Args {
						if node != "" && isIdent(a, node) {
							same[n] = append(same[n], id.Name)
						}
					}
				}
			}
			return true
		})
	}
	var rankOf func(n string, path map[string]bool) int
	rankOf = func(n string, path map[string]bool) int {
		if path[n] {
			g.fn = n
			note("a cycle of calls that hand the same node on: the recursion need not end")
			return 0
		}
		path[n] = true
		r := 0
		for _, m := range same[n] {
			if d := rankOf(m, path) + 1; d > r {
				r = d
			}
		}
		delete(path, n)
		return r
	}
	maxRank := 0
	for _, n := range translated {
		if g.group[n] {
			g.rank[n] = rankOf(n, map[string]bool{})
			if g.rank[n] > maxRank {
				maxRank = g.rank[n]
			}
		}
	}
	g.K = maxRank + 2

	/* bodies: the functions outside the group callees first, the group as one block where its first member stands */
	texts := map[string]string{}
	for _, n := range translated {
		texts[n] = g.function(g.funcs[n])
	}
	var body strings.Builder
	emitted := map[string]bool{}
	groupDone := false
	var visit func(n string)
	emitGroup := func() {
		if groupDone {
			return
		}
		groupDone = true
		for _, n := range translated {
			if g.group[n] {
				emitted[n] = true
			}
		}
		for _, n := range translated {
			if g.group[n] {
				for _, m := range translated {
					if !g.group[m] && calls(g.funcs[n], m) {
						visit(m)
					}
				}
			}
		}
		body.WriteString("mutual\n\n")
		for _, n := range translated {
			if g.group[n] {
				body.WriteString(texts[n])
			}
		}
		body.WriteString("end\n\n")
	}
	visit = func(n string) {
		if emitted[n] {
			return
		}
		if g.group[n] {
			emitGroup()
			return
		}
		emitted[n] = true
		for _, m := range translated {
			if m != n && calls(g.funcs[n], m) {
				visit(m)
			}
		}
		body.WriteString(texts[n])
	}
	for _, n := range translated {
		visit(n)
	}

	out := g.b
	out.Reset()
	g.line(0, "set_option linter.unusedVariables false")
	g.line(0, "")
	g.line(0, "namespace GenHypertext")
	g.line(0, "")
	out.WriteString(head.String())
	g.line(0, "/-- the functions of "+rel+" that call the parser (`html.Parse…`) and are not translated -/")
	g.line(0, "def untranslated : List String := "+leanList(g.skipped))
	g.line(0, "")
	names := []string{}
	for i, r := range g.res {
		g.line(0, fmt.Sprintf("/-- the %s regular expression the code compiles, asked `%s` -/", ordinal15(i+1), r.method))
		g.line(0, fmt.Sprintf("def pattern%d : String := %s", i+1, leanStr(r.pattern)))
		g.line(0, "")
		names = append(names, fmt.Sprintf("pattern%d", i+1))
	}
	g.line(0, "def patterns : List String := ["+strings.Join(names, ", ")+"]")
	g.line(0, "")
	g.line(0, "/-- The regular expressions of "+rel+" as the translated functions call them, in the order of `patterns`. -/")
	g.line(0, "structure Ext where")
	for i, r := range g.res {
		switch r.method {
		case "FindStringSubmatch":
			g.line(1, fmt.Sprintf("/-- `regexp.MustCompile(pattern%d).FindStringSubmatch`: nil (no match) is the empty list, else the whole match and the groups -/", i+1))
			g.line(1, fmt.Sprintf("re%d : Str → List Str", i+1))
		case "ReplaceAllString":
			g.line(1, fmt.Sprintf("/-- `regexp.MustCompile(pattern%d).ReplaceAllString`: the text cut into its matches and what lies between them, in order -/", i+1))
			g.line(1, fmt.Sprintf("re%d : Str → List Go.Piece", i+1))
		default:
			g.fn = "(declarations)"
			g.line(1, fmt.Sprintf("re%d : %s", i+1, g.fail("the regular expression %s is never asked anything understood", leanStr(r.pattern))))
		}
	}
	g.line(0, "")
	for _, sn := range g.sorder {
		st := g.structs[sn]
		doc := "`type " + sn + " struct`"
		if st.cell != "" {
			doc += " without its cell `" + st.cell + " *[]string`, which the functions thread through"
		}
		g.line(0, "/-- "+doc+" -/")
		g.line(0, "structure "+sn+" where")
		for _, fl := range st.fields {
			if fl.kind != "cell" {
				g.line(1, g20Ident(fl.lean)+" : "+g.lean(fl.kind))
			}
		}
		g.line(0, "")
	}
	out.WriteString(body.String())
	g.line(0, "end GenHypertext")
	return out.String(), g.errs
}

func indexOf(xs []string, x string) int {
	for i, y := range xs {
		if y == x {
			return i
		}
	}
	return 0
}

/* every []*html.Node of the file comes out of html.ParseFragment: the slices stored in structs are
   results of that call, none is built or extended otherwise */
func (g *g20) originCheck(f *ast.File, note func(string, ...any)) {
	for _, d := range f.Decls {
		fd, ok := d.(*ast.FuncDecl)
		if !ok || fd.Body == nil {
			continue
		}
		g.fn = fd.Name.Name
		parsed := map[string]bool{}
		ast.Inspect(fd.Body, func(q ast.Node) bool {
			if as, ok := q.(*ast.AssignStmt); ok && as.Tok == token.DEFINE && len(as.Rhs) == 1 && len(as.Lhs) == 2 {
				if ce, ok := as.Rhs[0].(*ast.CallExpr); ok {
					if se, ok := ce.Fun.(*ast.SelectorExpr); ok && g.isHTML(se.X) && se.Sel.Name == "ParseFragment" {
						if id, ok := as.Lhs[0].(*ast.Ident); ok {
							parsed[id.Name] = true
						}
					}
				}
			}
			return true
		})
		ast.Inspect(fd.Body, func(q ast.Node) bool {
			switch x := q.(type) {
			case *ast.CompositeLit:
				k := g.kind(x.Type)
				if k == "nodes" {
					note("a []*html.Node built by hand")
				}
				if strings.HasPrefix(k, "S:") {
					for _, el := range x.Elts {
						kv, ok := el.(*ast.KeyValueExpr)
						if !ok {
							note("literal of %s without field names", k[2:])
							continue
						}
						for _, fl := range g.structs[k[2:]].fields {
							if fl.kind == "nodes" && isIdent(kv.Key, fl.lean) {
								if id, ok := kv.Value.(*ast.Ident); !ok || !parsed[id.Name] {
									note("the field %s is not given a result of html.ParseFragment", fl.lean)
								}
							}
						}
					}
				}
			case *ast.AssignStmt:
				for _, l := range x.Lhs {
					if se, ok := l.(*ast.SelectorExpr); ok {
						for _, st := range g.structs {
							for _, fl := range st.fields {
								if fl.kind == "nodes" && se.Sel.Name == fl.lean {
									note("assignment to the node slice %s", exprFull(l))
								}
							}
						}
					}
				}
			case *ast.CallExpr:
				if isIdent(x.Fun, "append") && len(x.Args) > 0 {
					if id, ok := x.Args[0].(*ast.Ident); ok && parsed[id.Name] {
						note("append to a node slice")
					}
				}
			}
			return true
		})
	}
}
