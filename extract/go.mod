module extract

go 1.20
