package main

/*
go2lean, front end for pub/collection.go: `Harvest` and the recursive `harvestWithEmptyCount`
(property C10), translated statement by statement into a `do` block of `Go.Fuel`
(`Option (Except Panic ·)`, lean/Model/GoRec.lean).

	recursion    the function calls itself on another receiver and has no structural measure (page
	             chains may be cyclic): the Lean definition takes `fuel : Nat`, answers
	             `Go.outOfFuel` at 0 and passes the predecessor to every recursive call. A function
	             that calls it (`Harvest`) takes the fuel and hands it on.
	receiver     a structure of the fields the function reads, under their Go names: `[]any` is
	             `List E`, `any` is `R`, `error` is `Option Obj.Err` (only `== nil`, `!= nil` and
	             `errors.Is(·, object.ErrKeyNotPresent)` are understood on an error). Fields that
	             only occur as arguments of the two external calls (`id`, `construct`) are not
	             carried. `if c == nil { panic(…) }` is recognised and dropped: the Lean receiver
	             is a value.
	externals    `NewCollection(c.next, c.id, c.construct)` in `if v, err := …; err != nil {A} else {B}`
	             is the parameter `load : R → Option (Collection R E)`: `none` runs A (with `err`
	             known as the load error), `some v` runs B.
	             `c.construct(X, c.id)` is `Coll.Out.item X`.
	             `NewFailure(E)` is the `Coll.Out` constructor named by what E is: `c.elementsErr`
	             → failElems, `c.nextErr` → failNext, the `err` of `NewCollection` → failLoad,
	             `errors.New("…")` built in place → refuse.
	integers     `uint`: `+` is `Go.uadd`, `-` is `Go.usub` (both wrap modulo 2^64),
	             `uint(len(s))` is `Go.ulen s`; `int`: `+`/`-` under `Go.wrap64`.
	             Literals and comparison operators are copied.
	fan-out      `var wg sync.WaitGroup`, then only `wg.Add(1); go func() { BODY; wg.Done() }()`
	             pairs and the loop below until `wg.Wait()`. The closures write disjoint variables
	             and cells (checked by property C08), so BODY is translated in place, in program
	             order. `X := make([]T, N)` … `for i := uint(0); i < N; i++ { i := i; wg.Add(1);
	             go func() { X[i] = V; wg.Done() }() }` is `let X ← Go.tabulate N (fun i => V)`.

Anything else becomes `sorry_untranslatable`, an unknown identifier that breaks the build of the
generated file and with it every theorem about it.
*/

import (
	"fmt"
	"go/ast"
	"go/token"
	"strings"
)

type c6 struct {
	b        strings.Builder
	err      []string
	recv     string
	strct    string
	fields   map[string]string // Go field -> Go type string
	carried  map[string]bool
	vars     map[string]string // local / parameter -> "uint", "int", "slice", "container", "coll", "loaderr"
	fuelFns  map[string]bool   // functions that take fuel
	selfName string            // the function being translated
	recFn    bool              // it is the recursive one
	ptypes   map[string][]string
	makeVar  string // pending `X := make([]Tangible, N)`
	makeLen  string
	wg       string
	fanout   int // 0 before the first wg.Add, 1 between the first wg.Add and wg.Wait, 2 after wg.Wait
	inGo     bool
}

const c6Ret = "List (Coll.Out E) × Option (Collection R E) × Nat"

func (g *c6) fail(format string, a ...any) string {
	msg := fmt.Sprintf(format, a...)
	g.err = append(g.err, msg)
	return "(sorry_untranslatable /- " + strings.ReplaceAll(msg, "-/", "- /") + " -/)"
}

func (g *c6) line(ind int, s string) { g.b.WriteString(strings.Repeat("  ", ind) + s + "\n") }

func (g *c6) isRecvField(e ast.Expr) (string, bool) {
	se, ok := e.(*ast.SelectorExpr)
	if !ok {
		return "", false
	}
	id, ok := se.X.(*ast.Ident)
	if !ok || id.Name != g.recv {
		return "", false
	}
	_, known := g.fields[se.Sel.Name]
	return se.Sel.Name, known
}

/* an expression of type `error`: a field of the receiver or the `err` of NewCollection */
func (g *c6) errValue(e ast.Expr) (string, bool) {
	if f, ok := g.isRecvField(e); ok && g.fields[f] == "error" {
		g.carried[f] = true
		return g.recv + "." + f, true
	}
	return "", false
}

func (g *c6) kind(e ast.Expr) string {
	switch x := e.(type) {
	case *ast.ParenExpr:
		return g.kind(x.X)
	case *ast.Ident:
		return g.vars[x.Name]
	case *ast.BasicLit:
		if x.Kind == token.INT {
			return "lit"
		}
	case *ast.BinaryExpr:
		l, r := g.kind(x.X), g.kind(x.Y)
		if l == "lit" {
			return r
		}
		if r == "lit" || l == r {
			return l
		}
	case *ast.CallExpr:
		if id, ok := x.Fun.(*ast.Ident); ok && id.Name == "uint" && len(x.Args) == 1 {
			return "uint"
		}
	}
	return ""
}

/* integer expression of the given kind ("uint" or "int") */
func (g *c6) num(e ast.Expr, want string) string {
	switch x := e.(type) {
	case *ast.ParenExpr:
		return g.num(x.X, want)
	case *ast.BasicLit:
		if x.Kind == token.INT {
			return x.Value
		}
	case *ast.Ident:
		if g.vars[x.Name] == want {
			return x.Name
		}
		return g.fail("%s is not a %s variable", x.Name, want)
	case *ast.BinaryExpr:
		a, b := g.num(x.X, want), g.num(x.Y, want)
		switch {
		case want == "uint" && x.Op == token.ADD:
			return "(Go.uadd " + a + " " + b + ")"
		case want == "uint" && x.Op == token.SUB:
			return "(Go.usub " + a + " " + b + ")"
		case want == "int" && x.Op == token.ADD:
			return "(Go.wrap64 (" + a + " + " + b + "))"
		case want == "int" && x.Op == token.SUB:
			return "(Go.wrap64 (" + a + " - " + b + "))"
		}
	case *ast.CallExpr:
		if id, ok := x.Fun.(*ast.Ident); ok && id.Name == "uint" && len(x.Args) == 1 && want == "uint" {
			if bl, ok := x.Args[0].(*ast.BasicLit); ok && bl.Kind == token.INT {
				return bl.Value
			}
			if ce, ok := x.Args[0].(*ast.CallExpr); ok && len(ce.Args) == 1 {
				if fn, ok := ce.Fun.(*ast.Ident); ok && fn.Name == "len" {
					if f, ok := g.isRecvField(ce.Args[0]); ok && g.fields[f] == "[]any" {
						g.carried[f] = true
						return "(Go.ulen " + g.recv + "." + f + ")"
					}
				}
			}
		}
	}
	return g.fail("%s expression %s", want, exprString(e))
}

var c6cmp = map[token.Token]string{token.LSS: "<", token.GTR: ">", token.LEQ: "≤", token.GEQ: "≥", token.EQL: "=", token.NEQ: "≠"}

func (g *c6) cond(e ast.Expr) string {
	switch x := e.(type) {
	case *ast.ParenExpr:
		return g.cond(x.X)
	case *ast.UnaryExpr:
		if x.Op == token.NOT {
			return "!" + g.cond(x.X)
		}
	case *ast.CallExpr:
		/* errors.Is(E, object.ErrKeyNotPresent) */
		if exprString(x.Fun) == "errors.Is" && len(x.Args) == 2 {
			if v, ok := g.errValue(x.Args[0]); ok {
				switch exprString(x.Args[1]) {
				case "object.ErrKeyNotPresent":
					return "Go.errIsOpt " + v + " Obj.Err.absent"
				}
			}
		}
	case *ast.BinaryExpr:
		switch x.Op {
		case token.LAND:
			return "(" + g.cond(x.X) + " && " + g.cond(x.Y) + ")"
		case token.LOR:
			return "(" + g.cond(x.X) + " || " + g.cond(x.Y) + ")"
		case token.EQL, token.NEQ:
			if isNilIdent(x.Y) {
				if v, ok := g.errValue(x.X); ok {
					if x.Op == token.NEQ {
						return "Go.errNotNil " + v
					}
					return "!Go.errNotNil " + v
				}
				return g.fail("nil test of %s", exprString(x.X))
			}
			fallthrough
		case token.LSS, token.GTR, token.LEQ, token.GEQ:
			k := g.kind(x)
			if k == "uint" || k == "int" {
				return "decide (" + g.num(x.X, k) + " " + c6cmp[x.Op] + " " + g.num(x.Y, k) + ")"
			}
		}
	}
	return g.fail("condition %s", exprString(e))
}

/* `NewFailure(E)` */
func (g *c6) failure(x *ast.CallExpr) string {
	if len(x.Args) != 1 {
		return g.fail("NewFailure arity")
	}
	a := x.Args[0]
	if f, ok := g.isRecvField(a); ok && g.fields[f] == "error" {
		switch f {
		case "elementsErr":
			return "Coll.Out.failElems"
		case "nextErr":
			return "Coll.Out.failNext"
		}
		return g.fail("NewFailure of field %s", f)
	}
	if id, ok := a.(*ast.Ident); ok && g.vars[id.Name] == "loaderr" {
		return "Coll.Out.failLoad"
	}
	if ce, ok := a.(*ast.CallExpr); ok && exprString(ce.Fun) == "errors.New" && len(ce.Args) == 1 {
		if bl, ok := ce.Args[0].(*ast.BasicLit); ok && bl.Kind == token.STRING {
			return "Coll.Out.refuse"
		}
	}
	return g.fail("NewFailure of %s", exprString(a))
}

/* expression of type []Tangible */
func (g *c6) slice(e ast.Expr) string {
	switch x := e.(type) {
	case *ast.Ident:
		if g.vars[x.Name] == "slice" {
			return x.Name
		}
	case *ast.CompositeLit:
		if typeString(x.Type) == "[]Tangible" {
			els := []string{}
			for _, el := range x.Elts {
				ce, ok := el.(*ast.CallExpr)
				if ok && exprString(ce.Fun) == "NewFailure" {
					els = append(els, g.failure(ce))
				} else {
					els = append(els, g.fail("element %s", exprString(el)))
				}
			}
			return "[" + strings.Join(els, ", ") + "]"
		}
	case *ast.CallExpr:
		if id, ok := x.Fun.(*ast.Ident); ok && id.Name == "append" && len(x.Args) == 2 && x.Ellipsis.IsValid() {
			return "(" + g.slice(x.Args[0]) + " ++ " + g.slice(x.Args[1]) + ")"
		}
	}
	return g.fail("slice expression %s", exprString(e))
}

/* expression of type Container */
func (g *c6) container(e ast.Expr) string {
	if id, ok := e.(*ast.Ident); ok {
		switch {
		case id.Name == "nil":
			return "none"
		case id.Name == g.recv:
			return "(some " + g.recv + ")"
		case g.vars[id.Name] == "container":
			return id.Name
		}
	}
	return g.fail("container expression %s", exprString(e))
}

/* the i-th component of a result triple */
func (g *c6) component(i int, e ast.Expr) string {
	switch i {
	case 0:
		return g.slice(e)
	case 1:
		return g.container(e)
	}
	return g.num(e, "uint")
}

var c6kinds = []string{"slice", "container", "uint"}

/* RECV.f(args) where f takes fuel: the Lean call */
func (g *c6) fuelCall(x *ast.CallExpr) (string, bool) {
	se, ok := x.Fun.(*ast.SelectorExpr)
	if !ok || !g.fuelFns[se.Sel.Name] {
		return "", false
	}
	id, ok := se.X.(*ast.Ident)
	if !ok || !(id.Name == g.recv || g.vars[id.Name] == "coll") {
		return g.fail("receiver of %s", se.Sel.Name), true
	}
	pt := g.ptypes[se.Sel.Name]
	if len(pt) != len(x.Args) {
		return g.fail("arity of %s", se.Sel.Name), true
	}
	args := []string{}
	for i, a := range x.Args {
		args = append(args, g.num(a, pt[i]))
	}
	return se.Sel.Name + " load fuel " + id.Name + " " + strings.Join(args, " "), true
}

func (g *c6) mentions(e ast.Expr, names map[string]bool) bool {
	found := false
	ast.Inspect(e, func(n ast.Node) bool {
		if id, ok := n.(*ast.Ident); ok && names[id.Name] {
			found = true
		}
		return true
	})
	return found
}

func (g *c6) assign(ind int, s *ast.AssignStmt) {
	/* X := make([]Tangible, N) */
	if s.Tok == token.DEFINE && len(s.Lhs) == 1 && len(s.Rhs) == 1 {
		if ce, ok := s.Rhs[0].(*ast.CallExpr); ok && exprString(ce.Fun) == "make" && len(ce.Args) == 2 && typeString(ce.Args[0]) == "[]Tangible" {
			if id, ok := s.Lhs[0].(*ast.Ident); ok && g.makeVar == "" {
				g.makeVar = id.Name
				g.makeLen = g.num(ce.Args[1], "uint")
				g.line(ind, "-- "+id.Name+" := make([]Tangible, "+exprString(ce.Args[1])+"): filled below")
				return
			}
		}
	}
	if s.Tok == token.DEFINE {
		g.line(ind, g.fail("definition of %s", exprString(s.Lhs[0])))
		return
	}
	/* a, b, c = … */
	if len(s.Lhs) == 3 && s.Tok == token.ASSIGN {
		names := map[string]bool{}
		lhs := []string{}
		for i, l := range s.Lhs {
			id, ok := l.(*ast.Ident)
			if !ok || g.vars[id.Name] != c6kinds[i] {
				g.line(ind, g.fail("assignment to %s", exprString(l)))
				return
			}
			names[id.Name] = true
			lhs = append(lhs, id.Name)
		}
		if len(s.Rhs) == 3 {
			for _, r := range s.Rhs {
				if g.mentions(r, names) {
					g.line(ind, g.fail("tuple assignment reads what it writes"))
					return
				}
			}
			for i, r := range s.Rhs {
				g.line(ind, lhs[i]+" := "+g.component(i, r))
			}
			return
		}
		if len(s.Rhs) == 1 {
			if ce, ok := s.Rhs[0].(*ast.CallExpr); ok {
				if call, ok := g.fuelCall(ce); ok {
					g.line(ind, "let ret ← "+call)
					g.line(ind, lhs[0]+" := ret.1")
					g.line(ind, lhs[1]+" := ret.2.1")
					g.line(ind, lhs[2]+" := ret.2.2")
					return
				}
			}
		}
		g.line(ind, g.fail("tuple assignment"))
		return
	}
	if len(s.Lhs) == 1 && len(s.Rhs) == 1 {
		id, ok := s.Lhs[0].(*ast.Ident)
		if ok && (g.vars[id.Name] == "uint" || g.vars[id.Name] == "int") {
			k := g.vars[id.Name]
			var rhs ast.Expr
			switch s.Tok {
			case token.ASSIGN:
				rhs = s.Rhs[0]
			case token.ADD_ASSIGN:
				rhs = &ast.BinaryExpr{X: id, Op: token.ADD, Y: s.Rhs[0]}
			case token.SUB_ASSIGN:
				rhs = &ast.BinaryExpr{X: id, Op: token.SUB, Y: s.Rhs[0]}
			}
			if rhs != nil {
				g.line(ind, id.Name+" := "+g.num(rhs, k))
				return
			}
		}
	}
	g.line(ind, g.fail("assignment %s", exprString(s.Lhs[0])))
}

func (g *c6) decl(ind int, s *ast.DeclStmt) {
	gd, ok := s.Decl.(*ast.GenDecl)
	if !ok || gd.Tok != token.VAR {
		g.line(ind, g.fail("declaration"))
		return
	}
	for _, sp := range gd.Specs {
		vs, ok := sp.(*ast.ValueSpec)
		if !ok || len(vs.Values) != 0 || len(vs.Names) != 1 {
			g.line(ind, g.fail("declaration form"))
			continue
		}
		n := vs.Names[0].Name
		switch typeString(vs.Type) {
		case "uint":
			g.vars[n] = "uint"
			g.line(ind, "let mut "+n+" : Nat := 0")
		case "int":
			g.vars[n] = "int"
			g.line(ind, "let mut "+n+" : Int := 0")
		case "[]Tangible":
			g.vars[n] = "slice"
			g.line(ind, "let mut "+n+" : List (Coll.Out E) := []")
		case "Container":
			g.vars[n] = "container"
			g.line(ind, "let mut "+n+" : Option (Collection R E) := none")
		case "sync.WaitGroup":
			if g.wg != "" {
				g.line(ind, g.fail("second WaitGroup"))
				continue
			}
			g.wg = n
			g.line(ind, "-- var "+n+" sync.WaitGroup: the goroutines below run in program order")
		default:
			g.line(ind, g.fail("declaration of type %s", typeString(vs.Type)))
		}
	}
}

func (g *c6) isWgCall(st ast.Stmt, method string, nargs int) bool {
	es, ok := st.(*ast.ExprStmt)
	if !ok {
		return false
	}
	ce, ok := es.X.(*ast.CallExpr)
	if !ok || g.wg == "" || exprString(ce.Fun) != g.wg+"."+method || len(ce.Args) != nargs {
		return false
	}
	if nargs == 1 {
		bl, ok := ce.Args[0].(*ast.BasicLit)
		return ok && bl.Value == "1"
	}
	return true
}

/* `go func() { BODY; wg.Done() }()`: BODY, or nil */
func (g *c6) goBody(st ast.Stmt) []ast.Stmt {
	gs, ok := st.(*ast.GoStmt)
	if !ok || len(gs.Call.Args) != 0 {
		return nil
	}
	fl, ok := gs.Call.Fun.(*ast.FuncLit)
	if !ok || len(fl.Type.Params.List) != 0 || fl.Type.Results != nil || len(fl.Body.List) < 2 {
		return nil
	}
	n := len(fl.Body.List)
	if !g.isWgCall(fl.Body.List[n-1], "Done", 0) {
		return nil
	}
	body := fl.Body.List[:n-1]
	bad := false
	for _, b := range body {
		ast.Inspect(b, func(nd ast.Node) bool {
			switch nd.(type) {
			case *ast.ReturnStmt, *ast.GoStmt, *ast.DeferStmt, *ast.FuncLit:
				bad = true
			}
			if ce, ok := nd.(*ast.CallExpr); ok && strings.HasPrefix(exprString(ce.Fun), g.wg+".") {
				bad = true
			}
			return true
		})
	}
	if bad {
		return nil
	}
	return body
}

/* the fan-out loop over the cells of the pending `make` */
func (g *c6) loop(ind int, s *ast.ForStmt) {
	bad := func(what string) { g.line(ind, g.fail("loop: %s", what)) }
	init, ok := s.Init.(*ast.AssignStmt)
	if !ok || init.Tok != token.DEFINE || len(init.Lhs) != 1 || len(init.Rhs) != 1 {
		bad("init")
		return
	}
	iv, ok := init.Lhs[0].(*ast.Ident)
	if !ok || strings.ReplaceAll(exprString(init.Rhs[0]), " ", "") != "uint()" {
		bad("init")
		return
	}
	if ce := init.Rhs[0].(*ast.CallExpr); len(ce.Args) != 1 || exprString(ce.Args[0]) != "0" {
		bad("does not start at 0")
		return
	}
	g.vars[iv.Name] = "uint"
	defer delete(g.vars, iv.Name)
	cond, ok := s.Cond.(*ast.BinaryExpr)
	if !ok || cond.Op != token.LSS || exprString(cond.X) != iv.Name || g.makeVar == "" || g.num(cond.Y, "uint") != g.makeLen {
		bad("bound is not the length of the slice made above")
		return
	}
	post, ok := s.Post.(*ast.IncDecStmt)
	if !ok || post.Tok != token.INC || exprString(post.X) != iv.Name {
		bad("post")
		return
	}
	body := s.Body.List
	if len(body) > 0 {
		/* i := i */
		if as, ok := body[0].(*ast.AssignStmt); ok && as.Tok == token.DEFINE && len(as.Lhs) == 1 && len(as.Rhs) == 1 &&
			exprString(as.Lhs[0]) == iv.Name && exprString(as.Rhs[0]) == iv.Name {
			body = body[1:]
		}
	}
	if len(body) != 2 || !g.isWgCall(body[0], "Add", 1) {
		bad("body is not wg.Add(1); go func(){…}()")
		return
	}
	gb := g.goBody(body[1])
	if len(gb) != 1 {
		bad("goroutine body")
		return
	}
	as, ok := gb[0].(*ast.AssignStmt)
	if !ok || as.Tok != token.ASSIGN || len(as.Lhs) != 1 || len(as.Rhs) != 1 {
		bad("goroutine body is not one cell assignment")
		return
	}
	cell, ok := as.Lhs[0].(*ast.IndexExpr)
	if !ok || exprString(cell.X) != g.makeVar || exprString(cell.Index) != iv.Name {
		bad("assigned cell is not " + g.makeVar + "[" + iv.Name + "]")
		return
	}
	/* c.construct(c.elements[IDX], c.id) */
	val := ""
	if ce, ok := as.Rhs[0].(*ast.CallExpr); ok && exprString(ce.Fun) == g.recv+".construct" && len(ce.Args) == 2 && exprString(ce.Args[1]) == g.recv+".id" {
		if ix, ok := ce.Args[0].(*ast.IndexExpr); ok {
			if f, ok := g.isRecvField(ix.X); ok && g.fields[f] == "[]any" {
				g.carried[f] = true
				val = "Coll.Out.item (← Go.uindex " + g.recv + "." + f + " " + g.num(ix.Index, "uint") + ")"
			}
		}
	}
	if val == "" {
		val = g.fail("cell value %s", exprString(as.Rhs[0]))
	}
	g.line(ind, "let "+g.makeVar+" ← Go.tabulate "+g.makeLen+" (fun "+iv.Name+" => do")
	g.line(ind+1, "return "+val+")")
	g.vars[g.makeVar] = "slice"
	g.makeVar = "filled"
}

func (g *c6) ret(ind int, s *ast.ReturnStmt) {
	if g.inGo {
		g.line(ind, g.fail("return inside a goroutine"))
		return
	}
	if len(s.Results) == 1 {
		if ce, ok := s.Results[0].(*ast.CallExpr); ok {
			if call, ok := g.fuelCall(ce); ok {
				g.line(ind, call)
				return
			}
		}
	}
	if len(s.Results) != 3 {
		g.line(ind, g.fail("return arity"))
		return
	}
	g.line(ind, "return ("+g.component(0, s.Results[0])+", "+g.component(1, s.Results[1])+", "+g.component(2, s.Results[2])+")")
}

func (g *c6) ifStmt(ind int, s *ast.IfStmt, prefix string) {
	elsePart := func() {
		switch e := s.Else.(type) {
		case nil:
		case *ast.IfStmt:
			if e.Init == nil {
				g.ifStmt(ind, e, "else ")
			} else {
				g.line(ind, "else")
				g.ifStmt(ind+1, e, "")
			}
		case *ast.BlockStmt:
			g.line(ind, "else")
			g.block(ind+1, e.List)
		}
	}
	if s.Init == nil {
		/* if c == nil { panic("…") } */
		if be, ok := s.Cond.(*ast.BinaryExpr); ok && be.Op == token.EQL && exprString(be.X) == g.recv && isNilIdent(be.Y) {
			if prefix == "" && s.Else == nil && len(s.Body.List) == 1 {
				if es, ok := s.Body.List[0].(*ast.ExprStmt); ok {
					if ce, ok := es.X.(*ast.CallExpr); ok && exprString(ce.Fun) == "panic" {
						g.line(ind, "-- if "+g.recv+" == nil { panic(…) }: the receiver is a value here")
						return
					}
				}
			}
			g.line(ind, g.fail("nil test of the receiver"))
			return
		}
		g.line(ind, prefix+"if "+g.cond(s.Cond)+" then")
		g.block(ind+1, s.Body.List)
		elsePart()
		return
	}
	/* if v, err := NewCollection(c.next, c.id, c.construct); err != nil { A } else { B } */
	as, ok := s.Init.(*ast.AssignStmt)
	if ok && as.Tok == token.DEFINE && len(as.Lhs) == 2 && len(as.Rhs) == 1 {
		v, e := exprString(as.Lhs[0]), exprString(as.Lhs[1])
		ce, isCall := as.Rhs[0].(*ast.CallExpr)
		if isCall && exprString(ce.Fun) == "NewCollection" && len(ce.Args) == 3 &&
			exprString(ce.Args[1]) == g.recv+".id" && exprString(ce.Args[2]) == g.recv+".construct" &&
			strings.ReplaceAll(exprString(s.Cond), " ", "") == e+"!=nil" {
			if f, ok := g.isRecvField(ce.Args[0]); ok && g.fields[f] == "any" {
				if _, taken := g.vars[v]; taken || v == g.recv {
					g.line(ind, g.fail("%s shadows a variable", v))
					return
				}
				g.carried[f] = true
				g.line(ind, prefix+"match load "+g.recv+"."+f+" with")
				g.line(ind, "| none =>")
				g.vars[e] = "loaderr"
				g.block(ind+1, s.Body.List)
				delete(g.vars, e)
				g.line(ind, "| some "+v+" =>")
				g.vars[v] = "coll"
				switch el := s.Else.(type) {
				case *ast.BlockStmt:
					g.block(ind+1, el.List)
				default:
					g.line(ind+1, g.fail("else branch of the NewCollection test"))
				}
				delete(g.vars, v)
				return
			}
		}
	}
	g.line(ind, g.fail("if with initialiser %s", exprString(s.Cond)))
}

func (g *c6) block(ind int, list []ast.Stmt) {
	if len(list) == 0 {
		g.line(ind, "pure ()")
		return
	}
	for i := 0; i < len(list); i++ {
		st := list[i]
		/* between the first wg.Add and wg.Wait only the fan-out shapes are accepted */
		if g.wg != "" && g.isWgCall(st, "Add", 1) && !g.inGo {
			if g.fanout == 2 {
				g.line(ind, g.fail("goroutine after wg.Wait()"))
				continue
			}
			g.fanout = 1
			var body []ast.Stmt
			if i+1 < len(list) {
				body = g.goBody(list[i+1])
			}
			if body == nil {
				g.line(ind, g.fail("wg.Add(1) not followed by go func() { …; wg.Done() }()"))
				continue
			}
			i++
			g.line(ind, "-- wg.Add(1); go func() { … wg.Done() }()")
			g.inGo = true
			g.block(ind, body)
			g.inGo = false
			continue
		}
		if g.wg != "" && g.isWgCall(st, "Wait", 0) && !g.inGo {
			if g.fanout != 1 {
				g.line(ind, g.fail("wg.Wait() without goroutines"))
				continue
			}
			g.fanout = 2
			g.line(ind, "-- wg.Wait()")
			continue
		}
		if fs, ok := st.(*ast.ForStmt); ok && !g.inGo && g.fanout < 2 && g.wg != "" {
			g.fanout = 1
			g.loop(ind, fs)
			continue
		}
		if g.fanout == 1 && !g.inGo {
			g.line(ind, g.fail("statement between the goroutines and wg.Wait(): %T", st))
			continue
		}
		switch s := st.(type) {
		case *ast.ReturnStmt:
			g.ret(ind, s)
		case *ast.DeclStmt:
			g.decl(ind, s)
		case *ast.AssignStmt:
			g.assign(ind, s)
		case *ast.IfStmt:
			g.ifStmt(ind, s, "")
		default:
			g.line(ind, g.fail("statement %T", st))
		}
	}
}

func (g *c6) assigned(body *ast.BlockStmt, name string) bool {
	found := false
	ast.Inspect(body, func(n ast.Node) bool {
		switch s := n.(type) {
		case *ast.AssignStmt:
			for _, l := range s.Lhs {
				if id, ok := l.(*ast.Ident); ok && id.Name == name && s.Tok != token.DEFINE {
					found = true
				}
			}
		case *ast.IncDecStmt:
			if id, ok := s.X.(*ast.Ident); ok && id.Name == name {
				found = true
			}
		}
		return true
	})
	return found
}

func (g *c6) function(fd *ast.FuncDecl) {
	name := fd.Name.Name
	g.selfName = name
	g.vars = map[string]string{}
	g.makeVar, g.makeLen, g.wg, g.fanout, g.inGo = "", "", "", 0, false
	g.recv = fd.Recv.List[0].Names[0].Name
	/* is it recursive? */
	g.recFn = false
	ast.Inspect(fd.Body, func(n ast.Node) bool {
		if ce, ok := n.(*ast.CallExpr); ok {
			if se, ok := ce.Fun.(*ast.SelectorExpr); ok && se.Sel.Name == name {
				g.recFn = true
			}
		}
		return true
	})
	res := []string{}
	if fd.Type.Results != nil {
		for _, r := range fd.Type.Results.List {
			res = append(res, typeString(r.Type))
		}
	}
	rt := c6Ret
	if strings.Join(res, ",") != "[]Tangible,Container,uint" {
		rt = g.fail("result type of %s", name)
	}
	type param struct{ name, lean string }
	params := []param{}
	muts := []string{}
	for _, p := range fd.Type.Params.List {
		for _, n := range p.Names {
			k := typeString(p.Type)
			lt := map[string]string{"uint": "Nat", "int": "Int"}[k]
			if lt == "" {
				lt = g.fail("parameter type %s", k)
			}
			g.vars[n.Name] = k
			pn := n.Name
			if g.assigned(fd.Body, n.Name) {
				pn += "0"
				muts = append(muts, n.Name)
			}
			params = append(params, param{pn, lt})
		}
	}
	if g.recFn {
		types, pats := []string{}, []string{}
		for _, p := range params {
			types = append(types, p.lean)
			pats = append(pats, p.name)
		}
		g.line(0, "def "+name+" (load : R → Option (Collection R E)) :")
		g.line(2, "Nat → Collection R E → "+strings.Join(types, " → ")+" → Go.Fuel ("+rt+")")
		g.line(1, "| 0, _, "+strings.TrimSuffix(strings.Repeat("_, ", len(params)), ", ")+" => Go.outOfFuel")
		g.line(1, "| fuel + 1, "+g.recv+", "+strings.Join(pats, ", ")+" => do")
	} else {
		ps := []string{}
		for _, p := range params {
			ps = append(ps, "("+p.name+" : "+p.lean+")")
		}
		g.line(0, "def "+name+" (load : R → Option (Collection R E)) (fuel : Nat) ("+g.recv+" : Collection R E) "+strings.Join(ps, " ")+" :")
		g.line(2, "Go.Fuel ("+rt+") := do")
	}
	for _, m := range muts {
		g.line(2, "let mut "+m+" := "+m+"0")
	}
	g.block(2, fd.Body.List)
	if g.wg != "" && g.fanout != 2 {
		g.line(2, g.fail("goroutines without wg.Wait()"))
	}
	if g.makeVar != "" && g.makeVar != "filled" {
		g.line(2, g.fail("slice %s made but never filled", g.makeVar))
	}
	g.line(0, "")
}

func translateCollection(f *ast.File) (string, []string) {
	g := &c6{fields: map[string]string{}, carried: map[string]bool{}, fuelFns: map[string]bool{}, ptypes: map[string][]string{}}
	g.strct = "Collection"
	order := []string{}
	for _, d := range f.Decls {
		gd, ok := d.(*ast.GenDecl)
		if !ok {
			continue
		}
		for _, sp := range gd.Specs {
			ts, ok := sp.(*ast.TypeSpec)
			if !ok || ts.Name.Name != g.strct {
				continue
			}
			if st, ok := ts.Type.(*ast.StructType); ok {
				for _, fl := range st.Fields.List {
					for _, n := range fl.Names {
						t := typeString(fl.Type)
						if _, isFunc := fl.Type.(*ast.FuncType); isFunc {
							t = "func"
						}
						g.fields[n.Name] = t
						order = append(order, n.Name)
					}
				}
			}
		}
	}
	if len(order) == 0 {
		g.fail("type Collection struct not found")
	}
	fns := map[string]*ast.FuncDecl{}
	for _, d := range f.Decls {
		if fd, ok := d.(*ast.FuncDecl); ok && fd.Recv != nil && fd.Body != nil && len(fd.Recv.List) == 1 &&
			typeString(fd.Recv.List[0].Type) == "*"+g.strct && len(fd.Recv.List[0].Names) == 1 {
			fns[fd.Name.Name] = fd
		}
	}
	names := []string{"harvestWithEmptyCount", "Harvest"}
	var body strings.Builder
	for _, n := range names {
		fd, ok := fns[n]
		if !ok {
			g.fail("method %s not found", n)
			continue
		}
		g.fuelFns[n] = true
		pt := []string{}
		for _, p := range fd.Type.Params.List {
			for range p.Names {
				pt = append(pt, typeString(p.Type))
			}
		}
		g.ptypes[n] = pt
		g.b.Reset()
		g.function(fd)
		body.WriteString(g.b.String())
	}
	g.b.Reset()
	g.line(0, "namespace GenCollection")
	g.line(0, "")
	skipped := []string{}
	for _, n := range order {
		if !g.carried[n] {
			skipped = append(skipped, n)
		}
	}
	g.line(0, "/-- `type "+g.strct+" struct`: the fields `harvestWithEmptyCount` reads (not carried: "+strings.Join(skipped, ", ")+") -/")
	g.line(0, "structure "+g.strct+" (R E : Type) where")
	for _, n := range order {
		if !g.carried[n] {
			continue
		}
		lt := map[string]string{"[]any": "List E", "any": "R", "error": "Option Obj.Err"}[g.fields[n]]
		if lt == "" {
			lt = g.fail("field type %s", g.fields[n])
		}
		g.line(1, n+" : "+lt)
	}
	g.line(0, "")
	g.line(0, "variable {R E : Type}")
	g.line(0, "")
	g.b.WriteString(body.String())
	g.line(0, "end GenCollection")
	return g.b.String(), g.err
}
