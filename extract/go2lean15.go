package main

/*
go2lean, fifteenth front end: gemtext/gemtext.go and plaintext/plaintext.go (the subjects of C15
and, for the link numbers, C12) into lean/Generated/GoGemtext.lean (namespaces GenGemtext and
GenPlaintext), statement by statement, as `do` blocks in `Except Panic`.  `Props/Gen15.lean`
proves every translated function equal to the hand-written model (`Model/Gemtext.lean`,
`Model/Markup.lean`); `Props/GenT15.lean` restates C15 and C12 on the translated code.

EVERY function declaration of the two files is translated (a helper added to the source is
translated too, or rejected).  What is read from the AST (nothing is assumed about the bodies
beyond the subset below):

  the struct    `type Markup struct { … }`: the field names and types, in order (the source text,
                `cached`, `cachedWidth` are not known to the translator)
  signatures    parameter names and types, the result types.  A last result of type `error` must
                be the literal `nil` in every `return`; it is then dropped (a function that can
                return an error is rejected).  A `*Markup` is the struct it points to (nil
                pointers and two pointers to one struct are outside the subset: the only
                constructor returns a fresh non-nil one); a method that assigns to a field of its
                pointer receiver returns the changed receiver as a last extra result
  regular       `regexp.MustCompile(<literal>)` is external: each place where the code asks a
  expressions   pattern something becomes a field `reN` of the structure `Ext` the translated
                functions take as the parameter `W`, numbered in the order the places are reached,
                and the literal becomes `patternN` (Gen15 compares the literals with the patterns the
                model transcribes).  Two questions are understood:
                `regexp.MustCompile(<literal>).FindStringSubmatch(s)` (`Str → List Str`: nil, no
                match, is the empty list, else the whole match and the groups) and, for a local
                `v := regexp.MustCompile(<literal>)`, `x := v.ReplaceAllStringFunc(s, func(p string)
                string { …; return e })` (`Str → List Go.Piece`: the text cut into the matches and
                what is kept between them, in order): a loop over the pieces that appends a kept
                piece as it is and, for a match, runs the statements of the closure (they may
                assign to the variables of the enclosing function: Go closures capture by
                reference) and appends `e`
  calls         of the functions of the same file; of style.* and ansi.* (`servitor/style`,
                `servitor/ansi`, by the names the file imports them under): the signature is read
                from style/style.go / ansi/ansi.go and the call goes to the translated
                `GenStyle.*` (which take the colours `c`) / `GenAnsiH.*` (which take the regular
                expression `expand`); a function outside the translated sets is rejected
  strings.*     Split(s, one-character literal), Join, HasPrefix, TrimPrefix, TrimSuffix,
                Trim(s, literal cutset), TrimSpace (`Model/GoStrings.lean`)
  statements    := (one variable; several from a call of a function of the file, `_` allowed),
                = and += on variables, = on a field of the receiver, if / else if / else with or
                without an init statement (a variable declared again in an inner scope, like the
                `match` of each `else if`, gets a fresh Lean name), `for _, x := range xs`,
                `continue`, `break`, `return e, …`
  expressions   string and integer literals (escapes decoded and re-encoded), + on strings and
                ints, - on ints, the six comparisons with the operator and the operand order of
                the source, && || ! (the right operand of && / || must be free of panics),
                len of a slice, xs[i], append(xs, x), []string{…}, &T{field: value, …} / T{…}
                (missing fields get their zero value), m.field

Types: string → Str (code points), int → Int (unbounded), uint → Nat, bool → Bool,
[]string → List Str.  `len` of a string (a byte count) and `s[i]` on a string (a byte) are
rejected.

Anything not understood becomes the identifier `sorry_untranslatable`, which does not exist: the
generated file does not build and the obligations of C15 and C12 fail.
*/

import (
	"fmt"
	"go/ast"
	"go/token"
	"strconv"
	"strings"
)

/* the functions of style/style.go and ansi/ansi.go that exist translated (goCode: "style", "ansih") */
var g15Style = map[string]bool{"Bold": true, "Strikethrough": true, "Underline": true, "Italic": true, "Code": true,
	"Highlight": true, "Color": true, "Red": true, "Link": true, "CodeBlock": true, "QuoteBlock": true, "LinkBlock": true,
	"Header": true, "Bullet": true}
var g15Ansi = map[string]bool{"Apply": true, "Indent": true, "Pad": true, "DumbWrap": true, "Wrap": true, "Snip": true}

type v15 struct{ lean, kind string }

type sig15 struct {
	params  []string // kinds
	results []string // kinds, the error dropped
	recv    string   // receiver name, "" for a function
	recvMut bool     // assigns to a field of the receiver
}

type re15 struct{ pattern, method string }

type g15 struct {
	b       strings.Builder
	errs    []string
	root    string
	pkg     string
	imports map[string]string // local name -> import path
	sname   string            // the struct
	fields  []v15             // lean = field name
	funcs   map[string]*ast.FuncDecl
	sigs    map[string]sig15
	extSigs map[string]map[string]sig15 // "style" / "ansi" -> function -> signature
	res     []re15

	fn    string
	scope map[string]v15
	used  map[string]bool
	loops int
	tmp   int
}

func (g *g15) fail(format string, a ...any) string {
	msg := fmt.Sprintf(format, a...)
	g.errs = append(g.errs, g.pkg+"."+g.fn+": "+msg)
	return "(sorry_untranslatable /- " + strings.ReplaceAll(msg, "-/", "- /") + " -/)"
}

func (g *g15) line(ind int, s string) { g.b.WriteString(strings.Repeat("  ", ind) + s + "\n") }

func (g *g15) kind(e ast.Expr) string {
	switch t := e.(type) {
	case *ast.Ident:
		switch t.Name {
		case "string", "int", "uint", "bool", "error":
			return t.Name
		}
		if t.Name == g.sname && g.sname != "" {
			return "struct"
		}
	case *ast.StarExpr:
		if g.kind(t.X) == "struct" {
			return "struct"
		}
	case *ast.ArrayType:
		if t.Len == nil && g.kind(t.Elt) == "string" {
			return "strs"
		}
	}
	return "?"
}

func (g *g15) lean(k string) string {
	switch k {
	case "string":
		return "Str"
	case "int", "lit":
		return "Int"
	case "uint":
		return "Nat"
	case "bool":
		return "Bool"
	case "strs":
		return "List Str"
	case "struct":
		return g.sname
	}
	return ""
}

func g15Zero(k string) string {
	return map[string]string{"string": "[]", "int": "0", "uint": "0", "bool": "false", "strs": "[]"}[k]
}

/* does a value of kind k fit where kind want is expected */
func g15Fits(k, want string) bool {
	return k == want || (k == "lit" && (want == "int" || want == "uint"))
}

func (g *g15) tuple(ks []string) string {
	ts := []string{}
	for _, k := range ks {
		ts = append(ts, g.lean(k))
	}
	return strings.Join(ts, " × ")
}

/* signature of a function declaration; ok = false when a type is not understood */
func (g *g15) signature(fd *ast.FuncDecl) (sig15, bool) {
	s := sig15{}
	ok := true
	for _, p := range fd.Type.Params.List {
		k := g.kind(p.Type)
		if g.lean(k) == "" {
			ok = false
		}
		for range p.Names {
			s.params = append(s.params, k)
		}
		if len(p.Names) == 0 {
			ok = false
		}
	}
	if fd.Type.Results != nil {
		n := len(fd.Type.Results.List)
		for i, r := range fd.Type.Results.List {
			if len(r.Names) != 0 {
				ok = false
			}
			k := g.kind(r.Type)
			if k == "error" && i == n-1 {
				continue
			}
			if g.lean(k) == "" {
				ok = false
			}
			s.results = append(s.results, k)
		}
	}
	return s, ok
}

func g15HasError(fd *ast.FuncDecl) bool {
	if fd.Type.Results == nil || len(fd.Type.Results.List) == 0 {
		return false
	}
	id, ok := fd.Type.Results.List[len(fd.Type.Results.List)-1].Type.(*ast.Ident)
	return ok && id.Name == "error"
}

/* the signatures of the translated functions of another package */
func (g *g15) external(pkg, rel string, translated map[string]bool) {
	f := parseFile(g.root, rel)
	out := map[string]sig15{}
	saved := g.sname
	g.sname = ""
	for _, d := range f.Decls {
		if fd, ok := d.(*ast.FuncDecl); ok && fd.Recv == nil && translated[fd.Name.Name] && !g15HasError(fd) {
			if s, ok := g.signature(fd); ok && len(s.results) == 1 {
				out[fd.Name.Name] = s
			}
		}
	}
	g.sname = saved
	g.extSigs[pkg] = out
}

/* a package name as the file imports it, unless a variable hides it */
func (g *g15) pkgOf(e ast.Expr) string {
	id, ok := e.(*ast.Ident)
	if !ok {
		return ""
	}
	if _, local := g.scope[id.Name]; local {
		return ""
	}
	return g.imports[id.Name]
}

/* `regexp.MustCompile(<literal>)`: the pattern */
func (g *g15) mustCompile(e ast.Expr) (string, bool) {
	ce, ok := e.(*ast.CallExpr)
	if !ok || len(ce.Args) != 1 || ce.Ellipsis != token.NoPos {
		return "", false
	}
	se, ok := ce.Fun.(*ast.SelectorExpr)
	if !ok || g.pkgOf(se.X) != "regexp" || se.Sel.Name != "MustCompile" {
		return "", false
	}
	bl, ok := ce.Args[0].(*ast.BasicLit)
	if !ok || bl.Kind != token.STRING {
		return "", false
	}
	p, err := strconv.Unquote(bl.Value)
	return p, err == nil
}

func (g *g15) regexpField(pattern, method string) string {
	g.res = append(g.res, re15{pattern, method})
	return fmt.Sprintf("W.re%d", len(g.res))
}

/* translated expression and its kind */
func (g *g15) expr(e ast.Expr) (string, string) {
	bad := func() (string, string) { return g.fail("expression %s", exprFull(e)), "?" }
	switch x := e.(type) {
	case *ast.BasicLit:
		switch x.Kind {
		case token.INT:
			if _, err := strconv.ParseInt(x.Value, 10, 64); err == nil {
				return x.Value, "lit"
			}
		case token.STRING:
			if u, err := strconv.Unquote(x.Value); err == nil {
				return "(Go.str " + leanStr(u) + ")", "string"
			}
		}
	case *ast.Ident:
		if v, ok := g.scope[x.Name]; ok {
			if v.kind == "regexp" {
				return g.fail("the regular expression %s used as a value", x.Name), "?"
			}
			return v.lean, v.kind
		}
		switch x.Name {
		case "true", "false":
			return x.Name, "bool"
		}
	case *ast.ParenExpr:
		s, k := g.expr(x.X)
		return "(" + s + ")", k
	case *ast.UnaryExpr:
		if x.Op == token.AND {
			if cl, ok := x.X.(*ast.CompositeLit); ok {
				return g.composite(cl)
			}
			break
		}
		s, k := g.expr(x.X)
		switch {
		case x.Op == token.NOT && k == "bool":
			return "(!" + s + ")", "bool"
		case x.Op == token.SUB && (k == "int" || k == "lit"):
			return "(-" + s + ")", k
		}
	case *ast.BinaryExpr:
		l, lk := g.expr(x.X)
		r, rk := g.expr(x.Y)
		/* the common kind of two numeric operands: int, uint, or an untyped constant */
		nk := ""
		switch {
		case lk == "lit" && rk == "lit":
			nk = "lit"
		case (lk == "int" || lk == "lit") && (rk == "int" || rk == "lit"):
			nk = "int"
		case (lk == "uint" || lk == "lit") && (rk == "uint" || rk == "lit"):
			nk = "uint"
		}
		switch x.Op {
		case token.ADD:
			if lk == "string" && rk == "string" {
				return "(" + l + " ++ " + r + ")", "string"
			}
			if nk == "int" || nk == "lit" {
				return "(" + l + " + " + r + ")", nk
			}
		case token.SUB:
			/* on uint it wraps: not in the subset */
			if nk == "int" || nk == "lit" {
				return "(" + l + " - " + r + ")", nk
			}
		case token.LSS, token.GTR, token.LEQ, token.GEQ:
			if nk != "" {
				op := map[token.Token]string{token.LSS: "<", token.GTR: ">", token.LEQ: "≤", token.GEQ: "≥"}[x.Op]
				return "decide (" + l + " " + op + " " + r + ")", "bool"
			}
		case token.EQL, token.NEQ:
			if nk != "" || (lk == rk && (lk == "string" || lk == "bool")) {
				op := map[token.Token]string{token.EQL: "=", token.NEQ: "≠"}[x.Op]
				return "decide (" + l + " " + op + " " + r + ")", "bool"
			}
		case token.LAND, token.LOR:
			if lk == "bool" && rk == "bool" {
				if strings.Contains(r, "(←") {
					return g.fail("right operand of %s can panic: %s", x.Op, exprFull(x.Y)), "?"
				}
				op := map[token.Token]string{token.LAND: "&&", token.LOR: "||"}[x.Op]
				return "(" + l + " " + op + " " + r + ")", "bool"
			}
		}
	case *ast.SelectorExpr:
		/* m.field */
		if id, ok := x.X.(*ast.Ident); ok {
			if v, ok := g.scope[id.Name]; ok && v.kind == "struct" {
				for _, f := range g.fields {
					if f.lean == x.Sel.Name {
						return v.lean + "." + g15Ident(f.lean), f.kind
					}
				}
				return g.fail("%s has no field %s", g.sname, x.Sel.Name), "?"
			}
		}
	case *ast.IndexExpr:
		base, bk := g.expr(x.X)
		if bk == "strs" {
			i, ik := g.expr(x.Index)
			if ik == "int" || ik == "lit" {
				return "(← Go.index " + base + " " + i + ")", "string"
			}
		}
	case *ast.CompositeLit:
		return g.composite(x)
	case *ast.CallExpr:
		return g.call(x)
	}
	return bad()
}

/* `[]string{…}`, `T{field: value, …}` */
func (g *g15) composite(x *ast.CompositeLit) (string, string) {
	bad := func() (string, string) { return g.fail("composite literal %s", exprString(x.Type)), "?" }
	switch g.kind(x.Type) {
	case "strs":
		els := []string{}
		for _, el := range x.Elts {
			s, k := g.expr(el)
			if k != "string" {
				return bad()
			}
			els = append(els, s)
		}
		return "[" + strings.Join(els, ", ") + "]", "strs"
	case "struct":
		if _, isStar := x.Type.(*ast.StarExpr); isStar {
			return bad()
		}
		given := map[string]string{}
		for _, el := range x.Elts {
			kv, ok := el.(*ast.KeyValueExpr)
			if !ok {
				return bad()
			}
			key, ok := kv.Key.(*ast.Ident)
			if !ok {
				return bad()
			}
			fk := ""
			for _, f := range g.fields {
				if f.lean == key.Name {
					fk = f.kind
				}
			}
			v, k := g.expr(kv.Value)
			if _, dup := given[key.Name]; dup || fk == "" || !g15Fits(k, fk) {
				return g.fail("field %s of the literal", key.Name), "?"
			}
			given[key.Name] = v
		}
		parts := []string{}
		for _, f := range g.fields {
			v, ok := given[f.lean]
			if !ok {
				v = g15Zero(f.kind)
			}
			parts = append(parts, g15Ident(f.lean)+" := "+v)
		}
		return "({ " + strings.Join(parts, ", ") + " } : " + g.sname + ")", "struct"
	}
	return bad()
}

func (g *g15) call(x *ast.CallExpr) (string, string) {
	bad := func() (string, string) { return g.fail("call %s", exprFull(x)), "?" }
	args := make([]string, len(x.Args))
	kinds := make([]string, len(x.Args))
	evalArgs := func() {
		for i, a := range x.Args {
			args[i], kinds[i] = g.expr(a)
		}
	}
	want := func(ks ...string) bool {
		if len(ks) != len(kinds) || x.Ellipsis != token.NoPos {
			return false
		}
		for i, k := range ks {
			if !g15Fits(kinds[i], k) {
				return false
			}
		}
		return true
	}
	switch fn := x.Fun.(type) {
	case *ast.Ident:
		if _, local := g.scope[fn.Name]; local {
			return bad()
		}
		switch fn.Name {
		case "len":
			evalArgs()
			if want("strs") {
				return "(Go.len " + args[0] + ")", "int"
			}
			return bad()
		case "append":
			evalArgs()
			if want("strs", "string") {
				return "(" + args[0] + " ++ [" + args[1] + "])", "strs"
			}
			return bad()
		}
		if sig, ok := g.sigs[fn.Name]; ok && sig.recv == "" {
			evalArgs()
			if !want(sig.params...) || len(sig.results) != 1 {
				return bad()
			}
			return "(← " + fn.Name + " c expand W " + strings.Join(args, " ") + ")", sig.results[0]
		}
	case *ast.SelectorExpr:
		/* regexp.MustCompile(<literal>).FindStringSubmatch(s) */
		if pat, ok := g.mustCompile(fn.X); ok {
			evalArgs()
			if fn.Sel.Name == "FindStringSubmatch" && want("string") {
				return "(" + g.regexpField(pat, "FindStringSubmatch") + " " + args[0] + ")", "strs"
			}
			return bad()
		}
		pkg := g.pkgOf(fn.X)
		if pkg == "" {
			return bad()
		}
		evalArgs()
		name := fn.Sel.Name
		switch pkg {
		case "servitor/style", "servitor/ansi":
			short := strings.TrimPrefix(pkg, "servitor/")
			sig, ok := g.extSigs[short][name]
			if !ok {
				return g.fail("%s.%s is not among the translated functions", short, name), "?"
			}
			if !want(sig.params...) {
				return bad()
			}
			if short == "style" {
				return "(← GenStyle." + name + " c " + strings.Join(args, " ") + ")", sig.results[0]
			}
			return "(← GenAnsiH." + name + " expand " + strings.Join(args, " ") + ")", sig.results[0]
		case "strings":
			switch name {
			case "Split":
				if want("string", "string") {
					if bl, ok := x.Args[1].(*ast.BasicLit); ok {
						if u, err := strconv.Unquote(bl.Value); err == nil && len([]rune(u)) == 1 {
							return fmt.Sprintf("(Go.Strings.splitChar %s (Char.ofNat %d))", args[0], []rune(u)[0]), "strs"
						}
					}
				}
			case "Join":
				if want("strs", "string") {
					return "(Go.Strings.join " + args[0] + " " + args[1] + ")", "string"
				}
			case "HasPrefix":
				if want("string", "string") {
					return "(Go.Strings.hasPrefix " + args[0] + " " + args[1] + ")", "bool"
				}
			case "TrimPrefix":
				if want("string", "string") {
					return "(Go.Strings.trimPrefix " + args[0] + " " + args[1] + ")", "string"
				}
			case "TrimSuffix":
				if want("string", "string") {
					return "(Go.Strings.trimSuffix " + args[0] + " " + args[1] + ")", "string"
				}
			case "Trim":
				if _, lit := x.Args[len(x.Args)-1].(*ast.BasicLit); lit && want("string", "string") {
					return "(Go.Strings.trim " + args[0] + " " + args[1] + ")", "string"
				}
			case "TrimSpace":
				if want("string") {
					return "(Go.Strings.trimSpace " + args[0] + ")", "string"
				}
			}
		}
	}
	return bad()
}

func g15Ident(n string) string { return h8Ident(n) }

/* a Lean name for a Go variable: fresh in the function, since Go lets an inner scope declare a
   name again and Lean does not let a mutable variable be shadowed */
func (g *g15) fresh(name string) string {
	base := g15Ident(name)
	cand := base
	for i := 1; g.used[cand]; i++ {
		cand = fmt.Sprintf("%s%d", strings.TrimSuffix(base, "_")+"_", i)
	}
	g.used[cand] = true
	return cand
}

func (g *g15) declare(ind int, name, kind, value string) {
	if kind == "lit" {
		kind = "int"
	}
	if name == "_" {
		g.line(ind, g.fail("declaration of _"))
		return
	}
	if g.lean(kind) == "" {
		g.line(ind, g.fail("declaration of %s: type not understood", name))
		return
	}
	ln := g.fresh(name)
	g.scope[name] = v15{ln, kind}
	g.line(ind, "let mut "+ln+" : "+g.lean(kind)+" := "+value)
}

/* variables declared in a nested block go out of scope with it */
func (g *g15) scoped(f func()) {
	saved := map[string]v15{}
	for k, v := range g.scope {
		saved[k] = v
	}
	f()
	g.scope = saved
}

func (g *g15) block(ind int, list []ast.Stmt) {
	if len(list) == 0 {
		g.line(ind, "pure ()")
	}
	for _, st := range list {
		g.stmt(ind, st)
	}
}

func (g *g15) boolExpr(e ast.Expr) string {
	s, k := g.expr(e)
	if k != "bool" {
		return g.fail("condition %s is not a bool", exprFull(e))
	}
	return s
}

func (g *g15) stmt(ind int, st ast.Stmt) {
	switch s := st.(type) {
	case *ast.BlockStmt:
		g.scoped(func() { g.block(ind, s.List) })
	case *ast.EmptyStmt:
	case *ast.ReturnStmt:
		g.ret(ind, s)
	case *ast.BranchStmt:
		if s.Label != nil || g.loops == 0 {
			g.line(ind, g.fail("branch statement %s", s.Tok))
			return
		}
		switch s.Tok {
		case token.CONTINUE:
			g.line(ind, "continue")
		case token.BREAK:
			g.line(ind, "break")
		default:
			g.line(ind, g.fail("branch statement %s", s.Tok))
		}
	case *ast.IfStmt:
		g.scoped(func() {
			if s.Init != nil {
				as, ok := s.Init.(*ast.AssignStmt)
				if !ok || as.Tok != token.DEFINE {
					g.line(ind, g.fail("if with an init statement that is not a :="))
					return
				}
				g.stmt(ind, as)
			}
			g.line(ind, "if "+g.boolExpr(s.Cond)+" then")
			g.scoped(func() { g.block(ind+1, s.Body.List) })
			if s.Else != nil {
				g.line(ind, "else")
				switch e := s.Else.(type) {
				case *ast.BlockStmt:
					g.scoped(func() { g.block(ind+1, e.List) })
				default:
					g.stmt(ind+1, e)
				}
			}
		})
	case *ast.AssignStmt:
		g.assign(ind, s)
	case *ast.RangeStmt:
		g.rangeLoop(ind, s)
	default:
		g.line(ind, g.fail("statement %T", st))
	}
}

func (g *g15) ret(ind int, s *ast.ReturnStmt) {
	fd := g.funcs[g.fn]
	sig := g.sigs[g.fn]
	results := s.Results
	if g15HasError(fd) {
		if len(results) == 0 || !isIdent(results[len(results)-1], "nil") {
			g.line(ind, g.fail("a return whose error is not the literal nil"))
			return
		}
		if _, hidden := g.scope["nil"]; hidden {
			g.line(ind, g.fail("nil is a variable here"))
			return
		}
		results = results[:len(results)-1]
	}
	if len(results) != len(sig.results) {
		g.line(ind, g.fail("return arity"))
		return
	}
	vals := []string{}
	for i, r := range results {
		v, k := g.expr(r)
		if !g15Fits(k, sig.results[i]) {
			v = g.fail("return of a %s where the function returns %s", k, sig.results[i])
		}
		vals = append(vals, v)
	}
	if sig.recvMut {
		vals = append(vals, g.scope[sig.recv].lean)
	}
	switch len(vals) {
	case 0:
		g.line(ind, "return ()")
	case 1:
		g.line(ind, "return "+vals[0])
	default:
		g.line(ind, "return ("+strings.Join(vals, ", ")+")")
	}
}

/* the k-th component of a right-nested tuple of n */
func g15Proj(t string, k, n int) string {
	s := t
	for i := 0; i < k; i++ {
		s += ".2"
	}
	if k < n-1 {
		s += ".1"
	}
	return s
}

func (g *g15) assign(ind int, s *ast.AssignStmt) {
	/* a, b := f(…) for a function of the file */
	if len(s.Lhs) > 1 {
		if s.Tok != token.DEFINE || len(s.Rhs) != 1 {
			g.line(ind, g.fail("multiple assignment"))
			return
		}
		ce, ok := s.Rhs[0].(*ast.CallExpr)
		if !ok {
			g.line(ind, g.fail("multiple assignment"))
			return
		}
		fn, ok := ce.Fun.(*ast.Ident)
		sig, known := sig15{}, false
		if ok {
			sig, known = g.sigs[fn.Name]
		}
		if _, local := g.scope[exprString(ce.Fun)]; !ok || !known || local || sig.recv != "" || len(sig.results) != len(s.Lhs) || ce.Ellipsis != token.NoPos || len(ce.Args) != len(sig.params) {
			g.line(ind, g.fail("multiple assignment from %s", exprFull(ce)))
			return
		}
		if g15HasError(g.funcs[fn.Name]) {
			/* the caller would also bind the error */
			g.line(ind, g.fail("call of %s, which has an error result", fn.Name))
			return
		}
		args := []string{}
		for i, a := range ce.Args {
			v, k := g.expr(a)
			if !g15Fits(k, sig.params[i]) {
				v = g.fail("argument %d of %s", i+1, fn.Name)
			}
			args = append(args, v)
		}
		g.tmp++
		t := fmt.Sprintf("r%d_", g.tmp)
		g.line(ind, "let "+t+" ← "+fn.Name+" c expand W "+strings.Join(args, " "))
		for i, l := range s.Lhs {
			id, ok := l.(*ast.Ident)
			if !ok {
				g.line(ind, g.fail("assignment target %s", exprFull(l)))
				continue
			}
			if id.Name == "_" {
				continue
			}
			g.declare(ind, id.Name, sig.results[i], g15Proj(t, i, len(s.Lhs)))
		}
		return
	}
	if len(s.Lhs) != 1 || len(s.Rhs) != 1 {
		g.line(ind, g.fail("multiple assignment"))
		return
	}
	/* m.field = e on the receiver */
	if se, ok := s.Lhs[0].(*ast.SelectorExpr); ok {
		id, ok := se.X.(*ast.Ident)
		sig := g.sigs[g.fn]
		if !ok || s.Tok != token.ASSIGN || sig.recv == "" || id.Name != sig.recv || g.scope[id.Name].kind != "struct" {
			g.line(ind, g.fail("assignment target %s", exprFull(s.Lhs[0])))
			return
		}
		fk := ""
		for _, f := range g.fields {
			if f.lean == se.Sel.Name {
				fk = f.kind
			}
		}
		v, k := g.expr(s.Rhs[0])
		if fk == "" || !g15Fits(k, fk) {
			g.line(ind, g.fail("assignment %s = %s", exprFull(s.Lhs[0]), exprFull(s.Rhs[0])))
			return
		}
		m := g.scope[id.Name].lean
		g.line(ind, m+" := { "+m+" with "+g15Ident(se.Sel.Name)+" := "+v+" }")
		return
	}
	id, ok := s.Lhs[0].(*ast.Ident)
	if !ok {
		g.line(ind, g.fail("assignment target %s", exprFull(s.Lhs[0])))
		return
	}
	if s.Tok == token.DEFINE {
		/* v := regexp.MustCompile(<literal>): nothing happens until v is asked something */
		if pat, ok := g.mustCompile(s.Rhs[0]); ok {
			g.scope[id.Name] = v15{pat, "regexp"}
			g.line(ind, "-- "+id.Name+" := regexp.MustCompile("+strings.ReplaceAll(leanStr(pat), "-/", "- /")+")")
			return
		}
		if g.replaceAll(ind, id.Name, s.Rhs[0]) {
			return
		}
		v, k := g.expr(s.Rhs[0])
		g.declare(ind, id.Name, k, v)
		return
	}
	v, k := g.expr(s.Rhs[0])
	tv, known := g.scope[id.Name]
	if !known || tv.kind == "regexp" || tv.kind == "loopvar" {
		g.line(ind, g.fail("assignment to %s", id.Name))
		return
	}
	same := g15Fits(k, tv.kind)
	switch {
	case s.Tok == token.ASSIGN && same:
		g.line(ind, tv.lean+" := "+v)
	case s.Tok == token.ADD_ASSIGN && same && tv.kind == "string":
		g.line(ind, tv.lean+" := ("+tv.lean+" ++ "+v+")")
	case s.Tok == token.ADD_ASSIGN && same && tv.kind == "int":
		g.line(ind, tv.lean+" := ("+tv.lean+" + "+v+")")
	case s.Tok == token.SUB_ASSIGN && same && tv.kind == "int":
		g.line(ind, tv.lean+" := ("+tv.lean+" - "+v+")")
	default:
		g.line(ind, g.fail("assignment %s %s %s", id.Name, s.Tok, exprFull(s.Rhs[0])))
	}
}

/* `x := v.ReplaceAllStringFunc(s, func(p string) string { …; return e })`; false when the
   right-hand side is not of that form at all */
func (g *g15) replaceAll(ind int, name string, rhs ast.Expr) bool {
	ce, ok := rhs.(*ast.CallExpr)
	if !ok {
		return false
	}
	se, ok := ce.Fun.(*ast.SelectorExpr)
	if !ok {
		return false
	}
	rid, ok := se.X.(*ast.Ident)
	if !ok || g.scope[rid.Name].kind != "regexp" {
		return false
	}
	bad := func(why string) bool {
		g.line(ind, g.fail("%s: %s", exprFull(ce), why))
		return true
	}
	if se.Sel.Name != "ReplaceAllStringFunc" || len(ce.Args) != 2 || ce.Ellipsis != token.NoPos {
		return bad("only ReplaceAllStringFunc(s, func) is understood of a regular expression variable")
	}
	fl, ok := ce.Args[1].(*ast.FuncLit)
	if !ok {
		return bad("the replacement is not a function literal")
	}
	ps := fl.Type.Params.List
	if len(ps) != 1 || len(ps[0].Names) != 1 || g.kind(ps[0].Type) != "string" ||
		fl.Type.Results == nil || len(fl.Type.Results.List) != 1 || len(fl.Type.Results.List[0].Names) != 0 || g.kind(fl.Type.Results.List[0].Type) != "string" {
		return bad("signature of the function literal")
	}
	n := len(fl.Body.List)
	returns, nested := 0, 0
	ast.Inspect(fl.Body, func(q ast.Node) bool {
		switch q.(type) {
		case *ast.ReturnStmt:
			returns++
		case *ast.FuncLit:
			nested++
		}
		return true
	})
	var last *ast.ReturnStmt
	if n > 0 {
		last, _ = fl.Body.List[n-1].(*ast.ReturnStmt)
	}
	if last == nil || returns != 1 || nested != 0 || len(last.Results) != 1 {
		return bad("the function literal must end with its only return")
	}
	src, sk := g.expr(ce.Args[0])
	if sk != "string" || strings.Contains(src, "(←") {
		return bad("the text searched")
	}
	field := g.regexpField(g.scope[rid.Name].lean, "ReplaceAllStringFunc")
	/* the variable being declared is not in scope inside the function literal */
	acc := g.fresh(name)
	g.tmp++
	piece := fmt.Sprintf("piece%d_", g.tmp)
	g.line(ind, "let mut "+acc+" : Str := []")
	g.line(ind, "for "+piece+" in ("+field+" "+src+") do")
	g.line(ind+1, "if "+piece+".hit then")
	g.scoped(func() {
		loops := g.loops
		g.loops = 0 // a break or continue inside the literal would not be about this loop
		g.declare(ind+2, ps[0].Names[0].Name, "string", piece+".text")
		g.block(ind+2, fl.Body.List[:n-1])
		v, k := g.expr(last.Results[0])
		if k != "string" {
			v = g.fail("the function literal returns a %s", k)
		}
		g.line(ind+2, acc+" := ("+acc+" ++ "+v+")")
		g.loops = loops
	})
	g.line(ind+1, "else")
	g.line(ind+2, acc+" := ("+acc+" ++ "+piece+".text)")
	g.scope[name] = v15{acc, "string"}
	return true
}

/* `for _, x := range xs` */
func (g *g15) rangeLoop(ind int, s *ast.RangeStmt) {
	if k, ok := s.Key.(*ast.Ident); !ok || k.Name != "_" || s.Tok != token.DEFINE {
		g.line(ind, g.fail("range form (only `for _, x := range xs`)"))
		return
	}
	v, ok := s.Value.(*ast.Ident)
	if !ok || v.Name == "_" {
		g.line(ind, g.fail("range form (only `for _, x := range xs`)"))
		return
	}
	xs, k := g.expr(s.X)
	if k != "strs" || strings.Contains(xs, "(←") {
		g.line(ind, g.fail("range over %s", exprFull(s.X)))
		return
	}
	/* Go evaluates the range expression once and the element variable is a copy */
	if assigned := h8Assigned(s.Body); assigned[v.Name] {
		g.line(ind, g.fail("the body assigns the range variable %s", v.Name))
		return
	}
	g.scoped(func() {
		ln := g.fresh(v.Name)
		g.scope[v.Name] = v15{ln, "string"}
		g.line(ind, "for "+ln+" in "+xs+" do")
		g.loops++
		g.block(ind+1, s.Body.List)
		g.loops--
	})
}

/* does the body assign to a field of the receiver */
func g15AssignsField(fd *ast.FuncDecl, recv string) bool {
	found := false
	ast.Inspect(fd.Body, func(q ast.Node) bool {
		switch s := q.(type) {
		case *ast.AssignStmt:
			for _, l := range s.Lhs {
				if se, ok := l.(*ast.SelectorExpr); ok && isIdent(se.X, recv) {
					found = true
				}
			}
		case *ast.IncDecStmt:
			if se, ok := s.X.(*ast.SelectorExpr); ok && isIdent(se.X, recv) {
				found = true
			}
		}
		return true
	})
	return found
}

func (g *g15) function(fd *ast.FuncDecl) {
	g.fn = fd.Name.Name
	g.scope = map[string]v15{}
	g.used = map[string]bool{"c": true, "expand_": true, "W": true}
	g.loops = 0
	g.tmp = 0
	sig := g.sigs[g.fn]
	assigned := h8Assigned(fd.Body)
	params := []string{"(c : Colors)", "(expand : Str → List Go.Match)", "(W : Ext)"}
	rebind := []string{}
	bind := func(name, kind string, mutated bool) {
		t := g.lean(kind)
		if t == "" {
			t = g.fail("type of %s", name)
		}
		ln := g.fresh(name)
		g.scope[name] = v15{ln, kind}
		if mutated {
			params = append(params, "("+ln+"0 : "+t+")")
			rebind = append(rebind, "let mut "+ln+" : "+t+" := "+ln+"0")
		} else {
			params = append(params, "("+ln+" : "+t+")")
		}
	}
	if fd.Recv != nil {
		bind(sig.recv, "struct", sig.recvMut)
		if assigned[sig.recv] {
			g.line(0, "-- "+g.fail("the receiver itself is assigned"))
		}
	}
	i := 0
	for _, p := range fd.Type.Params.List {
		for _, n := range p.Names {
			bind(n.Name, sig.params[i], assigned[n.Name])
			i++
		}
	}
	results := append([]string{}, sig.results...)
	if sig.recvMut {
		results = append(results, "struct")
	}
	rt := "Unit"
	if len(results) > 0 {
		rt = g.tuple(results)
	}
	for _, k := range results {
		if g.lean(k) == "" {
			rt = g.fail("result type")
		}
	}
	what := "`func " + g.fn + "`"
	if fd.Recv != nil {
		what = "`func (" + sig.recv + " *" + g.sname + ") " + g.fn + "`"
		if sig.recvMut {
			what += ": the results, then the receiver as the method leaves it"
		}
	}
	g.line(0, "/-- "+what+" -/")
	g.line(0, fmt.Sprintf("def %s %s : Except Panic %s := do", g.fn, strings.Join(params, " "), paren(rt)))
	for _, r := range rebind {
		g.line(1, r)
	}
	g.block(1, fd.Body.List)
	g.line(0, "")
}

func translateMarkupPackage(root, rel, ns string) (string, []string) {
	f := parseFile(root, rel)
	g := &g15{root: root, pkg: f.Name.Name, imports: map[string]string{}, funcs: map[string]*ast.FuncDecl{},
		sigs: map[string]sig15{}, extSigs: map[string]map[string]sig15{}}
	g.fn = "(declarations)"
	for _, im := range f.Imports {
		p, _ := strconv.Unquote(im.Path.Value)
		name := p[strings.LastIndex(p, "/")+1:]
		if im.Name != nil {
			name = im.Name.Name
		}
		g.imports[name] = p
	}
	g.external("style", "style/style.go", g15Style)
	g.external("ansi", "ansi/ansi.go", g15Ansi)

	var head strings.Builder
	order := []string{}
	for _, d := range f.Decls {
		switch x := d.(type) {
		case *ast.GenDecl:
			switch x.Tok {
			case token.IMPORT:
			case token.TYPE:
				for _, sp := range x.Specs {
					ts := sp.(*ast.TypeSpec)
					st, ok := ts.Type.(*ast.StructType)
					if !ok || g.sname != "" || ts.TypeParams != nil {
						head.WriteString("-- " + g.fail("type declaration %s (one struct type is understood)", ts.Name.Name) + "\n")
						continue
					}
					g.sname = ts.Name.Name
					for _, fl := range st.Fields.List {
						k := g.kind(fl.Type)
						if g15Zero(k) == "" || len(fl.Names) == 0 {
							head.WriteString("-- " + g.fail("field of type %s", exprString(fl.Type)) + "\n")
							continue
						}
						for _, n := range fl.Names {
							g.fields = append(g.fields, v15{n.Name, k})
						}
					}
				}
			default:
				head.WriteString("-- " + g.fail("%s declaration at package level", x.Tok) + "\n")
			}
		case *ast.FuncDecl:
			if _, dup := g.funcs[x.Name.Name]; dup {
				head.WriteString("-- " + g.fail("two declarations named %s", x.Name.Name) + "\n")
				continue
			}
			g.funcs[x.Name.Name] = x
			order = append(order, x.Name.Name)
		}
	}
	/* signatures need the struct name, so after the pass over the declarations */
	for _, n := range order {
		fd := g.funcs[n]
		g.fn = n
		sig, ok := g.signature(fd)
		if !ok {
			head.WriteString("-- " + g.fail("signature") + "\n")
		}
		if fd.Recv != nil {
			r := fd.Recv.List[0]
			_, star := r.Type.(*ast.StarExpr)
			if len(fd.Recv.List) != 1 || len(r.Names) != 1 || g.kind(r.Type) != "struct" {
				head.WriteString("-- " + g.fail("receiver") + "\n")
			} else {
				sig.recv = r.Names[0].Name
				sig.recvMut = g15AssignsField(fd, sig.recv)
				if sig.recvMut && !star {
					/* the assignment would be to the method's own copy */
					head.WriteString("-- " + g.fail("a value receiver whose fields are assigned") + "\n")
				}
			}
		}
		g.sigs[n] = sig
	}
	/* callees before callers */
	calls := func(fd *ast.FuncDecl, name string) bool {
		found := false
		ast.Inspect(fd.Body, func(n ast.Node) bool {
			if ce, ok := n.(*ast.CallExpr); ok && isIdent(ce.Fun, name) {
				found = true
			}
			return true
		})
		return found
	}
	emitted := map[string]bool{}
	visiting := map[string]bool{}
	var visit func(n string)
	visit = func(n string) {
		if emitted[n] {
			return
		}
		if visiting[n] {
			g.fn = n
			g.line(0, "-- "+g.fail("recursion through %s", n))
			return
		}
		visiting[n] = true
		for _, m := range order {
			if m != n && calls(g.funcs[n], m) {
				visit(m)
			}
		}
		if calls(g.funcs[n], n) {
			g.fn = n
			g.line(0, "-- "+g.fail("%s calls itself", n))
		}
		emitted[n] = true
		g.function(g.funcs[n])
	}
	for _, n := range order {
		visit(n)
	}
	bodies := g.b.String()
	g.b.Reset()
	g.line(0, "namespace "+ns)
	g.line(0, "")
	g.b.WriteString(head.String())
	names := []string{}
	for i, r := range g.res {
		g.line(0, fmt.Sprintf("/-- the %s regular expression the code compiles, asked `%s` -/", ordinal15(i+1), r.method))
		g.line(0, fmt.Sprintf("def pattern%d : String := %s", i+1, leanStr(r.pattern)))
		g.line(0, "")
		names = append(names, fmt.Sprintf("pattern%d", i+1))
	}
	g.line(0, "def patterns : List String := ["+strings.Join(names, ", ")+"]")
	g.line(0, "")
	g.line(0, "/-- The regular expressions of "+rel+" as the translated functions call them: one field per")
	g.line(0, "    place where a compiled pattern is asked something, in the order of `patterns`. -/")
	g.line(0, "structure Ext where")
	for i, r := range g.res {
		switch r.method {
		case "FindStringSubmatch":
			g.line(1, fmt.Sprintf("/-- `regexp.MustCompile(pattern%d).FindStringSubmatch`: nil (no match) is the empty list, else the whole match and the groups -/", i+1))
			g.line(1, fmt.Sprintf("re%d : Str → List Str", i+1))
		case "ReplaceAllStringFunc":
			g.line(1, fmt.Sprintf("/-- `regexp.MustCompile(pattern%d).ReplaceAllStringFunc`: the text cut into its matches and what lies between them, in order -/", i+1))
			g.line(1, fmt.Sprintf("re%d : Str → List Go.Piece", i+1))
		}
	}
	g.line(0, "")
	if g.sname != "" {
		g.line(0, "/-- `type "+g.sname+" struct` -/")
		g.line(0, "structure "+g.sname+" where")
		for _, f := range g.fields {
			g.line(1, g15Ident(f.lean)+" : "+g.lean(f.kind))
		}
		g.line(0, "")
	}
	g.b.WriteString(bodies)
	g.line(0, "end "+ns)
	return g.b.String(), g.errs
}

func ordinal15(n int) string {
	names := []string{"", "first", "second", "third", "fourth", "fifth", "sixth", "seventh", "eighth", "ninth", "tenth"}
	if n < len(names) {
		return names[n]
	}
	return fmt.Sprintf("%dth", n)
}

func translateGemtext(root string) (string, []string) {
	a, ea := translateMarkupPackage(root, "gemtext/gemtext.go", "GenGemtext")
	b, eb := translateMarkupPackage(root, "plaintext/plaintext.go", "GenPlaintext")
	return "set_option linter.unusedVariables false\n\n" + a + "\n" + b, append(ea, eb...)
}
